// Package c14 is the correspondence area of property C14 (stub: the slice is not built yet).
package c14

import (
	"math/rand"
)

type Area struct{}

func (Area) Name() string { return "c14" }

func (Area) Exec(input string) string { return "UNIMPLEMENTED" }

func (Area) Gen(r *rand.Rand, tier string, emit func(string)) {}
