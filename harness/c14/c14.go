// Package c14 is the correspondence area of property C14:
//
//	parse <hex> => <ok> <svchex> <methodhex>     the real routing.parseRPCName (export shim, tag verif)
//	hist …                                        claim/keep/release histories over the real ServiceRouter,
//	                                              probed after every step through RouteGRPC (G), ServiceRouter.RouteHTTP on
//	                                              requests parsed by net/http (H), GRPCWebBridge.ServeHTTP (W) and
//	                                              GRPCProxy.StreamHandler (X) — format and execution shared with harness/c06.
package c14

import (
	"fmt"
	"math/rand"
	"strings"

	"github.com/renbou/grpcbridge/routing"
	"verif/harness/c06"
	"verif/harness/c11"
	"verif/harness/common"
)

type Area struct{}

func (Area) Name() string { return "c14" }

func (Area) Exec(input string) string {
	f := strings.Fields(input)
	switch f[0] {
	case "parse":
		svc, m, ok := routing.VerifParseRPCName(string(common.MustUnHex(f[1])))
		if !ok {
			return "0 x x"
		}
		return fmt.Sprintf("1 %s %s", common.HexS(svc), common.HexS(m))
	case "hist":
		return c06.ExecHist(input)
	case "e2e":
		return execE2E(f)
	case "esc":
		return execEsc(f)
	case "stress":
		// uncontrolled contested-claim stress of the C11 slice (real goroutines, no yield points): the earlier
		// claimant must keep a contested service at EVERY instant, not only between operations
		return c11.Area{}.Exec(input)
	}
	return "BADOP"
}

var (
	targets  = []string{"a", "b", "c"}
	svcPool  = []string{"p.S1", "p.S2", "q.T", "p%2ES1", "", "p.S1 x", "p.S1é"}
	gNames   = []string{"/p.S1/M1", "p.S1/M1", "/p.S2/a/b", "/q.T/", "//M", "/p%2ES1/M", "/p.S1", "p.S1", "", "/", "/p.S1 x/M", "/nobody.S/M"}
	hTargets = [][2]string{
		{"POST", "/p.S1/M1"}, {"GET", "/p.S1/M1"}, {"PUT", "/nobody.S/M"}, {"POST", "/p.S1/M1?x=1/2"}, {"POST", "/p.S1/M%20x"},
		{"POST", "/p%2ES1/M1"}, {"POST", "/p.S%31/M1"}, {"POST", "/p.S2/a/b"}, {"POST", "/q.T/"}, {"POST", "//M"}, {"POST", "/p.S1"},
		{"POST", "/"}, {"POST", "/p.S1/M%zz"}, {"POST", "/p.S1\xc3\xa9/M"}, {"POST", "/p.S1%20x/M"}, {"POST", "/nobody.S/M"}, {"POST", "/p.S1/M1?"},
		{"POST", "/p.S2/M%2Fx"}, {"POST", "/p.S2%2FM"},
		// only the exact token POST is the gRPC-style HTTP form (HTTP methods are case-sensitive, RFC 9110 9.1): tokens that equal
		// POST only up to case, near-misses and the other standard methods get the non-POST answer (seeded change C14-m12)
		{"post", "/p.S1/M1"}, {"Post", "/p.S1/M1"}, {"pOST", "/p.S1/M1"}, {"POSt", "/p.S1/M1"}, {"POSTS", "/p.S1/M1"}, {"POS", "/p.S1/M1"},
		{"XPOST", "/p.S1/M1"}, {"post", "/nobody.S/M"}, {"Post", "/p.S2/a/b"}, {"HEAD", "/p.S1/M1"}, {"DELETE", "/p.S1/M1"},
		{"PATCH", "/p.S1/M1"}, {"OPTIONS", "/p.S1/M1"}, {"TRACE", "/p.S1/M1"}, {"CONNECT", "/p.S1/M1"}, {"post", "/"},
	}
	wTargets = []string{"/p.S1/M1", "/p%2ES1/M1", "/p.S%31/M1", "/p.S2/a%2Fb", "/p.S2%2FM", "/q.T/", "//M", "/p.S1", "/p.S1/M%20x?q=1", "/p.S1%20x/M", "/p.S1/%zz", "/nobody.S/M"}
	xNames   = []string{"/p.S1/M1", "p.S2/M", "/p%2ES1/M", "/q.T/a/b", "/nobody.S/M", "bad"}
)

var genStats = map[string]int{}

func (Area) Extra() map[string]any {
	out := map[string]any{}
	for k, v := range genStats {
		out[k] = v
	}
	return map[string]any{"generator": out}
}

// claimMutate: descriptions that only list services (what a reflection resolver with OnlyServices delivers);
// successive descriptions of a target keep, add, drop and re-order claims, often overlapping with the other targets'.
func claimMutate(r *rand.Rand, name string, prev *c06.DescSpec, others []*c06.DescSpec) *c06.DescSpec {
	return claimMutateWith(svcPool)(r, name, prev, others)
}

func claimMutateWith(svcPool []string) func(r *rand.Rand, name string, prev *c06.DescSpec, others []*c06.DescSpec) *c06.DescSpec {
	return func(r *rand.Rand, name string, prev *c06.DescSpec, others []*c06.DescSpec) *c06.DescSpec {
		return claimMut(r, svcPool, name, prev, others)
	}
}

func claimMut(r *rand.Rand, svcPool []string, name string, prev *c06.DescSpec, others []*c06.DescSpec) *c06.DescSpec {
	d := &c06.DescSpec{Name: name}
	if prev != nil && r.Intn(5) != 0 {
		for _, s := range prev.Services {
			if r.Intn(4) != 0 { // keep
				d.Services = append(d.Services, c06.ServiceSpec{Name: s.Name})
			} else {
				genStats["claim:drop"]++
			}
		}
	}
	for i, n := 0, r.Intn(3); i < n; i++ {
		s := common.Pick(r, svcPool)
		if len(others) > 0 && r.Intn(3) == 0 {
			if o := common.Pick(r, others); o != nil && len(o.Services) > 0 {
				s = o.Services[r.Intn(len(o.Services))].Name // claim what somebody else lists
				genStats["claim:overlap"]++
			}
		}
		d.Services = append(d.Services, c06.ServiceSpec{Name: s})
		genStats["claim:add"]++
	}
	if len(d.Services) > 1 && r.Intn(4) == 0 {
		r.Shuffle(len(d.Services), func(i, j int) { d.Services[i], d.Services[j] = d.Services[j], d.Services[i] })
	}
	return d
}

func (Area) Gen(r *rand.Rand, tier string, emit func(string)) {
	parse := func(s string) { emit("parse " + common.HexS(s)) }
	claimMs, claimN := 300, 2
	if tier == "thorough" {
		claimMs, claimN = 1500, 4
	}
	for i := 0; i < claimN; i++ {
		emit(fmt.Sprintf("stress claim %d %d", r.Int63n(1<<30), claimMs))
	}
	// exhaustive: every string of length ≤ 5 (quick) / ≤ 7 (thorough) over {/ . a % 2 F}
	ex := []byte("/.a%2F")
	maxLen := 5
	if tier == "thorough" {
		maxLen = 7
	}
	var rec func(prefix []byte)
	rec = func(prefix []byte) {
		parse(string(prefix))
		if len(prefix) == maxLen {
			return
		}
		for _, c := range ex {
			rec(append(append([]byte{}, prefix...), c))
		}
	}
	rec(nil)
	n := 5000
	if tier == "thorough" {
		n = 200000
	}
	for i := 0; i < n; i++ {
		switch r.Intn(4) {
		case 0: // well-formed-ish
			s := common.Pick(r, []string{"", "/", "//"}) + common.Pick(r, svcPool) + common.Pick(r, []string{"/", "", "//", "/M/"}) + string(common.RandBytes(r, r.Intn(6), []byte("Mab/.%")))
			parse(s)
		case 1:
			parse(string(common.RandBytes(r, r.Intn(12), []byte("/.ab%2F_ "))))
		default:
			parse(string(common.RandBytes(r, r.Intn(10), nil)))
		}
	}

	// end to end: real grpc client -> real GRPCProxy (UnknownServiceHandler) -> real target, names at the edge of the grammar
	long := strings.Repeat("LongMethodName", 560) // 7840 bytes
	longSvc := "p." + strings.Repeat("VeryLongService", 200)
	hexList := func(l []string) string {
		if len(l) == 0 {
			return "-"
		}
		var hs []string
		for _, x := range l {
			hs = append(hs, common.HexS(x))
		}
		return strings.Join(hs, ",")
	}
	aSvcs := []string{"p.S1", "", "p%2ES1", "p.S1\xc3\xa9", "p.S1 x", longSvc, "p.S1?x=1", ".."}
	bSvcs := []string{"p.S1", "q.T", "p.S2", "p.S1%20x", "p"}
	e2eLine := func(name string, as, bs []string) {
		emit(fmt.Sprintf("e2e %s %s %s", common.HexS(name), hexList(as), hexList(bs)))
	}
	e2eNames := []string{
		"/p.S1/M1", "p.S1/M1", "/q.T/M", "q.T/M", "//M", "/M", "///", "//", "/", "", "/p.S1/", "/p.S1", "p.S1", "/p.S1/a/b/c", "/p.S1//M",
		"/p.S2/M/", "/p%2ES1/M", "/p.S1/M%20x", "/p.S1%20x/M", "/p.S1 x/M y", "/p.S1\xc3\xa9/M\xc3\xa9", "/p.S%31/M1", "/p.S2%2FM",
		"/p.S1?x=1/M?y=2", "/p.S1/M#frag", "/../..", "/./M", "/p/S1/M", "/nobody.S/M", "nobody", "/p.S1/" + long, "/" + longSvc + "/M",
		"p.S1/" + long, "/q.T/%", "/q.T/%zz", "/Q.T/M", "/p.s1/M1", "/p.S1/M1/", "/ p.S1/M1", "/p.S1/ M1", "/p.S1/M1 ", "/p.S1./M",
	}
	for _, nm := range e2eNames {
		e2eLine(nm, aSvcs, bSvcs)
	}
	e2eLine("/p.S1/M1", nil, bSvcs)           // only b lists it
	e2eLine("/p.S1/M1", nil, nil)             // nobody
	e2eLine("/q.T/M", []string{"q.T"}, bSvcs) // contested the other way: a claimed first
	ne := 150
	if tier == "thorough" {
		ne = 3000
	}
	for i := 0; i < ne; i++ {
		var nm string
		switch r.Intn(3) {
		case 0:
			nm = common.Pick(r, []string{"", "/", "//"}) + common.Pick(r, append(append([]string{}, aSvcs...), bSvcs...)) +
				common.Pick(r, []string{"/", "", "//", "/M/"}) + string(common.RandBytes(r, r.Intn(8), []byte("Mab/.%2F \xc3\xa9?#")))
		case 1:
			nm = string(common.RandBytes(r, r.Intn(14), []byte("/.pST12q%F_ ?")))
		default: // any bytes an HTTP/2 header value may carry (no control bytes)
			b := common.RandBytes(r, r.Intn(12), nil)
			for j := range b {
				if b[j] < 0x20 || b[j] == 0x7f {
					b[j] = '/'
				}
			}
			nm = string(b)
		}
		var as, bs []string
		for _, x := range aSvcs {
			if r.Intn(3) != 0 {
				as = append(as, x)
			}
		}
		for _, x := range bSvcs {
			if r.Intn(3) != 0 {
				bs = append(bs, x)
			}
		}
		if r.Intn(4) == 0 {
			if svc, _, ok := strings.Cut(strings.TrimPrefix(nm, "/"), "/"); ok {
				bs = append(bs, svc) // b claims exactly the service the name spells
			}
		}
		e2eLine(nm, as, bs)
	}

	genEsc(r, tier, emit)

	g := func() []*string {
		var gs []*string
		for i := range gNames {
			gs = append(gs, &gNames[i])
		}
		return append(gs, nil)
	}()
	base := &c06.Line{Pool: targets, G: g, H: hTargets, W: wTargets, X: xNames}

	// exhaustive short claim histories: two targets, one contested service and one private each
	mk := func(name string, svcs ...string) *c06.DescSpec {
		d := &c06.DescSpec{Name: name}
		for _, s := range svcs {
			d.Services = append(d.Services, c06.ServiceSpec{Name: s})
		}
		return d
	}
	alpha := []c06.Op{{Kind: 'w', Name: "a"}, {Kind: 'w', Name: "b"}, {Kind: 'c', Name: "a"}, {Kind: 'c', Name: "b"},
		{Kind: 'u', Name: "a", Desc: mk("a", "p.S1", "p.S2")}, {Kind: 'u', Name: "a", Desc: mk("a", "p.S2")},
		{Kind: 'u', Name: "b", Desc: mk("b", "q.T", "p.S1")}, {Kind: 'u', Name: "b", Desc: mk("b")}}
	maxH := 4
	if tier == "thorough" {
		maxH = 5
	}
	small := &c06.Line{Pool: targets, G: g[:4], H: append(append([][2]string{}, hTargets[:3]...), [2]string{"post", "/p.S1/M1"}, [2]string{"Post", "/p.S1/M1"}),
		W: wTargets[:2], X: xNames[:2]}
	var rech func(prefix []c06.Op)
	rech = func(prefix []c06.Op) {
		if len(prefix) > 0 {
			l := *small
			l.Ops = prefix
			emit(l.String())
		}
		if len(prefix) == maxH {
			return
		}
		for _, o := range alpha {
			rech(append(append([]c06.Op{}, prefix...), o))
		}
	}
	rech(nil)

	nh, maxOps := 250, 12
	if tier == "thorough" {
		nh, maxOps = 5000, 30
	}
	for i := 0; i < nh; i++ {
		l := *base
		if r.Intn(8) == 0 {
			l.Pool = targets[:2] // "c" has no pooled connection: Unavailable
		}
		if i%3 == 1 { // churn: two targets, two services, frequent close / re-watch
			l.Ops = c06.GenHistory(r, 2+r.Intn(maxOps-1), true, claimMutateWith(svcPool[:2]))
		} else if i%3 == 2 { // contest: three claimants, two services (release of contested services, fix D31)
			l.Ops = c06.GenHistoryMode(r, 3+r.Intn(maxOps-2), c06.ModeContest, claimMutateWith(svcPool[:2]))
		} else {
			l.Ops = c06.GenHistory(r, 2+r.Intn(maxOps-1), false, claimMutate)
		}
		emit(l.String())
	}
}
