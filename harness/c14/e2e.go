package c14

// End-to-end tie of the assumption "grpc.Method(ctx) is the HTTP/2 :path verbatim":
//
//	e2e <namehex> <a-services> <b-services>     (service lists: comma-separated hex, "-" = none)
//
// a REAL *grpc.ClientConn opens a stream named <name> (sent verbatim as :path by gRPC-Go) on a REAL grpc.Server
// whose UnknownServiceHandler is the REAL grpcbridge.GRPCProxy (default ProxyForwarder) over the REAL
// routing.ServiceRouter and a REAL grpcadapter.AdaptedClientPool with connections to two REAL target servers
// "a" and "b" (bufconn). Target a claims <a-services> first, then b claims <b-services>. Each target answers
// every method with its own name and the method string IT saw.
//
// output:  <code> <target|-> <seenhex|-> raw=<hex|->
//
//	code    status code the client got
//	target  which target answered
//	seen    the method name the target saw (grpc.Method in its handler)
//	raw     what grpc.Method(ctx) returned inside the proxy's RouteGRPC ("-" = the router was never asked: the gRPC
//	        server itself rejected the stream)

import (
	"context"
	"fmt"
	"net"
	"strings"
	"sync"
	"time"

	"github.com/renbou/grpcbridge"
	"github.com/renbou/grpcbridge/bridgedesc"
	"github.com/renbou/grpcbridge/grpcadapter"
	"github.com/renbou/grpcbridge/routing"
	"google.golang.org/grpc"
	"google.golang.org/grpc/credentials/insecure"
	"google.golang.org/grpc/status"
	"google.golang.org/grpc/test/bufconn"
	"google.golang.org/protobuf/reflect/protoreflect"
	"google.golang.org/protobuf/types/known/wrapperspb"

	"verif/harness/common"
)

type e2eTarget struct {
	name string
	lis  *bufconn.Listener
	srv  *grpc.Server
}

func newE2ETarget(name string) *e2eTarget {
	t := &e2eTarget{name: name, lis: bufconn.Listen(1 << 20)}
	t.srv = grpc.NewServer(grpc.UnknownServiceHandler(func(_ any, ss grpc.ServerStream) error {
		m, _ := grpc.Method(ss.Context())
		return ss.SendMsg(&wrapperspb.BytesValue{Value: []byte(name + "\x00" + m)})
	}))
	go func() { _ = t.srv.Serve(t.lis) }()
	return t
}

func (t *e2eTarget) dial(string, ...grpc.DialOption) (*grpc.ClientConn, error) {
	return grpc.NewClient("passthrough:///c14-"+t.name,
		grpc.WithContextDialer(func(ctx context.Context, _ string) (net.Conn, error) { return t.lis.DialContext(ctx) }),
		grpc.WithTransportCredentials(insecure.NewCredentials()))
}

// recordingRouter notes what grpc.Method(ctx) answers for the context the proxy hands to RouteGRPC.
type recordingRouter struct {
	routing.GRPCRouter
	mu  sync.Mutex
	raw *string
}

func (r *recordingRouter) RouteGRPC(ctx context.Context) (grpcadapter.ClientConn, routing.GRPCRoute, error) {
	if m, ok := grpc.Method(ctx); ok {
		r.mu.Lock()
		r.raw = &m
		r.mu.Unlock()
	}
	return r.GRPCRouter.RouteGRPC(ctx)
}

type e2eEnv struct {
	a, b   *e2eTarget
	pool   *grpcadapter.AdaptedClientPool
	lis    *bufconn.Listener
	srv    *grpc.Server
	cc     *grpc.ClientConn
	rec    *recordingRouter
	sr     *routing.ServiceRouter
	wa, wb *routing.ServiceRouterWatcher
}

var (
	e2eOnce sync.Once
	e2e     *e2eEnv
	e2eMu   sync.Mutex
)

func e2eSetup() {
	e := &e2eEnv{a: newE2ETarget("a"), b: newE2ETarget("b")}
	dialers := map[string]*e2eTarget{"c14-a": e.a, "c14-b": e.b}
	e.pool = grpcadapter.NewAdaptedClientPool(grpcadapter.AdaptedClientPoolOpts{
		NewClientFunc: func(target string, opts ...grpc.DialOption) (*grpc.ClientConn, error) {
			return dialers[target].dial(target, opts...)
		},
	})
	if _, err := e.pool.New("a", "c14-a"); err != nil {
		panic(err)
	}
	if _, err := e.pool.New("b", "c14-b"); err != nil {
		panic(err)
	}
	e.sr = routing.NewServiceRouter(e.pool, routing.ServiceRouterOpts{})
	var err error
	if e.wa, err = e.sr.Watch("a"); err != nil {
		panic(err)
	}
	if e.wb, err = e.sr.Watch("b"); err != nil {
		panic(err)
	}
	e.rec = &recordingRouter{GRPCRouter: e.sr}
	proxy := grpcbridge.NewGRPCProxy(e.rec)
	e.lis = bufconn.Listen(1 << 20)
	e.srv = grpc.NewServer(proxy.AsServerOption())
	go func() { _ = e.srv.Serve(e.lis) }()
	e.cc, err = grpc.NewClient("passthrough:///c14-proxy",
		grpc.WithContextDialer(func(ctx context.Context, _ string) (net.Conn, error) { return e.lis.DialContext(ctx) }),
		grpc.WithTransportCredentials(insecure.NewCredentials()))
	if err != nil {
		panic(err)
	}
	e2e = e
}

func svcList(s string) ([]string, bool) {
	if s == "-" {
		return nil, true
	}
	var out []string
	for _, h := range strings.Split(s, ",") {
		if !strings.HasPrefix(h, "x") {
			return nil, false
		}
		out = append(out, string(common.MustUnHex(h)))
	}
	return out, true
}

func claimDesc(name string, svcs []string) *bridgedesc.Target {
	t := &bridgedesc.Target{Name: name}
	for _, s := range svcs {
		t.Services = append(t.Services, bridgedesc.Service{Name: protoreflect.FullName(s)})
	}
	return t
}

func execE2E(f []string) string {
	if len(f) != 4 {
		return "BADOP"
	}
	name := string(common.MustUnHex(f[1]))
	as, ok1 := svcList(f[2])
	bs, ok2 := svcList(f[3])
	if !ok1 || !ok2 {
		return "BADOP"
	}
	e2eOnce.Do(e2eSetup)
	e2eMu.Lock()
	defer e2eMu.Unlock()
	e := e2e
	// fresh claims: release everything, then a claims first, b second
	e.wa.UpdateDesc(claimDesc("a", nil))
	e.wb.UpdateDesc(claimDesc("b", nil))
	e.wa.UpdateDesc(claimDesc("a", as))
	e.wb.UpdateDesc(claimDesc("b", bs))
	e.rec.mu.Lock()
	e.rec.raw = nil
	e.rec.mu.Unlock()

	ctx, cancel := context.WithTimeout(context.Background(), 10*time.Second)
	defer cancel()
	code, tgt, seen := "", "-", "-"
	stream, err := e.cc.NewStream(ctx, &grpc.StreamDesc{ClientStreams: true, ServerStreams: true}, name)
	if err == nil {
		_ = stream.CloseSend()
		var out wrapperspb.BytesValue
		err = stream.RecvMsg(&out)
		if err == nil {
			if t, m, ok := strings.Cut(string(out.Value), "\x00"); ok {
				tgt, seen = t, common.HexS(m)
			} else {
				tgt = "?"
			}
			var rest wrapperspb.BytesValue
			if err2 := stream.RecvMsg(&rest); err2 != nil && err2.Error() != "EOF" {
				err = err2
			}
		}
	}
	code = fmt.Sprintf("S%d", int(status.Code(err)))
	raw := "-"
	e.rec.mu.Lock()
	if e.rec.raw != nil {
		raw = common.HexS(*e.rec.raw)
	}
	e.rec.mu.Unlock()
	return fmt.Sprintf("%s %s %s raw=%s", code, tgt, seen, raw)
}
