package c14

import (
	"bufio"
	"context"
	"fmt"
	"math/rand"
	"net/http"
	"net/http/httptest"
	"strings"

	"github.com/renbou/grpcbridge"
	"github.com/renbou/grpcbridge/bridgedesc"
	"github.com/renbou/grpcbridge/grpcadapter"
	"github.com/renbou/grpcbridge/routing"
	"google.golang.org/grpc/status"
	"google.golang.org/protobuf/reflect/protoreflect"
	"verif/harness/common"
)

// esc <targethex> <svchex,svchex…|-> [<methodhex>] => web=<entry>:<tok> http=<entry>:<tok>
//
// With a method token other than POST only the transcoded entry is judged by C14 (`web=` is reported but the property says
// nothing about the method of a gRPC-Web request): ONLY the exact token POST is the gRPC-style HTTP form.
//
// The SAME request line (`POST <target> HTTP/1.1`, parsed by net/http) is served twice by the REAL root
// grpcbridge.NewWebBridge over the real routing.ServiceRouter (one target "a" listing the given services, pooled):
// once with Content-Type application/grpc-web+proto (dispatched to GRPCWebBridge, which asks RouteGRPC with
// gRPCWebServerStream.Method()) and once with application/json (TranscodedHTTPBridge, RouteHTTP). A wrapper around
// the router records which entry was asked and what it answered: entry G/H (RouteGRPC / RouteHTTP) or `-` (the
// bridge did not ask the router), tok = F.<targethex>.<rpcnamehex> | S<grpc code>; `R` = net/http rejects the line.

type escRouter struct {
	sr    *routing.ServiceRouter
	entry string
	tok   string
}

func (e *escRouter) RouteGRPC(ctx context.Context) (grpcadapter.ClientConn, routing.GRPCRoute, error) {
	conn, route, err := e.sr.RouteGRPC(ctx)
	e.entry = "G"
	if err != nil {
		e.tok = fmt.Sprintf("S%d", int(status.Code(err)))
	} else {
		e.tok = "F." + common.HexS(route.Target.Name) + "." + common.HexS(route.Method.RPCName)
	}
	return conn, route, err
}

func (e *escRouter) RouteHTTP(r *http.Request) (grpcadapter.ClientConn, routing.HTTPRoute, error) {
	conn, route, err := e.sr.RouteHTTP(r)
	e.entry = "H"
	if err != nil {
		e.tok = fmt.Sprintf("S%d", int(status.Code(err)))
	} else {
		e.tok = "F." + common.HexS(route.Target.Name) + "." + common.HexS(route.Method.RPCName)
	}
	return conn, route, err
}

type escConn struct{}

func (escConn) Stream(context.Context, string) (grpcadapter.ClientStream, error) {
	return nil, status.Error(14, "esc: no stream")
}
func (escConn) Close() {}

type escPool struct{}

func (escPool) Get(string) (grpcadapter.ClientConn, bool) { return escConn{}, true }

type escForwarder struct{}

func (escForwarder) Forward(context.Context, grpcadapter.ForwardParams) error { return nil }

func execEsc(f []string) string {
	if len(f) != 3 && len(f) != 4 {
		return "BADOP"
	}
	method := "POST" // optional 4th field: the method token of the request line (both requests)
	if len(f) == 4 {
		method = string(common.MustUnHex(f[3]))
	}
	target := string(common.MustUnHex(f[1]))
	desc := &bridgedesc.Target{Name: "a"}
	if f[2] != "-" {
		for _, h := range strings.Split(f[2], ",") {
			desc.Services = append(desc.Services, bridgedesc.Service{Name: protoreflect.FullName(common.MustUnHex(h))})
		}
	}
	sr := routing.NewServiceRouter(escPool{}, routing.ServiceRouterOpts{})
	w, err := sr.Watch("a")
	if err != nil {
		return "E-watch"
	}
	defer w.Close()
	w.UpdateDesc(desc)
	rt := &escRouter{sr: sr}
	bridge := grpcbridge.NewWebBridge(rt, grpcbridge.WithForwarder(escForwarder{}))
	serve := func(ct string) string {
		req, err := http.ReadRequest(bufio.NewReader(strings.NewReader(
			method + " " + target + " HTTP/1.1\r\nHost: h\r\nContent-Type: " + ct + "\r\nContent-Length: 0\r\n\r\n")))
		if err != nil {
			return "R"
		}
		rt.entry, rt.tok = "-", "-"
		bridge.ServeHTTP(httptest.NewRecorder(), req)
		return rt.entry + ":" + rt.tok
	}
	return "web=" + serve("application/grpc-web+proto") + " http=" + serve("application/json")
}

var escTargets = []string{
	"/p.S/M", "/p%2ES/M", "/p.S/M%41", "/p%2eS/M", "/p.S%2FM", "/p.S/a%2Fb", "/%70.S/M", "/p.S/M%20x", "/p.S/M?x=%2F", "/p.S/M%zz",
	"/p.S/%", "/p.%53/M", "/p.S/M%2541", "//M", "/p.S", "/", "/p.S/M%3Fq", "/p.S%3F/M", "/nobody/M", "/p.S/M%C3%A9", "/p.S/M\xc3\xa9",
	"/p%25S/M", "/p.S/M+x", "/p.S/M;v=1", "/p.S/M:verb", "/p.S/M%3Averb",
}

var escMethods = []string{"post", "Post", "pOST", "POSt", "POSTS", "POS", "XPOST", "POST", "GET", "PUT", "HEAD", "DELETE", "PATCH", "OPTIONS"}

func genEsc(r *rand.Rand, tier string, emit func(string)) {
	svcSets := [][]string{{"p.S"}, {"p.S", "p%2ES", "p.S/M", "p%S"}, nil}
	line := func(t string, svcs []string) {
		l := "-"
		if len(svcs) > 0 {
			hs := make([]string, len(svcs))
			for i, s := range svcs {
				hs[i] = common.HexS(s)
			}
			l = strings.Join(hs, ",")
		}
		emit("esc " + common.HexS(t) + " " + l)
	}
	lineM := func(t string, svcs []string, m string) {
		l := "-"
		if len(svcs) > 0 {
			hs := make([]string, len(svcs))
			for i, s := range svcs {
				hs[i] = common.HexS(s)
			}
			l = strings.Join(hs, ",")
		}
		emit("esc " + common.HexS(t) + " " + l + " " + common.HexS(m))
	}
	for _, t := range escTargets {
		for _, s := range svcSets {
			line(t, s)
		}
	}
	// method tokens: equal to POST only up to case, near-misses, other standard methods (seeded change C14-m12)
	for _, m := range escMethods {
		for _, t := range []string{"/p.S/M", "/nobody/M", "/p%2ES/M", "/p.S"} {
			for _, s := range svcSets[:2] {
				lineM(t, s, m)
			}
		}
	}
	n := 150
	if tier == "thorough" {
		n = 4000
	}
	for i := 0; i < n; i++ {
		// a path around the service p.S in which bytes are replaced by their escapes, stray '%' and odd bytes appear
		base := common.Pick(r, []string{"/p.S/M", "/p.S/Ma/b", "p.S/M", "/p.S/", "/q/M"})
		var sb strings.Builder
		for j := 0; j < len(base); j++ {
			switch {
			case j > 0 && r.Intn(4) == 0:
				hexd := "0123456789ABCDEF"
				if r.Intn(2) == 0 {
					hexd = "0123456789abcdef"
				}
				sb.WriteByte('%')
				sb.WriteByte(hexd[base[j]>>4])
				sb.WriteByte(hexd[base[j]&15])
			case j > 0 && r.Intn(25) == 0:
				sb.WriteString(common.Pick(r, []string{"%", "%2", "%zz", "%25", "?", "%3F", "*", "%2A", "%2F", "%2f"}))
			default:
				sb.WriteByte(base[j])
			}
		}
		if r.Intn(4) == 0 {
			lineM(sb.String(), svcSets[r.Intn(len(svcSets))], common.Pick(r, escMethods))
		} else {
			line(sb.String(), svcSets[r.Intn(len(svcSets))])
		}
	}
}
