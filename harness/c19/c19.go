// Package c19 corresponds WebBridge.ServeHTTP (bridge.go) and webbridge.parseMetadataQuery with
// the Lean model GB.C19.
//
//	disp  a real grpcbridge.NewWebBridge behind httptest, driven by a raw HTTP/1.1 client that
//	      writes the header lines verbatim; which of the four bridges handled the request is read
//	      off what only that bridge does: the router method it calls (RouteHTTP / RouteGRPC / none
//	      before the first frame), whether the `_metadata[…]` entries were stripped from the query
//	      before routing, the status (101), the negotiated sub-protocol, the response content type.
//	mdq   parseMetadataQuery through its verif export.
package c19

import (
	"context"
	"fmt"
	"io"
	"math/rand"
	"net/http"
	"net/http/httptest"
	"net/url"
	"strings"
	"sync"

	"github.com/renbou/grpcbridge"
	"github.com/renbou/grpcbridge/grpcadapter"
	"github.com/renbou/grpcbridge/webbridge"
	"google.golang.org/grpc/metadata"
	"verif/harness/c07/fake"
	"verif/harness/common"
)

type Area struct{}

func (Area) Name() string { return "c19" }

const sentinel = "_metadata[verif-sentinel]"

func (Area) Exec(input string) string {
	f := strings.Fields(input)
	switch f[0] {
	case "mdq":
		param := string(common.MustUnHex(f[1]))
		raw := string(common.MustUnHex(f[2]))
		r := &http.Request{URL: &url.URL{Path: "/x", RawQuery: raw}}
		q := r.URL.Query()
		md := webbridge.VerifParseMetadataQuery(r, param)
		q2 := r.URL.Query()
		mod := 0
		if r.URL.RawQuery != raw {
			mod = 1
		}
		return fmt.Sprintf("q=%s md=%s q2=%s mod=%d", fake.ShowMD(q), fake.ShowMD(md), fake.ShowMD(q2), mod)
	case "disp":
		return execDisp(f[1], string(common.MustUnHex(f[2])), fake.ParsePairs(f[3]))
	case "tok": // tok x<header name> x<token> l:<header lines>  => 0|1   (the exported headerHasToken)
		h := http.Header{}
		name := string(common.MustUnHex(f[1]))
		for _, v := range fake.ParseList(f[3]) {
			h.Add(name, v)
		}
		return b01(grpcbridge.VerifHeaderHasToken(h, name, string(common.MustUnHex(f[2]))))
	case "ctype": // ctype x<Content-Type value> => 0|1   (the exported isGRPCWebContentType)
		return b01(grpcbridge.VerifIsGRPCWebContentType(string(common.MustUnHex(f[1]))))
	case "wsmd":
		return execWSMD(f[1], string(common.MustUnHex(f[2])), fake.ParsePairs(f[3]))
	}
	return "BADOP"
}

func b01(b bool) string {
	if b {
		return "1"
	}
	return "0"
}

// ---- case-folding look-alikes.  Unicode simple case folding maps U+017F (ſ, long s) onto s and U+212A (K, Kelvin sign)
// onto k; U+0130 (İ) / U+0131 (ı) are the dotted/dotless i; fullwidth letters look like ASCII ones.  None of them NAMES an
// ASCII token: RFC 7230 tokens are ASCII and compare ASCII-case-insensitively only.
var lookalikes = map[byte][]string{
	's': {"\u017f"}, 'S': {"\u017f"},
	'k': {"\u212a"}, 'K': {"\u212a"},
	'i': {"\u0130", "\u0131"}, 'I': {"\u0130", "\u0131"},
}

// mangle substitutes, at one or more positions of an (ASCII) value, a look-alike, a fullwidth letter or a raw high byte.
func mangle(r *rand.Rand, v string) string {
	if v == "" {
		return "\u017f"
	}
	b := []byte(v)
	var sb strings.Builder
	// positions that have a folding look-alike are preferred: they are the ones Unicode folding would accept
	var special []int
	for i, c := range b {
		if _, ok := lookalikes[c]; ok {
			special = append(special, i)
		}
	}
	pick := map[int]bool{}
	n := 1 + r.Intn(2)
	for ; n > 0; n-- {
		if len(special) > 0 && r.Intn(4) != 0 {
			pick[special[r.Intn(len(special))]] = true
		} else {
			pick[r.Intn(len(b))] = true
		}
	}
	for i, c := range b {
		if !pick[i] {
			sb.WriteByte(c)
			continue
		}
		la := lookalikes[c]
		switch {
		case len(la) > 0 && r.Intn(5) != 0:
			sb.WriteString(la[r.Intn(len(la))])
		case (c >= 'a' && c <= 'z' || c >= 'A' && c <= 'Z') && r.Intn(2) == 0:
			lc := c | 0x20
			sb.WriteString(string(rune(0xff41 + int(lc-'a')))) // fullwidth small letter
		default:
			sb.WriteByte(0x80 + byte(r.Intn(0x80))) // arbitrary high byte (invalid UTF-8 as well)
		}
	}
	return sb.String()
}

// every value in which each s/S, k/K of a keyword is replaced by its look-alike, singly and all at once
func lookalikeVariants(v string) []string {
	out := []string{}
	all := []byte{}
	for i := 0; i < len(v); i++ {
		if la, ok := lookalikes[v[i]]; ok {
			for _, l := range la {
				out = append(out, v[:i]+l+v[i+1:])
			}
			all = append(all, []byte(la[0])...)
		} else {
			all = append(all, v[i])
		}
	}
	return append(out, string(all))
}

// capture is a grpcadapter.Forwarder that records the incoming metadata it is handed — read the way
// ProxyForwarder.Forward reads it (metadata.FromIncomingContext) — and ends the call at once.
type capture struct {
	mu    sync.Mutex
	calls int
	md    metadata.MD
}

func (c *capture) Forward(ctx context.Context, _ grpcadapter.ForwardParams) error {
	c.mu.Lock()
	defer c.mu.Unlock()
	c.calls++
	c.md, _ = metadata.FromIncomingContext(ctx)
	return nil
}

// execWSMD: the metadata-query clause end to end — a WebSocket handshake with `_metadata[k]=v` query entries AND
// headers (colliding names in any case, multi-valued, Grpc-Timeout on either side) through the real
// TranscodedWebSocketBridge.ServeHTTP (via=direct) or through WebBridge.ServeHTTP (via=bridge); what the forwarder
// receives is reported next to r.Header / r.URL.Query() as the handler saw them.
func execWSMD(via, rawQuery string, lines [][2]string) string {
	capt := &capture{}
	tgt := &fake.Target{Header: metadata.MD{}, Trailer: metadata.MD{}, Responses: 1}
	rt := &fake.Router{Conn: tgt}
	var h http.Handler
	if via == "direct" {
		h = webbridge.NewTranscodedWebSocketBridge(rt, webbridge.TranscodedWebSocketBridgeOpts{Forwarder: capt})
	} else {
		h = grpcbridge.NewWebBridge(rt, grpcbridge.WithForwarder(capt))
	}
	var seen http.Header
	var q url.Values
	srv := httptest.NewServer(http.HandlerFunc(func(w http.ResponseWriter, r *http.Request) {
		seen = r.Header.Clone()
		q = r.URL.Query()
		h.ServeHTTP(w, r)
	}))
	defer srv.Close()
	rc, err := fake.Dial(srv.Listener.Addr().String())
	if err != nil {
		return "ERR dial"
	}
	defer rc.Close()
	target := "/x"
	if rawQuery != "" {
		target += "?" + rawQuery
	}
	if err := rc.WriteRequest("GET", target, append(fake.WSHandshake(), lines...), nil); err != nil {
		return "ERR write"
	}
	resp, err := rc.ReadResponse("GET")
	if err != nil {
		return "ERR read " + common.HexS(err.Error())
	}
	if resp.StatusCode == 101 {
		frames := rc.ReadWSFrames()
		if n := len(frames); n > 0 && frames[n-1].Opcode == 8 { // answer the closing handshake so the bridge returns at once
			_ = rc.WriteWSFrame(8, []byte{0x03, 0xe8})
		}
	} else {
		_, _ = io.ReadAll(resp.Body)
	}
	rc.Close()
	srv.Close()
	if seen == nil {
		return fmt.Sprintf("rejected st=%d", resp.StatusCode)
	}
	capt.mu.Lock()
	defer capt.mu.Unlock()
	md := "-"
	if capt.calls > 0 {
		md = fake.ShowMD(capt.md)
	}
	return fmt.Sprintf("seen=%s q=%s st=%d md=%s", fake.ShowMD(seen), fake.ShowMD(q), resp.StatusCode, md)
}

func execDisp(method, rawQuery string, lines [][2]string) string {
	tgt := &fake.Target{Header: metadata.MD{}, Trailer: metadata.MD{}, Responses: 1}
	rt := &fake.Router{Conn: tgt}
	pf := grpcadapter.NewProxyForwarder(grpcadapter.ProxyForwarderOpts{})
	bridge := grpcbridge.NewWebBridge(rt, grpcbridge.WithForwarder(pf))

	var seen http.Header
	var q url.Values
	srv := httptest.NewServer(http.HandlerFunc(func(w http.ResponseWriter, r *http.Request) {
		seen = r.Header.Clone()
		q = r.URL.Query()
		bridge.ServeHTTP(w, r)
	}))
	defer srv.Close()
	rc, err := fake.Dial(srv.Listener.Addr().String())
	if err != nil {
		return "ERR dial"
	}
	defer rc.Close()

	target := "/x?" + rawQuery
	if rawQuery != "" {
		target += "&"
	}
	target += url.QueryEscape(sentinel) + "=1"
	var body []byte
	if method == "POST" {
		body = []byte{0, 0, 0, 0, 0}
	}
	if err := rc.WriteRequest(method, target, lines, body); err != nil {
		return "ERR write"
	}
	resp, err := rc.ReadResponse(method)
	if err != nil {
		return "ERR read " + common.HexS(err.Error())
	}
	sp := "-"
	if v := resp.Header.Values("Sec-Websocket-Protocol"); len(v) > 0 {
		sp = common.HexS(strings.Join(v, ","))
	}
	if resp.StatusCode == 101 {
		// speak just enough of either WebSocket protocol for the handler to finish
		if sp != "-" {
			_ = rc.WriteWSFrame(2, []byte("\r\n"))
			_ = rc.WriteWSFrame(2, []byte{0, 0, 0, 0, 0, 2, 8, 1})
			_ = rc.WriteWSFrame(2, []byte{1})
		}
		rc.ReadWSFrames()
	} else {
		_, _ = io.ReadAll(resp.Body)
	}
	if seen == nil {
		return fmt.Sprintf("rejected st=%d", resp.StatusCode)
	}
	rc.Close()
	srv.Close()

	httpCalls, grpcCalls, rq, _ := rt.Calls()
	h, rqS := "grpcws", "-"
	switch {
	case httpCalls > 0:
		rqS = fake.ShowMD(rq)
		if _, kept := rq[sentinel]; kept {
			h = "http"
		} else {
			h = "ws"
		}
	case grpcCalls > 0 && resp.StatusCode != 101 && strings.HasPrefix(resp.Header.Get("Content-Type"), "application/grpc-web"):
		h = "grpcweb"
	}
	return fmt.Sprintf("seen=%s q=%s h=%s st=%d sp=%s rq=%s", fake.ShowMD(seen), fake.ShowMD(q), h, resp.StatusCode, sp, rqS)
}

var (
	connVals  = []string{"Upgrade", "upgrade", "UPGRADE", "keep-alive, Upgrade", "Upgrade, keep-alive", "keep-alive,upgrade", "keep-alive", "close", "upgrade,", ",upgrade", "Upgradex", "x-upgrade", "up grade", "keep-alive ,\tUpgrade", "upgrade;q=1", "\"upgrade\""}
	upgVals   = []string{"websocket", "WebSocket", "WEBSOCKET", "websocket, h2c", "h2c, websocket", "h2c,websocket", "h2c", "websockets", "web socket", "websocket/13", "TLS/1.0, websocket"}
	protoVals = []string{"grpc-websockets", "grpc-websockets, foo", "foo, grpc-websockets", "foo,grpc-websockets", "foo", "GRPC-WebSockets", "grpc-websocketsx", "xgrpc-websockets", "grpc websockets", "graphql-ws"}
	ctVals    = []string{"application/grpc-web", "application/grpc-web+proto", "application/grpc-web+json", "application/grpc-web-text", "Application/GRPC-Web+Proto", "APPLICATION/GRPC-WEB",
		"application/grpc-web; charset=utf-8", "application/grpc-web+proto;x=y", "application/grpc-web ;x=y", "application/grpc-webx", "application/grpc", "application/grpc+proto", "application/json", "application/json; charset=utf-8", "text/plain", "application/grpc-we", "xapplication/grpc-web", "application/x-grpc-web"}
	names = map[string][]string{
		"Connection":             {"Connection", "connection", "CONNECTION"},
		"Upgrade":                {"Upgrade", "upgrade"},
		"Sec-WebSocket-Protocol": {"Sec-WebSocket-Protocol", "sec-websocket-protocol", "Sec-Websocket-Protocol"},
		"Content-Type":           {"Content-Type", "content-type"},
	}
)

// genHandshake: a complete opening handshake in which every list header still contains the right token
// (so the upgrade is expected to succeed), written the way different clients write it.
func genHandshake(r *rand.Rand) [][2]string {
	conn := common.Pick(r, []string{"Upgrade", "upgrade", "keep-alive, Upgrade", "Upgrade, keep-alive", "keep-alive,upgrade", "UPGRADE"})
	upg := common.Pick(r, []string{"websocket", "WebSocket", "WEBSOCKET"})
	lines := [][2]string{{common.Pick(r, names["Connection"]), conn}, {common.Pick(r, names["Upgrade"]), upg},
		{"Sec-WebSocket-Version", "13"}, {"Sec-WebSocket-Key", "dGhlIHNhbXBsZSBub25jZQ=="}}
	switch r.Intn(4) {
	case 0:
		lines = append(lines, [2]string{common.Pick(r, names["Sec-WebSocket-Protocol"]), common.Pick(r, protoVals)})
	case 1:
		lines = append(lines, [2]string{"Sec-WebSocket-Protocol", common.Pick(r, []string{"grpc-websockets", "foo, grpc-websockets", "grpc-websockets,foo"})})
	case 2:
		lines = append(lines, [2]string{"Sec-WebSocket-Protocol", "foo"}, [2]string{"Sec-WebSocket-Protocol", "grpc-websockets"})
	}
	if r.Intn(4) == 0 {
		lines = append(lines, [2]string{"Content-Type", genContentType(r)})
	}
	if r.Intn(4) == 0 { // an otherwise complete handshake in which ONE token is a look-alike of the keyword
		i := r.Intn(len(lines))
		if !strings.HasPrefix(lines[i][0], "Sec-WebSocket-V") && !strings.HasPrefix(lines[i][0], "Sec-WebSocket-K") {
			lines[i][1] = mangle(r, lines[i][1])
		}
	}
	return lines
}

// ---- Content-Type families.  The property text: "gRPC-Web iff its MEDIA TYPE is application/grpc-web with any
// suffix or parameters" — the media type is what precedes the first ';' (trimmed, ASCII case-insensitive); whether the
// parameters after it are well-formed must not matter.

var grpcWebTypes = []string{"application/grpc-web", "Application/GRPC-Web", "APPLICATION/GRPC-WEB", "aPPLICATION/gRPC-wEB", "application/Grpc-Web"}

// suffixes: registered ones, odd ones, non-token characters, non-ASCII bytes
var grpcWebSuffixes = []string{"", "", "+proto", "+json", "+PROTO", "+thrift", "+", "++", "+proto+proto", "+pro to", "+proto@home", "+proto/x", "+\"proto\"", "+pr\xc3\xbc", "+\xff",
	"+proto, application/grpc-web+proto", "+proto,application/grpc-web", "-text", "-text+proto", "-TEXT"}

// what may follow the media type: nothing, well-formed parameters, and every malformed shape mime.ParseMediaType rejects
var paramTails = []string{
	"", ";", "; ", " ;", "\t;\t", ";;", "; ;", ";;;;", " ; ; ",
	"; charset=utf-8", ";charset=utf-8", "; charset=\"utf-8\"", "; CHARSET=UTF-8", ";\tcharset=utf-8", "; charset=utf-8;", "; a=1; b=2",
	"; charset", ";charset", "; charset;", "; charset; x=1", "; =utf-8", "; =", "; charset=", "; charset= utf-8", "; charset =utf-8",
	";; x=1", "; ; x=1", "; x=1;; y=2",
	"; version=a/b", "; v=a@b", "; v=(1)", "; v=[1]", "; v=a b", "; v=a,b", "; url=http://x/y?z",
	"; x=1; x=2", "; x=1; X=2", "; x=1; x=1",
	"; q=\"abc", "; q=\"", "; q=\"a\\", "; q=\"a\\\"b\"", "; q=\"a;b\"", "; q=\"a\"b", "; q=\"\"", "; q=\"a\" ; r=\"b",
	"; x=\xc3\xa9", "; \xc3\xa9=1", "; x=\xff\xfe", " \xe2\x80\x8b; x=1",
	", application/grpc-web+proto", ",application/json", ", */*",
	"; boundary=" + strings.Repeat("a", 300), "; " + strings.Repeat("k=v; ", 80), ";" + strings.Repeat(";", 200), "; x=\"" + strings.Repeat("q", 400),
	" ", "  ", "\t", " x", " charset=utf-8", "/x", "/", ":", "=", "\"", "'", "*", "x", "2", ".", "_", "-", "\xff", "\xc3\xbc",
}

// the symmetric negative family: the string occurs, but not as the beginning of the media type
var notGrpcWeb = []string{
	"application/grpc", "application/grpc+proto", "application/grpc; web", "application/grpc ;web", "application/grpc -web", "application/grpc- web", "application/grpc_web",
	"application/grpc-we", "application/grpc-wex", "application/grpc-wéb", "application/grpcweb", "application/ grpc-web", "application /grpc-web", "application//grpc-web",
	"xapplication/grpc-web", "x-application/grpc-web", "x/application/grpc-web", "/application/grpc-web", ";application/grpc-web", "; application/grpc-web", ",application/grpc-web",
	"\"application/grpc-web\"", "'application/grpc-web'", "<application/grpc-web>",
	"text/plain; x=application/grpc-web", "text/plain; application/grpc-web", "application/json; type=\"application/grpc-web\"", "application/json, application/grpc-web",
	"multipart/related; type=application/grpc-web+proto", "application/x-grpc-web", "application/vnd.grpc-web", "applicationgrpc-web", "grpc-web", "application", "application/",
	"application/json", "application/json; charset=utf-8", "text/plain", "*/*", "",
}

func genContentType(r *rand.Rand) string {
	if r.Intn(12) == 0 {
		return mangle(r, common.Pick(r, grpcWebTypes)) + common.Pick(r, grpcWebSuffixes) + common.Pick(r, paramTails)
	}
	switch r.Intn(10) {
	case 0, 1:
		return common.Pick(r, ctVals)
	case 2, 3:
		v := common.Pick(r, notGrpcWeb)
		if r.Intn(3) == 0 {
			v += common.Pick(r, paramTails)
		}
		return v
	default:
		return common.Pick(r, grpcWebTypes) + common.Pick(r, grpcWebSuffixes) + common.Pick(r, paramTails)
	}
}

func genLines(r *rand.Rand) [][2]string {
	var lines [][2]string
	add := func(name string, pool []string, pNone, pMulti int) {
		if r.Intn(100) < pNone {
			return
		}
		n := 1
		if r.Intn(100) < pMulti {
			n = 2 + r.Intn(2)
		}
		for i := 0; i < n; i++ {
			v := common.Pick(r, pool)
			switch r.Intn(10) {
			case 0:
				v = " " + v + "\t"
			case 1:
				v = strings.ToUpper(v)
			case 2:
				v = ""
			case 3:
				v = mangle(r, v) // a look-alike / fullwidth letter / high byte inside a token
			}
			lines = append(lines, [2]string{common.Pick(r, names[name]), v})
		}
	}
	add("Connection", connVals, 20, 20)
	add("Upgrade", upgVals, 25, 15)
	add("Sec-WebSocket-Protocol", protoVals, 45, 25)
	if r.Intn(100) >= 30 {
		n := 1
		if r.Intn(20) == 0 {
			n = 2
		}
		for i := 0; i < n; i++ {
			v := genContentType(r)
			switch r.Intn(12) {
			case 0:
				v = " " + v + "\t"
			case 1:
				v = strings.ToUpper(v)
			}
			lines = append(lines, [2]string{common.Pick(r, names["Content-Type"]), v})
		}
	}
	if r.Intn(10) != 0 {
		lines = append(lines, [2]string{"Sec-WebSocket-Version", "13"}, [2]string{"Sec-WebSocket-Key", "dGhlIHNhbXBsZSBub25jZQ=="})
	}
	r.Shuffle(len(lines), func(i, j int) { lines[i], lines[j] = lines[j], lines[i] })
	return lines
}

var mdKeys = []string{"x-a", "X-B", "auth.token", "a_b", "A", "a", "", "bad key", "bad!", "ключ", "x-a]", "[x", "x-bin", "0", "k\x00"}
var mdVals = []string{"v", "", "hello world", "tab\there", "nl\nx", "\x7f", "é", "~", " ", "a=b&c", "%41", "x]"}
var plainKeys = []string{"a", "b", "_metadata", "_metadata[", "_metadata]", "_metadatax[a]", "x_metadata[a]", "_metadata[a]x", "meta[a]", "_METADATA[a]", "field.sub", "_metadata[a][b]", "_metadata[]"}
var params = []string{"", "", "", "_metadata", "meta", "m", "_metadata[", "a]"}

// rawSegs: '&'-separated segments that exercise every path of url.ParseQuery (Go 1.23): empty segments, no '=',
// empty key / value, several '=', ';' (segment rejected), '+', malformed and truncated %-escapes in key or value
// (pair skipped, parsing continues), lower/upper-case hex, escaped spellings of the metadata key, raw high bytes.
var rawSegs = []string{"", "k", "k=", "=v", "=", "k=v=w", "a;b=1", ";", "k=%zz", "k=%4", "k=%", "%=v", "%zz=v", "k=a+b", "k+1=v", "+=+",
	"%5Fmetadata%5Bx-a%5D=w", "PARAM[x-a]=%7f", "PARAM[x%20]=u", "PARAM[X-A]=v%201", "PARAM%5bx-a]=+", "PARAM[x-a];=v", "PARAM[x-a]=v;",
	"PARAM[x-a]=%", "PARAM[%41]=1", "PARAM[x-a]=a%26b", "PARAM[x-a]=a%3bb", "PARAM[x-a]", "PARAM[x-a]=", "PARAM[x-b]=%c3%A9", "PARAM[x-a]=1", "PARAM[X-a]=2",
	"PARAM[x-a%5D=3", "PARAM[x-a]=%2", "PARAM[x-%]=v", "PARAM[x-a]%=v", "PARAM[]=e", "PARAM[[]]=e", "PARAM[x+y]=p", "%26=%3D", "k=%00", "k=%c3%a9", "k=\xc3\xa9", "k=\xff",
	"field.sub=1", "a=1", "a=2", "b=x%20y", "%61=3", "PARAMx[a]=n", "xPARAM[a]=n"}

func genRawQuery(r *rand.Rand, param string, targetSafe bool) string {
	p := param
	if p == "" {
		p = "_metadata"
	}
	var parts []string
	for n := 1 + r.Intn(6); n > 0; n-- {
		seg := strings.ReplaceAll(common.Pick(r, rawSegs), "PARAM", p)
		if r.Intn(6) == 0 && len(seg) > 0 { // one random byte-level mutation
			i := r.Intn(len(seg) + 1)
			ins := common.Pick(r, []string{"%", ";", "+", "=", "%2", "%G1", "%5d", "%5B", "&"})
			if !targetSafe && r.Intn(3) == 0 {
				ins = common.Pick(r, []string{" ", "#", "\x00", "\n", "\x7f", "\t"})
			}
			seg = seg[:i] + ins + seg[i:]
		}
		parts = append(parts, seg)
	}
	q := strings.Join(parts, "&")
	if targetSafe { // bytes that would break the request line itself are not the query parser's business
		q = strings.Map(func(c rune) rune {
			if c <= 0x20 || c == 0x7f || c == '#' {
				return -1
			}
			return c
		}, q)
	}
	return q
}

func genQuery(r *rand.Rand, param string) string {
	p := param
	if p == "" {
		p = "_metadata"
	}
	var parts []string
	for n := r.Intn(6); n > 0; n-- {
		var k string
		switch r.Intn(3) {
		case 0:
			k = common.Pick(r, plainKeys)
		default:
			k = p + "[" + common.Pick(r, mdKeys) + "]"
		}
		v := common.Pick(r, mdVals)
		switch r.Intn(8) {
		case 0:
			parts = append(parts, k) // no '='
		case 1:
			parts = append(parts, k+"="+v) // unescaped
		default:
			parts = append(parts, url.QueryEscape(k)+"="+url.QueryEscape(v))
		}
	}
	sep := "&"
	return strings.Join(parts, sep)
}

func (Area) Gen(r *rand.Rand, tier string, emit func(string)) {
	nDisp, nMdq := 500, 6000
	if tier == "thorough" {
		nDisp, nMdq = 15000, 300000
	}
	disp := func(method, q string, lines [][2]string) {
		emit("disp " + method + " " + common.HexS(q) + " " + fake.ShowPairs(lines))
	}
	hs := fake.WSHandshake()
	// what real clients send
	disp("GET", "", nil)
	disp("POST", "a=1", [][2]string{{"Content-Type", "application/json"}})
	disp("GET", "_metadata[x-a]=1&b=2", hs)
	disp("GET", "", append([][2]string{{"Connection", "keep-alive, Upgrade"}, {"Upgrade", "websocket"}}, hs[2:]...))                   // Firefox
	disp("GET", "", append([][2]string{{"Connection", "keep-alive"}, {"Connection", "Upgrade"}, {"Upgrade", "websocket"}}, hs[2:]...)) // split lines
	disp("GET", "", append(append([][2]string{}, hs...), [2]string{"Sec-WebSocket-Protocol", "grpc-websockets"}))                      // improbable-eng client
	disp("GET", "", append(append([][2]string{}, hs...), [2]string{"Sec-WebSocket-Protocol", "foo, grpc-websockets"}))                 // list-valued offer
	disp("GET", "", append(append([][2]string{}, hs...), [2]string{"Sec-WebSocket-Protocol", "foo"}, [2]string{"Sec-WebSocket-Protocol", "grpc-websockets"}))
	disp("POST", "", [][2]string{{"Content-Type", "application/grpc-web+proto"}})
	disp("POST", "", [][2]string{{"Content-Type", "application/grpc-web"}})
	disp("POST", "", [][2]string{{"Content-Type", "Application/GRPC-Web+Proto"}})
	disp("POST", "", [][2]string{{"Content-Type", "application/grpc-web; charset=utf-8"}})
	disp("POST", "", [][2]string{{"Content-Type", "application/grpc"}})
	disp("GET", "", [][2]string{{"Connection", "upgrade"}})
	disp("GET", "", [][2]string{{"Upgrade", "websocket"}})
	for i := 0; i < nDisp; i++ {
		method := "GET"
		if r.Intn(3) == 0 {
			method = "POST"
		}
		q := ""
		if r.Intn(2) == 0 {
			q = genQuery(r, "")
		}
		if method == "GET" && r.Intn(3) == 0 {
			disp(method, q, genHandshake(r))
		} else {
			disp(method, q, genLines(r))
		}
	}
	// plain POSTs whose only interesting header is the Content-Type: the realistic gRPC-Web request shape.
	// First the full grid over one spelling of the type (every suffix x every tail would be 20 x 80: take all tails
	// for the bare type and for +proto, and all suffixes with three tails), then random compositions.
	for _, tail := range paramTails {
		disp("POST", "", [][2]string{{"Content-Type", "application/grpc-web" + tail}})
		disp("POST", "", [][2]string{{"Content-Type", "application/grpc-web+proto" + tail}})
	}
	for _, suf := range grpcWebSuffixes {
		for _, tail := range []string{"", "; charset=utf-8", "; charset"} {
			disp("POST", "", [][2]string{{"Content-Type", "Application/gRPC-Web" + suf + tail}})
		}
	}
	for _, v := range notGrpcWeb {
		disp("POST", "", [][2]string{{"Content-Type", v}})
	}
	nCT := 600
	if tier == "thorough" {
		nCT = 20000
	}
	for i := 0; i < nCT; i++ {
		disp("POST", "", [][2]string{{common.Pick(r, names["Content-Type"]), genContentType(r)}})
	}
	// ---- case-folding look-alikes, end to end: a complete handshake in which exactly one keyword is replaced by each of
	// its look-alike variants (ſ for s, K for k, singly and all at once), with and without the grpc-websockets offer
	for _, v := range lookalikeVariants("websocket") {
		disp("GET", "", append([][2]string{{"Connection", "Upgrade"}, {"Upgrade", v}}, hs[2:]...))
		disp("GET", "", append([][2]string{{"Connection", "Upgrade"}, {"Upgrade", "h2c, " + v}, {"Sec-WebSocket-Protocol", "grpc-websockets"}}, hs[2:]...))
	}
	for _, v := range lookalikeVariants("WebSocket") {
		disp("GET", "", append([][2]string{{"Connection", "keep-alive, Upgrade"}, {"Upgrade", v}}, hs[2:]...))
	}
	for _, v := range lookalikeVariants("grpc-websockets") {
		disp("GET", "", append(append([][2]string{}, hs...), [2]string{"Sec-WebSocket-Protocol", v}))
		disp("GET", "", append(append([][2]string{}, hs...), [2]string{"Sec-WebSocket-Protocol", "foo, " + v}))
	}
	for _, v := range []string{"upgrade\u017f", "\uff55pgrade", "upgr\xe4de", "Upgrade\xff"} {
		disp("GET", "", append([][2]string{{"Connection", v}, {"Upgrade", "websocket"}}, hs[2:]...))
	}
	for _, v := range []string{"appl\u0131cation/grpc-web", "appl\u0130cation/grpc-web+proto", "application/grpc-\uff57eb", "application/grpc-we\xe2", "\uff41pplication/grpc-web"} {
		disp("POST", "", [][2]string{{"Content-Type", v}})
	}
	// ---- the exported predicates themselves: every keyword x every look-alike variant, then mangled random values
	tok := func(name, token string, lines []string) {
		emit("tok " + common.HexS(name) + " " + common.HexS(token) + " " + fake.ShowList(lines))
	}
	ctype := func(v string) { emit("ctype " + common.HexS(v)) }
	kws := [][2]string{{"Connection", "upgrade"}, {"Upgrade", "websocket"}, {"Sec-Websocket-Protocol", "grpc-websockets"}}
	for _, kw := range kws {
		tok(kw[0], kw[1], []string{kw[1]})
		tok(kw[0], kw[1], []string{strings.ToUpper(kw[1])})
		for _, v := range append(lookalikeVariants(kw[1]), lookalikeVariants(strings.ToUpper(kw[1]))...) {
			tok(kw[0], kw[1], []string{v})
			tok(kw[0], kw[1], []string{"x, " + v + " ,y"})
			tok(kw[0], kw[1], []string{"x", v})
		}
	}
	nTok := 3000
	if tier == "thorough" {
		nTok = 150000
	}
	for i := 0; i < nTok; i++ {
		kw := common.Pick(r, kws)
		pool := map[string][]string{"upgrade": connVals, "websocket": upgVals, "grpc-websockets": protoVals}[kw[1]]
		var lines []string
		for n := 1 + r.Intn(2); n > 0; n-- {
			v := common.Pick(r, pool)
			switch r.Intn(4) {
			case 0:
				v = mangle(r, v)
			case 1:
				v = strings.ToUpper(v)
			}
			lines = append(lines, v)
		}
		tok(kw[0], kw[1], lines)
		if i%3 == 0 {
			ctype(genContentType(r))
		}
	}
	// ---- wsmd: query metadata AND headers through the real WebSocket bridge, with a capturing forwarder
	wsmd := func(via, q string, lines [][2]string) {
		emit("wsmd " + via + " " + common.HexS(q) + " " + fake.ShowPairs(lines))
	}
	for _, via := range []string{"direct", "bridge"} {
		wsmd(via, "", nil)
		wsmd(via, "_metadata[x-a]=1&b=2", nil)
		wsmd(via, "_metadata[authorization]=Bearer+q", [][2]string{{"Authorization", "Bearer h"}}) // colliding name: both must arrive, query first
		wsmd(via, "_metadata[Authorization]=q1&_metadata[Authorization]=q2", [][2]string{{"authorization", "h1"}, {"AUTHORIZATION", "h2"}})
		wsmd(via, "_metadata[grpc-timeout]=10S", [][2]string{{"Grpc-Timeout", "20S"}})
		wsmd(via, "_metadata[x-only-query]=q", [][2]string{{"X-Only-Header", "h"}})
		wsmd(via, "_metadata[upgrade]=q&_metadata[connection]=q", nil) // colliding with the handshake's own headers
		wsmd(via, "_metadata[sec-websocket-key]=q", nil)
	}
	nWS := 500
	if tier == "thorough" {
		nWS = 15000
	}
	wsKeys := []string{"authorization", "Authorization", "AUTHORIZATION", "x-a", "X-A", "x-b", "cookie", "Cookie", "grpc-timeout", "Grpc-Timeout", "x-trace.id", "x_t", "upgrade", "user-agent"}
	for i := 0; i < nWS; i++ {
		var parts []string
		qKeys := map[string]string{} // one spelling per lower-cased query key (case variants would make the order depend on map iteration; mdq covers them)
		for n := r.Intn(5); n > 0; n-- {
			k := common.Pick(r, wsKeys)
			if first, ok := qKeys[strings.ToLower(k)]; ok {
				k = first
			} else {
				qKeys[strings.ToLower(k)] = k
			}
			v := common.Pick(r, []string{"q1", "q2", "Bearer q", "10S", "", "q=x&y", "1n"})
			parts = append(parts, url.QueryEscape("_metadata["+k+"]")+"="+url.QueryEscape(v))
		}
		if r.Intn(3) == 0 {
			parts = append(parts, "field="+common.Pick(r, []string{"1", "x"}))
		}
		if r.Intn(8) == 0 {
			parts = append(parts, url.QueryEscape("_metadata[bad key]")+"=v", url.QueryEscape("_metadata[x-a]")+"=%01")
		}
		r.Shuffle(len(parts), func(i, j int) { parts[i], parts[j] = parts[j], parts[i] })
		var lines [][2]string
		for n := r.Intn(5); n > 0; n-- {
			k := common.Pick(r, wsKeys)
			if strings.EqualFold(k, "upgrade") {
				continue
			}
			lines = append(lines, [2]string{k, common.Pick(r, []string{"h1", "h2", "Bearer h", "20S", "h, list", "30S"})})
		}
		wsmd(common.Pick(r, []string{"direct", "bridge"}), strings.Join(parts, "&"), lines)
	}
	mdq := func(param, q string) { emit("mdq " + common.HexS(param) + " " + common.HexS(q)) }
	mdq("", "")
	mdq("", "_metadata[a]=1&_metadata[A]=2&_metadata[a]=3")
	mdq("", "_metadata[]=1&_metadata=2&_metadata[=3&_metadata]=4")
	mdq("", "_metadata%5Bx-a%5D=v&b=1")
	mdq("", "_metadata[k]=%01&_metadata[k]=ok&_metadata[bad key]=v")
	for i := 0; i < nMdq; i++ {
		param := common.Pick(r, params)
		mdq(param, genQuery(r, param))
	}
	// RAW query strings through the real entry points: url.ParseQuery is inside the model (GB/C19/Query.lean)
	mdq("", "a=1&&b=%zz&c;d=2&e=+%41&=x&f&_metadata[X-A]=v%201&%5Fmetadata%5bx-a%5D=w&_metadata[x-a]=%7f&_metadata[x%20]=u&g=%4") // = theorem C19_rawquery_example
	for _, seg := range rawSegs {
		seg = strings.ReplaceAll(seg, "PARAM", "_metadata")
		mdq("", seg)
		mdq("", "a=1&"+seg+"&_metadata[x-z]=z")
		if !strings.ContainsAny(seg, "\x00 ") {
			disp("GET", seg, nil)
			wsmd("bridge", "a=1&"+seg+"&_metadata[x-z]=z", nil)
		}
	}
	// RAW header bytes: the header block is written verbatim on a TCP connection to a real net/http server in front of the
	// real WebBridge; the driver runs the model of textproto.ReadMIMEHeader + net/http's checks (GB/C07/Wire.lean) on the
	// same bytes.  Irregular lines: continuation lines, a name with a trailing SP, empty name, missing colon, CTL / NUL /
	// non-ASCII bytes in names and values, bare LF and stray CR, a second line smuggled in through a value, OWS around values.
	wireIrregular := [][2]string{
		{"Connection", "keep-alive,\r\n Upgrade"}, {"Connection", "keep-alive\r\n\t, upgrade"}, {"Connection", "Upgrade\r\n\tx"}, {"Connection", "Up\r\n grade"},
		{"Connection ", "Upgrade"}, {"Connection\t", "Upgrade"}, {" Connection", "Upgrade"}, {"connection", "upgrade"}, {"CONNECTION", "UPGRADE"}, {"cOnNeCtIoN", "uPgRaDe"},
		{"Connection", " \t Upgrade \t "}, {"Connection", ""}, {"Connection", "Upgrade\r"}, {"Connection", "Upgrade\x00"}, {"Connection", "Upgrade, \xff"}, {"Connection", "\xc5\xbfupgrade"},
		{"X-A", "1\r\nConnection: Upgrade"}, {"X-A", "1\nConnection: Upgrade"}, {"X-A", "1\r\nConnection:Upgrade"}, {"X-A", "1\r\nconnection:\tupgrade "}, {"X-A", "1\r\nConnection Upgrade"},
		{"X-Nul", "a\x00b"}, {"X-Del", "a\x7fb"}, {"X-\xc3\x89", "1"}, {"", "v"}, {"X-NoColon\r\nbroken", "v"}, {"X(a)", "v"}, {"X-A", "\xff\xfe"}, {"X-A", "a\r\n \r\n"},
		{"Connection", "close\r\nConnection: Upgrade"}, {"Connection", "Upgrade\r\n\r\nX-After: 1"},
	}
	for _, irr := range wireIrregular {
		disp("GET", "", append([][2]string{irr, {"Upgrade", "websocket"}}, hs[2:]...))
		disp("GET", "", append(append([][2]string{{"Upgrade", "websocket"}}, hs[2:]...), irr))
		disp("GET", "", append(append([][2]string{}, hs...), [2]string{strings.Replace(irr[0], "onnection", "ec-WebSocket-Protocol", 1), strings.NewReplacer("Upgrade", "grpc-websockets", "upgrade", "GRPC-websockets").Replace(irr[1])}))
		disp("POST", "", [][2]string{{"Content-Type", "application/grpc-web"}, irr})
	}
	nRawMdq, nRawDisp := 3000, 120
	if tier == "thorough" {
		nRawMdq, nRawDisp = 150000, 5000
	}
	for i := 0; i < nRawMdq; i++ {
		param := common.Pick(r, params)
		mdq(param, genRawQuery(r, param, false))
	}
	for i := 0; i < nRawDisp; i++ {
		switch r.Intn(3) {
		case 0:
			disp("GET", genRawQuery(r, "", true), nil)
		case 1:
			disp("GET", genRawQuery(r, "", true), hs)
		default:
			wsmd(common.Pick(r, []string{"direct", "bridge"}), genRawQuery(r, "", true), nil)
		}
	}
}
