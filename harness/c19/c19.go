// Package c19 is the correspondence area of property C19 (stub: the slice is not built yet).
package c19

import (
	"math/rand"
)

type Area struct{}

func (Area) Name() string { return "c19" }

func (Area) Exec(input string) string { return "UNIMPLEMENTED" }

func (Area) Gen(r *rand.Rand, tier string, emit func(string)) {}
