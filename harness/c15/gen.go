package c15

import (
	"encoding/hex"
	"fmt"
	"math/rand"
	"sort"
	"strings"
	"sync"

	"google.golang.org/protobuf/proto"
	"google.golang.org/protobuf/reflect/protodesc"
	"google.golang.org/protobuf/types/descriptorpb"
)

// ---------------------------------------------------------------------------------------------
// contract construction (generator side)

type methodSpec struct {
	name, in, out string
	cs, ss        bool
}

type svcSpec struct {
	name    string
	methods []methodSpec
}

func mkFile(name, pkg string, deps []string, msgs []string, svcs []svcSpec) *descriptorpb.FileDescriptorProto {
	fd := &descriptorpb.FileDescriptorProto{Name: proto.String(name), Syntax: proto.String("proto3"), Dependency: deps}
	if pkg != "" {
		fd.Package = proto.String(pkg)
	}
	for _, m := range msgs {
		fd.MessageType = append(fd.MessageType, &descriptorpb.DescriptorProto{Name: proto.String(m)})
	}
	for _, s := range svcs {
		sd := &descriptorpb.ServiceDescriptorProto{Name: proto.String(s.name)}
		for _, m := range s.methods {
			md := &descriptorpb.MethodDescriptorProto{Name: proto.String(m.name), InputType: proto.String(m.in), OutputType: proto.String(m.out)}
			if m.cs {
				md.ClientStreaming = proto.Bool(true)
			}
			if m.ss {
				md.ServerStreaming = proto.Bool(true)
			}
			sd.Method = append(sd.Method, md)
		}
		fd.Service = append(fd.Service, sd)
	}
	return fd
}

// gcontract is a contract under construction.
type gcontract struct {
	listed []string
	fds    []*descriptorpb.FileDescriptorProto
	raw    map[string][]byte // overrides of the marshalled bytes (for near-collision files)
}

func (g gcontract) clone() gcontract {
	out := gcontract{listed: append([]string{}, g.listed...)}
	for _, fd := range g.fds {
		out.fds = append(out.fds, proto.Clone(fd).(*descriptorpb.FileDescriptorProto))
	}
	return out
}

func marshalFD(fd *descriptorpb.FileDescriptorProto) []byte {
	b, err := proto.MarshalOptions{Deterministic: true}.Marshal(fd)
	if err != nil {
		panic(err)
	}
	return b
}

// render produces the contract field of a hist line for the given OnlyServices mode.
func (g gcontract) render(onlyServices bool) string {
	valid := true
	if !onlyServices {
		if _, err := protodesc.NewFiles(&descriptorpb.FileDescriptorSet{File: g.fds}); err != nil {
			valid = false
		}
	}
	sig := expectedSig(filteredSorted(g.listed), g.fds, onlyServices)
	var svcs, files []string
	for _, s := range g.listed {
		svcs = append(svcs, hex.EncodeToString([]byte(s)))
	}
	for _, fd := range g.fds {
		files = append(files, hex.EncodeToString([]byte(fd.GetName()))+":"+hex.EncodeToString(marshalFD(fd)))
	}
	v := "0"
	if valid {
		v = "1"
	}
	return v + "/" + sig + "/" + strings.Join(svcs, ",") + "/" + strings.Join(files, ",")
}

// shape facts the attempt generator needs
func (g gcontract) numSymbolRequests() int { return len(filteredSorted(g.listed)) }

func (g gcontract) numFilenameRequests() int {
	direct := map[string]bool{}
	for _, s := range filteredSorted(g.listed) {
		for _, fd := range g.fds {
			for _, sd := range fd.Service {
				full := sd.GetName()
				if fd.GetPackage() != "" {
					full = fd.GetPackage() + "." + full
				}
				if full == s {
					direct[fd.GetName()] = true
				}
			}
		}
	}
	return len(g.fds) - len(direct)
}

func unary(name, in, out string) methodSpec { return methodSpec{name: name, in: in, out: out} }

// baseContracts: a few topologies. Every file is reachable from the listed services, every answer of
// the scripted server carries exactly one file (no duplicates within or across answers).
func baseContract(kind int) gcontract {
	switch kind {
	case 0: // single file, no dependencies
		return gcontract{
			listed: []string{"shop.v1.Cart"},
			fds: []*descriptorpb.FileDescriptorProto{
				mkFile("shop/cart.proto", "shop.v1", nil, []string{"Req", "Resp"},
					[]svcSpec{{"Cart", []methodSpec{unary("Get", ".shop.v1.Req", ".shop.v1.Resp")}}}),
			},
		}
	case 1: // chain of imports: svc -> dep1 -> dep2 (two FileByFilename rounds)
		dep1 := mkFile("chain/dep1.proto", "chain", []string{"chain/dep2.proto"}, []string{"M1"}, nil)
		dep1.MessageType[0].Field = []*descriptorpb.FieldDescriptorProto{{
			Name: proto.String("m2"), Number: proto.Int32(1), Type: descriptorpb.FieldDescriptorProto_TYPE_MESSAGE.Enum(),
			TypeName: proto.String(".chain.M2"), Label: descriptorpb.FieldDescriptorProto_LABEL_OPTIONAL.Enum(), JsonName: proto.String("m2"),
		}}
		return gcontract{
			listed: []string{"chain.Svc"},
			fds: []*descriptorpb.FileDescriptorProto{
				mkFile("chain/svc.proto", "chain", []string{"chain/dep1.proto"}, nil,
					[]svcSpec{{"Svc", []methodSpec{unary("Do", ".chain.M1", ".chain.M1"), {name: "Watch", in: ".chain.M1", out: ".chain.M1", ss: true}}}}),
				dep1,
				mkFile("chain/dep2.proto", "chain", nil, []string{"M2"}, nil),
			},
		}
	case 2: // two service files sharing an import
		return gcontract{
			listed: []string{"x.A", "y.B", "grpc.reflection.v1.ServerReflection"},
			fds: []*descriptorpb.FileDescriptorProto{
				mkFile("x/a.proto", "x", []string{"common/types.proto"}, nil,
					[]svcSpec{{"A", []methodSpec{unary("Ping", ".common.T", ".common.T")}}}),
				mkFile("y/b.proto", "y", []string{"common/types.proto"}, nil,
					[]svcSpec{{"B", []methodSpec{{name: "Pipe", in: ".common.T", out: ".common.T", cs: true, ss: true}}}}),
				mkFile("common/types.proto", "common", nil, []string{"T"}, nil),
			},
		}
	default: // services whose concatenated names are ambiguous: {a.b, c} vs {a.bc}, identical files
		return gcontract{
			listed: []string{"a.b", "c"},
			fds: []*descriptorpb.FileDescriptorProto{
				mkFile("a.proto", "a", []string{"root.proto"}, []string{"M"},
					[]svcSpec{{"b", []methodSpec{unary("F", ".a.M", ".a.M")}}, {"bc", []methodSpec{unary("G", ".a.M", ".a.M")}}}),
				mkFile("root.proto", "", nil, []string{"N"},
					[]svcSpec{{"c", []methodSpec{unary("H", ".N", ".N")}}}),
			},
		}
	}
}

// variants derives contracts related to g: same set in another presentation, real changes, broken ones.
func variant(r *rand.Rand, g gcontract, kind int) gcontract {
	v := g.clone()
	switch kind {
	case 0: // same contract, services listed in another order, with a duplicate and an administrative service
		r.Shuffle(len(v.listed), func(i, j int) { v.listed[i], v.listed[j] = v.listed[j], v.listed[i] })
		if len(v.listed) > 0 {
			v.listed = append(v.listed, v.listed[r.Intn(len(v.listed))])
		}
		if r.Intn(2) == 0 {
			v.listed = append([]string{"grpc.health.v1.Health"}, v.listed...)
		}
		r.Shuffle(len(v.fds), func(i, j int) { v.fds[i], v.fds[j] = v.fds[j], v.fds[i] })
	case 1: // a method is added to the first service found
		for _, fd := range v.fds {
			if len(fd.Service) > 0 {
				m0 := fd.Service[0].Method[0]
				fd.Service[0].Method = append(fd.Service[0].Method, &descriptorpb.MethodDescriptorProto{
					Name: proto.String(fmt.Sprintf("Extra%d", r.Intn(3))), InputType: m0.InputType, OutputType: m0.OutputType,
				})
				break
			}
		}
	case 2: // a new service file is added and listed
		for _, fd := range v.fds {
			if fd.GetName() == "extra/new.proto" {
				return variant(r, g, 1)
			}
		}
		v.fds = append(v.fds, mkFile("extra/new.proto", "extra", nil, []string{"E"},
			[]svcSpec{{"New", []methodSpec{unary("Call", ".extra.E", ".extra.E")}}}))
		v.listed = append(v.listed, "extra.New")
	case 3: // a message gains a field in a leaf file (descriptor bytes change, services do not)
		if len(v.fds) == 0 {
			return variant(r, g, 2)
		}
		fd := v.fds[len(v.fds)-1]
		if len(fd.MessageType) > 0 {
			n := len(fd.MessageType[0].Field)
			fd.MessageType[0].Field = append(fd.MessageType[0].Field, &descriptorpb.FieldDescriptorProto{
				Name: proto.String(fmt.Sprintf("f%d", n)), Number: proto.Int32(int32(10 + n)), Type: descriptorpb.FieldDescriptorProto_TYPE_STRING.Enum(),
				Label: descriptorpb.FieldDescriptorProto_LABEL_OPTIONAL.Enum(), JsonName: proto.String(fmt.Sprintf("f%d", n)),
			})
		}
	case 4: // broken: a method refers to a message nobody defines (parseFileDescriptors fails)
		for _, fd := range v.fds {
			if len(fd.Service) > 0 {
				fd.Service[0].Method[0].OutputType = proto.String(".nowhere.Missing")
				break
			}
		}
	case 5: // the listing changes but every file stays reachable (only for the ambiguous topology)
		if len(v.listed) == 2 && v.listed[0] == "a.b" {
			v.listed = []string{"a.bc"}
		} else if len(v.listed) > 1 {
			// drop a service whose file is still needed? keep it simple: list only the first service if the
			// remaining files stay reachable is not guaranteed, so just permute instead
			r.Shuffle(len(v.listed), func(i, j int) { v.listed[i], v.listed[j] = v.listed[j], v.listed[i] })
		}
	case 7: // the target serves nothing (any more): no services at all, or only administrative ones, hence no files
		v.fds = nil
		switch r.Intn(3) {
		case 0:
			v.listed = nil
		case 1:
			v.listed = []string{"grpc.health.v1.Health"}
		default:
			v.listed = []string{"grpc.reflection.v1.ServerReflection", "grpc.reflection.v1alpha.ServerReflection", "grpc.health.v1.Health"}
		}
	case 6: // only an administrative service is added to the listing (filtered: no change)
		v.listed = append(v.listed, "grpc.channelz.v1.Channelz")
	}
	return v
}

// ---------------------------------------------------------------------------------------------
// Gen

var (
	distMu sync.Mutex
	dist   = map[string]int{}
)

func count(k string) {
	distMu.Lock()
	dist[k]++
	distMu.Unlock()
}

func (Area) Extra() map[string]any {
	distMu.Lock()
	defer distMu.Unlock()
	keys := make([]string, 0, len(dist))
	for k := range dist {
		keys = append(keys, k)
	}
	sort.Strings(keys)
	out := map[string]any{}
	for _, k := range keys {
		out[k] = dist[k]
	}
	return map[string]any{"generator_distribution": out}
}

type gplan struct {
	att     [2]string
	n       [5]int
	closeAt byte
	splits  []string // h<point> / r<point>
}

func (p gplan) String() string {
	s := fmt.Sprintf("%s/%s/%d.%d.%d.%d.%d/%c", p.att[0], p.att[1], p.n[0], p.n[1], p.n[2], p.n[3], p.n[4], p.closeAt)
	if len(p.splits) > 0 {
		s += "/" + strings.Join(p.splits, ",")
	}
	return s
}

func withSplits(p gplan, sp ...string) gplan {
	p.splits = append(append([]string{}, p.splits...), sp...)
	return p
}

func histLine(os bool, rt int, cs []gcontract, plans []gplan) string {
	var sb strings.Builder
	o := "os0"
	if os {
		o = "os1"
	}
	fmt.Fprintf(&sb, "hist %s rt%d C=", o, rt)
	for i, c := range cs {
		if i > 0 {
			sb.WriteString(";")
		}
		sb.WriteString(c.render(os))
	}
	for _, p := range plans {
		sb.WriteString(" ")
		sb.WriteString(p.String())
	}
	return sb.String()
}

func ok(cid int) string { return fmt.Sprintf("S%d", cid) }

// simple plan: both versions serve cid, one ResolveNow at the given point (0..4, or -1 for none)
func sp(cid int, point int) gplan {
	p := gplan{att: [2]string{ok(cid), ok(cid)}, closeAt: '-'}
	if point >= 0 {
		p.n[point] = 1
	}
	return p
}

// failing attempt for contract g (id cid) in mode/pos chosen from what the contract's shape allows
func randFailure(r *rand.Rand, g gcontract, cid int, os bool, unimplemented bool) string {
	poss := []string{"o", "ls", "lr", "le"}
	if !os {
		for k := 0; k < g.numSymbolRequests(); k++ {
			poss = append(poss, fmt.Sprintf("ss%d", k), fmt.Sprintf("sr%d", k), fmt.Sprintf("se%d", k))
		}
		for k := 0; k < g.numFilenameRequests(); k++ {
			poss = append(poss, fmt.Sprintf("fs%d", k), fmt.Sprintf("fr%d", k), fmt.Sprintf("fe%d", k))
			if !unimplemented {
				poss = append(poss, fmt.Sprintf("fm%d", k))
			}
		}
	}
	if !unimplemented {
		poss = append(poss, "lw")
	}
	pos := poss[r.Intn(len(poss))]
	isErrResp := strings.HasSuffix(strings.TrimRight(pos, "0123456789"), "e")
	isRecv := strings.HasSuffix(strings.TrimRight(pos, "0123456789"), "r")
	if strings.HasPrefix(pos, "fm") || pos == "lw" {
		count("fail:O@" + strings.TrimRight(pos, "0123456789"))
		return fmt.Sprintf("O%d@%s", cid, pos)
	}
	var modes []byte
	switch {
	case unimplemented:
		modes = []byte{'U'}
	case isErrResp:
		modes = []byte{'A', 'I'}
	case isRecv:
		modes = []byte{'A', 'I', 'T', 'E'}
	default:
		modes = []byte{'A', 'I', 'T'}
	}
	m := modes[r.Intn(len(modes))]
	count(fmt.Sprintf("fail:%c@%s", m, strings.TrimRight(pos, "0123456789")))
	return fmt.Sprintf("%c%d@%s", m, cid, pos)
}

// okz: contract cid served completely, then the stream ends uncleanly (kind 0 non-OK status, 1 RST, 2 transport
// error, 3 never finished = the drain times out)
func okz(cid, kind int) string { return fmt.Sprintf("S%d@z%d", cid, kind) }

// spz: like sp, with an unclean end of stream on both versions
func spz(cid, kind, point int) gplan {
	p := sp(cid, point)
	p.att = [2]string{okz(cid, kind), okz(cid, kind)}
	return p
}

func hasTimeout(plans []gplan) bool {
	for _, p := range plans {
		if p.att[0][0] == 'T' || p.att[1][0] == 'T' || strings.HasSuffix(p.att[0], "@z3") || strings.HasSuffix(p.att[1], "@z3") {
			return true
		}
	}
	return false
}

func emitHist(emit func(string), os bool, cs []gcontract, plans []gplan) {
	rt := 10000
	if hasTimeout(plans) {
		rt = 2
	}
	emit(histLine(os, rt, cs, plans))
}

// emitTick emits an interval-polling history (PollManually=false, PollInterval=<piMs> ms before clamping).
// Every timer-driven poll costs the clamped interval (at least 1 s) of wall time: keep these few.
func emitTick(emit func(string), cs []gcontract, plans []gplan, piMs int) {
	line := histLine(false, 10000, cs, plans)
	emit(strings.Replace(line, " rt10000 ", fmt.Sprintf(" rt10000,pi%d ", piMs), 1))
}

func hexList(names []string) string {
	if len(names) == 0 {
		return "-"
	}
	var out []string
	for _, n := range names {
		out = append(out, hex.EncodeToString([]byte(n)))
	}
	return strings.Join(out, ",")
}

func hexFiles(names []string, bs [][]byte) string {
	if len(names) == 0 {
		return "-"
	}
	var out []string
	for i := range names {
		out = append(out, hex.EncodeToString([]byte(names[i]))+":"+hex.EncodeToString(bs[i]))
	}
	return strings.Join(out, ",")
}

func (Area) Gen(r *rand.Rand, tier string, emit func(string)) {
	// ---- built-in edge cases -------------------------------------------------------------
	// hash pre-image ambiguity: different name sets / bundle sets whose concatenations coincide
	emit("hsvc " + hexList([]string{"a.b", "c"}) + " " + hexList([]string{"a.bc"}))
	emit("hsvc " + hexList([]string{"api.User", "api.UserAdmin"}) + " " + hexList([]string{"api.Userapi.UserAdmin"}))
	emit("hsvc " + hexList([]string{"b", "a"}) + " " + hexList([]string{"a", "b"}))
	emit("hsvc - -")
	emit("hsvc " + hexList([]string{"a"}) + " -")
	emit("hfile " + hexFiles([]string{"a", "b"}, [][]byte{{1, 2}, {3}}) + " " + hexFiles([]string{"a", "b"}, [][]byte{{1}, {2, 3}}))
	emit("hfile " + hexFiles([]string{"a", "b"}, [][]byte{{1, 2}, {3}}) + " " + hexFiles([]string{"b", "a"}, [][]byte{{3}, {1, 2}}))
	emit("hfile " + hexFiles([]string{"a"}, [][]byte{{}}) + " -")

	// the real ReflectionRouter: aggregateWatcher over the real router watchers, Remove at four points
	genRR(r, tier, emit)
	// the real sync.OnceFunc under n concurrent callers
	for _, n := range []int{0, 1, 2, 3, 8, 32} {
		emit(fmt.Sprintf("once %d", n))
	}

	amb := baseContract(3)
	amb2 := variant(r, amb, 5)
	for _, os := range []bool{true, false} {
		// the listing changes from {a.b, c} to {a.bc} over identical files: an update is due
		emitHist(emit, os, []gcontract{amb, amb2}, []gplan{sp(0, 3), sp(1, 3), sp(0, -1)})
	}
	// ---- fault AFTER the last answer: a fully answered poll whose stream does not end with a clean EOF ----------
	// (the poll succeeded: what it observed must be delivered, and nothing may be remembered that was not delivered)
	for zk := 0; zk < 4; zk++ {
		b := baseContract(zk % 4)
		cs := []gcontract{b, variant(r, b, 0), variant(r, b, 1)}
		for _, os := range []bool{false, true} {
			// the FIRST poll ends uncleanly, then clean polls
			emitHist(emit, os, cs, []gplan{spz(0, zk, 3), sp(0, 3), sp(0, -1)})
			// a CHANGE is observed by a poll that ends uncleanly, then clean polls of the same contract
			emitHist(emit, os, cs, []gplan{sp(0, 3), spz(2, zk, 3), sp(2, 3), sp(2, -1)})
			// unchanged polls ending uncleanly stay silent; a later change is delivered
			emitHist(emit, os, cs, []gplan{sp(0, 3), spz(1, zk, 3), spz(0, zk, 3), sp(2, -1)})
		}
		// unclean end on v1alpha after Unimplemented on v1
		fb := spz(2, zk, 3)
		fb.att[0] = "U2@o"
		emitHist(emit, false, cs, []gplan{sp(0, 3), fb, sp(2, 3), sp(2, -1)})
	}

	for kind := 0; kind < 4; kind++ {
		b := baseContract(kind)
		same := variant(r, b, 0)
		chg := variant(r, b, 1)
		bad := variant(r, b, 4)
		cs := []gcontract{b, same, chg, bad}
		// unchanged presentations are silent, a change is delivered once
		emitHist(emit, false, cs, []gplan{sp(0, 3), sp(1, 3), sp(0, 3), sp(2, 3), sp(2, 3), sp(0, -1)})
		// first poll fails, recovery delivers; failure in between keeps state; same contract after failure is silent
		fa := func(m string) gplan { p := sp(0, 3); p.att = [2]string{m, m}; return p }
		emitHist(emit, false, cs, []gplan{fa("A0@o"), sp(0, 3), fa("I0@lr"), sp(0, 3), fa("E0@lr"), sp(2, 3), fa("G0"), sp(2, -1)})
		// an unparsable contract is reported every time and never becomes "the last one"
		emitHist(emit, false, cs, []gplan{sp(0, 3), sp(3, 3), sp(3, 3), sp(0, 3), sp(3, 3), sp(2, -1)})
		emitHist(emit, false, cs, []gplan{sp(3, 3), sp(3, 3), sp(0, -1)})
		// Unimplemented on one version: fallback, remembered priority, switch back
		ua := func(cid int, v int, pos string) gplan {
			p := sp(cid, 3)
			p.att[v] = fmt.Sprintf("U%d@%s", cid, pos)
			return p
		}
		emitHist(emit, false, cs, []gplan{ua(0, 0, "o"), ua(0, 0, "o"), sp(2, 3), ua(2, 1, "lr"), ua(0, 1, "le"), sp(0, 3), ua(0, 0, "ls"), sp(0, -1)})
		both := sp(0, 3)
		both.att = [2]string{"U0@o", "U0@lr"}
		emitHist(emit, false, cs, []gplan{both, sp(0, 3), both, sp(0, -1)})
		// timeouts
		emitHist(emit, false, cs, []gplan{fa("T0@lr"), sp(0, 3), fa("T0@o"), sp(2, -1)})
		// ResolveNow at every point, several per generation, and in the wake/re-arm window
		for pt := 0; pt < 4; pt++ {
			p0, p1 := sp(0, pt), sp(2, pt)
			p0.n[pt] = 2
			p1.n[4] = 2 // E: lands between wake-up and re-arm of the NEXT wake; must not cause an extra poll
			emitHist(emit, false, cs, []gplan{p0, p1, sp(0, pt), sp(2, -1)})
		}
		all := gplan{att: [2]string{ok(0), ok(0)}, n: [5]int{1, 1, 1, 1, 1}, closeAt: '-'}
		emitHist(emit, false, cs, []gplan{all, all, sp(2, -1)})
		// ResolveNow split at the hook between pointer load and once-call
		//  stale pointer: loaded while parked, another call wakes the poller, released after the re-arm and the next poll
		emitHist(emit, false, cs, []gplan{withSplits(sp(0, 3), "hD"), withSplits(sp(2, -1), "rD"), sp(0, -1)})
		//  loaded during a poll, generation closed by another call before the select, released before the next poll
		emitHist(emit, false, cs, []gplan{withSplits(sp(0, 2), "hB"), withSplits(sp(2, -1), "rA"), sp(0, -1)})
		//  loaded in the wake/re-arm window (spent once-func), released while parked after the next poll
		emitHist(emit, false, cs, []gplan{withSplits(sp(0, 3), "hE"), withSplits(sp(2, -1), "rD"), sp(0, -1)})
		//  loaded before a poll on the armed generation, released while parked: wakes the poller
		emitHist(emit, false, cs, []gplan{sp(0, 3), withSplits(sp(2, -1), "hA", "rD"), sp(0, -1)})
		//  loaded and released at the same parked point
		emitHist(emit, false, cs, []gplan{withSplits(sp(0, -1), "hD", "rD"), sp(2, -1)})
		//  two held calls of the same generation released together during a later poll
		emitHist(emit, false, cs, []gplan{withSplits(sp(0, 3), "hA", "hC"), withSplits(sp(2, 3), "rB"), sp(0, -1)})
		// Close at every point, with and without a pending wake-up
		for pt := 0; pt < 5; pt++ {
			for _, pending := range []bool{false, true} {
				p := sp(0, -1)
				if pending {
					p.n[1] = 1
				}
				p.closeAt = byte('A' + pt)
				if pt == 4 { // E is only reached after a wake-up
					q := sp(0, 3)
					emitHist(emit, false, cs, []gplan{q, p, sp(2, 3), sp(0, -1)})
					continue
				}
				emitHist(emit, false, cs, []gplan{sp(0, 3), p, sp(2, 3), sp(0, -1)})
			}
		}
		// Close issued before / during a poll against a target that has stopped answering (the poll lasts
		// two request timeouts: the ListServices answer and the drain in client.close): Close must still
		// wait for the poller, the error report must come before it returns
		for _, pt := range []byte{'A', 'B'} {
			p := fa("T0@lr")
			p.n = [5]int{}
			p.closeAt = pt
			emitHist(emit, false, cs, []gplan{sp(0, 3), p, sp(2, -1)})
		}
		// EMPTY versions (cs2: 0 base, 1 empty listing, 2 only administrative services, 3 changed base)
		{
			e1, e2 := variant(r, b, 7), variant(r, b, 7)
			e1.listed = nil
			e2.listed = []string{"grpc.health.v1.Health", "grpc.reflection.v1.ServerReflection"}
			cs2 := []gcontract{b, e1, e2, chg}
			fe := func(cid int, m string) gplan { p := sp(cid, 3); p.att = [2]string{m, m}; return p }
			for _, os := range []bool{false, true} {
				// the first successful poll of an empty target delivers (an empty description); empty again is silent
				emitHist(emit, os, cs2, []gplan{sp(1, 3), sp(1, 3), sp(2, 3), sp(0, 3), sp(0, -1)})
				emitHist(emit, os, cs2, []gplan{sp(2, 3), sp(1, 3), sp(1, -1)})
				// non-empty -> empty -> non-empty: both changes are delivered, also when only grpc.* services remain
				emitHist(emit, os, cs2, []gplan{sp(0, 3), sp(1, 3), sp(0, 3), sp(2, 3), sp(2, 3), sp(3, -1)})
				// empty after an error, error before the first (empty) version, error between two empty polls
				emitHist(emit, os, cs2, []gplan{sp(0, 3), fe(0, "A0@lr"), sp(1, 3), fe(1, "I1@o"), sp(1, 3), sp(0, -1)})
				emitHist(emit, os, cs2, []gplan{fe(1, "E1@lr"), sp(1, 3), fe(1, "G1"), sp(2, 3), sp(0, -1)})
			}
			// Unimplemented on one version while the target is empty; the timer path is covered by the tick lines below
			ue := sp(1, 3)
			ue.att[0] = "U1@o"
			emitHist(emit, false, cs2, []gplan{sp(0, 3), ue, ue, sp(0, -1)})
		}
		// OnlyServices: files are not fetched, only the listing counts
		emitHist(emit, true, cs, []gplan{sp(0, 3), sp(1, 3), sp(2, 3), sp(3, 3), sp(0, -1)})
	}

	// ---- options clamping ----------------------------------------------------------------------
	for _, pi := range []int64{0, 1, -1, 999999999, 1000000000, 1000000001, 300000000000, 1 << 62, -(1 << 62)} {
		emit(fmt.Sprintf("opts %d 0 0 - 0 0", pi))
	}
	for _, rt := range []int64{1, -1, 999999, 1000000, 1000001, 10000000000, 1 << 62} {
		emit(fmt.Sprintf("opts 0 %d 0 - 1 0", rt))
	}
	for _, rl := range []int64{1, -1, -100, 99, 100, 101, 1 << 40} {
		emit(fmt.Sprintf("opts 0 0 %d - 1 1", rl))
	}
	emit("opts 5000000000 20000000 3 " + hexList([]string{"internal.", "grpc."}) + " 1 0")
	emit("opts 0 0 0 " + hexList([]string{"a", "b", "c"}) + " 0 1")
	// ---- aggregate watcher, second Close, independent resolvers -------------------------------------
	emit("agg 2 ua,eb,uc,c")
	emit("agg 1 ua,c")
	emit("agg 0 ua,eb")
	emit("agg 3 -")
	emit("agg 4 c,ua,ex,ex,ub")
	emit("close2 seq")
	emit("close2 conc")
	emit("indep")
	// ---- interval polling (each timer poll takes 1 s) -----------------------------------------------
	{
		b := baseContract(0)
		cs := []gcontract{b, variant(r, b, 0), variant(r, b, 1)}
		// the timer alone drives the polls: first delivers, unchanged is silent, the change is delivered
		emitTick(emit, cs, []gplan{sp(0, -1), sp(1, -1), sp(2, -1)}, 1000)
		// an interval below the floor is raised to 1 s; ResolveNow still wakes the poller at once
		emitTick(emit, cs, []gplan{sp(0, 3), sp(2, -1), sp(0, -1)}, 1)
		// Close during the sleep: served at once, the run does not wait for the interval (no timer poll at all)
		{
			cl := sp(0, -1)
			cl.closeAt = 'D'
			emitTick(emit, cs, []gplan{cl}, 1000)
			// Close during a timer-started poll (point B: inside resolve), and at its select entry (C)
			clB := sp(2, -1)
			clB.closeAt = 'B'
			emitTick(emit, cs, []gplan{sp(0, -1), clB}, 1000)
			clC := sp(2, -1)
			clC.closeAt = 'C'
			emitTick(emit, cs, []gplan{sp(0, -1), clC}, 1000)
		}
		if tier == "thorough" {
			// ResolveNow during a poll and the timer, a failing poll retried by the timer, Close while the timer runs
			fail := sp(0, -1)
			fail.att = [2]string{"A0@o", "A0@o"}
			emitTick(emit, cs, []gplan{sp(0, 1), fail, sp(0, -1)}, 500)
			cl := sp(2, -1)
			cl.closeAt = 'D'
			emitTick(emit, cs, []gplan{sp(0, -1), cl, sp(0, -1)}, 1000)
			emp := variant(r, b, 7)
			emitTick(emit, []gcontract{b, emp}, []gplan{sp(1, -1), sp(0, -1), sp(1, -1)}, 1000)
			un := sp(0, -1)
			un.att = [2]string{"U0@o", ok(0)}
			emitTick(emit, cs, []gplan{un, un, sp(2, 2), sp(0, -1)}, 1000)
		}
	}

	// ---- seeded random ---------------------------------------------------------------------
	nHist, nHash := 150, 3000
	if tier == "thorough" {
		nHist, nHash = 4000, 60000
	}
	for i := 0; i < nHash; i++ {
		genHash(r, emit)
	}
	for i := 0; i < nHash/15; i++ {
		genOptsAgg(r, emit)
	}
	for i := 0; i < nHist; i++ {
		genHist(r, emit)
	}
}

var nameAlphabet = []byte("abAB.c_1")

func randName(r *rand.Rand) string {
	n := 1 + r.Intn(5)
	b := make([]byte, n)
	for i := range b {
		b[i] = nameAlphabet[r.Intn(len(nameAlphabet))]
	}
	return string(b)
}

func dedupe(xs []string) []string {
	seen := map[string]bool{}
	var out []string
	for _, x := range xs {
		if !seen[x] {
			seen[x] = true
			out = append(out, x)
		}
	}
	return out
}

// genHash emits one hash-equality case: mostly related pairs (permutations, re-splits of the same
// concatenation, one-byte edits), some unrelated.
func genHash(r *rand.Rand, emit func(string)) {
	if r.Intn(2) == 0 {
		n := r.Intn(5)
		var a []string
		for i := 0; i < n; i++ {
			a = append(a, randName(r))
		}
		a = dedupe(a)
		var b []string
		kind := r.Intn(5)
		switch kind {
		case 0: // permutation
			b = append([]string{}, a...)
			r.Shuffle(len(b), func(i, j int) { b[i], b[j] = b[j], b[i] })
		case 1: // re-split the sorted concatenation at other points
			s := append([]string{}, a...)
			sort.Strings(s)
			cat := strings.Join(s, "")
			for len(cat) > 0 {
				k := 1 + r.Intn(len(cat))
				b = append(b, cat[:k])
				cat = cat[k:]
			}
			b = dedupe(b)
		case 2: // one name edited
			b = append([]string{}, a...)
			if len(b) > 0 {
				b[r.Intn(len(b))] = randName(r)
			}
			b = dedupe(b)
		case 3: // one name dropped or added
			b = append([]string{}, a...)
			if len(b) > 0 && r.Intn(2) == 0 {
				b = b[1:]
			} else {
				b = dedupe(append(b, randName(r)))
			}
		default:
			for i := r.Intn(5); i > 0; i-- {
				b = append(b, randName(r))
			}
			b = dedupe(b)
		}
		count(fmt.Sprintf("hsvc:kind%d", kind))
		emit("hsvc " + hexList(a) + " " + hexList(b))
		return
	}
	// bundles: distinct names, small byte strings
	n := r.Intn(4)
	names := []string{}
	bs := [][]byte{}
	for i := 0; i < n; i++ {
		names = append(names, fmt.Sprintf("f%d", i))
		b := make([]byte, r.Intn(4))
		for j := range b {
			b[j] = byte(r.Intn(3))
		}
		bs = append(bs, b)
	}
	names2 := append([]string{}, names...)
	bs2 := make([][]byte, len(bs))
	for i := range bs {
		bs2[i] = append([]byte{}, bs[i]...)
	}
	kind := r.Intn(4)
	switch kind {
	case 0: // same bundles in another order
		r.Shuffle(len(names2), func(i, j int) { names2[i], names2[j] = names2[j], names2[i]; bs2[i], bs2[j] = bs2[j], bs2[i] })
	case 1: // move a byte across a file boundary (same concatenation)
		if len(bs2) >= 2 {
			i := r.Intn(len(bs2) - 1)
			if len(bs2[i]) > 0 {
				last := bs2[i][len(bs2[i])-1]
				bs2[i] = bs2[i][:len(bs2[i])-1]
				bs2[i+1] = append([]byte{last}, bs2[i+1]...)
			}
		}
	case 2: // same bytes under other names (order of the concatenation may change)
		for i := range names2 {
			names2[i] = fmt.Sprintf("g%d", len(names2)-i)
		}
	default: // edit one byte
		if len(bs2) > 0 {
			i := r.Intn(len(bs2))
			bs2[i] = append(bs2[i], byte(r.Intn(3)))
		}
	}
	count(fmt.Sprintf("hfile:kind%d", kind))
	emit("hfile " + hexFiles(names, bs) + " " + hexFiles(names2, bs2))
}

// genOptsAgg emits one random options case or aggregate-watcher case.
func genOptsAgg(r *rand.Rand, emit func(string)) {
	if r.Intn(2) == 0 {
		pick := func(unit int64) int64 {
			switch r.Intn(6) {
			case 0:
				return 0
			case 1:
				return -r.Int63n(3 * unit)
			case 2:
				return unit - 1 + r.Int63n(3) // around the floor
			case 3:
				return r.Int63n(unit) // below the floor
			default:
				return r.Int63n(1000 * unit)
			}
		}
		var pf []string
		for i := r.Intn(3); i > 0; i-- {
			pf = append(pf, randName(r))
		}
		count("opts")
		emit(fmt.Sprintf("opts %d %d %d %s %d %d", pick(1000000000), pick(1000000), pick(50)-10, hexList(pf), r.Intn(2), r.Intn(2)))
		return
	}
	n := r.Intn(5)
	var evs []string
	for i := r.Intn(7); i > 0; i-- {
		switch r.Intn(5) {
		case 0:
			evs = append(evs, "c")
		case 1, 2:
			evs = append(evs, fmt.Sprintf("e%d", r.Intn(9)))
		default:
			evs = append(evs, fmt.Sprintf("u%d", r.Intn(9)))
		}
	}
	l := "-"
	if len(evs) > 0 {
		l = strings.Join(evs, ",")
	}
	count("agg")
	emit(fmt.Sprintf("agg %d %s", n, l))
}

// genHist emits one random poll history.
func genHist(r *rand.Rand, emit func(string)) {
	os := r.Intn(6) == 0
	topo := r.Intn(4)
	base := baseContract(topo)
	cs := []gcontract{base}
	nc := 2 + r.Intn(4)
	for len(cs) < nc {
		src := cs[r.Intn(len(cs))]
		k := r.Intn(8)
		if k == 4 && r.Intn(2) == 0 {
			k = 0
		}
		if len(cs) == 1 && r.Intn(4) == 0 {
			k = 7 // one history in four (at least) has an empty version
		}
		if k == 7 {
			count("hist:hasEmptyVersion")
		}
		cs = append(cs, variant(r, src, k))
	}
	count(fmt.Sprintf("hist:topology%d", topo))
	if os {
		count("hist:onlyServices")
	}
	np := 1 + r.Intn(8)
	closePoll := -1
	if r.Intn(3) == 0 {
		closePoll = r.Intn(np)
	}
	cur := r.Intn(len(cs))
	for i, c := range cs {
		if len(c.fds) == 0 && len(filteredSorted(c.listed)) == 0 && r.Intn(2) == 0 {
			cur = i // start on the empty version
			count("hist:startsEmpty")
		}
	}
	var plans []gplan
	for i := 0; i < np; i++ {
		if r.Intn(3) != 0 && i > 0 {
			cur = r.Intn(len(cs))
		}
		p := gplan{closeAt: '-'}
		switch x := r.Intn(100); {
		case x < 60:
			p.att = [2]string{ok(cur), ok(cur)}
			count("poll:success")
		case x < 75: // Unimplemented on one version
			v := r.Intn(2)
			p.att = [2]string{ok(cur), ok(cur)}
			p.att[v] = randFailure(r, cs[cur], cur, os, true)
			count("poll:unimplemented-one")
		case x < 80: // Unimplemented on both
			p.att = [2]string{randFailure(r, cs[cur], cur, os, true), randFailure(r, cs[cur], cur, os, true)}
			count("poll:unimplemented-both")
		case x < 93: // the same failure whichever version is asked
			f := randFailure(r, cs[cur], cur, os, false)
			p.att = [2]string{f, f}
			count("poll:failure")
		case x < 96:
			p.att = [2]string{fmt.Sprintf("G%d", cur), fmt.Sprintf("G%d", cur)}
			count("poll:no-connection")
		default: // one version fails hard, the other works (outcome depends on the remembered priority)
			v := r.Intn(2)
			p.att = [2]string{ok(cur), ok(cur)}
			p.att[v] = randFailure(r, cs[cur], cur, os, false)
			count("poll:mixed")
		}
		// about one successful attempt in six ends its stream uncleanly AFTER the last answer
		for v := 0; v < 2; v++ {
			if p.att[v] == ok(cur) && r.Intn(6) == 0 {
				p.att[v] = okz(cur, r.Intn(3))
				count("poll:unclean-end")
			}
		}
		// ResolveNow placements
		for pt := 0; pt < 5; pt++ {
			switch x := r.Intn(10); {
			case x < 6:
			case x < 9:
				p.n[pt] = 1
			default:
				p.n[pt] = 2 + r.Intn(2)
			}
		}
		if i < np-1 && p.n[0]+p.n[1]+p.n[2]+p.n[3] == 0 && r.Intn(10) != 0 {
			p.n[r.Intn(4)] = 1
		}
		if i == np-1 {
			p.n[0], p.n[1], p.n[2], p.n[3] = 0, 0, 0, 0
		}
		if i == closePoll {
			p.closeAt = byte('A' + r.Intn(5))
			count(fmt.Sprintf("close:%c", p.closeAt))
		}
		plans = append(plans, p)
	}
	// split ResolveNow calls: held after the pointer load at one point, released at another
	if r.Intn(3) == 0 {
		for k := 1 + r.Intn(2); k > 0; k-- {
			hp, rp := r.Intn(np), r.Intn(np)
			hpt, rpt := byte('A'+r.Intn(5)), byte('A'+r.Intn(5))
			plans[hp].splits = append(plans[hp].splits, "h"+string(hpt))
			plans[rp].splits = append(plans[rp].splits, "r"+string(rpt))
			count("split:hold" + string(hpt) + "-release" + string(rpt))
		}
		// the last plan must stay quiescent unless a release wakes the poller; nothing to adjust
	}
	emitHist(emit, os, cs, plans)
}
