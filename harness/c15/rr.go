package c15

// rr: the REAL grpcbridge.ReflectionRouter (root constructor, real AdaptedClientPool, real *grpc.ClientConn over
// bufconn, real grpc reflection service v1 + v1alpha over run-time built descriptors) with the aggregateWatcher
// that Add installs over the REAL PatternRouterWatcher and ServiceRouterWatcher.
//
//	rr <m|t> <mask,mask,...> <N|P|U|S>   =>   event log
//
// mask: which of the services rr.A (1), rr.B (2), rr.C (4) the target lists at the k-th poll. Polls: the first by
// Add, the others by VerifResolveNow (m) or by the 1 s timer (t). The last poll meets Remove at point
//
//	N  poller parked in its select
//	P  poller held at resolver.beforeResolve: Remove closes both watchers, then the poll runs (its update falls on closed members)
//	U  poller held INSIDE PatternRouterWatcher.UpdateDesc (past the closed check, mutex held): Remove waits for the mutex
//	S  poller held inside ServiceRouterWatcher.UpdateDesc: Remove closes the pattern watcher, waits for the service one
//	M  poller held in aggregateWatcher.UpdateDesc BETWEEN its two members (the pattern watcher has applied the update):
//	   Remove closes both watchers, then the service watcher gets the update - closed: the members end up differing
//
// Log tokens (one total order): b poll start, pu / su the pattern / service watcher APPLIES an update (hook behind the
// closed check), s poll end, rc Remove called, pc / sc the pattern / service watcher's closed flag set, rr Remove
// returned, q<p>.<s> probe of both routers between polls and after Remove: masks of the services routable through
// RouteHTTP (pattern router) and RouteGRPC (service router).

import (
	"context"
	"fmt"
	"net"
	"net/http"
	"strconv"
	"strings"
	"sync"
	"sync/atomic"
	"time"

	grpcbridge "github.com/renbou/grpcbridge"
	"google.golang.org/grpc"
	"google.golang.org/grpc/credentials/insecure"
	"google.golang.org/grpc/metadata"
	grpcreflection "google.golang.org/grpc/reflection"
	reflv1 "google.golang.org/grpc/reflection/grpc_reflection_v1"
	reflv1a "google.golang.org/grpc/reflection/grpc_reflection_v1alpha"
	"google.golang.org/grpc/test/bufconn"
	"google.golang.org/protobuf/proto"
	"google.golang.org/protobuf/reflect/protodesc"
	"google.golang.org/protobuf/reflect/protoregistry"
	"google.golang.org/protobuf/types/descriptorpb"
)

var rrServices = []string{"A", "B", "C"}

const rrTarget = "rrt"

type rrServer struct {
	lis   *bufconn.Listener
	srv   *grpc.Server
	files *protoregistry.Files
	mask  atomic.Int32
}

func (s *rrServer) GetServiceInfo() map[string]grpc.ServiceInfo {
	out := map[string]grpc.ServiceInfo{}
	m := int(s.mask.Load())
	for i, x := range rrServices {
		if m&(1<<i) != 0 {
			out["rr."+x] = grpc.ServiceInfo{}
		}
	}
	return out
}

func newRRServer() (*rrServer, error) {
	s := &rrServer{lis: bufconn.Listen(1 << 16), files: new(protoregistry.Files)}
	for _, x := range rrServices {
		fd := &descriptorpb.FileDescriptorProto{
			Name: proto.String("rr_" + x + ".proto"), Package: proto.String("rr"), Syntax: proto.String("proto3"),
			MessageType: []*descriptorpb.DescriptorProto{{Name: proto.String("M" + x)}},
			Service: []*descriptorpb.ServiceDescriptorProto{{Name: proto.String(x), Method: []*descriptorpb.MethodDescriptorProto{{
				Name: proto.String("M"), InputType: proto.String(".rr.M" + x), OutputType: proto.String(".rr.M" + x),
			}}}},
		}
		f, err := protodesc.NewFile(fd, nil)
		if err != nil {
			return nil, err
		}
		if err := s.files.RegisterFile(f); err != nil {
			return nil, err
		}
	}
	s.srv = grpc.NewServer()
	opts := grpcreflection.ServerOptions{Services: s, DescriptorResolver: s.files}
	reflv1.RegisterServerReflectionServer(s.srv, grpcreflection.NewServerV1(opts))
	reflv1a.RegisterServerReflectionServer(s.srv, grpcreflection.NewServer(opts))
	go func() { _ = s.srv.Serve(s.lis) }()
	return s, nil
}

func (s *rrServer) dial(target string, opts ...grpc.DialOption) (*grpc.ClientConn, error) {
	opts = append(opts, grpc.WithContextDialer(func(ctx context.Context, _ string) (net.Conn, error) { return s.lis.DialContext(ctx) }),
		grpc.WithTransportCredentials(insecure.NewCredentials()))
	return grpc.NewClient("passthrough:///rr", opts...)
}

type rrExec struct {
	mu        sync.Mutex
	log       []string
	abandoned atomic.Bool

	// hook scheduling: a point named here parks its goroutine until the channel is closed
	holdAt   atomic.Pointer[string]
	held     chan struct{} // signalled when a goroutine parks
	release  chan struct{}
	pollEnds chan struct{}
	closedSc chan struct{}
}

func (x *rrExec) logf(t string) {
	x.mu.Lock()
	x.log = append(x.log, t)
	x.mu.Unlock()
}

func (x *rrExec) snapshot() string {
	x.mu.Lock()
	defer x.mu.Unlock()
	return strings.Join(x.log, " ")
}

var rrTokens = map[string]string{
	"resolver.beforeResolve": "b", "pattern.update.afterCheck": "pu", "service.update.afterCheck": "su",
	"resolver.beforeSelect": "s", "pattern.close.afterFlag": "pc", "service.close.afterFlag": "sc",
}

func (x *rrExec) hook(name string, args ...string) {
	if x.abandoned.Load() || len(args) == 0 || args[0] != rrTarget {
		return
	}
	tok := rrTokens[name]
	if tok != "" {
		x.logf(tok)
	}
	key := name
	if name == "aggregate.update.member" && len(args) > 1 {
		key += "#" + args[1]
	}
	if h := x.holdAt.Load(); h != nil && *h == key {
		x.holdAt.Store(nil)
		select {
		case x.held <- struct{}{}:
		default:
		}
		select {
		case <-x.release:
		case <-time.After(limits().line):
		}
	}
	switch tok {
	case "s":
		select {
		case x.pollEnds <- struct{}{}:
		default:
		}
	case "sc":
		select {
		case x.closedSc <- struct{}{}:
		default:
		}
	}
}

func rrWait(ch chan struct{}, d time.Duration) bool {
	select {
	case <-ch:
		return true
	case <-time.After(d):
		noteHang()
		return false
	}
}

type rrStream struct{ method string }

func (s rrStream) Method() string                { return s.method }
func (rrStream) SetHeader(metadata.MD) error     { return nil }
func (rrStream) SendHeader(metadata.MD) error    { return nil }
func (rrStream) SetTrailer(md metadata.MD) error { return nil }

// probe asks both routers which of the three services they route.
func (x *rrExec) probe(rr *grpcbridge.ReflectionRouter) {
	p, s := 0, 0
	for i, svc := range rrServices {
		path := "/rr." + svc + "/M"
		req, _ := http.NewRequest(http.MethodPost, "http://bridge"+path, nil)
		if _, _, err := rr.RouteHTTP(req); err == nil {
			p |= 1 << i
		}
		ctx := grpc.NewContextWithServerTransportStream(context.Background(), rrStream{method: path})
		if _, _, err := rr.RouteGRPC(ctx); err == nil {
			s |= 1 << i
		}
	}
	x.logf(fmt.Sprintf("q%d.%d", p, s))
}

func (x *rrExec) run(f []string) string {
	if len(f) != 4 {
		return "BADLINE"
	}
	var masks []int
	for _, t := range strings.Split(f[2], ",") {
		m, err := strconv.Atoi(t)
		if err != nil || m < 0 || m > 7 {
			return "BADLINE"
		}
		masks = append(masks, m)
	}
	timer := f[1] == "t"
	closeAt := f[3]
	srv, err := newRRServer()
	if err != nil {
		return "BADLINE server " + err.Error()
	}
	defer srv.srv.Stop()
	opts := []grpcbridge.RouterOption{grpcbridge.WithConnFunc(srv.dial)}
	if timer {
		opts = append(opts, grpcbridge.WithReflectionPollInterval(time.Second))
	} else {
		opts = append(opts, grpcbridge.WithDisabledReflectionPolling())
	}
	rr := grpcbridge.NewReflectionRouter(opts...)
	bound := limits().drive
	if timer {
		bound += time.Second
	}
	removed := make(chan struct{})
	doRemove := func() {
		x.logf("rc")
		rr.Remove(rrTarget)
		x.logf("rr")
		close(removed)
	}
	holdNames := map[string]string{"P": "resolver.beforeResolve", "U": "pattern.update.afterCheck", "S": "service.update.afterCheck",
		"M": "aggregate.update.member#1"}
	for k, m := range masks {
		last := k == len(masks)-1
		srv.mask.Store(int32(m))
		parked := false
		if last && closeAt != "N" {
			h := holdNames[closeAt]
			x.holdAt.Store(&h)
		}
		if k == 0 {
			if ok, err := rr.Add(rrTarget, "rr-target"); !ok || err != nil {
				return x.snapshot() + " !add-failed"
			}
		} else if !timer {
			rr.VerifResolveNow(rrTarget)
		}
		if last && closeAt != "N" {
			// the poller parks at the chosen point - or never reaches it (no update owed): then the poll just ends
			select {
			case <-x.held:
				parked = true
			case <-x.pollEnds:
				x.holdAt.Store(nil)
			case <-time.After(bound):
				noteHang()
				return x.snapshot() + " !stuck"
			}
			if parked {
				go doRemove()
				if closeAt == "P" || closeAt == "M" {
					rrWait(x.closedSc, bound) // both watchers closed; Remove now waits in resolver.Close
				}
				time.Sleep(3 * time.Millisecond) // let Remove run into the mutex / the done channel (any outcome is a legal interleaving)
				close(x.release)
				if !rrWait(removed, bound) {
					return x.snapshot() + " !stuck-in-Remove"
				}
				x.probe(rr)
				return x.snapshot()
			}
		} else if !rrWait(x.pollEnds, bound) {
			return x.snapshot() + " !stuck"
		}
		x.probe(rr)
	}
	go doRemove()
	if !rrWait(removed, bound) {
		return x.snapshot() + " !stuck-in-Remove"
	}
	x.probe(rr)
	return x.snapshot()
}

func newRRExec() *rrExec {
	return &rrExec{held: make(chan struct{}, 1), release: make(chan struct{}), pollEnds: make(chan struct{}, 1), closedSc: make(chan struct{}, 1)}
}

// genRR: built-in lines first (every close point over a last poll that does / does not owe an update), then random ones.
func genRR(rnd interface{ Intn(int) int }, tier string, emit func(string)) {
	for _, c := range []string{"N", "P", "U", "S", "M"} {
		emit("rr m 1,3 " + c)     // last poll owes an update
		emit("rr m 3,3 " + c)     // last poll is silent
		emit("rr m 5 " + c)       // Remove meets the very first poll
		emit("rr m 0,6,6,1 " + c) // empty first contract, change, no change, change
	}
	emit("rr t 1,2 N")
	n := 12
	if tier == "thorough" {
		n = 300
		emit("rr t 3,3,4 U")
		emit("rr t 7,1 P")
	}
	for i := 0; i < n; i++ {
		k := 1 + rnd.Intn(5)
		ms := make([]string, k)
		prev := rnd.Intn(8)
		for j := range ms {
			if rnd.Intn(3) != 0 {
				prev = rnd.Intn(8)
			}
			ms[j] = strconv.Itoa(prev)
		}
		emit("rr m " + strings.Join(ms, ",") + " " + []string{"N", "P", "U", "S", "M"}[rnd.Intn(5)])
	}
}
