package c15

import (
	"context"
	"errors"
	"fmt"
	"sort"
	"strconv"
	"strings"
	"sync"
	"time"

	grpcbridge "github.com/renbou/grpcbridge"
	"github.com/renbou/grpcbridge/bridgedesc"
	"github.com/renbou/grpcbridge/grpcadapter"
	"github.com/renbou/grpcbridge/reflection"
	"google.golang.org/grpc/codes"
	"google.golang.org/grpc/status"
)

// ---------------------------------------------------------------------------------------------
// opts: ResolverOpts.withDefaults + NewResolverBuilder + Build, observed through the export shims

type noPool struct{}

func (noPool) Get(string) (grpcadapter.ClientConn, bool) { return nil, false }

type chanWatcher struct{ ch chan string }

func (w chanWatcher) UpdateDesc(*bridgedesc.Target) { w.ch <- "u" }
func (w chanWatcher) ReportError(error)             { w.ch <- "e" }

// awaitCb waits for the next watcher callback; "-" if none arrives within the bound.
func awaitCb(ch chan string) string {
	select {
	case s := <-ch:
		return s
	case <-time.After(limits().cb):
		noteHang()
		return "-"
	}
}

func renderOpts(o reflection.ResolverOpts) string {
	b2i := func(b bool) int {
		if b {
			return 1
		}
		return 0
	}
	return fmt.Sprintf("%d %d %d %s %d %d", int64(o.PollInterval), int64(o.ReqTimeout), o.RecursionLimit,
		hexList(o.IgnorePrefixes), b2i(o.PollManually), b2i(o.OnlyServices))
}

func execOpts(f []string) string {
	if len(f) != 7 {
		return "BADLINE"
	}
	pi, _ := strconv.ParseInt(f[1], 10, 64)
	rt, _ := strconv.ParseInt(f[2], 10, 64)
	rl, _ := strconv.ParseInt(f[3], 10, 64)
	prefixes := parseNameList(f[4])
	// hand the prefixes over in a slice with spare capacity: appending "grpc." must not disturb the caller's view
	given := make([]string, len(prefixes), len(prefixes)+4)
	copy(given, prefixes)
	opts := reflection.ResolverOpts{
		PollInterval: time.Duration(pi), ReqTimeout: time.Duration(rt), RecursionLimit: int(rl),
		IgnorePrefixes: given, PollManually: f[5] == "1", OnlyServices: f[6] == "1",
	}
	rb := reflection.NewResolverBuilder(noPool{}, opts)
	w := chanWatcher{ch: make(chan string, 16)}
	r1 := rb.Build("opts-1", w)
	r2 := rb.Build("opts-2", w)
	// first poll of each (no connection: an error report)
	c1, c2 := awaitCb(w.ch), awaitCb(w.ch)
	await(closeOutcome(r1))
	await(closeOutcome(r2))
	out := renderOpts(reflection.VerifBuilderOpts(rb))
	if c1 != "e" || c2 != "e" {
		out += " !first-poll-callbacks=" + c1 + c2
	}
	if renderOpts(reflection.VerifResolverOpts(r1)) != out || renderOpts(reflection.VerifResolverOpts(r2)) != out {
		out += " !resolver-differs-from-builder"
	}
	if len(given) != len(prefixes) || strings.Join(given, "\x00") != strings.Join(prefixes, "\x00") {
		out += " !caller-slice-changed"
	}
	return out
}

// ---------------------------------------------------------------------------------------------
// agg: the real aggregateWatcher over n recording watchers

type recWatcher struct {
	i   int
	mu  *sync.Mutex
	log *[]string
}

func (w recWatcher) rec(s string) {
	w.mu.Lock()
	*w.log = append(*w.log, strconv.Itoa(w.i)+s)
	w.mu.Unlock()
}
func (w recWatcher) UpdateDesc(t *bridgedesc.Target) { w.rec("u" + t.Name) }
func (w recWatcher) ReportError(err error)           { w.rec("e" + err.Error()) }
func (w recWatcher) Close()                          { w.rec("c") }

func execAgg(f []string) string {
	if len(f) != 3 {
		return "BADLINE"
	}
	n, _ := strconv.Atoi(f[1])
	var mu sync.Mutex
	var log []string
	ws := make([]grpcbridge.VerifClosableWatcher, n)
	for i := range ws {
		ws[i] = recWatcher{i: i, mu: &mu, log: &log}
	}
	agg := grpcbridge.VerifNewAggregateWatcher(ws...)
	if f[2] != "-" {
		for _, ev := range strings.Split(f[2], ",") {
			switch ev[0] {
			case 'u':
				agg.UpdateDesc(&bridgedesc.Target{Name: ev[1:]})
			case 'e':
				agg.ReportError(errors.New(ev[1:]))
			case 'c':
				agg.Close()
			}
		}
	}
	if len(log) == 0 {
		return "-"
	}
	return strings.Join(log, ",")
}

// ---------------------------------------------------------------------------------------------
// close2: a second Close()

func closeOutcome(r *reflection.Resolver) chan string {
	ch := make(chan string, 1)
	go func() {
		defer func() {
			if rec := recover(); rec != nil {
				ch <- "panic"
			}
		}()
		r.Close()
		ch <- "returned"
	}()
	return ch
}

func await(ch chan string) string {
	select {
	case s := <-ch:
		return s
	case <-time.After(limits().cb):
		noteHang()
		return "blocked"
	}
}

func execClose2(f []string) string {
	if len(f) != 2 {
		return "BADLINE"
	}
	rb := reflection.NewResolverBuilder(noPool{}, reflection.ResolverOpts{PollManually: true})
	w := chanWatcher{ch: make(chan string, 16)}
	r := rb.Build("close2", w)
	awaitCb(w.ch)
	switch f[1] {
	case "seq":
		first := await(closeOutcome(r))
		second := await(closeOutcome(r))
		return "first=" + first + " second=" + second
	case "conc":
		a, b := closeOutcome(r), closeOutcome(r)
		outs := []string{await(a), await(b)}
		sort.Strings(outs)
		return strings.Join(outs, ",")
	}
	return "BADLINE"
}

// ---------------------------------------------------------------------------------------------
// indep: the priority one resolver has learnt must not leak into another resolver of the same builder

type indepPool struct {
	mu  sync.Mutex
	log map[string][]string
	// target X is held inside its v1 attempt until releaseX is closed
	xInV1    chan struct{}
	releaseX chan struct{}
}

func (p *indepPool) Get(target string) (grpcadapter.ClientConn, bool) {
	return indepConn{p: p, target: target}, true
}

type indepConn struct {
	p      *indepPool
	target string
}

func (c indepConn) Close() {}

func (c indepConn) Stream(ctx context.Context, method string) (grpcadapter.ClientStream, error) {
	v := 0
	if method == methodNames[1] {
		v = 1
	}
	c.p.mu.Lock()
	c.p.log[c.target] = append(c.p.log[c.target], fmt.Sprintf("a%d", v))
	c.p.mu.Unlock()
	if c.target == "X" && v == 0 {
		select {
		case c.p.xInV1 <- struct{}{}:
		default:
		}
		<-c.p.releaseX
	}
	if c.target != "B" && v == 0 {
		return nil, status.Error(codes.Unimplemented, c.target+" only speaks v1alpha")
	}
	// an empty but valid contract: no services, no files
	return &fakeStream{att: attempt{mode: 'S'}, c: &contract{valid: true}, notify: make(chan struct{}, 1)}, nil
}

func execIndep() string {
	pool := &indepPool{log: map[string][]string{}, xInV1: make(chan struct{}, 1), releaseX: make(chan struct{})}
	rb := reflection.NewResolverBuilder(pool, reflection.ResolverOpts{PollManually: true})
	w := chanWatcher{ch: make(chan string, 16)}
	a := rb.Build("A", w)
	ra := awaitCb(w.ch)
	a.ResolveNow() // second poll of A: shows what A remembers
	b := rb.Build("B", w)
	rb1 := awaitCb(w.ch)
	await(closeOutcome(a))
	await(closeOutcome(b))

	// overlapping polls of two v1alpha-only targets of ONE builder: X is held inside its v1 attempt while Y
	// completes its fallback (and remembers v1alpha); X must then go on with v1alpha and deliver
	rb2 := reflection.NewResolverBuilder(pool, reflection.ResolverOpts{PollManually: true})
	wx, wy := chanWatcher{ch: make(chan string, 16)}, chanWatcher{ch: make(chan string, 16)}
	x := rb2.Build("X", wx)
	select {
	case <-pool.xInV1:
	case <-time.After(limits().cb):
		noteHang()
	}
	y := rb2.Build("Y", wy)
	ry := awaitCb(wy.ch)
	close(pool.releaseX)
	rx := awaitCb(wx.ch)
	await(closeOutcome(x))
	await(closeOutcome(y))
	pool.mu.Lock()
	defer pool.mu.Unlock()
	first := func(l []string, n int) string {
		if len(l) > n {
			l = l[:n]
		}
		if len(l) == 0 {
			return "-"
		}
		return strings.Join(l, ",")
	}
	// the second poll of A may or may not have started before Close: only the first poll's streams count
	return fmt.Sprintf("A:%s:%s B:%s:%s X:%s:%s Y:%s:%s", ra, first(pool.log["A"], 2), rb1, first(pool.log["B"], 1),
		rx, first(pool.log["X"], 2), ry, first(pool.log["Y"], 2))
}

// ---------------------------------------------------------------------------------------------
// once: the REAL sync.OnceFunc under n concurrent callers (what newResolveNow publishes): how often the function
// ran, and how many callers returned BEFORE it had completed. The driver compares with runs of the Once LTS.

func execOnce(f []string) string {
	if len(f) != 2 {
		return "BADLINE"
	}
	n, err := strconv.Atoi(f[1])
	if err != nil || n < 0 || n > 64 {
		return "BADLINE"
	}
	var mu sync.Mutex
	execs, early := 0, 0
	completed := false
	fn := sync.OnceFunc(func() {
		mu.Lock()
		execs++
		mu.Unlock()
		time.Sleep(2 * time.Millisecond) // a slow f: losers get every chance to overtake it
		mu.Lock()
		completed = true
		mu.Unlock()
	})
	start := make(chan struct{})
	var wg sync.WaitGroup
	for i := 0; i < n; i++ {
		wg.Add(1)
		go func() {
			defer wg.Done()
			<-start
			fn()
			mu.Lock()
			if !completed {
				early++
			}
			mu.Unlock()
		}()
	}
	close(start)
	wg.Wait()
	return fmt.Sprintf("execs=%d early=%d", execs, early)
}
