// Package c15 is the correspondence area of property C15: description updates are delivered
// exactly when the target's contract changes (reflection.Resolver).
//
// Ops (first field of an input line):
//
//	hist os<0|1> rt<ms> C=<contract>;<contract>… <plan> <plan> …
//	    runs the REAL reflection.Resolver (ResolverBuilder.Build, PollManually) against a scripted
//	    fake grpcadapter.ClientPool/ClientConn/ClientStream speaking the reflection protocol and
//	    logs, in one total order, hook arrivals, streams opened, watcher callbacks and Close.
//	    contract = <valid>/<sig>/<svc>,<svc>…/<file>:<bytes>,…            (hex without the x prefix)
//	    plan     = <attempt v1>/<attempt v1alpha>/<nA>.<nB>.<nC>.<nD>.<nE>/<close point or ->[/<split>,<split>…]
//	    split    = h<point>: a ResolveNow call is started on its own goroutine and held at the hook
//	               resolver.resolveNow.loaded (pointer loaded, once-func not yet called);
//	               r<point>: every held call is released and runs to completion
//	    attempt  = <mode><contract id>[@<pos>]   mode S|U|A|I|T|E|O|G, pos o|ls|lr|le|lw|ss<k>|sr<k>|se<k>|fs<k>|fr<k>|fe<k>|fm<k>
//	    nA..nE   = number of ResolveNow calls made at: A the beforeResolve hook, B inside the poll
//	               (first pool.Get), C the beforeSelect hook, D once the poller is parked in the
//	               select, E the woken hook (between wake-up and re-arm). Close is issued (from its
//	               own goroutine) at the named point after the ResolveNow calls of that point.
//	    log tokens: R (beforeResolve) a0/a1 (stream opened with v1/v1alpha) g (pool.Get=false)
//	               u<sig> (UpdateDesc) e<class> (ReportError) S (beforeSelect) K (poller parked in
//	               select) W (woken) Z (final Close issued by the harness) c (Close returned)
//	               X (poller goroutine gone) L (still alive) !<why> (harness watchdog).
//	    rt<ms>,pi<ms> instead of rt<ms>: interval polling (PollManually=false, PollInterval=<ms>, clamped by
//	    withDefaults to at least 1 s); a poll started by the timer is logged as "t R …" (t only if the gap
//	    since the select was entered is at least the clamped interval, otherwise !early-timer).
//	opts <pi ns> <rt ns> <recursion> <prefixes|-> <manual 0|1> <onlyservices 0|1>
//	    => the options NewResolverBuilder/Build really hand to a resolver
//	agg <n> <u<id>|e<id>|c>,…    calls on the real aggregateWatcher over n recording watchers => <i><call>,…
//	close2 seq|conc             a second Close() (after / concurrently with the first), with recover()
//	indep                       two resolvers of one builder: the remembered priority of one must not leak
//	hsvc <names> <names>     are the real hashServiceNames of the two lists equal?   => eq|ne
//	hfile <files> <files>    same for hashNamedProtoBundles                          => eq|ne
package c15

import (
	"context"
	"crypto/sha256"
	"encoding/hex"
	"errors"
	"fmt"
	"io"
	"math/rand"
	"os"
	"regexp"
	"runtime"
	"sort"
	"strconv"
	"strings"
	"sync"
	"sync/atomic"
	"time"

	"github.com/renbou/grpcbridge/bridgedesc"
	"github.com/renbou/grpcbridge/grpcadapter"
	"github.com/renbou/grpcbridge/reflection"
	"github.com/renbou/grpcbridge/verifx"
	"google.golang.org/grpc/codes"
	"google.golang.org/grpc/metadata"
	reflectionpb "google.golang.org/grpc/reflection/grpc_reflection_v1"
	"google.golang.org/grpc/status"
	"google.golang.org/protobuf/proto"
	"google.golang.org/protobuf/types/descriptorpb"
	"verif/harness/common"
)

type Area struct{}

func (Area) Name() string { return "c15" }

var methodNames = []string{
	"/grpc.reflection.v1.ServerReflection/ServerReflectionInfo",
	"/grpc.reflection.v1alpha.ServerReflection/ServerReflectionInfo",
}

// ---------------------------------------------------------------------------------------------
// line parsing

type file struct {
	name  string
	bytes []byte
	fd    *descriptorpb.FileDescriptorProto // nil if the bytes do not unmarshal
}

type contract struct {
	valid  bool
	sig    string
	listed []string
	files  []file
}

type attempt struct {
	mode byte
	cid  int
	pos  string
	k    int
}

type plan struct {
	att     [2]attempt
	n       [5]int
	closeAt byte   // 'A'..'E' or '-'
	holdAt  []byte // points at which one ResolveNow is started and held after its pointer load
	relAt   []byte // points at which all held calls are released
}

func unhexPlain(s string) []byte {
	b, err := hex.DecodeString(s)
	if err != nil {
		panic("bad hex in line: " + err.Error())
	}
	return b
}

func parseContract(s string) contract {
	p := strings.Split(s, "/")
	if len(p) != 4 {
		panic("contract needs 4 parts: " + s)
	}
	c := contract{valid: p[0] == "1", sig: p[1]}
	if p[2] != "" {
		for _, h := range strings.Split(p[2], ",") {
			c.listed = append(c.listed, string(unhexPlain(h)))
		}
	}
	if p[3] != "" {
		for _, f := range strings.Split(p[3], ",") {
			nb := strings.SplitN(f, ":", 2)
			if len(nb) != 2 {
				panic("file needs name:bytes")
			}
			fl := file{name: string(unhexPlain(nb[0])), bytes: unhexPlain(nb[1])}
			fd := new(descriptorpb.FileDescriptorProto)
			if err := proto.Unmarshal(fl.bytes, fd); err == nil {
				fl.fd = fd
			}
			c.files = append(c.files, fl)
		}
	}
	return c
}

var attRe = regexp.MustCompile(`^([SUAITEOG])(\d+)(?:@([a-z]+)(\d*))?$`)

func parseAttempt(s string) attempt {
	m := attRe.FindStringSubmatch(s)
	if m == nil {
		panic("bad attempt " + s)
	}
	a := attempt{mode: m[1][0], pos: m[3]}
	a.cid, _ = strconv.Atoi(m[2])
	if m[4] != "" {
		a.k, _ = strconv.Atoi(m[4])
	}
	return a
}

func parsePlan(s string) plan {
	p := strings.Split(s, "/")
	if len(p) != 4 && len(p) != 5 {
		panic("plan needs 4 or 5 parts: " + s)
	}
	pl := plan{closeAt: p[3][0]}
	if len(p) == 5 {
		for _, h := range strings.Split(p[4], ",") {
			if len(h) != 2 {
				panic("bad split action " + h)
			}
			if h[0] == 'h' {
				pl.holdAt = append(pl.holdAt, h[1])
			} else {
				pl.relAt = append(pl.relAt, h[1])
			}
		}
	}
	pl.att[0] = parseAttempt(p[0])
	pl.att[1] = parseAttempt(p[1])
	ns := strings.Split(p[2], ".")
	if len(ns) != 5 {
		panic("plan needs 5 counts")
	}
	for i := range ns {
		pl.n[i], _ = strconv.Atoi(ns[i])
	}
	return pl
}

// ---------------------------------------------------------------------------------------------
// Exec

// ---------------------------------------------------------------------------------------------
// per-line watchdog: no line may hang the run

// limits are the waiting bounds of the harness. The controlled schedule knows how long anything may
// take (callbacks arrive within microseconds of the hooks, a request timeout is 2 ms or never reached,
// a timer poll takes the clamped interval), so the bounds are generous multiples of that. After
// hangLimit lines have hit a bound the tree is evidently broken in a way that makes waiting pointless:
// the bounds shrink so that the whole run still ends in a minute or two.
type limitSet struct {
	line   time.Duration // one whole line (plus the timer polls of an interval-polling line)
	drive  time.Duration // no progress of the poller around its select
	nowake time.Duration // a wake-up that the D actions should have caused
	cb     time.Duration // a callback after a poll was triggered (ops without hooks)
	gone   time.Duration // the poller goroutine to disappear after Close returned
}

var (
	limitsMu  sync.Mutex
	limitsNow = limitSet{line: 6 * time.Second, drive: 4 * time.Second, nowake: 2 * time.Second, cb: 1500 * time.Millisecond, gone: 2 * time.Second}
	hangs     int
)

const hangLimit = 3

// After giveUpAfter bounded waits the tree hangs systematically: the remaining lines that involve waiting
// (histories, close2, indep, opts) are not executed any more and say so; the pure lines still run.
const giveUpAfter = 20

var gaveUp bool

func givenUp() bool {
	limitsMu.Lock()
	defer limitsMu.Unlock()
	return gaveUp
}

func limits() limitSet {
	limitsMu.Lock()
	defer limitsMu.Unlock()
	return limitsNow
}

// noteHang records that a bound was hit.
func noteHang() {
	limitsMu.Lock()
	hangs++
	switch hangs {
	case hangLimit:
		limitsNow = limitSet{line: 2000 * time.Millisecond, drive: 1000 * time.Millisecond, nowake: 400 * time.Millisecond, cb: 400 * time.Millisecond, gone: 400 * time.Millisecond}
	case 8:
		limitsNow = limitSet{line: 1000 * time.Millisecond, drive: 300 * time.Millisecond, nowake: 150 * time.Millisecond, cb: 150 * time.Millisecond, gone: 150 * time.Millisecond}
	}
	if hangs >= giveUpAfter {
		gaveUp = true
	}
	limitsMu.Unlock()
}

func (Area) Exec(input string) string {
	f := strings.Fields(input)
	switch f[0] {
	case "hist", "close2", "indep", "opts", "rr":
		if givenUp() {
			return "!not-run-tree-hangs"
		}
	}
	limit := limits().line
	if f[0] == "indep" || f[0] == "opts" || f[0] == "close2" {
		limit += 6 * limits().cb // these ops wait for up to six callbacks / Close outcomes in sequence
	}
	var x *exec
	if f[0] == "hist" {
		var bad string
		if x, bad = newHistExec(f); bad != "" {
			return bad
		}
		if x.interval > 0 {
			limit += time.Duration(len(x.plans)) * (x.interval + 500*time.Millisecond)
		}
		verifx.SetHook(x.hook)
		defer verifx.SetHook(nil)
	}
	var rx *rrExec
	if f[0] == "rr" {
		rx = newRRExec()
		limit += 2 * limits().drive
		if len(f) > 2 && f[1] == "t" {
			limit += time.Duration(len(strings.Split(f[2], ","))) * 1500 * time.Millisecond
		}
		verifx.SetHook(rx.hook)
		defer verifx.SetHook(nil)
	}
	done := make(chan string, 1)
	go func() {
		defer func() {
			if r := recover(); r != nil {
				done <- "PANIC " + common.HexS(fmt.Sprint(r))
			}
		}()
		if rx != nil {
			done <- rx.run(f)
		} else if x != nil {
			done <- x.run()
		} else {
			done <- execOp(f)
		}
	}()
	t := time.NewTimer(limit)
	defer t.Stop()
	select {
	case out := <-done:
		return out
	case <-t.C:
		// the line is abandoned; what WAS observed is reported so that the driver can judge it
		noteHang()
		if x != nil {
			x.abandoned.Store(true)
			if x.inResolveNow.Load() > 0 {
				return strings.TrimSpace(x.snapshot() + " !stuck-in-ResolveNow")
			}
			return strings.TrimSpace(x.snapshot() + " !watchdog")
		}
		if rx != nil {
			rx.abandoned.Store(true)
			return strings.TrimSpace(rx.snapshot() + " !watchdog")
		}
		return "!watchdog"
	}
}

func execOp(f []string) string {
	switch f[0] {
	case "hsvc":
		a, b := parseNameList(f[1]), parseNameList(f[2])
		if reflection.VerifHashServiceNames(a) == reflection.VerifHashServiceNames(b) {
			return "eq"
		}
		return "ne"
	case "opts":
		return execOpts(f)
	case "agg":
		return execAgg(f)
	case "close2":
		return execClose2(f)
	case "once":
		return execOnce(f)
	case "indep":
		return execIndep()
	case "hfile":
		an, ab := parseFileList(f[1])
		bn, bb := parseFileList(f[2])
		if reflection.VerifHashNamedProtoBundles(an, ab) == reflection.VerifHashNamedProtoBundles(bn, bb) {
			return "eq"
		}
		return "ne"
	}
	return "BADOP"
}

func parseNameList(s string) []string {
	if s == "-" {
		return nil
	}
	var out []string
	for _, h := range strings.Split(s, ",") {
		out = append(out, string(unhexPlain(h)))
	}
	return out
}

func parseFileList(s string) ([]string, [][]byte) {
	if s == "-" {
		return nil, nil
	}
	var names []string
	var bs [][]byte
	for _, f := range strings.Split(s, ",") {
		nb := strings.SplitN(f, ":", 2)
		names = append(names, string(unhexPlain(nb[0])))
		bs = append(bs, unhexPlain(nb[1]))
	}
	return names, bs
}

type exec struct {
	target    string
	os        bool
	contracts []contract
	plans     []plan

	mu  sync.Mutex
	log []string

	res   *reflection.Resolver
	built chan struct{}

	kick chan struct{} // wakes the main goroutine (buffered, non-blocking sends)

	selectSeq atomic.Int64 // number of beforeSelect hooks released
	wokenSeq  atomic.Int64 // number of times the poller has left a select (woken hook, or timer seen at the next beforeResolve)

	abandoned    atomic.Bool  // the per-line watchdog has given this line up: hooks and fakes stop acting
	inResolveNow atomic.Int32 // number of scripted whole ResolveNow calls that have not returned yet

	tick             bool          // interval polling line
	pollInterval     time.Duration // PollInterval as handed to the builder
	interval         time.Duration // 0: PollManually; otherwise the (clamped) PollInterval
	rtDur            time.Duration // ReqTimeout of this run
	selectReleasedAt time.Time     // poller-owned: when the beforeSelect hook returned

	// poller-goroutine-owned (hooks and fakes run on it); read by main only while the poller is parked
	pollIdx       int // index of the current poll (-1 before the first)
	attemptInPoll int
	pollerGID     atomic.Int64

	closeSpawned atomic.Bool
	closed       atomic.Bool // Close has returned

	// dGate is held by the main goroutine while it performs the D actions (poller parked in the select).
	// The first ResolveNow of them wakes the poller, which from then on runs concurrently: without the
	// gate it could re-arm (newResolveNow) before the remaining D calls load the pointer, and those
	// calls would land on the NEXT generation - a legitimate behaviour, but not the schedule the log
	// claims (all D actions between K and W). The woken hook waits for the gate, so every D action
	// returns before the poller re-arms and the log is a faithful linearisation.
	dGate sync.Mutex

	holdNext atomic.Bool     // the next arrival at resolver.resolveNow.loaded is to be held
	loaded   chan struct{}   // the held call has loaded the pointer
	release  []chan struct{} // one per held call
	finished []chan struct{} // closed when the held call has returned
}

var targetCounter atomic.Int64

func (x *exec) logf(format string, args ...any) {
	x.mu.Lock()
	x.log = append(x.log, fmt.Sprintf(format, args...))
	x.mu.Unlock()
}

func (x *exec) curPlan() plan {
	if x.pollIdx >= 0 && x.pollIdx < len(x.plans) {
		return x.plans[x.pollIdx]
	}
	// past the script: serve the last contract successfully, no actions (a poll here is unexpected)
	last := x.plans[len(x.plans)-1]
	cid := last.att[0].cid
	return plan{att: [2]attempt{{mode: 'S', cid: cid}, {mode: 'S', cid: cid}}, closeAt: '-'}
}

// doActions performs the scripted actions of one point, in this order: held calls are started (pointer
// load only), whole ResolveNow calls are made, held calls are released, Close is issued.
func (x *exec) doActions(point byte) {
	if x.closed.Load() || x.abandoned.Load() {
		return
	}
	pl := x.curPlan()
	for _, h := range pl.holdAt {
		if h != point {
			continue
		}
		rel, fin := make(chan struct{}), make(chan struct{})
		x.release = append(x.release, rel)
		x.finished = append(x.finished, fin)
		x.holdNext.Store(true)
		go func() {
			defer close(fin)
			defer x.recoverTo("resolveNow")
			x.res.ResolveNow() // blocks in the hook until released
		}()
		select {
		case <-x.loaded:
		case <-time.After(limits().cb):
			// the call never reached the yield point between pointer load and once-call
			x.holdNext.Store(false)
			x.logf("!held-call-not-at-hook")
			noteHang()
		}
	}
	for i := 0; i < pl.n[point-'A']; i++ {
		x.safeResolveNow()
	}
	for _, h := range pl.relAt {
		if h != point {
			continue
		}
		x.releaseHeld()
	}
	if pl.closeAt == point {
		x.spawnClose()
		if (point == 'A' || point == 'B') && x.rtDur <= 50*time.Millisecond {
			// keep the poll (about to start / in flight) going for several request timeouts after Close was
			// issued: Close has to wait for the poller however long the poll takes, not for one ReqTimeout
			time.Sleep(5 * x.rtDur)
		}
	}
}

func (x *exec) spawnClose() {
	if !x.closeSpawned.CompareAndSwap(false, true) {
		return
	}
	go func() {
		defer x.recoverTo("close")
		x.res.Close()
		x.mu.Lock()
		x.closed.Store(true)
		x.log = append(x.log, "c")
		x.mu.Unlock()
		x.poke()
	}()
}

// recoverTo turns a panic of a helper goroutine (the code under test panicking inside ResolveNow/Close)
// into a log token instead of killing the harness process.
func (x *exec) recoverTo(what string) {
	if r := recover(); r != nil {
		x.logf("!panic-in-%s", what)
		x.poke()
	}
}

func (x *exec) safeResolveNow() {
	defer x.recoverTo("resolveNow")
	x.inResolveNow.Add(1)
	x.res.ResolveNow()
	x.inResolveNow.Add(-1)
}

func (x *exec) poke() {
	select {
	case x.kick <- struct{}{}:
	default:
	}
}

func curGID() int64 {
	var buf [64]byte
	n := runtime.Stack(buf[:], false)
	// "goroutine 123 [running]:"
	s := strings.TrimPrefix(string(buf[:n]), "goroutine ")
	if i := strings.IndexByte(s, ' '); i > 0 {
		id, _ := strconv.ParseInt(s[:i], 10, 64)
		return id
	}
	return -1
}

// pollerStatus inspects the goroutine dump: "gone", "parked" (blocked in the select of watch) or "busy".
func (x *exec) pollerStatus() string {
	gid := x.pollerGID.Load()
	buf := make([]byte, 1<<16)
	for {
		n := runtime.Stack(buf, true)
		if n < len(buf) {
			buf = buf[:n]
			break
		}
		buf = make([]byte, 2*len(buf))
	}
	hdr := fmt.Sprintf("goroutine %d [", gid)
	for _, blk := range strings.Split(string(buf), "\n\n") {
		if !strings.HasPrefix(blk, hdr) {
			continue
		}
		lines := strings.Split(blk, "\n")
		state := strings.TrimPrefix(lines[0], hdr)
		if strings.HasPrefix(state, "select") && len(lines) > 1 && strings.Contains(lines[1], "reflection.(*Resolver).watch") {
			return "parked"
		}
		return "busy"
	}
	return "gone"
}

func (x *exec) hook(name string, args ...string) {
	if len(args) == 0 || args[0] != x.target || x.abandoned.Load() {
		return
	}
	if name == "resolver.resolveNow.loaded" {
		if x.holdNext.CompareAndSwap(true, false) {
			rel := x.release[len(x.release)-1]
			x.loaded <- struct{}{}
			<-rel
		}
		return
	}
	<-x.built
	switch name {
	case "resolver.beforeResolve":
		x.pollerGID.CompareAndSwap(0, curGID())
		if x.selectSeq.Load() > x.wokenSeq.Load() {
			// the poller left its select without passing the woken hook: the timer case
			gap := time.Since(x.selectReleasedAt)
			x.dGate.Lock() // as for a wake-up: the D actions in progress (if any) come first
			x.dGate.Unlock()
			if x.interval > 0 && gap >= x.interval {
				x.logf("t")
			} else {
				x.logf("!early-timer")
			}
			x.wokenSeq.Add(1)
		}
		x.pollIdx++
		x.attemptInPoll = 0
		x.logf("R")
		x.doActions('A')
	case "resolver.beforeSelect":
		x.logf("S")
		x.doActions('C')
		x.selectReleasedAt = time.Now()
		x.selectSeq.Add(1)
		x.poke()
	case "resolver.woken":
		x.dGate.Lock() // wait until the D actions in progress (if any) have all returned
		x.dGate.Unlock()
		x.logf("W")
		x.doActions('E')
		x.wokenSeq.Add(1)
		x.poke()
	}
}

type watcher struct{ x *exec }

func (w watcher) UpdateDesc(t *bridgedesc.Target) { w.x.logf("u%s", targetSig(t)) }
func (w watcher) ReportError(err error)           { w.x.logf("e%s", classify(err)) }

func classify(err error) string {
	switch {
	case status.Code(err) == codes.Unimplemented:
		return "U"
	case errors.Is(err, context.DeadlineExceeded):
		return "T"
	case errors.Is(err, io.EOF):
		return "E"
	case status.Code(err) == codes.Unavailable:
		return "A"
	case status.Code(err) == codes.Internal:
		return "I"
	}
	if os.Getenv("C15_DEBUG") != "" {
		fmt.Fprintln(os.Stderr, "C15_DEBUG other error:", err)
	}
	return "O"
}

func newHistExec(f []string) (*exec, string) {
	if len(f) < 5 || !strings.HasPrefix(f[3], "C=") {
		return nil, "BADLINE"
	}
	x := &exec{
		target:  fmt.Sprintf("c15-%d", targetCounter.Add(1)),
		os:      f[1] == "os1",
		built:   make(chan struct{}),
		kick:    make(chan struct{}, 1),
		loaded:  make(chan struct{}),
		pollIdx: -1,
	}
	rtTok, piTok, tick := strings.Cut(f[2], ",pi")
	rt, _ := strconv.Atoi(strings.TrimPrefix(rtTok, "rt"))
	x.rtDur = time.Duration(rt) * time.Millisecond
	x.tick = tick
	if tick {
		pi, _ := strconv.Atoi(piTok)
		x.pollInterval = time.Duration(pi) * time.Millisecond
		x.interval = max(x.pollInterval, time.Second) // what withDefaults must make of it (pi > 0)
	}
	for _, cs := range strings.Split(strings.TrimPrefix(f[3], "C="), ";") {
		x.contracts = append(x.contracts, parseContract(cs))
	}
	for _, ps := range f[4:] {
		x.plans = append(x.plans, parsePlan(ps))
	}
	for _, pl := range x.plans {
		for _, a := range pl.att {
			if a.cid >= len(x.contracts) {
				return nil, "BADLINE"
			}
		}
	}
	return x, ""
}

// run executes the history (the hook is installed by Exec) and returns the event log.
func (x *exec) run() string {
	builder := reflection.NewResolverBuilder(fakePool{x}, reflection.ResolverOpts{
		PollManually: !x.tick,
		PollInterval: x.pollInterval,
		ReqTimeout:   x.rtDur,
		OnlyServices: x.os,
	})
	x.res = builder.Build(x.target, watcher{x})
	close(x.built)

	x.drive()
	x.releaseHeld()
	return x.snapshot()
}

func (x *exec) snapshot() string {
	x.mu.Lock()
	defer x.mu.Unlock()
	return strings.Join(x.log, " ")
}

// releaseHeld lets every ResolveNow call that is still held at its hook run to completion (bounded wait).
func (x *exec) releaseHeld() {
	for i := range x.release {
		close(x.release[i])
		select {
		case <-x.finished[i]:
		case <-time.After(limits().gone):
			x.logf("!held-call-stuck")
			noteHang()
		}
	}
	x.release, x.finished = nil, nil
}

// drive is the main-goroutine side of the schedule: it watches the poller around its select,
// performs the D actions once the poller is parked and ends the run when nothing can wake it.
func (x *exec) drive() {
	finish := func() {
		deadline := time.Now().Add(limits().gone)
		for {
			if x.pollerStatus() == "gone" {
				x.logf("X")
				return
			}
			if time.Now().After(deadline) {
				x.logf("L")
				return
			}
			time.Sleep(50 * time.Microsecond)
		}
	}
	wait := func(d time.Duration) {
		t := time.NewTimer(d)
		select {
		case <-x.kick:
		case <-t.C:
		}
		t.Stop()
	}
	var handledPark, lastS, lastW int64
	var nowakeAt time.Time
	lastProgress := time.Now()
	for {
		if x.closed.Load() {
			finish()
			return
		}
		s, w := x.selectSeq.Load(), x.wokenSeq.Load()
		if s != lastS || w != lastW {
			lastS, lastW, lastProgress = s, w, time.Now()
		}
		bound := limits().drive
		if x.interval > 0 {
			bound = max(bound, x.interval+time.Second)
		}
		if time.Since(lastProgress) > bound {
			if x.inResolveNow.Load() > 0 {
				x.logf("!stuck-in-ResolveNow") // a ResolveNow call of the schedule has not returned
			} else {
				x.logf("!stuck")
			}
			noteHang()
			return
		}
		if x.abandoned.Load() {
			return
		}
		if s == w { // the poller is not at a select
			wait(time.Millisecond)
			continue
		}
		if s == handledPark { // K handled for this select: a wake-up or the Close must arrive
			if !nowakeAt.IsZero() && time.Now().After(nowakeAt) {
				nowakeAt = time.Time{}
				x.logf("!nowake")
				noteHang()
				if !x.closeSpawned.Load() {
					x.logf("Z")
					x.spawnClose()
				}
			}
			wait(200 * time.Microsecond)
			continue
		}
		// the gate is taken BEFORE the poller is inspected: if it is parked now, whatever makes it leave the
		// select later (a D action, the timer) is held at the woken / beforeResolve hook until K is logged
		// and all D actions have returned
		x.dGate.Lock()
		x.mu.Lock()
		st := x.pollerStatus()
		s2, w2 := x.selectSeq.Load(), x.wokenSeq.Load()
		isK := st == "parked" && s2 > w2 && s2 > handledPark && !x.closed.Load()
		if isK {
			x.log = append(x.log, "K")
		}
		x.mu.Unlock()
		lastPlan := true
		if isK {
			lastPlan = x.pollIdx >= len(x.plans)-1 // the poller is parked: pollIdx is stable
			x.doActions('D')
		}
		x.dGate.Unlock()
		switch {
		case isK:
			handledPark = s2
			lastProgress = time.Now()
			nowakeAt = time.Time{}
			// close() readies a parked receiver synchronously, so a poller that is still parked after
			// the D actions (all of them have returned) will not be woken by them
			if !x.closeSpawned.Load() && x.pollerStatus() == "parked" && x.wokenSeq.Load() == w2 {
				if x.interval > 0 && !lastPlan {
					// interval polling: the timer will start the next scripted poll
					nowakeAt = time.Now().Add(x.interval + 2*time.Second)
				} else {
					// quiescent: nothing (scripted) will wake the poller; end of the run
					x.logf("Z")
					x.spawnClose()
				}
			} else if !x.closeSpawned.Load() {
				nowakeAt = time.Now().Add(limits().nowake)
			}
		case st == "gone" && !x.closeSpawned.Load():
			x.logf("!poller-gone")
			return
		default:
			runtime.Gosched()
		}
	}
}

// ---------------------------------------------------------------------------------------------
// scripted reflection target

type fakePool struct{ x *exec }

func (p fakePool) Get(target string) (grpcadapter.ClientConn, bool) {
	x := p.x
	first := x.attemptInPoll == 0
	x.attemptInPoll++
	if first {
		x.doActions('B')
	}
	pl := x.curPlan()
	if pl.att[0].mode == 'G' || pl.att[1].mode == 'G' {
		x.logf("g")
		return nil, false
	}
	return &fakeConn{x: x, pl: pl}, true
}

type fakeConn struct {
	x  *exec
	pl plan
}

func (c *fakeConn) Close() {}

func (c *fakeConn) Stream(ctx context.Context, method string) (grpcadapter.ClientStream, error) {
	v := -1
	for i, m := range methodNames {
		if m == method {
			v = i
		}
	}
	if v < 0 {
		c.x.logf("!method")
		return nil, status.Error(codes.Unimplemented, "unknown method")
	}
	c.x.logf("a%d", v)
	att := c.pl.att[v]
	if att.mode != 'S' && att.pos == "o" {
		return nil, att.err(ctx)
	}
	return &fakeStream{x: c.x, att: att, c: &c.x.contracts[att.cid], notify: make(chan struct{}, 1)}, nil
}

// err produces the scripted error; timeouts wait for the caller's deadline.
func (a attempt) err(ctx context.Context) error {
	switch a.mode {
	case 'U':
		return status.Error(codes.Unimplemented, "scripted unimplemented")
	case 'A':
		return status.Error(codes.Unavailable, "scripted unavailable")
	case 'I':
		return status.Error(codes.Internal, "scripted internal")
	case 'E':
		return io.EOF
	case 'T':
		<-ctx.Done()
		return ctx.Err()
	}
	return errors.New("scripted failure")
}

func (a attempt) code() int32 {
	switch a.mode {
	case 'U':
		return int32(codes.Unimplemented)
	case 'A':
		return int32(codes.Unavailable)
	case 'I':
		return int32(codes.Internal)
	}
	return int32(codes.Unknown)
}

type item struct {
	msg  *reflectionpb.ServerReflectionResponse
	fail bool
}

type fakeStream struct {
	x   *exec
	att attempt
	c   *contract

	mu         sync.Mutex
	queue      []item
	sendClosed bool
	closed     bool
	notify     chan struct{}
	symSent    int
	fileSent   int
}

func (s *fakeStream) Header() metadata.MD  { return nil }
func (s *fakeStream) Trailer() metadata.MD { return nil }
func (s *fakeStream) CloseSend() {
	s.mu.Lock()
	s.sendClosed = true
	s.mu.Unlock()
	s.wake()
}

func (s *fakeStream) Close() {
	s.mu.Lock()
	s.closed = true
	s.mu.Unlock()
	s.wake()
}

func (s *fakeStream) wake() {
	select {
	case s.notify <- struct{}{}:
	default:
	}
}

func (s *fakeStream) failing(pos string, k int) bool {
	return s.att.mode != 'S' && s.att.pos == pos && s.att.k == k
}

func errorResponse(code int32, msg string) *reflectionpb.ServerReflectionResponse {
	return &reflectionpb.ServerReflectionResponse{MessageResponse: &reflectionpb.ServerReflectionResponse_ErrorResponse{
		ErrorResponse: &reflectionpb.ErrorResponse{ErrorCode: code, ErrorMessage: msg},
	}}
}

func fileResponse(bs ...[]byte) *reflectionpb.ServerReflectionResponse {
	return &reflectionpb.ServerReflectionResponse{MessageResponse: &reflectionpb.ServerReflectionResponse_FileDescriptorResponse{
		FileDescriptorResponse: &reflectionpb.FileDescriptorResponse{FileDescriptorProto: bs},
	}}
}

func (s *fakeStream) Send(ctx context.Context, m proto.Message) error {
	req, ok := m.(*reflectionpb.ServerReflectionRequest)
	if !ok {
		return errors.New("fake stream: unexpected request type")
	}
	s.mu.Lock()
	var it item
	var sendErr bool
	switch r := req.MessageRequest.(type) {
	case *reflectionpb.ServerReflectionRequest_ListServices:
		switch {
		case s.failing("ls", 0):
			sendErr = true
		case s.failing("lr", 0):
			it = item{fail: true}
		case s.failing("le", 0):
			it = item{msg: errorResponse(s.att.code(), "scripted")}
		case s.failing("lw", 0):
			it = item{msg: fileResponse()}
		default:
			resp := &reflectionpb.ListServiceResponse{}
			for _, n := range s.c.listed {
				resp.Service = append(resp.Service, &reflectionpb.ServiceResponse{Name: n})
			}
			it = item{msg: &reflectionpb.ServerReflectionResponse{MessageResponse: &reflectionpb.ServerReflectionResponse_ListServicesResponse{ListServicesResponse: resp}}}
		}
	case *reflectionpb.ServerReflectionRequest_FileContainingSymbol:
		k := s.symSent
		s.symSent++
		switch {
		case s.failing("ss", k):
			sendErr = true
		case s.failing("sr", k):
			it = item{fail: true}
		case s.failing("se", k):
			it = item{msg: errorResponse(s.att.code(), "scripted")}
		default:
			if fl := s.c.fileOfService(r.FileContainingSymbol); fl != nil {
				it = item{msg: fileResponse(fl.bytes)}
			} else {
				it = item{msg: errorResponse(int32(codes.NotFound), "symbol not found")}
			}
		}
	case *reflectionpb.ServerReflectionRequest_FileByFilename:
		k := s.fileSent
		s.fileSent++
		switch {
		case s.failing("fs", k):
			sendErr = true
		case s.failing("fr", k):
			it = item{fail: true}
		case s.failing("fe", k):
			it = item{msg: errorResponse(s.att.code(), "scripted")}
		case s.failing("fm", k):
			it = item{msg: fileResponse()}
		default:
			if fl := s.c.fileByName(r.FileByFilename); fl != nil {
				it = item{msg: fileResponse(fl.bytes)}
			} else {
				it = item{msg: errorResponse(int32(codes.NotFound), "file not found")}
			}
		}
	default:
		it = item{msg: errorResponse(int32(codes.Unimplemented), "fake: unsupported request")}
	}
	if !sendErr {
		s.queue = append(s.queue, it)
	}
	s.mu.Unlock()
	if sendErr {
		return s.att.err(ctx)
	}
	s.wake()
	return nil
}

func (s *fakeStream) Recv(ctx context.Context, m proto.Message) error {
	for {
		s.mu.Lock()
		if len(s.queue) > 0 {
			it := s.queue[0]
			s.queue = s.queue[1:]
			s.mu.Unlock()
			if it.fail {
				return s.att.err(ctx)
			}
			proto.Reset(m)
			proto.Merge(m, it.msg)
			return nil
		}
		done := s.sendClosed || s.closed
		hung := s.att.mode == 'T' && !s.closed
		s.mu.Unlock()
		if done && hung {
			// a target that stopped answering does not answer the graceful drain of client.close() either
			<-ctx.Done()
			return ctx.Err()
		}
		if done && s.att.mode == 'S' && s.att.pos == "z" && !s.closed {
			// a fully answered attempt whose half-closed stream does NOT end with a clean EOF: the fault comes
			// AFTER the last answer (the drain Recv of client.close())
			switch s.att.k {
			case 0:
				return status.Error(codes.Internal, "scripted non-OK status at end of stream")
			case 1:
				return status.Error(codes.Unavailable, "scripted RST_STREAM at end of stream")
			case 2:
				return errors.New("scripted transport failure at end of stream")
			default:
				<-ctx.Done() // the target never finishes the stream
				return ctx.Err()
			}
		}
		if done {
			return io.EOF
		}
		select {
		case <-s.notify:
		case <-ctx.Done():
			return ctx.Err()
		}
	}
}

func (c *contract) fileOfService(sym string) *file {
	for i := range c.files {
		fd := c.files[i].fd
		if fd == nil {
			continue
		}
		for _, sd := range fd.Service {
			full := sd.GetName()
			if fd.GetPackage() != "" {
				full = fd.GetPackage() + "." + full
			}
			if full == sym {
				return &c.files[i]
			}
		}
	}
	return nil
}

func (c *contract) fileByName(name string) *file {
	for i := range c.files {
		if c.files[i].name == name {
			return &c.files[i]
		}
	}
	return nil
}

// ---------------------------------------------------------------------------------------------
// canonical rendering of a delivered description

func short(s string) string {
	h := sha256.Sum256([]byte(s))
	return hex.EncodeToString(h[:4])
}

func targetSig(t *bridgedesc.Target) string {
	var sb strings.Builder
	// the order of Target.Services is not part of the property (routers index by name): canonicalise it
	svcs := append([]bridgedesc.Service{}, t.Services...)
	sort.SliceStable(svcs, func(i, j int) bool { return svcs[i].Name < svcs[j].Name })
	for _, svc := range svcs {
		sb.WriteString(string(svc.Name))
		sb.WriteString("{")
		for _, m := range svc.Methods {
			fmt.Fprintf(&sb, "%s(%s)->(%s)%v,%v;", m.RPCName,
				m.Input.New().ProtoReflect().Descriptor().FullName(),
				m.Output.New().ProtoReflect().Descriptor().FullName(), m.ClientStreaming, m.ServerStreaming)
		}
		sb.WriteString("}")
	}
	return short(sb.String())
}

// expectedSig renders what the resolver should deliver for (filtered, sorted) services over files.
func expectedSig(services []string, files []*descriptorpb.FileDescriptorProto, onlyServices bool) string {
	var sb strings.Builder
	for _, name := range services {
		sb.WriteString(name)
		sb.WriteString("{")
		if !onlyServices {
			for _, fd := range files {
				for _, sd := range fd.Service {
					full := sd.GetName()
					if fd.GetPackage() != "" {
						full = fd.GetPackage() + "." + full
					}
					if full != name {
						continue
					}
					for _, m := range sd.Method {
						fmt.Fprintf(&sb, "/%s/%s(%s)->(%s)%v,%v;", full, m.GetName(),
							strings.TrimPrefix(m.GetInputType(), "."), strings.TrimPrefix(m.GetOutputType(), "."),
							m.GetClientStreaming(), m.GetServerStreaming())
					}
				}
			}
		}
		sb.WriteString("}")
	}
	return short(sb.String())
}

func filteredSorted(listed []string) []string {
	seen := map[string]bool{}
	var out []string
	for _, s := range listed {
		if seen[s] {
			continue
		}
		seen[s] = true
		if strings.HasPrefix(s, "grpc.") {
			continue
		}
		out = append(out, s)
	}
	sort.Strings(out)
	return out
}

var _ = rand.Int
