// Package c15 is the correspondence area of property C15 (stub: the slice is not built yet).
package c15

import (
	"math/rand"
)

type Area struct{}

func (Area) Name() string { return "c15" }

func (Area) Exec(input string) string { return "UNIMPLEMENTED" }

func (Area) Gen(r *rand.Rand, tier string, emit func(string)) {}
