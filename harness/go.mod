module verif/harness

go 1.22.2

require (
	github.com/gorilla/websocket v1.5.1
	github.com/grpc-ecosystem/grpc-gateway/v2 v2.19.1
	github.com/renbou/grpcbridge v0.0.0
	golang.org/x/net v0.24.0
	google.golang.org/genproto/googleapis/api v0.0.0-20240412170617-26222e5d3d56
	google.golang.org/genproto/googleapis/rpc v0.0.0-20240412170617-26222e5d3d56
	google.golang.org/grpc v1.63.2
	google.golang.org/protobuf v1.33.0
)

require (
	github.com/dolthub/maphash v0.1.0 // indirect
	github.com/klauspost/compress v1.17.5 // indirect
	github.com/lxzan/gws v1.8.2 // indirect
	golang.org/x/exp v0.0.0-20240409090435-93d18d7e34b8 // indirect
	golang.org/x/sys v0.19.0 // indirect
	golang.org/x/text v0.14.0 // indirect
)

replace github.com/renbou/grpcbridge => /repo
