module verif/harness

go 1.22.2

require github.com/renbou/grpcbridge v0.0.0

require (
	golang.org/x/net v0.24.0 // indirect
	golang.org/x/sys v0.19.0 // indirect
	golang.org/x/text v0.14.0 // indirect
	google.golang.org/genproto/googleapis/api v0.0.0-20240412170617-26222e5d3d56 // indirect
	google.golang.org/genproto/googleapis/rpc v0.0.0-20240412170617-26222e5d3d56 // indirect
	google.golang.org/grpc v1.63.2 // indirect
	google.golang.org/protobuf v1.33.0 // indirect
)

replace github.com/renbou/grpcbridge => /repo
