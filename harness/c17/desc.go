package c17

// The description under test is built AT RUN TIME (descriptorpb -> protodesc.NewFiles ->
// dynamicpb.NewTypes -> bridgedesc.ParseTarget): one message with every field kind and a service
// with every binding shape.  Nothing here is generated code of the repo.

import (
	"fmt"

	"github.com/renbou/grpcbridge/bridgedesc"
	"google.golang.org/genproto/googleapis/api/annotations"
	"google.golang.org/protobuf/proto"
	"google.golang.org/protobuf/reflect/protodesc"
	"google.golang.org/protobuf/reflect/protoreflect"
	"google.golang.org/protobuf/reflect/protoregistry"
	"google.golang.org/protobuf/types/descriptorpb"
	"google.golang.org/protobuf/types/dynamicpb"

	_ "google.golang.org/protobuf/types/known/anypb"
	_ "google.golang.org/protobuf/types/known/durationpb"
	_ "google.golang.org/protobuf/types/known/emptypb"
	_ "google.golang.org/protobuf/types/known/fieldmaskpb"
	_ "google.golang.org/protobuf/types/known/structpb"
	_ "google.golang.org/protobuf/types/known/timestamppb"
	_ "google.golang.org/protobuf/types/known/wrapperspb"
)

const (
	pkgName    = "c17"
	targetName = "c17target"
	svcName    = "c17.Svc"
	svc2Name   = "c17.Bare"
)

type fieldSpec struct {
	name   string
	typ    descriptorpb.FieldDescriptorProto_Type
	tname  string // type name for enum/message
	rep    bool
	oneof  bool
	opt3   bool // proto3 optional
	mapKey descriptorpb.FieldDescriptorProto_Type
	mapVal descriptorpb.FieldDescriptorProto_Type
	mapVT  string
}

const (
	tDouble   = descriptorpb.FieldDescriptorProto_TYPE_DOUBLE
	tFloat    = descriptorpb.FieldDescriptorProto_TYPE_FLOAT
	tInt64    = descriptorpb.FieldDescriptorProto_TYPE_INT64
	tUint64   = descriptorpb.FieldDescriptorProto_TYPE_UINT64
	tInt32    = descriptorpb.FieldDescriptorProto_TYPE_INT32
	tFixed64  = descriptorpb.FieldDescriptorProto_TYPE_FIXED64
	tFixed32  = descriptorpb.FieldDescriptorProto_TYPE_FIXED32
	tBool     = descriptorpb.FieldDescriptorProto_TYPE_BOOL
	tString   = descriptorpb.FieldDescriptorProto_TYPE_STRING
	tMessage  = descriptorpb.FieldDescriptorProto_TYPE_MESSAGE
	tBytes    = descriptorpb.FieldDescriptorProto_TYPE_BYTES
	tUint32   = descriptorpb.FieldDescriptorProto_TYPE_UINT32
	tEnum     = descriptorpb.FieldDescriptorProto_TYPE_ENUM
	tSfixed32 = descriptorpb.FieldDescriptorProto_TYPE_SFIXED32
	tSfixed64 = descriptorpb.FieldDescriptorProto_TYPE_SFIXED64
	tSint32   = descriptorpb.FieldDescriptorProto_TYPE_SINT32
	tSint64   = descriptorpb.FieldDescriptorProto_TYPE_SINT64
)

// allFields is the field list of message c17.All (numbers = index+1).
var allFields = []fieldSpec{
	{name: "f_double", typ: tDouble}, {name: "f_float", typ: tFloat},
	{name: "f_int32", typ: tInt32}, {name: "f_int64", typ: tInt64},
	{name: "f_uint32", typ: tUint32}, {name: "f_uint64", typ: tUint64},
	{name: "f_sint32", typ: tSint32}, {name: "f_sint64", typ: tSint64},
	{name: "f_fixed32", typ: tFixed32}, {name: "f_fixed64", typ: tFixed64},
	{name: "f_sfixed32", typ: tSfixed32}, {name: "f_sfixed64", typ: tSfixed64},
	{name: "f_bool", typ: tBool}, {name: "f_string", typ: tString}, {name: "f_bytes", typ: tBytes},
	{name: "f_enum", typ: tEnum, tname: ".c17.Color"},
	{name: "f_nested", typ: tMessage, tname: ".c17.Nested"},
	{name: "o_string", typ: tString, oneof: true}, {name: "o_int32", typ: tInt32, oneof: true},
	{name: "o_nested", typ: tMessage, tname: ".c17.Nested", oneof: true},
	{name: "o_enum", typ: tEnum, tname: ".c17.Color", oneof: true},
	{name: "r_int32", typ: tInt32, rep: true}, {name: "r_string", typ: tString, rep: true},
	{name: "r_enum", typ: tEnum, tname: ".c17.Color", rep: true},
	{name: "r_nested", typ: tMessage, tname: ".c17.Nested", rep: true},
	{name: "r_bytes", typ: tBytes, rep: true}, {name: "r_double", typ: tDouble, rep: true},
	{name: "r_bool", typ: tBool, rep: true}, {name: "r_uint64", typ: tUint64, rep: true},
	{name: "m_ss", mapKey: tString, mapVal: tString},
	{name: "m_is", mapKey: tInt32, mapVal: tString},
	{name: "m_bi", mapKey: tBool, mapVal: tInt64},
	{name: "m_sn", mapKey: tString, mapVal: tMessage, mapVT: ".c17.Nested"},
	{name: "m_ue", mapKey: tUint64, mapVal: tEnum, mapVT: ".c17.Color"},
	{name: "m_sd", mapKey: tString, mapVal: tDouble},
	{name: "m_xb", mapKey: tSfixed64, mapVal: tBytes},
	{name: "w_ts", typ: tMessage, tname: ".google.protobuf.Timestamp"},
	{name: "w_dur", typ: tMessage, tname: ".google.protobuf.Duration"},
	{name: "w_fm", typ: tMessage, tname: ".google.protobuf.FieldMask"},
	{name: "w_struct", typ: tMessage, tname: ".google.protobuf.Struct"},
	{name: "w_value", typ: tMessage, tname: ".google.protobuf.Value"},
	{name: "w_list", typ: tMessage, tname: ".google.protobuf.ListValue"},
	{name: "w_double", typ: tMessage, tname: ".google.protobuf.DoubleValue"},
	{name: "w_float", typ: tMessage, tname: ".google.protobuf.FloatValue"},
	{name: "w_int64", typ: tMessage, tname: ".google.protobuf.Int64Value"},
	{name: "w_uint64", typ: tMessage, tname: ".google.protobuf.UInt64Value"},
	{name: "w_int32", typ: tMessage, tname: ".google.protobuf.Int32Value"},
	{name: "w_uint32", typ: tMessage, tname: ".google.protobuf.UInt32Value"},
	{name: "w_bool", typ: tMessage, tname: ".google.protobuf.BoolValue"},
	{name: "w_string", typ: tMessage, tname: ".google.protobuf.StringValue"},
	{name: "w_bytes", typ: tMessage, tname: ".google.protobuf.BytesValue"},
	{name: "w_any", typ: tMessage, tname: ".google.protobuf.Any"},
	{name: "w_empty", typ: tMessage, tname: ".google.protobuf.Empty"},
	{name: "w_null", typ: tEnum, tname: ".google.protobuf.NullValue"},
	{name: "p_int32", typ: tInt32, opt3: true}, {name: "p_enum", typ: tEnum, tname: ".c17.Color", opt3: true},
	{name: "r_ts", typ: tMessage, tname: ".google.protobuf.Timestamp", rep: true},
	{name: "r_wint", typ: tMessage, tname: ".google.protobuf.Int32Value", rep: true},
}

// bindingSpec is one HTTP binding of the description, kept for the generator.
type bindingSpec struct {
	Method   string // gRPC method name
	HTTP     string // HTTP method
	Pattern  string
	Body     string
	RespBody string
	CS, SS   bool
}

var bindings []bindingSpec

func camel(s string) string {
	out := make([]byte, 0, len(s))
	up := true
	for i := 0; i < len(s); i++ {
		if s[i] == '_' {
			up = true
			continue
		}
		c := s[i]
		if up && c >= 'a' && c <= 'z' {
			c -= 32
		}
		up = false
		out = append(out, c)
	}
	return string(out)
}

func httpRule(method, pattern, body, resp string) *annotations.HttpRule {
	r := &annotations.HttpRule{Body: body, ResponseBody: resp}
	switch method {
	case "GET":
		r.Pattern = &annotations.HttpRule_Get{Get: pattern}
	case "PUT":
		r.Pattern = &annotations.HttpRule_Put{Put: pattern}
	case "POST":
		r.Pattern = &annotations.HttpRule_Post{Post: pattern}
	case "DELETE":
		r.Pattern = &annotations.HttpRule_Delete{Delete: pattern}
	case "PATCH":
		r.Pattern = &annotations.HttpRule_Patch{Patch: pattern}
	default:
		r.Pattern = &annotations.HttpRule_Custom{Custom: &annotations.CustomHttpPattern{Kind: method, Path: pattern}}
	}
	return r
}

func pvLabel(f string) string {
	out := []byte(f)
	for i := range out {
		if out[i] == '.' {
			out[i] = '-'
		}
	}
	return string(out)
}

// pathVarFields lists the field paths bound as a single path variable by the PathVars method.
func pathVarFields() []string {
	var out []string
	for _, f := range allFields {
		if f.mapKey != 0 {
			continue
		}
		switch f.tname {
		case ".c17.Nested", ".google.protobuf.Any", ".google.protobuf.Empty", ".google.protobuf.ListValue":
			continue // no textual parameter form
		}
		out = append(out, f.name)
	}
	return append(out, "f_nested.name", "f_nested.n", "f_nested.color", "f_nested.tags", "f_nested.child.n", "f_nested.child.child.name", "o_nested.color")
}

type methodSpec struct {
	name   string
	cs, ss bool
	rules  [][4]string // http method, pattern, body, response body
}

func methodSpecs() []methodSpec {
	// one POST binding per field of All with that field as the request body, plus nested field paths
	var bodyRules [][4]string
	bodyRules = append(bodyRules, [4]string{"POST", "/v1/all", "*", ""})
	for _, f := range allFields {
		bodyRules = append(bodyRules, [4]string{"POST", "/v1/body/" + f.name, f.name, ""})
	}
	bodyRules = append(bodyRules,
		[4]string{"POST", "/v1/body/nested/color", "f_nested.color", ""},
		[4]string{"POST", "/v1/body/nested/child", "f_nested.child", ""},
		[4]string{"POST", "/v1/body/nested/tags", "f_nested.tags", ""},
		[4]string{"PUT", "/v1/all/{f_string}", "f_nested", ""},
		[4]string{"PATCH", "/v1/all/{f_nested.name}/x/{f_int32}", "*", ""},
		[4]string{"PUT", "/v1/kinds/{f_bool}/{f_enum}/{f_double}/{f_uint64}/{f_bytes}", "f_nested", ""},
	)
	var respRules [][4]string
	for _, f := range []string{"f_nested", "r_nested", "m_ss", "f_double", "f_enum", "r_enum", "w_ts", "f_nested.child", "f_bytes", "m_ue"} {
		respRules = append(respRules, [4]string{"GET", "/v1/resp/" + f + "/{f_string}", "", f})
	}
	// one GET binding per field that can be a path variable (scalars, enums, the well-known types the parameter
	// parser supports, repeated ones, nested field paths), plus multi-segment and prefixed shapes
	var pvRules [][4]string
	for _, f := range pathVarFields() {
		pvRules = append(pvRules, [4]string{"GET", "/v1/pv/" + pvLabel(f) + "/{" + f + "}", "", ""})
	}
	pvRules = append(pvRules,
		[4]string{"GET", "/v1/pvm/f_int32/{f_int32=x/*}", "", ""},
		[4]string{"GET", "/v1/pvm/w_string/{w_string=**}", "", ""},
		[4]string{"GET", "/v1/pvm/nested/{f_nested.name=n/**}:get", "", ""},
		[4]string{"GET", "/v1/pvm/two/{f_nested.n}/{o_nested.name}", "", ""},
	)
	return []methodSpec{
		{name: "PathVars", rules: pvRules},
		{name: "Unary", rules: bodyRules},
		{name: "Get", rules: [][4]string{
			{"GET", "/v1/get/{f_string}", "", ""},
			{"GET", "/v1/get", "", ""},
			{"GET", "/v1/{f_nested.name=shelves/*}/books/{f_int64}", "", ""},
			{"GET", "/v1/files/{f_string=**}", "", ""},
			{"GET", "/v1/multi/{f_string=a/**}:fetch", "", ""},
			{"GET", "/v1/verb/{f_string}:check", "", ""},
			{"DELETE", "/v1/all/{f_uint64}", "", ""},
			{"LINK", "/v1/custom/{f_bool}", "", ""},
			{"GET", "/v1/wkt/{w_ts}/{w_dur}/{w_int64}", "", ""},
			{"GET", "/v1/rep/{r_int32}/{o_enum}", "", ""},
		}},
		{name: "Resp", rules: respRules},
		{name: "ServerStream", ss: true, rules: [][4]string{
			{"GET", "/v1/stream/{f_string}", "", ""},
			{"POST", "/v1/stream", "*", ""},
			{"POST", "/v1/stream/enum", "f_enum", "f_nested"},
			{"GET", "/v1/streamresp/{f_int32}", "", "r_int32"},
		}},
		{name: "ClientStream", cs: true, rules: [][4]string{
			{"POST", "/v1/cstream", "*", ""},
			{"POST", "/v1/cstream/{f_string}", "f_nested", ""},
			{"GET", "/v1/cstream/{f_string}", "", ""},
		}},
		{name: "Bidi", cs: true, ss: true, rules: [][4]string{
			{"POST", "/v1/bidi", "*", ""},
			{"GET", "/v1/bidi", "*", ""},
			{"GET", "/v1/bidi/{f_string}", "", ""},
			{"GET", "/v1/bidi/field/enum", "f_enum", ""},
			{"GET", "/v1/bidi/field/renum", "r_enum", ""},
			{"GET", "/v1/bidi/field/menum", "m_ue", "f_nested"},
			{"GET", "/v1/bidi/field/int32", "f_int32", "r_int32"},
		}},
		{name: "NoBinding"},
		{name: "NoBindingStream", cs: true, ss: true},
		// the same shapes reachable with GET so that a browser-style WebSocket upgrade can hit them
		{name: "WSUnary", rules: [][4]string{
			{"GET", "/v1/ws/unary", "*", ""},
			{"GET", "/v1/ws/unary/enum", "f_enum", ""},
			{"GET", "/v1/ws/unary/nested/{f_string}", "f_nested", ""},
			{"GET", "/v1/ws/unary/nobody/{f_int32}", "", ""},
		}},
		{name: "WSServerStream", ss: true, rules: [][4]string{
			{"GET", "/v1/ws/sstream", "*", ""},
			{"GET", "/v1/ws/sstream/renum", "r_enum", ""},
		}},
	}
}

func buildFile() *descriptorpb.FileDescriptorProto {
	s := proto.String
	lbl := func(rep bool) *descriptorpb.FieldDescriptorProto_Label {
		if rep {
			return descriptorpb.FieldDescriptorProto_LABEL_REPEATED.Enum()
		}
		return descriptorpb.FieldDescriptorProto_LABEL_OPTIONAL.Enum()
	}
	color := &descriptorpb.EnumDescriptorProto{Name: s("Color"), Value: []*descriptorpb.EnumValueDescriptorProto{
		{Name: s("COLOR_UNSPECIFIED"), Number: proto.Int32(0)}, {Name: s("RED"), Number: proto.Int32(1)},
		{Name: s("GREEN"), Number: proto.Int32(2)}, {Name: s("BLUE"), Number: proto.Int32(5)},
		{Name: s("NEG"), Number: proto.Int32(-3)},
	}}
	nested := &descriptorpb.DescriptorProto{Name: s("Nested"), Field: []*descriptorpb.FieldDescriptorProto{
		{Name: s("name"), Number: proto.Int32(1), Type: tString.Enum(), Label: lbl(false), JsonName: s("name")},
		{Name: s("n"), Number: proto.Int32(2), Type: tInt32.Enum(), Label: lbl(false), JsonName: s("n")},
		{Name: s("color"), Number: proto.Int32(3), Type: tEnum.Enum(), TypeName: s(".c17.Color"), Label: lbl(false), JsonName: s("color")},
		{Name: s("child"), Number: proto.Int32(4), Type: tMessage.Enum(), TypeName: s(".c17.Nested"), Label: lbl(false), JsonName: s("child")},
		{Name: s("tags"), Number: proto.Int32(5), Type: tString.Enum(), Label: lbl(true), JsonName: s("tags")},
		{Name: s("attrs"), Number: proto.Int32(6), Type: tMessage.Enum(), TypeName: s(".c17.Nested.AttrsEntry"), Label: lbl(true), JsonName: s("attrs")},
		{Name: s("counts"), Number: proto.Int32(7), Type: tMessage.Enum(), TypeName: s(".c17.Nested.CountsEntry"), Label: lbl(true), JsonName: s("counts")},
	}, NestedType: []*descriptorpb.DescriptorProto{
		{Name: s("AttrsEntry"), Options: &descriptorpb.MessageOptions{MapEntry: proto.Bool(true)}, Field: []*descriptorpb.FieldDescriptorProto{
			{Name: s("key"), Number: proto.Int32(1), Type: tString.Enum(), Label: lbl(false), JsonName: s("key")},
			{Name: s("value"), Number: proto.Int32(2), Type: tString.Enum(), Label: lbl(false), JsonName: s("value")}}},
		{Name: s("CountsEntry"), Options: &descriptorpb.MessageOptions{MapEntry: proto.Bool(true)}, Field: []*descriptorpb.FieldDescriptorProto{
			{Name: s("key"), Number: proto.Int32(1), Type: tInt32.Enum(), Label: lbl(false), JsonName: s("key")},
			{Name: s("value"), Number: proto.Int32(2), Type: tInt32.Enum(), Label: lbl(false), JsonName: s("value")}}},
	}}
	all := &descriptorpb.DescriptorProto{Name: s("All")}
	all.OneofDecl = append(all.OneofDecl, &descriptorpb.OneofDescriptorProto{Name: s("choice")})
	for i, f := range allFields {
		fd := &descriptorpb.FieldDescriptorProto{Name: s(f.name), Number: proto.Int32(int32(i + 1)), JsonName: s(lowerFirst(camel(f.name)))}
		switch {
		case f.mapKey != 0:
			entry := camel(f.name) + "Entry"
			val := &descriptorpb.FieldDescriptorProto{Name: s("value"), Number: proto.Int32(2), Type: f.mapVal.Enum(), Label: lbl(false), JsonName: s("value")}
			if f.mapVT != "" {
				val.TypeName = s(f.mapVT)
			}
			all.NestedType = append(all.NestedType, &descriptorpb.DescriptorProto{
				Name: s(entry),
				Field: []*descriptorpb.FieldDescriptorProto{
					{Name: s("key"), Number: proto.Int32(1), Type: f.mapKey.Enum(), Label: lbl(false), JsonName: s("key")},
					val,
				},
				Options: &descriptorpb.MessageOptions{MapEntry: proto.Bool(true)},
			})
			fd.Type = tMessage.Enum()
			fd.TypeName = s(".c17.All." + entry)
			fd.Label = lbl(true)
		default:
			fd.Type = f.typ.Enum()
			fd.Label = lbl(f.rep)
			if f.tname != "" {
				fd.TypeName = s(f.tname)
			}
			if f.oneof {
				fd.OneofIndex = proto.Int32(0)
			}
			if f.opt3 {
				fd.Proto3Optional = proto.Bool(true)
				fd.OneofIndex = proto.Int32(int32(len(all.OneofDecl)))
				all.OneofDecl = append(all.OneofDecl, &descriptorpb.OneofDescriptorProto{Name: s("_" + f.name)})
			}
		}
		all.Field = append(all.Field, fd)
	}

	mk := func(ms methodSpec) *descriptorpb.MethodDescriptorProto {
		m := &descriptorpb.MethodDescriptorProto{Name: s(ms.name), InputType: s(".c17.All"), OutputType: s(".c17.All"),
			ClientStreaming: proto.Bool(ms.cs), ServerStreaming: proto.Bool(ms.ss)}
		if len(ms.rules) > 0 {
			r0 := ms.rules[0]
			rule := httpRule(r0[0], r0[1], r0[2], r0[3])
			for _, r := range ms.rules[1:] {
				rule.AdditionalBindings = append(rule.AdditionalBindings, httpRule(r[0], r[1], r[2], r[3]))
			}
			opts := &descriptorpb.MethodOptions{}
			proto.SetExtension(opts, annotations.E_Http, rule)
			m.Options = opts
			for _, r := range ms.rules {
				bindings = append(bindings, bindingSpec{Method: ms.name, HTTP: r[0], Pattern: r[1], Body: r[2], RespBody: r[3], CS: ms.cs, SS: ms.ss})
			}
		} else {
			bindings = append(bindings, bindingSpec{Method: ms.name, HTTP: "POST", Pattern: "/" + svcName + "/" + ms.name, Body: "*", CS: ms.cs, SS: ms.ss})
		}
		return m
	}
	svc := &descriptorpb.ServiceDescriptorProto{Name: s("Svc")}
	bindings = nil
	for _, ms := range methodSpecs() {
		svc.Method = append(svc.Method, mk(ms))
	}
	bare := &descriptorpb.ServiceDescriptorProto{Name: s("Bare"), Method: []*descriptorpb.MethodDescriptorProto{
		{Name: s("Call"), InputType: s(".c17.All"), OutputType: s(".c17.All")},
		{Name: s("Stream"), InputType: s(".c17.All"), OutputType: s(".c17.All"), ClientStreaming: proto.Bool(true), ServerStreaming: proto.Bool(true)},
	}}
	bindings = append(bindings,
		bindingSpec{Method: "Call", HTTP: "POST", Pattern: "/" + svc2Name + "/Call", Body: "*"},
		bindingSpec{Method: "Stream", HTTP: "POST", Pattern: "/" + svc2Name + "/Stream", Body: "*", CS: true, SS: true})

	return &descriptorpb.FileDescriptorProto{
		Name: s("c17/all.proto"), Package: s(pkgName), Syntax: s("proto3"),
		Dependency: []string{
			"google/protobuf/timestamp.proto", "google/protobuf/duration.proto", "google/protobuf/field_mask.proto",
			"google/protobuf/struct.proto", "google/protobuf/wrappers.proto", "google/protobuf/any.proto",
			"google/protobuf/empty.proto", "google/api/annotations.proto",
		},
		EnumType:    []*descriptorpb.EnumDescriptorProto{color},
		MessageType: []*descriptorpb.DescriptorProto{nested, all},
		Service:     []*descriptorpb.ServiceDescriptorProto{svc, bare},
	}
}

func lowerFirst(s string) string {
	if s == "" {
		return s
	}
	c := s[0]
	if c >= 'A' && c <= 'Z' {
		c += 32
	}
	return string(c) + s[1:]
}

// buildTarget assembles the file set (well-known files come from the linked-in registry, the test
// file is built above) and parses it with the repo's own bridgedesc.ParseTarget.
func buildTarget() (*bridgedesc.Target, protoreflect.MessageDescriptor, error) {
	set := &descriptorpb.FileDescriptorSet{}
	seen := map[string]bool{}
	var add func(path string) error
	add = func(path string) error {
		if seen[path] {
			return nil
		}
		seen[path] = true
		fd, err := protoregistry.GlobalFiles.FindFileByPath(path)
		if err != nil {
			return fmt.Errorf("%s: %w", path, err)
		}
		imps := fd.Imports()
		for i := 0; i < imps.Len(); i++ {
			if err := add(imps.Get(i).Path()); err != nil {
				return err
			}
		}
		set.File = append(set.File, protodesc.ToFileDescriptorProto(fd))
		return nil
	}
	file := buildFile()
	for _, d := range file.Dependency {
		if err := add(d); err != nil {
			return nil, nil, err
		}
	}
	set.File = append(set.File, file)
	files, err := protodesc.NewFiles(set)
	if err != nil {
		return nil, nil, err
	}
	types := dynamicpb.NewTypes(files)
	t := bridgedesc.ParseTarget(targetName, files, types, []protoreflect.FullName{svcName, svc2Name})
	d, err := files.FindDescriptorByName("c17.All")
	if err != nil {
		return nil, nil, err
	}
	return t, d.(protoreflect.MessageDescriptor), nil
}
