package c17

// Raw bytes over a REAL TCP connection to a real net/http server wrapping the bridge (the worker's
// httptest.Server), for what the in-process `http` op cannot deliver:
//
//	tcp raw  - <script> <hexbytes>   request targets without a path (CONNECT host:port, absolute-form without a path,
//	                                 OPTIONS *): write, read the answer
//	tcp idle <entry>/<ender>/<body> <script> <hexbytes>
//	                                 the client sends the bytes (head + possibly a part of the body) and then NOTHING,
//	                                 leaving the connection open and idle, while the target ends the call / the
//	                                 deadline expires: the handler must return in bounded time with a well-formed answer
//
// Output: res=ok ret=<handler returned within the bound> st=<status|0> gw=<grpc-web frames ok> tr=<trailers> gs=<grpc-status> ms=<bucket>

import (
	"bufio"
	"bytes"
	"fmt"
	"io"
	"net"
	"net/http"
	"strings"
	"time"

	"verif/harness/common"
)

const idleBound = 2500 * time.Millisecond

func (w *worker) runTCP(f []string) string {
	if len(f) != 5 {
		return "BADOP"
	}
	scr, ok := parseScript(f[3])
	raw, err := common.UnHex(f[4])
	if !ok || err != nil {
		return "BADOP"
	}
	obs := w.e.begin(scr)
	conn, err := net.DialTimeout("tcp", w.srv.Listener.Addr().String(), 2*time.Second)
	if err != nil {
		return "res=ok ret=1 st=0 why=dial"
	}
	defer conn.Close()
	start := time.Now()
	_, _ = conn.Write(raw)
	_ = conn.SetReadDeadline(start.Add(idleBound))
	br := bufio.NewReader(conn)
	st, gwOK, tr, gs, bodyDone := 0, 0, 0, "na", 0
	isGW := false
	resp, err := http.ReadResponse(br, &http.Request{Method: firstWord(raw)})
	if err == nil {
		st = resp.StatusCode
		isGW = strings.HasPrefix(resp.Header.Get("Content-Type"), "application/grpc-web")
		body, rerr := io.ReadAll(resp.Body) // ends at the terminating chunk / Content-Length / close, or at the deadline
		if rerr == nil {
			bodyDone = 1
		}
		if isGW {
			okf, n, last, status := decodeGRPCWeb(body)
			if okf && last {
				gwOK = 1
			}
			tr, gs = n, status
		}
	}
	// the client is still connected and still silent: has the handler returned?
	ret := 0
	left := idleBound - time.Since(start)
	if left < 100*time.Millisecond {
		left = 100 * time.Millisecond
	}
	if w.waitIdle(left) {
		ret = 1
	}
	ms := time.Since(start).Milliseconds()
	conn.Close()
	if !w.waitIdle(4 * time.Second) {
		return "res=hang where=handler-after-client-gone"
	}
	obs.mu.Lock()
	np := len(obs.panics)
	pmsg := ""
	if np > 0 {
		pmsg = obs.panics[0]
	}
	streams := obs.streams
	obs.mu.Unlock()
	if np > 0 {
		return "res=panic msg=" + common.HexS(pmsg)
	}
	bucket := "fast"
	if ms > 1000 {
		bucket = "slow"
	}
	return fmt.Sprintf("res=ok ret=%d st=%d gwct=%d gw=%d tr=%d gs=%s done=%d streams=%d ms=%s", ret, st, b01(isGW), gwOK, tr, gs, bodyDone, streams, bucket)
}

func firstWord(raw []byte) string {
	if i := bytes.IndexByte(raw, ' '); i > 0 {
		return string(raw[:i])
	}
	return "GET"
}

// ---- generation: small exhaustive tables ----

func genTCP(emit func(string)) {
	// request targets without a path, sent as raw request lines
	for _, rl := range []string{
		"CONNECT example.com:443 HTTP/1.1\r\nHost: example.com:443\r\n\r\n",
		"CONNECT c17target:80 HTTP/1.1\r\nHost: c17target:80\r\nContent-Type: application/grpc-web\r\n\r\n",
		"GET http://example.com HTTP/1.1\r\nHost: example.com\r\n\r\n",
		"GET http://example.com?x=1 HTTP/1.1\r\nHost: example.com\r\n\r\n",
		"POST http://example.com HTTP/1.1\r\nHost: example.com\r\nContent-Type: application/json\r\nContent-Length: 2\r\n\r\n{}",
		"POST http://example.com HTTP/1.1\r\nHost: example.com\r\nContent-Type: application/grpc-web+proto\r\nContent-Length: 5\r\n\r\n\x00\x00\x00\x00\x00",
		"OPTIONS * HTTP/1.1\r\nHost: example.com\r\n\r\n",
		"OPTIONS * HTTP/1.1\r\nHost: example.com\r\nContent-Type: application/grpc-web\r\n\r\n",
		"GET * HTTP/1.1\r\nHost: example.com\r\n\r\n",
		"GET /v1/all?_metadata[=x&_metadata[]=y&_metadata]=z HTTP/1.1\r\nHost: example.com\r\n\r\n",
		"GET http://example.com/v1/get/abc HTTP/1.1\r\nHost: example.com\r\n\r\n",
	} {
		emit("tcp raw - n1c0w0 " + common.HexS(rl))
		count("tcp-raw")
	}
	// client stops sending: entry point x who ends first x body state
	type ender struct{ name, script, hdr string }
	enders := []ender{
		{"target-status", "n0c5w0", ""},
		{"target-eof", "n1c0w0", ""},
		{"deadline", "n0c0w1", "Grpc-Timeout: 300m\r\n"},
	}
	for _, en := range enders {
		for _, bs := range []string{"nothing", "partial"} {
			// transcoded HTTP, unary, body "*": Content-Length announces more than is ever sent
			part := ""
			if bs == "partial" {
				part = `{"f_string":"ab`
			}
			// a non-client-streaming method reads its request BEFORE the target is contacted (Forward): the target
			// cannot end what has not started, only the deadline (or the client) can; gRPC-Web below covers target-first
			if en.name == "deadline" {
				emit("tcp idle http/" + en.name + "/" + bs + " " + en.script + " " + common.HexS(
					"POST /v1/all HTTP/1.1\r\nHost: x\r\nContent-Type: application/json\r\n"+en.hdr+"Content-Length: 64\r\n\r\n"+part))
				// the same with a chunked body that never gets its terminating chunk
				chunk := ""
				if bs == "partial" {
					chunk = "3\r\n{\"f\r\n"
				}
				emit("tcp idle httpchunked/" + en.name + "/" + bs + " " + en.script + " " + common.HexS(
					"POST /v1/all HTTP/1.1\r\nHost: x\r\nContent-Type: application/json\r\n"+en.hdr+"Transfer-Encoding: chunked\r\n\r\n"+chunk))
			}
			// gRPC-Web: half a frame header / nothing
			gpart := ""
			if bs == "partial" {
				gpart = "3\r\n\x00\x00\x00\r\n"
			}
			for _, m := range []string{"Unary", "Bidi"} {
				emit("tcp idle grpcweb-" + m + "/" + en.name + "/" + bs + " " + en.script + " " + common.HexS(
					"POST /c17.Svc/"+m+" HTTP/1.1\r\nHost: x\r\nContent-Type: application/grpc-web+proto\r\n"+en.hdr+"Transfer-Encoding: chunked\r\n\r\n"+gpart))
			}
			count("tcp-idle")
		}
		// WebSocket entry points: the existing socket op, the client sends no frame (or only the metadata frame) and waits
		gws := "Sec-WebSocket-Protocol: grpc-websockets\r\n"
		to := strings.ReplaceAll(en.hdr, "Grpc-Timeout", "grpc-timeout")
		emit(wsLine("none", en.script, "/v1/ws/unary", to, "wait", nil))
		emit(wsLine("none", en.script, "/v1/ws/sstream", to, "wait", nil))
		emit(wsLine("none", en.script, "/c17.Svc/Bidi", gws+to, "wait", nil))
		emit(wsLine("none", en.script, "/c17.Svc/Unary", gws+to, "wait", []string{"B" + strings.TrimPrefix(common.HexS("x-a: b\r\n"), "x")}))
		count("ws-idle")
	}
}
