package c17

// In-process requests: raw HTTP/1.1 request text -> http.ReadRequest (+ the header checks
// net/http's server applies before calling a handler) -> bridge.ServeHTTP on a recorder that also
// supports Hijack (net.Pipe), inside recover() with a watchdog.

import (
	"bufio"
	"bytes"
	"encoding/binary"
	"encoding/json"
	"fmt"
	"io"
	"net"
	"net/http"
	"net/http/httptest"
	"net/url"
	"strconv"
	"strings"
	"sync"
	"time"
	"unicode/utf8"

	"golang.org/x/net/http/httpguts"
	"google.golang.org/grpc/codes"
	"verif/harness/common"
)

const handlerWatchdog = 4 * time.Second

func parseScript(s string) (script, bool) {
	// n<k>c<code>w<0|1>
	var n, c, w int
	if _, err := fmt.Sscanf(s, "n%dc%dw%d", &n, &c, &w); err != nil {
		return script{}, false
	}
	return script{N: n, Code: codes.Code(c), Wait: w == 1}, true
}

// hijackRecorder is httptest.ResponseRecorder + http.Hijacker over a net.Pipe.
type hijackRecorder struct {
	*httptest.ResponseRecorder
	mu       sync.Mutex
	hijacked bool
	client   net.Conn // harness end
	server   net.Conn
}

func (h *hijackRecorder) Hijack() (net.Conn, *bufio.ReadWriter, error) {
	h.mu.Lock()
	defer h.mu.Unlock()
	if h.hijacked {
		return nil, nil, http.ErrHijacked
	}
	h.hijacked = true
	h.server, h.client = net.Pipe()
	return h.server, bufio.NewReadWriter(bufio.NewReader(h.server), bufio.NewWriter(h.server)), nil
}

// serverRejects mirrors the checks of net/http's conn.readRequest that happen after ReadRequest
// and before the handler is called: such requests never reach a handler.
func serverRejects(req *http.Request) bool {
	if req.ProtoMajor != 1 { // HTTP/0.9 and the HTTP/2 preface are not served by the HTTP/1 handler path
		return true
	}
	for k, vv := range req.Header {
		if !httpguts.ValidHeaderFieldName(k) {
			return true
		}
		for _, v := range vv {
			if !httpguts.ValidHeaderFieldValue(v) {
				return true
			}
		}
	}
	// ReadRequest moves the Host header into req.Host; its presence/uniqueness is checked on the raw text
	return req.Host != "" && !httpguts.ValidHostHeader(req.Host)
}

func kv(k string, v any) string { return fmt.Sprintf("%s=%v", k, v) }

func b01(b bool) int {
	if b {
		return 1
	}
	return 0
}

// badParamMarkers are literals that no numeric/bool/enum/bytes(base64)/Timestamp/Duration/wrapper parser accepts;
// the generator builds tag=badparam requests only by placing one of them into a typed parameter.
var badParamMarkers = []string{"zz~bad", "1.5.2x", "--1~", "0x_g~", "tru3~"}

func hasBadParamMarker(target string) bool {
	for _, m := range badParamMarkers {
		if strings.Contains(target, m) {
			return true
		}
	}
	return false
}

// http <tag> <script> <hexreq>
func (w *worker) runHTTP(f []string) string {
	if len(f) != 4 {
		return "BADOP"
	}
	tag := f[1]
	scr, ok := parseScript(f[2])
	if !ok {
		return "BADOP"
	}
	raw, err := common.UnHex(f[3])
	if err != nil {
		return "BADOP"
	}
	br := bufio.NewReader(bytes.NewReader(raw))
	req, err := http.ReadRequest(br)
	if err != nil {
		return "res=reject why=readrequest"
	}
	hostHeaders := countHostHeaders(raw)
	if req.ProtoAtLeast(1, 1) && hostHeaders == 0 && req.Method != "CONNECT" {
		return "res=reject why=nohost"
	}
	if hostHeaders > 1 {
		return "res=reject why=manyhosts"
	}
	if serverRejects(req) {
		return "res=reject why=headers"
	}
	if req.Method == "PRI" || req.RequestURI == "*" {
		// the HTTP/2 preface and "*" requests are answered by net/http itself
		return "res=reject why=star"
	}
	req.RemoteAddr = "127.0.0.1:1"

	// independent re-validation of the request body as JSON (the harness' own oracle, encoding/json)
	bodyBytes, bodyErr := io.ReadAll(req.Body)
	req.Body = io.NopCloser(bytes.NewReader(bodyBytes))
	jv, jp := "na", "na"
	if bodyErr != nil {
		jv, jp = "rd", "rd" // the body itself cannot be read (bad chunking): transport error, not JSON
		req.Body = io.NopCloser(io.MultiReader(bytes.NewReader(bodyBytes), errReader{bodyErr}))
	} else if len(bodyBytes) > 0 {
		jv = strconv.Itoa(b01(json.Valid(bodyBytes)))
		var rawv json.RawMessage
		jp = strconv.Itoa(b01(json.NewDecoder(bytes.NewReader(bodyBytes)).Decode(&rawv) == nil))
	}

	obs := w.e.begin(scr)
	rec := &hijackRecorder{ResponseRecorder: httptest.NewRecorder()}
	done := make(chan struct{})
	go func() {
		defer close(done)
		defer func() {
			// the accounting wrapper re-panics with ErrAbortHandler like a real server would see it
			_ = recover()
		}()
		w.h.ServeHTTP(rec, req)
	}()

	// if the handler hijacks, play the client end: read the handshake response, then go away
	var hjBytes []byte
	hjDone := make(chan struct{})
	go func() {
		defer close(hjDone)
		deadline := time.Now().Add(handlerWatchdog)
		for time.Now().Before(deadline) {
			rec.mu.Lock()
			c := rec.client
			rec.mu.Unlock()
			if c != nil {
				_ = c.SetReadDeadline(time.Now().Add(300 * time.Millisecond))
				buf := make([]byte, 4096)
				for {
					n, err := c.Read(buf)
					hjBytes = append(hjBytes, buf[:n]...)
					if err != nil || bytes.Contains(hjBytes, []byte("\r\n\r\n")) {
						break
					}
				}
				// drain whatever else is written while closing our end
				go func() { _, _ = io.Copy(io.Discard, c) }()
				_ = c.Close()
				return
			}
			select {
			case <-done:
				return
			default:
				time.Sleep(100 * time.Microsecond)
			}
		}
	}()

	hang := false
	select {
	case <-done:
	case <-time.After(handlerWatchdog):
		hang = true
	}
	if hang {
		return "res=hang where=handler " + w.describe(req, obs, tag, jv, jp)
	}
	<-hjDone
	obs.mu.Lock()
	panics := append([]string(nil), obs.panics...)
	obs.mu.Unlock()
	if len(panics) > 0 {
		return "res=panic msg=" + common.HexS(panics[0]) + " " + w.describe(req, obs, tag, jv, jp)
	}

	rec.mu.Lock()
	hj := rec.hijacked
	rec.mu.Unlock()
	var st int
	var hdr http.Header
	var body []byte
	if hj {
		resp, err := http.ReadResponse(bufio.NewReader(bytes.NewReader(hjBytes)), req)
		if err != nil {
			return "res=ok " + w.describe(req, obs, tag, jv, jp) + " hj=1 st=0 ct=none wf=0 hv=1 tr=0 gs=na"
		}
		st, hdr = resp.StatusCode, resp.Header
		if st != 101 {
			body, _ = io.ReadAll(resp.Body)
		}
	} else {
		res := rec.Result()
		st, hdr = res.StatusCode, res.Header
		body = rec.Body.Bytes()
	}
	ct, wf, tr, gs := classifyBody(hdr, body, st)
	hv := 1
	for k, vv := range hdr {
		if !httpguts.ValidHeaderFieldName(k) {
			hv = 0
		}
		for _, v := range vv {
			if !httpguts.ValidHeaderFieldValue(v) {
				hv = 0
			}
		}
	}
	return strings.Join([]string{"res=ok", w.describe(req, obs, tag, jv, jp), kv("hj", b01(hj)), kv("st", st), kv("ct", ct),
		kv("wf", wf), kv("hv", hv), kv("tr", tr), kv("gs", gs)}, " ")
}

type errReader struct{ err error }

func (e errReader) Read([]byte) (int, error) { return 0, e.err }

func countHostHeaders(raw []byte) int {
	head := raw
	if i := bytes.Index(raw, []byte("\r\n\r\n")); i >= 0 {
		head = raw[:i]
	} else if i := bytes.Index(raw, []byte("\n\n")); i >= 0 {
		head = raw[:i]
	}
	n := 0
	for i, ln := range bytes.Split(head, []byte("\n")) {
		if i == 0 {
			continue
		}
		if len(ln) >= 5 && strings.EqualFold(string(ln[:5]), "host:") {
			n++
		}
	}
	return n
}

// describe prints the observed facts about the request and about what the real routers answered.
func (w *worker) describe(req *http.Request, o *observation, tag, jv, jp string) string {
	o.mu.Lock()
	defer o.mu.Unlock()
	rt := o.routerHit
	if rt == "" {
		rt = "none"
	}
	route := "none"
	if o.routerHit != "" {
		if o.routeOK {
			route = "ok"
		} else {
			route = "err" + strconv.Itoa(int(o.routeCode))
		}
	}
	bp := "none"
	switch o.body {
	case "":
	case "*":
		bp = "star"
	default:
		bp = "field"
	}
	hexList := func(name string) string {
		vs := req.Header.Values(name)
		if len(vs) == 0 {
			return "-"
		}
		out := make([]string, len(vs))
		for i, v := range vs {
			out[i] = common.HexS(v)
		}
		return strings.Join(out, ",")
	}
	to := len(req.Header.Values("Grpc-Timeout")) > 0
	vtag := tag
	if tag == "badparam" && !hasBadParamMarker(req.RequestURI) {
		vtag = "none" // the mutation destroyed the marker: the claim cannot be re-validated
	}
	if strings.HasPrefix(tag, "badparam@") {
		// systematic stream (params.go): exactly one malformed parameter, never mutated afterwards. Where the class
		// can be re-validated independently it is: an ill-formed-UTF-8 class must really carry ill-formed UTF-8.
		vtag = "badparam"
		if strings.Contains(tag, "/utf8-") {
			if un, err := url.PathUnescape(strings.ReplaceAll(req.RequestURI, "+", "%2B")); err != nil || utf8.ValidString(un) {
				vtag = "none"
			}
		}
	}
	if tag == "badjson" && jp != "0" {
		vtag = "none"
	}
	return strings.Join([]string{
		kv("tag", vtag), kv("jv", jv), kv("jp", jp),
		// every line of the headers WebBridge.ServeHTTP dispatches on (judged by the C19 model of the dispatch)
		kv("hc", hexList("Connection")), kv("hu", hexList("Upgrade")), kv("hp", hexList("Sec-WebSocket-Protocol")),
		kv("hct", hexList("Content-Type")), kv("to", b01(to)),
		kv("m", common.HexS(req.Method)),
		kv("rt", rt), kv("route", route), kv("cs", b01(o.cs)), kv("ss", b01(o.ss)), kv("bp", bp),
		kv("streams", o.streams),
	}, " ")
}

// classifyBody is the harness' independent decoder of the response body.
//
//	ct: json | text | grpcweb | none | other
//	wf: 1 when the body is well-formed for its declared content type
//	tr: number of gRPC-Web trailer frames (0x80); gs: grpc-status of the last trailer frame
func classifyBody(h http.Header, body []byte, st int) (ct string, wf int, tr int, gs string) {
	gs = "na"
	raw := h.Get("Content-Type")
	switch {
	case raw == "":
		ct = "none"
	case strings.HasPrefix(raw, "application/grpc-web"):
		ct = "grpcweb"
	case strings.HasPrefix(raw, "application/json"):
		ct = "json"
	case strings.HasPrefix(raw, "text/plain"):
		ct = "text"
	case strings.HasPrefix(raw, "text/event-stream"):
		ct = "sse"
	default:
		ct = "other"
	}
	switch ct {
	case "grpcweb":
		ok, ntr, last, status := decodeGRPCWeb(body)
		tr = ntr
		gs = status
		wf = b01(ok && last)
		if ok && ntr == 1 && !last {
			wf = 2 // every frame parses and there is one trailer frame, but message frames FOLLOW it
		}
	case "json", "sse":
		wf = b01(jsonStreamOK(body))
	case "text":
		// A plain-text (error) body has no structure to check. It may echo raw client bytes: when a status message
		// contains invalid UTF-8 the JSON error body cannot be produced and webbridge falls back to text/plain
		// (C10's clause); HTTP itself does not constrain the bytes of a body, so this is not judged here.
		wf = 1
	case "none":
		wf = b01(len(body) == 0 || st == 101)
	default:
		wf = 0
	}
	return
}

// jsonStreamOK: a single JSON value, newline-delimited JSON values, or SSE "data:<json>\n\n" events.
func jsonStreamOK(body []byte) bool {
	if len(body) == 0 {
		return false
	}
	if json.Valid(body) {
		return true
	}
	if bytes.HasPrefix(body, []byte("data:")) {
		if !bytes.HasSuffix(body, []byte("\n\n")) {
			return false
		}
		for _, ev := range bytes.Split(bytes.TrimSuffix(body, []byte("\n\n")), []byte("\n\n")) {
			if !bytes.HasPrefix(ev, []byte("data:")) || !json.Valid(ev[5:]) {
				return false
			}
		}
		return true
	}
	if !bytes.HasSuffix(body, []byte("\n")) {
		return false
	}
	dec := json.NewDecoder(bytes.NewReader(body))
	for {
		var v json.RawMessage
		err := dec.Decode(&v)
		if err == io.EOF {
			return true
		}
		if err != nil {
			return false
		}
	}
}

// decodeGRPCWeb parses a gRPC-Web body: frames = flag(1) len(4, big endian) payload.
// ok: the body is an exact sequence of frames with flags 0x00/0x80; last: the final frame is the
// only trailer frame; status: the grpc-status value of the trailer (or "na"/"bad").
func decodeGRPCWeb(body []byte) (ok bool, trailers int, last bool, status string) {
	status = "na"
	rest := body
	n := 0
	lastIsTrailer := false
	for len(rest) > 0 {
		if len(rest) < 5 {
			return false, trailers, false, status
		}
		flag := rest[0]
		l := int(binary.BigEndian.Uint32(rest[1:5]))
		if len(rest)-5 < l {
			return false, trailers, false, status
		}
		payload := rest[5 : 5+l]
		rest = rest[5+l:]
		n++
		switch flag {
		case 0x00:
			lastIsTrailer = false
		case 0x80:
			trailers++
			lastIsTrailer = true
			status = "bad"
			for _, ln := range strings.Split(string(payload), "\r\n") {
				k, v, found := strings.Cut(ln, ":")
				if found && strings.EqualFold(strings.TrimSpace(k), "grpc-status") {
					if c, err := strconv.Atoi(strings.TrimSpace(v)); err == nil && c >= 0 && c <= 16 {
						status = strconv.Itoa(c)
					}
				}
			}
		default:
			return false, trailers, false, status
		}
	}
	return true, trailers, lastIsTrailer && trailers == 1, status
}
