package c17

// Systematic parameter stream: EVERY parameter position the description offers × EVERY malformation class
// that is an invalid value for the kind at that position.  One request per (position, class) and round, with
// exactly one malformed parameter (everything else valid), tagged badparam@<position>/<class>; the judgement
// demands a 4xx.  The fake target marshals each forwarded message like a gRPC client connection does, so a
// malformed value that slips through parsing surfaces as the marshal-time 500 a real deployment would give.

import (
	"fmt"
	"math/rand"
	"sort"
	"strings"

	"verif/harness/common"
)

// paramMatrix counts emitted cases per "<position category>/<class>", paramFields per field path.
var (
	paramMatrix = map[string]int{}
	paramFields = map[string]int{}
)

// pct percent-encodes every byte that is not unreserved, so that a literal reaches the parser byte for byte
// both in a path segment and in a query component.
func pct(s string) string {
	var b strings.Builder
	for i := 0; i < len(s); i++ {
		c := s[i]
		if (c >= 'a' && c <= 'z') || (c >= 'A' && c <= 'Z') || (c >= '0' && c <= '9') || c == '-' || c == '_' || c == '.' || c == '~' {
			b.WriteByte(c)
		} else {
			fmt.Fprintf(&b, "%%%02X", c)
		}
	}
	return b.String()
}

// ill-formed UTF-8 of every flavour (RFC 3629): stray byte, overlong, surrogate, truncated, lone continuation,
// beyond U+10FFFF, embedded in otherwise valid text
var badUTF8 = map[string][]string{
	"utf8-stray":     {"\xff", "a\xffb", "\xfe\xff"},
	"utf8-overlong":  {"\xc0\xaf", "\xe0\x80\xaf", "x\xc1\x81"},
	"utf8-surrogate": {"\xed\xa0\x80", "\xed\xbf\xbf", "a\xed\xa0\x80\xed\xb0\x80"},
	"utf8-truncated": {"\xe2\x82", "abc\xf0\x9f\x98", "\xc3"},
	"utf8-contin":    {"\x80", "a\x80\x80"},
	"utf8-beyond":    {"\xf4\x90\x80\x80", "\xf8\x88\x80\x80\x80"},
}

var utf8Classes = []string{"utf8-stray", "utf8-overlong", "utf8-surrogate", "utf8-truncated", "utf8-contin", "utf8-beyond"}

var hugeDigits = strings.Repeat("9", 20000)

// badLiterals returns, for a parameter kind, the malformation classes that are INVALID values for it
// (a class that is a valid value for the kind — e.g. any text for a string — is not listed).
func badLiterals(kind string) map[string][]string {
	m := map[string][]string{}
	for _, c := range utf8Classes { // ill-formed UTF-8 is invalid for every kind
		m[c] = badUTF8[c]
	}
	switch kind {
	case "int", "wint":
		m["nonnumeric"] = []string{"abc", "1x", "0x10", "1e", "١٢", "1.5", "--1", " 1", "1_000"}
		m["range"] = []string{"9223372036854775808", "-9223372036854775809", "99999999999999999999"}
		m["empty"] = []string{""}
		m["huge"] = []string{hugeDigits, "-" + hugeDigits}
	case "uint", "wuint":
		m["nonnumeric"] = []string{"abc", "1x", "0x10", "+-1", "1.0", " 1"}
		m["range"] = []string{"-1", "18446744073709551616", "99999999999999999999"}
		m["empty"] = []string{""}
		m["huge"] = []string{hugeDigits}
	case "double", "wdouble":
		m["nonnumeric"] = []string{"abc", "1..2", "1e", "0x", "1,5", "--1", "nane"}
		m["range"] = []string{"1e999", "-1e999"}
		m["empty"] = []string{""}
		m["huge"] = []string{"1e" + hugeDigits}
	case "bool", "wbool":
		m["badbool"] = []string{"yes", "no", "2", "tru", "TRUE1", "on", "-1", "t r u e"}
		m["empty"] = []string{""}
		m["huge"] = []string{strings.Repeat("true", 5000)}
	case "enum":
		m["badenum"] = []string{"NOPE", "red", "Red", "RED ", "99", "-99", "1.0", "0x1", "RED,GREEN", "COLOR"}
		m["empty"] = []string{""}
		m["huge"] = []string{strings.Repeat("RED", 7000), hugeDigits}
	case "null":
		m["badenum"] = []string{"NOPE", "null", "1", "NULL"}
		m["empty"] = []string{""}
	case "bytes", "wbytes":
		m["badbase64"] = []string{"***", "A", "AA=A", "AAE", "=AAA", "AAAA=", "A A A A", "AAAA!"}
		m["huge"] = []string{strings.Repeat("A", 20001)}
	case "ts":
		m["badtime"] = []string{"yesterday", "2024-13-01T00:00:00Z", "2024-01-02", "2024-01-02T03:04:05", "1700000000", "2024-01-02 03:04:05Z", "2024-01-02T25:00:00Z"}
		m["empty"] = []string{""}
		m["huge"] = []string{"2024-01-02T03:04:05." + hugeDigits + "Z" + "x"}
	case "dur":
		m["badtime"] = []string{"forever", "1", "1.5", "1x", "s", "1 s", "1h2", "--1s"}
		m["range"] = []string{"99999999999999s", "1e30h"}
		m["empty"] = []string{""}
		m["huge"] = []string{hugeDigits + "s"}
	case "struct":
		m["badjson"] = []string{"{", "[]", "1", "{a:1}", "{\"a\":}", "nul"}
		m["empty"] = []string{""}
		m["utf8-quoted"] = []string{"{\"k\":\"\xff\"}", "{\"\xc0\xaf\":1}"}
	case "value":
		m["badjson"] = []string{"{", "[", "{a:1}", "nul", "\"unterminated", "1 2"}
		m["empty"] = []string{""}
		m["utf8-quoted"] = []string{"\"\xff\"", "[\"\xed\xa0\x80\"]"}
	case "string", "wstr", "fm":
		// only ill-formed UTF-8 is invalid
	default:
		return nil
	}
	return m
}

func classesOf(m map[string][]string) []string {
	cs := make([]string, 0, len(m))
	for c := range m {
		cs = append(cs, c)
	}
	sort.Strings(cs)
	return cs
}

func validFor(r *rand.Rand, kind string) string {
	switch kind {
	case "struct":
		return "{\"a\":1}"
	case "value":
		return common.Pick(r, []string{"1", "\"s\"", "[1]"})
	case "null":
		return "NULL_VALUE"
	case "wstr", "string", "fm":
		return common.Pick(r, []string{"abc", "a b", "é€", "x.y"})
	}
	v := validParam(r, kind)
	if strings.Contains(v, "%") { // validParam may hand out pre-escaped text
		return "abc"
	}
	return v
}

type queryPos struct {
	cat   string // position category for the histogram
	field string // field path as written in the query
	kind  string // kind of the malformed component
	// build returns the query text with `bad` (already percent-encoded) at the malformed position
	build func(r *rand.Rand, bad string) string
}

func queryPositions() []queryPos {
	var out []queryPos
	add := func(cat, field, kind string, build func(r *rand.Rand, bad string) string) {
		out = append(out, queryPos{cat, field, kind, build})
	}
	single := func(cat, name, kind string) {
		add(cat, name, kind, func(r *rand.Rand, bad string) string { return name + "=" + bad })
	}
	for _, f := range allFields {
		fi := fieldByName[f.name]
		switch {
		case fi.mp != nil:
			kk, vk := fi.mp[0], fi.mp[1]
			name := f.name
			if badLiterals(kk) != nil {
				add("query-mapkey", name, kk, func(r *rand.Rand, bad string) string {
					v := "x"
					if vk != "msg" {
						v = pct(validFor(r, vk))
					}
					return name + "[" + bad + "]=" + v
				})
				add("query-mapkey-json", jsonName(name), kk, func(r *rand.Rand, bad string) string {
					v := "x"
					if vk != "msg" {
						v = pct(validFor(r, vk))
					}
					return jsonName(name) + "[" + bad + "]=" + v
				})
			}
			if badLiterals(vk) != nil {
				add("query-mapval", name, vk, func(r *rand.Rand, bad string) string {
					return name + "[" + pct(validFor(r, kk)) + "]=" + bad
				})
			}
		case fi.rep:
			if badLiterals(fi.kind) == nil {
				continue
			}
			name, kind := f.name, fi.kind
			add("query-repeated", name, kind, func(r *rand.Rand, bad string) string {
				ok := name + "=" + pct(validFor(r, kind))
				switch r.Intn(3) {
				case 0:
					return name + "=" + bad + "&" + ok
				case 1:
					return ok + "&" + name + "=" + bad
				default:
					return ok + "&" + name + "=" + bad + "&" + ok
				}
			})
		default:
			if badLiterals(fi.kind) == nil {
				continue
			}
			cat := "query-singular"
			switch {
			case f.oneof:
				cat = "query-oneof"
			case f.opt3:
				cat = "query-optional"
			case strings.HasPrefix(f.name, "w_"):
				cat = "query-wkt"
			}
			single(cat, f.name, fi.kind)
			if jsonName(f.name) != f.name {
				single(cat+"-json", jsonName(f.name), fi.kind)
			}
		}
	}
	// nested field paths, proto and JSON spellings, and maps inside a nested message: a.b, a.b.c, a.b[c]
	for _, n := range []struct{ path, kind string }{
		{"f_nested.name", "string"}, {"f_nested.n", "int"}, {"f_nested.color", "enum"}, {"f_nested.child.n", "int"},
		{"f_nested.child.child.name", "string"}, {"o_nested.name", "string"}, {"o_nested.color", "enum"},
		{"fNested.name", "string"}, {"fNested.child.color", "enum"}, {"f_nested.child.name", "string"},
	} {
		single("query-nested", n.path, n.kind)
	}
	add("query-nested-repeated", "f_nested.tags", "string", func(r *rand.Rand, bad string) string {
		return "f_nested.tags=ok&f_nested.tags=" + bad
	})
	for _, m := range []struct{ path, kk, vk string }{
		{"f_nested.attrs", "string", "string"}, {"f_nested.counts", "int", "int"}, {"f_nested.child.attrs", "string", "string"}, {"fNested.attrs", "string", "string"},
	} {
		path, kk, vk := m.path, m.kk, m.vk
		add("query-nested-mapkey", path, kk, func(r *rand.Rand, bad string) string { return path + "[" + bad + "]=" + pct(validFor(r, vk)) })
		add("query-nested-mapval", path, vk, func(r *rand.Rand, bad string) string { return path + "[" + pct(validFor(r, kk)) + "]=" + bad })
	}
	return out
}

// kindOfPath resolves the kind of a (possibly nested) field path.
func kindOfPath(p string) (kind string, rep bool) {
	if fi, ok := fieldByName[p]; ok && fi.kind != "" {
		return fi.kind, fi.rep
	}
	last := p[strings.LastIndex(p, ".")+1:]
	switch last {
	case "name":
		return "string", false
	case "n":
		return "int", false
	case "color":
		return "enum", false
	case "tags":
		return "string", true
	}
	return "", false
}

func genParams(r *rand.Rand, scale int, emit func(string)) {
	rounds := scale
	emitOne := func(cat, field, cls, method, target string) {
		p := reqParts{method: method, target: target, headers: []string{"Host: c17.test"}}
		emit("http badparam@" + cat + "/" + cls + " " + randScript(r) + " " + common.HexS(p.raw()))
		paramMatrix[cat+"/"+cls]++
		paramFields[field]++
		count("http-param-matrix")
	}
	// hosts of a query parameter: routes whose query is parsed and on which the field is not shadowed
	queryHosts := []string{"/v1/get", "/v1/stream/abc", "/v1/get/abc"}
	qps := queryPositions()
	for round := 0; round < rounds; round++ {
		// ---- query parameters
		for _, qp := range qps {
			lits := badLiterals(qp.kind)
			for _, cls := range classesOf(lits) {
				bad := pct(common.Pick(r, lits[cls]))
				host := common.Pick(r, queryHosts)
				if strings.HasPrefix(qp.field, "f_string") || strings.HasPrefix(qp.field, "fString") {
					host = "/v1/get" // the other hosts bind f_string in the path, which filters it out of the query
				}
				q := qp.build(r, bad)
				if r.Intn(3) == 0 { // surrounded by valid parameters
					q = "f_sfixed32=1&" + q + "&r_uint64=2"
				}
				emitOne(qp.cat, qp.field, cls, "GET", host+"?"+q)
			}
		}
		// ---- path variables: one binding per field (PathVars method)
		for _, f := range pathVarFields() {
			kind, rep := kindOfPath(f)
			lits := badLiterals(kind)
			cat := "path-singular"
			switch {
			case strings.Contains(f, "."):
				cat = "path-nested"
			case rep:
				cat = "path-repeated"
			case strings.HasPrefix(f, "w_"):
				cat = "path-wkt"
			case strings.HasPrefix(f, "o_"):
				cat = "path-oneof"
			}
			for _, cls := range classesOf(lits) {
				if cls == "empty" {
					continue // an empty path segment is a routing matter (C03), not a parameter value
				}
				bad := pct(common.Pick(r, lits[cls]))
				emitOne(cat, f, cls, "GET", "/v1/pv/"+pvLabel(f)+"/"+bad)
			}
		}
		// ---- multi-segment, prefixed and verb-carrying path variables, and the pre-existing typed shapes
		type pshape struct{ cat, field, kind, pre, post, method string }
		for _, s := range []pshape{
			{"path-multiseg", "f_int32", "int", "/v1/pvm/f_int32/x/", "", "GET"},
			{"path-multiseg", "w_string", "wstr", "/v1/pvm/w_string/a/", "/c", "GET"},
			{"path-multiseg", "w_string", "wstr", "/v1/pvm/w_string/", "", "GET"},
			{"path-multiseg-verb", "f_nested.name", "string", "/v1/pvm/nested/n/a/", ":get", "GET"},
			{"path-multiseg", "f_string", "string", "/v1/files/a/", "/b", "GET"},
			{"path-multiseg-verb", "f_string", "string", "/v1/multi/a/", ":fetch", "GET"},
			{"path-verb", "f_string", "string", "/v1/verb/", ":check", "GET"},
			{"path-two", "f_nested.n", "int", "/v1/pvm/two/", "/ok", "GET"},
			{"path-two", "o_nested.name", "string", "/v1/pvm/two/5/", "", "GET"},
			{"path-template", "f_nested.name", "string", "/v1/shelves/", "/books/7", "GET"},
			{"path-template", "f_int64", "int", "/v1/shelves/s/books/", "", "GET"},
			{"path-custom-method", "f_bool", "bool", "/v1/custom/", "", "LINK"},
			{"path-delete", "f_uint64", "uint", "/v1/all/", "", "DELETE"},
			{"path-with-query", "f_int32", "int", "/v1/streamresp/", "?f_int64=1", "GET"},
		} {
			lits := badLiterals(s.kind)
			for _, cls := range classesOf(lits) {
				if cls == "empty" {
					continue
				}
				bad := pct(common.Pick(r, lits[cls]))
				emitOne(s.cat, s.field, cls, s.method, s.pre+bad+s.post)
			}
		}
	}
}
