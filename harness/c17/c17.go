// Package c17 is the correspondence area of property C17: arbitrary client bytes against a real
// grpcbridge.WebBridge (fuzz correspondence) plus differential ops for the small client-facing cores.
package c17

import (
	"math/rand"
)

type Area struct{}

func (Area) Name() string { return "c17" }

// Exec forwards the case to the worker subprocess (see worker.go); it is a pure function of the line.
func (Area) Exec(input string) string { return parentExec(input) }

func (Area) Gen(r *rand.Rand, tier string, emit func(string)) { gen(r, tier, emit) }

func (Area) Extra() map[string]any {
	return map[string]any{"workers_started": nWorkers, "worker_crashes": nCrashes, "hangs": nHangs, "generator": genStats,
		// parameter position category x malformation class -> emitted badparam cases (each must be answered 4xx)
		"param_position_x_class": paramMatrix, "param_fields": paramFields}
}
