// Package c17 is the correspondence area of property C17 (stub: the slice is not built yet).
package c17

import (
	"math/rand"
)

type Area struct{}

func (Area) Name() string { return "c17" }

func (Area) Exec(input string) string { return "UNIMPLEMENTED" }

func (Area) Gen(r *rand.Rand, tier string, emit func(string)) {}
