package c17

// Generator: structured mostly-valid requests derived from the description (valid JSON bodies for
// the method, valid path/query parameters), then mutations of every client-controlled position,
// plus a fully random stream; socket sessions; inputs of the differential core ops.
// The generator tags what it deliberately broke (badjson | badparam | none); Exec re-validates the tag.

import (
	"encoding/base64"
	"encoding/binary"
	"encoding/hex"
	"fmt"
	"math/rand"
	"regexp"
	"strings"

	"verif/harness/common"
)

var genStats = map[string]int{}

func count(k string) { genStats[k]++ }

type fieldInfo struct {
	name string
	kind string // int uint bool enum double string bytes msg ts dur wint wstr fm struct value list any empty null
	rep  bool
	mp   *[2]string // map key kind, value kind
}

func kindOf(f fieldSpec) string {
	if f.tname != "" {
		switch f.tname {
		case ".c17.Color":
			return "enum"
		case ".c17.Nested":
			return "msg"
		case ".google.protobuf.Timestamp":
			return "ts"
		case ".google.protobuf.Duration":
			return "dur"
		case ".google.protobuf.FieldMask":
			return "fm"
		case ".google.protobuf.Struct":
			return "struct"
		case ".google.protobuf.Value":
			return "value"
		case ".google.protobuf.ListValue":
			return "list"
		case ".google.protobuf.Any":
			return "any"
		case ".google.protobuf.Empty":
			return "empty"
		case ".google.protobuf.NullValue":
			return "null"
		case ".google.protobuf.StringValue":
			return "wstr"
		case ".google.protobuf.BytesValue":
			return "wbytes"
		case ".google.protobuf.BoolValue":
			return "wbool"
		case ".google.protobuf.DoubleValue", ".google.protobuf.FloatValue":
			return "wdouble"
		case ".google.protobuf.UInt64Value", ".google.protobuf.UInt32Value":
			return "wuint"
		default:
			return "wint"
		}
	}
	return scalarKind(f.typ)
}

func scalarKind(t interface{ String() string }) string {
	switch t.String() {
	case "TYPE_DOUBLE", "TYPE_FLOAT":
		return "double"
	case "TYPE_INT32", "TYPE_INT64", "TYPE_SINT32", "TYPE_SINT64", "TYPE_SFIXED32", "TYPE_SFIXED64":
		return "int"
	case "TYPE_UINT32", "TYPE_UINT64", "TYPE_FIXED32", "TYPE_FIXED64":
		return "uint"
	case "TYPE_BOOL":
		return "bool"
	case "TYPE_STRING":
		return "string"
	case "TYPE_BYTES":
		return "bytes"
	case "TYPE_ENUM":
		return "enum"
	case "TYPE_MESSAGE":
		return "msg"
	}
	return "string"
}

var fieldByName = func() map[string]fieldInfo {
	m := map[string]fieldInfo{}
	for _, f := range allFields {
		fi := fieldInfo{name: f.name, rep: f.rep}
		if f.mapKey != 0 {
			vk := scalarKind(f.mapVal)
			if f.mapVT == ".c17.Color" {
				vk = "enum"
			}
			fi.mp = &[2]string{scalarKind(f.mapKey), vk}
			fi.kind = "map"
		} else {
			fi.kind = kindOf(f)
		}
		m[f.name] = fi
	}
	m["f_nested.name"] = fieldInfo{name: "f_nested.name", kind: "string"}
	m["f_nested.color"] = fieldInfo{name: "f_nested.color", kind: "enum"}
	m["f_nested.child"] = fieldInfo{name: "f_nested.child", kind: "msg"}
	m["f_nested.tags"] = fieldInfo{name: "f_nested.tags", kind: "string", rep: true}
	m["f_nested.n"] = fieldInfo{name: "f_nested.n", kind: "int"}
	m["f_nested.child.n"] = fieldInfo{name: "f_nested.child.n", kind: "int"}
	m["f_nested.child.child.name"] = fieldInfo{name: "f_nested.child.child.name", kind: "string"}
	m["o_nested.name"] = fieldInfo{name: "o_nested.name", kind: "string"}
	m["o_nested.color"] = fieldInfo{name: "o_nested.color", kind: "enum"}
	return m
}()

// ---- valid values ----

func validParam(r *rand.Rand, kind string) string {
	switch kind {
	case "int", "wint":
		return common.Pick(r, []string{"0", "-12", "7", "2147483647", "-2147483648"})
	case "uint", "wuint":
		return common.Pick(r, []string{"0", "7", "4294967295"})
	case "bool", "wbool":
		return common.Pick(r, []string{"true", "false", "1", "0", "T"})
	case "enum":
		return common.Pick(r, []string{"RED", "GREEN", "5", "0", "NEG"})
	case "double", "wdouble":
		return common.Pick(r, []string{"1.5", "-0", "1e3", "NaN", "Inf", "3"})
	case "bytes", "wbytes":
		return common.Pick(r, []string{"AAEC", "", "_-8=", "QQ=="})
	case "ts":
		return "2024-01-02T03:04:05Z"
	case "dur":
		return common.Pick(r, []string{"1.5s", "3h", "-2ms"})
	case "fm":
		return "a,b.c"
	case "null":
		return "NULL_VALUE"
	case "struct":
		return "%7B%22a%22%3A1%7D"
	case "value":
		return common.Pick(r, []string{"1", "%22s%22", "true"})
	default:
		return common.Pick(r, []string{"abc", "a%20b", "x-y_z.~", "%E2%82%AC", "0"})
	}
}

func jsonValue(r *rand.Rand, kind string, depth int) string {
	switch kind {
	case "int":
		return common.Pick(r, []string{"0", "-12", "7", "\"15\"", "2147483647"})
	case "uint":
		return common.Pick(r, []string{"0", "7", "\"9\"", "4294967295"})
	case "bool":
		return common.Pick(r, []string{"true", "false"})
	case "enum":
		return common.Pick(r, []string{"\"RED\"", "\"GREEN\"", "5", "0", "\"NEG\"", "2"})
	case "double":
		return common.Pick(r, []string{"1.5", "-0.0", "1e3", "\"NaN\"", "\"Infinity\"", "3", "\"-Infinity\""})
	case "string":
		return common.Pick(r, []string{"\"abc\"", "\"\"", "\"a\\u00e9\\n\\\"q\\\"\"", "\"€\""})
	case "bytes":
		return common.Pick(r, []string{"\"AAEC\"", "\"\"", "\"QQ==\""})
	case "msg":
		if depth > 2 {
			return "{}"
		}
		return fmt.Sprintf("{\"name\":%s,\"n\":%s,\"color\":%s,\"child\":%s,\"tags\":[%s]}", jsonValue(r, "string", depth+1),
			jsonValue(r, "int", depth+1), jsonValue(r, "enum", depth+1), jsonValue(r, "msg", depth+2), jsonValue(r, "string", depth+1))
	case "ts":
		return "\"2024-01-02T03:04:05.5Z\""
	case "dur":
		return "\"1.5s\""
	case "fm":
		return "\"a,b.c\""
	case "struct":
		return "{\"k\":[1,\"s\",null,{\"x\":true}]}"
	case "value":
		return common.Pick(r, []string{"1", "\"s\"", "null", "[1,2]", "{\"a\":{}}", "true"})
	case "list":
		return "[1,\"a\",null,[],{}]"
	case "any":
		return "{\"@type\":\"type.googleapis.com/c17.Nested\",\"name\":\"x\"}"
	case "empty":
		return "{}"
	case "null":
		return "null"
	case "wstr":
		return "\"w\""
	case "wbytes":
		return "\"AAEC\""
	case "wbool":
		return "true"
	case "wdouble":
		return "2.5"
	case "wint":
		return common.Pick(r, []string{"-5", "\"6\""})
	case "wuint":
		return common.Pick(r, []string{"5", "\"6\""})
	}
	return "null"
}

func mapKeyJSON(r *rand.Rand, kind string) string {
	switch kind {
	case "int":
		return common.Pick(r, []string{"\"-3\"", "\"0\"", "\"12\""})
	case "uint":
		return common.Pick(r, []string{"\"3\"", "\"0\""})
	case "bool":
		return common.Pick(r, []string{"\"true\"", "\"false\""})
	}
	return common.Pick(r, []string{"\"k\"", "\"\"", "\"a b\"", "\"é\""})
}

func jsonForField(r *rand.Rand, fi fieldInfo) string {
	switch {
	case fi.mp != nil:
		n := r.Intn(3)
		var parts []string
		for i := 0; i < n; i++ {
			parts = append(parts, mapKeyJSON(r, fi.mp[0])+":"+jsonValue(r, fi.mp[1], 1))
		}
		return "{" + strings.Join(parts, ",") + "}"
	case fi.rep:
		n := r.Intn(4)
		var parts []string
		for i := 0; i < n; i++ {
			parts = append(parts, jsonValue(r, fi.kind, 1))
		}
		return "[" + strings.Join(parts, ",") + "]"
	}
	return jsonValue(r, fi.kind, 0)
}

func jsonName(f string) string { return lowerFirst(camel(f)) }

func jsonForAll(r *rand.Rand) string {
	n := r.Intn(6)
	var parts []string
	seenOneof := false
	for i := 0; i < n; i++ {
		f := allFields[r.Intn(len(allFields))]
		if f.oneof {
			if seenOneof {
				continue
			}
			seenOneof = true
		}
		name := f.name
		if r.Intn(2) == 0 {
			name = jsonName(f.name)
		}
		parts = append(parts, fmt.Sprintf("%q:%s", name, jsonForField(r, fieldByName[f.name])))
	}
	return "{" + strings.Join(parts, ",") + "}"
}

// ---- paths ----

var varRe = regexp.MustCompile(`\{([a-z_0-9.]+)(=([^}]*))?\}`)

// fillPattern instantiates a binding pattern; bad != "" replaces one TYPED variable with that literal.
func fillPattern(r *rand.Rand, pattern string, bad string) (path string, typedVars int, usedBad bool) {
	vars := varRe.FindAllStringSubmatch(pattern, -1)
	typed := []int{}
	for i, v := range vars {
		k := fieldByName[v[1]].kind
		if k != "string" && k != "wstr" && k != "fm" && k != "" { // text kinds accept any marker literal
			typed = append(typed, i)
		}
	}
	badIdx := -1
	if bad != "" && len(typed) > 0 {
		badIdx = typed[r.Intn(len(typed))]
	}
	i := -1
	path = varRe.ReplaceAllStringFunc(pattern, func(m string) string {
		i++
		sm := varRe.FindStringSubmatch(m)
		fi := fieldByName[sm[1]]
		val := validParam(r, fi.kind)
		if i == badIdx {
			val = bad
			usedBad = true
		}
		if strings.ContainsAny(val, "/") {
			val = strings.ReplaceAll(val, "/", "%2F")
		}
		tmpl := sm[3]
		switch {
		case tmpl == "" || tmpl == "*":
			if val == "" {
				val = "e"
			}
			return val
		case tmpl == "**":
			return val + "/b/c"
		default:
			t := strings.Replace(tmpl, "**", val+"/y", 1)
			if val == "" {
				val = "e"
			}
			return strings.Replace(t, "*", val, 1)
		}
	})
	return path, len(typed), usedBad
}

var queryFields = []string{"f_int32", "f_int64", "f_uint32", "f_uint64", "f_bool", "f_double", "f_float", "f_string", "f_bytes",
	"f_sint32", "f_fixed64", "r_int32", "r_string", "r_bool", "w_ts", "w_dur", "w_int64", "w_bool", "w_string", "w_fm", "p_int32",
	"o_int32", "o_string", "f_nested.name", "f_nested.n"}

func validQuery(r *rand.Rand, b bindingSpec, pathVars string) string {
	var parts []string
	n := r.Intn(4)
	for i := 0; i < n; i++ {
		f := queryFields[r.Intn(len(queryFields))]
		if strings.Contains(pathVars, "{"+f) || b.Body == f || strings.HasPrefix(f, b.Body+".") {
			continue
		}
		name := f
		if r.Intn(3) == 0 && !strings.Contains(f, ".") {
			name = jsonName(f)
		}
		parts = append(parts, name+"="+validParam(r, fieldByName[f].kind))
	}
	if r.Intn(6) == 0 {
		parts = append(parts, common.Pick(r, []string{"m_ss[k]=v", "m_is[3]=x", "m_bi[true]=4", "unknown=1", "_metadata[x-a]=b", "r_int32=1&r_int32=2"}))
	}
	return strings.Join(parts, "&")
}

// ---- request assembly ----

type reqParts struct {
	method, target string
	headers        []string
	body           string
}

func (p reqParts) raw() string {
	var b strings.Builder
	b.WriteString(p.method + " " + p.target + " HTTP/1.1\r\n")
	for _, h := range p.headers {
		b.WriteString(h + "\r\n")
	}
	b.WriteString("\r\n")
	b.WriteString(p.body)
	return b.String()
}

func withBody(p reqParts, body string, ct string) reqParts {
	p.body = body
	hs := []string{}
	for _, h := range p.headers {
		l := strings.ToLower(h)
		if strings.HasPrefix(l, "content-length:") || (ct != "-" && strings.HasPrefix(l, "content-type:")) {
			continue
		}
		hs = append(hs, h)
	}
	if ct != "" && ct != "-" {
		hs = append(hs, "Content-Type: "+ct)
	}
	hs = append(hs, fmt.Sprintf("Content-Length: %d", len(body)))
	p.headers = hs
	return p
}

func randScript(r *rand.Rand) string {
	code := 0
	if r.Intn(4) == 0 {
		code = common.Pick(r, []int{3, 5, 13, 14, 2, 16, 7, 12, 4, 1, 9, 8})
	}
	n := common.Pick(r, []int{1, 1, 1, 0, 2, 3})
	return fmt.Sprintf("n%dc%dw%d", n, code, r.Intn(2))
}

func validBody(r *rand.Rand, b bindingSpec) string {
	switch b.Body {
	case "":
		return ""
	case "*":
		return jsonForAll(r)
	default:
		return jsonForField(r, fieldByName[b.Body])
	}
}

func validRequest(r *rand.Rand, b bindingSpec) reqParts {
	path, _, _ := fillPattern(r, b.Pattern, "")
	target := path
	if b.Body != "*" {
		if q := validQuery(r, b, b.Pattern); q != "" {
			target += "?" + q
		}
	}
	p := reqParts{method: b.HTTP, target: target, headers: []string{"Host: c17.test"}}
	ct := common.Pick(r, []string{"application/json", "application/json", "", "application/json; charset=utf-8"})
	if b.Body != "" {
		p = withBody(p, validBody(r, b), ct)
	} else if r.Intn(4) == 0 {
		p = withBody(p, "", ct)
	}
	if b.SS && r.Intn(4) == 0 {
		p.headers = append(p.headers, "Accept: text/event-stream")
	}
	return p
}

// ---- mutations ----

func breakJSON(r *rand.Rand, s string) string {
	if s == "" {
		s = "{}"
	}
	switch r.Intn(9) {
	case 0:
		if len(s) > 1 { // truncate inside the first value
			return s[:1+r.Intn(len(s)-1)]
		}
		return "{"
	case 1:
		return "}" + s
	case 2:
		return "{\"a\":\"\\x41\"}"
	case 3:
		return "{a:1}"
	case 4:
		return "nul"
	case 5:
		return "{\"a\":1,}"
	case 6:
		return "[1 2]"
	case 7:
		return "\"unterminated"
	default:
		return "\x00" + s
	}
}

var oddJSON = []string{
	"null", "[]", "{}", "0", "\"\"", "true", "1e400", "-1e400", "123456789012345678901234567890", "1.0000000000000000000000001",
	"{\"fInt32\":1,\"fInt32\":2}", "{\"fInt32\":\"abc\"}", "{\"fInt32\":1.5}", "{\"fInt32\":{}}", "{\"fInt32\":[]}", "{\"fInt32\":null}",
	"{\"fEnum\":\"NOPE\"}", "{\"rEnum\":[\"RED\",\"NOPE\",null]}", "{\"mUe\":{\"1\":\"NOPE\"}}", "{\"fNested\":{\"color\":\"NOPE\"}}", "{\"oEnum\":\"NOPE\"}",
	"{\"fEnum\":99999999999}", "{\"fEnum\":-1}", "{\"fEnum\":true}", "{\"fEnum\":1.5}", "{\"fBytes\":\"***\"}", "{\"fBytes\":\"A\"}", "{\"fString\":\"\\ud800\"}",
	"{\"fString\":\"\xff\xfe\"}", "{\"mBi\":{\"maybe\":1}}", "{\"mIs\":{\"x\":\"y\"}}", "{\"mSs\":{\"a\":null}}", "{\"mSn\":{\"a\":null}}", "{\"rNested\":[null]}",
	"{\"wTs\":\"yesterday\"}", "{\"wTs\":\"0000-01-01T00:00:00Z\"}", "{\"wDur\":\"1\"}", "{\"wDur\":\"99999999999999s\"}", "{\"wFm\":\"a,,b\"}", "{\"wAny\":{\"@type\":\"nope\"}}",
	"{\"wAny\":{}}", "{\"wAny\":{\"@type\":\"type.googleapis.com/c17.All\",\"fEnum\":\"NOPE\"}}", "{\"wValue\":NaN}", "{\"wStruct\":[]}", "{\"wList\":{}}", "{\"wInt64\":\"x\"}",
	"{\"wNull\":\"NOPE\"}", "{\"wNull\":null}", "{\"wNull\":1}", "{\"oString\":\"a\",\"oInt32\":1}", "{\"pInt32\":null}", "{\"unknownField\":{\"deep\":[1,2,3]}}",
	"{\"fDouble\":\"abc\"}", "{\"fDouble\":\"1e999\"}", "{\"fFloat\":1e300}", "{\"fUint32\":-1}", "{\"fUint64\":\"18446744073709551616\"}", "{\"fBool\":\"true\"}", "{\"fBool\":1}",
	"\"NOPE\"", "[\"NOPE\"]", "{\"1\":\"NOPE\"}", "[\"RED\",5,\"NOPE\",null]", "{\"x\":1}", "[[1]]", "[null]", "{\"\":\"\"}", "\"\\u0000\"",
	" ", "\n", "{} {}", "{}garbage", "\ufeff{}",
}

func deepJSON(r *rand.Rand) string {
	d := common.Pick(r, []int{50, 500, 5000, 20000})
	switch r.Intn(4) {
	case 0:
		return strings.Repeat("[", d) + strings.Repeat("]", d)
	case 1:
		return "{\"wValue\":" + strings.Repeat("[", d) + strings.Repeat("]", d) + "}"
	case 2:
		return "{\"fNested\":" + strings.Repeat("{\"child\":", d) + "{}" + strings.Repeat("}", d) + "}"
	default:
		return "{\"wStruct\":" + strings.Repeat("{\"a\":", d) + "1" + strings.Repeat("}", d) + "}"
	}
}

var oddPathBits = []string{"%00", "%2F", "%2f", "%zz", "%", "%C3%28", "%25", "%3A", "%3F", "%23", "%7B", "%20", "+", "//", "/", "/.", "/..", ":", ":fetch", ":check", "a:check",
	":fetch:fetch", ";", "?", "??", "#", "{", "}", "*", "**", "=", "é", "\xff", "%E0%80%80", "%ff", "%0a%0d", "~", "!$&'()*+,;=", "\\", "|", "^", "`", "\"", "<", ">", "[", "]"}

func mutatePath(r *rand.Rand, t string) string {
	path, query, hasQ := strings.Cut(t, "?")
	bit := common.Pick(r, oddPathBits)
	switch r.Intn(7) {
	case 0:
		path += bit
	case 1:
		i := r.Intn(len(path) + 1)
		path = path[:i] + bit + path[i:]
	case 2:
		segs := strings.Split(path, "/")
		segs[r.Intn(len(segs))] = bit
		path = strings.Join(segs, "/")
	case 3:
		path = strings.TrimPrefix(path, "/")
	case 4:
		path = path + "/"
	case 5:
		if len(path) > 1 {
			path = path[:1+r.Intn(len(path)-1)]
		}
	default:
		path = strings.Replace(path, "/", "//", 1+r.Intn(2))
	}
	if hasQ {
		return path + "?" + query
	}
	return path
}

var oddQueries = []string{"f_int32", "f_int32=", "=1", "&&&", "f_int32=1&f_int32=2", "f_nested=1", "f_nested.=1", ".=1", "f_nested..name=1", "f_nested.child.child.child.n=1",
	"r_nested=1", "r_nested.name=1", "m_ss=1", "m_ss[]=1", "m_ss[a][b]=1", "m_sn[a]=1", "m_ue[1]=RED", "m_bi[x]=1", "[a]=1", "x[=1", "x]=1", "f_string=%zz", "f_string=%ff", "%zz=1", "f_string;x=1",
	"o_string=a&o_int32=1", "w_any=1", "w_struct={}", "w_struct={", "w_value=1", "w_value=[", "w_list=[1]", "w_empty=1", "w_ts=now", "w_dur=forever", "w_fm=a,,b", "w_null=NULL_VALUE", "w_null=x",
	"f_enum=RED", "f_enum=1", "f_enum=NOPE", "f_enum=99", "r_enum=RED", "p_enum=RED", "f_bytes=***", "f_bytes=A", "f_double=1e999", "f_float=1e300", "f_int32=2147483648", "f_uint32=-1",
	"f_bool=maybe", "fInt32=1&f_int32=2", "F_INT32=1", "_metadata[a]=b", "_metadata[]=b", "_metadata[=b", "_metadata]=b", "_metadata[a b]=c", "_metadata[a]=%00", "_metadata[é]=1", "_metadata[a][b]=c",
	"_metadata[grpc-timeout]=1n", "_metadata[A]=B&_metadata[a]=c", "f_string=" + strings.Repeat("a", 5000)}

var oddHeaders = []string{
	"Content-Type: text/plain", "Content-Type: application/json; charset=utf-8", "Content-Type: APPLICATION/JSON", "Content-Type: application/json;;;", "Content-Type: ",
	"Content-Type: application/x-www-form-urlencoded", "Content-Type: application/grpc", "Content-Type: application/grpc-web", "Content-Type: application/grpc-web+proto",
	"Content-Type: application/grpc-web-text", "Content-Type: application/grpc-webx", "Content-Type: application/json\r\nContent-Type: text/plain", "Content-Type: text/plain\r\nContent-Type: application/json",
	"Accept: text/event-stream", "Accept: application/json", "Accept: */*", "Accept: text/html", "Accept: ", "Accept: application/json\r\nAccept: text/event-stream", "Accept: TEXT/EVENT-STREAM",
	"grpc-timeout: 1n", "grpc-timeout: 0S", "grpc-timeout: 99999999H", "grpc-timeout: -1S", "grpc-timeout: abc", "grpc-timeout: ", "grpc-timeout: 1S\r\ngrpc-timeout: 1n", "Grpc-Timeout: 100m",
	"Connection: Upgrade", "Connection: upgrade", "Connection: keep-alive, Upgrade", "Connection: close", "Upgrade: websocket", "Upgrade: WebSocket", "Upgrade: h2c",
	"Connection: Upgrade\r\nUpgrade: websocket", "Connection: UPGRADE\r\nUpgrade: WEBSOCKET", "Connection: Upgrade\r\nUpgrade: websocket\r\nSec-WebSocket-Version: 13\r\nSec-WebSocket-Key: AAAAAAAAAAAAAAAAAAAAAA==",
	"Connection: Upgrade\r\nUpgrade: websocket\r\nSec-WebSocket-Version: 13\r\nSec-WebSocket-Key: AAAAAAAAAAAAAAAAAAAAAA==\r\nSec-WebSocket-Protocol: grpc-websockets",
	"Connection: Upgrade\r\nUpgrade: websocket\r\nSec-WebSocket-Version: 8\r\nSec-WebSocket-Key: x", "Connection: Upgrade\r\nUpgrade: websocket\r\nSec-WebSocket-Version: 13",
	"Connection: Upgrade\r\nUpgrade: websocket\r\nSec-WebSocket-Version: 13\r\nSec-WebSocket-Key: AAAAAAAAAAAAAAAAAAAAAA==\r\nSec-WebSocket-Protocol: foo, grpc-websockets",
	"Connection: Upgrade\r\nUpgrade: websocket\r\nSec-WebSocket-Version: 13\r\nSec-WebSocket-Key: AAAAAAAAAAAAAAAAAAAAAA==\r\nSec-WebSocket-Protocol: foo",
	"Connection: Upgrade\r\nUpgrade: websocket\r\nSec-WebSocket-Version: 13\r\nSec-WebSocket-Key: AAAAAAAAAAAAAAAAAAAAAA==\r\nSec-WebSocket-Extensions: permessage-deflate; client_max_window_bits",
	"Transfer-Encoding: chunked", "Expect: 100-continue", "X-Http-Method-Override: DELETE", "X-Forwarded-For: 1.2.3.4", "Authorization: Bearer x", "Grpc-Metadata-Foo: bar",
	"Foo-Bin: !!!", "Cookie: a=b", "Te: trailers", "Content-Encoding: gzip", "X-Empty:", "X-Long: " + strings.Repeat("v", 9000), "X-Utf8: \xc3\xa9", "X-Bad: \xff",
}

// ---- gRPC-Web frames ----

func frame(flag byte, payload []byte) []byte {
	h := []byte{flag, 0, 0, 0, 0}
	binary.BigEndian.PutUint32(h[1:], uint32(len(payload)))
	return append(h, payload...)
}

var protoPayloads = [][]byte{
	{}, {0x72, 0x02, 'h', 'i'}, {0x18, 0x07}, {0x8a, 0x01, 0x02, 0x0a, 0x00}, {0xff}, {0x72, 0x05, 'h'}, {0x0b}, {0x00},
	{0x72, 0x02, 0xff, 0xfe}, {0x80, 0x01, 0x63}, {0x18, 0xff, 0xff, 0xff, 0xff, 0xff, 0xff, 0xff, 0xff, 0xff, 0x01},
}

func grpcWebBody(r *rand.Rand) []byte {
	switch r.Intn(12) {
	case 0:
		return nil
	case 1:
		return frame(0, common.Pick(r, protoPayloads))
	case 2:
		return append(frame(0, common.Pick(r, protoPayloads)), frame(0, common.Pick(r, protoPayloads))...)
	case 3: // length larger than the body
		b := frame(0, common.Pick(r, protoPayloads))
		binary.BigEndian.PutUint32(b[1:], uint32(len(b)+r.Intn(100)))
		return b
	case 4: // huge declared length
		return []byte{0, 0xff, 0xff, 0xff, 0xff, 1, 2, 3}
	case 5: // odd flags
		return frame(common.Pick(r, []byte{0x80, 0x01, 0xff, 0x81, 0x7f}), common.Pick(r, protoPayloads))
	case 6: // trailing bytes
		return append(frame(0, common.Pick(r, protoPayloads)), common.RandBytes(r, 1+r.Intn(4), nil)...)
	case 7: // short header
		return common.RandBytes(r, 1+r.Intn(4), nil)
	case 8: // client-sent trailer frame
		return append(frame(0, common.Pick(r, protoPayloads)), frame(0x80, []byte("grpc-status: 0\r\n"))...)
	case 9: // grpc-web-text style payload
		return []byte(base64.StdEncoding.EncodeToString(frame(0, common.Pick(r, protoPayloads))))
	case 10: // zero-length frames
		return append(frame(0, nil), frame(0, nil)...)
	default:
		return common.RandBytes(r, r.Intn(40), nil)
	}
}

var grpcPaths = []string{"/c17.Svc/Unary", "/c17.Svc/Bidi", "/c17.Svc/ServerStream", "/c17.Svc/ClientStream", "/c17.Svc/NoBinding", "/c17.Bare/Call", "/c17.Bare/Stream",
	"/c17.Svc/Nope", "/c17.Svc/", "/c17.Svc", "/nope.Svc/M", "/", "//", "/c17.Svc/Unary/extra", "c17.Svc/Unary", "/c17.Svc%2FUnary", "/c17.Svc/Un%61ry", "/c17.Svc/Unary?x=1", "/%zz/M", "/c17.Svc/\xff"}

// ---- emitters ----

func emitHTTP(emit func(string), tag, scr string, raw string) {
	emit("http " + tag + " " + scr + " " + common.HexS(raw))
}

func wsLine(tag, scr, target, extra, end string, frames []string) string {
	return strings.TrimSpace("ws " + tag + " " + scr + " " + common.HexS(target) + " " + common.HexS(extra) + " " + end + " " + strings.Join(frames, " "))
}

func fr(kind byte, payload []byte) string { return string(kind) + hex.EncodeToString(payload) }

func gen(r *rand.Rand, tier string, emit func(string)) {
	buildFile() // fills `bindings`
	scale := 1
	if tier == "thorough" {
		scale = 25
	}
	genCores(r, scale, emit)
	genTCP(emit)
	genParams(r, scale, emit)
	genHTTP(r, scale, emit)
	genWS(r, scale, emit)
}

func genHTTP(r *rand.Rand, scale int, emit func(string)) {
	// 1. every binding, valid
	for round := 0; round < 3*scale; round++ {
		for _, b := range bindings {
			emitHTTP(emit, "none", randScript(r), validRequest(r, b).raw())
			count("http-valid")
		}
	}
	// 2. every odd JSON document against every body shape
	bodyBindings := []bindingSpec{}
	for _, b := range bindings {
		if b.Body != "" && b.HTTP != "GET" {
			bodyBindings = append(bodyBindings, b)
		}
	}
	for _, doc := range oddJSON {
		for i := 0; i < 6*scale; i++ {
			b := common.Pick(r, bodyBindings)
			p := withBody(validRequest(r, b), doc, "-")
			emitHTTP(emit, "none", randScript(r), p.raw())
			count("http-oddjson")
		}
	}
	// enum names (known and unknown) into every enum-carrying body field
	for _, f := range []string{"f_enum", "r_enum", "m_ue", "o_enum", "p_enum", "w_null", "nested/color"} {
		for _, doc := range []string{"\"NOPE\"", "[\"NOPE\"]", "{\"1\":\"NOPE\"}", "\"RED\"", "[\"RED\",\"nope\"]", "{\"7\":\"GREEN\",\"8\":\"x\"}", "\"\"", "[\"\"]", "null", "\"NULL_VALUE\""} {
			p := reqParts{method: "POST", target: "/v1/body/" + f, headers: []string{"Host: c17.test"}}
			emitHTTP(emit, "none", "n1c0w0", withBody(p, doc, "application/json").raw())
			count("http-enum")
		}
	}
	n := 3500 * scale
	for i := 0; i < n; i++ {
		b := common.Pick(r, bindings)
		p := validRequest(r, b)
		scr := randScript(r)
		switch r.Intn(12) {
		case 0, 1: // syntactically invalid JSON
			if b.Body == "" {
				b = common.Pick(r, bodyBindings)
				p = validRequest(r, b)
			}
			p = withBody(p, breakJSON(r, p.body), "-")
			emitHTTP(emit, "badjson", scr, p.raw())
			count("http-badjson")
		case 2: // invalid typed path parameter
			path, typed, used := fillPattern(r, b.Pattern, common.Pick(r, badParamMarkers))
			if typed == 0 || !used {
				// invalid typed query parameter instead (only where the query is parsed)
				if b.Body == "*" {
					continue
				}
				f := common.Pick(r, []string{"f_int32", "f_uint64", "f_bool", "f_double", "w_ts", "w_dur", "w_int64", "f_sint32", "p_int32"})
				if strings.Contains(b.Pattern, "{"+f) || b.Body == f {
					continue
				}
				t, _, _ := fillPattern(r, b.Pattern, "")
				p.target = t + "?" + f + "=" + common.Pick(r, badParamMarkers)
			} else {
				p.target = path
			}
			emitHTTP(emit, "badparam", scr, p.raw())
			count("http-badparam")
		case 3: // path mutations
			p.target = mutatePath(r, p.target)
			emitHTTP(emit, "none", scr, p.raw())
			count("http-path")
		case 4: // odd queries
			path, _, _ := strings.Cut(p.target, "?")
			p.target = path + "?" + common.Pick(r, oddQueries)
			emitHTTP(emit, "none", scr, p.raw())
			count("http-query")
		case 5: // odd / repeated headers
			k := 1 + r.Intn(3)
			for j := 0; j < k; j++ {
				p.headers = append(p.headers, common.Pick(r, oddHeaders))
			}
			if r.Intn(2) == 0 {
				r.Shuffle(len(p.headers), func(a, b int) { p.headers[a], p.headers[b] = p.headers[b], p.headers[a] })
			}
			emitHTTP(emit, "none", scr, p.raw())
			count("http-headers")
		case 6: // odd verbs against a valid target
			p.method = common.Pick(r, []string{"GET", "POST", "PUT", "DELETE", "PATCH", "HEAD", "OPTIONS", "LINK", "TRACE", "CONNECT", "get", "FOO", "PRI"})
			emitHTTP(emit, "none", scr, p.raw())
			count("http-verb")
		case 7: // deep nesting / huge bodies
			bb := common.Pick(r, bodyBindings)
			p = withBody(validRequest(r, bb), deepJSON(r), "-")
			emitHTTP(emit, "none", scr, p.raw())
			count("http-deep")
		case 8: // byte flips / truncation of the whole request text
			raw := []byte(p.raw())
			switch r.Intn(3) {
			case 0:
				for k := 0; k < 1+r.Intn(3); k++ {
					raw[r.Intn(len(raw))] ^= byte(1 << r.Intn(8))
				}
			case 1:
				raw = raw[:r.Intn(len(raw)+1)]
			default:
				i := r.Intn(len(raw) + 1)
				raw = append(append(append([]byte{}, raw[:i]...), common.RandBytes(r, 1+r.Intn(6), nil)...), raw[i:]...)
			}
			emitHTTP(emit, "none", scr, string(raw))
			count("http-flip")
		case 9: // chunked bodies, good and bad
			if b.Body == "" {
				continue
			}
			body := p.body
			p = withBody(p, "", "-")
			hs := []string{}
			for _, h := range p.headers {
				if !strings.HasPrefix(strings.ToLower(h), "content-length:") {
					hs = append(hs, h)
				}
			}
			p.headers = append(hs, "Transfer-Encoding: chunked")
			switch r.Intn(3) {
			case 0:
				p.body = fmt.Sprintf("%x\r\n%s\r\n0\r\n\r\n", len(body), body)
			case 1:
				p.body = fmt.Sprintf("%x\r\n%s", len(body)+5, body) // short chunk
			default:
				p.body = "zz\r\n" + body
			}
			emitHTTP(emit, "none", scr, p.raw())
			count("http-chunked")
		case 10: // gRPC-Web
			body := grpcWebBody(r)
			ct := common.Pick(r, []string{"application/grpc-web", "application/grpc-web+proto", "application/grpc-web-text", "application/grpc-web+json", "application/grpc-webfoo", "application/grpc-web; x=y"})
			gp := reqParts{method: common.Pick(r, []string{"POST", "POST", "POST", "GET", "PUT"}), target: common.Pick(r, grpcPaths), headers: []string{"Host: c17.test"}}
			if r.Intn(5) == 0 {
				gp.headers = append(gp.headers, common.Pick(r, oddHeaders))
			}
			gp = withBody(gp, string(body), ct)
			emitHTTP(emit, "none", scr, gp.raw())
			count("http-grpcweb")
		default: // upgrade requests handled in-process (hijack over a pipe)
			up := common.Pick(r, oddHeaders[28:44])
			if r.Intn(2) == 0 {
				p = reqParts{method: "GET", target: common.Pick(r, append(grpcPaths, "/v1/bidi", "/v1/ws/unary", "/v1/get/x")), headers: []string{"Host: c17.test"}}
			}
			p.headers = append(p.headers, up)
			emitHTTP(emit, "none", scr, p.raw())
			count("http-upgrade")
		}
	}
	// 3. fully random stream
	for i := 0; i < 600*scale; i++ {
		var raw string
		switch r.Intn(3) {
		case 0:
			raw = string(common.RandBytes(r, r.Intn(120), nil))
		case 1:
			raw = common.Pick(r, []string{"GET", "POST", "PUT"}) + " /" + string(common.RandBytes(r, r.Intn(30), []byte("abcv1/{}*:%?=&.[]_-~ \x00\xff"))) + " HTTP/1.1\r\nHost: x\r\n\r\n"
		default:
			body := common.RandBytes(r, r.Intn(60), nil)
			raw = fmt.Sprintf("POST %s HTTP/1.1\r\nHost: x\r\nContent-Length: %d\r\n%s\r\n\r\n%s", common.Pick(r, []string{"/v1/all", "/v1/body/f_enum", "/c17.Svc/Unary", "/v1/stream"}),
				len(body), common.Pick(r, []string{"Content-Type: application/json", "Content-Type: application/grpc-web", "X: y"}), body)
		}
		emitHTTP(emit, "none", randScript(r), raw)
		count("http-random")
	}
}

func genWS(r *rand.Rand, scale int, emit func(string)) {
	wsTargets := []struct {
		target string
		kind   string // JSON kind of one message ("" = All object)
		nobody bool
	}{
		{"/v1/bidi", "", false}, {"/v1/bidi/field/enum", "enum", false}, {"/v1/bidi/field/renum", "renum", false}, {"/v1/bidi/field/menum", "menum", false},
		{"/v1/bidi/field/int32", "int", false}, {"/v1/bidi/abc", "", true}, {"/v1/ws/unary", "", false}, {"/v1/ws/unary/enum", "enum", false},
		{"/v1/ws/unary/nested/xyz", "msg", false}, {"/v1/ws/unary/nobody/5", "", true}, {"/v1/ws/sstream", "", false}, {"/v1/ws/sstream/renum", "renum", false},
		{"/v1/get/abc", "", true}, {"/v1/stream/abc", "", true}, {"/v1/cstream/abc", "", true}, {"/v1/nope", "", true},
	}
	msgFor := func(kind string) string {
		switch kind {
		case "":
			return jsonForAll(r)
		case "renum":
			return jsonForField(r, fieldByName["r_enum"])
		case "menum":
			return jsonForField(r, fieldByName["m_ue"])
		default:
			return jsonValue(r, kind, 0)
		}
	}
	oddFrames := func() string {
		switch r.Intn(12) {
		case 0:
			return fr('T', nil)
		case 1:
			return fr('B', []byte(msgFor("")))
		case 2:
			return fr('T', []byte{0xff, 0xfe, '{'})
		case 3:
			return fr('T', []byte(strings.Repeat("[", 70000)))
		case 4:
			return fr('P', common.RandBytes(r, r.Intn(126), nil))
		case 5:
			return fr('O', common.RandBytes(r, r.Intn(20), nil))
		case 6:
			return fr('C', common.Pick(r, [][]byte{{}, {3}, {3, 232}, {3, 237}, {0, 0}, {3, 232, 0xff}, {0x13, 0x88, 'x'}}))
		case 7:
			return fr('R', common.RandBytes(r, 1+r.Intn(20), nil))
		case 8:
			return fr('R', []byte{0x01, 0x81, 0, 0, 0, 0, '{'}) // unfinished fragmented text
		case 9:
			return fr('R', []byte{0x81, 0x01, '{'}) // unmasked client frame
		case 10:
			return fr('T', []byte(common.Pick(r, oddJSON)))
		default:
			return fr('T', []byte(breakJSON(r, msgFor(""))))
		}
	}
	n := 260 * scale
	for i := 0; i < n; i++ {
		t := common.Pick(r, wsTargets)
		target := t.target
		if r.Intn(4) == 0 {
			target += "?" + strings.ReplaceAll(common.Pick(r, oddQueries[len(oddQueries)-13:len(oddQueries)-1]), " ", "%20")
		}
		scr := randScript(r)
		end := common.Pick(r, []string{"wait", "wait", "wait", "close", "drop"})
		var frames []string
		tag := "none"
		switch r.Intn(6) {
		case 0, 1: // valid conversation
			for k := 0; k < 1+r.Intn(3); k++ {
				frames = append(frames, fr('T', []byte(msgFor(t.kind))))
			}
		case 2: // first message invalid JSON
			frames = append(frames, fr('T', []byte(breakJSON(r, msgFor(t.kind)))))
			tag = "badjson"
			end = "wait"
		case 3: // unknown enum names, odd documents
			frames = append(frames, fr('T', []byte(common.Pick(r, oddJSON))))
		case 4:
			for k := 0; k < 1+r.Intn(4); k++ {
				frames = append(frames, oddFrames())
				if r.Intn(3) == 0 {
					frames = append(frames, "S")
				}
			}
		default: // nothing sent
		}
		emit(wsLine(tag, scr, target, "", end, frames))
		count("ws-transcoded")
	}
	// invalid typed parameters over WebSocket on body-less non-client-streaming routes
	for i := 0; i < 8*scale; i++ {
		emit(wsLine("badparam", randScript(r), "/v1/ws/unary/nobody/"+common.Pick(r, badParamMarkers), "", "wait", nil))
		emit(wsLine("badparam", randScript(r), "/v1/get/abc?f_int32="+common.Pick(r, badParamMarkers), "", "wait", nil))
		count("ws-badparam")
	}
	// error messages quoting long multi-byte client input (close reason must stay valid UTF-8)
	for i := 0; i < 6*scale; i++ {
		long := strings.Repeat(common.Pick(r, []string{"%E2%82%AC", "%C3%A9", "%F0%9F%98%80"}), 20+r.Intn(40)) + strings.Repeat("a", r.Intn(3))
		emit(wsLine("none", randScript(r), "/v1/ws/unary/nobody/"+long, "", "wait", nil))
		emit(wsLine("none", randScript(r), "/v1/get/abc?f_int32="+strings.Repeat("b", r.Intn(3))+long, "", "wait", nil))
		emit(wsLine("none", randScript(r), "/v1/ws/unary/enum", "", "wait", []string{fr('T', []byte("{\""+strings.Repeat("€", 30+r.Intn(30))))}))
		count("ws-longutf8")
	}
	// gRPC-WebSocket
	gwsHdr := "Sec-WebSocket-Protocol: grpc-websockets\r\n"
	mdFrames := []string{"", "a: b\r\n", "grpc-timeout: 1S\r\n", "x-a: 1\r\nx-a: 2\r\n", "content-type: application/grpc-web+proto\r\nx-grpc-web: 1\r\n"}
	badMD := [][]byte{[]byte("garbage"), []byte("no colon\r\n"), []byte(": empty key\r\n"), {0xff, 0xfe}, []byte("a: b\r\n\r\nextra"), []byte(" lead: x\r\n"),
		[]byte("a b: c\r\n"), []byte("k: " + strings.Repeat("v", 70000) + "\r\n"), {0}, []byte("a:\x00b\r\n")}
	data := func(flow byte, payload []byte) []byte { return append([]byte{flow}, frame(0, payload)...) }
	for i := 0; i < 200*scale; i++ {
		target := common.Pick(r, grpcPaths[:12])
		scr := randScript(r)
		end := common.Pick(r, []string{"wait", "wait", "wait", "close", "drop"})
		var frames []string
		switch r.Intn(8) {
		case 0, 1: // well-formed call
			frames = append(frames, fr('B', []byte(common.Pick(r, mdFrames))))
			for k := 0; k < r.Intn(3); k++ {
				frames = append(frames, fr('B', data(0, common.Pick(r, protoPayloads))))
			}
			frames = append(frames, fr('B', []byte{1}))
		case 2: // invalid metadata frame
			frames = append(frames, fr('B', common.Pick(r, badMD)))
			if r.Intn(2) == 0 {
				frames = append(frames, fr('B', data(0, nil)))
			}
		case 3: // short / odd data frames after metadata
			frames = append(frames, fr('B', []byte("a: b\r\n")))
			for k := 0; k < 1+r.Intn(4); k++ {
				frames = append(frames, fr('B', common.RandBytes(r, r.Intn(9), []byte{0, 1, 2, 0x80, 0xff})))
			}
		case 4: // finish marker then more data, repeated finish markers
			frames = append(frames, fr('B', []byte("a: b\r\n")), fr('B', []byte{1}), fr('B', data(0, []byte{0x18, 1})), fr('B', []byte{1}), fr('B', data(1, nil)))
		case 5: // data before metadata, text frames
			frames = append(frames, fr('B', data(0, []byte{0x18, 1})), fr('T', []byte("a: b\r\n")), fr('T', []byte("{}")))
		case 6: // finish flag carried by a data frame
			frames = append(frames, fr('B', []byte("a: b\r\n")), fr('B', data(1, common.Pick(r, protoPayloads))), fr('B', data(1, common.Pick(r, protoPayloads))))
		default:
			frames = append(frames, fr('B', []byte("a: b\r\n")))
			for k := 0; k < 1+r.Intn(3); k++ {
				frames = append(frames, oddFrames())
			}
		}
		emit(wsLine("none", scr, target, gwsHdr, end, frames))
		count("ws-grpcws")
	}
}

func genCores(r *rand.Rand, scale int, emit func(string)) {
	hx := common.HexS
	// parseMetadataQuery keys
	params := []string{"", "_metadata", "m", "a[", "]", "_metadata["}
	keys := []string{"", "_metadata", "_metadata[", "_metadata]", "_metadata[]", "_metadata[a]", "_metadata[A-b_c.9]", "_metadata[a b]", "_metadata[é]", "_metadata[a]]", "_metadata[[a]",
		"_metadata[a][b]", "x_metadata[a]", "_metadata[a]x", "[", "]", "[]", "m[", "m]", "m[]", "m[k]", "a[[]", "a[[k]", "][]", "][k]", "_metadata[[]", "_metadata[[k]"}
	for _, p := range params {
		for _, k := range keys {
			emit("mdkey " + hx(p) + " " + hx(k))
		}
	}
	for i := 0; i < 300*scale; i++ {
		p := common.Pick(r, params)
		k := string(common.RandBytes(r, r.Intn(14), []byte("_metadata[]mAz9-. \xff")))
		if r.Intn(2) == 0 {
			pp := p
			if pp == "" {
				pp = "_metadata"
			}
			k = pp + "[" + string(common.RandBytes(r, r.Intn(6), []byte("aZ9-_.[] \xc3"))) + common.Pick(r, []string{"]", "", "]]"})
		}
		emit("mdkey " + hx(p) + " " + hx(k))
	}
	// gRPC-WebSocket OnMessage
	for l := 0; l <= 9; l++ {
		for _, first := range []byte{0, 1, 2, 0xff} {
			d := make([]byte, l)
			for j := range d {
				d[j] = byte(j + 10)
			}
			if l > 0 {
				d[0] = first
			}
			for _, cl := range []string{"0", "1"} {
				emit("gwsmsg 1 " + cl + " " + common.Hex(d))
			}
		}
	}
	for i := 0; i < 60*scale; i++ {
		emit("gwsmsg 1 " + common.Pick(r, []string{"0", "0", "1"}) + " " + common.Hex(common.RandBytes(r, r.Intn(12), []byte{0, 1, 1, 2, 0x80, 0xff, 0x0a})))
	}
	for _, md := range []string{"", "a: b\r\n", "garbage", "no colon\r\n", ": v\r\n", "\xff", "a: b\r\n\r\n", " a: b\r\n", "a: b", "a:\r\n", "\r\n", "a b: c\r\n"} {
		emit("gwsmsg 0 0 " + hx(md))
		emit("gwsmsg 0 1 " + hx(md))
	}
	for i := 0; i < 30*scale; i++ {
		emit("gwsmsg 0 0 " + common.Hex(common.RandBytes(r, r.Intn(16), []byte("ab: \r\n\x00\xff-"))))
	}
	// gRPC-Web recv
	for l := 0; l <= 7; l++ {
		emit("gwrecv " + common.Hex(make([]byte, l)))
	}
	for _, b := range [][]byte{frame(0, []byte{0x18, 1}), frame(0, []byte{0xff}), frame(0x80, []byte("x")), {0, 0, 0, 0, 5, 1, 2}, {0, 0xff, 0xff, 0xff, 0xff, 1}, {0, 0, 0x40, 0, 1, 9},
		append(frame(0, []byte{0x18, 1}), 7, 7), {1, 0, 0, 0, 1, 0x0b}} {
		emit("gwrecv " + common.Hex(b))
	}
	for i := 0; i < 200*scale; i++ {
		var b []byte
		if r.Intn(2) == 0 {
			b = append(frame(common.Pick(r, []byte{0, 0, 0x80, 1}), common.Pick(r, protoPayloads)), common.RandBytes(r, r.Intn(3), nil)...)
			if r.Intn(4) == 0 {
				binary.BigEndian.PutUint32(b[1:], uint32(r.Intn(12)))
			}
		} else {
			b = common.RandBytes(r, r.Intn(14), []byte{0, 0, 0, 1, 2, 3, 0x18, 0xff})
		}
		emit("gwrecv " + common.Hex(b))
	}
	// RouteHTTP slicing
	for _, v := range sliceVerbs {
		for _, p := range []string{"", "/", "a", "//", "/a", "/a/", "/a/b", "/:" + v, "/a:" + v, "/a/:" + v, "/a/b:" + v, "/a:" + v + "/b", "/:", "/a:", "/a::" + v, "/a:" + v + ":" + v, "/:" + v + ":" + v,
			"/a:x" + v, "/a:" + v + "x", ":" + v, "/" + v, "/a/b/c/d:" + v} {
			emit("rslice " + hx(p) + " " + hx(v))
		}
	}
	for i := 0; i < 400*scale; i++ {
		v := common.Pick(r, sliceVerbs)
		p := string(common.RandBytes(r, r.Intn(10), []byte("/ab:v-1")))
		switch r.Intn(3) {
		case 0:
			p = "/" + p
		case 1:
			p = "/" + p + ":" + v
		}
		emit("rslice " + hx(p) + " " + hx(v))
	}
	// parseRPCName
	for _, n := range []string{"", "/", "//", "a", "/a", "a/b", "/a/b", "/a/b/c", "//a", "/a/", "a//b", "\xff/\x00"} {
		emit("rpcname " + hx(n))
	}
	for i := 0; i < 150*scale; i++ {
		emit("rpcname " + common.Hex(common.RandBytes(r, r.Intn(9), []byte("/ab.\xff"))))
	}
	// decodeTimeout index expressions
	for _, s := range []string{"", "S", "1S", "1", "12345678S", "123456789S", "99999999H", "1x", "+1S", "-1S", "1 S", "\xff\xff"} {
		emit("dtidx " + hx(s))
	}
	for i := 0; i < 200*scale; i++ {
		emit("dtidx " + common.Hex(common.RandBytes(r, r.Intn(11), []byte("0123456789HMSmun+- x"))))
	}
	// filterRequest key slicing
	for _, k := range []string{"a", "grpc-metadata-", "grpc-metadata-a", "GRPC-Metadata-Foo", "grpc-metadata-x-bin", "-bin", "a-bin", "A-BIN", "bin", "grpc-metadata--bin", "grpc-metadata-bin", "x-bin-"} {
		for _, p := range []string{"", "p-", "x-bi"} {
			emit("fkey " + hx(k) + " " + hx(p))
		}
	}
	for i := 0; i < 150*scale; i++ {
		k := common.Pick(r, []string{"", "grpc-metadata-", "Grpc-Metadata-", "grpc-metadata"}) + string(common.RandBytes(r, 1+r.Intn(6), []byte("ab-BIN_n.i"))) + common.Pick(r, []string{"", "-bin", "-BIN", "-bi"})
		emit("fkey " + hx(k) + " " + hx(common.Pick(r, []string{"", "p-", "grpc-metadata-"})))
	}
	// websocketError, error wrapping, HTTP mapping
	for _, k := range []string{"nil", "text", "binary", "plain"} {
		emit("wserr " + k)
	}
	for c := 1; c <= 16; c++ { // status.Error(codes.OK, …) is nil
		emit(fmt.Sprintf("wserr st:%d", c))
		for _, dir := range []string{"req", "resp"} {
			emit(fmt.Sprintf("wrap %s st:%d", dir, c))
			emit(fmt.Sprintf("wrap %s wrapst:%d", dir, c))
		}
	}
	for _, dir := range []string{"req", "resp"} {
		emit("wrap " + dir + " nil")
		emit("wrap " + dir + " plain")
	}
	for c := 0; c <= 20; c++ {
		emit(fmt.Sprintf("hst %d", c))
	}
	// traverseFieldPath
	elems := []string{"f_nested", "o_nested", "w_ts", "w_struct", "w_any", "f_string", "f_int32", "f_enum", "o_string", "p_int32", "r_nested", "r_int32", "m_ss", "m_sn",
		"child", "name", "n", "color", "tags", "seconds", "nanos", "type_url", "value", "fields", "zzz", "fNested", "F_NESTED", "", "*"}
	for _, p := range []string{"", "*", ".", "..", "f_nested", "f_nested.", ".f_nested", "f_nested.child.child.child.name", "f_nested..name", "f_string.x", "r_nested.name", "m_ss.key", "w_ts.seconds", "*.a", "a.*"} {
		emit("tfp " + hx(p))
	}
	for i := 0; i < 300*scale; i++ {
		n := 1 + r.Intn(5)
		var parts []string
		for j := 0; j < n; j++ {
			if j == 0 {
				parts = append(parts, common.Pick(r, elems[:14]))
			} else {
				parts = append(parts, common.Pick(r, elems))
			}
		}
		emit("tfp " + hx(strings.Join(parts, ".")))
	}
}
