package c17

// Every case runs in a WORKER SUBPROCESS (the harness binary re-executed with VERIF_C17_WORKER=1):
// a panic on a goroutine that net/http does not guard (webbridge.withCtx helper goroutines, the
// forwarder pumps, the gws ReadLoop) kills the whole process, and must be attributed to the exact
// input line instead of killing the harness.  The parent sends one input line, waits for exactly one
// reply line (watchdog), and on worker death reports "res=crash" with the panic message from the
// worker's stderr and starts a fresh worker.

import (
	"bufio"
	"fmt"
	"io"
	"net/http"
	"net/http/httptest"
	"os"
	"os/exec"
	"path/filepath"
	"regexp"
	"strings"
	"sync"
	"time"

	grpcbridge "github.com/renbou/grpcbridge"
	"github.com/renbou/grpcbridge/routing"
	"verif/harness/common"
)

const workerEnv = "VERIF_C17_WORKER"

func init() {
	if os.Getenv(workerEnv) == "1" {
		workerMain()
		os.Exit(0)
	}
}

// ---------------- parent side ----------------

type workerProc struct {
	cmd    *exec.Cmd
	in     io.WriteCloser
	out    *bufio.Reader
	errLog string
}

var (
	procMu   sync.Mutex
	proc     *workerProc
	nWorkers int
	nCrashes int
	nHangs   int
)

func startWorker() (*workerProc, error) {
	exe, err := os.Executable()
	if err != nil {
		return nil, err
	}
	dir := os.Getenv("VERIF_WORK")
	if dir == "" {
		dir = os.TempDir()
	}
	dir = filepath.Join(dir, "C17-worker")
	_ = os.MkdirAll(dir, 0o755)
	nWorkers++
	errLog := filepath.Join(dir, fmt.Sprintf("stderr-%d-%d.log", os.Getpid(), nWorkers))
	ef, err := os.Create(errLog)
	if err != nil {
		return nil, err
	}
	cmd := exec.Command(exe)
	cmd.Env = append(os.Environ(), workerEnv+"=1", "GOTRACEBACK=single")
	cmd.Stderr = ef
	in, err := cmd.StdinPipe()
	if err != nil {
		return nil, err
	}
	out, err := cmd.StdoutPipe()
	if err != nil {
		return nil, err
	}
	if err := cmd.Start(); err != nil {
		return nil, err
	}
	ef.Close()
	return &workerProc{cmd: cmd, in: in, out: bufio.NewReaderSize(out, 1<<20), errLog: errLog}, nil
}

func (p *workerProc) kill() {
	_ = p.in.Close()
	_ = p.cmd.Process.Kill()
	_, _ = p.cmd.Process.Wait()
}

var panicLine = regexp.MustCompile(`(?m)^(panic: .*|fatal error: .*)$`)

func crashMessage(path string) string {
	b, _ := os.ReadFile(path)
	if m := panicLine.Find(b); m != nil {
		s := string(m)
		if len(s) > 200 {
			s = s[:200]
		}
		return s
	}
	if len(b) > 200 {
		b = b[len(b)-200:]
	}
	return "worker died: " + string(b)
}

// parentExec forwards one input line to the worker.
func parentExec(input string) string {
	procMu.Lock()
	defer procMu.Unlock()
	if proc == nil {
		p, err := startWorker()
		if err != nil {
			return "res=harness-error msg=" + common.HexS(err.Error())
		}
		proc = p
	}
	p := proc
	if _, err := io.WriteString(p.in, input+"\n"); err != nil {
		msg := crashMessage(p.errLog)
		p.kill()
		proc = nil
		nCrashes++
		return "res=crash msg=" + common.HexS(msg)
	}
	type reply struct {
		line string
		err  error
	}
	ch := make(chan reply, 1)
	go func() {
		l, err := p.out.ReadString('\n')
		ch <- reply{l, err}
	}()
	select {
	case r := <-ch:
		if r.err != nil {
			_, _ = p.cmd.Process.Wait()
			msg := crashMessage(p.errLog)
			p.kill()
			proc = nil
			nCrashes++
			return "res=crash msg=" + common.HexS(msg)
		}
		line := strings.TrimRight(r.line, "\n")
		if strings.HasPrefix(line, "res=hang") {
			// the worker reported its own watchdog; it exits afterwards (leaked goroutines), restart it
			p.kill()
			proc = nil
			nHangs++
		}
		return line
	case <-time.After(30 * time.Second):
		p.kill()
		proc = nil
		nHangs++
		return "res=hang where=worker-unresponsive"
	}
}

// ---------------- worker side ----------------

type worker struct {
	e      *env
	bridge *grpcbridge.WebBridge
	h      http.Handler // bridge wrapped with panic/return accounting
	srv    *httptest.Server

	active  sync.WaitGroup
	hmu     sync.Mutex
	nActive int
	idle    chan struct{}
}

func newWorker() (*worker, error) {
	t, all, err := buildTarget()
	if err != nil {
		return nil, err
	}
	e := &env{target: t, allDesc: all}
	e.canned = cannedResponses(all)
	pool := fakePool{e}
	e.pr = routing.NewPatternRouter(pool, routing.PatternRouterOpts{})
	e.sr = routing.NewServiceRouter(pool, routing.ServiceRouterOpts{})
	pw, err := e.pr.Watch(targetName)
	if err != nil {
		return nil, err
	}
	pw.UpdateDesc(t)
	sw, err := e.sr.Watch(targetName)
	if err != nil {
		return nil, err
	}
	sw.UpdateDesc(t)
	e.begin(script{})
	w := &worker{e: e}
	w.bridge = grpcbridge.NewWebBridge(recRouter{e})
	w.h = http.HandlerFunc(func(rw http.ResponseWriter, r *http.Request) {
		w.enter()
		defer w.leave()
		defer func() {
			if rec := recover(); rec != nil {
				_, o := e.cur()
				o.mu.Lock()
				o.panics = append(o.panics, fmt.Sprint(rec))
				o.mu.Unlock()
				panic(http.ErrAbortHandler)
			}
		}()
		w.bridge.ServeHTTP(rw, r)
	})
	w.srv = httptest.NewUnstartedServer(w.h)
	w.srv.Config.ErrorLog = nil
	w.srv.Start()
	return w, nil
}

func (w *worker) enter() {
	w.hmu.Lock()
	w.nActive++
	w.hmu.Unlock()
}

func (w *worker) leave() {
	w.hmu.Lock()
	w.nActive--
	w.hmu.Unlock()
}

// waitIdle waits until no handler invocation is running (bounded).
func (w *worker) waitIdle(d time.Duration) bool {
	deadline := time.Now().Add(d)
	for {
		w.hmu.Lock()
		n := w.nActive
		w.hmu.Unlock()
		if n == 0 {
			return true
		}
		if time.Now().After(deadline) {
			return false
		}
		time.Sleep(200 * time.Microsecond)
	}
}

func workerMain() {
	w, err := newWorker()
	if err != nil {
		fmt.Fprintln(os.Stderr, "worker setup:", err)
		os.Exit(4)
	}
	in := bufio.NewReaderSize(os.Stdin, 1<<20)
	out := bufio.NewWriter(os.Stdout)
	for {
		line, err := in.ReadString('\n')
		if line == "" && err != nil {
			return
		}
		line = strings.TrimRight(line, "\n")
		res := w.safeRun(line)
		res = strings.ReplaceAll(res, "\n", " ")
		out.WriteString(res)
		out.WriteByte('\n')
		out.Flush()
		if strings.HasPrefix(res, "res=hang") {
			os.Exit(3)
		}
		if err != nil {
			return
		}
	}
}

func (w *worker) safeRun(line string) (out string) {
	defer func() {
		if r := recover(); r != nil {
			out = "res=panic where=harness msg=" + common.HexS(fmt.Sprint(r))
		}
	}()
	f := strings.Fields(line)
	if len(f) == 0 {
		return "BADOP"
	}
	switch f[0] {
	case "http":
		return w.runHTTP(f)
	case "ws":
		return w.runWS(f)
	case "tcp":
		return w.runTCP(f)
	default:
		return w.runCore(f)
	}
}
