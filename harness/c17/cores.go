package c17

// Differential ops: the real small client-facing functions (through export shims where they are
// unexported) against the Lean models of GB/C17/Model.lean.

import (
	"errors"
	"fmt"
	"net/http"
	"net/url"
	"strconv"
	"strings"
	"sync"

	"github.com/renbou/grpcbridge/bridgedesc"
	"github.com/renbou/grpcbridge/grpcadapter"
	"github.com/renbou/grpcbridge/routing"
	"github.com/renbou/grpcbridge/transcoding"
	"github.com/renbou/grpcbridge/webbridge"
	"google.golang.org/grpc/codes"
	"google.golang.org/grpc/metadata"
	"google.golang.org/grpc/status"
	"google.golang.org/protobuf/types/dynamicpb"
	"verif/harness/common"
)

var (
	sliceRoutersOnce sync.Once
	sliceRouters     map[string]*routing.PatternRouter
)

var sliceVerbs = []string{"", "v", "fetch", "check-1"}

func sliceRouter(verb string) *routing.PatternRouter {
	sliceRoutersOnce.Do(func() {
		sliceRouters = map[string]*routing.PatternRouter{}
		for _, v := range sliceVerbs {
			pat := "/{p=**}"
			if v != "" {
				pat += ":" + v
			}
			t := &bridgedesc.Target{Name: "t", Services: []bridgedesc.Service{{Name: "s.S", Methods: []bridgedesc.Method{{
				RPCName: "/s.S/M", Bindings: []bridgedesc.Binding{{HTTPMethod: "GET", Pattern: pat}},
			}}}}}
			pr := routing.NewPatternRouter(onePool{}, routing.PatternRouterOpts{})
			w, err := pr.Watch("t")
			if err != nil {
				panic(err)
			}
			w.UpdateDesc(t)
			sliceRouters[v] = pr
		}
	})
	return sliceRouters[verb]
}

type onePool struct{}

func (onePool) Get(string) (grpcadapter.ClientConn, bool) { return fakeConn{}, true }

func errKind(kind string) (error, bool) {
	switch {
	case kind == "nil":
		return nil, true
	case kind == "plain":
		return errors.New("plain error"), true
	case kind == "text":
		return webbridge.VerifErrExpectedText, true
	case kind == "binary":
		return webbridge.VerifErrExpectedBinary, true
	case strings.HasPrefix(kind, "st:"):
		n, err := strconv.Atoi(kind[3:])
		if err != nil {
			return nil, false
		}
		return status.Error(codes.Code(n), "msg"), true
	case strings.HasPrefix(kind, "wrapst:"):
		n, err := strconv.Atoi(kind[7:])
		if err != nil {
			return nil, false
		}
		return fmt.Errorf("wrapped: %w", status.Error(codes.Code(n), "msg")), true
	}
	return nil, false
}

func (w *worker) runCore(f []string) string {
	unhex := func(s string) []byte { return common.MustUnHex(s) }
	switch f[0] {
	case "mdkey": // mdkey <hexparam> <hexkey>
		param, key := string(unhex(f[1])), string(unhex(f[2]))
		q := url.Values{key: {"v"}}.Encode()
		req := &http.Request{URL: &url.URL{Path: "/", RawQuery: q}}
		md := webbridge.VerifParseMetadataQuery(req, param)
		if _, still := req.URL.Query()[key]; still {
			if len(md) != 0 {
				return "kept-and-md"
			}
			return "skip"
		}
		if len(md) == 0 {
			return "drop"
		}
		if len(md) != 1 {
			return "many"
		}
		for k := range md {
			return "md:" + common.HexS(k)
		}
	case "gwsmsg": // gwsmsg <receivedMD> <closed> <hexdata>
		r := webbridge.VerifGRPCWSOnMessage(f[1] == "1", f[2] == "1", unhex(f[3]))
		if f[1] == "0" {
			switch {
			case f[2] == "1" && !r.GotMD && r.Wrote == 0:
				return "noop"
			case r.GotMD && r.ReceivedMD && r.Wrote == 0:
				return "md-accepted"
			case !r.GotMD && !r.ReceivedMD && r.Wrote == 1:
				return "md-rejected-trailer"
			}
			return fmt.Sprintf("md-other gotmd=%v rmd=%v wrote=%d", r.GotMD, r.ReceivedMD, r.Wrote)
		}
		data := "x"
		if r.Delivered {
			data = common.Hex(r.Data)
		}
		return fmt.Sprintf("closed=%d dl=%d data=%s err=%d ec=%d", b01(r.Closed), b01(r.Delivered), data, b01(r.EventErrCode != codes.OK), b01(r.EventsClosed))
	case "gwrecv": // gwrecv <hexbody>
		r := webbridge.VerifGRPCWebRecv(unhex(f[1]))
		code := -1
		if r.NonNil && !r.EOF {
			code = int(r.Code)
		}
		unk := r.Unknown
		if r.NonNil {
			unk = nil // a failed Unmarshal may leave a partial message behind; not an observable of recv
		}
		return fmt.Sprintf("n=%d eof=%d code=%d unk=%s", r.Consumed, b01(r.EOF), code, common.Hex(unk))
	case "rslice": // rslice <hexpath> <hexverb>
		path, verb := string(unhex(f[1])), string(unhex(f[2]))
		pr := sliceRouter(verb)
		if pr == nil {
			return "BADVERB"
		}
		_, route, err := pr.RouteHTTP(&http.Request{Method: "GET", URL: &url.URL{Path: path, RawPath: path}})
		if err != nil {
			switch status.Code(err) {
			case codes.NotFound:
				return "nf"
			case codes.InvalidArgument:
				return "inv"
			}
			return "err" + strconv.Itoa(int(status.Code(err)))
		}
		return "ok:" + common.HexS(route.PathParams["p"])
	case "rpcname":
		svc, m, ok := routing.VerifParseRPCName(string(unhex(f[1])))
		if !ok {
			return "bad"
		}
		return "ok:" + common.HexS(svc) + ":" + common.HexS(m)
	case "dtidx":
		d, ok := grpcadapter.VerifDecodeTimeout(string(unhex(f[1])))
		if !ok {
			return "none"
		}
		return fmt.Sprintf("some:%d", int64(d))
	case "fkey": // fkey <hexkey> <hexprefix>
		key, prefix := string(unhex(f[1])), string(unhex(f[2]))
		flt := grpcadapter.NewProxyMDFilter(grpcadapter.ProxyMDFilterOpts{AllowRequestMD: []string{key}, PrefixRequestMD: prefix})
		out := flt.FilterRequestMD(metadata.Pairs(key, "dmFsdWU="))
		if len(out) != 1 {
			return fmt.Sprintf("keys=%d", len(out))
		}
		for k, v := range out {
			return fmt.Sprintf("key %s bin=%d", common.HexS(k), b01(len(v) == 1 && v[0] == "value"))
		}
	case "wserr":
		err, ok := errKind(f[1])
		if !ok {
			return "BADKIND"
		}
		code, reason := webbridge.VerifWebsocketError(err)
		return fmt.Sprintf("code=%d form=%d", code, b01(strings.HasPrefix(reason, "code ")))
	case "wrap": // wrap <req|resp> <kind>
		err, ok := errKind(f[2])
		if !ok {
			return "BADKIND"
		}
		var w error
		if f[1] == "req" {
			w = webbridge.VerifRequestTranscodingError(err)
		} else {
			w = webbridge.VerifResponseTranscodingError(err)
		}
		if w == nil {
			return "nil"
		}
		st, hs := webbridge.VerifErrorStatus(w)
		return fmt.Sprintf("code=%d http=%d", int(st.Code()), hs)
	case "hst":
		n, err := strconv.Atoi(f[1])
		if err != nil {
			return "BADCODE"
		}
		_, hs := webbridge.VerifErrorStatus(status.Error(codes.Code(n), "m"))
		return strconv.Itoa(hs)
	case "tfp": // tfp <hexpath>
		root := dynamicpb.NewMessage(w.e.allDesc)
		msg, fd, err := transcoding.VerifTraverseFieldPath(root.ProtoReflect(), string(unhex(f[1])))
		if err != nil {
			switch {
			case strings.Contains(err.Error(), "contains empty element"):
				return "err:empty"
			case strings.Contains(err.Error(), "no field"):
				return "err:nofield"
			case strings.Contains(err.Error(), "is not a message"):
				return "err:notmsg"
			}
			return "err:other"
		}
		m := 2
		switch msg.Descriptor().FullName() {
		case "c17.All":
			m = 0
		case "c17.Nested":
			m = 1
		case "google.protobuf.Struct":
			m = 3
		case "google.protobuf.Any":
			m = 4
		}
		if fd == nil {
			return fmt.Sprintf("whole:%d", m)
		}
		return fmt.Sprintf("field:%d:%s", m, common.HexS(string(fd.Name())))
	}
	return "BADOP"
}
