package c17

// Socket sessions: a real httptest.Server in front of the bridge, a gorilla/websocket client that
// sends arbitrary text/binary/control frames or raw wire bytes, reads until the connection ends,
// and then checks that the handler invocation returned.

import (
	"bytes"
	"context"
	"encoding/binary"
	"encoding/hex"
	"encoding/json"
	"errors"
	"net"
	"net/http"
	"net/url"
	"strconv"
	"strings"
	"time"
	"unicode/utf8"

	"github.com/gorilla/websocket"
	"verif/harness/common"
)

const (
	wsReadWindow = 1500 * time.Millisecond // how long the client keeps reading when it ends by waiting
	wsIdleWindow = 120 * time.Millisecond  // silence after which a waiting client gives up and drops
)

// ws <tag> <script> <hex request-target> <hex extra header lines "K: V\r\n"...> <end: close|drop|wait> <frames...>
// frames: T<hex> text, B<hex> binary, P<hex> ping, O<hex> pong, C<hex> close payload, R<hex> raw wire bytes, S pause 3ms
func (w *worker) runWS(f []string) string {
	if len(f) < 6 {
		return "BADOP"
	}
	tag := f[1]
	scr, ok := parseScript(f[2])
	if !ok {
		return "BADOP"
	}
	target, err1 := common.UnHex(f[3])
	extra, err2 := common.UnHex(f[4])
	end := f[5]
	if err1 != nil || err2 != nil || (end != "close" && end != "drop" && end != "wait") {
		return "BADOP"
	}
	for _, c := range target {
		if c <= 0x20 || c == 0x7f {
			return "BADOP" // such targets cannot be put on a request line; the in-process op covers them
		}
	}
	hdr := http.Header{}
	for _, ln := range strings.Split(string(extra), "\r\n") {
		if k, v, found := strings.Cut(ln, ":"); found {
			hdr[http.CanonicalHeaderKey(strings.TrimSpace(k))] = append(hdr[http.CanonicalHeaderKey(strings.TrimSpace(k))], strings.TrimSpace(v))
		}
	}
	grpcws := false
	for _, v := range hdr["Sec-Websocket-Protocol"] {
		if v == "grpc-websockets" {
			grpcws = true
		}
	}

	obs := w.e.begin(scr)
	addr := w.srv.Listener.Addr().String()
	var raw net.Conn
	d := websocket.Dialer{
		NetDialContext: func(ctx context.Context, network, _ string) (net.Conn, error) {
			c, err := net.DialTimeout("tcp", addr, 2*time.Second)
			raw = c
			return c, err
		},
		HandshakeTimeout: 3 * time.Second,
	}
	us := "ws://c17.test" + string(target)
	if pu, err := url.Parse(us); err != nil || pu.Host != "c17.test" {
		return "BADOP" // not expressible through a URL-based client; the in-process op covers it
	}
	// gorilla moves Sec-WebSocket-Protocol into its own option
	if sp, ok := hdr["Sec-Websocket-Protocol"]; ok {
		d.Subprotocols = sp
		delete(hdr, "Sec-Websocket-Protocol")
	}
	conn, resp, err := d.Dial(us, hdr)
	desc := func() string {
		obs.mu.Lock()
		defer obs.mu.Unlock()
		rt := obs.routerHit
		if rt == "" {
			rt = "none"
		}
		route := "none"
		if obs.routerHit != "" {
			if obs.routeOK {
				route = "ok"
			} else {
				route = "err" + strconv.Itoa(int(obs.routeCode))
			}
		}
		bp := "none"
		switch obs.body {
		case "":
		case "*":
			bp = "star"
		default:
			bp = "field"
		}
		to := strings.Contains(strings.ToLower(string(target)+string(extra)), "grpc-timeout")
		return strings.Join([]string{kv("tag", tag), kv("g", b01(grpcws)), kv("end", end), kv("to", b01(to)), kv("rt", rt), kv("route", route),
			kv("cs", b01(obs.cs)), kv("ss", b01(obs.ss)), kv("bp", bp), kv("streams", obs.streams), kv("sent", len(obs.sent))}, " ")
	}
	finish := func(fields string) string {
		if raw != nil {
			_ = raw.Close()
		}
		if !w.waitIdle(handlerWatchdog) {
			return "res=hang where=handler-after-client-gone " + desc() + " " + fields
		}
		obs.mu.Lock()
		panics := append([]string(nil), obs.panics...)
		obs.mu.Unlock()
		if len(panics) > 0 {
			return "res=panic msg=" + common.HexS(panics[0]) + " " + desc() + " " + fields
		}
		return "res=ok " + desc() + " " + fields
	}
	if err != nil {
		st := 0
		wf := 0
		if resp != nil {
			st = resp.StatusCode
			var body bytes.Buffer
			_, _ = body.ReadFrom(resp.Body)
			_, wf, _, _ = classifyBody(resp.Header, body.Bytes(), st)
		}
		return finish(strings.Join([]string{kv("hs", st), kv("hwf", wf), "n=0 wfm=1 cc=none cu=1 rc=na tr=0 lt=0 gs=na"}, " "))
	}
	defer conn.Close()
	// gorilla 1.5.1's default close handler turns "close already sent" into a read error; keep the CloseError
	// answer the peer's close frame (the bridge now waits for the answer before it closes the connection, fix D32) but
	// never turn a failure of that write into the read error: the close code is what is observed
	conn.SetCloseHandler(func(code int, _ string) error {
		_ = conn.WriteControl(websocket.CloseMessage, websocket.FormatCloseMessage(code, ""), time.Now().Add(time.Second))
		return nil
	})

	firstJSONBad := "na" // is the FIRST frame the client sends a text message with syntactically invalid JSON?
	sentAny := false
	ci := 0 // the client itself sent close frames / raw wire bytes / control frames (protocol-level interference)
	for _, fr := range f[6:] {
		if fr == "S" {
			time.Sleep(3 * time.Millisecond)
			continue
		}
		if len(fr) < 1 {
			return finish("BADFRAME")
		}
		payload, err := hex.DecodeString(fr[1:])
		if err != nil {
			return finish("BADFRAME")
		}
		_ = conn.SetWriteDeadline(time.Now().Add(2 * time.Second))
		switch fr[0] {
		case 'T':
			if !sentAny {
				var rawv json.RawMessage
				firstJSONBad = strconv.Itoa(b01(len(payload) > 0 && json.NewDecoder(bytes.NewReader(payload)).Decode(&rawv) != nil))
			}
			sentAny = true
			err = conn.WriteMessage(websocket.TextMessage, payload)
		case 'B':
			sentAny = true
			err = conn.WriteMessage(websocket.BinaryMessage, payload)
		case 'P':
			sentAny = true
			ci = 1
			err = conn.WriteControl(websocket.PingMessage, payload, time.Now().Add(time.Second))
		case 'O':
			sentAny = true
			ci = 1
			err = conn.WriteControl(websocket.PongMessage, payload, time.Now().Add(time.Second))
		case 'C':
			sentAny = true
			ci = 1
			err = conn.WriteControl(websocket.CloseMessage, payload, time.Now().Add(time.Second))
		case 'R':
			sentAny = true
			ci = 1
			_, err = conn.UnderlyingConn().Write(payload)
		default:
			return finish("BADFRAME")
		}
		if err != nil {
			break // the server is already gone; keep going to the read phase
		}
	}
	if end == "close" {
		_ = conn.WriteControl(websocket.CloseMessage, websocket.FormatCloseMessage(websocket.CloseNormalClosure, ""), time.Now().Add(time.Second))
	}
	if end == "drop" {
		return finish("hs=101 hwf=1 n=0 wfm=1 cc=none cu=1 rc=na tr=0 lt=0 gs=na ci=" + strconv.Itoa(ci) + " fj=" + firstJSONBad)
	}

	// read until the connection ends
	n, wfm, tr, lt, gs := 0, 1, 0, 0, "na"
	cc, cu, rc := "none", 1, "na"
	pe := "x" // the client library's complaint about a frame the server sent
	hardStop := time.Now().Add(wsReadWindow)
	for {
		dl := time.Now().Add(wsIdleWindow)
		if end == "close" || dl.After(hardStop) {
			dl = hardStop
		}
		_ = conn.SetReadDeadline(dl)
		mt, data, err := conn.ReadMessage()
		if err != nil {
			var ce *websocket.CloseError
			var ne net.Error
			switch {
			case errors.As(err, &ce):
				cc = strconv.Itoa(ce.Code)
				if ce.Code == websocket.CloseNoStatusReceived {
					cc = "nostatus" // a close frame with an empty payload (1005 never travels on the wire)
				}
				cu = b01(utf8.ValidString(ce.Text))
				if strings.HasPrefix(ce.Text, "code ") {
					if name, _, found := strings.Cut(ce.Text[5:], ":"); found {
						rc = name
					}
				}
			case errors.As(err, &ne) && ne.Timeout():
				cc = "timeout"
			case strings.Contains(err.Error(), "websocket:"):
				// gorilla's protocol validation rejected a frame the SERVER sent
				cc = "proto"
				pe = common.HexS(err.Error())
			default:
				cc = "eof" // connection ended without a close frame
			}
			break
		}
		n++
		lt = 0
		if grpcws {
			if mt != websocket.BinaryMessage || len(data) < 5 || int(binary.BigEndian.Uint32(data[1:5])) != len(data)-5 || (data[0] != 0 && data[0] != 0x80) {
				wfm = 0
			} else if data[0] == 0x80 {
				tr++
				_, _, _, st := decodeGRPCWeb(data)
				if st != "na" && st != "bad" {
					lt = 1
					gs = st
				} else if n != 1 {
					wfm = 0 // a 0x80 frame without grpc-status is only legal as the leading header frame
				}
			}
		} else {
			if mt != websocket.TextMessage || !utf8.Valid(data) || !json.Valid(data) {
				wfm = 0
			}
		}
	}
	return finish(strings.Join([]string{"hs=101 hwf=1", kv("n", n), kv("wfm", wfm), kv("cc", cc), kv("cu", cu), kv("rc", rc),
		kv("tr", tr), kv("lt", lt), kv("gs", gs), kv("ci", ci), kv("fj", firstJSONBad), kv("pe", pe)}, " "))
}
