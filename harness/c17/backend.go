package c17

// Fake grpcadapter.ClientPool with a scripted ClientConn, and the Router handed to
// grpcbridge.NewWebBridge: a real routing.PatternRouter (RouteHTTP) + a real routing.ServiceRouter
// (RouteGRPC), wrapped only to RECORD what the real routers answered.

import (
	"context"
	"io"
	"net/http"
	"sync"

	"github.com/renbou/grpcbridge/bridgedesc"
	"github.com/renbou/grpcbridge/grpcadapter"
	"github.com/renbou/grpcbridge/routing"
	"google.golang.org/grpc/codes"
	"google.golang.org/grpc/metadata"
	"google.golang.org/grpc/status"
	"google.golang.org/protobuf/proto"
	"google.golang.org/protobuf/reflect/protoreflect"
	"google.golang.org/protobuf/types/dynamicpb"
)

// script says how the fake target answers one call: N responses, then EOF (Code==0) or a status.
type script struct {
	N    int
	Code codes.Code
	Wait bool // answer only after the client side half-closed (or the call's context ended)
}

// observation is what the recording wrappers saw during one case.
type observation struct {
	mu        sync.Mutex
	routerHit string // "", "http", "grpc"
	routeOK   bool
	routeCode codes.Code
	method    string
	cs, ss    bool
	body      string // binding request body path
	pattern   string
	streams   int
	sent      [][]byte // messages the bridge sent to the target (wire bytes)
	hijacked  bool
	panics    []string
}

type env struct {
	target  *bridgedesc.Target
	allDesc protoreflect.MessageDescriptor
	pr      *routing.PatternRouter
	sr      *routing.ServiceRouter
	canned  [][]byte // wire bytes of canned responses

	mu  sync.Mutex
	scr script
	obs *observation
}

func (e *env) begin(s script) *observation {
	e.mu.Lock()
	defer e.mu.Unlock()
	e.scr = s
	e.obs = &observation{}
	return e.obs
}

func (e *env) cur() (script, *observation) {
	e.mu.Lock()
	defer e.mu.Unlock()
	return e.scr, e.obs
}

// ---- Router wrapper (records, never decides) ----

type recRouter struct{ e *env }

func (r recRouter) RouteHTTP(req *http.Request) (grpcadapter.ClientConn, routing.HTTPRoute, error) {
	conn, route, err := r.e.pr.RouteHTTP(req)
	_, o := r.e.cur()
	o.mu.Lock()
	o.routerHit = "http"
	if err == nil {
		o.routeOK = true
		o.method = route.Method.RPCName
		o.cs, o.ss = route.Method.ClientStreaming, route.Method.ServerStreaming
		o.body = route.Binding.RequestBodyPath
		o.pattern = route.Binding.Pattern
	} else {
		o.routeCode = status.Code(err)
	}
	o.mu.Unlock()
	return conn, route, err
}

func (r recRouter) RouteGRPC(ctx context.Context) (grpcadapter.ClientConn, routing.GRPCRoute, error) {
	conn, route, err := r.e.sr.RouteGRPC(ctx)
	_, o := r.e.cur()
	o.mu.Lock()
	o.routerHit = "grpc"
	if err == nil {
		o.routeOK = true
		o.method = route.Method.RPCName
		o.cs, o.ss = route.Method.ClientStreaming, route.Method.ServerStreaming
	} else {
		o.routeCode = status.Code(err)
	}
	o.mu.Unlock()
	return conn, route, err
}

// ---- fake pool / conn / stream ----

type fakePool struct{ e *env }

func (p fakePool) Get(target string) (grpcadapter.ClientConn, bool) {
	if target != targetName {
		return nil, false
	}
	return fakeConn{p.e}, true
}

type fakeConn struct{ e *env }

func (c fakeConn) Close() {}

func (c fakeConn) Stream(ctx context.Context, method string) (grpcadapter.ClientStream, error) {
	s, o := c.e.cur()
	o.mu.Lock()
	o.streams++
	o.mu.Unlock()
	return &fakeStream{e: c.e, scr: s, obs: o, half: make(chan struct{})}, nil
}

type fakeStream struct {
	e    *env
	scr  script
	obs  *observation
	mu   sync.Mutex
	recv int
	half chan struct{}
	once sync.Once
}

func (s *fakeStream) Send(ctx context.Context, m proto.Message) error {
	if err := ctx.Err(); err != nil {
		return status.FromContextError(err).Err()
	}
	b, err := proto.Marshal(m)
	if err != nil {
		return status.Error(codes.Internal, err.Error())
	}
	s.obs.mu.Lock()
	s.obs.sent = append(s.obs.sent, b)
	s.obs.mu.Unlock()
	return nil
}

func (s *fakeStream) Recv(ctx context.Context, m proto.Message) error {
	if s.scr.Wait {
		select {
		case <-s.half:
		case <-ctx.Done():
			return status.FromContextError(ctx.Err()).Err()
		}
	}
	if err := ctx.Err(); err != nil {
		return status.FromContextError(err).Err()
	}
	s.mu.Lock()
	i := s.recv
	s.recv++
	s.mu.Unlock()
	if i < s.scr.N {
		// the canned response is decoded from wire bytes, as a real connection would do
		return proto.Unmarshal(s.e.canned[i%len(s.e.canned)], m)
	}
	if s.scr.Code == codes.OK {
		return io.EOF
	}
	return status.Error(s.scr.Code, "scripted status \"quoted\" é")
}

func (s *fakeStream) Header() metadata.MD  { return metadata.Pairs("x-resp-header", "h") }
func (s *fakeStream) Trailer() metadata.MD { return metadata.Pairs("x-resp-trailer", "t") }
func (s *fakeStream) CloseSend()           { s.once.Do(func() { close(s.half) }) }
func (s *fakeStream) Close()               { s.CloseSend() }

// cannedResponses builds three response messages of type All touching every field family
// (no NaN/Inf: response-side encodability is C09's/C10's business, not client input).
func cannedResponses(all protoreflect.MessageDescriptor) [][]byte {
	var out [][]byte
	for i := 0; i < 3; i++ {
		m := dynamicpb.NewMessage(all)
		f := all.Fields()
		set := func(name string, v protoreflect.Value) { m.Set(f.ByName(protoreflect.Name(name)), v) }
		set("f_string", protoreflect.ValueOfString("resp \"q\" é <&>"))
		set("f_int32", protoreflect.ValueOfInt32(int32(-7*i)))
		set("f_double", protoreflect.ValueOfFloat64(1.5*float64(i)))
		set("f_bytes", protoreflect.ValueOfBytes([]byte{0, 0xff, byte(i)}))
		set("f_enum", protoreflect.ValueOfEnum(protoreflect.EnumNumber(i)))
		nd := f.ByName("f_nested")
		nm := m.Mutable(nd).Message()
		nm.Set(nm.Descriptor().Fields().ByName("name"), protoreflect.ValueOfString("n"))
		nm.Set(nm.Descriptor().Fields().ByName("color"), protoreflect.ValueOfEnum(5))
		ch := nm.Mutable(nm.Descriptor().Fields().ByName("child")).Message()
		ch.Set(ch.Descriptor().Fields().ByName("n"), protoreflect.ValueOfInt32(3))
		l := m.Mutable(f.ByName("r_int32")).List()
		for j := 0; j <= i; j++ {
			l.Append(protoreflect.ValueOfInt32(int32(j)))
		}
		le := m.Mutable(f.ByName("r_enum")).List()
		le.Append(protoreflect.ValueOfEnum(1))
		le.Append(protoreflect.ValueOfEnum(77)) // unknown number: must be rendered numerically
		ln := m.Mutable(f.ByName("r_nested")).List()
		ln.AppendMutable().Message()
		mp := m.Mutable(f.ByName("m_ss")).Map()
		mp.Set(protoreflect.ValueOfString("k").MapKey(), protoreflect.ValueOfString("v"))
		mu := m.Mutable(f.ByName("m_ue")).Map()
		mu.Set(protoreflect.ValueOfUint64(9).MapKey(), protoreflect.ValueOfEnum(2))
		ts := m.Mutable(f.ByName("w_ts")).Message()
		ts.Set(ts.Descriptor().Fields().ByName("seconds"), protoreflect.ValueOfInt64(1700000000))
		if i == 2 {
			set("o_string", protoreflect.ValueOfString("one"))
		}
		b, err := proto.Marshal(m)
		if err != nil {
			panic(err)
		}
		out = append(out, b)
	}
	return out
}
