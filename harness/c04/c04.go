// Package c04 is the correspondence area of property C04: the real
// transcoding.StandardTranscoder.Bind(...).Transcode (and its stream variant) run on request
// messages whose schemas are built at run time (descriptorpb -> protodesc -> dynamicpb) and are NOT
// in protoregistry.GlobalTypes, compared with the Lean model GB.C04.transcode.
//
// Every case is executed in three registry configurations (see Schema.build): A = target-only types
// (production), B = same types additionally registered globally, C = a decoy with the same names
// registered globally. The results must be identical (registry independence).
//
// Ops (one per line):
//
//	tc <schema> R <root> B <bodypath> <bodybytes> PP <n> {<k> <v>} Q <n> {<k> <nv> {<v>}}
//	    => D <dec> O <n> {<tag> <text> <parse>} RA <res> RB <res|same> RC <res|same>
//	ts <schema> R <root> B <bodypath> <streambytes> N <calls> PP ... Q ...
//	    => D <k> {<dec>} O ... RA <k> {<res>} RB ... RC ...
//	pf <kind> <text>                 => ok <val> | okm <entries> | err      (gwquery.PopulateFieldFromPath on a one-field message)
//	hcp <n> {<dotted seq>} <dotted seq>  => true|false                       (the query filter's prefix test)
package c04

import (
	"bytes"
	"errors"
	"fmt"
	"io"
	"net/http"
	"net/url"
	"os"
	"strconv"
	"strings"

	"github.com/renbou/grpcbridge/bridgedesc"
	"github.com/renbou/grpcbridge/transcoding"
	"github.com/renbou/grpcbridge/verifx"
	"google.golang.org/grpc/codes"
	"google.golang.org/grpc/status"
	"google.golang.org/protobuf/reflect/protoreflect"
	"google.golang.org/protobuf/types/dynamicpb"
	"verif/harness/common"
)

type Area struct{}

func (Area) Name() string { return "c04" }

type kv struct {
	K string
	V []string
}

type tcCase struct {
	Frames   [][]byte // st: one WebSocket text frame per client message
	Op       string
	Schema   *Schema
	Root     string
	BodyPath string
	Body     []byte
	Calls    int
	PP       []kv
	Q        []kv
}

func (c *tcCase) Line() string {
	t := []string{c.Op}
	t = append(t, c.Schema.Tokens()...)
	t = append(t, "R", c.Root, "B", common.HexS(c.BodyPath), common.Hex(c.Body))
	if c.Op == "ts" {
		t = append(t, "N", strconv.Itoa(c.Calls))
	}
	if c.Op == "st" {
		t = append(t, "F", strconv.Itoa(len(c.Frames)))
		for _, fr := range c.Frames {
			t = append(t, common.Hex(fr))
		}
	}
	t = append(t, "PP", strconv.Itoa(len(c.PP)))
	for _, p := range c.PP {
		t = append(t, common.HexS(p.K), common.HexS(p.V[0]))
	}
	t = append(t, "Q", strconv.Itoa(len(c.Q)))
	for _, q := range c.Q {
		t = append(t, common.HexS(q.K), strconv.Itoa(len(q.V)))
		for _, v := range q.V {
			t = append(t, common.HexS(v))
		}
	}
	return strings.Join(t, " ")
}

func parseCase(f []string) *tcCase {
	r := &tokReader{t: f}
	c := &tcCase{Op: r.next()}
	c.Schema = parseSchema(r)
	r.expect("R")
	c.Root = r.next()
	r.expect("B")
	c.BodyPath = string(common.MustUnHex(r.next()))
	c.Body = common.MustUnHex(r.next())
	if c.Op == "ts" {
		r.expect("N")
		c.Calls = r.int()
	}
	if c.Op == "st" {
		r.expect("F")
		n := r.int()
		for i := 0; i < n; i++ {
			c.Frames = append(c.Frames, common.MustUnHex(r.next()))
		}
	}
	r.expect("PP")
	n := r.int()
	for i := 0; i < n; i++ {
		k := string(common.MustUnHex(r.next()))
		c.PP = append(c.PP, kv{k, []string{string(common.MustUnHex(r.next()))}})
	}
	r.expect("Q")
	n = r.int()
	for i := 0; i < n; i++ {
		q := kv{K: string(common.MustUnHex(r.next()))}
		nv := r.int()
		for j := 0; j < nv; j++ {
			q.V = append(q.V, string(common.MustUnHex(r.next())))
		}
		c.Q = append(c.Q, q)
	}
	if r.i != len(f) {
		panic("trailing tokens")
	}
	return c
}

func errTok(err error) string {
	if err == nil {
		return "nil"
	}
	if errors.Is(err, io.EOF) {
		if _, ok := status.FromError(err); !ok {
			return "err eof"
		}
	}
	st, ok := status.FromError(err)
	if !ok {
		return "err nonstatus"
	}
	switch st.Code() {
	case codes.InvalidArgument:
		if os.Getenv("C04_DEBUG") != "" {
			return "err InvalidArgument:" + strings.ReplaceAll(st.Message(), " ", "_")
		}
		return "err InvalidArgument"
	case codes.Internal:
		return "err Internal"
	}
	return "err other" + strconv.Itoa(int(st.Code()))
}

// runReal executes the real bound transcoder in one registry configuration.
func (c *tcCase) runReal(cfg string) (out string) {
	defer func() {
		if r := recover(); r != nil {
			// the panic text names the run-time package of the configuration: not part of the canonical output
			out = "panic x"
			if c.Op == "ts" {
				out = "1 panic x"
			}
		}
	}()
	b, err := c.Schema.build(cfg)
	if err != nil {
		return "buildfail " + common.HexS(err.Error())
	}
	defer func() { out = canonPkg(out, b.Pkg) }()
	body := bytes.ReplaceAll(c.Body, []byte(pkgPlaceholder), []byte(b.Pkg))
	md := b.prodMsg(c.Root)
	target := &bridgedesc.Target{Name: "t", FileResolver: b.Files, TypeResolver: b.Types}
	if b.Prod != nil {
		target = b.Prod
	}
	vals := url.Values{}
	for _, q := range c.Q {
		vals[q.K] = append([]string{}, q.V...)
	}
	pp := map[string]string{}
	for _, p := range c.PP {
		pp[p.K] = p.V[0]
	}
	tr := transcoding.NewStandardTranscoder(transcoding.StandardTranscoderOpts{})
	method := &bridgedesc.Method{RPCName: "/x.S/M", Input: bridgedesc.DynamicMessage(md), Output: bridgedesc.DynamicMessage(md), ClientStreaming: c.Op == "ts"}
	req := transcoding.HTTPRequest{
		Target:     target,
		Service:    &bridgedesc.Service{Name: "x.S"},
		Method:     method,
		Binding:    &bridgedesc.Binding{HTTPMethod: "POST", Pattern: "/x", RequestBodyPath: c.BodyPath},
		RawRequest: &http.Request{Method: "POST", Header: http.Header{}, URL: &url.URL{Path: "/x", RawQuery: vals.Encode()}},
		PathParams: pp,
	}
	in, _, err := tr.Bind(req)
	if err != nil {
		return "bindfail"
	}
	if c.Op == "tc" {
		msg := method.Input.New()
		if err := in.Transcode(body, msg); err != nil {
			return errTok(err)
		}
		return "ok " + msgTok(msg.ProtoReflect())
	}
	st, ok := in.(transcoding.RequestStreamTranscoder)
	if !ok {
		return "nostream"
	}
	stream := st.Stream(bytes.NewReader(body))
	var res []string
	call := func() (r string, stop bool) {
		defer func() {
			if p := recover(); p != nil {
				r, stop = "panic x", true
			}
		}()
		msg := method.Input.New()
		if err := stream.Transcode(msg); err != nil {
			return errTok(err), true
		}
		return "ok " + msgTok(msg.ProtoReflect()), false
	}
	for i := 0; i < c.Calls; i++ {
		r, stop := call()
		res = append(res, r)
		if stop {
			break
		}
	}
	return strconv.Itoa(len(res)) + " " + strings.Join(res, " ")
}

// decOracle: what the marshaler (JSON codec, C09's concern) decodes from the body into a FRESH message
// at the body path — handed to the model as a post-library input.
func (c *tcCase) decOracle() (out string) {
	defer func() {
		if r := recover(); r != nil {
			out = "panic"
		}
	}()
	b, err := c.Schema.build("A")
	if err != nil {
		return "buildfail"
	}
	defer func() { out = canonPkg(out, b.Pkg) }()
	body := bytes.ReplaceAll(c.Body, []byte(pkgPlaceholder), []byte(b.Pkg))
	// A marshaler of its own with the default options: the oracle must not share state with the
	// process-wide transcoding.DefaultJSONMarshaler the real transcoder uses.
	uo := transcoding.DefaultJSONMarshaler.UnmarshalOptions
	uo.Resolver = nil
	oracleMarshaler := &transcoding.JSONMarshaler{MarshalOptions: transcoding.DefaultJSONMarshaler.MarshalOptions, UnmarshalOptions: uo}
	md := b.Msg(c.Root)
	one := func(decode func(protoreflect.Message, protoreflect.FieldDescriptor) (bool, error)) (res string) {
		defer func() {
			if r := recover(); r != nil {
				res = "panic"
			}
		}()
		if c.BodyPath == "" {
			return "none"
		}
		root := dynamicpb.NewMessage(md)
		msg, fd, err := transcoding.VerifTraverseFieldPath(root, c.BodyPath)
		if err != nil {
			return "trav"
		}
		did, err := decode(msg, fd)
		if err != nil {
			if errors.Is(err, io.EOF) && c.Op == "ts" {
				return "eof"
			}
			return "err"
		}
		if !did {
			return "none"
		}
		var es [][]string
		flat(msg, "", &es)
		if fd != nil {
			var keep [][]string
			pfx := string(fd.Name())
			for _, e := range es {
				p := string(common.MustUnHex(e[0]))
				if p == pfx || strings.HasPrefix(p, pfx+".") {
					keep = append(keep, e)
				}
			}
			es = keep
		}
		return "ok " + entriesTok(es)
	}
	if c.Op == "st" {
		var res []string
		for _, fr := range c.Frames {
			frame := bytes.ReplaceAll(fr, []byte(pkgPlaceholder), []byte(b.Pkg))
			res = append(res, one(func(m protoreflect.Message, fd protoreflect.FieldDescriptor) (bool, error) {
				if len(frame) == 0 {
					return false, nil
				}
				return true, oracleMarshaler.Unmarshal(b.Types, frame, m, fd)
			}))
		}
		return strings.TrimSpace(strconv.Itoa(len(res)) + " " + strings.Join(res, " "))
	}
	if c.Op == "tc" {
		return one(func(m protoreflect.Message, fd protoreflect.FieldDescriptor) (bool, error) {
			if len(body) == 0 {
				return false, nil
			}
			return true, oracleMarshaler.Unmarshal(b.Types, body, m, fd)
		})
	}
	dec := oracleMarshaler.NewDecoder(b.Types, bytes.NewReader(body))
	var res []string
	for i := 0; i < c.Calls; i++ {
		r := one(func(m protoreflect.Message, fd protoreflect.FieldDescriptor) (bool, error) {
			return true, dec.Decode(m, fd)
		})
		res = append(res, r)
		if !strings.HasPrefix(r, "ok") && r != "none" {
			break
		}
	}
	return strconv.Itoa(len(res)) + " " + strings.Join(res, " ")
}

func (c *tcCase) oracleTable() string {
	tags := map[string]bool{}
	for _, m := range c.Schema.Msgs {
		if oracleMsgTypes[m.Name] || modelledWrappers[m.Name] {
			tags[m.Name] = true
		}
		for _, f := range m.Fields {
			if f.Kind == "float" || f.Kind == "double" {
				tags[f.Kind] = true
			}
		}
	}
	texts := map[string]bool{}
	for _, p := range c.PP {
		texts[p.V[0]] = true
	}
	for _, q := range c.Q {
		for _, v := range q.V {
			texts[v] = true
		}
		if i := strings.LastIndexByte(q.K, '['); i >= 0 && strings.HasSuffix(q.K, "]") {
			texts[q.K[i+1:len(q.K)-1]] = true
		}
	}
	var tagL, textL []string
	for t := range tags {
		tagL = append(tagL, t)
	}
	for t := range texts {
		textL = append(textL, t)
	}
	sortStrings(tagL)
	sortStrings(textL)
	var parts []string
	n := 0
	for _, tg := range tagL {
		for _, tx := range textL {
			parts = append(parts, tg, common.HexS(tx), oracleParse(tg, tx))
			n++
		}
	}
	return strings.TrimSpace(strconv.Itoa(n) + " " + strings.Join(parts, " "))
}

func (c *tcCase) checkSchema() error {
	b, err := c.Schema.build("A")
	if err != nil {
		return err
	}
	var roots []protoreflect.MessageDescriptor
	for _, m := range c.Schema.Msgs {
		if !isWKT(m.Name) {
			roots = append(roots, b.Msg(m.Name))
		}
	}
	if got := specOf(b.Pkg, roots).String(); got != c.Schema.String() {
		return fmt.Errorf("line schema does not describe the built descriptors:\n line: %s\n desc: %s", c.Schema.String(), got)
	}
	return nil
}

func (Area) Exec(input string) string {
	f := strings.Fields(input)
	switch f[0] {
	case "tc", "ts":
		c := parseCase(f)
		if err := c.checkSchema(); err != nil {
			return "BADSCHEMA " + common.HexS(err.Error())
		}
		ra := c.runReal("A")
		rb := c.runReal("B")
		rc := c.runReal("C")
		if rb == ra {
			rb = "same"
		}
		if rc == ra {
			rc = "same"
		}
		return "D " + c.decOracle() + " O " + c.oracleTable() + " RA " + ra + " RB " + rb + " RC " + rc
	case "st":
		c := parseCase(f)
		if err := c.checkSchema(); err != nil {
			return "BADSCHEMA " + common.HexS(err.Error())
		}
		return "D " + c.decOracle() + " O " + c.oracleTable() + " RS " + c.runWebSocket()
	case "anyres":
		r := &tokReader{t: f, i: 1}
		sch := parseSchema(r)
		u := string(common.MustUnHex(r.next()))
		b, err := sch.build("A")
		if err != nil {
			return "buildfail"
		}
		u = strings.ReplaceAll(u, pkgPlaceholder, b.Pkg)
		// the resolver the production glue installed for the target — must know exactly the target's own files
		if _, err := b.Prod.TypeResolver.FindMessageByURL(u); err != nil {
			return "notfound"
		}
		return "found"
	case "pf":
		return execPF(f[1], string(common.MustUnHex(f[2])))
	case "hcp":
		n, _ := strconv.Atoi(f[1])
		var seqs [][]string
		for i := 0; i < n; i++ {
			seqs = append(seqs, strings.Split(string(common.MustUnHex(f[2+i])), "."))
		}
		seq := strings.Split(string(common.MustUnHex(f[2+n])), ".")
		return strconv.FormatBool(verifx.QueryFilterHasCommonPrefix(seqs, seq))
	}
	return "BADOP"
}

// pfSchema is the fixed one-field-per-kind schema of the pf op (mirrored in GB/C04/Driver.lean).
var pfSchema = func() *Schema {
	s := &Schema{Enums: []EnumSpec{{Name: "PE", Vals: []EnumVal{{"PE_ZERO", 0}, {"PE_ONE", 1}, {"PE_NEG", -1}, {"PE_MAX", 2147483647}, {"ALIAS", 1}}}}}
	m := MsgSpec{Name: "PF"}
	for i, k := range []string{"bool", "int32", "sint32", "sfixed32", "int64", "sint64", "sfixed64", "uint32", "fixed32", "uint64", "fixed64", "string", "bytes"} {
		m.Fields = append(m.Fields, FieldSpec{Name: "f_" + k, JSON: "f_" + k, Num: i + 1, Kind: k, Card: "s", Pres: true, Oneof: "p" + strconv.Itoa(i), Ref: "-"})
	}
	m.Fields = append(m.Fields, FieldSpec{Name: "f_enum", JSON: "f_enum", Num: 30, Kind: "enum", Card: "s", Pres: true, Oneof: "p13", Ref: "PE"})
	for i, w := range []string{"Int64Value", "Int32Value", "UInt64Value", "UInt32Value", "BoolValue", "StringValue", "BytesValue", "FieldMask", "Duration"} {
		m.Fields = append(m.Fields, FieldSpec{Name: "f_" + w, JSON: "f_" + w, Num: 40 + i, Kind: "message", Card: "s", Pres: true, Oneof: "-", Ref: "google.protobuf." + w})
	}
	s.Msgs = []MsgSpec{m}
	return s
}()

func execPF(kind, text string) (out string) {
	defer func() {
		if r := recover(); r != nil {
			out = "panic " + common.HexS(fmt.Sprint(r))
		}
	}()
	b, err := pfSchema.build("A")
	if err != nil {
		return "buildfail " + common.HexS(err.Error())
	}
	msg := dynamicpb.NewMessage(b.Msg("PF"))
	if err := verifx.QueryPopulateFieldFromPath(msg, "f_"+kind, text); err != nil {
		return "err"
	}
	fd := msg.Descriptor().Fields().ByName(protoreflect.Name("f_" + kind))
	if fd == nil {
		return "BADKIND"
	}
	if fd.Message() != nil {
		var es [][]string
		flat(msg.Get(fd).Message(), "", &es)
		return "okm " + entriesTok(es)
	}
	return "ok " + valTok(fd, msg.Get(fd))
}

// pkgPlaceholder stands for the run-time package of the schema inside body bytes (type URLs of
// google.protobuf.Any values); Exec substitutes the package of each registry configuration.
const pkgPlaceholder = "@PKG@"

// canonPkg replaces the (hex-rendered) run-time package name in an output by the placeholder.
func canonPkg(out, pkg string) string {
	return strings.ReplaceAll(out, common.HexS(pkg)[1:], common.HexS(pkgPlaceholder)[1:])
}

func sortStrings(s []string) {
	for i := 1; i < len(s); i++ {
		for j := i; j > 0 && s[j] < s[j-1]; j-- {
			s[j], s[j-1] = s[j-1], s[j]
		}
	}
}
