// Package c04 is the correspondence area of property C04 (stub: the slice is not built yet).
package c04

import (
	"math/rand"
)

type Area struct{}

func (Area) Name() string { return "c04" }

func (Area) Exec(input string) string { return "UNIMPLEMENTED" }

func (Area) Gen(r *rand.Rand, tier string, emit func(string)) {}
