package c04

// Canonical flat rendering of a (dynamic) message: one entry per populated field reachable through
// singular message fields, keyed by the dotted field-name path; messages inside lists/maps are opaque
// blobs (deterministic wire bytes). Also the "post-library" oracles handed to the Lean driver.

import (
	"encoding/base64"
	"encoding/binary"
	"math"
	"sort"
	"strconv"
	"strings"
	"time"
	"unicode/utf8"

	"google.golang.org/protobuf/encoding/protojson"
	"google.golang.org/protobuf/proto"
	"google.golang.org/protobuf/reflect/protoreflect"
	"google.golang.org/protobuf/types/known/durationpb"
	"google.golang.org/protobuf/types/known/fieldmaskpb"
	"google.golang.org/protobuf/types/known/structpb"
	"google.golang.org/protobuf/types/known/timestamppb"
	"google.golang.org/protobuf/types/known/wrapperspb"
	"verif/harness/common"
)

func valTok(fd protoreflect.FieldDescriptor, v protoreflect.Value) string {
	switch fd.Kind() {
	case protoreflect.BoolKind:
		if v.Bool() {
			return "b1"
		}
		return "b0"
	case protoreflect.EnumKind:
		return "i" + strconv.FormatInt(int64(v.Enum()), 10)
	case protoreflect.Int32Kind, protoreflect.Sint32Kind, protoreflect.Sfixed32Kind,
		protoreflect.Int64Kind, protoreflect.Sint64Kind, protoreflect.Sfixed64Kind:
		return "i" + strconv.FormatInt(v.Int(), 10)
	case protoreflect.Uint32Kind, protoreflect.Fixed32Kind, protoreflect.Uint64Kind, protoreflect.Fixed64Kind:
		return "i" + strconv.FormatUint(v.Uint(), 10)
	case protoreflect.FloatKind:
		var b [4]byte
		binary.BigEndian.PutUint32(b[:], math.Float32bits(float32(v.Float())))
		return "o" + common.Hex(b[:])[1:]
	case protoreflect.DoubleKind:
		var b [8]byte
		binary.BigEndian.PutUint64(b[:], math.Float64bits(v.Float()))
		return "o" + common.Hex(b[:])[1:]
	case protoreflect.StringKind:
		return common.HexS(v.String())
	case protoreflect.BytesKind:
		return common.Hex(v.Bytes())
	case protoreflect.MessageKind, protoreflect.GroupKind:
		return blobTok(v.Message())
	}
	panic("kind")
}

func blobTok(m protoreflect.Message) string {
	b, err := proto.MarshalOptions{Deterministic: true}.Marshal(m.Interface())
	if err != nil {
		// e.g. invalid UTF-8 in a proto3 string: fall back to the flat rendering as the blob
		return "o" + common.HexS("!" + msgTok(m))[1:]
	}
	return "o" + common.Hex(b)[1:]
}

func mapKeyTok(fd protoreflect.FieldDescriptor, k protoreflect.MapKey) string {
	return valTok(fd.MapKey(), k.Value())
}

// flat appends the entries of m (prefix = dotted path of m, "" for the root) to out.
func flat(m protoreflect.Message, prefix string, out *[][]string) {
	var fds []protoreflect.FieldDescriptor
	vals := map[protoreflect.FieldNumber]protoreflect.Value{}
	m.Range(func(fd protoreflect.FieldDescriptor, v protoreflect.Value) bool {
		fds = append(fds, fd)
		vals[fd.Number()] = v
		return true
	})
	sort.Slice(fds, func(i, j int) bool { return fds[i].Number() < fds[j].Number() })
	for _, fd := range fds {
		v := vals[fd.Number()]
		p := string(fd.Name())
		if prefix != "" {
			p = prefix + "." + p
		}
		switch {
		case fd.IsList():
			l := v.List()
			e := []string{common.HexS(p), "l", strconv.Itoa(l.Len())}
			for i := 0; i < l.Len(); i++ {
				e = append(e, valTok(fd, l.Get(i)))
			}
			*out = append(*out, e)
		case fd.IsMap():
			var kvs [][2]string
			v.Map().Range(func(k protoreflect.MapKey, mv protoreflect.Value) bool {
				kvs = append(kvs, [2]string{mapKeyTok(fd, k), valTok(fd.MapValue(), mv)})
				return true
			})
			sort.Slice(kvs, func(i, j int) bool { return kvs[i][0] < kvs[j][0] })
			e := []string{common.HexS(p), "m", strconv.Itoa(len(kvs))}
			for _, kv := range kvs {
				e = append(e, kv[0], kv[1])
			}
			*out = append(*out, e)
		case fd.Message() != nil:
			*out = append(*out, []string{common.HexS(p), "p"})
			flat(v.Message(), p, out)
		default:
			*out = append(*out, []string{common.HexS(p), "s", valTok(fd, v)})
		}
	}
}

func entriesTok(es [][]string) string {
	parts := []string{strconv.Itoa(len(es))}
	for _, e := range es {
		parts = append(parts, e...)
	}
	return strings.Join(parts, " ")
}

func msgTok(m protoreflect.Message) string {
	var es [][]string
	flat(m, "", &es)
	return entriesTok(es)
}

// ---- opaque parse oracle: results of the libraries gwquery.parseField delegates to ----

// opaqueTypes are the type tags whose text form the model does not parse itself.
var modelledWrappers = map[string]bool{
	"google.protobuf.Int64Value": true, "google.protobuf.Int32Value": true, "google.protobuf.UInt64Value": true,
	"google.protobuf.UInt32Value": true, "google.protobuf.BoolValue": true, "google.protobuf.StringValue": true,
	"google.protobuf.BytesValue": true, "google.protobuf.FieldMask": true,
}

var oracleMsgTypes = map[string]bool{
	"google.protobuf.Timestamp": true, "google.protobuf.Duration": true, "google.protobuf.DoubleValue": true,
	"google.protobuf.FloatValue": true, "google.protobuf.Value": true, "google.protobuf.Struct": true,
}

// oracleParse returns the oracle entry tokens for (type tag, text): "err" | "okv <val>" | "okm <blob> <entries>".
// It calls the standard-library / protobuf-library functions directly (NOT gwquery).
func oracleParse(tag, text string) string {
	switch tag {
	case "float":
		v, err := strconv.ParseFloat(text, 32)
		if err != nil {
			return "err"
		}
		var b [4]byte
		binary.BigEndian.PutUint32(b[:], math.Float32bits(float32(v)))
		return "okv o" + common.Hex(b[:])[1:]
	case "double":
		v, err := strconv.ParseFloat(text, 64)
		if err != nil {
			return "err"
		}
		var b [8]byte
		binary.BigEndian.PutUint64(b[:], math.Float64bits(v))
		return "okv o" + common.Hex(b[:])[1:]
	}
	var msg proto.Message
	switch tag {
	case "google.protobuf.Timestamp":
		t, err := time.Parse(time.RFC3339Nano, text)
		if err != nil {
			return "err"
		}
		msg = timestamppb.New(t)
	case "google.protobuf.Duration":
		d, err := time.ParseDuration(text)
		if err != nil {
			return "err"
		}
		msg = durationpb.New(d)
	case "google.protobuf.DoubleValue":
		v, err := strconv.ParseFloat(text, 64)
		if err != nil {
			return "err"
		}
		msg = wrapperspb.Double(v)
	case "google.protobuf.FloatValue":
		v, err := strconv.ParseFloat(text, 32)
		if err != nil {
			return "err"
		}
		msg = wrapperspb.Float(float32(v))
	case "google.protobuf.Value":
		var v structpb.Value
		if err := protojson.Unmarshal([]byte(text), &v); err != nil {
			return "err"
		}
		msg = &v
	case "google.protobuf.Struct":
		var v structpb.Struct
		if err := protojson.Unmarshal([]byte(text), &v); err != nil {
			return "err"
		}
		msg = &v
	case "google.protobuf.Int64Value":
		v, err := strconv.ParseInt(text, 10, 64)
		if err != nil {
			return "err"
		}
		msg = wrapperspb.Int64(v)
	case "google.protobuf.Int32Value":
		v, err := strconv.ParseInt(text, 10, 32)
		if err != nil {
			return "err"
		}
		msg = wrapperspb.Int32(int32(v))
	case "google.protobuf.UInt64Value":
		v, err := strconv.ParseUint(text, 10, 64)
		if err != nil {
			return "err"
		}
		msg = wrapperspb.UInt64(v)
	case "google.protobuf.UInt32Value":
		v, err := strconv.ParseUint(text, 10, 32)
		if err != nil {
			return "err"
		}
		msg = wrapperspb.UInt32(uint32(v))
	case "google.protobuf.BoolValue":
		v, err := strconv.ParseBool(text)
		if err != nil {
			return "err"
		}
		msg = wrapperspb.Bool(v)
	case "google.protobuf.StringValue":
		if !utf8.ValidString(text) {
			return "err"
		}
		msg = wrapperspb.String(text)
	case "google.protobuf.BytesValue":
		v, err := base64.StdEncoding.DecodeString(text)
		if err != nil {
			v, err = base64.URLEncoding.DecodeString(text)
			if err != nil {
				return "err"
			}
		}
		msg = wrapperspb.Bytes(v)
	case "google.protobuf.FieldMask":
		if !utf8.ValidString(text) {
			return "err"
		}
		msg = &fieldmaskpb.FieldMask{Paths: strings.Split(text, ",")}
	default:
		return "err"
	}
	return "okm " + blobTok(msg.ProtoReflect()) + " " + msgTok(msg.ProtoReflect())
}
