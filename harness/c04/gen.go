package c04

// Generators: random schemas (all scalar kinds, enums, nested messages, oneofs, proto3 optional,
// lists, maps with every key kind, wrappers / well-known types) and schema-directed cases
// (bindings, bodies, path parameters, query parameters), plus a malformed stream.

import (
	"bytes"
	"encoding/base64"
	"fmt"
	"math/rand"
	"strconv"
	"strings"

	"github.com/renbou/grpcbridge/transcoding"
	"google.golang.org/protobuf/proto"
	"google.golang.org/protobuf/reflect/protoreflect"
	"google.golang.org/protobuf/types/dynamicpb"
	"verif/harness/common"
)

var scalarKinds = []string{"bool", "int32", "sint32", "sfixed32", "int64", "sint64", "sfixed64", "uint32", "fixed32", "uint64", "fixed64", "float", "double", "string", "bytes"}
var mapKeyKinds = []string{"bool", "int32", "sint32", "sfixed32", "int64", "sint64", "sfixed64", "uint32", "fixed32", "uint64", "fixed64", "string"}
var wktPool = []string{"Timestamp", "Duration", "Int64Value", "Int32Value", "UInt64Value", "UInt32Value", "BoolValue", "StringValue", "BytesValue", "DoubleValue", "FloatValue", "FieldMask", "Struct", "Value", "Empty", "Any", "Any"}

func lowerCamel(s string) string {
	var b strings.Builder
	up := false
	for _, c := range s {
		if c == '_' {
			up = true
			continue
		}
		if up && c >= 'a' && c <= 'z' {
			c -= 32
		}
		up = false
		b.WriteRune(c)
	}
	return b.String()
}

// genSchema returns a canonical schema (closure incl. WKTs, as recomputed from the built descriptors).
func genSchema(r *rand.Rand) *Schema {
	for {
		s := genUserSchema(r)
		b, err := s.build("A")
		if err != nil {
			continue
		}
		var roots []protoreflect.MessageDescriptor
		for _, m := range s.Msgs {
			roots = append(roots, b.Msg(m.Name))
		}
		// canonical spec is computed with the package of the NON-canonical build; names are package-free
		return specOf(b.Pkg, roots)
	}
}

func genUserSchema(r *rand.Rand) *Schema {
	s := &Schema{}
	ne := 1 + r.Intn(2)
	for i := 0; i < ne; i++ {
		e := EnumSpec{Name: fmt.Sprintf("E%d", i)}
		e.Vals = append(e.Vals, EnumVal{fmt.Sprintf("E%d_ZERO", i), 0})
		nums := []int32{1, 2, 5, -3, 100, 2147483647, -2147483648, 1}
		nv := 1 + r.Intn(4)
		for j := 0; j < nv; j++ {
			e.Vals = append(e.Vals, EnumVal{fmt.Sprintf("E%d_V%d", i, j), nums[r.Intn(len(nums))]})
		}
		s.Enums = append(s.Enums, e)
	}
	nm := 2 + r.Intn(2)
	for mi := 0; mi < nm; mi++ {
		m := MsgSpec{Name: fmt.Sprintf("M%d", mi)}
		num := 1
		oneofN := 0
		add := func(name, kind, card, ref, oneof string) {
			f := FieldSpec{Name: name, JSON: lowerCamel(name), Num: num, Kind: kind, Card: card, Oneof: oneof, Ref: ref}
			if r.Intn(12) == 0 {
				f.JSON = "J" + strconv.Itoa(num) // custom json_name
			}
			num += 1 + r.Intn(2)
			m.Fields = append(m.Fields, f)
		}
		randType := func(allowMsg bool) (kind, ref string) {
			switch x := r.Intn(10); {
			case x < 5:
				return common.Pick(r, scalarKinds), "-"
			case x < 6:
				return "enum", s.Enums[r.Intn(len(s.Enums))].Name
			case x < 8 && allowMsg:
				return "message", "google.protobuf." + common.Pick(r, wktPool)
			case allowMsg:
				return "message", fmt.Sprintf("M%d", r.Intn(nm))
			}
			return "string", "-"
		}
		nf := 3 + r.Intn(6)
		for fi := 0; fi < nf; fi++ {
			name := fmt.Sprintf("f%d_%s", fi, common.Pick(r, []string{"a", "bc", "x_y", "val"}))
			switch x := r.Intn(12); {
			case x < 6: // singular
				k, ref := randType(true)
				oneof := "-"
				if k != "message" && r.Intn(4) == 0 {
					oneof = fmt.Sprintf("p%d", 50+fi) // proto3 optional
				}
				add(name, k, "s", ref, oneof)
			case x < 8: // list
				k, ref := randType(true)
				add(name, k, "l", ref, "-")
			case x < 10: // map
				k, ref := randType(true)
				add(name, k, "m:"+common.Pick(r, mapKeyKinds), ref, "-")
			default: // oneof group of 2..3 members
				o := fmt.Sprintf("o%d", oneofN)
				oneofN++
				n := 2 + r.Intn(2)
				for j := 0; j < n; j++ {
					k, ref := randType(true)
					add(fmt.Sprintf("%s_m%d", name, j), k, "s", ref, o)
				}
			}
		}
		// every message but the last has a singular link to the next one, so nested paths exist
		if mi+1 < nm {
			add("sub", "message", "s", fmt.Sprintf("M%d", mi+1), "-")
		} else if r.Intn(2) == 0 {
			add("back", "message", "s", "M0", "-")
		}
		s.Msgs = append(s.Msgs, m)
	}
	return s
}

// ---- schema navigation ----

type leaf struct {
	names []string // proto names from the root
	jsons []string
	f     FieldSpec
}

func (s *Schema) msg(name string) *MsgSpec {
	for i := range s.Msgs {
		if s.Msgs[i].Name == name {
			return &s.Msgs[i]
		}
	}
	return nil
}

func (s *Schema) enum(name string) *EnumSpec {
	for i := range s.Enums {
		if s.Enums[i].Name == name {
			return &s.Enums[i]
		}
	}
	return nil
}

// leaves lists every field reachable from root through singular message fields up to the given depth
// (message fields themselves are listed too).
func (s *Schema) leaves(root string, depth int) []leaf {
	var out []leaf
	var rec func(m *MsgSpec, names, jsons []string, d int)
	rec = func(m *MsgSpec, names, jsons []string, d int) {
		for _, f := range m.Fields {
			n := append(append([]string{}, names...), f.Name)
			j := append(append([]string{}, jsons...), f.JSON)
			out = append(out, leaf{n, j, f})
			if f.Kind == "message" && f.Card == "s" && d > 0 {
				if sub := s.msg(f.Ref); sub != nil {
					rec(sub, n, j, d-1)
				}
			}
		}
	}
	rec(s.msg(root), nil, nil, depth)
	return out
}

// ---- text values ----

var intTexts = []string{"0", "1", "-1", "7", "42", "+5", "-0", "00012", "2147483647", "2147483648", "-2147483648", "-2147483649",
	"4294967295", "4294967296", "4294967297", "9223372036854775807", "9223372036854775808", "-9223372036854775808", "-9223372036854775809",
	"18446744073709551615", "18446744073709551616", "99999999999999999999999", "", "1_000", "0x10", " 1", "1 ", "1e3", "1.0", "٣", "+", "-", "abc", "1\n"}

func textFor(r *rand.Rand, s *Schema, kind, ref string, valid bool) string {
	if !valid && r.Intn(3) == 0 {
		return common.Pick(r, []string{"", "zzz", "-", "1.5.2", "{", "\xff\xfe", "tru", "١"})
	}
	switch kind {
	case "bool":
		if valid {
			return common.Pick(r, []string{"true", "false", "1", "0", "t", "f", "T", "F", "TRUE", "FALSE", "True", "False"})
		}
		return common.Pick(r, []string{"yes", "no", "tRUE", "2", "", "truee", "TrUe"})
	case "int32", "sint32", "sfixed32", "int64", "sint64", "sfixed64", "uint32", "fixed32", "uint64", "fixed64":
		if valid {
			if strings.HasPrefix(kind, "u") || strings.HasPrefix(kind, "fixed") {
				return common.Pick(r, []string{"0", "1", "7", "42", "00012", "2147483647", "4294967295", strconv.Itoa(r.Intn(2000))})
			}
			return common.Pick(r, []string{"0", "1", "-1", "+5", "-0", "2147483647", "-2147483648", strconv.Itoa(r.Intn(2000) - 300)})
		}
		return common.Pick(r, intTexts)
	case "float", "double":
		if valid {
			return common.Pick(r, []string{"0", "1.5", "-2.25", "1e10", "NaN", "Inf", "-Inf", "-0", "3.4028235e38", "1e39", "0x1p-2", "1_0", ".5", "+1"})
		}
		return common.Pick(r, []string{"abc", "1e400", "", "1,5", "--1"})
	case "string":
		if !valid || r.Intn(6) == 0 {
			// ill-formed UTF-8: stray continuation / invalid lead bytes, overlong forms, surrogates, > U+10FFFF, truncated sequences
			return common.Pick(r, []string{"\xff", "\x80", "a\xc0\x80", "\xc1\xbf", "\xe0\x80\x80", "\xe0\x9f\xbf", "\xed\xa0\x80", "\xed\xbf\xbf",
				"\xf0\x80\x80\x80", "\xf0\x8f\xbf\xbf", "\xf4\x90\x80\x80", "\xf5\x80\x80\x80", "\xe2\x82", "ok\xe2", "\xf0\x9d\x84", "\xc3", "a,\xfe", "\xc3\x28", "\xe2\x28\xa1"})
		}
		return common.Pick(r, []string{"", "hello", "a b", "a,b", "x=y&z", "[k]", "ünï", "true", "12", "a.b", "line\nbreak", "€", "𝄞", "\xed\x9f\xbf", "\xee\x80\x80", "\xf4\x8f\xbf\xbf", "\xf0\x90\x80\x80", "\xc2\x80", "\xdf\xbf", "\xe0\xa0\x80", "\x00", "\x7f"})
	case "bytes":
		raw := common.RandBytes(r, r.Intn(7), nil)
		if valid {
			switch r.Intn(5) {
			case 0:
				return base64.URLEncoding.EncodeToString(raw)
			case 1:
				e := base64.StdEncoding.EncodeToString(raw)
				if len(e) > 2 {
					return e[:2] + "\n" + e[2:]
				}
				return e
			case 2:
				return common.Pick(r, []string{"", "+/+/", "-_-_", "AA==", "AB==", "AAA=", "////", "____", "+-+-"})
			}
			return base64.StdEncoding.EncodeToString(raw)
		}
		return common.Pick(r, []string{"A", "AA", "AAA", "A===", "AA=", "AA=A", "AA==A", "====", "!!!!", "AAAA=", "AA==\n", "A\rA==", "=AAA", "AAAAA", "AA==AA==", base64.RawStdEncoding.EncodeToString(raw)})
	case "enum":
		e := s.enum(ref)
		if e == nil {
			return "0"
		}
		v := e.Vals[r.Intn(len(e.Vals))]
		if valid {
			switch r.Intn(4) {
			case 0:
				return strconv.Itoa(int(v.Num))
			case 1:
				return "+" + strconv.Itoa(int(v.Num))
			case 2:
				return strconv.FormatInt(int64(v.Num)+(1<<32), 10) // Atoi then int32 truncation
			}
			return v.Name
		}
		return common.Pick(r, []string{strings.ToLower(v.Name), "77", "", "9223372036854775808", "1.0", v.Name + " ", "-77"})
	case "message":
		switch strings.TrimPrefix(ref, "google.protobuf.") {
		case "Timestamp":
			if valid {
				return common.Pick(r, []string{"2020-01-02T03:04:05Z", "1970-01-01T00:00:00Z", "2020-01-02T03:04:05.123456789+01:00", "0001-01-01T00:00:00Z", "9999-12-31T23:59:59.999999999Z", "1969-12-31T23:59:59.5Z"})
			}
			return common.Pick(r, []string{"2020-01-02", "bad", "", "2020-01-02T03:04:05", "12345"})
		case "Duration":
			if valid {
				return common.Pick(r, []string{"1s", "1.5s", "0", "-2h3m", "100ms", "1ns", "2562047h", "0.000000001s", "+3s"})
			}
			return common.Pick(r, []string{"1", "bad", "", "1 s", "3d", "99999999h"})
		case "Int64Value":
			return textFor(r, s, "int64", "-", valid)
		case "Int32Value":
			return textFor(r, s, "int32", "-", valid)
		case "UInt64Value":
			return textFor(r, s, "uint64", "-", valid)
		case "UInt32Value":
			return textFor(r, s, "uint32", "-", valid)
		case "BoolValue":
			return textFor(r, s, "bool", "-", valid)
		case "StringValue":
			return textFor(r, s, "string", "-", valid)
		case "BytesValue":
			return textFor(r, s, "bytes", "-", valid)
		case "DoubleValue", "FloatValue":
			return textFor(r, s, "double", "-", valid)
		case "FieldMask":
			if !valid {
				return common.Pick(r, []string{"\xff", "a,\xed\xa0\x80", "a\xc0\x80,b", "\xe2\x82"})
			}
			return common.Pick(r, []string{"a", "a,b.c", "", ",", "a,,b", "fooBar", "é,€"})
		case "Struct":
			if valid {
				return common.Pick(r, []string{`{}`, `{"a":1}`, `{"a":{"b":[1,"x",null,true]}}`})
			}
			return common.Pick(r, []string{`[]`, `{`, ``, `1`, `{"a":}`})
		case "Value":
			if valid {
				return common.Pick(r, []string{`1`, `"x"`, `null`, `true`, `[1,2]`, `{"a":1}`, `1.5e3`})
			}
			return common.Pick(r, []string{`x`, ``, `{`, `[1,`})
		}
		return common.Pick(r, []string{"", "{}", "x", "1"})
	}
	return "x"
}

// ---- random message values (for bodies) ----

func randScalar(r *rand.Rand, fd protoreflect.FieldDescriptor) protoreflect.Value {
	switch fd.Kind() {
	case protoreflect.BoolKind:
		return protoreflect.ValueOfBool(r.Intn(2) == 0)
	case protoreflect.EnumKind:
		vs := fd.Enum().Values()
		return protoreflect.ValueOfEnum(vs.Get(r.Intn(vs.Len())).Number())
	case protoreflect.Int32Kind, protoreflect.Sint32Kind, protoreflect.Sfixed32Kind:
		return protoreflect.ValueOfInt32(common.Pick(r, []int32{0, 1, -1, 77, 2147483647, -2147483648}))
	case protoreflect.Int64Kind, protoreflect.Sint64Kind, protoreflect.Sfixed64Kind:
		return protoreflect.ValueOfInt64(common.Pick(r, []int64{0, 1, -1, 1 << 40, 9223372036854775807, -9223372036854775808}))
	case protoreflect.Uint32Kind, protoreflect.Fixed32Kind:
		return protoreflect.ValueOfUint32(common.Pick(r, []uint32{0, 1, 77, 4294967295}))
	case protoreflect.Uint64Kind, protoreflect.Fixed64Kind:
		return protoreflect.ValueOfUint64(common.Pick(r, []uint64{0, 1, 1 << 50, 18446744073709551615}))
	case protoreflect.FloatKind:
		return protoreflect.ValueOfFloat32(common.Pick(r, []float32{0, 1.5, -2.25, 3e10}))
	case protoreflect.DoubleKind:
		return protoreflect.ValueOfFloat64(common.Pick(r, []float64{0, 1.5, -2.25, 1e100}))
	case protoreflect.StringKind:
		return protoreflect.ValueOfString(common.Pick(r, []string{"", "s", "hello world", "ü", "a.b"}))
	case protoreflect.BytesKind:
		return protoreflect.ValueOfBytes(common.RandBytes(r, r.Intn(5), nil))
	}
	panic("scalar kind")
}

// genCtx is the schema the generator is currently producing bodies for (generation is single-threaded).
var genCtx struct {
	b *Built
	s *Schema
}

// fillRandom populates msg with random values of its fields (bounded depth). WKT messages whose JSON
// form is special are filled so that they stay valid (Timestamp/Duration ranges, Value needs a kind).
func fillRandom(r *rand.Rand, msg protoreflect.Message, depth int) {
	md := msg.Descriptor()
	switch md.FullName() {
	case "google.protobuf.Timestamp", "google.protobuf.Duration":
		msg.Set(md.Fields().ByName("seconds"), protoreflect.ValueOfInt64(int64(r.Intn(100000))))
		msg.Set(md.Fields().ByName("nanos"), protoreflect.ValueOfInt32(int32(r.Intn(1000))))
		return
	case "google.protobuf.Value":
		switch r.Intn(3) {
		case 0:
			msg.Set(md.Fields().ByName("number_value"), protoreflect.ValueOfFloat64(float64(r.Intn(50))))
		case 1:
			msg.Set(md.Fields().ByName("string_value"), protoreflect.ValueOfString("sv"))
		default:
			msg.Set(md.Fields().ByName("bool_value"), protoreflect.ValueOfBool(true))
		}
		return
	case "google.protobuf.Any":
		// an Any naming a message type of the schema itself: only the request's own target can resolve it
		if genCtx.b == nil || r.Intn(5) == 0 {
			return
		}
		var users []string
		for _, m := range genCtx.s.Msgs {
			if !isWKT(m.Name) {
				users = append(users, m.Name)
			}
		}
		inner := dynamicpb.NewMessage(genCtx.b.Msg(users[r.Intn(len(users))]))
		fillRandom(r, inner, 0)
		raw, err := proto.MarshalOptions{Deterministic: true}.Marshal(inner)
		if err != nil {
			return
		}
		msg.Set(md.Fields().ByName("type_url"), protoreflect.ValueOfString("type.googleapis.com/"+string(inner.Descriptor().FullName())))
		msg.Set(md.Fields().ByName("value"), protoreflect.ValueOfBytes(raw))
		return
	case "google.protobuf.FieldMask":
		l := msg.Mutable(md.Fields().ByName("paths")).List()
		for i := r.Intn(3); i > 0; i-- {
			l.Append(protoreflect.ValueOfString(common.Pick(r, []string{"a", "b.c", "foo_bar"})))
		}
		return
	}
	fields := md.Fields()
	doneOneof := map[string]bool{}
	for i := 0; i < fields.Len(); i++ {
		fd := fields.Get(i)
		if r.Intn(3) == 0 {
			continue
		}
		if od := fd.ContainingOneof(); od != nil && !od.IsSynthetic() {
			if doneOneof[string(od.Name())] {
				continue
			}
			doneOneof[string(od.Name())] = true
		}
		elem := func(vfd protoreflect.FieldDescriptor, newMsg func() protoreflect.Value) (protoreflect.Value, bool) {
			if vfd.Message() != nil {
				if depth <= 0 {
					return protoreflect.Value{}, false
				}
				v := newMsg()
				fillRandom(r, v.Message(), depth-1)
				return v, true
			}
			return randScalar(r, vfd), true
		}
		switch {
		case fd.IsList():
			l := msg.Mutable(fd).List()
			for n := r.Intn(3); n > 0; n-- {
				if v, ok := elem(fd, l.NewElement); ok {
					l.Append(v)
				}
			}
		case fd.IsMap():
			mp := msg.Mutable(fd).Map()
			for n := r.Intn(3); n > 0; n-- {
				if v, ok := elem(fd.MapValue(), mp.NewValue); ok {
					mp.Set(randScalar(r, fd.MapKey()).MapKey(), v)
				}
			}
		case fd.Message() != nil:
			if depth > 0 {
				fillRandom(r, msg.Mutable(fd).Message(), depth-1)
			}
		default:
			msg.Set(fd, randScalar(r, fd))
		}
	}
}

// genBody produces JSON for the body bound at bodyPath (marshalled by the real JSON marshaler from a
// random value), or a malformed / edge-case body.
func genBody(r *rand.Rand, b *Built, root, bodyPath string) []byte {
	switch r.Intn(24) {
	case 0, 1:
		return nil
	case 2:
		return []byte(common.Pick(r, []string{"{", "nul", "[1,", "\"abc", "{}x", "tru", " ", "{\"nope\":1}", "null", "{}", "[]", "0", "\"\""}))
	}
	defer func() { _ = recover() }()
	md := b.Msg(root)
	genCtx.b = b
	rootMsg := dynamicpb.NewMessage(md)
	msg, fd, err := transcoding.VerifTraverseFieldPath(rootMsg, bodyPath)
	if err != nil {
		return []byte("{}")
	}
	if fd == nil {
		fillRandom(r, msg, 2)
	} else {
		// fill the whole parent, then marshal only fd
		fillRandom(r, msg, 2)
		if !msg.Has(fd) && fd.Message() != nil && !fd.IsList() && !fd.IsMap() {
			fillRandom(r, msg.Mutable(fd).Message(), 1)
		}
	}
	out, err := transcoding.DefaultJSONMarshaler.Marshal(b.Types, msg, fd)
	if err != nil {
		return []byte("{}")
	}
	return bytes.ReplaceAll(out, []byte(b.Pkg), []byte(pkgPlaceholder))
}

// ---- cases ----

func pathKey(r *rand.Rand, l leaf, jsonMix bool) string {
	parts := make([]string, len(l.names))
	for i := range parts {
		parts[i] = l.names[i]
		if jsonMix && r.Intn(2) == 0 {
			parts[i] = l.jsons[i]
		}
	}
	return strings.Join(parts, ".")
}

// jsonSpell rewrites the elements of a dotted proto-name key to the fields' JSON names (where they resolve).
func jsonSpell(r *rand.Rand, s *Schema, root, key string) string {
	parts := strings.Split(key, ".")
	m := s.msg(root)
	for i, p := range parts {
		if m == nil {
			break
		}
		var f *FieldSpec
		for j := range m.Fields {
			if m.Fields[j].Name == p {
				f = &m.Fields[j]
			}
		}
		if f == nil {
			break
		}
		if r.Intn(4) != 0 {
			parts[i] = f.JSON
		}
		m = nil
		if f.Kind == "message" && f.Card == "s" {
			m = s.msg(f.Ref)
		}
	}
	return strings.Join(parts, ".")
}

func parseableElem(l leaf) bool {
	return l.f.Kind != "message" || isWKT(l.f.Ref) && l.f.Ref != "google.protobuf.Empty" && l.f.Ref != "google.protobuf.Any"
}

func isScalarLeaf(l leaf) bool {
	return l.f.Card == "s" && parseableElem(l)
}

func genCase(r *rand.Rand, s *Schema, b *Built, op string) *tcCase {
	c := &tcCase{Op: op, Schema: s, Root: "M0"}
	genCtx.s, genCtx.b = s, b
	ls := s.leaves("M0", 2)
	var scal, lists, maps []leaf
	for _, l := range ls {
		switch {
		case isScalarLeaf(l):
			scal = append(scal, l)
		case l.f.Card == "l" && (parseableElem(l) || r.Intn(10) == 0):
			lists = append(lists, l)
		case strings.HasPrefix(l.f.Card, "m:") && (parseableElem(l) || r.Intn(10) == 0):
			maps = append(maps, l)
		}
	}
	anyLeaf := func() leaf { return ls[r.Intn(len(ls))] }
	goodLeaf := func() leaf {
		if len(scal) > 0 && r.Intn(8) != 0 {
			return scal[r.Intn(len(scal))]
		}
		return anyLeaf()
	}
	// body path
	switch x := r.Intn(40); {
	case x < 12:
		c.BodyPath = ""
	case x < 20:
		c.BodyPath = "*"
	case x < 36:
		c.BodyPath = pathKey(r, anyLeaf(), false)
	case x < 38:
		c.BodyPath = pathKey(r, anyLeaf(), true) // JSON names are not allowed in body paths
	default:
		l := anyLeaf()
		c.BodyPath = common.Pick(r, []string{"nope", l.names[0] + ".", l.names[0] + "..x", "." + l.names[0], l.names[0] + ".nope", "sub.sub.nope", "*.x", "."})
	}
	// a google.protobuf.Any body whose @type the TARGET's files may or may not define (types linked into the
	// bridge binary but unknown to the target must be rejected)
	foreignAny := func() []byte {
		return []byte(common.Pick(r, []string{
			`{"@type":"type.googleapis.com/google.rpc.Status","code":3,"message":"x"}`,
			`{"@type":"type.googleapis.com/google.protobuf.FileDescriptorProto","name":"a.proto"}`,
			`{"@type":"type.googleapis.com/google.protobuf.DescriptorProto","name":"M"}`,
			`{"@type":"type.googleapis.com/grpc.reflection.v1alpha.ErrorResponse","errorCode":5}`,
			`{"@type":"type.googleapis.com/google.protobuf.Duration","value":"1.5s"}`,
			`{"@type":"type.googleapis.com/google.protobuf.Int32Value","value":7}`,
			`{"@type":"type.googleapis.com/` + pkgPlaceholder + `.M0"}`,
			`{"@type":"type.googleapis.com/nope.Nope"}`,
		}))
	}
	var anyLeaves []leaf
	for _, l := range ls {
		if l.f.Card == "s" && l.f.Ref == "google.protobuf.Any" {
			anyLeaves = append(anyLeaves, l)
		}
	}
	useForeign := len(anyLeaves) > 0 && r.Intn(6) == 0
	if useForeign {
		c.BodyPath = pathKey(r, anyLeaves[r.Intn(len(anyLeaves))], false)
	}
	if op == "st" {
		n := 3 + r.Intn(2)
		for i := 0; i < n; i++ {
			fr := genBody(r, b, c.Root, c.BodyPath)
			if useForeign && r.Intn(2) == 0 {
				fr = foreignAny()
			}
			if bytes.ContainsAny(fr, "\xff\xfe") {
				fr = []byte("{}")
			}
			c.Frames = append(c.Frames, fr)
		}
	} else if op == "tc" {
		c.Body = genBody(r, b, c.Root, c.BodyPath)
		if useForeign {
			c.Body = foreignAny()
		}
	} else {
		c.Calls = 1 + r.Intn(3)
		n := r.Intn(4)
		for i := 0; i < n; i++ {
			c.Body = append(c.Body, genBody(r, b, c.Root, c.BodyPath)...)
			c.Body = append(c.Body, common.Pick(r, []string{"\n", " ", "", "\n\n"})...)
		}
	}
	// path params
	np := common.Pick(r, []int{0, 0, 1, 1, 1, 2, 2, 3})
	seenK := map[string]bool{}
	for i := 0; i < np; i++ {
		l := goodLeaf()
		k := pathKey(r, l, r.Intn(10) == 0)
		switch r.Intn(25) {
		case 0:
			k = "nope"
		case 1:
			k = k + ".zzz"
		case 2:
			k = ""
		case 3:
			k = k + "."
		}
		if seenK[k] {
			continue
		}
		seenK[k] = true
		v := textFor(r, s, l.f.Kind, l.f.Ref, r.Intn(20) != 0)
		c.PP = append(c.PP, kv{k, []string{v}})
	}
	// query
	nq := common.Pick(r, []int{0, 1, 1, 2, 2, 3, 4})
	seenQ := map[string]bool{}
	addQ := func(k string, vs ...string) {
		if seenQ[k] || len(vs) == 0 {
			return
		}
		seenQ[k] = true
		c.Q = append(c.Q, kv{k, vs})
	}
	for i := 0; i < nq; i++ {
		switch x := r.Intn(20); {
		case x < 9: // scalar-ish leaf, mostly valid
			l := goodLeaf()
			vs := []string{textFor(r, s, l.f.Kind, l.f.Ref, r.Intn(20) != 0)}
			if r.Intn(15) == 0 {
				vs = append(vs, textFor(r, s, l.f.Kind, l.f.Ref, true))
			}
			addQ(pathKey(r, l, r.Intn(2) == 0), vs...)
		case x < 12 && len(lists) > 0: // repeated
			l := lists[r.Intn(len(lists))]
			var vs []string
			for n := 1 + r.Intn(3); n > 0; n-- {
				vs = append(vs, textFor(r, s, l.f.Kind, l.f.Ref, r.Intn(25) != 0))
			}
			addQ(pathKey(r, l, r.Intn(2) == 0), vs...)
		case x < 15 && len(maps) > 0: // map: key[sub]=v
			l := maps[r.Intn(len(maps))]
			kk := textFor(r, s, l.f.Card[2:], "-", r.Intn(25) != 0)
			vv := textFor(r, s, l.f.Kind, l.f.Ref, r.Intn(25) != 0)
			k := pathKey(r, l, r.Intn(2) == 0)
			switch r.Intn(10) {
			case 0:
				addQ(k, vv) // no [sub]
			case 1:
				addQ(k+"["+kk+"]", vv, vv) // too many
			default:
				addQ(k+"["+kk+"]", vv)
			}
		case x < 17: // something bound: the body path, below it, or a path-param key
			var k string
			if len(c.PP) > 0 && r.Intn(2) == 0 {
				k = c.PP[r.Intn(len(c.PP))].K
			} else {
				k = c.BodyPath
			}
			if r.Intn(3) == 0 {
				k += "." + anyLeaf().names[0]
			}
			if r.Intn(2) == 0 {
				k = jsonSpell(r, s, c.Root, k) // the same bound field, spelled with JSON names
			}
			addQ(k, common.Pick(r, []string{"1", "true", "x", "E0_ZERO"}))
		case x < 18: // unknown / odd keys
			addQ(common.Pick(r, []string{"nope", "sub.nope", "a[b", "a]b[", "[x]", "x[]", "sub[k][j]", "", ".", "sub.", "sub..x", "nope[k]"}), "1")
		default: // any field at all (messages, lists of messages, ...)
			l := anyLeaf()
			k := pathKey(r, l, r.Intn(2) == 0)
			if strings.HasPrefix(l.f.Card, "m:") && r.Intn(4) != 0 {
				k += "[" + textFor(r, s, l.f.Card[2:], "-", true) + "]"
			}
			addQ(k, textFor(r, s, l.f.Kind, l.f.Ref, true))
		}
	}
	return c
}

func (Area) Gen(r *rand.Rand, tier string, emit func(string)) {
	// 1. prefix test of the query filter
	segs := []string{"a", "b", "c", "d", ""}
	rseq := func() string {
		n := 1 + r.Intn(3)
		p := make([]string, n)
		for i := range p {
			p[i] = common.Pick(r, segs)
		}
		return strings.Join(p, ".")
	}
	nh := 1500
	if tier == "thorough" {
		nh = 40000
	}
	for i := 0; i < nh; i++ {
		n := r.Intn(4)
		t := []string{"hcp", strconv.Itoa(n)}
		for j := 0; j < n; j++ {
			t = append(t, common.HexS(rseq()))
		}
		t = append(t, common.HexS(rseq()))
		emit(strings.Join(t, " "))
	}
	// 2. text parsing of every modelled kind
	pfKinds := []string{"bool", "int32", "sint32", "sfixed32", "int64", "sint64", "sfixed64", "uint32", "fixed32", "uint64", "fixed64", "string", "bytes", "enum",
		"Int64Value", "Int32Value", "UInt64Value", "UInt32Value", "BoolValue", "StringValue", "BytesValue", "FieldMask", "Duration"}
	for _, k := range pfKinds {
		base := k
		ref := "-"
		switch {
		case k == "enum":
			ref = "PE"
		case strings.HasSuffix(k, "Value") || k == "FieldMask" || k == "Duration":
			base, ref = "message", "google.protobuf."+k
		}
		seen := map[string]bool{}
		try := func(t string) {
			if !seen[t] {
				seen[t] = true
				emit("pf " + k + " " + common.HexS(t))
			}
		}
		for _, t := range intTexts {
			try(t)
		}
		for _, t := range []string{"PE_ZERO", "PE_ONE", "PE_NEG", "PE_MAX", "ALIAS", "pe_one", "4294967297", "-4294967297", "8589934591", "2147483648", "-2147483649", "+1", "1 "} {
			try(t)
		}
		n := 150
		if tier == "thorough" {
			n = 4000
		}
		if k == "Duration" {
			for _, t := range durationTexts {
				try(t)
			}
			for i := 0; i < 6*n; i++ {
				try(randDuration(r))
			}
		}
		for i := 0; i < n; i++ {
			try(textFor(r, pfSchema, base, ref, r.Intn(3) != 0))
			if base == "bytes" || k == "BytesValue" {
				try(string(common.RandBytes(r, r.Intn(9), []byte("AQgw+/-_=\n\rZ9"))))
			}
			if strings.Contains(k, "int") || strings.Contains(k, "Int") || strings.Contains(k, "fixed") {
				try(string(common.RandBytes(r, 1+r.Intn(21), []byte("0123456789+-"))))
			}
		}
	}
	// 3. whole-transcoder cases on random schemas
	nSchemas, perSchema, perSchemaWS := 30, 90, 8
	if tier == "thorough" {
		nSchemas, perSchema, perSchemaWS = 60, 1500, 60
	}
	for si := 0; si < nSchemas; si++ {
		s := genSchema(r)
		b, err := s.build("A")
		if err != nil {
			continue
		}
		for i := 0; i < perSchema; i++ {
			op := "tc"
			if r.Intn(6) == 0 {
				op = "ts"
			}
			emit(genCase(r, s, b, op).Line())
		}
		// the same generator driven through the real WebSocket bridge + ProxyForwarder, several messages on one stream
		for i := 0; i < perSchemaWS; i++ {
			emit(genCase(r, s, b, "st").Line())
		}
		// which Any type URLs the production-built target resolves
		for _, u := range []string{"type.googleapis.com/" + pkgPlaceholder + ".M0", pkgPlaceholder + ".M1", "a/b/" + pkgPlaceholder + ".M0", "type.googleapis.com/M0",
			"type.googleapis.com/google.protobuf.Duration", "type.googleapis.com/google.protobuf.Any", "google.protobuf.Struct",
			"type.googleapis.com/google.rpc.Status", "type.googleapis.com/google.protobuf.FileDescriptorProto", "type.googleapis.com/google.protobuf.DescriptorProto",
			"type.googleapis.com/grpc.reflection.v1alpha.ErrorResponse", "type.googleapis.com/grpc.reflection.v1.ErrorResponse", "google.rpc.Status",
			"type.googleapis.com/nope.Nope", "", "type.googleapis.com/", "type.googleapis.com/" + pkgPlaceholder + ".Nope", "type.googleapis.com/google.protobuf.Api"} {
			if si%3 == 0 || r.Intn(4) == 0 {
				emit("anyres " + s.String() + " " + common.HexS(u))
			}
		}
	}
}

// durationTexts: the grammar of time.ParseDuration ([-+]?([0-9]*(\.[0-9]*)?[a-z]+)+) at its edges: canonical proto3 JSON
// forms ("1.5s", 0 to 9 fraction digits), every unit, sums, signs, the int64 nanosecond range, fractions finer than the
// unit (Go rounds through float64 there), missing digits / units, junk.
var durationTexts = []string{
	"0", "+0", "-0", "0s", "1s", "-1s", "+1s", "1.5s", "-1.5s", "0.5s", ".5s", "5.s", ".s", "-.s", "1.s", "1.0s", "1.000000000s",
	"0.000000001s", "0.999999999s", "-0.999999999s", "0.0000000001s", "0.0000000019s", "1.0000000000s", "1.0000000001s", "3.000000000000000000000000s",
	"1.9999999999s", "0.1234567891s", "9223372036s", "9223372036.854775807s", "9223372036.854775808s", "-9223372036.854775808s", "-9223372036.854775809s",
	"9223372037s", "315576000000s", "-315576000000s", "315576000001s", "1h", "1m", "1ms", "1us", "1\u00b5s", "1\u03bcs", "1ns", "1.5ns", "1.5us", "1.0005us", "1.5ms", "1.0000005ms",
	"1.5m", "1.5h", "0.00000000001h", "0.000000000001h", "1h2m3s4ms5us6ns", "-1h2m3s", "1h-2m", "1h+2m", "2m1h", "1s1s", "1.5s1.5s", "2562047h", "2562047h47m16.854775807s",
	"2562047h47m16.854775808s", "-2562047h47m16.854775808s", "2562048h", "153722867m", "153722868m", "9223372036854775807ns", "9223372036854775808ns",
	"-9223372036854775808ns", "9223372036854775809ns", "18446744073709551616ns", "99999999999999999999s", "00001s", "1S", "1 s", " 1s", "1s ", "1", "-1", "s", "-", "+", "",
	"1d", "1w", "1sec", "1.5", "1..5s", "1.5.5s", "1e3s", "0x1s", "1_000s", "\u0661s", "1s\n", "--1s", "+-1s", "1,5s", "NaNs", "infs", "0h0m0s", "0.0s", "-0.0s", "1h0.5s",
	"0.3s", "0.1s0.2s", "4000000000.5s", "1000000h", "1.00000000001h", "1.23456789012h", "0.7m", "0.0166666666666m",
}

func randDuration(r *rand.Rand) string {
	units := []string{"ns", "us", "\u00b5s", "\u03bcs", "ms", "s", "s", "s", "m", "h", "d", "", "S"}
	var b strings.Builder
	switch r.Intn(6) {
	case 0:
		b.WriteByte('-')
	case 1:
		b.WriteByte('+')
	}
	for n := 1 + r.Intn(3); n > 0; n-- {
		switch r.Intn(8) {
		case 0: // no integer part
		case 1:
			b.WriteString(strconv.FormatUint(r.Uint64()>>uint(r.Intn(64)), 10))
		default:
			b.WriteString(strconv.Itoa(r.Intn(100000)))
		}
		if r.Intn(2) == 0 {
			b.WriteByte('.')
			for k := r.Intn(14); k > 0; k-- {
				b.WriteByte(byte('0' + r.Intn(10)))
			}
		}
		b.WriteString(units[r.Intn(len(units))])
		if r.Intn(3) > 0 {
			break
		}
	}
	return b.String()
}
