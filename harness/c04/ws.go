package c04

// The `st` op: one generated binding driven through the REAL glue —
// webbridge.TranscodedWebSocketBridge → default grpcadapter.ProxyForwarder → a recording ClientConn —
// with k client messages on ONE WebSocket stream. The target records every request message it is sent.

import (
	"context"
	"io"
	"net/http"
	"net/http/httptest"
	"net/url"
	"strconv"
	"strings"
	"sync"
	"time"

	"github.com/gorilla/websocket"
	"github.com/renbou/grpcbridge/bridgedesc"
	"github.com/renbou/grpcbridge/grpcadapter"
	"github.com/renbou/grpcbridge/routing"
	"github.com/renbou/grpcbridge/transcoding"
	"github.com/renbou/grpcbridge/webbridge"
	"google.golang.org/grpc/codes"
	"google.golang.org/grpc/metadata"
	"google.golang.org/grpc/status"
	"google.golang.org/protobuf/proto"
	"verif/harness/common"
)

type recRouter struct {
	conn  grpcadapter.ClientConn
	route routing.HTTPRoute
}

func (r *recRouter) RouteHTTP(*http.Request) (grpcadapter.ClientConn, routing.HTTPRoute, error) {
	return r.conn, r.route, nil
}

type recorder struct {
	mu       sync.Mutex
	received []string // canonical rendering of every message at the moment the target is sent it
	want     int
	pkg      string
}

func (r *recorder) count() int {
	r.mu.Lock()
	defer r.mu.Unlock()
	return len(r.received)
}

type recConn struct{ r *recorder }

func (c *recConn) Stream(context.Context, string) (grpcadapter.ClientStream, error) {
	return &recStream{r: c.r}, nil
}
func (c *recConn) Close() {}

type recStream struct{ r *recorder }

func (s *recStream) Send(_ context.Context, msg proto.Message) error {
	tok := "ok " + msgTok(msg.ProtoReflect())
	s.r.mu.Lock()
	s.r.received = append(s.r.received, tok)
	s.r.mu.Unlock()
	return nil
}

// Recv: the target answers nothing and ends the call with OK once it has been sent every expected message
// (or the call is torn down, or 2 s pass).
func (s *recStream) Recv(ctx context.Context, _ proto.Message) error {
	deadline := time.Now().Add(2 * time.Second)
	for s.r.count() < s.r.want && time.Now().Before(deadline) {
		select {
		case <-ctx.Done():
			return status.FromContextError(ctx.Err()).Err()
		case <-time.After(200 * time.Microsecond):
		}
	}
	return io.EOF
}
func (s *recStream) Header() metadata.MD  { return nil }
func (s *recStream) Trailer() metadata.MD { return nil }
func (s *recStream) CloseSend()           {}
func (s *recStream) Close()               {}

// recoverTranscoder runs the real transcoder; its only job is to turn a panic of the request transcoding —
// which happens on a goroutine of the bridge and would otherwise kill the harness process — into a recorded
// outcome ("panic x" in the list of messages) and an Internal error that ends the stream.
type recoverTranscoder struct {
	inner transcoding.HTTPTranscoder
	rec   *recorder
}

func (t recoverTranscoder) Bind(req transcoding.HTTPRequest) (transcoding.HTTPRequestTranscoder, transcoding.HTTPResponseTranscoder, error) {
	in, out, err := t.inner.Bind(req)
	if err != nil {
		return in, out, err
	}
	return recoverReq{HTTPRequestTranscoder: in, rec: t.rec}, out, nil
}

type recoverReq struct {
	transcoding.HTTPRequestTranscoder
	rec *recorder
}

func (r recoverReq) Transcode(b []byte, msg proto.Message) (err error) {
	defer func() {
		if p := recover(); p != nil {
			r.rec.mu.Lock()
			r.rec.received = append(r.rec.received, "panic x")
			r.rec.mu.Unlock()
			err = status.Error(codes.Internal, "request transcoding panicked")
		}
	}()
	return r.HTTPRequestTranscoder.Transcode(b, msg)
}

// runWebSocket returns "<n> <res>*": the request messages the target was sent, in order.
func (c *tcCase) runWebSocket() (out string) {
	defer func() {
		if r := recover(); r != nil {
			out = "1 panic x"
		}
	}()
	b, err := c.Schema.build("A")
	if err != nil {
		return "1 buildfail " + common.HexS(err.Error())
	}
	defer func() { out = canonPkg(out, b.Pkg) }()
	md := b.prodMsg(c.Root)
	method := &bridgedesc.Method{RPCName: "/x.S/M", Input: bridgedesc.DynamicMessage(md), Output: bridgedesc.DynamicMessage(md), ClientStreaming: true, ServerStreaming: true}
	pp := map[string]string{}
	for _, p := range c.PP {
		pp[p.K] = p.V[0]
	}
	rec := &recorder{want: len(c.Frames), pkg: b.Pkg}
	router := &recRouter{conn: &recConn{r: rec}, route: routing.HTTPRoute{
		Target:     b.Prod,
		Service:    &bridgedesc.Service{Name: "x.S", Methods: []bridgedesc.Method{*method}},
		Method:     method,
		Binding:    &bridgedesc.Binding{HTTPMethod: "GET", Pattern: "/call", RequestBodyPath: c.BodyPath},
		PathParams: pp,
	}}
	bridge := webbridge.NewTranscodedWebSocketBridge(router, webbridge.TranscodedWebSocketBridgeOpts{
		Transcoder: recoverTranscoder{inner: transcoding.NewStandardTranscoder(transcoding.StandardTranscoderOpts{}), rec: rec},
	})
	srv := httptest.NewServer(bridge)
	defer srv.Close()

	vals := url.Values{}
	for _, q := range c.Q {
		vals[q.K] = append([]string{}, q.V...)
	}
	u := "ws" + strings.TrimPrefix(srv.URL, "http") + "/call"
	if enc := vals.Encode(); enc != "" {
		u += "?" + enc
	}
	dialer := websocket.Dialer{HandshakeTimeout: 5 * time.Second}
	conn, _, err := dialer.Dial(u, http.Header{"Content-Type": []string{"application/json"}})
	if err != nil {
		return "1 noupgrade x"
	}
	defer conn.Close()
	conn.SetCloseHandler(func(code int, _ string) error {
		_ = conn.WriteControl(websocket.CloseMessage, websocket.FormatCloseMessage(code, ""), time.Now().Add(time.Second))
		return nil
	})
	for _, fr := range c.Frames {
		frame := strings.ReplaceAll(string(fr), pkgPlaceholder, b.Pkg)
		if err := conn.WriteMessage(websocket.TextMessage, []byte(frame)); err != nil {
			break
		}
	}
	// read until the bridge closes the stream (normal end after the last message, or an error close)
	_ = conn.SetReadDeadline(time.Now().Add(5 * time.Second))
	for {
		if _, _, err := conn.ReadMessage(); err != nil {
			break
		}
	}
	rec.mu.Lock()
	res := append([]string{}, rec.received...)
	rec.mu.Unlock()
	return strings.TrimSpace(strconv.Itoa(len(res)) + " " + strings.Join(res, " "))
}
