package c04

// Schema specs: the textual schema carried on every case line, its conversion to real
// descriptors built at run time (descriptorpb -> protodesc -> dynamicpb), and back
// (descriptor -> spec) so that Exec can check the line describes exactly the descriptors used.

import (
	"crypto/sha256"
	"encoding/hex"
	"fmt"
	"sort"
	"strconv"
	"strings"
	"sync"

	"github.com/renbou/grpcbridge/bridgedesc"
	"github.com/renbou/grpcbridge/reflection"
	"google.golang.org/protobuf/proto"
	"google.golang.org/protobuf/reflect/protodesc"
	"google.golang.org/protobuf/reflect/protoreflect"
	"google.golang.org/protobuf/reflect/protoregistry"
	"google.golang.org/protobuf/types/descriptorpb"
	"google.golang.org/protobuf/types/dynamicpb"
	"google.golang.org/protobuf/types/known/anypb"
	"google.golang.org/protobuf/types/known/durationpb"
	"google.golang.org/protobuf/types/known/emptypb"
	"google.golang.org/protobuf/types/known/fieldmaskpb"
	"google.golang.org/protobuf/types/known/structpb"
	"google.golang.org/protobuf/types/known/timestamppb"
	"google.golang.org/protobuf/types/known/wrapperspb"
)

type FieldSpec struct {
	Name, JSON string
	Num        int
	Kind       string // bool int32 sint32 sfixed32 int64 sint64 sfixed64 uint32 fixed32 uint64 fixed64 float double string bytes enum message
	Card       string // s | l | m:<keykind>
	Pres       bool
	Oneof      string // "-" | o<i> (real oneof i) | p<i> (proto3 optional, synthetic oneof i)
	Ref        string // enum / message name ("-" if none); user types without package, WKTs fully qualified
}

type MsgSpec struct {
	Name   string
	Fields []FieldSpec
}

type EnumVal struct {
	Name string
	Num  int32
}

type EnumSpec struct {
	Name string
	Vals []EnumVal
}

type Schema struct {
	Enums []EnumSpec
	Msgs  []MsgSpec
}

func isWKT(name string) bool { return strings.HasPrefix(name, "google.protobuf.") }

// ---- tokens ----

func (s *Schema) Tokens() []string {
	t := []string{"S", strconv.Itoa(len(s.Enums))}
	for _, e := range s.Enums {
		t = append(t, "E", e.Name, strconv.Itoa(len(e.Vals)))
		for _, v := range e.Vals {
			t = append(t, v.Name, strconv.Itoa(int(v.Num)))
		}
	}
	t = append(t, strconv.Itoa(len(s.Msgs)))
	for _, m := range s.Msgs {
		t = append(t, "M", m.Name, strconv.Itoa(len(m.Fields)))
		for _, f := range m.Fields {
			p := "0"
			if f.Pres {
				p = "1"
			}
			t = append(t, "F", f.Name, f.JSON, strconv.Itoa(f.Num), f.Kind, f.Card, p, f.Oneof, f.Ref)
		}
	}
	return t
}

func (s *Schema) String() string { return strings.Join(s.Tokens(), " ") }

type tokReader struct {
	t []string
	i int
}

func (r *tokReader) next() string {
	if r.i >= len(r.t) {
		panic("line too short")
	}
	r.i++
	return r.t[r.i-1]
}

func (r *tokReader) expect(s string) {
	if g := r.next(); g != s {
		panic(fmt.Sprintf("expected %q got %q at %d", s, g, r.i-1))
	}
}

func (r *tokReader) int() int {
	n, err := strconv.Atoi(r.next())
	if err != nil {
		panic(err)
	}
	return n
}

func parseSchema(r *tokReader) *Schema {
	s := &Schema{}
	r.expect("S")
	ne := r.int()
	for i := 0; i < ne; i++ {
		r.expect("E")
		e := EnumSpec{Name: r.next()}
		nv := r.int()
		for j := 0; j < nv; j++ {
			n := r.next()
			e.Vals = append(e.Vals, EnumVal{n, int32(r.int())})
		}
		s.Enums = append(s.Enums, e)
	}
	nm := r.int()
	for i := 0; i < nm; i++ {
		r.expect("M")
		m := MsgSpec{Name: r.next()}
		nf := r.int()
		for j := 0; j < nf; j++ {
			r.expect("F")
			f := FieldSpec{Name: r.next(), JSON: r.next()}
			f.Num = r.int()
			f.Kind = r.next()
			f.Card = r.next()
			f.Pres = r.next() == "1"
			f.Oneof = r.next()
			f.Ref = r.next()
			m.Fields = append(m.Fields, f)
		}
		s.Msgs = append(s.Msgs, m)
	}
	return s
}

// ---- spec -> descriptors ----

var kindToType = map[string]descriptorpb.FieldDescriptorProto_Type{
	"bool": descriptorpb.FieldDescriptorProto_TYPE_BOOL, "int32": descriptorpb.FieldDescriptorProto_TYPE_INT32,
	"sint32": descriptorpb.FieldDescriptorProto_TYPE_SINT32, "sfixed32": descriptorpb.FieldDescriptorProto_TYPE_SFIXED32,
	"int64": descriptorpb.FieldDescriptorProto_TYPE_INT64, "sint64": descriptorpb.FieldDescriptorProto_TYPE_SINT64,
	"sfixed64": descriptorpb.FieldDescriptorProto_TYPE_SFIXED64, "uint32": descriptorpb.FieldDescriptorProto_TYPE_UINT32,
	"fixed32": descriptorpb.FieldDescriptorProto_TYPE_FIXED32, "uint64": descriptorpb.FieldDescriptorProto_TYPE_UINT64,
	"fixed64": descriptorpb.FieldDescriptorProto_TYPE_FIXED64, "float": descriptorpb.FieldDescriptorProto_TYPE_FLOAT,
	"double": descriptorpb.FieldDescriptorProto_TYPE_DOUBLE, "string": descriptorpb.FieldDescriptorProto_TYPE_STRING,
	"bytes": descriptorpb.FieldDescriptorProto_TYPE_BYTES, "enum": descriptorpb.FieldDescriptorProto_TYPE_ENUM,
	"message": descriptorpb.FieldDescriptorProto_TYPE_MESSAGE,
}

var kindName = map[protoreflect.Kind]string{
	protoreflect.BoolKind: "bool", protoreflect.Int32Kind: "int32", protoreflect.Sint32Kind: "sint32",
	protoreflect.Sfixed32Kind: "sfixed32", protoreflect.Int64Kind: "int64", protoreflect.Sint64Kind: "sint64",
	protoreflect.Sfixed64Kind: "sfixed64", protoreflect.Uint32Kind: "uint32", protoreflect.Fixed32Kind: "fixed32",
	protoreflect.Uint64Kind: "uint64", protoreflect.Fixed64Kind: "fixed64", protoreflect.FloatKind: "float",
	protoreflect.DoubleKind: "double", protoreflect.StringKind: "string", protoreflect.BytesKind: "bytes",
	protoreflect.EnumKind: "enum", protoreflect.MessageKind: "message", protoreflect.GroupKind: "message",
}

var wktFiles = []protoreflect.FileDescriptor{
	timestamppb.File_google_protobuf_timestamp_proto, durationpb.File_google_protobuf_duration_proto,
	wrapperspb.File_google_protobuf_wrappers_proto, fieldmaskpb.File_google_protobuf_field_mask_proto,
	structpb.File_google_protobuf_struct_proto, emptypb.File_google_protobuf_empty_proto,
	anypb.File_google_protobuf_any_proto,
}

func typeRef(pkg, name string) string {
	if isWKT(name) {
		return "." + name
	}
	return "." + pkg + "." + name
}

func mapEntryName(field string) string {
	// protoc: CamelCase(field) + "Entry"
	var b strings.Builder
	up := true
	for _, c := range field {
		if c == '_' {
			up = true
			continue
		}
		if up && c >= 'a' && c <= 'z' {
			c -= 32
		}
		up = false
		b.WriteRune(c)
	}
	return b.String() + "Entry"
}

// fileProto builds the user file of the schema in package pkg. shift != 0 builds the decoy variant
// (same full names, different enum numbers/value names, no message fields).
func (s *Schema) fileProto(pkg string, decoy bool) *descriptorpb.FileDescriptorProto {
	fdp := &descriptorpb.FileDescriptorProto{
		Name:    proto.String(pkg + ".proto"),
		Package: proto.String(pkg),
		Syntax:  proto.String("proto3"),
	}
	for _, f := range wktFiles {
		fdp.Dependency = append(fdp.Dependency, f.Path())
	}
	for _, e := range s.Enums {
		if isWKT(e.Name) {
			continue
		}
		ep := &descriptorpb.EnumDescriptorProto{Name: proto.String(e.Name)}
		seen := map[int32]bool{}
		for i, v := range e.Vals {
			num, name := v.Num, v.Name
			if decoy && i > 0 {
				num, name = v.Num+1000, "DECOY_"+v.Name
			}
			if seen[num] {
				ep.Options = &descriptorpb.EnumOptions{AllowAlias: proto.Bool(true)}
			}
			seen[num] = true
			ep.Value = append(ep.Value, &descriptorpb.EnumValueDescriptorProto{Name: proto.String(name), Number: proto.Int32(num)})
		}
		fdp.EnumType = append(fdp.EnumType, ep)
	}
	for _, m := range s.Msgs {
		if isWKT(m.Name) {
			continue
		}
		mp := &descriptorpb.DescriptorProto{Name: proto.String(m.Name)}
		if decoy {
			fdp.MessageType = append(fdp.MessageType, mp)
			continue
		}
		// real oneofs first, then synthetic ones, each in index order
		type od struct {
			idx  int
			name string
		}
		var reals, synth []od
		seenO := map[string]bool{}
		for _, f := range m.Fields {
			if f.Oneof == "-" || seenO[f.Oneof] {
				continue
			}
			seenO[f.Oneof] = true
			i, _ := strconv.Atoi(f.Oneof[1:])
			if f.Oneof[0] == 'o' {
				reals = append(reals, od{i, fmt.Sprintf("oo%d", i)})
			} else {
				synth = append(synth, od{i, "_" + f.Name})
			}
		}
		sort.Slice(reals, func(i, j int) bool { return reals[i].idx < reals[j].idx })
		sort.Slice(synth, func(i, j int) bool { return synth[i].idx < synth[j].idx })
		declIdx := map[string]int32{}
		for _, o := range append(append([]od{}, reals...), synth...) {
			key := "o" + strconv.Itoa(o.idx)
			if strings.HasPrefix(o.name, "_") {
				key = "p" + strconv.Itoa(o.idx)
			}
			declIdx[key] = int32(len(mp.OneofDecl))
			mp.OneofDecl = append(mp.OneofDecl, &descriptorpb.OneofDescriptorProto{Name: proto.String(o.name)})
		}
		for _, f := range m.Fields {
			fp := &descriptorpb.FieldDescriptorProto{
				Name: proto.String(f.Name), JsonName: proto.String(f.JSON), Number: proto.Int32(int32(f.Num)),
				Label: descriptorpb.FieldDescriptorProto_LABEL_OPTIONAL.Enum(),
			}
			setType := func(fp *descriptorpb.FieldDescriptorProto, kind, ref string) {
				fp.Type = kindToType[kind].Enum()
				if kind == "enum" || kind == "message" {
					fp.TypeName = proto.String(typeRef(pkg, ref))
				}
			}
			switch {
			case f.Card == "s":
				setType(fp, f.Kind, f.Ref)
			case f.Card == "l":
				fp.Label = descriptorpb.FieldDescriptorProto_LABEL_REPEATED.Enum()
				setType(fp, f.Kind, f.Ref)
			case strings.HasPrefix(f.Card, "m:"):
				en := mapEntryName(f.Name)
				entry := &descriptorpb.DescriptorProto{
					Name:    proto.String(en),
					Options: &descriptorpb.MessageOptions{MapEntry: proto.Bool(true)},
				}
				kf := &descriptorpb.FieldDescriptorProto{Name: proto.String("key"), JsonName: proto.String("key"), Number: proto.Int32(1), Label: descriptorpb.FieldDescriptorProto_LABEL_OPTIONAL.Enum()}
				setType(kf, f.Card[2:], "")
				vf := &descriptorpb.FieldDescriptorProto{Name: proto.String("value"), JsonName: proto.String("value"), Number: proto.Int32(2), Label: descriptorpb.FieldDescriptorProto_LABEL_OPTIONAL.Enum()}
				setType(vf, f.Kind, f.Ref)
				entry.Field = []*descriptorpb.FieldDescriptorProto{kf, vf}
				mp.NestedType = append(mp.NestedType, entry)
				fp.Label = descriptorpb.FieldDescriptorProto_LABEL_REPEATED.Enum()
				fp.Type = descriptorpb.FieldDescriptorProto_TYPE_MESSAGE.Enum()
				fp.TypeName = proto.String("." + pkg + "." + m.Name + "." + en)
			default:
				panic("bad card " + f.Card)
			}
			if f.Oneof != "-" {
				fp.OneofIndex = proto.Int32(declIdx[f.Oneof])
				if f.Oneof[0] == 'p' {
					fp.Proto3Optional = proto.Bool(true)
				}
			}
			mp.Field = append(mp.Field, fp)
		}
		fdp.MessageType = append(fdp.MessageType, mp)
	}
	return fdp
}

// freshWKTFiles returns a private registry holding re-built copies of the well-known-type files
// (the production situation: the target's own google/protobuf/*.proto arrive via reflection).
func freshWKTFiles() *protoregistry.Files {
	files := &protoregistry.Files{}
	for _, f := range wktFiles {
		fd, err := protodesc.NewFile(protodesc.ToFileDescriptorProto(f), files)
		if err != nil {
			panic(err)
		}
		if err := files.RegisterFile(fd); err != nil {
			panic(err)
		}
	}
	return files
}

// Built is one materialisation of a schema.
type Built struct {
	Files *protoregistry.Files
	Types *dynamicpb.Types
	Pkg   string
	File  protoreflect.FileDescriptor
	// Prod is the bridgedesc.Target the PRODUCTION glue builds from the same file descriptors
	// (reflection.parseFileDescriptors: what a reflection resolver hands to routing and transcoding).
	// The real transcoder runs with Prod's resolvers; Files/Types above stay the harness's own, independent
	// resolvers (used by the body-decode oracle). nil in configuration B.
	Prod *bridgedesc.Target
}

// prodMsg returns the request message descriptor as the production target's file resolver knows it.
func (b *Built) prodMsg(name string) protoreflect.MessageDescriptor {
	if b.Prod == nil {
		return b.Msg(name)
	}
	full := protoreflect.FullName(name)
	if !isWKT(name) {
		full = protoreflect.FullName(b.Pkg + "." + name)
	}
	d, err := b.Prod.FileResolver.FindDescriptorByName(full)
	if err != nil {
		panic(fmt.Sprintf("prod message %s: %v", full, err))
	}
	return d.(protoreflect.MessageDescriptor)
}

// prodTarget builds the target through the production path from the descriptor set a reflection server
// would send: the target's own copies of the google/protobuf files it imports, then its own file.
func prodTarget(userFile *descriptorpb.FileDescriptorProto) (*bridgedesc.Target, error) {
	fds := &descriptorpb.FileDescriptorSet{}
	for _, f := range wktFiles {
		fds.File = append(fds.File, protodesc.ToFileDescriptorProto(f))
	}
	fds.File = append(fds.File, userFile)
	t, _, err := reflection.VerifParseFileDescriptors("c04", nil, fds)
	return t, err
}

func (b *Built) Msg(name string) protoreflect.MessageDescriptor {
	full := protoreflect.FullName(name)
	if !isWKT(name) {
		full = protoreflect.FullName(b.Pkg + "." + name)
	}
	d, err := b.Files.FindDescriptorByName(full)
	if err != nil {
		panic(fmt.Sprintf("message %s: %v", full, err))
	}
	return d.(protoreflect.MessageDescriptor)
}

func schemaHash(s string) string {
	h := sha256.Sum256([]byte(s))
	return hex.EncodeToString(h[:8])
}

var (
	buildMu    sync.Mutex
	buildCache = map[string]*Built{}
)

// build materialises the schema in configuration cfg:
//
//	"A": private registries only — nothing of the schema is in protoregistry.Global* (production situation)
//	"B": the same file is additionally registered in protoregistry.GlobalFiles/GlobalTypes (the target
//	     itself is built by the production path from its own files, as in A)
//	"C": private registries, while protoregistry.Global* holds a DECOY file with the same full names
//	     but different enum numbers / value names and empty messages
func (s *Schema) build(cfg string) (b *Built, err error) {
	str := s.String()
	key := cfg + str
	buildMu.Lock()
	defer buildMu.Unlock()
	if b, ok := buildCache[key]; ok {
		return b, nil
	}
	defer func() {
		if r := recover(); r != nil {
			err = fmt.Errorf("build: %v", r)
		}
		if err == nil {
			if len(buildCache) > 4096 {
				buildCache = map[string]*Built{}
			}
			buildCache[key] = b
		}
	}()
	h := schemaHash(str)
	switch cfg {
	case "A", "C":
		pkg := "ua" + h
		if cfg == "C" {
			pkg = "uc" + h
		}
		files := freshWKTFiles()
		fd, err := protodesc.NewFile(s.fileProto(pkg, false), files)
		if err != nil {
			return nil, err
		}
		if err := files.RegisterFile(fd); err != nil {
			return nil, err
		}
		if cfg == "C" {
			if _, err := protoregistry.GlobalFiles.FindFileByPath(pkg + ".proto"); err != nil {
				dfd, err := protodesc.NewFile(s.fileProto(pkg, true), protoregistry.GlobalFiles)
				if err != nil {
					return nil, err
				}
				if err := registerGlobally(dfd); err != nil {
					return nil, err
				}
			}
		}
		prod, err := prodTarget(s.fileProto(pkg, false))
		if err != nil {
			return nil, err
		}
		return &Built{Files: files, Types: dynamicpb.NewTypes(files), Pkg: pkg, File: fd, Prod: prod}, nil
	case "B":
		pkg := "rb" + h
		var fd protoreflect.FileDescriptor
		if got, err := protoregistry.GlobalFiles.FindFileByPath(pkg + ".proto"); err == nil {
			fd = got
		} else {
			fd, err = protodesc.NewFile(s.fileProto(pkg, false), protoregistry.GlobalFiles)
			if err != nil {
				return nil, err
			}
			if err := registerGlobally(fd); err != nil {
				return nil, err
			}
		}
		// the target itself is still what production builds from the target's own files; the same types are
		// ADDITIONALLY present in the process-global registry
		files := freshWKTFiles()
		pfd, err := protodesc.NewFile(s.fileProto(pkg, false), files)
		if err != nil {
			return nil, err
		}
		if err := files.RegisterFile(pfd); err != nil {
			return nil, err
		}
		prod, err := prodTarget(s.fileProto(pkg, false))
		if err != nil {
			return nil, err
		}
		_ = fd
		return &Built{Files: files, Types: dynamicpb.NewTypes(files), Pkg: pkg, File: pfd, Prod: prod}, nil
	}
	return nil, fmt.Errorf("bad cfg")
}

func registerGlobally(fd protoreflect.FileDescriptor) error {
	if err := protoregistry.GlobalFiles.RegisterFile(fd); err != nil {
		return err
	}
	var regMsgs func(mds protoreflect.MessageDescriptors) error
	regMsgs = func(mds protoreflect.MessageDescriptors) error {
		for i := 0; i < mds.Len(); i++ {
			md := mds.Get(i)
			if !md.IsMapEntry() {
				if err := protoregistry.GlobalTypes.RegisterMessage(dynamicpb.NewMessageType(md)); err != nil {
					return err
				}
			}
			if err := regMsgs(md.Messages()); err != nil {
				return err
			}
		}
		return nil
	}
	for i := 0; i < fd.Enums().Len(); i++ {
		if err := protoregistry.GlobalTypes.RegisterEnum(dynamicpb.NewEnumType(fd.Enums().Get(i))); err != nil {
			return err
		}
	}
	return regMsgs(fd.Messages())
}

// ---- descriptors -> spec ----

func stripPkg(pkg string, full protoreflect.FullName) string {
	s := string(full)
	if strings.HasPrefix(s, "google.protobuf.") {
		return s
	}
	return strings.TrimPrefix(s, pkg+".")
}

// specOf computes the schema spec reachable from the given root messages, user types in the order
// of `order` (names), WKTs and their closure appended in discovery order.
func specOf(pkg string, roots []protoreflect.MessageDescriptor) *Schema {
	s := &Schema{}
	seenM, seenE := map[string]bool{}, map[string]bool{}
	var addMsg func(md protoreflect.MessageDescriptor)
	addEnum := func(ed protoreflect.EnumDescriptor) {
		n := stripPkg(pkg, ed.FullName())
		if seenE[n] {
			return
		}
		seenE[n] = true
		e := EnumSpec{Name: n}
		for i := 0; i < ed.Values().Len(); i++ {
			v := ed.Values().Get(i)
			e.Vals = append(e.Vals, EnumVal{string(v.Name()), int32(v.Number())})
		}
		s.Enums = append(s.Enums, e)
	}
	addMsg = func(md protoreflect.MessageDescriptor) {
		n := stripPkg(pkg, md.FullName())
		if seenM[n] {
			return
		}
		seenM[n] = true
		idx := len(s.Msgs)
		s.Msgs = append(s.Msgs, MsgSpec{Name: n})
		var fs []FieldSpec
		var later []protoreflect.MessageDescriptor
		for i := 0; i < md.Fields().Len(); i++ {
			fd := md.Fields().Get(i)
			f := FieldSpec{Name: string(fd.Name()), JSON: fd.JSONName(), Num: int(fd.Number()), Pres: fd.HasPresence(), Oneof: "-", Ref: "-", Card: "s"}
			vfd := fd
			if fd.IsMap() {
				f.Card = "m:" + kindName[fd.MapKey().Kind()]
				vfd = fd.MapValue()
			} else if fd.IsList() {
				f.Card = "l"
			}
			f.Kind = kindName[vfd.Kind()]
			if vfd.Enum() != nil {
				f.Ref = stripPkg(pkg, vfd.Enum().FullName())
				addEnum(vfd.Enum())
			}
			if vfd.Message() != nil {
				f.Ref = stripPkg(pkg, vfd.Message().FullName())
				later = append(later, vfd.Message())
			}
			if od := fd.ContainingOneof(); od != nil {
				if od.IsSynthetic() {
					f.Oneof = "p" + strconv.Itoa(od.Index())
				} else {
					f.Oneof = "o" + strconv.Itoa(od.Index())
				}
			}
			fs = append(fs, f)
		}
		s.Msgs[idx].Fields = fs
		for _, l := range later {
			addMsg(l)
		}
	}
	for _, r := range roots {
		addMsg(r)
	}
	return s
}
