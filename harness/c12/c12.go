// Package c12 corresponds grpcadapter.decodeTimeout with the Lean model GB.C12.
package c12

import (
	"context"
	"fmt"
	"math/rand"
	"strings"
	"time"

	"github.com/renbou/grpcbridge/bridgedesc"
	"github.com/renbou/grpcbridge/grpcadapter"
	"google.golang.org/grpc/codes"
	"google.golang.org/grpc/metadata"
	"google.golang.org/grpc/status"
	"verif/harness/common"
)

// recConn records the deadline of the context the forwarder creates the outgoing stream with.
type recConn struct {
	called bool
	has    bool
	dl     time.Time
}

func (c *recConn) Close() {}
func (c *recConn) Stream(ctx context.Context, method string) (grpcadapter.ClientStream, error) {
	c.called = true
	c.dl, c.has = ctx.Deadline()
	return nil, status.Error(codes.Unavailable, "recorded")
}

type Area struct{}

func (Area) Name() string { return "c12" }

func (Area) Exec(input string) string {
	f := strings.Fields(input)
	switch f[0] {
	case "dec":
		d, ok := grpcadapter.VerifDecodeTimeout(string(common.MustUnHex(f[1])))
		if !ok {
			return "none"
		}
		return fmt.Sprintf("some:%d", int64(d))
	case "ctx":
		// ctx <hex value>...: the real ProxyForwarder.Forward (default filter) on an incoming context carrying these
		// grpc-timeout values; output = the deadline the outgoing stream is created with, relative to the call start.
		var vals []string
		for _, h := range f[1:] {
			vals = append(vals, string(common.MustUnHex(h)))
		}
		ctx := metadata.NewIncomingContext(context.Background(), metadata.MD{"grpc-timeout": vals})
		rc := &recConn{}
		pf := grpcadapter.NewProxyForwarder(grpcadapter.ProxyForwarderOpts{})
		start := time.Now()
		_ = pf.Forward(ctx, grpcadapter.ForwardParams{Method: bridgedesc.DummyMethod("t.S", "M"), Outgoing: rc})
		switch {
		case !rc.called:
			return "notcalled"
		case !rc.has:
			return "nodl"
		default:
			return fmt.Sprintf("dl:%d", int64(rc.dl.Sub(start)))
		}
	}
	return "BADOP"
}

var alphabet = []byte("0123456789HMSmun+- _,x.")

func (Area) Gen(r *rand.Rand, tier string, emit func(string)) {
	dec := func(s string) { emit("dec " + common.HexS(s)) }
	ctxop := func(vals ...string) {
		l := "ctx"
		for _, v := range vals {
			l += " " + common.HexS(v)
		}
		emit(l)
	}
	// enforcement tie: what Forward does with the decoded value (zero, tiny, huge, malformed, several values)
	for _, v := range []string{"0n", "0S", "0H", "00000000m", "1n", "1S", "10S", "99999999H", "2562047H", "2562048H", "5124096H", "97357816H", "+1S", "-1S", "1", "S", "", "1s", "100m", "5u"} {
		ctxop(v)
		ctxop(v, "7S")
		ctxop("7S", v)
	}
	nctx := 300
	if tier == "thorough" {
		nctx = 5000
	}
	for i := 0; i < nctx; i++ {
		u := common.Pick(r, []byte("HMSmunk"))
		v := fmt.Sprintf("%d%c", r.Intn(100000000), u)
		if r.Intn(4) == 0 {
			v = fmt.Sprintf("%d%c", r.Intn(3), u)
		}
		if r.Intn(5) == 0 {
			ctxop(v, fmt.Sprintf("%dS", r.Intn(100)))
		} else {
			ctxop(v)
		}
	}
	// exhaustive over all strings of length ≤ 3 (quick) / ≤ 4 (thorough) over a 20-symbol alphabet
	ex := []byte("019HMSmun+- _,xk\x00\xff8")
	maxLen := 3
	if tier == "thorough" {
		maxLen = 4
	}
	var rec func(prefix []byte)
	rec = func(prefix []byte) {
		dec(string(prefix))
		if len(prefix) == maxLen {
			return
		}
		for _, c := range ex {
			rec(append(append([]byte{}, prefix...), c))
		}
	}
	rec(nil)
	n := 20000
	if tier == "thorough" {
		n = 400000
	}
	units := []byte("HMSmunhsk ")
	for i := 0; i < n; i++ {
		switch r.Intn(6) {
		case 0, 1: // well-formed-ish: digits + unit
			nd := r.Intn(13)
			b := common.RandBytes(r, nd, []byte("0123456789"))
			dec(string(b) + string(common.Pick(r, units)))
		case 2: // signs / separators injected
			nd := 1 + r.Intn(8)
			b := common.RandBytes(r, nd, []byte("0123456789"))
			pos := r.Intn(len(b) + 1)
			inj := common.Pick(r, []string{"+", "-", " ", "_", ",", "0x", "١", ".", "e"})
			dec(string(b[:pos]) + inj + string(b[pos:]) + string(common.Pick(r, units)))
		case 3: // big magnitudes with H (clamp region)
			v := 2562000 + r.Intn(100)
			if r.Intn(2) == 0 {
				v = r.Intn(100000000)
			}
			dec(fmt.Sprintf("%d%c", v, common.Pick(r, units)))
		case 4:
			dec(string(common.RandBytes(r, r.Intn(12), alphabet)))
		default:
			dec(string(common.RandBytes(r, r.Intn(11), nil)))
		}
	}
}
