// Package c12 corresponds grpcadapter.decodeTimeout with the Lean model GB.C12.
package c12

import (
	"fmt"
	"math/rand"
	"strings"

	"github.com/renbou/grpcbridge/grpcadapter"
	"verif/harness/common"
)

type Area struct{}

func (Area) Name() string { return "c12" }

func (Area) Exec(input string) string {
	f := strings.Fields(input)
	switch f[0] {
	case "dec":
		d, ok := grpcadapter.VerifDecodeTimeout(string(common.MustUnHex(f[1])))
		if !ok {
			return "none"
		}
		return fmt.Sprintf("some:%d", int64(d))
	}
	return "BADOP"
}

var alphabet = []byte("0123456789HMSmun+- _,x.")

func (Area) Gen(r *rand.Rand, tier string, emit func(string)) {
	dec := func(s string) { emit("dec " + common.HexS(s)) }
	// exhaustive over all strings of length ≤ 3 (quick) / ≤ 4 (thorough) over a 20-symbol alphabet
	ex := []byte("019HMSmun+- _,xk\x00\xff8")
	maxLen := 3
	if tier == "thorough" {
		maxLen = 4
	}
	var rec func(prefix []byte)
	rec = func(prefix []byte) {
		dec(string(prefix))
		if len(prefix) == maxLen {
			return
		}
		for _, c := range ex {
			rec(append(append([]byte{}, prefix...), c))
		}
	}
	rec(nil)
	n := 20000
	if tier == "thorough" {
		n = 400000
	}
	units := []byte("HMSmunhsk ")
	for i := 0; i < n; i++ {
		switch r.Intn(6) {
		case 0, 1: // well-formed-ish: digits + unit
			nd := r.Intn(13)
			b := common.RandBytes(r, nd, []byte("0123456789"))
			dec(string(b) + string(common.Pick(r, units)))
		case 2: // signs / separators injected
			nd := 1 + r.Intn(8)
			b := common.RandBytes(r, nd, []byte("0123456789"))
			pos := r.Intn(len(b) + 1)
			inj := common.Pick(r, []string{"+", "-", " ", "_", ",", "0x", "١", ".", "e"})
			dec(string(b[:pos]) + inj + string(b[pos:]) + string(common.Pick(r, units)))
		case 3: // big magnitudes with H (clamp region)
			v := 2562000 + r.Intn(100)
			if r.Intn(2) == 0 {
				v = r.Intn(100000000)
			}
			dec(fmt.Sprintf("%d%c", v, common.Pick(r, units)))
		case 4:
			dec(string(common.RandBytes(r, r.Intn(12), alphabet)))
		default:
			dec(string(common.RandBytes(r, r.Intn(11), nil)))
		}
	}
}
