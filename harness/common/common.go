// Package common is the shared frame of the correspondence harness: every area generates
// input lines, executes them against the real code, and writes "<input> => <output>" case lines
// that the Lean driver judges. All random choices derive from one seeded PRNG.
package common

import (
	"bufio"
	"encoding/hex"
	"encoding/json"
	"fmt"
	"math/rand"
	"os"
	"path/filepath"
	"runtime/debug"
	"sort"
	"strings"
)

// Area is one correspondence stream.
type Area interface {
	// Name is the driver area name (e.g. "c12").
	Name() string
	// Gen emits input lines (without " => "), first any built-in edge cases, then generated ones.
	Gen(r *rand.Rand, tier string, emit func(input string))
	// Exec runs the real code on one input line and returns the canonical output fields.
	Exec(input string) string
}

// Hex encodes a byte string for the line protocol ("x" + hex).
func Hex(b []byte) string { return "x" + hex.EncodeToString(b) }

// HexS encodes a Go string.
func HexS(s string) string { return Hex([]byte(s)) }

// UnHex decodes a line-protocol byte string.
func UnHex(s string) ([]byte, error) {
	if !strings.HasPrefix(s, "x") {
		return nil, fmt.Errorf("not a hex field: %q", s)
	}
	return hex.DecodeString(s[1:])
}

// MustUnHex decodes or panics (inputs are produced by the harness itself).
func MustUnHex(s string) []byte {
	b, err := UnHex(s)
	if err != nil {
		panic(err)
	}
	return b
}

// SafeExec runs Exec, converting a panic into the canonical output "PANIC <hex msg>".
func SafeExec(a Area, input string) (out string) {
	defer func() {
		if r := recover(); r != nil {
			if os.Getenv("VERIF_PANIC_STACK") != "" {
				fmt.Fprintf(os.Stderr, "panic in Exec(%s): %v\n%s\n", input, r, debug.Stack())
			}
			out = "PANIC " + HexS(fmt.Sprint(r))
		}
	}()
	return a.Exec(input)
}

// Stats is what the harness reports about one run (the driver adds verdict counts).
type Stats struct {
	Area     string         `json:"area"`
	Tier     string         `json:"tier"`
	Seed     int64          `json:"seed"`
	Cases    int            `json:"cases"`
	Distinct int            `json:"distinct_inputs"`
	Hist     map[string]int `json:"input_distribution"`
	Samples  []string       `json:"samples"`
	Extra    map[string]any `json:"extra,omitempty"`
}

// Run drives one area: corpus files first, then generated inputs; or a replay file only.
func Run(a Area, tier string, seed int64, outDir string, corpusDir string, replay string) error {
	if err := os.MkdirAll(outDir, 0o755); err != nil {
		return err
	}
	f, err := os.Create(filepath.Join(outDir, "cases.txt"))
	if err != nil {
		return err
	}
	defer f.Close()
	w := bufio.NewWriterSize(f, 1<<20)
	defer w.Flush()

	st := &Stats{Area: a.Name(), Tier: tier, Seed: seed, Hist: map[string]int{}}
	seen := map[string]struct{}{}
	emit := func(input string) {
		input = strings.TrimSpace(input)
		if input == "" || strings.HasPrefix(input, "#") {
			return
		}
		if i := strings.Index(input, " => "); i >= 0 { // corpus/replay lines may carry an old output
			input = input[:i]
		}
		if os.Getenv("VERIF_TRACE_INPUTS") != "" {
			fmt.Fprintf(os.Stderr, "exec: %s\n", input)
		}
		out := SafeExec(a, input)
		fmt.Fprintf(w, "%s => %s\n", input, out)
		if st.Cases%64 == 0 || os.Getenv("VERIF_FLUSH_EACH") != "" {
			w.Flush() // a crash or hang of the process must leave the cases so far on disk
		}
		st.Cases++
		if _, ok := seen[input]; !ok {
			seen[input] = struct{}{}
			if len(st.Samples) < 12 && (st.Cases%97 == 1 || len(st.Samples) < 4) {
				st.Samples = append(st.Samples, input+" => "+out)
			}
		}
		op := input
		if i := strings.IndexByte(op, ' '); i >= 0 {
			op = op[:i]
		}
		st.Hist["op:"+op]++
		cls := out
		if i := strings.IndexByte(cls, ' '); i >= 0 {
			cls = cls[:i]
		}
		if i := strings.IndexByte(cls, ':'); i >= 0 {
			cls = cls[:i]
		}
		if len(cls) > 24 {
			cls = cls[:24]
		}
		st.Hist["out:"+cls]++
	}

	readLines := func(path string) error {
		fh, err := os.Open(path)
		if err != nil {
			return err
		}
		defer fh.Close()
		sc := bufio.NewScanner(fh)
		sc.Buffer(make([]byte, 1<<20), 1<<28)
		for sc.Scan() {
			emit(sc.Text())
		}
		return sc.Err()
	}

	if replay != "" {
		if err := readLines(replay); err != nil {
			return err
		}
	} else {
		if corpusDir != "" {
			files, _ := filepath.Glob(filepath.Join(corpusDir, "*.txt"))
			sort.Strings(files)
			for _, p := range files {
				if err := readLines(p); err != nil {
					return err
				}
			}
		}
		a.Gen(rand.New(rand.NewSource(seed)), tier, emit)
	}

	st.Distinct = len(seen)
	if ex, ok := a.(interface{ Extra() map[string]any }); ok {
		st.Extra = ex.Extra()
	}
	js, _ := json.MarshalIndent(st, "", " ")
	return os.WriteFile(filepath.Join(outDir, "stats.json"), js, 0o644)
}

// Pick returns a random element.
func Pick[T any](r *rand.Rand, xs []T) T { return xs[r.Intn(len(xs))] }

// RandBytes returns n random bytes drawn from alphabet (or any byte if alphabet is empty).
func RandBytes(r *rand.Rand, n int, alphabet []byte) []byte {
	b := make([]byte, n)
	for i := range b {
		if len(alphabet) == 0 {
			b[i] = byte(r.Intn(256))
		} else {
			b[i] = alphabet[r.Intn(len(alphabet))]
		}
	}
	return b
}
