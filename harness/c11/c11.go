// Package c11 is the correspondence area of property C11 (stub: the slice is not built yet).
package c11

import (
	"math/rand"
)

type Area struct{}

func (Area) Name() string { return "c11" }

func (Area) Exec(input string) string { return "UNIMPLEMENTED" }

func (Area) Gen(r *rand.Rand, tier string, emit func(string)) {}
