// Package c11 is the correspondence area of property C11: it runs the REAL PatternRouter /
// ServiceRouter with one goroutine per scripted thread under a deterministic scheduler that releases
// exactly one goroutine at a time. Goroutines park at the verif yield points (internal/verifhook) and
// between operations; a goroutine that does not reach its next park point because it waits for a
// mutex is recognised from the runtime's goroutine dump (wait reason sync.Mutex.Lock), not by a
// timeout, so a run is a deterministic function of the input line. The totally ordered event log is
// judged by the Lean driver (GB.C11.handle): specification predicates + replay through the LTS.
//
// input : <P|S|F|M> <threads> <schedule>      (F = service router, also parking inside its per-service loops)
//
//	threads  = thread;thread;…      thread = op,op,…
//	op       = W<name>.<slot> | U<slot>.<name>.<ver>.<svcs> | C<slot> | L<svc>     (svcs: digits or "-")
//	schedule = digits (thread to release next; skipped when that thread is blocked or finished);
//	           afterwards the remaining threads are drained lowest index first.
//
// output: event tokens, see lean/GB/C11/Driver.lean.
package c11

import (
	"bytes"
	"context"
	"fmt"
	"math/rand"
	"net/http"
	"net/url"
	"runtime"
	"strconv"
	"strings"
	"sync"
	"sync/atomic"
	"time"

	"github.com/renbou/grpcbridge/bridgedesc"
	"github.com/renbou/grpcbridge/grpcadapter"
	"github.com/renbou/grpcbridge/routing"
	"github.com/renbou/grpcbridge/verifx"
	"google.golang.org/grpc"
	"google.golang.org/grpc/metadata"
	"google.golang.org/protobuf/reflect/protoreflect"
)

type Area struct{}

func (Area) Name() string { return "c11" }

type pool struct{}

func (pool) Get(string) (grpcadapter.ClientConn, bool) { return nil, true }

type fakeSTS struct{ m string }

func (s *fakeSTS) Method() string             { return s.m }
func (*fakeSTS) SetHeader(metadata.MD) error  { return nil }
func (*fakeSTS) SendHeader(metadata.MD) error { return nil }
func (*fakeSTS) SetTrailer(metadata.MD) error { return nil }

type watcher interface {
	UpdateDesc(*bridgedesc.Target)
	Close()
}

type op struct {
	kind       byte
	slot, name int
	ver        int
	svcs       []int
	key        int
}

const (
	stParked int32 = iota
	stRunning
	stDone
)

type worker struct {
	id     int
	ops    []op
	gate   chan struct{}
	status atomic.Int32
	gid    uint64
}

type slotState struct {
	w           watcher
	wid         int
	closeCalled bool
}

type run struct {
	svc     bool
	multi   bool // input kind M: pattern router, services with an even number are bound to GET (two per-method tables)
	fine    bool // input kind F: park at the per-iteration yield points inside the service-router loops too
	pr      *routing.PatternRouter
	sr      *routing.ServiceRouter
	workers []*worker
	byGid   sync.Map

	mu      sync.Mutex // protects log, slots and the pointer maps (woken goroutines run concurrently)
	log     []string
	slots   [10]*slotState
	nextWid int
	tgtVer  map[*bridgedesc.Target]int
	svcVer  map[*bridgedesc.Service]int
	mthVer  map[*bridgedesc.Method]int
}

func (r *run) post(tok string) {
	r.mu.Lock()
	r.log = append(r.log, tok)
	r.mu.Unlock()
}

func curGid() uint64 {
	var buf [64]byte
	n := runtime.Stack(buf[:], false)
	f := bytes.Fields(buf[:n])
	g, _ := strconv.ParseUint(string(f[1]), 10, 64)
	return g
}

var hookNo = map[string]int{
	"pattern.update.afterCheck": 0, "service.update.afterCheck": 0,
	"pattern.close.afterFlag": 1, "service.close.afterFlag": 1,
	"service.update.betweenPhases": 2,
	"pattern.route.afterLoad":      3,
}

// per-iteration yield points inside ServiceRouter.updateRoutes / removeTarget (parked at only for input kind F)
var hookNoFine = map[string]int{
	"service.update.addIter": 4, // top of every iteration of the add loop
	"service.update.delIter": 5, // after every release of the delete loop
	"service.remove.iter":    6, // after every release of removeTarget
}

func (r *run) hook(name string, args ...string) {
	n, ok := hookNo[name]
	if !ok && r.fine {
		n, ok = hookNoFine[name]
	}
	if !ok {
		return
	}
	v, ok := r.byGid.Load(curGid())
	if !ok {
		return
	}
	w := v.(*worker)
	r.post(fmt.Sprintf("h.%d.%d", w.id, n))
	w.status.Store(stParked)
	<-w.gate
}

func svcsStr(s []int) string {
	if len(s) == 0 {
		return "-"
	}
	var sb strings.Builder
	for _, k := range s {
		sb.WriteByte(byte('0' + k))
	}
	return sb.String()
}

func (r *run) mkDesc(o op) *bridgedesc.Target {
	d := &bridgedesc.Target{Name: fmt.Sprintf("t%d", o.name)}
	d.Services = make([]bridgedesc.Service, len(o.svcs))
	for i, k := range o.svcs {
		d.Services[i] = bridgedesc.Service{
			Name:    protoName(k),
			Methods: []bridgedesc.Method{{RPCName: fmt.Sprintf("/pkg.S%d/M", k)}},
		}
		if r.multi && k%2 == 0 {
			d.Services[i].Methods[0].Bindings = []bridgedesc.Binding{{HTTPMethod: http.MethodGet, Pattern: fmt.Sprintf("/pkg.S%d/M", k), RequestBodyPath: "*"}}
		}
	}
	r.mu.Lock()
	r.tgtVer[d] = o.ver
	for i := range d.Services {
		r.svcVer[&d.Services[i]] = o.ver
		r.mthVer[&d.Services[i].Methods[0]] = o.ver
	}
	r.mu.Unlock()
	return d
}

// doOp executes one operation of worker w on the real router and returns its end token.
func (r *run) doOp(w *worker, o op) string {
	t := w.id
	switch o.kind {
	case 'W':
		r.post(fmt.Sprintf("s.%d.W.%d", t, o.name))
		var nw watcher
		var err error
		if r.svc {
			nw, err = r.sr.Watch(fmt.Sprintf("t%d", o.name))
		} else {
			nw, err = r.pr.Watch(fmt.Sprintf("t%d", o.name))
		}
		if err != nil {
			return fmt.Sprintf("e.%d.wf", t)
		}
		r.mu.Lock()
		wid := r.nextWid
		r.nextWid++
		r.slots[o.slot] = &slotState{w: nw, wid: wid}
		r.mu.Unlock()
		return fmt.Sprintf("e.%d.w.%d", t, wid)
	case 'U':
		r.mu.Lock()
		sl := r.slots[o.slot]
		r.mu.Unlock()
		if sl == nil {
			r.post(fmt.Sprintf("s.%d.X", t))
			return ""
		}
		d := r.mkDesc(o)
		r.post(fmt.Sprintf("s.%d.U.%d.%d.%d.%s", t, sl.wid, o.name, o.ver, svcsStr(o.svcs)))
		sl.w.UpdateDesc(d)
		return fmt.Sprintf("e.%d.ok", t)
	case 'C':
		r.mu.Lock()
		sl := r.slots[o.slot]
		skip := sl == nil || sl.closeCalled
		if !skip {
			sl.closeCalled = true // Close twice is a documented panic, not part of the property
		}
		r.mu.Unlock()
		if skip {
			r.post(fmt.Sprintf("s.%d.X", t))
			return ""
		}
		r.post(fmt.Sprintf("s.%d.C.%d", t, sl.wid))
		sl.w.Close()
		return fmt.Sprintf("e.%d.ok", t)
	case 'L':
		r.post(fmt.Sprintf("s.%d.L.%d", t, o.key))
		var tgt *bridgedesc.Target
		var svc *bridgedesc.Service
		var mth *bridgedesc.Method
		if r.svc {
			ctx := grpc.NewContextWithServerTransportStream(context.Background(), &fakeSTS{fmt.Sprintf("/pkg.S%d/M", o.key)})
			_, route, err := r.sr.RouteGRPC(ctx)
			if err != nil {
				return fmt.Sprintf("e.%d.m", t)
			}
			tgt, svc = route.Target, route.Service
		} else {
			hm := http.MethodPost
			if r.multi && o.key%2 == 0 {
				hm = http.MethodGet
			}
			_, route, err := r.pr.RouteHTTP(&http.Request{Method: hm, URL: &url.URL{Path: fmt.Sprintf("/pkg.S%d/M", o.key)}})
			if err != nil {
				return fmt.Sprintf("e.%d.m", t)
			}
			tgt, svc, mth = route.Target, route.Service, route.Method
		}
		r.mu.Lock()
		tv, ok1 := r.tgtVer[tgt]
		sv, ok2 := r.svcVer[svc]
		mv, ok3 := sv, true
		if mth != nil {
			mv, ok3 = r.mthVer[mth]
		}
		r.mu.Unlock()
		if !ok1 {
			tv = 9999
		}
		if !ok2 {
			sv = 9998
		}
		if !ok3 {
			mv = 9997
		}
		// the routed service must also be the one that was asked for
		if svc != nil && string(svc.Name) != string(protoName(o.key)) {
			sv = 9996
		}
		return fmt.Sprintf("e.%d.h.%d.%d.%d", t, tv, sv, mv)
	}
	return fmt.Sprintf("e.%d.panic", t)
}

func (r *run) work(w *worker, ready *sync.WaitGroup) {
	w.gid = curGid()
	r.byGid.Store(w.gid, w)
	ready.Done()
	<-w.gate
	for i, o := range w.ops {
		end := func() (tok string) {
			defer func() {
				if p := recover(); p != nil {
					tok = fmt.Sprintf("e.%d.panic", w.id)
				}
			}()
			return r.doOp(w, o)
		}()
		if end != "" {
			r.post(end)
		}
		if i == len(w.ops)-1 {
			break
		}
		w.status.Store(stParked)
		<-w.gate
	}
	w.status.Store(stDone)
}

// runningSet returns the workers currently marked running.
func (r *run) runningSet() []*worker {
	var ws []*worker
	for _, w := range r.workers {
		if w.status.Load() == stRunning {
			ws = append(ws, w)
		}
	}
	return ws
}

// allBlocked reports whether every worker of ws (read BEFORE the dump is taken, so that a worker that
// finishes in between cannot be skipped) is shown by the runtime as waiting for a sync.Mutex.
// Only the wait reason sync.Mutex.Lock counts: "semacquire" also covers transient runtime-internal
// waits (GC start, stop-the-world) and must not be mistaken for a router mutex.
func (r *run) allBlocked(ws []*worker, buf []byte) bool {
	n := runtime.Stack(buf, true)
	dump := buf[:n]
	for _, w := range ws {
		hdr := []byte(fmt.Sprintf("\ngoroutine %d [", w.gid))
		i := bytes.Index(dump, hdr)
		if i < 0 {
			if bytes.HasPrefix(dump, hdr[1:]) {
				rest := dump[len(hdr)-1:]
				e := bytes.IndexByte(rest, ']')
				if e < 0 || !strings.HasPrefix(string(rest[:e]), "sync.Mutex.Lock") {
					return false
				}
				continue
			}
			return false
		}
		rest := dump[i+len(hdr):]
		e := bytes.IndexByte(rest, ']')
		if e < 0 {
			return false
		}
		if !strings.HasPrefix(string(rest[:e]), "sync.Mutex.Lock") {
			return false
		}
	}
	return true
}

func sameSet(a, b []*worker) bool {
	if len(a) != len(b) {
		return false
	}
	for i := range a {
		if a[i] != b[i] {
			return false
		}
	}
	return true
}

func (r *run) anyRunning() bool {
	for _, w := range r.workers {
		if w.status.Load() == stRunning {
			return true
		}
	}
	return false
}

// settle waits until no worker is making progress: each is parked, finished, or waits for a mutex.
func (r *run) settle(buf []byte) bool {
	deadline := time.Now().Add(3 * time.Second)
	for spin := 0; ; spin++ {
		if !r.anyRunning() {
			return true
		}
		if spin < 200 {
			runtime.Gosched()
			continue
		}
		// two consecutive consistent observations: same running set, all of it waiting for a mutex
		ws := r.runningSet()
		if r.allBlocked(ws, buf) {
			time.Sleep(30 * time.Microsecond)
			ws2 := r.runningSet()
			if sameSet(ws, ws2) && r.allBlocked(ws2, buf) && sameSet(ws2, r.runningSet()) {
				return true
			}
		}
		if time.Now().After(deadline) {
			return false
		}
		time.Sleep(20 * time.Microsecond)
	}
}

func parseOps(s string) ([]op, error) {
	var ops []op
	for _, f := range strings.Split(s, ",") {
		if f == "" {
			continue
		}
		p := strings.Split(f[1:], ".")
		atoi := func(i int) int { n, _ := strconv.Atoi(p[i]); return n }
		switch f[0] {
		case 'W':
			if len(p) != 2 {
				return nil, fmt.Errorf("bad op %q", f)
			}
			ops = append(ops, op{kind: 'W', name: atoi(0), slot: atoi(1) % 10})
		case 'U':
			if len(p) != 4 {
				return nil, fmt.Errorf("bad op %q", f)
			}
			o := op{kind: 'U', slot: atoi(0) % 10, name: atoi(1), ver: atoi(2)}
			if p[3] != "-" {
				for _, c := range p[3] {
					o.svcs = append(o.svcs, int(c-'0'))
				}
			}
			ops = append(ops, o)
		case 'C':
			ops = append(ops, op{kind: 'C', slot: atoi(0) % 10})
		case 'L':
			ops = append(ops, op{kind: 'L', key: atoi(0)})
		default:
			return nil, fmt.Errorf("bad op %q", f)
		}
	}
	return ops, nil
}

var execMu sync.Mutex // the hook handler is process-global

func (Area) Exec(input string) string {
	f := strings.Fields(input)
	if len(f) > 0 && f[0] == "stress" {
		return execStress(f)
	}
	if len(f) < 2 || (f[0] != "P" && f[0] != "S" && f[0] != "F" && f[0] != "M") {
		return "BADINPUT"
	}
	sched := ""
	if len(f) > 2 {
		sched = f[2]
	}
	execMu.Lock()
	defer execMu.Unlock()

	r := &run{svc: f[0] == "S" || f[0] == "F", fine: f[0] == "F", multi: f[0] == "M", tgtVer: map[*bridgedesc.Target]int{}, svcVer: map[*bridgedesc.Service]int{}, mthVer: map[*bridgedesc.Method]int{}}
	if r.svc {
		r.sr = routing.NewServiceRouter(pool{}, routing.ServiceRouterOpts{})
	} else {
		r.pr = routing.NewPatternRouter(pool{}, routing.PatternRouterOpts{})
	}
	for i, ts := range strings.Split(f[1], ";") {
		ops, err := parseOps(ts)
		if err != nil {
			return "BADINPUT"
		}
		r.workers = append(r.workers, &worker{id: i, ops: ops, gate: make(chan struct{})})
	}
	var ready sync.WaitGroup
	for _, w := range r.workers {
		if len(w.ops) == 0 {
			w.status.Store(stDone)
			continue
		}
		ready.Add(1)
		go r.work(w, &ready)
	}
	ready.Wait()
	verifx.SetHook(r.hook)
	defer verifx.SetHook(nil)

	buf := make([]byte, 1<<16)
	release := func(w *worker) bool {
		r.post(fmt.Sprintf("r.%d", w.id))
		before := len(r.log)
		w.status.Store(stRunning)
		w.gate <- struct{}{}
		if !r.settle(buf) {
			r.post("stuck")
			return false
		}
		if w.status.Load() == stRunning {
			// did not reach a park point: it waits for a mutex (unless it already logged an event, which cannot happen)
			r.mu.Lock()
			own := false
			for _, tok := range r.log[before:] {
				if strings.HasPrefix(tok, fmt.Sprintf("h.%d.", w.id)) || strings.HasPrefix(tok, fmt.Sprintf("e.%d.", w.id)) {
					own = true
				}
			}
			r.mu.Unlock()
			if !own {
				r.post(fmt.Sprintf("b.%d", w.id))
			}
		}
		return true
	}
	ok := true
	for _, c := range sched {
		if c < '0' || c > '9' {
			continue
		}
		w := r.workers[int(c-'0')%len(r.workers)]
		if w.status.Load() != stParked {
			continue
		}
		if ok = release(w); !ok {
			break
		}
	}
	for ok {
		var next *worker
		for _, w := range r.workers {
			if w.status.Load() == stParked {
				next = w
				break
			}
		}
		if next == nil {
			break
		}
		ok = release(next)
	}
	for _, w := range r.workers {
		if w.status.Load() != stDone && ok {
			r.post("deadlock")
			break
		}
	}
	r.mu.Lock()
	defer r.mu.Unlock()
	return strings.Join(r.log, " ")
}

func protoName(k int) protoreflect.FullName { return protoreflect.FullName(fmt.Sprintf("pkg.S%d", k)) }

// ---------------------------------------------------------------------------------------------

var stats = struct {
	sync.Mutex
	kinds map[string]int
}{kinds: map[string]int{}}

func (Area) Extra() map[string]any {
	stats.Lock()
	defer stats.Unlock()
	m := map[string]any{}
	for k, v := range stats.kinds {
		m[k] = v
	}
	return m
}

func count(k string) {
	stats.Lock()
	stats.kinds[k]++
	stats.Unlock()
}

// enumerate every schedule of the given length over the thread indices in `over`, after a fixed prefix.
func enumSchedules(prefix string, over string, n int, f func(string)) {
	var rec func(cur []byte)
	rec = func(cur []byte) {
		if len(cur) == n {
			f(prefix + string(cur))
			return
		}
		for i := 0; i < len(over); i++ {
			rec(append(cur, over[i]))
		}
	}
	rec(nil)
}

func (Area) Gen(r *rand.Rand, tier string, emit func(string)) {
	thorough := tier == "thorough"
	// uncontrolled stress (no yield points, real goroutines): reaches windows without a yield point
	stressMs, stressSeeds := 400, 4
	if thorough {
		stressMs, stressSeeds = 2500, 4
	}
	for i := 0; i < stressSeeds; i++ {
		emit(fmt.Sprintf("stress gap %d %d", r.Int63n(1<<30), stressMs))
		emit(fmt.Sprintf("stress close %d %d", r.Int63n(1<<30), stressMs))
		if i < 3 {
			emit(fmt.Sprintf("stress claim %d %d", r.Int63n(1<<30), stressMs))
			emit(fmt.Sprintf("stress handover %d %d", r.Int63n(1<<30), stressMs))
		}
		count("stress")
	}
	if stressFound.Load() {
		return // a violating input is in hand; the controlled scenarios add nothing to the verdict
	}
	// re-Watch family: for every park point of Close and UpdateDesc of the old watcher (yield points, waiting
	// for the watcher mutex, waiting for the table mutex) a Watch of the same name + UpdateDesc through the new
	// watcher + lookups run while the old operation is parked; then everything is released and looked up again.
	// Watch must fail until Close has returned; a live watcher with an applied description must stay routable.
	for _, k := range []string{"P", "S"} {
		setup := "W0.0,U0.0.1.12"
		re := "W0.1,U1.0.2.13,L1,L3,W0.2,U2.0.3.13,L3"
		fin := "L1,L3,W0.3,U3.0.4.14,L4,L1"
		// Close parked at its yield point (old update already applied)
		emit(k + " " + setup + ";C0;" + re + ";" + fin + " 0000" + "1" + "2222222222222" + "11" + "3333333333")
		// ... re-Watch attempts before, in the middle of and after the Close
		emit(k + " " + setup + ";C0;" + re + ";" + fin + " 0000" + "2" + "1" + "222222" + "1" + "2222222" + "3333333333")
		// old UpdateDesc parked after its closed check (holds the watcher mutex), Close waits for it
		emit(k + " W0.0,U0.0.1.12,U0.0.5.12;C0;" + re + ";" + fin + " 0000" + "0" + "1" + "2222222222222" + "00" + "2222" + "11" + "3333333333")
		// another target parked between the two phases of its update (holds the service-table mutex; no-op for the pattern router)
		emit(k + " W0.0,U0.0.1.12,W1.5,U5.1.6.4;C0;" + re + ";" + fin + ";U5.1.7.4 0000000" + "44" + "1" + "1" + "2222222222222" + "44" + "11" + "3333333333")
		// Close of the NEW watcher parked while a third Watch + update arrive
		emit(k + " " + setup + ",C0,W0.1,U1.0.2.13;C1;W0.2,U2.0.3.13,L1,L3;" + fin + " 000000000" + "1" + "2222222222" + "11" + "3333333333")
	}
	// contested-service family (fix D31; the pattern router runs it too): A owns services 1,2; B lists 2,3 (claims 2);
	// then A closes / drops 2 / re-lists, B updates / closes, with each of them parked at its yield points while
	// the other runs, and lookups of the contested service in between and at the end.
	for _, k := range []string{"S", "P"} {
		setupAB := "W0.0,U0.0.1.12,W1.1,U1.1.2.23"
		looks := "L2,L2,L2,L1,L3,L2"
		// B parked mid-Close (flag set) while A's Close hands service 2 over to B's claim; then B finishes; re-watch
		emit(k + " " + setupAB + ";C1;C0;" + looks + ",W1.2,U2.1.9.2,L2 00000000" + "1" + "2222" + "33" + "11" + "3333333333")
		// A parked mid-Close while B closes (drops its claim) and C arrives
		emit(k + " " + setupAB + ";C0;C1,W2.3,U3.2.9.24;" + looks + " 00000000" + "1" + "222222222" + "33" + "11" + "3333333")
		// A drops service 2 (update) parked between its phases while B updates / lookups run
		emit(k + " " + setupAB + ";U0.0.5.1;U1.1.6.23;" + looks + " 00000000" + "11" + "2" + "33" + "1" + "2222" + "3333333")
		// B's update parked between its phases (claim recorded, holds the table mutex) while A closes
		emit(k + " " + setupAB + ";U1.1.6.23;C0;" + looks + " 00000000" + "11" + "22" + "33" + "11" + "22" + "3333333")
		// B drops its claim, A closes: nobody left
		emit(k + " " + setupAB + ";U1.1.6.3;C0;" + looks + " 00000000" + "111" + "222" + "3333333")
		// three claimants: order of hand-over; the middle one closes while waiting
		emit(k + " " + setupAB + ",W2.3,U3.2.7.2;C1;C0;" + looks + ";C3,L2 000000000000" + "111" + "222" + "33" + "44" + "3333333")
	}
	// small-scope exhaustive schedules over the hand-over steps (service router): after the set-up (A owns 2, B claims 2)
	// every schedule prefix over {A closes, B re-submits, lookups, B closes + lookup}, and with A dropping instead of closing
	nh := 5
	if thorough {
		nh = 7
	}
	for _, first := range []string{"C0", "U0.0.5.1"} {
		sc := "S " + first + ";U1.1.3.23;L2,L2;C1,L2;W0.0,U0.0.1.12,W1.1,U1.1.2.23"
		enumSchedules("44444444", "0123", nh, func(s string) { count("exhaustive-handover"); emit(sc + " " + s) })
	}
	// FINE family (input kind F = service router, goroutines also park at the per-iteration yield points inside
	// updateRoutes / removeTarget; the driver replays these traces through the fine LTS GB.C11.fstep):
	{
		setupAB := "W0.0,U0.0.1.12,W1.1,U1.1.2.23" // 12 releases
		// two keys observed between two iterations of the add loop: L1 sees the new description, L2 still the old one
		emit("F W0.0,U0.0.1.12;U0.0.2.12;L1,L2,L1,L2,L1,L2 000000" + "111" + "22" + "1" + "22" + "11" + "22")
		// delete loop: the update drops services 1 and 2, lookups after each release
		emit("F W0.0,U0.0.1.12;U0.0.5.3;L1,L2,L3,L1,L2,L3,L1,L2,L3 000000" + "1111" + "222" + "1" + "222" + "11" + "222")
		// removeTarget loop of the owner A with claimant B waiting for service 2: after the first release service 1 is
		// gone and 2 still A's, after the second release 2 is handed over to B
		emit("F " + setupAB + ";C0;L1,L2,L1,L2,L1,L2,L1,L2 000000000000" + "11" + "22" + "1" + "22" + "1" + "22" + "1" + "22")
		// ... with B parked mid-Close (flag set) while A's removeTarget hands over key by key, then B's removeTarget
		emit("F " + setupAB + ";C0;C1;L2,L2,L2,L2,L3,L2 000000000000" + "2" + "111" + "33" + "11" + "3" + "222" + "333")
		// A's update drops the contested service 2 (delete loop hands over to B), B re-submits in between iterations
		emit("F " + setupAB + ";U0.0.5.1;U1.1.6.23;L2,L2,L2,L2 000000000000" + "111" + "2" + "33" + "1" + "3" + "11" + "222222" + "3")
		// a new claimant's add loop parked between its two keys while the owner closes (blocked on the table mutex)
		emit("F W0.0,U0.0.1.12;W1.1,U1.1.2.12;C0;L1,L2,L1,L2 000000" + "1111" + "2" + "33" + "22" + "1111" + "222" + "33")
		nf := 5
		if thorough {
			nf = 7
		}
		// every schedule prefix over {update to a new description, close, two lookups, re-watch + update + lookup}
		sc := "F U0.0.2.13;C0;L1,L3;W0.1,U1.0.3.1,L1;W0.0,U0.0.1.12"
		enumSchedules("4444444", "0123", nf, func(s string) { count("exhaustive-fine"); emit(sc + " " + s) })
		// ... and over the hand-over steps {A closes or drops, B re-submits, lookups, B closes + lookup}
		for _, first := range []string{"C0", "U0.0.5.1"} {
			sc := "F " + first + ";U1.1.3.23;L2,L2;C1,L2;" + setupAB
			enumSchedules("444444444444", "0123", nf-1, func(s string) { count("exhaustive-fine-handover"); emit(sc + " " + s) })
		}
	}
	// PER-METHOD family (input kind M = pattern router, even services bound to GET, odd ones default POST: two
	// per-method lists with their own insertion orders; replayed through the lockstep per-method LTS)
	{
		// A joins the GET list after B: GET order [B, A], POST order [A, B]
		emit("M W0.0,U0.0.1.1,W1.1,U1.1.2.12,U0.0.3.12,L2,L1;L2,L1 0000000000001111")
		// A drops its GET routes and re-adds them: pushed to the back of the GET list only
		emit("M W0.0,U0.0.1.12,W1.1,U1.1.2.12,L2,L1,U0.0.3.1,L2,L1,U0.0.4.12,L2,L1;L2,L1 00000000000000000000000001111")
		// a lookup parked between its single snapshot load and the iteration while the other method's table changes
		emit("M W0.0,U0.0.1.12;L1,L2,L1,L2;U0.0.2.14,U0.0.3.23,C0 00011222112221111")
		emit("M W0.0,U0.0.1.12,W1.1,U1.1.2.24;L2,L4,L2;C0;U1.1.3.2 000000112213311")
		nm := 4
		if thorough {
			nm = 7
		}
		sc := "M U0.0.2.14;C0;L1,L2,L4;W1.1,U1.1.3.12,L2;W0.0,U0.0.1.12"
		enumSchedules("444", "0123", nm, func(s string) { count("exhaustive-methods"); emit(sc + " " + s) })
	}
	for _, k := range []string{"P", "S"} {
		// the D11 schedule: update passes the closed check and parks, Close runs, update resumes, lookup, re-watch
		emit(k + " W0.0;U0.0.1.12;C0;L1,W0.1,L1 0122133333")
		emit(k + " W0.0;U0.0.1.12;C0;L1,W0.1,L1 01221213333")
		// straggler after close returned; re-watch; the new watcher's routes must survive the old straggler
		emit(k + " W0.0,U0.0.1.12,C0,W0.1,U1.0.3.13;U0.0.2.14;L1,L3,L4 00000001102222")
		emit(k + " W0.0,U0.0.1.12;C0,W0.1,U1.0.3.13;U0.0.2.14;L1,L3,L4 000211112211222")
		// lookup parked between snapshot load and iteration while the table changes
		emit(k + " W0.0,U0.0.1.12;L1,L2;U0.0.2.13,C0 00011222221111")
		// no gap: service present in old and new description, looked up in the middle of the update
		emit(k + " W0.0,U0.0.1.12;U0.0.2.13;L1,L1,L1,L2,L3 0001212122222")
		emit(k + " W0.0,U0.0.1.12;U0.0.2.13;L1,L1,L1,L2,L3 00012112122222")
		// two targets sharing a service
		emit(k + " W0.0,U0.0.1.12,W1.1,U1.1.2.23;L2,L2,L2;C0;U1.1.3.2 000000112213311")
		emit(k + " W0.0,W1.1;U0.0.1.12;U1.1.2.12;L1,L2,C0,L1,L2,C1,L1 000121211111111")
		// wrong name, empty description, double watch
		emit(k + " W0.0,U0.1.1.12,U0.0.2.-,U0.0.3.1,U0.0.4.-,W0.1;L1,L1,L1,L1 00010010010010011")
	}
	// small-scope exhaustive schedule enumeration (validation of model against code / search after a break):
	// after the set-up thread 4 (watch + first description) every schedule prefix of length n over
	// {update to a new description, close, lookup x2, re-watch + update + lookup}
	n := 6
	if thorough {
		n = 7
	}
	for _, k := range []string{"P", "S"} {
		sc := k + " U0.0.2.13;C0;L1,L3;W0.1,U1.0.3.1,L1;W0.0,U0.0.1.12"
		enumSchedules("444", "0123", n, func(s string) { count("exhaustive"); emit(sc + " " + s) })
	}
	// seeded random scenarios
	N := 1500
	if thorough {
		N = 40000
	}
	for i := 0; i < N; i++ {
		emit(randomScenario(r))
		count("random")
	}
}

func randomScenario(r *rand.Rand) string {
	kind := "P"
	switch r.Intn(4) {
	case 0:
		kind = "S"
	case 1:
		kind = "F" // service router, parking inside the per-service loops as well
	case 2:
		kind = "M" // pattern router with two HTTP methods
	}
	nth := 2 + r.Intn(4)
	ver := 0
	randSvcs := func() string {
		var sb strings.Builder
		for k := 1; k <= 4; k++ {
			if r.Intn(2) == 0 {
				sb.WriteByte(byte('0' + k))
			}
		}
		if sb.Len() == 0 {
			if r.Intn(3) == 0 {
				return "-"
			}
			return strconv.Itoa(1 + r.Intn(4))
		}
		return sb.String()
	}
	twoNames := r.Intn(3) == 0
	var threads []string
	for t := 0; t < nth; t++ {
		var ops []string
		nops := 1 + r.Intn(3)
		if t == 0 {
			ops = append(ops, "W0.0")
			if twoNames {
				ops = append(ops, "W1.1")
			}
			if r.Intn(3) != 0 {
				ver++
				ops = append(ops, fmt.Sprintf("U0.0.%d.%s", ver, randSvcs()))
			}
		}
		for i := 0; i < nops; i++ {
			slot := 0
			name := 0
			if twoNames && r.Intn(2) == 0 {
				slot, name = 1, 1
			}
			switch x := r.Intn(10); {
			case x < 4:
				ver++
				nm := name
				if r.Intn(12) == 0 {
					nm = 1 - name // wrong-name update
				}
				if r.Intn(6) == 0 {
					slot = 2 // the re-watch slot
					nm = 0
				}
				ops = append(ops, fmt.Sprintf("U%d.%d.%d.%s", slot, nm, ver, randSvcs()))
			case x < 6:
				ops = append(ops, fmt.Sprintf("C%d", slot))
			case x < 9:
				ops = append(ops, fmt.Sprintf("L%d", 1+r.Intn(4)))
			default:
				ops = append(ops, fmt.Sprintf("W%d.%d", name, 2*(1-name)+name)) // re-watch name 0 into slot 2, name 1 into slot 1
			}
		}
		threads = append(threads, strings.Join(ops, ","))
	}
	var sb strings.Builder
	// let the set-up thread run first most of the time
	for i := r.Intn(4); i > 0; i-- {
		sb.WriteByte('0')
	}
	extra := 0
	if kind == "F" {
		extra = 12
	}
	for i := 4 + extra + r.Intn(20+extra); i > 0; i-- {
		sb.WriteByte(byte('0' + r.Intn(nth)))
	}
	return kind + " " + strings.Join(threads, ";") + " " + sb.String()
}
