package c11

// Uncontrolled stress operations: NO yield-point handler is installed, real goroutines race on the real
// routers with GOMAXPROCS raised for the duration. They reach windows that have no yield point (e.g.
// between two publications inside one table operation). Search / validation only — never the proof.
// The Lean driver judges the counters against the C11 predicates directly (no model replay).
//
//	stress gap <seed> <ms>    one goroutine flips target t0 between two descriptions that share the
//	                          binding GET /stable/{id} and the service pkg.Stable; N goroutines look the
//	                          shared route up through PatternRouter.RouteHTTP and ServiceRouter.RouteGRPC.
//	                          A miss ⇒ gap; Target/Service/Method/Binding not from ONE description ⇒ mixture.
//	stress close <seed> <ms>  L goroutines each own one name and cycle Watch → UpdateDesc → lookup (must
//	                          hit) → Close → k lookups (must all miss) → Watch again (must succeed) on both
//	                          routers; U goroutines keep updating long-lived targets for contention.
//
// output: key=value counters (+ first=<description of the first violation, no spaces>).

import (
	"context"
	"fmt"
	"math/rand"
	"net/http"
	"net/url"
	"runtime"
	"strconv"
	"strings"
	"sync"
	"sync/atomic"
	"time"
	"unsafe"

	"github.com/renbou/grpcbridge/bridgedesc"
	"github.com/renbou/grpcbridge/routing"
	"github.com/renbou/grpcbridge/verifx"
	"google.golang.org/grpc"
	"google.golang.org/protobuf/reflect/protoreflect"
)

// stressFound is set once an uncontrolled stress line has observed a violation: a failing input is
// then in hand and Gen skips the (much slower on a broken tree) controlled scenarios of this run.
var stressFound atomic.Bool

type firstViolation struct{ p atomic.Pointer[string] }

func (f *firstViolation) set(format string, args ...any) {
	s := strings.ReplaceAll(fmt.Sprintf(format, args...), " ", "_")
	f.p.CompareAndSwap(nil, &s)
}

func (f *firstViolation) get() string {
	if s := f.p.Load(); s != nil {
		return *s
	}
	return "-"
}

func grpcCtx(method string) context.Context {
	return grpc.NewContextWithServerTransportStream(context.Background(), &fakeSTS{method})
}

// within reports whether p points into the slice s.
func within[T any](p *T, s []T) bool {
	if p == nil || len(s) == 0 {
		return false
	}
	lo := uintptr(unsafe.Pointer(&s[0]))
	hi := lo + uintptr(len(s))*unsafe.Sizeof(s[0])
	x := uintptr(unsafe.Pointer(p))
	return x >= lo && x < hi
}

// oneDescription: service ∈ target.Services, method ∈ service.Methods, binding ∈ method.Bindings (when given).
func oneDescription(t *bridgedesc.Target, s *bridgedesc.Service, m *bridgedesc.Method, b *bridgedesc.Binding, checkMethod bool) bool {
	if t == nil || !within(s, t.Services) {
		return false
	}
	if !checkMethod {
		return true
	}
	return within(m, s.Methods) && within(b, m.Bindings)
}

func gapDesc(ver int) *bridgedesc.Target {
	return &bridgedesc.Target{
		Name: "t0",
		Services: []bridgedesc.Service{
			{
				Name: "pkg.Stable",
				Methods: []bridgedesc.Method{
					{RPCName: "/pkg.Stable/Get", Bindings: []bridgedesc.Binding{{HTTPMethod: "GET", Pattern: "/stable/{id}"}}},
					{RPCName: "/pkg.Stable/Only", Bindings: []bridgedesc.Binding{{HTTPMethod: "GET", Pattern: fmt.Sprintf("/only/v%d", ver%2)}}},
				},
			},
			{
				Name:    protoreflect.FullName(fmt.Sprintf("pkg.Only%d", ver%2)),
				Methods: []bridgedesc.Method{{RPCName: fmt.Sprintf("/pkg.Only%d/M", ver%2)}},
			},
		},
	}
}

func stressGap(seed int64, ms int) string {
	r := rand.New(rand.NewSource(seed))
	lookers := 3 + r.Intn(4)
	prev := runtime.GOMAXPROCS(4 * runtime.NumCPU())
	defer runtime.GOMAXPROCS(prev)

	pr := routing.NewPatternRouter(pool{}, routing.PatternRouterOpts{})
	sr := routing.NewServiceRouter(pool{}, routing.ServiceRouterOpts{})
	pw, _ := pr.Watch("t0")
	sw, _ := sr.Watch("t0")
	// a bystander target so that the tables are never empty
	bw, _ := pr.Watch("by")
	bw.UpdateDesc(&bridgedesc.Target{Name: "by", Services: []bridgedesc.Service{{Name: "pkg.By", Methods: []bridgedesc.Method{{RPCName: "/pkg.By/M"}}}}})
	d0 := gapDesc(0)
	pw.UpdateDesc(d0)
	sw.UpdateDesc(d0)

	var stop atomic.Bool
	var wg sync.WaitGroup
	var updates, lookups, missP, missS, mixP, mixS atomic.Int64
	var first firstViolation

	wg.Add(1)
	go func() {
		defer wg.Done()
		for v := 1; !stop.Load(); v++ {
			d := gapDesc(v)
			pw.UpdateDesc(d)
			sw.UpdateDesc(d)
			updates.Add(1)
		}
	}()
	for i := 0; i < lookers; i++ {
		wg.Add(1)
		go func() {
			defer wg.Done()
			req := &http.Request{Method: http.MethodGet, URL: &url.URL{Path: "/stable/42"}}
			ctx := grpcCtx("/pkg.Stable/Get")
			for n := 0; !stop.Load(); n++ {
				_, hr, err := pr.RouteHTTP(req)
				if err != nil {
					missP.Add(1)
					first.set("RouteHTTP(GET /stable/42) after %d updates: %v", updates.Load(), err)
				} else if !oneDescription(hr.Target, hr.Service, hr.Method, hr.Binding, true) {
					mixP.Add(1)
					first.set("RouteHTTP result mixes descriptions after %d updates", updates.Load())
				}
				_, gr, err := sr.RouteGRPC(ctx)
				if err != nil {
					missS.Add(1)
					first.set("RouteGRPC(/pkg.Stable/Get) after %d updates: %v", updates.Load(), err)
				} else if !oneDescription(gr.Target, gr.Service, nil, nil, false) {
					mixS.Add(1)
					first.set("RouteGRPC result mixes descriptions after %d updates", updates.Load())
				}
				lookups.Add(2)
			}
		}()
	}
	deadline := time.Now().Add(time.Duration(ms) * time.Millisecond)
	for time.Now().Before(deadline) && missP.Load()+missS.Load()+mixP.Load()+mixS.Load() == 0 {
		time.Sleep(2 * time.Millisecond)
	}
	stop.Store(true)
	wg.Wait()
	return fmt.Sprintf("lookups=%d updates=%d missP=%d missS=%d mixP=%d mixS=%d first=%s",
		lookups.Load(), updates.Load(), missP.Load(), missS.Load(), mixP.Load(), mixS.Load(), first.get())
}

func closeDesc(name string) *bridgedesc.Target {
	return &bridgedesc.Target{
		Name: name,
		Services: []bridgedesc.Service{{
			Name: protoreflect.FullName("pkg.C_" + name),
			Methods: []bridgedesc.Method{{
				RPCName:  "/pkg.C_" + name + "/Get",
				Bindings: []bridgedesc.Binding{{HTTPMethod: "GET", Pattern: "/c/" + name}},
			}},
		}},
	}
}

func stressClose(seed int64, ms int) string {
	r := rand.New(rand.NewSource(seed))
	lifecycles := 5 + r.Intn(6)
	updaters := 3 + r.Intn(6)
	after := 10 + r.Intn(20)
	prev := runtime.GOMAXPROCS(4 * runtime.NumCPU())
	defer runtime.GOMAXPROCS(prev)

	pr := routing.NewPatternRouter(pool{}, routing.PatternRouterOpts{})
	sr := routing.NewServiceRouter(pool{}, routing.ServiceRouterOpts{})

	var stop atomic.Bool
	var wg sync.WaitGroup
	var cycles, lookups, routedAfterClose, rewatchFailed, missAfterUpdate, rewatchTooEarly, lostRoutes, handoffs atomic.Int64
	var first firstViolation
	bad := func() bool {
		return routedAfterClose.Load()+rewatchFailed.Load()+missAfterUpdate.Load()+rewatchTooEarly.Load()+lostRoutes.Load() > 0
	}

	// hand-over pairs: one goroutine Closes the watcher of a name while another polls Watch(name) in a tight
	// loop. As soon as the poll succeeds the old target's routes must be gone (the name becomes reusable only
	// after removal), and what the NEW watcher installs must survive the rest of the old Close.
	handovers := 2 + r.Intn(3)
	for i := 0; i < handovers; i++ {
		for _, svcSide := range []bool{false, true} {
			name := fmt.Sprintf("hand%d", i)
			svcSide := svcSide
			wg.Add(1)
			go func() {
				defer wg.Done()
				req := &http.Request{Method: http.MethodGet, URL: &url.URL{Path: "/c/" + name}}
				ctx := grpcCtx("/pkg.C_" + name + "/Get")
				watch := func() (watcher, error) {
					if svcSide {
						return sr.Watch(name)
					}
					return pr.Watch(name)
				}
				look := func() (*bridgedesc.Target, error) {
					if svcSide {
						_, g, err := sr.RouteGRPC(ctx)
						return g.Target, err
					}
					_, h, err := pr.RouteHTTP(req)
					return h.Target, err
				}
				cur, err := watch()
				if err != nil {
					return
				}
				for round := 0; !stop.Load(); round++ {
					dOld := closeDesc(name)
					cur.UpdateDesc(dOld)
					closed := make(chan struct{})
					old := cur
					go func() { old.Close(); close(closed) }()
					var nw watcher
					for {
						if w, err := watch(); err == nil {
							nw = w
							break
						}
						runtime.Gosched()
					}
					// the name was reusable: the old target's routes must already be gone
					if tgt, err := look(); err == nil && tgt == dOld {
						rewatchTooEarly.Add(1)
						first.set("%s round %d (service router=%v): Watch succeeded while the closing watcher's routes were still installed", name, round, svcSide)
					}
					dNew := closeDesc(name)
					nw.UpdateDesc(dNew)
					<-closed
					if tgt, err := look(); err != nil || tgt != dNew {
						lostRoutes.Add(1)
						first.set("%s round %d (service router=%v): new watcher's routes gone after the old Close returned: err=%v", name, round, svcSide, err)
					}
					lookups.Add(2)
					handoffs.Add(1)
					cur = nw
					if bad() {
						break
					}
				}
				cur.Close()
			}()
		}
	}

	for i := 0; i < updaters; i++ {
		name := fmt.Sprintf("steady%d", i)
		d := closeDesc(name)
		pw, _ := pr.Watch(name)
		sw, _ := sr.Watch(name)
		wg.Add(1)
		go func() {
			defer wg.Done()
			for !stop.Load() {
				pw.UpdateDesc(d)
				sw.UpdateDesc(d)
			}
			pw.Close()
			sw.Close()
		}()
	}
	for i := 0; i < lifecycles; i++ {
		name := fmt.Sprintf("cyc%d", i)
		wg.Add(1)
		go func() {
			defer wg.Done()
			req := &http.Request{Method: http.MethodGet, URL: &url.URL{Path: "/c/" + name}}
			ctx := grpcCtx("/pkg.C_" + name + "/Get")
			for cycle := 0; !stop.Load(); cycle++ {
				pw, err1 := pr.Watch(name)
				sw, err2 := sr.Watch(name)
				if err1 != nil || err2 != nil {
					rewatchFailed.Add(1)
					first.set("%s cycle %d: Watch after Close returned failed: pattern=%v service=%v", name, cycle, err1, err2)
					if err1 == nil {
						pw.Close()
					}
					if err2 == nil {
						sw.Close()
					}
					return
				}
				d := closeDesc(name)
				pw.UpdateDesc(d)
				sw.UpdateDesc(d)
				_, hr, errP := pr.RouteHTTP(req)
				_, gr, errS := sr.RouteGRPC(ctx)
				lookups.Add(2)
				if errP != nil || errS != nil || hr.Target != d || gr.Target != d {
					missAfterUpdate.Add(1)
					first.set("%s cycle %d: lookup after UpdateDesc returned: pattern err=%v service err=%v", name, cycle, errP, errS)
					pw.Close()
					sw.Close()
					return
				}
				pw.Close()
				sw.Close()
				// Close has returned and nobody else uses this name: no lookup may be routed to it
				for k := 0; k < after; k++ {
					_, _, errP := pr.RouteHTTP(req)
					_, _, errS := sr.RouteGRPC(ctx)
					lookups.Add(2)
					if errP == nil || errS == nil {
						routedAfterClose.Add(1)
						first.set("%s cycle %d lookup %d after Close returned: routed (pattern=%v service=%v)", name, cycle, k, errP == nil, errS == nil)
						return
					}
				}
				cycles.Add(1)
			}
		}()
	}
	deadline := time.Now().Add(time.Duration(ms) * time.Millisecond)
	for time.Now().Before(deadline) && !bad() {
		time.Sleep(2 * time.Millisecond)
	}
	stop.Store(true)
	wg.Wait()
	return fmt.Sprintf("lookups=%d cycles=%d handoffs=%d routedAfterClose=%d rewatchFailed=%d missAfterUpdate=%d rewatchTooEarly=%d lostRoutes=%d first=%s",
		lookups.Load(), cycles.Load(), handoffs.Load(), routedAfterClose.Load(), rewatchFailed.Load(), missAfterUpdate.Load(),
		rewatchTooEarly.Load(), lostRoutes.Load(), first.get())
}

// stressClaim: target A owns service pkg.Claim (watched and updated first); target B also lists it and keeps
// re-submitting its description; every lookup of the contested service must be routed to A's description.
func stressClaim(seed int64, ms int) string {
	r := rand.New(rand.NewSource(seed))
	lookers := 3 + r.Intn(4)
	prev := runtime.GOMAXPROCS(4 * runtime.NumCPU())
	defer runtime.GOMAXPROCS(prev)

	sr := routing.NewServiceRouter(pool{}, routing.ServiceRouterOpts{})
	claim := func(name string, own string) *bridgedesc.Target {
		return &bridgedesc.Target{Name: name, Services: []bridgedesc.Service{
			{Name: protoreflect.FullName("pkg.Own" + own), Methods: []bridgedesc.Method{{RPCName: "/pkg.Own" + own + "/M"}}},
			{Name: "pkg.Claim", Methods: []bridgedesc.Method{{RPCName: "/pkg.Claim/M"}}},
		}}
	}
	aw, _ := sr.Watch("A")
	dA := claim("A", "A")
	aw.UpdateDesc(dA)
	bw, _ := sr.Watch("B")

	var stop atomic.Bool
	var wg sync.WaitGroup
	var updates, lookups, later, miss, mix atomic.Int64
	var first firstViolation
	wg.Add(1)
	go func() {
		defer wg.Done()
		for !stop.Load() {
			bw.UpdateDesc(claim("B", "B"))
			updates.Add(1)
		}
	}()
	for i := 0; i < lookers; i++ {
		wg.Add(1)
		go func() {
			defer wg.Done()
			ctx := grpcCtx("/pkg.Claim/M")
			req := &http.Request{Method: http.MethodPost, URL: &url.URL{Path: "/pkg.Claim/M", RawPath: "/pkg.Claim/M"}}
			judge := func(api string, tgt *bridgedesc.Target, svc *bridgedesc.Service, err error) {
				switch {
				case err != nil:
					miss.Add(1)
					first.set("%s(pkg.Claim) after %d updates of B: %v", api, updates.Load(), err)
				case tgt != dA:
					later.Add(1)
					name := "?"
					if tgt != nil {
						name = tgt.Name
					}
					first.set("%s(pkg.Claim) routed to target %s after %d updates of B; the earlier claimant A owns it", api, name, updates.Load())
				case !within(svc, dA.Services):
					mix.Add(1)
					first.set("%s(pkg.Claim): target A with a service of another description", api)
				}
			}
			for !stop.Load() {
				_, g, err := sr.RouteGRPC(ctx)
				judge("RouteGRPC", g.Target, g.Service, err)
				_, h, err := sr.RouteHTTP(req)
				judge("RouteHTTP", h.Target, h.Service, err)
				lookups.Add(2)
			}
		}()
	}
	deadline := time.Now().Add(time.Duration(ms) * time.Millisecond)
	for time.Now().Before(deadline) && later.Load()+miss.Load()+mix.Load() == 0 {
		time.Sleep(2 * time.Millisecond)
	}
	stop.Store(true)
	wg.Wait()
	return fmt.Sprintf("lookups=%d updates=%d later=%d miss=%d mix=%d first=%s",
		lookups.Load(), updates.Load(), later.Load(), miss.Load(), mix.Load(), first.get())
}

// stressHandover (fix D31): service pkg.Hand is listed by two alternating targets (one of them always lists it),
// by a flipper that alternately lists and drops it, and by cyclers that Watch → UpdateDesc (listing it) →
// lookup → Close → lookups. Owners release the service all the time, so it keeps being handed over between
// the waiting claimants. Once the permanent lister's first update has returned the service must never be
// absent; a cycler must never be routed to after its own Close returned (a promoted stale claim would do
// that); every result must come from one description.
func stressHandover(seed int64, ms int) string {
	r := rand.New(rand.NewSource(seed))
	cyclers := 3 + r.Intn(4)
	lookers := 2 + r.Intn(3)
	after := 5 + r.Intn(10)
	prev := runtime.GOMAXPROCS(4 * runtime.NumCPU())
	defer runtime.GOMAXPROCS(prev)

	sr := routing.NewServiceRouter(pool{}, routing.ServiceRouterOpts{})
	mk := func(name string, hand bool) *bridgedesc.Target {
		d := &bridgedesc.Target{Name: name, Services: []bridgedesc.Service{
			{Name: protoreflect.FullName("pkg.Own_" + name), Methods: []bridgedesc.Method{{RPCName: "/pkg.Own_" + name + "/M"}}},
		}}
		if hand {
			d.Services = append(d.Services, bridgedesc.Service{Name: "pkg.Hand", Methods: []bridgedesc.Method{{RPCName: "/pkg.Hand/M"}}})
		}
		return d
	}
	var stop atomic.Bool
	var wg sync.WaitGroup
	var lookups, handCycles, miss, ownAfterClose, mix atomic.Int64
	var first firstViolation
	bad := func() bool { return miss.Load()+ownAfterClose.Load()+mix.Load() > 0 }
	ctx := grpcCtx("/pkg.Hand/M")
	look := func(who string) *bridgedesc.Target {
		_, g, err := sr.RouteGRPC(ctx)
		lookups.Add(1)
		if err != nil {
			miss.Add(1)
			first.set("%s: RouteGRPC(pkg.Hand) missed although one of the alternating targets always lists it: %v", who, err)
			return nil
		}
		if !within(g.Service, g.Target.Services) {
			mix.Add(1)
			first.set("%s: RouteGRPC(pkg.Hand): service of another description", who)
		}
		return g.Target
	}

	// two alternating listers driven by ONE goroutine: at every moment at least one of them has a completed
	// update listing the service, so it must never be absent; but each of them drops it in turn, so the owner
	// keeps releasing the service and it keeps being handed over to whoever waits (the other lister, a cycler).
	p1, _ := sr.Watch("alt1")
	p2, _ := sr.Watch("alt2")
	p1.UpdateDesc(mk("alt1", true))
	wg.Add(1)
	go func() {
		defer wg.Done()
		for !stop.Load() {
			p2.UpdateDesc(mk("alt2", true))
			p1.UpdateDesc(mk("alt1", false)) // alt1 releases / forgets its claim
			p1.UpdateDesc(mk("alt1", true))
			p2.UpdateDesc(mk("alt2", false)) // alt2 releases / forgets its claim
		}
	}()
	wg.Add(1)
	go func() { // flipper: lists and drops
		defer wg.Done()
		w, _ := sr.Watch("flip")
		for i := 0; !stop.Load(); i++ {
			w.UpdateDesc(mk("flip", i%2 == 0))
		}
		w.Close()
	}()
	for i := 0; i < cyclers; i++ {
		name := fmt.Sprintf("cyc%d", i)
		wg.Add(1)
		go func() {
			defer wg.Done()
			for cycle := 0; !stop.Load() && !bad(); cycle++ {
				w, err := sr.Watch(name)
				if err != nil {
					return
				}
				d1 := mk(name, true)
				w.UpdateDesc(d1)
				look(name)
				d2 := mk(name, true)
				w.UpdateDesc(d2)
				w.Close()
				for k := 0; k < after; k++ {
					if tgt := look(name); tgt == d1 || tgt == d2 {
						ownAfterClose.Add(1)
						first.set("%s cycle %d lookup %d: routed to this target after its Close returned", name, cycle, k)
					}
				}
				handCycles.Add(1)
			}
		}()
	}
	for i := 0; i < lookers; i++ {
		wg.Add(1)
		go func() {
			defer wg.Done()
			for !stop.Load() {
				look("looker")
			}
		}()
	}
	deadline := time.Now().Add(time.Duration(ms) * time.Millisecond)
	for time.Now().Before(deadline) && !bad() {
		time.Sleep(2 * time.Millisecond)
	}
	stop.Store(true)
	wg.Wait()
	return fmt.Sprintf("lookups=%d cycles=%d miss=%d ownAfterClose=%d mix=%d first=%s",
		lookups.Load(), handCycles.Load(), miss.Load(), ownAfterClose.Load(), mix.Load(), first.get())
}

func execStress(f []string) string {
	if len(f) != 4 {
		return "BADINPUT"
	}
	seed, err1 := strconv.ParseInt(f[2], 10, 64)
	ms, err2 := strconv.Atoi(f[3])
	if err1 != nil || err2 != nil || ms <= 0 || ms > 60000 {
		return "BADINPUT"
	}
	execMu.Lock()
	defer execMu.Unlock()
	verifx.SetHook(nil) // uncontrolled: no yield-point handler
	out := "BADINPUT"
	switch f[1] {
	case "gap":
		out = stressGap(seed, ms)
	case "close":
		out = stressClose(seed, ms)
	case "claim":
		out = stressClaim(seed, ms)
	case "handover":
		out = stressHandover(seed, ms)
	}
	if !strings.HasSuffix(out, "first=-") && out != "BADINPUT" {
		stressFound.Store(true)
	}
	return out
}
