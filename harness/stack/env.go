package stack

// The system under test, wired exactly as an application would: a real grpcbridge.ReflectionRouter
// (WithConnFunc dialing the bufconn targets, WithDialOpts, WithReflectionPollInterval(1s) or
// WithDisabledReflectionPolling), a real grpcbridge.NewWebBridge(router, …) behind httptest.Server and a
// real grpcbridge.NewGRPCProxy(router, …) registered with AsServerOption() on a bufconn grpc.Server.

import (
	"bytes"
	"context"
	"encoding/binary"
	"encoding/json"
	"errors"
	"fmt"
	"io"
	"net"
	"net/http"
	"net/http/httptest"
	"strconv"
	"strings"
	"sync"
	"sync/atomic"
	"time"

	"github.com/renbou/grpcbridge"
	"github.com/renbou/grpcbridge/grpcadapter"
	"github.com/renbou/grpcbridge/transcoding"
	"google.golang.org/grpc"
	"google.golang.org/grpc/credentials/insecure"
	"google.golang.org/grpc/metadata"
	"google.golang.org/grpc/status"
	"google.golang.org/grpc/test/bufconn"
	"verif/harness/c07/fake"
)

const (
	settleBound   = 3 * time.Second
	pollSettle    = 4 * time.Second
	noReflSettle  = 150 * time.Millisecond
	probeTimeout  = 10 * time.Second
	stkMime       = "application/x-stk+json"
	probeParallel = 8
)

var errInjected = errors.New("stack: injected connection constructor failure")

// stkMarshaler is the custom marshaler of the opt=1 configuration: JSON under another MIME type and
// flagged binary, so that its use is visible on the transcoded HTTP bridge (Content-Type) and on the
// transcoded WebSocket bridge (binary frames expected and sent).
type stkMarshaler struct{ *transcoding.JSONMarshaler }

func (stkMarshaler) ContentType() (string, bool) { return stkMime, true }

type env struct {
	poll, opt bool
	router    *grpcbridge.ReflectionRouter
	web       *httptest.Server
	proxySrv  *grpc.Server
	proxyLis  *bufconn.Listener
	proxyCC   *grpc.ClientConn
	httpc     *http.Client
	flightc   *http.Client // no timeout: for calls that are meant to stay in flight
	hook      *hookState

	mu      sync.Mutex
	targets map[string]*target // tid -> instance (never removed: a removed target keeps answering whoever still reaches it)
	live    map[string]*target // router name -> instance behind it
	order   []*target
}

func newEnv(poll, opt bool) (*env, error) {
	e := &env{poll: poll, opt: opt, targets: map[string]*target{}, live: map[string]*target{}, hook: &hookState{}}
	ropts := []grpcbridge.RouterOption{
		grpcbridge.WithLogger(hookLogger{st: e.hook}),
		grpcbridge.WithConnFunc(e.connFunc),
		grpcbridge.WithDialOpts(grpc.WithUserAgent(userAgent)),
	}
	if poll {
		ropts = append(ropts, grpcbridge.WithReflectionPollInterval(time.Second))
	} else {
		ropts = append(ropts, grpcbridge.WithDisabledReflectionPolling())
	}
	e.router = grpcbridge.NewReflectionRouter(ropts...)

	var bopts []grpcbridge.BridgeOption
	var popts []grpcbridge.ProxyOption
	if opt {
		// NewForwarder() has no allow-list options: the forwarder is built from grpcadapter and handed over with WithForwarder
		pf := grpcadapter.NewProxyForwarder(grpcadapter.ProxyForwarderOpts{
			Filter: grpcadapter.NewProxyMDFilter(grpcadapter.ProxyMDFilterOpts{AllowResponseMD: []string{stampHeader}}),
		})
		stk := stkMarshaler{transcoding.DefaultJSONMarshaler}
		bopts = append(bopts, grpcbridge.WithForwarder(pf),
			grpcbridge.WithMarshalers([]transcoding.Marshaler{transcoding.DefaultJSONMarshaler, stk}),
			grpcbridge.WithDefaultMarshaler(stk))
		popts = append(popts, grpcbridge.WithForwarder(pf))
	}
	e.web = httptest.NewServer(grpcbridge.NewWebBridge(e.router, bopts...))
	e.httpc = &http.Client{Timeout: probeTimeout, Transport: &http.Transport{MaxIdleConnsPerHost: probeParallel}}
	e.flightc = &http.Client{Transport: &http.Transport{DisableKeepAlives: true}}

	proxy := grpcbridge.NewGRPCProxy(e.router, popts...)
	e.proxyLis = bufconn.Listen(1 << 18)
	e.proxySrv = grpc.NewServer(proxy.AsServerOption())
	go func() { _ = e.proxySrv.Serve(e.proxyLis) }()
	cc, err := grpc.NewClient("passthrough:///stk-proxy", grpc.WithTransportCredentials(insecure.NewCredentials()),
		grpc.WithContextDialer(func(ctx context.Context, _ string) (net.Conn, error) { return e.proxyLis.DialContext(ctx) }))
	if err != nil {
		return nil, err
	}
	e.proxyCC = cc
	return e, nil
}

func (e *env) close() {
	e.mu.Lock()
	names := make([]string, 0, len(e.live))
	for n := range e.live {
		names = append(names, n)
	}
	e.mu.Unlock()
	for _, n := range names {
		func() {
			defer func() { _ = recover() }()
			e.router.Remove(n)
		}()
	}
	_ = e.proxyCC.Close()
	e.proxySrv.Stop()
	_ = e.proxyLis.Close()
	e.httpc.CloseIdleConnections()
	e.flightc.CloseIdleConnections()
	e.web.CloseClientConnections()
	e.web.Close()
	for _, t := range e.order {
		t.stop()
	}
}

// connFunc is what WithConnFunc installs: the dial target names the instance ("tid:<id>") or demands a failure.
func (e *env) connFunc(dialTarget string, opts ...grpc.DialOption) (*grpc.ClientConn, error) {
	if dialTarget == "fail" {
		return nil, errInjected
	}
	e.mu.Lock()
	t := e.targets[strings.TrimPrefix(dialTarget, "tid:")]
	e.mu.Unlock()
	if t == nil {
		return nil, fmt.Errorf("stack: unknown dial target %q", dialTarget)
	}
	return t.dial(opts...)
}

type fakeSTS struct{ method string }

func (s fakeSTS) Method() string             { return s.method }
func (fakeSTS) SetHeader(metadata.MD) error  { return nil }
func (fakeSTS) SendHeader(metadata.MD) error { return nil }
func (fakeSTS) SetTrailer(metadata.MD) error { return nil }

// settled reports whether BOTH routers of the ReflectionRouter have the contract c for `name`: the ServiceRouter routes
// the sentinel service to `name` with a description that reads back as c (so a change that keeps every name and template
// is waited for as well), and the PatternRouter routes the sentinel's default path the same way — or, when the sentinel of
// c is BARE (c has nothing routable for the PatternRouter), does not route that path to `name` with any OTHER description.
// (The fan-out is sequential, pattern router first, so the PatternRouter's turn is over when the ServiceRouter has c.)
func (e *env) settled(name string, sent service, want string) bool {
	path := "/" + sent.name + "/Ping"
	_, gr, err := e.router.RouteGRPC(grpc.NewContextWithServerTransportStream(context.Background(), fakeSTS{path}))
	if err != nil || gr.Target == nil || gr.Target.Name != name || contractOfDesc(gr.Target).canon() != want {
		return false
	}
	_, hr, err := e.router.RouteHTTP(httptest.NewRequest("POST", path, nil))
	if !sent.has("Ping") {
		return err != nil || hr.Target == nil || hr.Target.Name != name || contractOfDesc(hr.Target).canon() == want
	}
	return err == nil && hr.Target != nil && hr.Target.Name == name && contractOfDesc(hr.Target).canon() == want
}

// exhausted counts settle waits that ran into their bound: on a broken tree every Add would wait in full,
// so after a few of them the bound is cut (the verdict of such a tree is decided long before).
var exhausted atomic.Int32

func (e *env) waitSettled(name string, c contract, bound time.Duration) bool {
	sent, ok := c.sentinel()
	if !ok {
		time.Sleep(noReflSettle)
		return true
	}
	if exhausted.Load() >= 4 {
		// the cut bound is still far above what correct code needs (a first resolution takes milliseconds, a polled
		// change one poll interval of 1 s ± 10 %), so it never turns correct behaviour into a difference
		if bound > settleBound {
			bound = 1600 * time.Millisecond
		} else {
			bound /= 8
		}
	}
	defer func(t0 time.Time) {
		if time.Since(t0) >= bound {
			exhausted.Add(1)
		}
	}(time.Now())
	want := c.canon()
	deadline := time.Now().Add(bound)
	for {
		if e.settled(name, sent, want) {
			return true
		}
		if time.Now().After(deadline) {
			return false
		}
		time.Sleep(2 * time.Millisecond)
	}
}

func guarded(f func() string) (out string) {
	defer func() {
		if r := recover(); r != nil {
			out = "panic"
		}
	}()
	return f()
}

// add: a fresh target instance `tid` serving contract c, then ReflectionRouter.Add(name, "tid:<tid>").
func (e *env) add(name, tid, refl string, c contract) string {
	t, err := newTarget(tid, refl, c)
	if err != nil {
		return "harness:" + err.Error()
	}
	e.mu.Lock()
	e.targets[tid] = t
	e.order = append(e.order, t)
	e.mu.Unlock()
	ok, err := e.router.Add(name, "tid:"+tid)
	if err != nil || !ok {
		if ok {
			return "err+true"
		}
		return "err"
	}
	e.mu.Lock()
	e.live[name] = t
	e.mu.Unlock()
	if refl == "none" {
		time.Sleep(noReflSettle) // nothing will ever be resolved; give a wrong resolution the time to show
		return "ok"
	}
	if !e.waitSettled(name, c, settleBound) {
		return "ok!"
	}
	return "ok"
}

func (e *env) addFailing(name string, withOpts bool) string {
	var ok bool
	var err error
	if withOpts {
		ok, err = e.router.Add(name, "fail", grpcbridge.WithDisabledReflectionPolling())
	} else {
		ok, err = e.router.Add(name, "fail")
	}
	switch {
	case err != nil && !ok:
		return "err"
	case err != nil:
		return "err+true"
	default:
		e.mu.Lock()
		e.live[name] = nil
		e.mu.Unlock()
		return "ok"
	}
}

func (e *env) remove(name string) string {
	was := e.router.Remove(name)
	e.mu.Lock()
	delete(e.live, name)
	e.mu.Unlock()
	return strconv.FormatBool(was)
}

// update: the instance behind `name` starts serving another contract; with polling on, the next poll delivers it.
func (e *env) update(name string, c contract, gen int) string {
	e.mu.Lock()
	t := e.live[name]
	e.mu.Unlock()
	if t == nil {
		return "absent"
	}
	if err := t.setContract(c, gen); err != nil {
		return "harness:" + err.Error()
	}
	if !e.poll {
		time.Sleep(noReflSettle)
		return "ok"
	}
	if !e.waitSettled(name, c, pollSettle) {
		return "ok!"
	}
	return "ok"
}

// ---------- probes ----------

type probe struct {
	ep         string // px | gw | gs | dg (direct RouteGRPC) | ht | dh (direct RouteHTTP) | ws
	hm, path   string
	body       string // ht/ws: * | - | sub
	id, sub, n string // what is sent (id / nested only on the gRPC-style entries; the transcoded ones carry them in the path)
}

func safe(s string) string {
	if s == "" {
		return "-"
	}
	for i := 0; i < len(s); i++ {
		c := s[i]
		ok := c >= 'a' && c <= 'z' || c >= 'A' && c <= 'Z' || c >= '0' && c <= '9' || strings.IndexByte("._/:-?+", c) >= 0
		if !ok {
			return "x" + fmt.Sprintf("%x", s)
		}
	}
	if s == "-" {
		return "x2d"
	}
	return s
}

func answered(m msg, hdr, enc string) string {
	return strings.Join([]string{"+" + safe(m.target), safe(m.method), safe(m.id), safe(m.nested), safe(m.sub), safe(hdr), enc}, "|")
}

func first(vs []string) string {
	if len(vs) == 0 {
		return ""
	}
	return strings.Join(vs, "+")
}

func (e *env) run(p probe) (out string) {
	defer func() {
		if r := recover(); r != nil {
			out = "!panic"
		}
	}()
	switch p.ep {
	case "px":
		return e.probeProxy(p)
	case "gw":
		return e.probeGRPCWeb(p)
	case "gs":
		return e.probeGRPCWS(p)
	case "ht":
		return e.probeHTTP(p)
	case "ws":
		return e.probeWS(p)
	case "dg":
		return e.lookupGRPC(p.path)
	case "dh":
		return e.lookupHTTP(p.hm, p.path)
	}
	return "!ep"
}

func (e *env) probeProxy(p probe) string {
	ctx, cancel := context.WithTimeout(context.Background(), probeTimeout)
	defer cancel()
	st, err := e.proxyCC.NewStream(ctx, &grpc.StreamDesc{ClientStreams: true, ServerStreams: true}, p.path, grpc.ForceCodec(rawCodec{}))
	if err != nil {
		return fmt.Sprintf("-%d", status.Code(err))
	}
	req := msg{id: p.id, sub: p.sub, nested: p.n}.encodeReq()
	if err := st.SendMsg(&req); err != nil && err != io.EOF {
		return fmt.Sprintf("-%d", status.Code(err))
	}
	_ = st.CloseSend()
	var resp []byte
	if err := st.RecvMsg(&resp); err != nil {
		if err == io.EOF {
			return "!nomsg"
		}
		return fmt.Sprintf("-%d", status.Code(err))
	}
	var extra []byte
	err = st.RecvMsg(&extra)
	if err != io.EOF {
		if err == nil {
			return "!twomsgs"
		}
		return fmt.Sprintf("!late%d", status.Code(err))
	}
	m, ok := decodeMsg(resp)
	if !ok {
		return "!undecodable"
	}
	h, _ := st.Header()
	return answered(m, first(h.Get(stampHeader)), "-")
}

func frame(flag byte, payload []byte) []byte {
	b := make([]byte, 5, 5+len(payload))
	b[0] = flag
	binary.BigEndian.PutUint32(b[1:], uint32(len(payload)))
	return append(b, payload...)
}

// splitFrames splits a gRPC-Web body into message payloads and header/trailer blocks (lower-cased keys).
func splitFrames(b []byte) (msgs [][]byte, blocks []map[string][]string, ok bool) {
	for len(b) > 0 {
		if len(b) < 5 {
			return msgs, blocks, false
		}
		n := int(binary.BigEndian.Uint32(b[1:5]))
		if n > len(b)-5 {
			return msgs, blocks, false
		}
		pl := b[5 : 5+n]
		if b[0]&0x80 != 0 {
			md := map[string][]string{}
			for _, line := range bytes.Split(pl, []byte("\r\n")) {
				if len(line) == 0 {
					continue
				}
				k, v, _ := bytes.Cut(line, []byte(":"))
				key := strings.ToLower(string(k))
				md[key] = append(md[key], strings.TrimSpace(string(v)))
			}
			blocks = append(blocks, md)
		} else {
			msgs = append(msgs, pl)
		}
		b = b[5+n:]
	}
	return msgs, blocks, true
}

func webOutcome(msgs [][]byte, blocks []map[string][]string, hdr string) string {
	if len(blocks) == 0 {
		return "!notrailer"
	}
	tr := blocks[len(blocks)-1]
	code := first(tr["grpc-status"])
	if code != "0" {
		if code == "" {
			return "!nostatus"
		}
		return "-" + code
	}
	if len(msgs) != 1 {
		return fmt.Sprintf("!msgs%d", len(msgs))
	}
	m, ok := decodeMsg(msgs[0])
	if !ok {
		return "!undecodable"
	}
	return answered(m, hdr, "-")
}

func (e *env) probeGRPCWeb(p probe) string {
	body := frame(0, msg{id: p.id, sub: p.sub, nested: p.n}.encodeReq())
	req, err := http.NewRequest("POST", e.web.URL+p.path, bytes.NewReader(body))
	if err != nil {
		return "!req"
	}
	req.Header.Set("Content-Type", "application/grpc-web+proto")
	resp, err := e.httpc.Do(req)
	if err != nil {
		return "!do"
	}
	defer resp.Body.Close()
	raw, _ := io.ReadAll(resp.Body)
	if resp.StatusCode != 200 {
		return fmt.Sprintf("!http%d", resp.StatusCode)
	}
	if ct := resp.Header.Get("Content-Type"); !strings.HasPrefix(ct, "application/grpc-web") {
		return "!ct:" + safe(ct)
	}
	msgs, blocks, ok := splitFrames(raw)
	if !ok {
		return "!framing"
	}
	return webOutcome(msgs, blocks, first(resp.Header.Values(stampHeader)))
}

func (e *env) dialWeb() (*fake.RawConn, error) {
	rc, err := fake.Dial(e.web.Listener.Addr().String())
	if err == nil {
		_ = rc.C.SetDeadline(time.Now().Add(probeTimeout)) // a loaded machine must not turn into a protocol surprise
	}
	return rc, err
}

func (e *env) probeGRPCWS(p probe) string {
	rc, err := e.dialWeb()
	if err != nil {
		return "!dial"
	}
	defer rc.Close()
	hs := append(fake.WSHandshake(), [2]string{"Sec-WebSocket-Protocol", "grpc-websockets"})
	if err := rc.WriteRequest("GET", p.path, hs, nil); err != nil {
		return "!write"
	}
	resp, err := rc.ReadResponse("GET")
	if err != nil {
		return "!read"
	}
	if resp.StatusCode != 101 {
		return fmt.Sprintf("!http%d", resp.StatusCode)
	}
	_ = rc.WriteWSFrame(2, []byte("x-stk-probe: 1\r\n"))
	_ = rc.WriteWSFrame(2, append([]byte{0}, frame(0, msg{id: p.id, sub: p.sub, nested: p.n}.encodeReq())...))
	_ = rc.WriteWSFrame(2, []byte{1})
	var buf []byte
	for _, fr := range rc.ReadWSFrames() {
		if fr.Opcode == 2 {
			buf = append(buf, fr.Payload...)
		}
	}
	msgs, blocks, ok := splitFrames(buf)
	if !ok {
		return "!framing"
	}
	hdr := ""
	if len(blocks) >= 2 {
		hdr = first(blocks[0][stampHeader])
	}
	return webOutcome(msgs, blocks, hdr)
}

type jsonMsg struct {
	ID     string `json:"id"`
	Sub    string `json:"sub"`
	Target string `json:"target"`
	Method string `json:"method"`
	Nested struct {
		Name string `json:"name"`
	} `json:"nested"`
}

func (j jsonMsg) msg() msg {
	return msg{id: j.ID, sub: j.Sub, target: j.Target, method: j.Method, nested: j.Nested.Name}
}

// bodyKind strips the Content-Type selector of an H probe: "*j" = body "*" sent as application/json,
// "*k" = body "*" sent as application/x-stk+json (the MIME type of the custom marshaler of opt=1).
func bodyKind(b string) (kind, contentType string) {
	switch b {
	case "*j":
		return "*", "application/json"
	case "*k":
		return "*", stkMime
	}
	return b, ""
}

func jsonBody(p probe) []byte {
	kind, _ := bodyKind(p.body)
	switch kind {
	case "*":
		b, _ := json.Marshal(map[string]string{"sub": p.sub})
		return b
	case "sub":
		b, _ := json.Marshal(p.sub)
		return b
	}
	return nil
}

func encOf(ct string) string {
	switch {
	case strings.HasPrefix(ct, stkMime):
		return "stk"
	case strings.HasPrefix(ct, "application/json"):
		return "json"
	}
	return "other:" + safe(ct)
}

func (e *env) probeHTTP(p probe) string {
	var rd io.Reader
	if b := jsonBody(p); b != nil {
		rd = bytes.NewReader(b)
	}
	req, err := http.NewRequest(p.hm, e.web.URL+p.path, rd)
	if err != nil {
		return "!req"
	}
	if _, ct := bodyKind(p.body); ct != "" {
		req.Header.Set("Content-Type", ct)
	}
	resp, err := e.httpc.Do(req)
	if err != nil {
		return "!do"
	}
	defer resp.Body.Close()
	raw, _ := io.ReadAll(resp.Body)
	if resp.StatusCode != 200 {
		return fmt.Sprintf("-%d", resp.StatusCode)
	}
	var j jsonMsg
	if err := json.NewDecoder(bytes.NewReader(raw)).Decode(&j); err != nil {
		return "!json"
	}
	return answered(j.msg(), first(resp.Header.Values(stampHeader)), encOf(resp.Header.Get("Content-Type")))
}

func (e *env) probeWS(p probe) string {
	rc, err := e.dialWeb()
	if err != nil {
		return "!dial"
	}
	defer rc.Close()
	if err := rc.WriteRequest("GET", p.path, fake.WSHandshake(), nil); err != nil {
		return "!write"
	}
	resp, err := rc.ReadResponse("GET")
	if err != nil {
		return "!read"
	}
	if resp.StatusCode != 101 {
		_, _ = io.Copy(io.Discard, io.LimitReader(resp.Body, 1<<16))
		return fmt.Sprintf("-%d", resp.StatusCode)
	}
	body := jsonBody(p)
	if body == nil {
		body = []byte("{}")
	}
	op := byte(1)
	if e.opt {
		op = 2 // the configured default marshaler is flagged binary
	}
	_ = rc.WriteWSFrame(op, body)
	var data []fake.WSFrame
	closeCode := 0
	for _, fr := range rc.ReadWSFrames() {
		switch fr.Opcode {
		case 1, 2:
			data = append(data, fr)
		case 8:
			if len(fr.Payload) >= 2 {
				closeCode = int(binary.BigEndian.Uint16(fr.Payload))
			}
		}
	}
	if len(data) == 0 {
		return fmt.Sprintf("-c%d", closeCode)
	}
	if len(data) != 1 {
		return fmt.Sprintf("!frames%d", len(data))
	}
	var j jsonMsg
	if err := json.Unmarshal(data[0].Payload, &j); err != nil {
		return "!json"
	}
	enc := "t"
	if data[0].Opcode == 2 {
		enc = "b"
	}
	return answered(j.msg(), "", enc)
}

// probeAll runs every probe (a few at a time) and returns the records in probe order.
func (e *env) probeAll(ps []probe) []string {
	out := make([]string, len(ps))
	sem := make(chan struct{}, probeParallel)
	var wg sync.WaitGroup
	for i := range ps {
		wg.Add(1)
		sem <- struct{}{}
		go func(i int) {
			defer wg.Done()
			defer func() { <-sem }()
			out[i] = e.run(ps[i])
		}(i)
	}
	wg.Wait()
	return out
}
