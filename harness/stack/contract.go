package stack

// Contracts on the line protocol and as run-time built descriptors.
//
//	contract  = service ";" service …
//	service   = fullName "!" method "!" method …          (fullName = pkg "." Name, pkg never starts with "grpc.")
//	method    = Name "@" kind [ "@" binding … ]           kind = u | ss | cs | bd
//	binding   = httpMethod "~" template "~" body          body = "*" | "-" | "sub"
//
// Every method takes and returns stkmsg.Msg { string id = 1; string sub = 2; string target = 3;
// string method = 4; Nested nested = 5 } with Nested { string name = 1 }.  Path variables used by the
// templates are `id` and `nested.name`, the body is `*`, the field `sub`, or absent.

import (
	"fmt"
	"sort"
	"strings"

	"github.com/renbou/grpcbridge/bridgedesc"

	"google.golang.org/genproto/googleapis/api/annotations"
	"google.golang.org/protobuf/proto"
	"google.golang.org/protobuf/reflect/protodesc"
	"google.golang.org/protobuf/reflect/protoreflect"
	"google.golang.org/protobuf/reflect/protoregistry"
	"google.golang.org/protobuf/types/descriptorpb"
)

type binding struct{ hm, pattern, body string }

type method struct {
	name, kind string
	bindings   []binding
}

func (m method) cs() bool { return m.kind == "cs" || m.kind == "bd" }
func (m method) ss() bool { return m.kind == "ss" || m.kind == "bd" }

type service struct {
	name    string
	methods []method
}

type contract []service

func (c contract) String() string {
	var ss []string
	for _, s := range c {
		parts := []string{s.name}
		for _, m := range s.methods {
			mp := []string{m.name, m.kind}
			for _, b := range m.bindings {
				mp = append(mp, b.hm+"~"+b.pattern+"~"+b.body)
			}
			parts = append(parts, strings.Join(mp, "@"))
		}
		ss = append(ss, strings.Join(parts, "!"))
	}
	return strings.Join(ss, ";")
}

func parseContract(s string) (contract, error) {
	var c contract
	if s == "" {
		return c, nil
	}
	for _, st := range strings.Split(s, ";") {
		parts := strings.Split(st, "!")
		sv := service{name: parts[0]}
		if !strings.Contains(sv.name, ".") {
			return nil, fmt.Errorf("service name without package: %q", sv.name)
		}
		for _, mt := range parts[1:] {
			mp := strings.Split(mt, "@")
			if len(mp) < 2 {
				return nil, fmt.Errorf("bad method %q", mt)
			}
			m := method{name: mp[0], kind: mp[1]}
			switch m.kind {
			case "u", "ss", "cs", "bd":
			default:
				return nil, fmt.Errorf("bad kind %q", m.kind)
			}
			for _, bt := range mp[2:] {
				bp := strings.Split(bt, "~")
				if len(bp) != 3 {
					return nil, fmt.Errorf("bad binding %q", bt)
				}
				m.bindings = append(m.bindings, binding{bp[0], bp[1], bp[2]})
			}
			sv.methods = append(sv.methods, m)
		}
		c = append(c, sv)
	}
	return c, nil
}

// sentinel returns the service the settle wait looks for (prefix stk.z.), if any.
func (c contract) sentinel() (service, bool) {
	for _, s := range c {
		if strings.HasPrefix(s.name, "stk.z.") {
			return s, true // possibly BARE (no methods): a contract with nothing routable for the PatternRouter
		}
	}
	return service{}, false
}

// validTmpl mirrors what the driver's template parser (and routing.buildPattern) accept of the generator's pool: the
// deliberately unparseable templates of the `badtemplates` contract have no leading slash or an unclosed brace.
func validTmpl(p string) bool {
	return strings.HasPrefix(p, "/") && strings.Count(p, "{") == strings.Count(p, "}")
}

// routable: the contract gives the PatternRouter at least one route (a binding-less method or a parseable binding).
func (c contract) routable() bool {
	for _, s := range c {
		for _, m := range s.methods {
			if len(m.bindings) == 0 {
				return true
			}
			for _, b := range m.bindings {
				if validTmpl(b.pattern) {
					return true
				}
			}
		}
	}
	return false
}

func (sv service) has(method string) bool {
	for _, m := range sv.methods {
		if m.name == method {
			return true
		}
	}
	return false
}

// canon is the contract with its services sorted by name (the order of a description's services comes from a Go map
// in grpc's reflection server) — the form two descriptions are compared in.
func (c contract) canon() string {
	cc := append(contract{}, c...)
	sort.SliceStable(cc, func(i, j int) bool { return cc[i].name < cc[j].name })
	return cc.String()
}

func kindOf(cs, ss bool) string {
	switch {
	case cs && ss:
		return "bd"
	case cs:
		return "cs"
	case ss:
		return "ss"
	}
	return "u"
}

func bodyOf(requestBodyPath string) string {
	if requestBodyPath == "" {
		return "-"
	}
	return requestBodyPath
}

func methodOfDesc(m *bridgedesc.Method) method {
	name := m.RPCName
	if i := strings.LastIndexByte(name, '/'); i >= 0 {
		name = name[i+1:]
	}
	out := method{name: name, kind: kindOf(m.ClientStreaming, m.ServerStreaming)}
	for _, b := range m.Bindings {
		out.bindings = append(out.bindings, binding{b.HTTPMethod, b.Pattern, bodyOf(b.RequestBodyPath)})
	}
	return out
}

func serviceOfDesc(sv *bridgedesc.Service) service {
	out := service{name: string(sv.Name)}
	for i := range sv.Methods {
		out.methods = append(out.methods, methodOfDesc(&sv.Methods[i]))
	}
	return out
}

// contractOfDesc reads a description the routers hand out back into the line-protocol form.
func contractOfDesc(t *bridgedesc.Target) contract {
	var c contract
	if t == nil {
		return c
	}
	for i := range t.Services {
		c = append(c, serviceOfDesc(&t.Services[i]))
	}
	return c
}

// digest is the compact form of one service's data used in the records of the direct router lookups:
// Method.kind.<one body letter per binding> joined by ';'  (body letters: * whole message, - none, s field sub).
func (sv service) digest() string {
	var ms []string
	for _, m := range sv.methods {
		ms = append(ms, m.name+"."+m.kind+"."+bodyLetters(m.bindings))
	}
	return sv.name + ":" + strings.Join(ms, ";")
}

func bodyLetter(b string) string {
	switch b {
	case "*", "-":
		return b
	case "sub":
		return "s"
	}
	return "?"
}

func bodyLetters(bs []binding) string {
	var sb strings.Builder
	for _, b := range bs {
		sb.WriteString(bodyLetter(b.body))
	}
	return sb.String()
}

// ---------- descriptors ----------

func httpRule(b binding) *annotations.HttpRule {
	r := &annotations.HttpRule{}
	switch b.body {
	case "*":
		r.Body = "*"
	case "sub":
		r.Body = "sub"
	}
	switch b.hm {
	case "GET":
		r.Pattern = &annotations.HttpRule_Get{Get: b.pattern}
	case "PUT":
		r.Pattern = &annotations.HttpRule_Put{Put: b.pattern}
	case "POST":
		r.Pattern = &annotations.HttpRule_Post{Post: b.pattern}
	case "DELETE":
		r.Pattern = &annotations.HttpRule_Delete{Delete: b.pattern}
	case "PATCH":
		r.Pattern = &annotations.HttpRule_Patch{Patch: b.pattern}
	default:
		r.Pattern = &annotations.HttpRule_Custom{Custom: &annotations.CustomHttpPattern{Kind: b.hm, Path: b.pattern}}
	}
	return r
}

func msgFile() *descriptorpb.FileDescriptorProto {
	s := proto.String
	str := descriptorpb.FieldDescriptorProto_TYPE_STRING.Enum()
	opt := descriptorpb.FieldDescriptorProto_LABEL_OPTIONAL.Enum()
	return &descriptorpb.FileDescriptorProto{
		Name: s("stkmsg/msg.proto"), Package: s("stkmsg"), Syntax: s("proto3"),
		MessageType: []*descriptorpb.DescriptorProto{
			{Name: s("Nested"), Field: []*descriptorpb.FieldDescriptorProto{
				{Name: s("name"), Number: proto.Int32(1), Type: str, Label: opt, JsonName: s("name")}}},
			{Name: s("Msg"), Field: []*descriptorpb.FieldDescriptorProto{
				{Name: s("id"), Number: proto.Int32(1), Type: str, Label: opt, JsonName: s("id")},
				{Name: s("sub"), Number: proto.Int32(2), Type: str, Label: opt, JsonName: s("sub")},
				{Name: s("target"), Number: proto.Int32(3), Type: str, Label: opt, JsonName: s("target")},
				{Name: s("method"), Number: proto.Int32(4), Type: str, Label: opt, JsonName: s("method")},
				{Name: s("nested"), Number: proto.Int32(5), Type: descriptorpb.FieldDescriptorProto_TYPE_MESSAGE.Enum(),
					TypeName: s(".stkmsg.Nested"), Label: opt, JsonName: s("nested")},
			}},
		},
	}
}

// buildFiles turns a contract into a self-contained file registry (one file per package, the shared
// message file, and the google.api / descriptor files copied from the linked-in registry).
func buildFiles(tag string, c contract) (*protoregistry.Files, []string, error) {
	set := &descriptorpb.FileDescriptorSet{}
	seen := map[string]bool{}
	var add func(path string) error
	add = func(path string) error {
		if seen[path] {
			return nil
		}
		seen[path] = true
		fd, err := protoregistry.GlobalFiles.FindFileByPath(path)
		if err != nil {
			return fmt.Errorf("%s: %w", path, err)
		}
		imps := fd.Imports()
		for i := 0; i < imps.Len(); i++ {
			if err := add(imps.Get(i).Path()); err != nil {
				return err
			}
		}
		set.File = append(set.File, protodesc.ToFileDescriptorProto(fd))
		return nil
	}
	if err := add("google/api/annotations.proto"); err != nil {
		return nil, nil, err
	}
	set.File = append(set.File, msgFile())

	byPkg := map[string]*descriptorpb.FileDescriptorProto{}
	var order []string
	var names []string
	for _, sv := range c {
		i := strings.LastIndex(sv.name, ".")
		pkg, short := sv.name[:i], sv.name[i+1:]
		f := byPkg[pkg]
		if f == nil {
			f = &descriptorpb.FileDescriptorProto{
				Name: proto.String("stk/" + tag + "/" + pkg + ".proto"), Package: proto.String(pkg), Syntax: proto.String("proto3"),
				Dependency: []string{"stkmsg/msg.proto", "google/api/annotations.proto"},
			}
			byPkg[pkg] = f
			order = append(order, pkg)
		}
		sd := &descriptorpb.ServiceDescriptorProto{Name: proto.String(short)}
		for _, m := range sv.methods {
			md := &descriptorpb.MethodDescriptorProto{Name: proto.String(m.name), InputType: proto.String(".stkmsg.Msg"), OutputType: proto.String(".stkmsg.Msg"),
				ClientStreaming: proto.Bool(m.cs()), ServerStreaming: proto.Bool(m.ss())}
			if len(m.bindings) > 0 {
				rule := httpRule(m.bindings[0])
				for _, b := range m.bindings[1:] {
					rule.AdditionalBindings = append(rule.AdditionalBindings, httpRule(b))
				}
				opts := &descriptorpb.MethodOptions{}
				proto.SetExtension(opts, annotations.E_Http, rule)
				md.Options = opts
			}
			sd.Method = append(sd.Method, md)
		}
		f.Service = append(f.Service, sd)
		names = append(names, sv.name)
	}
	for _, pkg := range order {
		set.File = append(set.File, byPkg[pkg])
	}
	files, err := protodesc.NewFiles(set)
	if err != nil {
		return nil, nil, err
	}
	return files, names, nil
}

var _ protoreflect.FullName

// ---------- template instantiation (generator side only) ----------

// instantiate replaces every variable / wildcard of a template of the generator's pool by concrete
// segments made of [A-Za-z0-9]; tag makes the values of different probes different.
func instantiate(tmpl string, tag string) string {
	var out strings.Builder
	n := 0
	val := func(prefix string) string { n++; return fmt.Sprintf("%s%s%d", prefix, tag, n) }
	i := 0
	for i < len(tmpl) {
		c := tmpl[i]
		switch c {
		case '{':
			j := strings.IndexByte(tmpl[i:], '}') + i
			inner := tmpl[i+1 : j]
			if eq := strings.IndexByte(inner, '='); eq >= 0 {
				var segs []string
				for _, p := range strings.Split(inner[eq+1:], "/") {
					switch p {
					case "*":
						segs = append(segs, val("V"))
					case "**":
						segs = append(segs, val("D"), val("E"))
					default:
						segs = append(segs, p)
					}
				}
				out.WriteString(strings.Join(segs, "/"))
			} else {
				out.WriteString(val("V"))
			}
			i = j + 1
		case '*':
			if i+1 < len(tmpl) && tmpl[i+1] == '*' {
				out.WriteString(val("D") + "/" + val("E"))
				i += 2
			} else {
				out.WriteString(val("W"))
				i++
			}
		default:
			out.WriteByte(c)
			i++
		}
	}
	return out.String()
}
