package stack

// Harness-side instrumentation for the concurrency-sensitive part of the glue:
//
//	hookLogger   the bridgelog.Logger handed to the real router (WithLogger): whenever PatternRouter logs that it has
//	             added a binding — i.e. in the MIDDLE of an update fan-out — it fires direct RouteGRPC / RouteHTTP lookups
//	             for every probe path (a deterministic mid-update lookup for every history); and it can make the log calls
//	             that belong to one target's resolver slow (a slow logger), which keeps that poller busy for a moment
//	hammer       background goroutines looking every probe path up (directly, and a few real calls through the proxy)
//	             while an operation and its settling are in progress; they stop before the settled probes
//	in-flight    idle calls through all five entry points that are open when Remove is called
//	swap         Remove(name) and Add(name) started concurrently while the name's poller is in the middle of a resolution

import (
	"context"
	"fmt"
	"io"
	"net/http"
	"net/http/httptest"
	"strings"
	"sync"
	"sync/atomic"
	"time"

	"github.com/renbou/grpcbridge/bridgelog"
	"google.golang.org/grpc"
	"google.golang.org/grpc/status"
	"verif/harness/c07/fake"
)

const (
	inflightBound = 2 * time.Second
	slowLog       = 150 * time.Millisecond
)

// ---------- logger ----------

type hookState struct {
	midUpdate  atomic.Pointer[func()] // fired when PatternRouter logs an added binding
	inHook     atomic.Bool
	slowTarget atomic.Pointer[string] // resolver log calls of this target take slowLog
	fired      atomic.Int64
}

type hookLogger struct {
	st   *hookState
	args []any
}

func (l hookLogger) hit(msg string) {
	if strings.HasPrefix(msg, "added HTTP binding") || strings.HasPrefix(msg, "added default HTTP binding") {
		if f := l.st.midUpdate.Load(); f != nil && l.st.inHook.CompareAndSwap(false, true) {
			(*f)()
			l.st.fired.Add(1)
			l.st.inHook.Store(false)
		}
	}
	if name := l.st.slowTarget.Load(); name != nil {
		for i := 0; i+1 < len(l.args); i += 2 {
			if l.args[i] == "resolver.target" && l.args[i+1] == *name {
				time.Sleep(slowLog)
				break
			}
		}
	}
}

func (l hookLogger) Debug(msg string, _ ...any) { l.hit(msg) }
func (l hookLogger) Info(msg string, _ ...any)  { l.hit(msg) }
func (l hookLogger) Warn(msg string, _ ...any)  { l.hit(msg) }
func (l hookLogger) Error(msg string, _ ...any) { l.hit(msg) }
func (l hookLogger) With(args ...any) bridgelog.Logger {
	return hookLogger{st: l.st, args: append(append([]any{}, l.args...), args...)}
}
func (l hookLogger) WithComponent(string) bridgelog.Logger { return l }

// ---------- direct lookups ----------

func (e *env) lookupGRPC(path string) string {
	_, r, err := e.router.RouteGRPC(grpc.NewContextWithServerTransportStream(context.Background(), fakeSTS{path}))
	if err != nil {
		return fmt.Sprintf("-%d", status.Code(err))
	}
	if r.Target == nil || r.Service == nil {
		return "!nil"
	}
	return "+" + safe(r.Target.Name) + "|" + serviceOfDesc(r.Service).digest()
}

func (e *env) lookupHTTP(hm, path string) string {
	_, r, err := e.router.RouteHTTP(httptest.NewRequest(hm, path, nil))
	if err != nil {
		return fmt.Sprintf("-%d", status.Code(err))
	}
	if r.Target == nil || r.Method == nil || r.Binding == nil {
		return "!nil"
	}
	return "+" + safe(r.Target.Name) + "|" + safe(r.Method.RPCName) + "|" + kindOf(r.Method.ClientStreaming, r.Method.ServerStreaming) +
		"|" + bodyLetter(bodyOf(r.Binding.RequestBodyPath))
}

func (e *env) lookupEverything(ps []probe) {
	for _, p := range ps {
		switch p.ep {
		case "dg":
			_ = e.lookupGRPC(p.path)
		case "dh":
			_ = e.lookupHTTP(p.hm, p.path)
		}
	}
}

// ---------- hammer ----------

// hammer looks every probe path up from several goroutines (no sleeps) until stop is called.
func (e *env) hammer(ps []probe) (stop func()) {
	var quit atomic.Bool
	var wg sync.WaitGroup
	for g := 0; g < 3; g++ {
		wg.Add(1)
		go func(g int) {
			defer wg.Done()
			defer func() { _ = recover() }()
			for !quit.Load() {
				e.lookupEverything(ps)
			}
		}(g)
	}
	wg.Add(1)
	go func() { // real calls through the proxy
		defer wg.Done()
		for !quit.Load() {
			for _, p := range ps {
				if quit.Load() {
					return
				}
				if p.ep == "px" {
					_ = e.run(p)
				}
			}
		}
	}()
	return func() { quit.Store(true); wg.Wait() }
}

// ---------- in-flight calls ----------

type flight struct {
	entry string
	done  chan struct{}
	kill  func()
}

func holdMsg() []byte { return msg{sub: holdMark}.encodeReq() }

// openFlights opens one idle call per entry point to the methods of the sentinel service of the instance behind a name:
// the client has sent one request (marked hold) and keeps its send side open, the target never answers.
func (e *env) openFlights(sent service) []*flight {
	var fs []*flight
	mk := func(entry string, run func(ctx context.Context)) {
		ctx, cancel := context.WithCancel(context.Background())
		f := &flight{entry: entry, done: make(chan struct{}), kill: cancel}
		go func() {
			defer close(f.done)
			defer func() { _ = recover() }()
			run(ctx)
		}()
		fs = append(fs, f)
	}
	grpcPath := "/" + sent.name + "/HoldB"
	mk("px", func(ctx context.Context) {
		st, err := e.proxyCC.NewStream(ctx, &grpc.StreamDesc{ClientStreams: true, ServerStreams: true}, grpcPath, grpc.ForceCodec(rawCodec{}))
		if err != nil {
			return
		}
		req := holdMsg()
		if err := st.SendMsg(&req); err != nil {
			return
		}
		var resp []byte
		for st.RecvMsg(&resp) == nil { // returns once the call has ended, one way or another
		}
	})
	mk("gw", func(ctx context.Context) {
		pr, pw := io.Pipe()
		defer pw.Close()
		req, err := http.NewRequestWithContext(ctx, "POST", e.web.URL+grpcPath, pr)
		if err != nil {
			return
		}
		req.Header.Set("Content-Type", "application/grpc-web+proto")
		go func() { _, _ = pw.Write(frame(0, holdMsg())) }() // one message, the body stays open
		resp, err := e.flightc.Do(req)
		if err != nil {
			return
		}
		_, _ = io.Copy(io.Discard, resp.Body)
		resp.Body.Close()
	})
	ws := func(entry, path string, sub bool, frames func(rc *fake.RawConn)) {
		mk(entry, func(ctx context.Context) {
			rc, err := fake.Dial(e.web.Listener.Addr().String())
			if err != nil {
				return
			}
			defer rc.Close()
			_ = rc.C.SetDeadline(time.Now().Add(time.Minute))
			go func() { <-ctx.Done(); rc.Close() }()
			hs := fake.WSHandshake()
			if sub {
				hs = append(hs, [2]string{"Sec-WebSocket-Protocol", "grpc-websockets"})
			}
			if rc.WriteRequest("GET", path, hs, nil) != nil {
				return
			}
			resp, err := rc.ReadResponse("GET")
			if err != nil || resp.StatusCode != 101 {
				return
			}
			frames(rc)
			_ = rc.ReadWSFrames() // until the close frame or the end of the connection
		})
	}
	ws("gs", grpcPath, true, func(rc *fake.RawConn) {
		_ = rc.WriteWSFrame(2, []byte("x-stk-probe: 1\r\n"))
		_ = rc.WriteWSFrame(2, append([]byte{0}, frame(0, holdMsg())...))
	})
	holdPath, holdBPath := "", ""
	for _, m := range sent.methods {
		if m.name == "Hold" && len(m.bindings) > 0 {
			holdPath = m.bindings[0].pattern
		}
		if m.name == "HoldB" && len(m.bindings) > 0 {
			holdBPath = m.bindings[0].pattern
		}
	}
	mk("ht", func(ctx context.Context) { // server streaming: the request is complete, the response stays open
		req, err := http.NewRequestWithContext(ctx, "GET", e.web.URL+holdPath+"?sub="+holdMark, nil)
		if err != nil {
			return
		}
		resp, err := e.flightc.Do(req)
		if err != nil {
			return
		}
		_, _ = io.Copy(io.Discard, resp.Body)
		resp.Body.Close()
	})
	ws("ws", holdBPath, false, func(rc *fake.RawConn) {
		op := byte(1)
		if e.opt {
			op = 2
		}
		_ = rc.WriteWSFrame(op, []byte(`{"sub":"`+holdMark+`"}`))
	})
	return fs
}

// removeWithFlights: idle calls through all five entry points are in flight when Remove(name) is called; after Remove has
// returned each of them must end within inflightBound.  Result: <removed>~px:E;gw:E;gs:E;ht:E;ws:E  (E ended, O still open,
// N the call could not be brought in flight).
func (e *env) removeWithFlights(name string) string {
	e.mu.Lock()
	t := e.live[name]
	e.mu.Unlock()
	var sent service
	ok := false
	if t != nil {
		sent, ok = t.sentinelOf()
		ok = ok && sent.has("Hold") && sent.has("HoldB") // a bare sentinel offers nothing to keep in flight
	}
	if !ok {
		return e.remove(name)
	}
	before := t.held.Load()
	fs := e.openFlights(sent)
	holdBound := inflightBound
	if exhausted.Load() >= 4 {
		holdBound /= 4 // a tree on which nothing settles: the verdict is decided, do not spend the bound on every Remove
	}
	deadline := time.Now().Add(holdBound)
	for t.held.Load() < before+int32(len(fs)) && time.Now().Before(deadline) {
		time.Sleep(time.Millisecond)
	}
	established := map[string]bool{}
	for _, f := range fs {
		select {
		case <-f.done: // ended before the removal: it never was in flight
		default:
			established[f.entry] = true
		}
	}
	allHeld := t.held.Load() >= before+int32(len(fs))
	res := e.remove(name)
	end := time.Now().Add(inflightBound)
	if !allHeld {
		end = time.Now() // the calls never were in flight (reported as N): nothing to wait for
		exhausted.Add(1)
	}
	var parts []string
	for _, f := range fs {
		state := "E"
		select {
		case <-f.done:
		case <-time.After(time.Until(end)):
			state = "O"
		}
		if !established[f.entry] || !allHeld {
			state = "N"
		}
		parts = append(parts, f.entry+":"+state)
	}
	for _, f := range fs {
		f.kill()
	}
	cleanup := time.After(inflightBound)
	for _, f := range fs {
		select {
		case <-f.done:
		case <-cleanup:
		}
	}
	return res + "~" + strings.Join(parts, ";")
}

// ---------- swap ----------

// swap starts Remove(name) and, right after it, Add(name) in front of a fresh instance, while the poller of the instance
// behind name is in the middle of a resolution (its reflection stream is parked at the target, the resolver's log calls are
// slow).  Whatever order the two calls take effect in, afterwards the name is either present (Add succeeded) or absent and
// then addable: if the concurrent Add failed it is repeated once on its own.  Result: <remove>/<add>/<repeated add or ->.
func (e *env) swap(name, tid, refl string, c contract) string {
	e.mu.Lock()
	old := e.live[name]
	e.mu.Unlock()
	t, err := newTarget(tid, refl, c)
	if err != nil {
		return "harness:" + err.Error()
	}
	e.mu.Lock()
	e.targets[tid] = t
	e.order = append(e.order, t)
	e.mu.Unlock()
	if old != nil && e.poll {
		old.holdReflection()
		deadline := time.Now().Add(1500 * time.Millisecond)
		for old.reflWaiting.Load() == 0 && time.Now().Before(deadline) {
			time.Sleep(time.Millisecond)
		}
		defer old.releaseReflection()
	}
	e.hook.slowTarget.Store(&name)
	defer e.hook.slowTarget.Store(nil)

	remCh, addCh := make(chan string, 1), make(chan string, 1)
	go func() { remCh <- guarded(func() string { return fmt.Sprint(e.router.Remove(name)) }) }()
	time.Sleep(200 * time.Microsecond)
	go func() {
		addCh <- guarded(func() string {
			ok, err := e.router.Add(name, "tid:"+tid)
			if err == nil && ok {
				return "ok"
			}
			return "err"
		})
	}()
	time.Sleep(100 * time.Millisecond)
	if old != nil {
		old.releaseReflection()
	}
	wait := func(ch chan string) string {
		select {
		case r := <-ch:
			return r
		case <-time.After(30 * time.Second):
			return "hang"
		}
	}
	rem, add := wait(remCh), wait(addCh)
	e.hook.slowTarget.Store(nil)
	again := "-"
	if add != "ok" && rem != "hang" && add != "hang" {
		again = guarded(func() string {
			ok, err := e.router.Add(name, "tid:"+tid)
			if err == nil && ok {
				return "ok"
			}
			return "err"
		})
	}
	e.mu.Lock()
	if add == "ok" || again == "ok" {
		e.live[name] = t
	} else {
		delete(e.live, name)
	}
	e.mu.Unlock()
	res := rem + "/" + add + "/" + again
	if (add == "ok" || again == "ok") && refl != "none" {
		if !e.waitSettled(name, c, settleBound) {
			res += "!"
		}
	}
	return res
}
