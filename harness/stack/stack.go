// Package stack is the FULL-STACK correspondence area: the glue between the modelled cores
// (reflection.go, bridge.go, proxy.go, forwarder.go) driven end to end.
//
//	hist poll=<0|1> opt=<0|1> G=<path;…> H=<httpMethod~path~body;…> W=<path~body;…> <op> <op> …
//
//	op   A,<name>,<refl>,<contract>   Add(name) in front of a FRESH target instance serving <contract>
//	                                  (refl = v1 | va | both | none; instance id = "i<index of the op>")
//	     F,<name>                     Add whose connection constructor fails
//	     O,<name>                     Add with a per-target option (rejected)
//	     R,<name>                     Remove(name)
//	     U,<name>,<contract>          the live instance behind <name> starts serving another contract
//	     P                            nothing (probe only)
//
// Output: one token before the first op and one per op:  <op result>=<record>,<record>,…  with the
// records in the order: every G path on the entries px (gRPC through GRPCProxy), gw (gRPC-Web over HTTP),
// gs (gRPC-WebSocket); every H probe (transcoded HTTP); every W probe (transcoded WebSocket).
// A record is  -<code>  (not served: gRPC status / HTTP status / c<close code>),
// +<instance>|<method seen by the target>|<id>|<nested.name>|<sub>|<stamp header seen by the client>|<encoding>
// or !<what> (protocol-level surprise).  See contract.go for the contract syntax.
package stack

import (
	"fmt"
	"math/rand"
	"sort"
	"strings"
	"sync"
)

type Area struct{}

func (Area) Name() string { return "stack" }

var (
	statMu sync.Mutex
	stats  = map[string]int{}
)

func count(k string, n int) {
	statMu.Lock()
	stats[k] += n
	statMu.Unlock()
}

func (Area) Extra() map[string]any {
	statMu.Lock()
	defer statMu.Unlock()
	out := map[string]any{}
	for k, v := range stats {
		out[k] = v
	}
	return out
}

type hprobe struct{ hm, path, body string }

type line struct {
	poll, opt bool
	g         []string
	h         []hprobe
	w         []hprobe
	ops       []string
}

func parseLine(input string) (*line, error) {
	f := strings.Fields(input)
	if len(f) < 3 || f[0] != "hist" {
		return nil, fmt.Errorf("not a hist line")
	}
	l := &line{}
	for _, tok := range f[1:] {
		switch {
		case strings.HasPrefix(tok, "poll="):
			l.poll = tok == "poll=1"
		case strings.HasPrefix(tok, "opt="):
			l.opt = tok == "opt=1"
		case strings.HasPrefix(tok, "G="):
			if tok != "G=" {
				l.g = strings.Split(tok[2:], ";")
			}
		case strings.HasPrefix(tok, "H="), strings.HasPrefix(tok, "W="):
			if len(tok) == 2 {
				continue
			}
			for _, p := range strings.Split(tok[2:], ";") {
				q := strings.Split(p, "~")
				var hp hprobe
				if tok[0] == 'H' && len(q) == 3 {
					hp = hprobe{q[0], q[1], q[2]}
				} else if tok[0] == 'W' && len(q) == 2 {
					hp = hprobe{"GET", q[0], q[1]}
				} else {
					return nil, fmt.Errorf("bad probe %q", p)
				}
				if tok[0] == 'H' {
					l.h = append(l.h, hp)
				} else {
					l.w = append(l.w, hp)
				}
			}
		default:
			l.ops = append(l.ops, tok)
		}
	}
	return l, nil
}

func (l *line) probes() []probe {
	var ps []probe
	for k, p := range l.g {
		for _, ep := range []string{"px", "gw", "gs"} {
			ps = append(ps, probe{ep: ep, path: p, id: fmt.Sprintf("g%d", k), sub: fmt.Sprintf("s%d", k), n: fmt.Sprintf("n%d", k)})
		}
	}
	for k, p := range l.h {
		ps = append(ps, probe{ep: "ht", hm: p.hm, path: p.path, body: p.body, sub: fmt.Sprintf("h%d", k)})
	}
	for k, p := range l.w {
		ps = append(ps, probe{ep: "ws", hm: "GET", path: p.path, body: p.body, sub: fmt.Sprintf("w%d", k)})
	}
	return ps
}

func (Area) Exec(input string) string {
	l, err := parseLine(input)
	if err != nil {
		return "BADLINE"
	}
	e, err := newEnv(l.poll, l.opt)
	if err != nil {
		return "HARNESS " + err.Error()
	}
	defer e.close()
	ps := l.probes()
	step := func(res string) string { return res + "=" + strings.Join(e.probeAll(ps), ",") }
	out := []string{step("init")}
	for i, op := range l.ops {
		f := strings.Split(op, ",")
		var res string
		switch {
		case f[0] == "A" && len(f) == 4:
			c, err := parseContract(f[3])
			if err != nil {
				return "BADLINE"
			}
			res = guarded(func() string { return e.add(f[1], fmt.Sprintf("i%d", i), f[2], c) })
		case f[0] == "F" && len(f) == 2:
			res = guarded(func() string { return e.addFailing(f[1], false) })
		case f[0] == "O" && len(f) == 2:
			res = guarded(func() string { return e.addFailing(f[1], true) })
		case f[0] == "R" && len(f) == 2:
			res = guarded(func() string { return e.remove(f[1]) })
		case f[0] == "U" && len(f) == 3:
			c, err := parseContract(f[2])
			if err != nil {
				return "BADLINE"
			}
			res = guarded(func() string { return e.update(f[1], c, i) })
		case f[0] == "P" && len(f) == 1:
			res = "-"
		default:
			return "BADLINE"
		}
		count("op:"+f[0]+":"+strings.SplitN(res, ":", 2)[0], 1)
		out = append(out, step(res))
	}
	count("probes", len(ps)*(len(l.ops)+1))
	return strings.Join(out, " ")
}

// ---------- generator ----------

func svc(name string, ms ...method) service { return service{name: name, methods: ms} }
func mth(name, kind string, bs ...binding) method {
	return method{name: name, kind: kind, bindings: bs}
}
func bnd(hm, pattern, body string) binding { return binding{hm, pattern, body} }

// The catalogue: per service several VARIANTS (contracts that differ in methods, kinds and bindings).
// A template always comes with the same body spec wherever it appears.
var catalogue = map[string][]service{
	"lib": {
		svc("stk.a.Lib",
			mth("Get", "u", bnd("GET", "/v1/lib/{id}", "-"), bnd("GET", "/v1/lib/{id}/x/{nested.name=shelves/*}:peek", "-")),
			mth("Put", "u", bnd("POST", "/v1/lib", "*"), bnd("PUT", "/v1/lib/{id}", "sub")),
			mth("Watch", "ss", bnd("GET", "/v1/lib/{id}/watch", "-")),
			mth("Feed", "cs", bnd("GET", "/v1/lib:feed", "*"), bnd("POST", "/v1/lib:feed", "*")),
			mth("Chat", "bd", bnd("GET", "/v1/lib/chat/{nested.name=rooms/**}", "*")),
			mth("Raw", "u"),
			mth("RawS", "bd")),
		svc("stk.a.Lib",
			mth("Get", "u", bnd("GET", "/v1/lib/{id}", "-")),
			mth("Del", "u", bnd("DELETE", "/v1/lib/{id}", "-")),
			mth("Watch", "bd", bnd("GET", "/v1/lib/{id}/watch", "-")),
			mth("Raw", "ss")),
	},
	"shop": {
		svc("stk.b.Shop",
			mth("Buy", "u", bnd("POST", "/v1/shop/{id}:buy", "*")),
			mth("List", "ss", bnd("GET", "/v1/shop", "-")),
			mth("Sync", "bd", bnd("GET", "/v1/shop/sync", "*"))),
		svc("stk.b.Shop",
			mth("Buy", "u", bnd("POST", "/v2/shop/{id}:buy", "*")),
			mth("List", "u", bnd("GET", "/v1/shop", "-")),
			mth("Steal", "u", bnd("GET", "/v1/lib/{id}", "-"))), // the template of Lib.Get under another service
	},
	"misc": {
		svc("stk.c.Misc",
			mth("Ping", "u"),
			mth("Echo", "u", bnd("POST", "/v1/misc/{nested.name}/echo", "*")),
			mth("Link", "u", bnd("LINK", "/v1/misc/{id}", "-")),
			mth("Tail", "ss", bnd("GET", "/v1/misc/{id}/tail/*", "-"))),
		svc("stk.c.Misc",
			mth("Ping", "u", bnd("GET", "/v1/misc:ping", "-")),
			mth("Tail", "ss", bnd("GET", "/v1/misc/{id}/tail/*", "-"), bnd("GET", "/v1/misc/{id}/all/**", "-"))),
	},
}

func sentinel(i int) service { return svc(fmt.Sprintf("stk.z.S%d", i), mth("Ping", "u")) }

// pick names a variant: "lib0", "shop1", …
func pick(names ...string) contract {
	var c contract
	for _, n := range names {
		c = append(c, catalogue[n[:len(n)-1]][int(n[len(n)-1]-'0')])
	}
	return c
}

type histOp struct {
	kind, name, refl string
	c                contract
}

func (o histOp) token(i int) string {
	withSent := func() contract {
		if o.refl == "none" {
			return o.c
		}
		return append(append(contract{}, o.c...), sentinel(i))
	}
	switch o.kind {
	case "A":
		return fmt.Sprintf("A,%s,%s,%s", o.name, o.refl, withSent())
	case "U":
		return fmt.Sprintf("U,%s,%s", o.name, withSent())
	case "P":
		return "P"
	}
	return o.kind + "," + o.name
}

// render computes the probe set from every contract of the history (every method path and every binding of
// every target ever used, on every entry point) plus negative probes, and prints the line.
func render(poll, opt bool, ops []histOp) string {
	gset, hset, wset := map[string]bool{}, map[string]bool{}, map[string]bool{}
	var g []string
	var h, w []string
	addG := func(p string) {
		if !gset[p] {
			gset[p] = true
			g = append(g, p)
		}
	}
	addH := func(hm, path, body string) {
		k := hm + "~" + path + "~" + body
		if !hset[k] {
			hset[k] = true
			h = append(h, k)
		}
	}
	addW := func(path, body string) {
		k := path + "~" + body
		if !wset[k] {
			wset[k] = true
			w = append(w, k)
		}
	}
	var toks []string
	for i, o := range ops {
		toks = append(toks, o.token(i))
		c := o.c
		if (o.kind == "A" || o.kind == "U") && o.refl != "none" {
			c = append(append(contract{}, o.c...), sentinel(i))
		}
		if o.kind != "A" && o.kind != "U" {
			continue
		}
		for _, s := range c {
			addG("/" + s.name + "/NoSuch") // routing is by service: any method name reaches the owner verbatim
			for _, m := range s.methods {
				addG("/" + s.name + "/" + m.name)
				if len(m.bindings) == 0 {
					addH("POST", "/"+s.name+"/"+m.name, "*")
					continue
				}
				for bi, b := range m.bindings {
					path := instantiate(b.pattern, fmt.Sprintf("%c%d", m.name[0], bi))
					addH(b.hm, path, b.body)
					if b.hm == "GET" && m.kind != "u" {
						addW(path, b.body)
					}
				}
			}
		}
	}
	// the marshaler LIST (WithMarshalers): the first whole-body binding again with an explicit Content-Type
	for _, k := range h {
		q := strings.Split(k, "~")
		if q[2] == "*" && q[0] == "POST" {
			addH(q[0], q[1], "*j")
			addH(q[0], q[1], "*k")
			break
		}
	}
	// negative / boundary probes
	addH("POST", "/stk.a.Lib/Get", "*") // no default binding for a method that has bindings
	addG("/stk.nope.None/M")
	addG("/stk.a.Lib/Get/extra") // the method is everything after the first slash
	addH("GET", "/v1/none/x", "-")
	addH("PATCH", "/v1/lib/P1", "-")
	addH("GET", "/v1/lib/Q1:nope", "-") // no such verb: {id} takes the whole segment
	addH("GET", "/v1/lib:feed", "*")    // client streaming over plain HTTP
	addW("/v1/none/ws", "-")
	return fmt.Sprintf("hist poll=%d opt=%d G=%s H=%s W=%s %s", b2i(poll), b2i(opt),
		strings.Join(g, ";"), strings.Join(h, ";"), strings.Join(w, ";"), strings.Join(toks, " "))
}

func b2i(b bool) int {
	if b {
		return 1
	}
	return 0
}

func A(name, refl string, vs ...string) histOp {
	return histOp{kind: "A", name: name, refl: refl, c: pick(vs...)}
}
func U(name string, vs ...string) histOp {
	return histOp{kind: "U", name: name, refl: "v1", c: pick(vs...)}
}
func R(name string) histOp { return histOp{kind: "R", name: name} }
func F(name string) histOp { return histOp{kind: "F", name: name} }
func O(name string) histOp { return histOp{kind: "O", name: name} }

var P = histOp{kind: "P"}

// fixed histories: each glue step at least once, with and without the bridge options
func fixed() []string {
	return []string{
		// add / remove / re-add under the same name with a different contract; other target untouched
		render(false, true, []histOp{A("a", "v1", "lib0", "misc0"), A("b", "both", "shop0"), R("a"), A("a", "va", "lib1", "shop1"), R("b"), R("a")}),
		// two targets claiming one service (different variants), release, failed adds in between
		render(false, false, []histOp{A("a", "v1", "lib0"), F("c"), A("b", "v1", "lib1", "shop0"), O("c"), R("a"), A("c", "both", "lib0"), R("b")}),
		// failed Adds leave no trace and the name stays addable; duplicate Add; target without reflection
		render(false, true, []histOp{F("a"), O("a"), A("a", "none", "lib0"), A("a", "v1", "shop0"), R("a"), A("a", "va", "shop1", "misc1"), A("a", "v1", "lib0"), R("zz")}),
		// polling on: a live contract change is picked up by the next poll on BOTH routers
		render(true, true, []histOp{A("a", "v1", "lib0"), U("a", "lib1", "misc1"), R("a")}),
		// polling on, contested service: the owner's changed contract releases it (nobody inherits), the other
		// claimant gets it only with ITS next changed contract
		render(true, false, []histOp{A("a", "v1", "lib0"), A("b", "both", "lib1", "shop0"), U("a", "misc0"), U("b", "lib0"), R("a"), R("b")}),
		// default options everywhere (NewForwarder(), default transcoder), v1alpha only
		render(true, false, []histOp{A("x", "va", "misc0", "shop1"), A("y", "va", "lib1"), R("x"), P}),
	}
}

var names = []string{"a", "b", "c"}
var variants = []string{"lib0", "lib1", "shop0", "shop1", "misc0", "misc1"}

func randomContract(r *rand.Rand) []string {
	var out []string
	for _, s := range []string{"lib", "shop", "misc"} {
		if r.Intn(2) == 0 {
			out = append(out, fmt.Sprintf("%s%d", s, r.Intn(2)))
		}
	}
	if len(out) == 0 {
		out = append(out, variants[r.Intn(len(variants))])
	}
	return out
}

func randomHistory(r *rand.Rand, maxOps int, allowPoll bool) string {
	poll := allowPoll && r.Intn(4) == 0
	opt := r.Intn(2) == 0
	n := 3 + r.Intn(maxOps-2)
	present := map[string]string{} // live name -> reflection mode of the instance behind it
	var ops []histOp
	updates := 0
	for len(ops) < n {
		name := names[r.Intn(len(names))]
		var live []string
		for _, k := range names {
			if _, ok := present[k]; ok {
				live = append(live, k)
			}
		}
		sort.Strings(live)
		switch k := r.Intn(10); {
		case k < 4: // add (mostly absent names; sometimes a duplicate)
			refl := []string{"v1", "v1", "va", "both", "both", "none"}[r.Intn(6)]
			ops = append(ops, A(name, refl, randomContract(r)...))
			if _, ok := present[name]; !ok {
				present[name] = refl
			}
		case k < 7 && len(live) > 0: // remove a present name
			name = live[r.Intn(len(live))]
			ops = append(ops, R(name))
			delete(present, name)
		case k == 7:
			if r.Intn(2) == 0 {
				ops = append(ops, F(name))
			} else {
				ops = append(ops, O(name))
			}
		case k == 8 && poll && len(live) > 0 && updates < 2:
			// (an update of a target without reflection would never settle: not generated)
			name = live[r.Intn(len(live))]
			if present[name] != "none" {
				ops = append(ops, U(name, randomContract(r)...))
				updates++
			}
		case k == 9 && len(live) == 0:
			ops = append(ops, R(name)) // remove of an absent name
		}
	}
	return render(poll, opt, ops)
}

func (Area) Gen(r *rand.Rand, tier string, emit func(string)) {
	for _, l := range fixed() {
		emit(l)
	}
	n, maxOps := 10, 8
	if tier == "thorough" {
		n, maxOps = 120, 10
	}
	for i := 0; i < n; i++ {
		emit(randomHistory(r, maxOps, true))
	}
}
