// Package stack is the FULL-STACK correspondence area: the glue between the modelled cores
// (reflection.go, bridge.go, proxy.go, forwarder.go) driven end to end.
//
//	hist poll=<0|1> opt=<0|1> G=<path;…> H=<httpMethod~path~body;…> W=<path~body;…> <op> <op> …
//
//	op   A,<name>,<refl>,<contract>   Add(name) in front of a FRESH target instance serving <contract>
//	                                  (refl = v1 | va | both | none; instance id = "i<index of the op>")
//	     F,<name>                     Add whose connection constructor fails
//	     O,<name>                     Add with a per-target option (rejected)
//	     R,<name>                     Remove(name)
//	     U,<name>,<contract>          the live instance behind <name> starts serving another contract
//	     X,<name>,<refl>,<contract>   Remove(name) and Add(name) (fresh instance) started concurrently while the
//	                                  poller of <name> is in the middle of a resolution; a failed Add is repeated once
//	     P                            nothing (probe only)
//
// Output: one token before the first op and one per op:  <op result>=<record>,<record>,…  with the
// records in the order: every G path on the entries px (gRPC through GRPCProxy), gw (gRPC-Web over HTTP),
// gs (gRPC-WebSocket), dg (router.RouteGRPC called directly: owner + digest of route.Service); every H probe on
// ht (transcoded HTTP) and dh (router.RouteHTTP directly: owner, method, kind, body mapping); every W probe
// (transcoded WebSocket).  Op results: A ok|err (ok! = not settled within the bound), R true~px:E;gw:E;gs:E;ht:E;ws:E
// (calls in flight through every entry at Remove: E ended within 2 s, O still open, N not established) | true | false,
// X <remove>/<add>/<add again or ->, U ok|ok!|absent, F/O err.
// A record is  -<code>  (not served: gRPC status / HTTP status / c<close code>),
// +<instance>|<method seen by the target>|<id>|<nested.name>|<sub>|<stamp header seen by the client>|<encoding>
// or !<what> (protocol-level surprise).  See contract.go for the contract syntax.
package stack

import (
	"fmt"
	"math/rand"
	"sort"
	"strings"
	"sync"
)

type Area struct{}

func (Area) Name() string { return "stack" }

var (
	statMu sync.Mutex
	stats  = map[string]int{}
)

func count(k string, n int) {
	statMu.Lock()
	stats[k] += n
	statMu.Unlock()
}

func (Area) Extra() map[string]any {
	statMu.Lock()
	defer statMu.Unlock()
	out := map[string]any{}
	for k, v := range stats {
		out[k] = v
	}
	return out
}

type hprobe struct{ hm, path, body string }

type line struct {
	poll, opt bool
	g         []string
	h         []hprobe
	w         []hprobe
	ops       []string
}

func parseLine(input string) (*line, error) {
	f := strings.Fields(input)
	if len(f) < 3 || f[0] != "hist" {
		return nil, fmt.Errorf("not a hist line")
	}
	l := &line{}
	for _, tok := range f[1:] {
		switch {
		case strings.HasPrefix(tok, "poll="):
			l.poll = tok == "poll=1"
		case strings.HasPrefix(tok, "opt="):
			l.opt = tok == "opt=1"
		case strings.HasPrefix(tok, "G="):
			if tok != "G=" {
				l.g = strings.Split(tok[2:], ";")
			}
		case strings.HasPrefix(tok, "H="), strings.HasPrefix(tok, "W="):
			if len(tok) == 2 {
				continue
			}
			for _, p := range strings.Split(tok[2:], ";") {
				q := strings.Split(p, "~")
				var hp hprobe
				if tok[0] == 'H' && len(q) == 3 {
					hp = hprobe{q[0], q[1], q[2]}
				} else if tok[0] == 'W' && len(q) == 2 {
					hp = hprobe{"GET", q[0], q[1]}
				} else {
					return nil, fmt.Errorf("bad probe %q", p)
				}
				if tok[0] == 'H' {
					l.h = append(l.h, hp)
				} else {
					l.w = append(l.w, hp)
				}
			}
		default:
			l.ops = append(l.ops, tok)
		}
	}
	return l, nil
}

func (l *line) probes() []probe {
	var ps []probe
	for k, p := range l.g {
		for _, ep := range []string{"px", "gw", "gs", "dg"} {
			ps = append(ps, probe{ep: ep, path: p, id: fmt.Sprintf("g%d", k), sub: fmt.Sprintf("s%d", k), n: fmt.Sprintf("n%d", k)})
		}
	}
	for k, p := range l.h {
		ps = append(ps, probe{ep: "ht", hm: p.hm, path: p.path, body: p.body, sub: fmt.Sprintf("h%d", k)})
		ps = append(ps, probe{ep: "dh", hm: p.hm, path: p.path})
	}
	for k, p := range l.w {
		ps = append(ps, probe{ep: "ws", hm: "GET", path: p.path, body: p.body, sub: fmt.Sprintf("w%d", k)})
	}
	return ps
}

func (Area) Exec(input string) string {
	l, err := parseLine(input)
	if err != nil {
		return "BADLINE"
	}
	e, err := newEnv(l.poll, l.opt)
	if err != nil {
		return "HARNESS " + err.Error()
	}
	defer e.close()
	ps := l.probes()
	// a lookup of every path in the MIDDLE of every update fan-out (see hookLogger), for every history
	mid := func() { e.lookupEverything(ps) }
	e.hook.midUpdate.Store(&mid)
	step := func(res string) string { return res + "=" + strings.Join(e.probeAll(ps), ",") }
	out := []string{step("init")}
	for i, op := range l.ops {
		f := strings.Split(op, ",")
		var res string
		stop := func() {}
		if f[0] != "P" {
			stop = e.hammer(ps) // concurrent lookups while the operation and its settling are in progress
		}
		switch {
		case f[0] == "A" && len(f) == 4:
			c, err := parseContract(f[3])
			if err != nil {
				stop()
				return "BADLINE"
			}
			res = guarded(func() string { return e.add(f[1], fmt.Sprintf("i%d", i), f[2], c) })
		case f[0] == "X" && len(f) == 4:
			c, err := parseContract(f[3])
			if err != nil {
				stop()
				return "BADLINE"
			}
			res = guarded(func() string { return e.swap(f[1], fmt.Sprintf("i%d", i), f[2], c) })
		case f[0] == "F" && len(f) == 2:
			res = guarded(func() string { return e.addFailing(f[1], false) })
		case f[0] == "O" && len(f) == 2:
			res = guarded(func() string { return e.addFailing(f[1], true) })
		case f[0] == "R" && len(f) == 2:
			res = guarded(func() string { return e.removeWithFlights(f[1]) })
		case f[0] == "U" && len(f) == 3:
			c, err := parseContract(f[2])
			if err != nil {
				stop()
				return "BADLINE"
			}
			res = guarded(func() string { return e.update(f[1], c, i) })
		case f[0] == "P" && len(f) == 1:
			res = "-"
		default:
			stop()
			return "BADLINE"
		}
		stop()
		count("op:"+f[0]+":"+strings.SplitN(strings.SplitN(res, "~", 2)[0], ":", 2)[0], 1)
		out = append(out, step(res))
	}
	count("mid-update lookups", int(e.hook.fired.Load()))
	count("probes", len(ps)*(len(l.ops)+1))
	return strings.Join(out, " ")
}

// ---------- generator ----------

func svc(name string, ms ...method) service { return service{name: name, methods: ms} }
func mth(name, kind string, bs ...binding) method {
	return method{name: name, kind: kind, bindings: bs}
}
func bnd(hm, pattern, body string) binding { return binding{hm, pattern, body} }

// The catalogue: per service several VARIANTS (contracts that differ in methods, kinds and bindings).
// A template always comes with the same body spec wherever it appears.
var catalogue = map[string][]service{
	"lib": {
		svc("stk.a.Lib",
			mth("Get", "u", bnd("GET", "/v1/lib/{id}", "-"), bnd("GET", "/v1/lib/{id}/x/{nested.name=shelves/*}:peek", "-")),
			mth("Put", "u", bnd("POST", "/v1/lib", "*"), bnd("PUT", "/v1/lib/{id}", "sub")),
			mth("Watch", "ss", bnd("GET", "/v1/lib/{id}/watch", "-")),
			mth("Feed", "cs", bnd("GET", "/v1/lib:feed", "*"), bnd("POST", "/v1/lib:feed", "*")),
			mth("Chat", "bd", bnd("GET", "/v1/lib/chat/{nested.name=rooms/**}", "*")),
			mth("Raw", "u"),
			mth("RawS", "bd")),
		svc("stk.a.Lib",
			mth("Get", "u", bnd("GET", "/v1/lib/{id}", "-")),
			mth("Del", "u", bnd("DELETE", "/v1/lib/{id}", "-")),
			mth("Watch", "bd", bnd("GET", "/v1/lib/{id}/watch", "-")),
			mth("Raw", "ss")),
		// lib2 = lib0 with the SAME services, methods, HTTP methods and templates but other DATA: body mappings swapped
		// or dropped, streaming kinds changed (a router that keeps serving lib0's description after lib2 was delivered —
		// or the other way round — answers differently on every entry point)
		svc("stk.a.Lib",
			mth("Get", "ss", bnd("GET", "/v1/lib/{id}", "-"), bnd("GET", "/v1/lib/{id}/x/{nested.name=shelves/*}:peek", "-")),
			mth("Put", "u", bnd("POST", "/v1/lib", "sub"), bnd("PUT", "/v1/lib/{id}", "*")),
			mth("Watch", "u", bnd("GET", "/v1/lib/{id}/watch", "-")),
			mth("Feed", "u", bnd("GET", "/v1/lib:feed", "-"), bnd("POST", "/v1/lib:feed", "sub")),
			mth("Chat", "ss", bnd("GET", "/v1/lib/chat/{nested.name=rooms/**}", "-")),
			mth("Raw", "cs"),
			mth("RawS", "u")),
	},
	"shop": {
		svc("stk.b.Shop",
			mth("Buy", "u", bnd("POST", "/v1/shop/{id}:buy", "*")),
			mth("List", "ss", bnd("GET", "/v1/shop", "-")),
			mth("Sync", "bd", bnd("GET", "/v1/shop/sync", "*"))),
		svc("stk.b.Shop",
			mth("Buy", "u", bnd("POST", "/v2/shop/{id}:buy", "*")),
			mth("List", "u", bnd("GET", "/v1/shop", "-")),
			mth("Steal", "u", bnd("GET", "/v1/lib/{id}", "-"))), // the template of Lib.Get under another service
		// shop2 = shop0, same routes, other data
		svc("stk.b.Shop",
			mth("Buy", "u", bnd("POST", "/v1/shop/{id}:buy", "sub")),
			mth("List", "u", bnd("GET", "/v1/shop", "-")),
			mth("Sync", "cs", bnd("GET", "/v1/shop/sync", "-"))),
	},
	"misc": {
		svc("stk.c.Misc",
			mth("Ping", "u"),
			mth("Echo", "u", bnd("POST", "/v1/misc/{nested.name}/echo", "*")),
			mth("Link", "u", bnd("LINK", "/v1/misc/{id}", "-")),
			mth("Tail", "ss", bnd("GET", "/v1/misc/{id}/tail/*", "-"))),
		svc("stk.c.Misc",
			mth("Ping", "u", bnd("GET", "/v1/misc:ping", "-")),
			mth("Tail", "ss", bnd("GET", "/v1/misc/{id}/tail/*", "-"), bnd("GET", "/v1/misc/{id}/all/**", "-"))),
		// misc2 = misc0, same routes, other data
		svc("stk.c.Misc",
			mth("Ping", "bd"),
			mth("Echo", "u", bnd("POST", "/v1/misc/{nested.name}/echo", "sub")),
			mth("Link", "ss", bnd("LINK", "/v1/misc/{id}", "-")),
			mth("Tail", "u", bnd("GET", "/v1/misc/{id}/tail/*", "-"))),
	},
}

// sentinel: the per-instance service the settle wait and the in-flight calls use — never contested, with a server-streaming
// and a bidi method reachable over GET (transcoded HTTP / WebSocket).
func sentinel(i int) service {
	return svc(fmt.Sprintf("stk.z.S%d", i), mth("Ping", "u"),
		mth("Hold", "ss", bnd("GET", fmt.Sprintf("/z/s%d/hold", i), "-")),
		mth("HoldB", "bd", bnd("GET", fmt.Sprintf("/z/s%d/holdb", i), "*")))
}

// pick names a variant: "lib0", "shop1", …
// Contracts that give the PatternRouter NOTHING to route (their sentinel is bare, too): no services at all, services
// without methods, methods whose every binding is unparseable (no default binding is made for a method that has bindings).
var unroutable = map[string]contract{
	"empty":     {},
	"nomethods": {svc("stk.a.Lib"), svc("stk.b.Shop")},
	"badtemplates": {svc("stk.a.Lib",
		mth("Get", "u", bnd("GET", "/v1/lib/{id", "-")),
		mth("Put", "u", bnd("POST", "v1/lib", "*"), bnd("PUT", "/v1/lib/{id", "sub")))},
}

func pick(names ...string) contract {
	var c contract
	for _, n := range names {
		if u, ok := unroutable[n]; ok {
			c = append(c, u...)
			continue
		}
		c = append(c, catalogue[n[:len(n)-1]][int(n[len(n)-1]-'0')])
	}
	return c
}

type histOp struct {
	kind, name, refl string
	c                contract
}

// withSentinels walks the history the way the router will and gives every contract the sentinel service of the INSTANCE
// that serves it: a fresh instance per successful Add / swap (index of the op), the same one for its later contract changes
// (so a change that keeps every route keeps the sentinel too).
func withSentinels(ops []histOp) []contract {
	out := make([]contract, len(ops))
	type inst struct {
		idx  int
		refl bool
	}
	present := map[string]inst{}
	for i, o := range ops {
		plus := func(k int) contract {
			if !o.c.routable() {
				return append(append(contract{}, o.c...), svc(fmt.Sprintf("stk.z.S%d", k))) // bare: nothing routable at all
			}
			return append(append(contract{}, o.c...), sentinel(k))
		}
		switch o.kind {
		case "A":
			out[i] = o.c
			if o.refl != "none" {
				out[i] = plus(i)
			}
			if _, ok := present[o.name]; !ok {
				present[o.name] = inst{i, o.refl != "none"}
			}
		case "X":
			out[i] = o.c
			if o.refl != "none" {
				out[i] = plus(i)
			}
			present[o.name] = inst{i, o.refl != "none"}
		case "U":
			out[i] = o.c
			if in, ok := present[o.name]; ok && in.refl {
				out[i] = plus(in.idx)
			}
		case "R":
			delete(present, o.name)
		}
	}
	return out
}

func (o histOp) token(c contract) string {
	switch o.kind {
	case "A", "X":
		return fmt.Sprintf("%s,%s,%s,%s", o.kind, o.name, o.refl, c)
	case "U":
		return fmt.Sprintf("U,%s,%s", o.name, c)
	case "P":
		return "P"
	}
	return o.kind + "," + o.name
}

// render computes the probe set from every contract of the history (every method path and every binding of
// every target ever used, on every entry point) plus negative probes, and prints the line.
func render(poll, opt bool, ops []histOp) string {
	gset, hset, wset := map[string]bool{}, map[string]bool{}, map[string]bool{}
	var g []string
	var h, w []string
	addG := func(p string) {
		if !gset[p] {
			gset[p] = true
			g = append(g, p)
		}
	}
	addH := func(hm, path, body string) {
		k := hm + "~" + path + "~" + body
		if !hset[k] {
			hset[k] = true
			h = append(h, k)
		}
	}
	addW := func(path, body string) {
		k := path + "~" + body
		if !wset[k] {
			wset[k] = true
			w = append(w, k)
		}
	}
	var toks []string
	contracts := withSentinels(ops)
	for i, o := range ops {
		c := contracts[i]
		toks = append(toks, o.token(c))
		if o.kind != "A" && o.kind != "U" && o.kind != "X" {
			continue
		}
		for _, s := range c {
			addG("/" + s.name + "/NoSuch") // routing is by service: any method name reaches the owner verbatim
			for _, m := range s.methods {
				addG("/" + s.name + "/" + m.name)
				if len(m.bindings) == 0 {
					addH("POST", "/"+s.name+"/"+m.name, "*")
					continue
				}
				for bi, b := range m.bindings {
					if !validTmpl(b.pattern) {
						continue // never becomes a route; the paths of the sound templates around it are probed anyway
					}
					path := instantiate(b.pattern, fmt.Sprintf("%c%d", m.name[0], bi))
					addH(b.hm, path, b.body)
					if b.hm == "GET" && m.kind != "u" {
						addW(path, b.body)
					}
				}
			}
		}
	}
	// the marshaler LIST (WithMarshalers): the first whole-body binding again with an explicit Content-Type
	for _, k := range h {
		q := strings.Split(k, "~")
		if q[2] == "*" && q[0] == "POST" {
			addH(q[0], q[1], "*j")
			addH(q[0], q[1], "*k")
			break
		}
	}
	// negative / boundary probes
	addH("POST", "/stk.a.Lib/Get", "*") // no default binding for a method that has bindings
	addG("/stk.nope.None/M")
	addG("/stk.a.Lib/Get/extra") // the method is everything after the first slash
	addH("GET", "/v1/none/x", "-")
	addH("PATCH", "/v1/lib/P1", "-")
	addH("GET", "/v1/lib/Q1:nope", "-") // no such verb: {id} takes the whole segment
	addH("GET", "/v1/lib:feed", "*")    // client streaming over plain HTTP
	addW("/v1/none/ws", "-")
	return fmt.Sprintf("hist poll=%d opt=%d G=%s H=%s W=%s %s", b2i(poll), b2i(opt),
		strings.Join(g, ";"), strings.Join(h, ";"), strings.Join(w, ";"), strings.Join(toks, " "))
}

func b2i(b bool) int {
	if b {
		return 1
	}
	return 0
}

func A(name, refl string, vs ...string) histOp {
	return histOp{kind: "A", name: name, refl: refl, c: pick(vs...)}
}
func X(name, refl string, vs ...string) histOp {
	return histOp{kind: "X", name: name, refl: refl, c: pick(vs...)}
}
func U(name string, vs ...string) histOp {
	return histOp{kind: "U", name: name, refl: "v1", c: pick(vs...)}
}
func R(name string) histOp { return histOp{kind: "R", name: name} }
func F(name string) histOp { return histOp{kind: "F", name: name} }
func O(name string) histOp { return histOp{kind: "O", name: name} }

var P = histOp{kind: "P"}

// fixed histories: each glue step at least once, with and without the bridge options
func fixed() []string {
	return []string{
		// add / remove / re-add under the same name with a different contract; other target untouched
		render(false, true, []histOp{A("a", "v1", "lib0", "misc0"), A("b", "both", "shop0"), R("a"), A("a", "va", "lib1", "shop1"), R("b"), R("a")}),
		// two targets claiming one service (different variants), release, failed adds in between
		render(false, false, []histOp{A("a", "v1", "lib0"), F("c"), A("b", "v1", "lib1", "shop0"), O("c"), R("a"), A("c", "both", "lib0"), R("b")}),
		// failed Adds leave no trace and the name stays addable; duplicate Add; target without reflection
		render(false, true, []histOp{F("a"), O("a"), A("a", "none", "lib0"), A("a", "v1", "shop0"), R("a"), A("a", "va", "shop1", "misc1"), A("a", "v1", "lib0"), R("zz")}),
		// polling on: a live contract change is picked up by the next poll on BOTH routers
		render(true, true, []histOp{A("a", "v1", "lib0"), U("a", "lib1", "misc1"), R("a")}),
		// polling on: successive contract changes that keep EVERY service, method, HTTP method and template and change only
		// the data behind them (body mappings, streaming kinds) — and back again
		render(true, true, []histOp{A("a", "v1", "lib0", "shop0"), U("a", "lib2", "shop0"), U("a", "lib2", "shop2"), U("a", "lib0", "shop2"), R("a")}),
		// the same next to a second target that claims one of the services; then a method added inside a kept service set
		render(true, false, []histOp{A("a", "both", "misc0", "lib1"), A("b", "v1", "misc2"), U("a", "misc2", "lib1"), U("b", "misc0"), U("a", "misc2", "lib0"), R("a"), R("b")}),
		// polling on: from a routable contract to one with NOTHING routable for the PatternRouter (no services / services without
		// methods / only unparseable templates) and back: every old binding and default POST path must be gone in between
		render(true, true, []histOp{A("a", "v1", "lib0", "shop0"), U("a", "empty"), U("a", "lib2"), U("a", "nomethods"), R("a")}),
		render(true, false, []histOp{A("a", "both", "misc0", "shop1"), A("b", "v1", "lib1"), U("a", "badtemplates"), U("a", "misc2"), U("b", "empty"), R("b"), R("a")}),
		// polling on, contested service: the owner's changed contract releases it, the waiting claimant takes over
		render(true, false, []histOp{A("a", "v1", "lib0"), A("b", "both", "lib1", "shop0"), U("a", "misc0"), U("b", "lib0"), R("a"), R("b")}),
		// Remove and Add of the SAME name started concurrently while its poller is in the middle of a resolution;
		// whatever the outcome, the name is present or addable afterwards; then the usual life goes on
		render(true, true, []histOp{A("a", "v1", "shop0"), X("a", "both", "shop1", "misc0"), R("a"), A("a", "v1", "lib0"), X("a", "v1", "lib2"), R("a")}),
		// default options everywhere (NewForwarder(), default transcoder), v1alpha only
		render(true, false, []histOp{A("x", "va", "misc0", "shop1"), A("y", "va", "lib1"), R("x"), P}),
	}
}

var names = []string{"a", "b", "c"}
var families = []string{"lib", "shop", "misc"}

func randomContract(r *rand.Rand) []string {
	if r.Intn(8) == 0 {
		return []string{[]string{"empty", "nomethods", "badtemplates"}[r.Intn(3)]}
	}
	var out []string
	for _, s := range families {
		if r.Intn(2) == 0 {
			out = append(out, fmt.Sprintf("%s%d", s, r.Intn(3)))
		}
	}
	if len(out) == 0 {
		out = append(out, fmt.Sprintf("%s%d", families[r.Intn(3)], r.Intn(3)))
	}
	return out
}

// sameRoutes changes a contract without touching a single route: variants 0 and 2 of a family have the same services,
// methods, HTTP methods and templates (only bodies and streaming kinds differ).
func sameRoutes(r *rand.Rand, vs []string) ([]string, bool) {
	out := append([]string{}, vs...)
	changed := false
	for i, v := range out {
		if _, ok := unroutable[v]; ok {
			continue
		}
		fam, k := v[:len(v)-1], v[len(v)-1]
		if k == '1' || (changed && r.Intn(2) == 0) {
			continue
		}
		out[i] = fam + map[byte]string{'0': "2", '2': "0"}[k]
		changed = true
	}
	return out, changed
}

type liveInst struct {
	refl string
	vs   []string
}

func randomHistory(r *rand.Rand, maxOps int, allowPoll bool) string {
	poll := allowPoll && r.Intn(3) == 0
	opt := r.Intn(2) == 0
	n := 3 + r.Intn(maxOps-2)
	present := map[string]liveInst{} // live name -> the instance behind it
	var ops []histOp
	slow := 0 // operations that wait for a poll
	for len(ops) < n {
		name := names[r.Intn(len(names))]
		var live []string
		for _, k := range names {
			if _, ok := present[k]; ok {
				live = append(live, k)
			}
		}
		sort.Strings(live)
		switch k := r.Intn(12); {
		case k < 4: // add (mostly absent names; sometimes a duplicate)
			refl := []string{"v1", "v1", "va", "both", "both", "none"}[r.Intn(6)]
			vs := randomContract(r)
			ops = append(ops, A(name, refl, vs...))
			if _, ok := present[name]; !ok {
				present[name] = liveInst{refl, vs}
			}
		case k < 7 && len(live) > 0: // remove a present name
			name = live[r.Intn(len(live))]
			ops = append(ops, R(name))
			delete(present, name)
		case k == 7:
			if r.Intn(2) == 0 {
				ops = append(ops, F(name))
			} else {
				ops = append(ops, O(name))
			}
		case (k == 8 || k == 9) && poll && len(live) > 0 && slow < 3:
			// a polled contract change (an update of a target without reflection would never settle: not generated);
			// half of them keep every route and change only the data
			name = live[r.Intn(len(live))]
			in := present[name]
			if in.refl == "none" {
				continue
			}
			vs := randomContract(r)
			if same, ok := sameRoutes(r, in.vs); ok && r.Intn(2) == 0 {
				vs = same
			} else if r.Intn(4) == 0 {
				vs = []string{[]string{"empty", "nomethods", "badtemplates"}[r.Intn(3)]} // nothing routable for the PatternRouter
			}
			ops = append(ops, U(name, vs...))
			present[name] = liveInst{in.refl, vs}
			slow++
		case k == 10 && poll && len(live) > 0 && slow < 3:
			name = live[r.Intn(len(live))]
			if present[name].refl == "none" {
				continue
			}
			refl := []string{"v1", "va", "both"}[r.Intn(3)]
			vs := randomContract(r)
			ops = append(ops, X(name, refl, vs...))
			present[name] = liveInst{refl, vs}
			slow++
		case k == 11 && len(live) == 0:
			ops = append(ops, R(name)) // remove of an absent name
		}
	}
	return render(poll, opt, ops)
}

func (Area) Gen(r *rand.Rand, tier string, emit func(string)) {
	for _, l := range fixed() {
		emit(l)
	}
	n, maxOps := 10, 8
	if tier == "thorough" {
		n, maxOps = 120, 10
	}
	for i := 0; i < n; i++ {
		emit(randomHistory(r, maxOps, true))
	}
}
