package stack

// A scripted gRPC TARGET: a real grpc.Server on bufconn with the real grpc reflection service
// (v1 / v1alpha / both / none) over run-time built descriptors, and an unknown-service handler that
// answers ANY method: it reads one request message (raw bytes), appends the fields target (3) and
// method (4) — proto concatenation = merge, so the request fields are echoed — stamps its id into the
// response header x-stk-target, sends one response and ends the call with OK.

import (
	"context"
	"net"
	"strings"
	"sync"
	"sync/atomic"

	"google.golang.org/grpc"
	"google.golang.org/grpc/codes"
	"google.golang.org/grpc/credentials/insecure"
	"google.golang.org/grpc/metadata"
	"google.golang.org/grpc/reflection"
	reflv1 "google.golang.org/grpc/reflection/grpc_reflection_v1"
	reflv1a "google.golang.org/grpc/reflection/grpc_reflection_v1alpha"
	"google.golang.org/grpc/status"
	"google.golang.org/grpc/test/bufconn"
	"google.golang.org/protobuf/encoding/protowire"
	"google.golang.org/protobuf/proto"
	"google.golang.org/protobuf/reflect/protoreflect"
	"google.golang.org/protobuf/reflect/protoregistry"
)

const (
	stampHeader = "x-stk-target"
	userAgent   = "stk-ua"
	holdMark    = "hold" // a request whose field sub says so is parked by the target (an idle in-flight call)
)

// rawCodec passes *[]byte through untouched and everything else through proto (the reflection service).
type rawCodec struct{}

func (rawCodec) Marshal(v any) ([]byte, error) {
	if r, ok := v.(*[]byte); ok {
		return *r, nil
	}
	return proto.Marshal(v.(proto.Message))
}

func (rawCodec) Unmarshal(b []byte, v any) error {
	if r, ok := v.(*[]byte); ok {
		*r = append([]byte(nil), b...)
		return nil
	}
	return proto.Unmarshal(b, v.(proto.Message))
}

func (rawCodec) Name() string { return "proto" }

type target struct {
	tid    string
	noRefl bool
	lis    *bufconn.Listener
	srv    *grpc.Server

	mu    sync.Mutex
	files *protoregistry.Files
	names []string
	cur   contract
	calls int

	held        atomic.Int32  // calls currently parked by a "hold" request
	reflHold    atomic.Bool   // reflection streams are parked on arrival while set
	reflWaiting atomic.Int32  // reflection streams parked right now
	reflRelease chan struct{} // closed to let the parked reflection streams go on
}

func newTarget(tid, refl string, c contract) (*target, error) {
	t := &target{tid: tid, noRefl: refl == "none", lis: bufconn.Listen(1 << 18)}
	if err := t.setContract(c, 0); err != nil {
		return nil, err
	}
	t.srv = grpc.NewServer(grpc.ForceServerCodec(rawCodec{}), grpc.UnknownServiceHandler(t.handle), grpc.StreamInterceptor(t.intercept))
	opts := reflection.ServerOptions{Services: t, DescriptorResolver: t}
	if refl == "v1" || refl == "both" {
		reflv1.RegisterServerReflectionServer(t.srv, reflection.NewServerV1(opts))
	}
	if refl == "va" || refl == "both" {
		reflv1a.RegisterServerReflectionServer(t.srv, reflection.NewServer(opts))
	}
	go func() { _ = t.srv.Serve(t.lis) }()
	return t, nil
}

func (t *target) setContract(c contract, gen int) error {
	files, names, err := buildFiles(t.tid+"g"+string(rune('0'+gen%10)), c)
	if err != nil {
		return err
	}
	t.mu.Lock()
	t.files, t.names, t.cur = files, names, c
	t.mu.Unlock()
	return nil
}

// intercept parks reflection streams while reflHold is set: the resolver's poller is then in the middle of a resolution.
func (t *target) intercept(srv any, ss grpc.ServerStream, info *grpc.StreamServerInfo, handler grpc.StreamHandler) error {
	if strings.HasPrefix(info.FullMethod, "/grpc.reflection.") && t.reflHold.Load() {
		t.mu.Lock()
		release := t.reflRelease
		t.mu.Unlock()
		t.reflWaiting.Add(1)
		select {
		case <-release:
		case <-ss.Context().Done():
		}
		t.reflWaiting.Add(-1)
	}
	return handler(srv, ss)
}

func (t *target) holdReflection() {
	t.mu.Lock()
	t.reflRelease = make(chan struct{})
	t.mu.Unlock()
	t.reflHold.Store(true)
}

func (t *target) releaseReflection() {
	if t.reflHold.Swap(false) {
		t.mu.Lock()
		close(t.reflRelease)
		t.mu.Unlock()
	}
}

func (t *target) sentinelOf() (service, bool) {
	t.mu.Lock()
	defer t.mu.Unlock()
	if t.noRefl {
		return service{}, false
	}
	return t.cur.sentinel()
}

func (t *target) stop() {
	t.srv.Stop()
	_ = t.lis.Close()
}

func (t *target) dial(opts ...grpc.DialOption) (*grpc.ClientConn, error) {
	all := append([]grpc.DialOption{}, opts...)
	all = append(all,
		grpc.WithContextDialer(func(ctx context.Context, _ string) (net.Conn, error) { return t.lis.DialContext(ctx) }),
		grpc.WithTransportCredentials(insecure.NewCredentials()))
	return grpc.NewClient("passthrough:///stk-"+t.tid, all...)
}

// reflection.ServiceInfoProvider
func (t *target) GetServiceInfo() map[string]grpc.ServiceInfo {
	t.mu.Lock()
	defer t.mu.Unlock()
	out := map[string]grpc.ServiceInfo{}
	for _, n := range t.names {
		out[n] = grpc.ServiceInfo{}
	}
	for n := range t.srv.GetServiceInfo() { // the reflection services themselves, as a real server lists them
		out[n] = grpc.ServiceInfo{}
	}
	return out
}

// protodesc.Resolver
func (t *target) FindFileByPath(p string) (protoreflect.FileDescriptor, error) {
	t.mu.Lock()
	f := t.files
	t.mu.Unlock()
	if fd, err := f.FindFileByPath(p); err == nil {
		return fd, nil
	}
	return protoregistry.GlobalFiles.FindFileByPath(p)
}

func (t *target) FindDescriptorByName(n protoreflect.FullName) (protoreflect.Descriptor, error) {
	t.mu.Lock()
	f := t.files
	t.mu.Unlock()
	if d, err := f.FindDescriptorByName(n); err == nil {
		return d, nil
	}
	return protoregistry.GlobalFiles.FindDescriptorByName(n)
}

func (t *target) handle(_ any, ss grpc.ServerStream) error {
	m, _ := grpc.MethodFromServerStream(ss)
	if strings.HasPrefix(m, "/grpc.") {
		return status.Error(codes.Unimplemented, "stack target: no such administrative service") // e.g. reflection when refl=none
	}
	t.mu.Lock()
	t.calls++
	t.mu.Unlock()
	stamp := t.tid
	if md, ok := metadata.FromIncomingContext(ss.Context()); !ok || len(md.Get("user-agent")) == 0 || !strings.HasPrefix(md.Get("user-agent")[0], userAgent) {
		stamp += "?ua" // the dial options given to the router did not reach this connection
	}
	_ = ss.SetHeader(metadata.Pairs(stampHeader, stamp))
	var in []byte
	if err := ss.RecvMsg(&in); err != nil {
		return err
	}
	if m, ok := decodeMsg(in); ok && m.sub == holdMark {
		// an in-flight call: the target stays idle until the call is ended from the other side
		t.held.Add(1)
		defer t.held.Add(-1)
		<-ss.Context().Done()
		return status.Error(codes.Canceled, "stack target: held call ended")
	}
	out := append([]byte(nil), in...)
	out = protowire.AppendTag(out, 3, protowire.BytesType)
	out = protowire.AppendString(out, stamp)
	out = protowire.AppendTag(out, 4, protowire.BytesType)
	out = protowire.AppendString(out, m)
	return ss.SendMsg(&out)
}

// ---------- the message on the client side ----------

type msg struct{ id, sub, target, method, nested string }

func (m msg) encodeReq() []byte {
	var b []byte
	if m.id != "" {
		b = protowire.AppendTag(b, 1, protowire.BytesType)
		b = protowire.AppendString(b, m.id)
	}
	if m.sub != "" {
		b = protowire.AppendTag(b, 2, protowire.BytesType)
		b = protowire.AppendString(b, m.sub)
	}
	if m.nested != "" {
		var n []byte
		n = protowire.AppendTag(n, 1, protowire.BytesType)
		n = protowire.AppendString(n, m.nested)
		b = protowire.AppendTag(b, 5, protowire.BytesType)
		b = protowire.AppendBytes(b, n)
	}
	return b
}

func decodeMsg(b []byte) (msg, bool) {
	var m msg
	for len(b) > 0 {
		num, typ, n := protowire.ConsumeTag(b)
		if n < 0 {
			return m, false
		}
		b = b[n:]
		if typ != protowire.BytesType {
			n = protowire.ConsumeFieldValue(num, typ, b)
			if n < 0 {
				return m, false
			}
			b = b[n:]
			continue
		}
		v, n := protowire.ConsumeBytes(b)
		if n < 0 {
			return m, false
		}
		b = b[n:]
		switch num {
		case 1:
			m.id = string(v)
		case 2:
			m.sub = string(v)
		case 3:
			m.target = string(v)
		case 4:
			m.method = string(v)
		case 5:
			for len(v) > 0 {
				nn, nt, k := protowire.ConsumeTag(v)
				if k < 0 {
					return m, false
				}
				v = v[k:]
				if nt != protowire.BytesType {
					return m, false
				}
				s, k := protowire.ConsumeBytes(v)
				if k < 0 {
					return m, false
				}
				v = v[k:]
				if nn == 1 {
					m.nested = string(s)
				}
			}
		}
	}
	return m, true
}
