package c09

// Glue-level ops of C09:
//
//	hist <opts> <step,step,…>   — a SEQUENCE of codec uses over several descriptor sets within ONE fresh process
//	    step = <target>.<path>.<shape>.<item>
//	      target a1 | a2 | b        alpha v1, alpha v2 (message Item gained fields), beta (own types)
//	      path   u unary response Transcode | s ResponseStreamTranscoder.Stream(w).Transcode | x the same with SSE
//	             e JSONMarshaler.NewEncoder(types, w).Encode | d NewDecoder(types, r).Decode | r unary request Transcode
//	      shape  p Holder.payload (Any) | l Holder.payloads (repeated Any) | m Holder.by_name (map<string, Any>)
//	             n Holder.nested (message with an Any inside) | w the whole Holder
//	      item   0 | 1               which value is packed into the Any
//	    => <class;class;…> <res;res;…> <ref;ref;…>
//	    class = full | lossy | err: the result of the step, decoded/encoded again with the resolver OF ITS OWN target,
//	    equals the value (full), lost something (lossy), or the step failed (err). ref = hash of the value.
//	    Every sequence runs in a child process (the harness binary re-executed with VERIF_C09_HIST set), so that
//	    process-wide state left by an earlier case cannot hide (or cause) anything.
//
//	entry <cfg> <card> <kind> <key> <text>   — the same body through every entry point of ONE bridge built by the
//	    ROOT constructor grpcbridge.NewWebBridge(router, WithMarshalers / WithDefaultMarshaler…) and WebBridge.ServeHTTP
//	    cfg = <M><D><C>: M, D ∈ {-, s, d}: WithMarshalers([JSONMarshaler]) / WithDefaultMarshaler(JSONMarshaler) not given,
//	          strict (DiscardUnknown=false), lenient (=true); C ∈ {c, n}: request carries Content-Type: application/json or none
//	    card kind key = the request body field as in `dec` (card `msg`, kind `*` = the whole message)
//	    => <u0|u1> <tree|!> fp:<tbl> <http> <ss> <sse> <ws> <ref-strict> <ref-lenient>
//	    each = rej | acc:<field value or message hash>: what the target received.

import (
	"bytes"
	"context"
	"crypto/sha256"
	"encoding/hex"
	"encoding/json"
	"errors"
	"fmt"
	"io"
	"net/http"
	"net/http/httptest"
	"net/url"
	"os"
	"os/exec"
	"strings"
	"sync"
	"time"

	"github.com/gorilla/websocket"
	grpcbridge "github.com/renbou/grpcbridge"
	"github.com/renbou/grpcbridge/bridgedesc"
	"github.com/renbou/grpcbridge/grpcadapter"
	"github.com/renbou/grpcbridge/routing"
	"github.com/renbou/grpcbridge/transcoding"
	"google.golang.org/grpc/codes"
	"google.golang.org/grpc/metadata"
	"google.golang.org/grpc/status"
	"google.golang.org/protobuf/encoding/protojson"
	"google.golang.org/protobuf/proto"
	"google.golang.org/protobuf/reflect/protodesc"
	"google.golang.org/protobuf/reflect/protoreflect"
	"google.golang.org/protobuf/reflect/protoregistry"
	"google.golang.org/protobuf/types/descriptorpb"
	"google.golang.org/protobuf/types/dynamicpb"
	"google.golang.org/protobuf/types/known/anypb"
	"verif/harness/common"
)

const histEnv = "VERIF_C09_HIST"

func init() {
	if seq := os.Getenv(histEnv); seq != "" {
		fmt.Print(runHist(seq))
		os.Exit(0)
	}
}

func execHist(opts, steps string) string {
	self, err := os.Executable()
	if err != nil {
		return "ERR executable"
	}
	ctx, cancel := context.WithTimeout(context.Background(), 30*time.Second)
	defer cancel()
	cmd := exec.CommandContext(ctx, self)
	cmd.Env = append(os.Environ(), histEnv+"="+opts+" "+steps)
	out, err := cmd.Output()
	if err != nil {
		return "ERR child " + strings.ReplaceAll(err.Error(), " ", "_")
	}
	return strings.TrimSpace(string(out))
}

// ---- descriptor sets -----------------------------------------------------------------------------------

type histTarget struct {
	target *bridgedesc.Target
	files  *protoregistry.Files
	types  *dynamicpb.Types
	pkg    string
	item   string
}

func (t *histTarget) md(name string) protoreflect.MessageDescriptor {
	d, err := t.files.FindDescriptorByName(protoreflect.FullName(t.pkg + "." + name))
	if err != nil {
		panic(err)
	}
	return d.(protoreflect.MessageDescriptor)
}

func hfield(name string, num int32, typ descriptorpb.FieldDescriptorProto_Type, typeName string, rep bool) *descriptorpb.FieldDescriptorProto {
	f := &descriptorpb.FieldDescriptorProto{Name: proto.String(name), Number: proto.Int32(num), Type: typ.Enum(),
		Label: descriptorpb.FieldDescriptorProto_LABEL_OPTIONAL.Enum()}
	if typeName != "" {
		f.TypeName = proto.String(typeName)
	}
	if rep {
		f.Label = descriptorpb.FieldDescriptorProto_LABEL_REPEATED.Enum()
	}
	return f
}

// newHistTarget builds a fresh file registry and a fresh dynamicpb type resolver, as the reflection resolver does
// for every (version of a) target.
func newHistTarget(name, pkg, item string, itemFields []*descriptorpb.FieldDescriptorProto) *histTarget {
	const anyT = ".google.protobuf.Any"
	msgT := descriptorpb.FieldDescriptorProto_TYPE_MESSAGE
	file := &descriptorpb.FileDescriptorProto{
		Name: proto.String(name + ".proto"), Package: proto.String(pkg), Syntax: proto.String("proto3"),
		Dependency: []string{"google/protobuf/any.proto"},
		MessageType: []*descriptorpb.DescriptorProto{
			{Name: proto.String(item), Field: itemFields},
			{Name: proto.String("Nested"), Field: []*descriptorpb.FieldDescriptorProto{hfield("deep", 1, msgT, anyT, false), hfield("note", 2, descriptorpb.FieldDescriptorProto_TYPE_STRING, "", false)}},
			{Name: proto.String("Holder"),
				Field: []*descriptorpb.FieldDescriptorProto{
					hfield("payload", 1, msgT, anyT, false), hfield("payloads", 2, msgT, anyT, true),
					hfield("by_name", 3, msgT, "."+pkg+".Holder.ByNameEntry", true), hfield("nested", 4, msgT, "."+pkg+".Nested", false),
				},
				NestedType: []*descriptorpb.DescriptorProto{{Name: proto.String("ByNameEntry"), Options: &descriptorpb.MessageOptions{MapEntry: proto.Bool(true)},
					Field: []*descriptorpb.FieldDescriptorProto{
						{Name: proto.String("key"), JsonName: proto.String("key"), Number: proto.Int32(1), Type: descriptorpb.FieldDescriptorProto_TYPE_STRING.Enum(), Label: descriptorpb.FieldDescriptorProto_LABEL_OPTIONAL.Enum()},
						{Name: proto.String("value"), JsonName: proto.String("value"), Number: proto.Int32(2), Type: msgT.Enum(), TypeName: proto.String(anyT), Label: descriptorpb.FieldDescriptorProto_LABEL_OPTIONAL.Enum()},
					}}},
			},
		},
	}
	files, err := protodesc.NewFiles(&descriptorpb.FileDescriptorSet{File: []*descriptorpb.FileDescriptorProto{
		protodesc.ToFileDescriptorProto(anypb.File_google_protobuf_any_proto), file}})
	if err != nil {
		panic("c09 hist: " + err.Error())
	}
	types := dynamicpb.NewTypes(files)
	return &histTarget{target: &bridgedesc.Target{Name: name, FileResolver: files, TypeResolver: types}, files: files, types: types, pkg: pkg, item: item}
}

func histTargets() map[string]*histTarget {
	i32, str, i64 := descriptorpb.FieldDescriptorProto_TYPE_INT32, descriptorpb.FieldDescriptorProto_TYPE_STRING, descriptorpb.FieldDescriptorProto_TYPE_INT64
	return map[string]*histTarget{
		"a1": newHistTarget("alpha", "alpha", "Item", []*descriptorpb.FieldDescriptorProto{hfield("id", 1, i32, "", false), hfield("name", 2, str, "", false)}),
		"a2": newHistTarget("alpha", "alpha", "Item", []*descriptorpb.FieldDescriptorProto{hfield("id", 1, i32, "", false), hfield("name", 2, str, "", false),
			hfield("extra", 3, str, "", false), hfield("nums", 4, i32, "", true)}),
		"b": newHistTarget("beta", "beta", "Thing", []*descriptorpb.FieldDescriptorProto{hfield("label", 1, str, "", false), hfield("n", 2, i64, "", false)}),
	}
}

// item builds the value packed into the Any: every field the target's descriptor has is set.
func (t *histTarget) itemValue(which string) proto.Message {
	m := dynamicpb.NewMessage(t.md(t.item))
	fs := m.Descriptor().Fields()
	for i := 0; i < fs.Len(); i++ {
		fd := fs.Get(i)
		switch {
		case fd.IsList():
			l := m.Mutable(fd).List()
			l.Append(protoreflect.ValueOfInt32(7))
			l.Append(protoreflect.ValueOfInt32(int32(len(which)) + 40))
		case fd.Kind() == protoreflect.StringKind:
			m.Set(fd, protoreflect.ValueOfString(string(fd.Name())+"-"+which))
		case fd.Kind() == protoreflect.Int32Kind:
			m.Set(fd, protoreflect.ValueOfInt32(int32(11+len(which)+int(which[0]))))
		case fd.Kind() == protoreflect.Int64Kind:
			m.Set(fd, protoreflect.ValueOfInt64(1<<53+int64(which[0])))
		}
	}
	return m
}

func setAny(dst protoreflect.Message, item proto.Message) {
	// deterministic wire bytes (dynamicpb ranges its fields in map order otherwise), the same options protojson
	// uses when it re-packs an Any, so that equal values have equal bytes
	b, err := proto.MarshalOptions{AllowPartial: true, Deterministic: true}.Marshal(item)
	if err != nil {
		panic(err)
	}
	dst.Set(dst.Descriptor().Fields().ByName("type_url"), protoreflect.ValueOfString("type.googleapis.com/"+string(item.ProtoReflect().Descriptor().FullName())))
	dst.Set(dst.Descriptor().Fields().ByName("value"), protoreflect.ValueOfBytes(b))
}

// holder fills every Any-carrying field of Holder.
func (t *histTarget) holder(which string) *dynamicpb.Message {
	h := dynamicpb.NewMessage(t.md("Holder"))
	fs := h.Descriptor().Fields()
	item := t.itemValue(which)
	setAny(h.Mutable(fs.ByName("payload")).Message(), item)
	l := h.Mutable(fs.ByName("payloads")).List()
	setAny(l.AppendMutable().Message(), item)
	setAny(l.AppendMutable().Message(), t.itemValue(which+"x"))
	mp := h.Mutable(fs.ByName("by_name")).Map()
	v := mp.NewValue()
	setAny(v.Message(), item)
	mp.Set(protoreflect.ValueOfString("k"+which).MapKey(), v)
	n := h.Mutable(fs.ByName("nested")).Message()
	setAny(n.Mutable(n.Descriptor().Fields().ByName("deep")).Message(), item)
	n.Set(n.Descriptor().Fields().ByName("note"), protoreflect.ValueOfString("n"+which))
	return h
}

var histShapes = map[string]string{"p": "payload", "l": "payloads", "m": "by_name", "n": "nested", "w": ""}

func shortHash(b []byte) string {
	s := sha256.Sum256(b)
	return hex.EncodeToString(s[:6])
}

func detHash(m proto.Message) string {
	b, err := proto.MarshalOptions{Deterministic: true}.Marshal(m)
	if err != nil {
		return "unmarshalable"
	}
	return shortHash(b)
}

// only keeps the field under test of a Holder (so that values are compared field by field)
func onlyField(t *histTarget, h *dynamicpb.Message, field string) *dynamicpb.Message {
	if field == "" {
		return h
	}
	out := dynamicpb.NewMessage(t.md("Holder"))
	fd := out.Descriptor().Fields().ByName(protoreflect.Name(field))
	if h.Has(fd) {
		out.Set(fd, h.Get(fd))
	}
	return out
}

func histBind(m *transcoding.JSONMarshaler, t *histTarget, field string, sse bool) (transcoding.HTTPRequestTranscoder, transcoding.HTTPResponseTranscoder, error) {
	tr := transcoding.NewStandardTranscoder(transcoding.StandardTranscoderOpts{Marshalers: []transcoding.Marshaler{m}, DefaultMarshaler: m})
	md := t.md("Holder")
	method := &bridgedesc.Method{RPCName: "/" + t.pkg + ".Svc/Get", Input: bridgedesc.DynamicMessage(md), Output: bridgedesc.DynamicMessage(md), ServerStreaming: true}
	hdr := http.Header{"Content-Type": []string{"application/json"}}
	if sse {
		hdr.Set("Accept", "text/event-stream")
	}
	reqPath := field
	if reqPath == "" {
		reqPath = "*"
	}
	return tr.Bind(transcoding.HTTPRequest{
		Target: t.target, Service: &bridgedesc.Service{Name: protoreflect.FullName(t.pkg + ".Svc")}, Method: method,
		Binding:    &bridgedesc.Binding{HTTPMethod: "POST", Pattern: "/x", RequestBodyPath: reqPath, ResponseBodyPath: field},
		RawRequest: &http.Request{Method: "POST", Header: hdr, URL: mustURL("/x")},
		PathParams: map[string]string{},
	})
}

// runHist executes one sequence (in the child process) and prints "<classes> <results> <refs>".
func runHist(arg string) string {
	parts := strings.Fields(arg)
	if len(parts) != 2 {
		return "BADHIST - -"
	}
	m := marshaler(parts[0]) // ONE marshaler for the whole process, as a bridge has
	targets := histTargets()
	var classes, results, refs []string
	for _, step := range strings.Split(parts[1], ",") {
		c, r, ref := histStep(m, targets, step)
		classes, results, refs = append(classes, c), append(results, r), append(refs, ref)
	}
	return strings.Join(classes, ";") + " " + strings.Join(results, ";") + " " + strings.Join(refs, ";")
}

func histStep(m *transcoding.JSONMarshaler, targets map[string]*histTarget, step string) (class, res, ref string) {
	defer func() {
		if r := recover(); r != nil {
			class, res = "err", "PANIC"
		}
	}()
	f := strings.Split(step, ".")
	if len(f) != 4 {
		return "err", "BADSTEP", "-"
	}
	t, ok := targets[f[0]]
	field, ok2 := histShapes[f[2]]
	if !ok || !ok2 {
		return "err", "BADSTEP", "-"
	}
	holder := t.holder(f[3])
	want := onlyField(t, holder, field)
	ref = detHash(want)
	own := protojson.UnmarshalOptions{Resolver: t.types}
	var fd protoreflect.FieldDescriptor
	if field != "" {
		fd = holder.Descriptor().Fields().ByName(protoreflect.Name(field))
	}
	// re-read an encoded body with the resolver of the step's own target
	reread := func(text []byte) (string, string) {
		got := dynamicpb.NewMessage(t.md("Holder"))
		doc := text
		if fd != nil {
			name, _ := json.Marshal(fd.JSONName())
			doc = append(append(append([]byte("{"), name...), ':'), append(bytes.TrimSpace(text), '}')...)
		}
		if err := own.Unmarshal(doc, got); err != nil {
			return "lossy", "UNREADABLE"
		}
		h := detHash(got)
		if h == ref {
			return "full", h
		}
		return "lossy", h
	}
	switch f[1] {
	case "u", "s", "x", "e":
		var text []byte
		var err error
		switch f[1] {
		case "e":
			var buf bytes.Buffer
			err = m.NewEncoder(t.types, &buf).Encode(holder, fd)
			text = buf.Bytes()
		case "u":
			var out transcoding.HTTPResponseTranscoder
			if _, out, err = histBind(m, t, field, false); err == nil {
				text, err = out.Transcode(holder)
			}
		default:
			var out transcoding.HTTPResponseTranscoder
			if _, out, err = histBind(m, t, field, f[1] == "x"); err == nil {
				st, ok := out.(transcoding.ResponseStreamTranscoder)
				if !ok {
					return "err", "NOSTREAM", ref
				}
				var buf bytes.Buffer
				err = st.Stream(&buf).Transcode(holder)
				text = bytes.TrimPrefix(bytes.TrimSpace(buf.Bytes()), []byte("data:"))
			}
		}
		if err != nil {
			return "err", "ERR", ref
		}
		class, res = reread(text)
		return class, res, ref
	case "d", "r":
		// the canonical text of the field, written with the target's own resolver
		full, err := protojson.MarshalOptions{Resolver: t.types}.Marshal(want)
		if err != nil {
			return "err", "REFERR", ref
		}
		text := full
		if fd != nil {
			var members map[string]json.RawMessage
			if json.Unmarshal(full, &members) != nil || members[fd.JSONName()] == nil {
				return "err", "REFERR", ref
			}
			text = members[fd.JSONName()]
		}
		got := dynamicpb.NewMessage(t.md("Holder"))
		if f[1] == "d" {
			err = m.NewDecoder(t.types, bytes.NewReader(text)).Decode(got, fd)
		} else {
			var in transcoding.HTTPRequestTranscoder
			if in, _, err = histBind(m, t, field, false); err == nil {
				err = in.Transcode(text, got)
			}
		}
		if err != nil {
			return "err", "ERR", ref
		}
		h := detHash(got)
		if h == ref {
			return "full", h, ref
		}
		return "lossy", h, ref
	}
	return "err", "BADPATH", ref
}

// ---- entry points of the root bridge ---------------------------------------------------------------------

type echoConn struct {
	mu       sync.Mutex
	received []proto.Message
}

func (c *echoConn) Stream(context.Context, string) (grpcadapter.ClientStream, error) {
	return &echoStream{c: c, got: make(chan struct{})}, nil
}
func (c *echoConn) Close() {}

type echoStream struct {
	c    *echoConn
	got  chan struct{}
	once sync.Once
	msg  proto.Message
	sent bool
}

func (s *echoStream) Send(_ context.Context, msg proto.Message) error {
	s.c.mu.Lock()
	s.c.received = append(s.c.received, proto.Clone(msg))
	s.c.mu.Unlock()
	s.once.Do(func() { s.msg = proto.Clone(msg); close(s.got) })
	return nil
}

func (s *echoStream) Recv(ctx context.Context, msg proto.Message) error {
	select {
	case <-s.got:
	case <-ctx.Done():
		return status.FromContextError(ctx.Err()).Err()
	}
	if s.sent {
		return io.EOF
	}
	s.sent = true
	proto.Reset(msg)
	proto.Merge(msg, s.msg)
	return nil
}
func (s *echoStream) Header() metadata.MD  { return nil }
func (s *echoStream) Trailer() metadata.MD { return nil }
func (s *echoStream) CloseSend()           {}
func (s *echoStream) Close()               {}

type entryRouter struct {
	conn  *echoConn
	unary routing.HTTPRoute
	ss    routing.HTTPRoute
}

func (r *entryRouter) RouteHTTP(req *http.Request) (grpcadapter.ClientConn, routing.HTTPRoute, error) {
	if strings.HasPrefix(req.URL.Path, "/stream") {
		return r.conn, r.ss, nil
	}
	return r.conn, r.unary, nil
}

func (r *entryRouter) RouteGRPC(context.Context) (grpcadapter.ClientConn, routing.GRPCRoute, error) {
	return nil, routing.GRPCRoute{}, status.Error(codes.Unimplemented, "c09: no gRPC routes")
}

func entryMarshaler(c byte) (*transcoding.JSONMarshaler, bool) {
	switch c {
	case 's':
		return &transcoding.JSONMarshaler{}, true
	case 'd':
		return &transcoding.JSONMarshaler{UnmarshalOptions: protojson.UnmarshalOptions{DiscardUnknown: true}}, true
	}
	return nil, false
}

func mustURL(p string) *url.URL { return &url.URL{Path: p} }

func execEntry(f []string) string {
	if len(f) != 6 || len(f[1]) != 3 {
		return "BADENTRY"
	}
	cfg, card, kind, key := f[1], f[2], f[3], f[4]
	text := common.MustUnHex(f[5])
	s := sch()
	bodyPath := "*"
	var fd protoreflect.FieldDescriptor
	if card != "msg" {
		fd = lookup(card, kind, key)
		if fd == nil {
			return "BADFIELD"
		}
		bodyPath = string(fd.Name())
	}
	var opts []grpcbridge.BridgeOption
	if m, ok := entryMarshaler(cfg[0]); ok {
		opts = append(opts, grpcbridge.WithMarshalers([]transcoding.Marshaler{m}))
	}
	if m, ok := entryMarshaler(cfg[1]); ok {
		opts = append(opts, grpcbridge.WithDefaultMarshaler(m))
	}
	withCT := cfg[2] == 'c'

	route := func(ss bool) routing.HTTPRoute {
		method := &bridgedesc.Method{RPCName: "/c09.S/M", Input: bridgedesc.DynamicMessage(s.md), Output: bridgedesc.DynamicMessage(s.md), ServerStreaming: ss}
		return routing.HTTPRoute{
			Target:  &bridgedesc.Target{Name: "t", FileResolver: s.files, TypeResolver: s.types},
			Service: &bridgedesc.Service{Name: "c09.S"}, Method: method,
			Binding: &bridgedesc.Binding{HTTPMethod: "POST", Pattern: "/x", RequestBodyPath: bodyPath, ResponseBodyPath: ""},
		}
	}
	show := func(msg proto.Message) string {
		if fd != nil && !isMsgKind(kind) {
			return "acc:" + showField(msg.ProtoReflect(), fd)
		}
		return "acc:" + detHash(msg)
	}
	// ONE bridge for all entry points, as deployed
	conn := &echoConn{}
	bridge := grpcbridge.NewWebBridge(&entryRouter{conn: conn, unary: route(false), ss: route(true)}, opts...)
	srv := httptest.NewServer(bridge)
	defer srv.Close()
	take := func() string {
		conn.mu.Lock()
		defer conn.mu.Unlock()
		if len(conn.received) == 0 {
			return "rej"
		}
		out := show(conn.received[0])
		conn.received = nil
		return out
	}
	hdr := http.Header{}
	if withCT {
		hdr.Set("Content-Type", "application/json")
	}
	doHTTP := func(path string, sse bool) string {
		req, err := http.NewRequest("POST", srv.URL+path, bytes.NewReader(text))
		if err != nil {
			return "REQERR"
		}
		for k, v := range hdr {
			req.Header[k] = v
		}
		if sse {
			req.Header.Set("Accept", "text/event-stream")
		}
		client := &http.Client{Timeout: 10 * time.Second, Transport: &http.Transport{DisableCompression: true}}
		defer client.CloseIdleConnections()
		resp, err := client.Do(req)
		if err != nil {
			return "DOERR"
		}
		_, _ = io.ReadAll(resp.Body)
		resp.Body.Close()
		return take()
	}
	doWS := func() string {
		dialer := websocket.Dialer{HandshakeTimeout: 5 * time.Second}
		c, _, err := dialer.Dial("ws"+strings.TrimPrefix(srv.URL, "http")+"/stream", hdr)
		if err != nil {
			return "DIALERR"
		}
		defer c.Close()
		c.SetCloseHandler(func(code int, _ string) error {
			_ = c.WriteControl(websocket.CloseMessage, websocket.FormatCloseMessage(code, ""), time.Now().Add(time.Second))
			return nil
		})
		if err := c.WriteMessage(websocket.TextMessage, text); err != nil {
			return "WRITEERR"
		}
		_ = c.SetReadDeadline(time.Now().Add(8 * time.Second))
		for {
			if _, _, err := c.ReadMessage(); err != nil {
				break
			}
		}
		return take()
	}
	results := []string{doHTTP("/unary", false), doHTTP("/stream", false), doHTTP("/stream", true), doWS()}

	// references: the single-shot Unmarshal with DiscardUnknown off / on (tied to the model by the dec / msg ops)
	ref := func(discard bool) string {
		m := &transcoding.JSONMarshaler{UnmarshalOptions: protojson.UnmarshalOptions{DiscardUnknown: discard}}
		msg := dynamicpb.NewMessage(s.md)
		if len(text) == 0 {
			return show(msg) // a completely empty body is a valid empty request
		}
		out := observe(func() error {
			var tfd protoreflect.FieldDescriptor = fd
			return m.Unmarshal(s.types, text, msg, tfd)
		}, func() string { return show(msg) })
		if out == "ERR" || out == "PANIC" {
			return "rej"
		}
		return out
	}
	raw, err := firstValue(json.NewDecoder(bytes.NewReader(text)))
	lc := &leafCollector{}
	tree := "!"
	if err == nil {
		tree = treeOf(raw, lc)
	}
	return strings.Join([]string{tokenizable(text), tree, fpTable(kind, lc.leaves), results[0], results[1], results[2], results[3], ref(false), ref(true)}, " ")
}

func isMsgKind(kind string) bool {
	for _, k := range msgKinds {
		if k == kind {
			return true
		}
	}
	return kind == "*"
}

var _ = errors.New
