package c09

import (
	"google.golang.org/protobuf/proto"
	"google.golang.org/protobuf/reflect/protodesc"
	"google.golang.org/protobuf/reflect/protoreflect"
	"google.golang.org/protobuf/reflect/protoregistry"
	"google.golang.org/protobuf/types/descriptorpb"
	"google.golang.org/protobuf/types/dynamicpb"
	_ "google.golang.org/protobuf/types/known/anypb"
	_ "google.golang.org/protobuf/types/known/durationpb"
	_ "google.golang.org/protobuf/types/known/emptypb"
	_ "google.golang.org/protobuf/types/known/fieldmaskpb"
	_ "google.golang.org/protobuf/types/known/structpb"
	_ "google.golang.org/protobuf/types/known/timestamppb"
	_ "google.golang.org/protobuf/types/known/wrapperspb"
)

// Scalar kinds of the model, by their line-protocol name.
var scalarKinds = []string{
	"bool", "int32", "sint32", "sfixed32", "int64", "sint64", "sfixed64",
	"uint32", "fixed32", "uint64", "fixed64", "float", "double", "string", "bytes", "enum", "nullvalue",
}

// Map key kinds (every kind proto3 permits).
var keyKinds = []string{
	"bool", "int32", "sint32", "sfixed32", "int64", "sint64", "sfixed64",
	"uint32", "fixed32", "uint64", "fixed64", "string",
}

// Message-typed fields (delegated to protojson by the code under test).
var msgKinds = []string{
	"BoolValue", "Int32Value", "Int64Value", "UInt32Value", "UInt64Value", "FloatValue", "DoubleValue",
	"StringValue", "BytesValue", "Duration", "Timestamp", "Struct", "Value", "ListValue", "FieldMask", "Empty", "Inner",
}

var cards = []string{"sing", "opt", "oneof", "rep", "map"}

var protoType = map[string]descriptorpb.FieldDescriptorProto_Type{
	"bool": descriptorpb.FieldDescriptorProto_TYPE_BOOL, "int32": descriptorpb.FieldDescriptorProto_TYPE_INT32,
	"sint32": descriptorpb.FieldDescriptorProto_TYPE_SINT32, "sfixed32": descriptorpb.FieldDescriptorProto_TYPE_SFIXED32,
	"int64": descriptorpb.FieldDescriptorProto_TYPE_INT64, "sint64": descriptorpb.FieldDescriptorProto_TYPE_SINT64,
	"sfixed64": descriptorpb.FieldDescriptorProto_TYPE_SFIXED64, "uint32": descriptorpb.FieldDescriptorProto_TYPE_UINT32,
	"fixed32": descriptorpb.FieldDescriptorProto_TYPE_FIXED32, "uint64": descriptorpb.FieldDescriptorProto_TYPE_UINT64,
	"fixed64": descriptorpb.FieldDescriptorProto_TYPE_FIXED64, "float": descriptorpb.FieldDescriptorProto_TYPE_FLOAT,
	"double": descriptorpb.FieldDescriptorProto_TYPE_DOUBLE, "string": descriptorpb.FieldDescriptorProto_TYPE_STRING,
	"bytes": descriptorpb.FieldDescriptorProto_TYPE_BYTES, "enum": descriptorpb.FieldDescriptorProto_TYPE_ENUM,
	"nullvalue": descriptorpb.FieldDescriptorProto_TYPE_ENUM,
}

// EnumTable is the enum `c09.E` of the run-time schema; the Lean driver holds the same table
// (GB.C09.Driver.enumE) — a mismatch shows up as DIFF on every enum case.
var EnumTable = []struct {
	Name string
	Num  int32
}{
	{"E_ZERO", 0}, {"E_ONE", 1}, {"E_TWO", 2}, {"E_UNO", 1}, {"E_NEG", -1}, {"E_MAX", 2147483647}, {"E_MIN", -2147483648}, {"true", 7}, {"NaN", 8},
}

type schema struct {
	files *protoregistry.Files
	types *dynamicpb.Types
	md    protoreflect.MessageDescriptor
}

func typeName(kind string) *string {
	switch kind {
	case "enum":
		return proto.String(".c09.E")
	case "nullvalue":
		return proto.String(".google.protobuf.NullValue")
	}
	return nil
}

func msgTypeName(k string) string {
	if k == "Inner" {
		return ".c09.Inner"
	}
	return ".google.protobuf." + k
}

// fieldName is the name of the field for (card, kind, key) in message c09.M.
func fieldName(card, kind, key string) string {
	if card == "map" {
		return "m_" + key + "_" + kind
	}
	return card + "_" + kind
}

// mapEntryName is the implicit map entry name protodesc demands (CamelCase(field) + "Entry").
func mapEntryName(s string) string {
	var b []byte
	up := true
	for _, c := range []byte(s) {
		switch {
		case c == '_':
			up = true
		case up:
			if 'a' <= c && c <= 'z' {
				c -= 32
			}
			b = append(b, c)
			up = false
		default:
			b = append(b, c)
		}
	}
	return string(b) + "Entry"
}

func buildSchema() (*schema, error) {
	lbl := func(rep bool) *descriptorpb.FieldDescriptorProto_Label {
		if rep {
			return descriptorpb.FieldDescriptorProto_LABEL_REPEATED.Enum()
		}
		return descriptorpb.FieldDescriptorProto_LABEL_OPTIONAL.Enum()
	}
	m := &descriptorpb.DescriptorProto{Name: proto.String("M")}
	m.OneofDecl = append(m.OneofDecl, &descriptorpb.OneofDescriptorProto{Name: proto.String("choice")})
	num := int32(0)
	next := func() *int32 { num++; return proto.Int32(num) }
	var optFields []*descriptorpb.FieldDescriptorProto
	addField := func(card, kind string, isMsg bool) {
		f := &descriptorpb.FieldDescriptorProto{Name: proto.String(fieldName(card, kind, "")), Number: next(), Label: lbl(card == "rep")}
		if isMsg {
			f.Type = descriptorpb.FieldDescriptorProto_TYPE_MESSAGE.Enum()
			f.TypeName = proto.String(msgTypeName(kind))
		} else {
			f.Type = protoType[kind].Enum()
			f.TypeName = typeName(kind)
		}
		switch card {
		case "oneof":
			f.OneofIndex = proto.Int32(0)
		case "opt":
			f.Proto3Optional = proto.Bool(true)
			optFields = append(optFields, f)
		}
		m.Field = append(m.Field, f)
	}
	addMap := func(key, kind string, isMsg bool) {
		entry := mapEntryName(fieldName("map", kind, key))
		e := &descriptorpb.DescriptorProto{Name: proto.String(entry), Options: &descriptorpb.MessageOptions{MapEntry: proto.Bool(true)}}
		e.Field = append(e.Field, &descriptorpb.FieldDescriptorProto{Name: proto.String("key"), Number: proto.Int32(1), Label: lbl(false), Type: protoType[key].Enum(), JsonName: proto.String("key")})
		v := &descriptorpb.FieldDescriptorProto{Name: proto.String("value"), Number: proto.Int32(2), Label: lbl(false), JsonName: proto.String("value")}
		if isMsg {
			v.Type = descriptorpb.FieldDescriptorProto_TYPE_MESSAGE.Enum()
			v.TypeName = proto.String(msgTypeName(kind))
		} else {
			v.Type = protoType[kind].Enum()
			v.TypeName = typeName(kind)
		}
		e.Field = append(e.Field, v)
		m.NestedType = append(m.NestedType, e)
		m.Field = append(m.Field, &descriptorpb.FieldDescriptorProto{Name: proto.String(fieldName("map", kind, key)), Number: next(), Label: lbl(true),
			Type: descriptorpb.FieldDescriptorProto_TYPE_MESSAGE.Enum(), TypeName: proto.String(".c09.M." + entry)})
	}
	// members of a oneof must be declared consecutively
	for _, k := range scalarKinds {
		addField("oneof", k, false)
	}
	for _, k := range msgKinds {
		addField("oneof", k, true)
	}
	for _, k := range scalarKinds {
		for _, c := range []string{"sing", "opt", "rep"} {
			addField(c, k, false)
		}
		for _, key := range keyKinds {
			addMap(key, k, false)
		}
	}
	for _, k := range msgKinds {
		for _, c := range []string{"sing", "rep"} {
			addField(c, k, true)
		}
		addMap("string", k, true)
		addMap("int32", k, true)
	}
	// proto3 optional fields need their synthetic oneofs, declared after the real ones
	for _, f := range optFields {
		f.OneofIndex = proto.Int32(int32(len(m.OneofDecl)))
		m.OneofDecl = append(m.OneofDecl, &descriptorpb.OneofDescriptorProto{Name: proto.String("_" + f.GetName())})
	}
	en := &descriptorpb.EnumDescriptorProto{Name: proto.String("E"), Options: &descriptorpb.EnumOptions{AllowAlias: proto.Bool(true)}}
	for _, v := range EnumTable {
		en.Value = append(en.Value, &descriptorpb.EnumValueDescriptorProto{Name: proto.String(v.Name), Number: proto.Int32(v.Num)})
	}
	inner := &descriptorpb.DescriptorProto{Name: proto.String("Inner"), Field: []*descriptorpb.FieldDescriptorProto{
		{Name: proto.String("a"), Number: proto.Int32(1), Label: lbl(false), Type: descriptorpb.FieldDescriptorProto_TYPE_INT32.Enum()},
		{Name: proto.String("e"), Number: proto.Int32(2), Label: lbl(false), Type: descriptorpb.FieldDescriptorProto_TYPE_ENUM.Enum(), TypeName: proto.String(".c09.E")},
		{Name: proto.String("s"), Number: proto.Int32(3), Label: lbl(true), Type: descriptorpb.FieldDescriptorProto_TYPE_STRING.Enum()},
	}}
	fdp := &descriptorpb.FileDescriptorProto{
		Name: proto.String("c09.proto"), Package: proto.String("c09"), Syntax: proto.String("proto3"),
		Dependency: []string{"google/protobuf/struct.proto", "google/protobuf/wrappers.proto", "google/protobuf/duration.proto",
			"google/protobuf/timestamp.proto", "google/protobuf/field_mask.proto", "google/protobuf/empty.proto"},
		MessageType: []*descriptorpb.DescriptorProto{m, inner},
		EnumType:    []*descriptorpb.EnumDescriptorProto{en},
	}
	set := &descriptorpb.FileDescriptorSet{}
	for _, dep := range fdp.Dependency {
		fd, err := protoregistry.GlobalFiles.FindFileByPath(dep)
		if err != nil {
			return nil, err
		}
		set.File = append(set.File, protodesc.ToFileDescriptorProto(fd))
	}
	set.File = append(set.File, fdp)
	files, err := protodesc.NewFiles(set)
	if err != nil {
		return nil, err
	}
	d, err := files.FindDescriptorByName("c09.M")
	if err != nil {
		return nil, err
	}
	return &schema{files: files, types: dynamicpb.NewTypes(files), md: d.(protoreflect.MessageDescriptor)}, nil
}
