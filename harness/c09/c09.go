// Package c09 corresponds the field-level JSON codec of transcoding/json.go (JSONMarshaler.Marshal /
// Unmarshal and the stream Encoder/Decoder) with the Lean model GB.C09, on schemas built at run time
// (descriptorpb → protodesc.NewFiles → dynamicpb): every scalar kind as singular / proto3-optional /
// oneof member / repeated / map value with every key kind, enums (with aliases), NullValue, wrappers and
// other well-known message types. The implementation-side oracle is the real protojson on {"f": <value>}.
//
// Line protocol: see lean/GB/C09/Driver.lean.
package c09

import (
	"bytes"
	"encoding/hex"
	"encoding/json"
	"errors"
	"fmt"
	"io"
	"math"
	"net/http"
	"net/url"
	"sort"
	"strconv"
	"strings"
	"sync"
	"unicode/utf8"

	"github.com/renbou/grpcbridge/bridgedesc"
	"github.com/renbou/grpcbridge/transcoding"
	"google.golang.org/protobuf/encoding/protojson"
	"google.golang.org/protobuf/proto"
	"google.golang.org/protobuf/reflect/protoreflect"
	"google.golang.org/protobuf/types/dynamicpb"
	"verif/harness/common"
)

type Area struct{}

func (Area) Name() string { return "c09" }

var (
	schemaOnce sync.Once
	theSchema  *schema
)

func sch() *schema {
	schemaOnce.Do(func() {
		s, err := buildSchema()
		if err != nil {
			panic("c09: schema: " + err.Error())
		}
		theSchema = s
	})
	return theSchema
}

func marshaler(opts string) *transcoding.JSONMarshaler {
	m := &transcoding.JSONMarshaler{}
	if strings.Contains(opts, "d") { // the settings of transcoding.DefaultJSONMarshaler
		m.MarshalOptions.EmitDefaultValues = true
		m.UnmarshalOptions.DiscardUnknown = true
	}
	if strings.Contains(opts, "n") {
		m.MarshalOptions.UseEnumNumbers = true
	}
	return m
}

// ---- JSON value tree as encoding/json tokenizes it -------------------------------------------------

// firstValue returns the raw bytes of the first JSON value of a stream, the way json.Decoder.Decode scans it.
func firstValue(dec *json.Decoder) (json.RawMessage, error) {
	var raw json.RawMessage
	err := dec.Decode(&raw)
	return raw, err
}

type leafCollector struct{ leaves []string }

// treeOf serialises a valid JSON value: tokens joined by ','.
func treeOf(raw []byte, lc *leafCollector) string {
	dec := json.NewDecoder(bytes.NewReader(raw))
	dec.UseNumber()
	var toks []string
	var rec func() bool
	rec = func() bool {
		t, err := dec.Token()
		if err != nil {
			return false
		}
		switch v := t.(type) {
		case nil:
			toks = append(toks, "z")
		case bool:
			if v {
				toks = append(toks, "t")
			} else {
				toks = append(toks, "f")
			}
		case json.Number:
			toks = append(toks, "n"+hex.EncodeToString([]byte(v)))
			lc.leaves = append(lc.leaves, string(v))
		case string:
			toks = append(toks, "s"+hex.EncodeToString([]byte(v)))
			lc.leaves = append(lc.leaves, v)
		case json.Delim:
			switch v {
			case '[':
				toks = append(toks, "[")
				for dec.More() {
					if !rec() {
						return false
					}
				}
				if _, err := dec.Token(); err != nil {
					return false
				}
				toks = append(toks, "]")
			case '{':
				toks = append(toks, "{")
				for dec.More() {
					kt, err := dec.Token()
					if err != nil {
						return false
					}
					ks, ok := kt.(string)
					if !ok {
						return false
					}
					toks = append(toks, "k"+hex.EncodeToString([]byte(ks)))
					if !rec() {
						return false
					}
				}
				if _, err := dec.Token(); err != nil {
					return false
				}
				toks = append(toks, "}")
			default:
				return false
			}
		}
		return true
	}
	if !rec() {
		return "!"
	}
	return strings.Join(toks, ",")
}

func showFloat(f float64, is32 bool) string {
	switch {
	case math.IsNaN(f):
		return "nan"
	case math.IsInf(f, 1):
		return "pinf"
	case math.IsInf(f, -1):
		return "ninf"
	}
	if is32 {
		return fmt.Sprintf("b%d", math.Float32bits(float32(f)))
	}
	return fmt.Sprintf("b%d", math.Float64bits(f))
}

// fpTable is strconv.ParseFloat on every leaf (the float environment the model is parametrised by).
func fpTable(kind string, leaves []string) string {
	if kind != "float" && kind != "double" {
		return "fp:"
	}
	bits := 64
	if kind == "float" {
		bits = 32
	}
	seen := map[string]bool{}
	var ents []string
	for _, l := range leaves {
		if seen[l] || len(ents) >= 64 {
			continue
		}
		seen[l] = true
		f, err := strconv.ParseFloat(l, bits)
		r := "-"
		if err == nil {
			r = showFloat(f, bits == 32)
		}
		ents = append(ents, hex.EncodeToString([]byte(l))+"="+r)
	}
	return "fp:" + strings.Join(ents, ";")
}

// ---- values -----------------------------------------------------------------------------------------

func showScalar(fd protoreflect.FieldDescriptor, v protoreflect.Value) string {
	switch fd.Kind() {
	case protoreflect.BoolKind:
		if v.Bool() {
			return "t"
		}
		return "f"
	case protoreflect.Int32Kind, protoreflect.Sint32Kind, protoreflect.Sfixed32Kind,
		protoreflect.Int64Kind, protoreflect.Sint64Kind, protoreflect.Sfixed64Kind:
		return fmt.Sprintf("i%d", v.Int())
	case protoreflect.Uint32Kind, protoreflect.Fixed32Kind, protoreflect.Uint64Kind, protoreflect.Fixed64Kind:
		return fmt.Sprintf("i%d", v.Uint())
	case protoreflect.FloatKind:
		return showFloat(v.Float(), true)
	case protoreflect.DoubleKind:
		return showFloat(v.Float(), false)
	case protoreflect.StringKind:
		return "s" + hex.EncodeToString([]byte(v.String()))
	case protoreflect.BytesKind:
		return "y" + hex.EncodeToString(v.Bytes())
	case protoreflect.EnumKind:
		return fmt.Sprintf("e%d", v.Enum())
	}
	return "?"
}

func showField(msg protoreflect.Message, fd protoreflect.FieldDescriptor) string {
	switch {
	case fd.IsList():
		l := msg.Get(fd).List()
		parts := make([]string, l.Len())
		for i := range parts {
			parts[i] = showScalar(fd, l.Get(i))
		}
		return "L" + strings.Join(parts, ",")
	case fd.IsMap():
		var parts []string
		msg.Get(fd).Map().Range(func(k protoreflect.MapKey, v protoreflect.Value) bool {
			parts = append(parts, showScalar(fd.MapKey(), k.Value())+"="+showScalar(fd.MapValue(), v))
			return true
		})
		sort.Strings(parts)
		return "M" + strings.Join(parts, ",")
	}
	return "S" + showScalar(fd, msg.Get(fd))
}

func hasFlag(card string, msg protoreflect.Message, fd protoreflect.FieldDescriptor) string {
	if card != "opt" && card != "oneof" {
		return "-"
	}
	if msg.Has(fd) {
		return "1"
	}
	return "0"
}

func parseScalar(fd protoreflect.FieldDescriptor, s string) (protoreflect.Value, error) {
	bad := fmt.Errorf("bad scalar %q for %v", s, fd.Kind())
	if s == "" {
		return protoreflect.Value{}, bad
	}
	num := func() (float64, bool) {
		is32 := fd.Kind() == protoreflect.FloatKind
		switch s {
		case "nan":
			return math.NaN(), true
		case "pinf":
			return math.Inf(1), true
		case "ninf":
			return math.Inf(-1), true
		}
		if s[0] != 'b' {
			return 0, false
		}
		n, err := strconv.ParseUint(s[1:], 10, 64)
		if err != nil {
			return 0, false
		}
		if is32 {
			return float64(math.Float32frombits(uint32(n))), true
		}
		return math.Float64frombits(n), true
	}
	switch fd.Kind() {
	case protoreflect.BoolKind:
		return protoreflect.ValueOfBool(s == "t"), nil
	case protoreflect.Int32Kind, protoreflect.Sint32Kind, protoreflect.Sfixed32Kind:
		n, err := strconv.ParseInt(s[1:], 10, 32)
		return protoreflect.ValueOfInt32(int32(n)), err
	case protoreflect.Int64Kind, protoreflect.Sint64Kind, protoreflect.Sfixed64Kind:
		n, err := strconv.ParseInt(s[1:], 10, 64)
		return protoreflect.ValueOfInt64(n), err
	case protoreflect.Uint32Kind, protoreflect.Fixed32Kind:
		n, err := strconv.ParseUint(s[1:], 10, 32)
		return protoreflect.ValueOfUint32(uint32(n)), err
	case protoreflect.Uint64Kind, protoreflect.Fixed64Kind:
		n, err := strconv.ParseUint(s[1:], 10, 64)
		return protoreflect.ValueOfUint64(n), err
	case protoreflect.FloatKind:
		f, ok := num()
		if !ok {
			return protoreflect.Value{}, bad
		}
		return protoreflect.ValueOfFloat32(float32(f)), nil
	case protoreflect.DoubleKind:
		f, ok := num()
		if !ok {
			return protoreflect.Value{}, bad
		}
		return protoreflect.ValueOfFloat64(f), nil
	case protoreflect.StringKind:
		b, err := hex.DecodeString(s[1:])
		return protoreflect.ValueOfString(string(b)), err
	case protoreflect.BytesKind:
		b, err := hex.DecodeString(s[1:])
		return protoreflect.ValueOfBytes(b), err
	case protoreflect.EnumKind:
		n, err := strconv.ParseInt(s[1:], 10, 32)
		return protoreflect.ValueOfEnum(protoreflect.EnumNumber(n)), err
	}
	return protoreflect.Value{}, bad
}

// setField stores the line-protocol field value into msg; returns the finite floats it contains.
func setField(msg protoreflect.Message, fd protoreflect.FieldDescriptor, f string) error {
	if f == "" {
		return errors.New("empty field")
	}
	body := f[1:]
	switch f[0] {
	case 'S':
		v, err := parseScalar(fd, body)
		if err != nil {
			return err
		}
		msg.Set(fd, v)
	case 'L':
		l := msg.Mutable(fd).List()
		if body == "" {
			return nil
		}
		for _, p := range strings.Split(body, ",") {
			v, err := parseScalar(fd, p)
			if err != nil {
				return err
			}
			l.Append(v)
		}
	case 'M':
		m := msg.Mutable(fd).Map()
		if body == "" {
			return nil
		}
		for _, p := range strings.Split(body, ",") {
			kv := strings.SplitN(p, "=", 2)
			if len(kv) != 2 {
				return errors.New("bad map entry")
			}
			k, err := parseScalar(fd.MapKey(), kv[0])
			if err != nil {
				return err
			}
			v, err := parseScalar(fd.MapValue(), kv[1])
			if err != nil {
				return err
			}
			m.Set(k.MapKey(), v)
		}
	default:
		return errors.New("bad field")
	}
	return nil
}

// ffTable is the encoding/json float formatter on every finite float (b<bits>) occurring in the value text.
func ffTable(kind, values string) string {
	ff := "ff:"
	if kind != "float" && kind != "double" {
		return ff
	}
	var ents []string
	seen := map[string]bool{}
	for _, p := range strings.FieldsFunc(values, func(r rune) bool { return r == ',' || r == '=' || r == ';' || r == 'L' || r == 'S' || r == 'M' }) {
		if len(p) > 1 && p[0] == 'b' && !seen[p] {
			seen[p] = true
			n, err := strconv.ParseUint(p[1:], 10, 64)
			if err != nil {
				continue
			}
			var t []byte
			if kind == "float" {
				if n > math.MaxUint32 {
					continue
				}
				t, _ = json.Marshal(math.Float32frombits(uint32(n)))
			} else {
				t, _ = json.Marshal(math.Float64frombits(n))
			}
			ents = append(ents, p[1:]+"="+hex.EncodeToString(t))
		}
	}
	return ff + strings.Join(ents, ";")
}

// joinBodies builds the stream text of a seq payload "<sep>:<hex>,<hex>,…" (sep: n newline, s space, c nothing,
// r CRLF, m alternating).
func joinBodies(payload string) ([]byte, bool) {
	i := strings.IndexByte(payload, ':')
	if i != 1 {
		return nil, false
	}
	seps := map[byte][]string{'n': {"\n"}, 's': {" "}, 'c': {""}, 'r': {"\r\n"}, 'm': {"\n", "  ", "\t\n\n", ""}}[payload[0]]
	if seps == nil {
		return nil, false
	}
	var out []byte
	for k, h := range strings.Split(payload[2:], ",") {
		b, err := hex.DecodeString(h)
		if err != nil {
			return nil, false
		}
		out = append(out, b...)
		out = append(out, seps[k%len(seps)]...)
	}
	return out, true
}

// bindTranscoder binds a StandardTranscoder whose request and response bodies are the field fd of c09.M.
func bindTranscoder(m *transcoding.JSONMarshaler, fd protoreflect.FieldDescriptor) (transcoding.HTTPRequestTranscoder, transcoding.HTTPResponseTranscoder, error) {
	s := sch()
	tr := transcoding.NewStandardTranscoder(transcoding.StandardTranscoderOpts{Marshalers: []transcoding.Marshaler{m}, DefaultMarshaler: m})
	method := &bridgedesc.Method{RPCName: "/c09.S/M", Input: bridgedesc.DynamicMessage(s.md), Output: bridgedesc.DynamicMessage(s.md), ClientStreaming: true, ServerStreaming: true}
	return tr.Bind(transcoding.HTTPRequest{
		Target:     &bridgedesc.Target{Name: "t", FileResolver: s.files, TypeResolver: s.types},
		Service:    &bridgedesc.Service{Name: "c09.S"},
		Method:     method,
		Binding:    &bridgedesc.Binding{HTTPMethod: "POST", Pattern: "/x", RequestBodyPath: string(fd.Name()), ResponseBodyPath: string(fd.Name())},
		RawRequest: &http.Request{Method: "POST", Header: http.Header{}, URL: &url.URL{Path: "/x"}},
		PathParams: map[string]string{},
	})
}

// ---- execution --------------------------------------------------------------------------------------

func lookup(card, kind, key string) protoreflect.FieldDescriptor {
	k := key
	if card != "map" {
		k = ""
	}
	return sch().md.Fields().ByName(protoreflect.Name(fieldName(card, kind, k)))
}

// observe runs fn and maps the outcome to ERR / PANIC / ok().
func observe(fn func() error, ok func() string) (out string) {
	defer func() {
		if r := recover(); r != nil {
			out = "PANIC"
		}
	}()
	if err := fn(); err != nil {
		return "ERR"
	}
	return ok()
}

func oracleDecode(opts, card string, fd protoreflect.FieldDescriptor, raw []byte, show func(protoreflect.Message) string) string {
	if raw == nil {
		return "ERR"
	}
	s := sch()
	msg := dynamicpb.NewMessage(s.md)
	name, _ := json.Marshal(fd.JSONName())
	wrapped := append(append(append([]byte("{"), name...), ':'), raw...)
	wrapped = append(wrapped, '}')
	return observe(func() error {
		return protojson.UnmarshalOptions{DiscardUnknown: strings.Contains(opts, "d"), Resolver: s.types}.Unmarshal(wrapped, msg)
	}, func() string { return show(msg) })
}

// tokenizable: both tokenizers (encoding/json, protojson) read the text the same way — valid UTF-8
// and no \uD8xx–\uDFxx escapes (encoding/json replaces lone surrogates, protojson rejects them).
func tokenizable(text []byte) string {
	if !utf8.Valid(text) {
		return "u0"
	}
	l := bytes.ToLower(text)
	if bytes.Contains(l, []byte(`\ud`)) {
		return "u0"
	}
	return "u1"
}

func (Area) Exec(input string) string {
	f := strings.Fields(input)
	if len(f) == 3 && f[0] == "hist" {
		return execHist(f[1], f[2])
	}
	if len(f) == 6 && f[0] == "entry" {
		return execEntry(f)
	}
	if len(f) != 6 {
		return "BADOP"
	}
	op, opts, card, kind, key := f[0], f[1], f[2], f[3], f[4]
	fd := lookup(card, kind, key)
	if fd == nil {
		return "BADFIELD"
	}
	s := sch()
	m := marshaler(opts)
	show := func(msg protoreflect.Message) string { return "OK:" + hasFlag(card, msg, fd) + ":" + showField(msg, fd) }
	switch op {
	case "dec":
		text := common.MustUnHex(f[5])
		raw, err := firstValue(json.NewDecoder(bytes.NewReader(text)))
		lc := &leafCollector{}
		tree := "!"
		if err == nil {
			tree = treeOf(raw, lc)
		} else {
			raw = nil
		}
		msg := dynamicpb.NewMessage(s.md)
		impl := observe(func() error { return m.Unmarshal(s.types, text, msg, fd) }, func() string { return show(msg) })
		oracle := oracleDecode(opts, card, fd, raw, show)
		return strings.Join([]string{tokenizable(text), tree, fpTable(kind, lc.leaves), impl, oracle}, " ")
	case "msg":
		text := common.MustUnHex(f[5])
		raw, err := firstValue(json.NewDecoder(bytes.NewReader(text)))
		if err != nil {
			raw = nil
		}
		showMsg := func(msg protoreflect.Message) string {
			b, err := proto.MarshalOptions{Deterministic: true}.Marshal(msg.Interface())
			if err != nil {
				return "OK:unmarshalable"
			}
			return "OK:" + hex.EncodeToString(b)
		}
		msg := dynamicpb.NewMessage(s.md)
		impl := observe(func() error { return m.Unmarshal(s.types, text, msg, fd) }, func() string { return showMsg(msg) })
		return impl + " " + oracleDecode(opts, card, fd, raw, showMsg)
	case "sdec":
		text := common.MustUnHex(f[5])
		// the trees of the successive values, by an independent decoder
		var trees, results []string
		lc := &leafCollector{}
		td := json.NewDecoder(bytes.NewReader(text))
		for len(trees) < 64 {
			raw, err := firstValue(td)
			if errors.Is(err, io.EOF) {
				break
			}
			if err != nil {
				trees = append(trees, "!")
				break
			}
			trees = append(trees, treeOf(raw, lc))
		}
		out := observe(func() error {
			dec := m.NewDecoder(s.types, bytes.NewReader(text))
			for len(results) < 64 {
				msg := dynamicpb.NewMessage(s.md)
				err := dec.Decode(msg, fd)
				if errors.Is(err, io.EOF) {
					break
				}
				if err != nil {
					results = append(results, "ERR")
					break
				}
				results = append(results, show(msg))
			}
			return nil
		}, func() string { return "" })
		if out == "PANIC" {
			results = append(results, "PANIC")
		}
		j := func(l []string) string {
			if len(l) == 0 {
				return "-"
			}
			return strings.Join(l, ";")
		}
		return strings.Join([]string{tokenizable(text), j(trees), fpTable(kind, lc.leaves), j(results)}, " ")
	case "seqd", "seqt":
		// a SEQUENCE of bodies for the same field on ONE stream decoder, each into a fresh message:
		// seqd = JSONMarshaler.NewDecoder, seqt = StandardTranscoder.Bind(...).(RequestStreamTranscoder).Stream(reader)
		stream, ok := joinBodies(f[5])
		if !ok {
			return "BADSEQ"
		}
		var trees, raws, results, oracles []string
		lc := &leafCollector{}
		td := json.NewDecoder(bytes.NewReader(stream))
		for len(trees) < 64 {
			raw, err := firstValue(td)
			if errors.Is(err, io.EOF) {
				break
			}
			if err != nil {
				trees = append(trees, "!")
				raws = append(raws, "")
				break
			}
			trees = append(trees, treeOf(raw, lc))
			raws = append(raws, string(raw))
		}
		var decodeNext func(msg protoreflect.Message) error
		if op == "seqd" {
			dec := m.NewDecoder(s.types, bytes.NewReader(stream))
			decodeNext = func(msg protoreflect.Message) error { return dec.Decode(msg, fd) }
		} else {
			in, _, err := bindTranscoder(m, fd)
			if err != nil {
				return "BINDFAIL"
			}
			st, ok := in.(transcoding.RequestStreamTranscoder)
			if !ok {
				return "NOSTREAM"
			}
			ts := st.Stream(bytes.NewReader(stream))
			decodeNext = func(msg protoreflect.Message) error { return ts.Transcode(msg.Interface()) }
		}
		for i := 0; i < len(trees); i++ {
			msg := dynamicpb.NewMessage(s.md)
			eof := false
			r := observe(func() error {
				err := decodeNext(msg)
				if errors.Is(err, io.EOF) {
					eof = true
				}
				return err
			}, func() string { return show(msg) })
			if eof {
				break
			}
			results = append(results, r)
			if r == "PANIC" {
				break
			}
		}
		for i, raw := range raws {
			if trees[i] == "!" {
				oracles = append(oracles, "ERR")
				continue
			}
			oracles = append(oracles, oracleDecode(opts, card, fd, []byte(raw), show))
		}
		j := func(l []string) string {
			if len(l) == 0 {
				return "-"
			}
			return strings.Join(l, ";")
		}
		return strings.Join([]string{tokenizable(stream), j(trees), fpTable(kind, lc.leaves), j(results), j(oracles)}, " ")
	case "sencd", "senct":
		// a SEQUENCE of values of the same field through ONE stream encoder; the bytes it wrote are then decoded
		// again by ONE stream decoder
		vals := strings.Split(f[5], ";")
		var buf bytes.Buffer
		var encodeNext func(msg protoreflect.Message) error
		if op == "sencd" {
			enc := m.NewEncoder(s.types, &buf)
			encodeNext = func(msg protoreflect.Message) error { return enc.Encode(msg, fd) }
		} else {
			_, out, err := bindTranscoder(m, fd)
			if err != nil {
				return "BINDFAIL - - - x"
			}
			st, ok := out.(transcoding.ResponseStreamTranscoder)
			if !ok {
				return "NOSTREAM - - - x"
			}
			ts := st.Stream(&buf)
			encodeNext = func(msg protoreflect.Message) error { return ts.Transcode(msg.Interface()) }
		}
		lc := &leafCollector{}
		status := observe(func() error {
			for _, v := range vals {
				msg := dynamicpb.NewMessage(s.md)
				if err := setField(msg, fd, v); err != nil {
					panic("bad value: " + err.Error())
				}
				if err := encodeNext(msg); err != nil {
					return err
				}
			}
			return nil
		}, func() string { return "OK" })
		if status != "OK" {
			return status + " ff: fp: - x"
		}
		stream := buf.Bytes()
		var trees, results []string
		td := json.NewDecoder(bytes.NewReader(stream))
		for len(trees) < 64 {
			raw, err := firstValue(td)
			if errors.Is(err, io.EOF) {
				break
			}
			if err != nil {
				trees = append(trees, "!")
				break
			}
			trees = append(trees, treeOf(raw, lc))
		}
		dec := m.NewDecoder(s.types, bytes.NewReader(stream))
		for len(results) < 64 {
			msg := dynamicpb.NewMessage(s.md)
			eof := false
			r := observe(func() error {
				err := dec.Decode(msg, fd)
				if errors.Is(err, io.EOF) {
					eof = true
				}
				return err
			}, func() string { return show(msg) })
			if eof {
				break
			}
			results = append(results, r)
			if r != "" && r[0] != 'O' {
				break
			}
		}
		j := func(l []string) string {
			if len(l) == 0 {
				return "-"
			}
			return strings.Join(l, ";")
		}
		return strings.Join([]string{j(trees), ffTable(kind, strings.Join(vals, ",")), fpTable(kind, lc.leaves), j(results), common.Hex(stream)}, " ")
	case "enc":
		msg := dynamicpb.NewMessage(s.md)
		if err := setField(msg, fd, f[5]); err != nil {
			return "BADVALUE"
		}
		// both the one-shot Marshal and the stream Encoder (which must write exactly Marshal + '\n')
		var text []byte
		lc := &leafCollector{}
		tree := observe(func() error {
			var err error
			text, err = m.Marshal(s.types, msg, fd)
			if err != nil {
				return err
			}
			var buf bytes.Buffer
			if err := m.NewEncoder(s.types, &buf).Encode(msg, fd); err != nil {
				return err
			}
			if !bytes.Equal(buf.Bytes(), append(append([]byte{}, text...), '\n')) {
				return errors.New("stream encoder output differs from Marshal")
			}
			return nil
		}, func() string {
			raw, err := firstValue(json.NewDecoder(bytes.NewReader(text)))
			if err != nil {
				return "ERR"
			}
			return treeOf(raw, lc)
		})
		rt, cd := "-", "-"
		if tree != "ERR" && tree != "PANIC" {
			back := dynamicpb.NewMessage(s.md)
			rt = observe(func() error { return m.Unmarshal(s.types, text, back, fd) }, func() string { return show(back) })
		}
		// what the canonical encoder (protojson) emits for the field
		var canonRaw []byte
		if full, err := (protojson.MarshalOptions{Resolver: s.types, EmitUnpopulated: true, UseEnumNumbers: strings.Contains(opts, "n")}).Marshal(msg.Interface()); err == nil {
			var members map[string]json.RawMessage
			if json.Unmarshal(full, &members) == nil {
				canonRaw = members[fd.JSONName()]
			}
		}
		if canonRaw != nil {
			back := dynamicpb.NewMessage(s.md)
			cd = observe(func() error { return m.Unmarshal(s.types, canonRaw, back, fd) }, func() string { return show(back) })
			treeOf(canonRaw, lc)
		}
		// float environment: the formatter on every finite float of the value, the parser on every leaf
		ff := ffTable(kind, f[5][1:])
		return strings.Join([]string{tree, ff, fpTable(kind, lc.leaves), rt, cd, common.Hex(text)}, " ")
	}
	return "BADOP"
}
