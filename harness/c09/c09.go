// Package c09 is the correspondence area of property C09 (stub: the slice is not built yet).
package c09

import (
	"math/rand"
)

type Area struct{}

func (Area) Name() string { return "c09" }

func (Area) Exec(input string) string { return "UNIMPLEMENTED" }

func (Area) Gen(r *rand.Rand, tier string, emit func(string)) {}
