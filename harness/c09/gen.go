package c09

import (
	"encoding/hex"
	"fmt"
	"math"
	"math/rand"
	"sort"
	"strings"

	"verif/harness/common"
)

// boundary number literals (each also offered quoted)
var numberTexts = []string{
	"0", "1", "-1", "-0", "2", "3", "7", "8", "100", "1.0", "1.5", "1.7", "-1.5", "1e2", "1E2", "1e+2", "1e-2", "100e-2", "150e-2", "1.50e1", "0.5", "-0.0", "0e5",
	"2147483647", "2147483648", "-2147483648", "-2147483649", "4294967295", "4294967296", "1099511627776",
	"9223372036854775807", "9223372036854775808", "-9223372036854775808", "-9223372036854775809",
	"18446744073709551615", "18446744073709551616", "9007199254740993", "2147483647.0", "2.147483648e9", "4294967295.5",
	"1e39", "-1e39", "3.4028235e38", "3.4028236e38", "3.5e38", "1e400", "-1e400", "1e-400", "1e-50", "1e10", "1e19", "1e20",
	"1.00000005960464477539062500000000000000000001", "0.1", "3.14", "16777217", "0.30000000000000004", "5e-324", "1.7976931348623157e308",
	"123456789012345678901234567890", "0e1001", "1e1001", "10e-1",
	// integral literals with a fraction/exponent above 2^53: canonical reads them exactly, a float64 detour would not
	"9007199254740993.0", "9.007199254740993e15", "9223372036854775807.0", "922337203685477580.7e1", "18446744073709551615.0", "-9223372036854775807.0",
}

// strings: non-numeric spellings, enum names, base64 variants, escapes (JSON source form, with quotes)
var stringTexts = []string{
	`""`, `" 1"`, `"1 "`, `"+1"`, `"01"`, `"0x10"`, `"0x1p-2"`, `"1_000"`, `"1e"`, `".5"`, `"1."`, `"1,5"`, `"1 2"`, `"--1"`,
	`"NaN"`, `"Infinity"`, `"-Infinity"`, `"+Infinity"`, `"inf"`, `"-inf"`, `"nan"`, `"Inf"`, `"infinity"`, `"INFINITY"`, `"-NaN"`, `"+Inf"`,
	`"E_ZERO"`, `"E_ONE"`, `"E_UNO"`, `"E_TWO"`, `"E_NEG"`, `"E_MAX"`, `"E_MIN"`, `"true"`, `"false"`, `"NOPE"`, `"e_one"`, `"E_ONE "`, `"NULL_VALUE"`, `"null"`,
	`"YQ=="`, `"YQ="`, `"YQ"`, `"YR=="`, `"YWI="`, `"YWJj"`, `"YWJjZA=="`, `"-_-_"`, `"+/+/"`, `"YQ\n=="`, `"YQ==\n"`, `"Y Q=="`, `"YQ==YQ=="`, `"=YQ="`, `"===="`, `"Y\rQ=\n="`, `"YWJ"`, `"Y"`, `"/w=="`, `"_w=="`,
	`"abc"`, `"a\u0001b"`, `"😀"`, `"\ud800"`, `"\udc00x"`, `"é"`, `"é"`, `"<>&"`, `"\""`, `"\\"`, `"\/"`, `" "`, `"\u0000"`, `"\b\f\n\r\t"`, "\"\xff\"", "\"\xc0\x80\"", "\"\xed\xa0\x80\"", `"\x"`, `"日本語"`,
}

var otherTexts = []string{
	"null", "true", "false", "[]", "{}", "[1]", "[[1]]", `{"a":1}`, "[1,2,255]", `[null]`, `{"a":null}`, `["a"]`, `[true]`, `[1,"2",3]`, `[{}]`, `{"1":1}`,
}

// malformed / stream-ish texts
var malformedTexts = []string{
	"", " ", "1 2", "1x", "1,", "[1", "[1,]", "{", `{"a"}`, `{"a":}`, `{"a":1,}`, "nul", "tru", "-", "+1", "01", ".5", "1.", "1e", "0x10", "NaN", "Infinity", "'a'", `"abc`, `"\u12"`, "\x00", "\xff", "1\n2", "]", "}", "[}", `{"a":1 "b":2}`, "\ufeff1",
	" 1", "1 ", "\n\t1\r\n", "[ 1 , 2 ]", `{ "a" : 1 }`,
}

// textLayerTexts exercise the JSON text layer (reader): white space, nesting, every escape, surrogate pairs and
// lone surrogates, well-formed / overlong / truncated / out-of-range UTF-8, number and literal edge cases,
// repeated names, trailing text, syntax errors
var textLayerTexts = []string{
	"\t\r\n 1", " [ ] ", " { } ", "[[[]]]", `[[1,[2,[3,[]]]],{}]`, `{"a":{"b":[1,{"c":null}]}}`, `{"a" :1 , "b": 2}`, "{\n\"a\"\t:\r\n[\n1\n,\n2\n]\n}",
	strings.Repeat("[", 60) + strings.Repeat("]", 60), strings.Repeat(`{"a":`, 40) + "1" + strings.Repeat("}", 40), strings.Repeat("[", 30) + strings.Repeat("]", 29),
	`"\b\f\n\r\t\/\\\""`, `"\u00E9\u00e9\u00Aa"`, `"\ud83d\ude00"`, `"\uD83D\uDE00"`, `"\ude00\ud83d"`, `"\ud83d\u0041"`, `"\ud83dx"`, `"\ud83d\ud83d\ude00"`, `"\uDBFF\uDFFF"`, `"\ud800\udc00"`,
	`"\udfff"`, `"\ud83d\n"`, `"\ud83d\ude0"`, `"\ud83d\uzzzz"`, `"\u0000"`, `"\u001f\u007f\u0080"`, `"\u2028\u2029"`, `"\uFFFD\ufffe\uffff"`, `"\u12"`, `"\u12g4"`, `"\x41"`, `"\'"`, `"\a"`, `"\`, `"abc\"`,
	"\"\xc3\xa9\xe2\x82\xac\xf0\x9f\x98\x80\"", "\"\xc0\xaf\"", "\"\xe0\x80\xaf\"", "\"\xed\xa0\x80\"", "\"\xed\x9f\xbf\"", "\"\xf4\x8f\xbf\xbf\"", "\"\xf4\x90\x80\x80\"", "\"\xf5\x80\x80\x80\"",
	"\"\xe2\x82\"", "\"\xf0\x9f\x98\"", "\"\xc3\"", "\"a\x80b\"", "\"\xe2\x80\xa8\xe2\x80\xa9\"", "\"\xef\xbf\xbd\"", "\"\xe0\xa0\x80\xf0\x90\x80\x80\xc2\x80\"", "\"\x7f\"", "\"\x1f\"", "\"\t\"",
	"-0", "0.0e+0", "1E5", "1e-0", "-", "1e", "1e+", "1e+x", "00", "-01", "-00", "0.", "0.e1", ".1", "-.1", "1.2.3", "1e2e3", "0x", "1-", "--1", "+", "1_0", "12 34", "1\n2",
	"tru", "truex", "true1", "nulll", "nul", "falsey", "fals", "True", "NULL", "t", "n",
	"[1]x", "{}[", `"a""b"`, "[1][2]", `{}{}`, "{,}", `{"a":1,}`, `{"a"}`, `{"a":}`, "{1:2}", "{\"a\" 1}", "[1 2]", "[,1]", "[1,,2]", "[1;2]", `{"a":1;"b":2}`, `{"a":1 "b":2}`, "[", "{", `{"a"`, `{"a":`, `{"a":1`, `["a`, "]", "}", ",", ":",
	`{"a":1,"a":2,"b":3,"a":4}`, `{"":1,"":2}`, `{"\u0061":1,"a":2}`, `[{"a":1,"a":2}]`, `{"a":{"b":1,"b":2}}`,
}

var mapKeys = []string{
	``, `a`, `true`, `false`, `True`, `TRUE`, `1`, `0`, `-0`, `-1`, `+1`, `01`, `1.0`, `1e2`, `2147483647`, `2147483648`, `-2147483648`, `-2147483649`, `4294967295`, `4294967296`,
	`9223372036854775807`, `9223372036854775808`, `-9223372036854775808`, `18446744073709551615`, `18446744073709551616`, `a\u0001b`, `é`, `😀`, `\ud800`, "\xff", ` 1`, `1 `, `é`, `\u0007`, `\u000b`, `\u007f`, `\u0080`, `\"`, `\\`, `1_0`, `0x1`, `NaN`,
}

func quoted(s string) string { return `"` + s + `"` }

// valueTextsFor returns the value-directed stream of one kind: everything relevant first.
func valueTextsFor(kind string) []string {
	var out []string
	out = append(out, otherTexts...)
	out = append(out, numberTexts...)
	for _, n := range numberTexts {
		out = append(out, quoted(n))
	}
	out = append(out, stringTexts...)
	return out
}

// a short list of representative texts for a kind, used inside containers / map values
func shortTextsFor(kind string) []string {
	base := []string{"null", "true", "1", `"1"`, "1.5", `"abc"`, "[]", "{}", "-1"}
	switch kind {
	case "bool":
		return append(base, "false", `"true"`)
	case "int32", "sint32", "sfixed32":
		return append(base, "2147483647", "2147483648", "-2147483648", "1e2", "1.0", `"-5"`, `" 1"`)
	case "int64", "sint64", "sfixed64":
		return append(base, "9223372036854775807", "9223372036854775808", `"-9223372036854775808"`, "1e2")
	case "uint32", "fixed32":
		return append(base, "4294967295", "4294967296", "-0", `"4294967295"`)
	case "uint64", "fixed64":
		return append(base, "18446744073709551615", "18446744073709551616", `"18446744073709551615"`)
	case "float":
		return append(base, "1e39", `"NaN"`, `"Infinity"`, `"-Infinity"`, `"inf"`, "0.1", "16777217", `"1e39"`)
	case "double":
		return append(base, "1e400", `"NaN"`, `"Infinity"`, `"-Infinity"`, `"1e400"`, "0.1", "1e39")
	case "string":
		return append(base, `""`, `"a\u0001b"`, `"😀"`, "\"\xff\"", `"<>&"`)
	case "bytes":
		return append(base, `""`, `"YQ=="`, `"YQ"`, `"YWJj"`, `"-_-_"`, "[1,2]", `"YQ\n=="`)
	case "enum":
		return append(base, `"E_ONE"`, `"E_UNO"`, `"NOPE"`, "2", "3", "1.7", "2147483648", `"true"`, "-2147483648")
	case "nullvalue":
		return append(base, `"NULL_VALUE"`, "0", `"NOPE"`)
	}
	return base
}

// goodTextsFor: texts the kind accepts (three different values where the kind has them)
func goodTextsFor(kind string) []string {
	switch kind {
	case "bool":
		return []string{"true", "false", "true"}
	case "int32", "sint32", "sfixed32":
		return []string{"1", "-2147483648", `"7"`}
	case "int64", "sint64", "sfixed64":
		return []string{"1", `"-9223372036854775808"`, "9223372036854775807"}
	case "uint32", "fixed32":
		return []string{"1", "4294967295", `"7"`}
	case "uint64", "fixed64":
		return []string{"1", `"18446744073709551615"`, "7"}
	case "float":
		return []string{"1.5", `"NaN"`, "-0.1"}
	case "double":
		return []string{"1.5", `"-Infinity"`, "0.1"}
	case "string":
		return []string{`"x"`, `""`, `"a\u0001😀"`}
	case "bytes":
		return []string{`"YQ=="`, `""`, `"YWJj"`}
	case "enum":
		return []string{`"E_ONE"`, "2", `"E_NEG"`}
	case "nullvalue":
		return []string{"null", `"NULL_VALUE"`, "0"}
	}
	return []string{"1", "2", "3"}
}

var msgTexts = map[string][]string{
	"BoolValue":   {"true", "null", `"true"`, "1"},
	"Int32Value":  {"5", `"5"`, "null", "1.5", "2147483648", "1e2", "true"},
	"Int64Value":  {"5", `"5"`, "null", "1.5", "9223372036854775808", `"9223372036854775807"`},
	"UInt32Value": {"5", "-1", "4294967296", "null"},
	"UInt64Value": {"18446744073709551615", `"18446744073709551616"`, "null"},
	"FloatValue":  {"1.5", `"NaN"`, "1e39", `"Infinity"`, "null"},
	"DoubleValue": {"1.5", `"NaN"`, "1e400", `"-Infinity"`, "null"},
	"StringValue": {`"abc"`, "1", "null", `"\ud800"`},
	"BytesValue":  {`"YQ=="`, `"YQ"`, "[1]", "null"},
	"Duration":    {`"1s"`, `"1.5s"`, `"-0.000000001s"`, `"x"`, "1", "null", `"315576000001s"`},
	"Timestamp":   {`"2024-01-01T00:00:00Z"`, `"2024-01-01T00:00:00.5+01:00"`, `"x"`, "null", "1"},
	"Struct":      {"{}", `{"a":1,"b":[true,null,"x"]}`, "1", "null", `{"a":{"b":{}}}`},
	"Value":       {"1", `"a"`, "null", "true", "[]", "{}", "[1,[2]]", "1e400"},
	"ListValue":   {"[]", `[1,"a",null]`, "{}", "null"},
	"FieldMask":   {`"a,b"`, `"fooBar"`, `"a_b"`, "1", "null", `""`},
	"Empty":       {"{}", `{"a":1}`, "[]", "null", "1"},
	"Inner":       {"{}", `{"a":1,"e":"E_ONE","s":["x"]}`, `{"e":"NOPE"}`, `{"zzz":1}`, `{"a":1.5}`, `{"a":"1"}`, `{"e":1}`, `{"a":1,"a":2}`, "null", "[]", "1", `{"s":[null]}`, `{"a":null}`},
}

func (Area) Gen(r *rand.Rand, tier string, emit func(string)) {
	line := func(op, opts, card, kind, key, payload string) {
		if key == "" {
			key = "-"
		}
		emit(strings.Join([]string{op, opts, card, kind, key, payload}, " "))
	}
	text := func(op, opts, card, kind, key, t string) { line(op, opts, card, kind, key, common.HexS(t)) }
	bothOpts := []string{"d", "s"}

	// 1. decode, value-directed: every kind × every boundary text, singular forms
	for _, kind := range scalarKinds {
		for _, t := range valueTextsFor(kind) {
			for _, o := range bothOpts {
				text("dec", o, "sing", kind, "", t)
			}
			text("dec", "d", "opt", kind, "", t)
			text("dec", "s", "oneof", kind, "", t)
			text("dec", "d", "rep", kind, "", t)
			text("dec", "d", "rep", kind, "", "["+t+"]")
		}
		for _, t := range malformedTexts {
			text("dec", "d", "sing", kind, "", t)
			text("dec", "s", "rep", kind, "", t)
			text("dec", "d", "map", kind, "string", t)
		}
		short := shortTextsFor(kind)
		for _, a := range short {
			for _, b := range short {
				text("dec", "d", "rep", kind, "", "["+a+","+b+"]")
			}
			text("dec", "s", "rep", kind, "", "["+a+"]")
		}
		// maps: every key kind × key spellings × representative values
		for _, kk := range keyKinds {
			for _, k := range mapKeys {
				text("dec", "d", "map", kind, kk, "{"+quoted(k)+":"+short[2]+"}")
			}
			for _, v := range short {
				key := "1"
				if kk == "bool" {
					key = "true"
				}
				for _, o := range bothOpts {
					text("dec", o, "map", kind, kk, "{"+quoted(key)+":"+v+"}")
				}
			}
			// several entries, repeated names, names denoting the same key
			text("dec", "d", "map", kind, kk, `{"0":`+short[2]+`,"-0":`+short[3]+`}`)
			text("dec", "d", "map", kind, kk, `{"1":`+short[2]+`,"1":`+short[3]+`}`)
			text("dec", "d", "map", kind, kk, `{"1":`+short[2]+`,"+1":`+short[3]+`,"01":`+short[2]+`}`)
			text("dec", "d", "map", kind, kk, `{"true":`+short[2]+`,"false":`+short[3]+`,"2":`+short[2]+`}`)
			text("dec", "d", "map", kind, kk, `{"a":`+short[2]+`,"b":`+short[4]+`}`)
			text("dec", "d", "map", kind, kk, "null")
			text("dec", "d", "map", kind, kk, "[]")
			text("dec", "d", "map", kind, kk, "{}")
		}
	}

	// 1b. the JSON text layer (the Lean reader is cross-checked against the real tokenizer on every case)
	for _, t := range textLayerTexts {
		for _, kc := range [][3]string{{"string", "sing", ""}, {"int32", "sing", ""}, {"double", "opt", ""}, {"string", "rep", ""}, {"bytes", "rep", ""},
			{"string", "map", "string"}, {"int64", "map", "int32"}, {"enum", "oneof", ""}, {"bool", "map", "bool"}} {
			text("dec", "d", kc[1], kc[0], kc[2], t)
		}
		text("dec", "s", "rep", "string", "", "["+t+"]")
		text("dec", "s", "map", "string", "string", `{"k":`+t+`}`)
		text("dec", "d", "map", "int32", "string", "{"+t+":1}")
		text("sdec", "d", "sing", "string", "", t+"\n"+t+" "+t)
	}

	// 2. message-typed fields (delegation to protojson)
	for _, kind := range msgKinds {
		for _, t := range msgTexts[kind] {
			for _, o := range bothOpts {
				text("msg", o, "sing", kind, "", t)
				text("msg", o, "oneof", kind, "", t)
				text("msg", o, "rep", kind, "", "["+t+"]")
				text("msg", o, "rep", kind, "", "["+t+","+t+"]")
				text("msg", o, "map", kind, "string", `{"a":`+t+`}`)
				text("msg", o, "map", kind, "int32", `{"1":`+t+`,"-2":`+t+`}`)
			}
			text("msg", "d", "rep", kind, "", t)
			text("msg", "d", "map", kind, "int32", `{"x":`+t+`}`)
			text("msg", "d", "map", kind, "string", `{"a\u0001":`+t+`}`)
		}
		for _, t := range malformedTexts {
			text("msg", "d", "sing", kind, "", t)
		}
	}

	// 3. encode → decode round trips and canonical acceptance, boundary values per kind
	for _, kind := range scalarKinds {
		vals := boundaryValues(kind)
		for _, v := range vals {
			for _, o := range []string{"d", "s", "dn"} {
				line("enc", o, "sing", kind, "", "S"+v)
			}
			line("enc", "d", "opt", kind, "", "S"+v)
			line("enc", "s", "oneof", kind, "", "S"+v)
			line("enc", "d", "rep", kind, "", "L"+v)
		}
		line("enc", "d", "rep", kind, "", "L")
		line("enc", "s", "rep", kind, "", "L")
		line("enc", "d", "rep", kind, "", "L"+strings.Join(vals, ","))
		for _, kk := range keyKinds {
			keys := boundaryValues(kk)
			var ents []string
			for i, k := range keys {
				ents = append(ents, k+"="+vals[i%len(vals)])
				line("enc", "d", "map", kind, kk, "M"+k+"="+vals[(i*7+3)%len(vals)])
			}
			line("enc", "d", "map", kind, kk, "M"+strings.Join(ents, ","))
			line("enc", "s", "map", kind, kk, "M")
		}
	}

	// 4. streams: several values on one reader
	for _, kind := range scalarKinds {
		short := shortTextsFor(kind)
		for i := range short {
			a, b, c := short[i], short[(i+1)%len(short)], short[(i+3)%len(short)]
			text("sdec", "d", "sing", kind, "", a+"\n"+b+"\n"+c+"\n")
			text("sdec", "s", "rep", kind, "", "["+a+"] ["+b+"]\n["+c+"]")
			text("sdec", "d", "map", kind, "string", `{"k":`+a+`}{"k":`+b+`,"l":`+c+`}`)
			text("sdec", "d", "sing", kind, "", a+" "+b+" [")
		}
		text("sdec", "d", "sing", kind, "", "")
		text("sdec", "d", "sing", kind, "", "   \n")
	}

	// 4b. sequences of bodies on ONE stream decoder / encoder (state must not leak from one body to the next):
	// maps whose later bodies lack keys of earlier ones, empty and null bodies, errors in the middle, unknown enum names
	seq := func(op, opts, card, kind, key string, sep byte, bodies ...string) {
		hs := make([]string, len(bodies))
		for i, b := range bodies {
			hs[i] = hex.EncodeToString([]byte(b))
		}
		line(op, opts, card, kind, key, string(sep)+":"+strings.Join(hs, ","))
	}
	seqKeys := func(kk string) [3]string {
		switch kk {
		case "bool":
			return [3]string{"true", "false", "true"}
		case "string":
			return [3]string{"a", "b", "c\\u0001"}
		}
		return [3]string{"1", "2", "3"}
	}
	for _, kind := range scalarKinds {
		short := shortTextsFor(kind)
		good := goodTextsFor(kind)
		g0, g1, g2 := good[0], good[1%len(good)], good[2%len(good)]
		bad := short[5] // "abc": wrong for every kind but string
		if kind == "string" {
			bad = "1"
		}
		for _, op := range []string{"seqd", "seqt"} {
			for _, kk := range keyKinds {
				k := seqKeys(kk)
				obj := func(pairs ...string) string {
					var sb strings.Builder
					sb.WriteByte('{')
					for i := 0; i+1 < len(pairs); i += 2 {
						if i > 0 {
							sb.WriteByte(',')
						}
						sb.WriteString(quoted(pairs[i]) + ":" + pairs[i+1])
					}
					sb.WriteByte('}')
					return sb.String()
				}
				seq(op, "d", "map", kind, kk, 'n', obj(k[0], g0), obj(k[1], g1))
				seq(op, "s", "map", kind, kk, 'c', obj(k[0], g0, k[1], g1), "{}", obj(k[1], g2))
				seq(op, "d", "map", kind, kk, 's', obj(k[0], g0), obj(k[0], g1), obj(k[1], g2), "{}")
				seq(op, "d", "map", kind, kk, 'm', obj(k[0], g0), "null", obj(k[1], g1))
				seq(op, "d", "map", kind, kk, 'n', obj(k[0], g0), obj(k[1], bad), obj(k[1], g1))
				seq(op, "s", "map", kind, kk, 'r', obj(k[0], g0), "1", "[]", obj(k[1], g1))
				seq(op, "d", "map", kind, kk, 'n', obj(k[0], g0), obj("zz", g1), obj(k[1], g1))
				seq(op, "d", "map", kind, kk, 'n', obj(k[0], g0), obj(k[1], g1)+"x", obj(k[0], g2))
			}
			for _, o := range bothOpts {
				seq(op, o, "rep", kind, "", 'n', "["+g0+","+g1+"]", "["+g2+"]", "[]")
				seq(op, o, "rep", kind, "", 'c', "["+g0+","+g1+","+g2+"]", "[]", "["+g1+"]", "null", "["+g0+"]")
				seq(op, o, "rep", kind, "", 's', "["+g0+"]", "["+bad+"]", "["+g1+"]", "{}", "["+g2+"]")
				seq(op, o, "sing", kind, "", 'n', g0, g1, g2)
				seq(op, o, "sing", kind, "", 'm', g0, bad, g1, "null", g2)
				seq(op, o, "opt", kind, "", 'n', g0, "null", g1)
				seq(op, o, "oneof", kind, "", 's', g0, "[]", g1, "{}", g2)
			}
		}
		if kind == "enum" {
			for _, op := range []string{"seqd", "seqt"} {
				for _, o := range bothOpts {
					seq(op, o, "map", kind, "string", 'n', `{"a":"NOPE"}`, `{"b":"E_ONE"}`, `{"a":"E_TWO","c":"NOPE"}`, `{}`)
					seq(op, o, "rep", kind, "", 'n', `["NOPE","E_ONE"]`, `["E_TWO"]`, `["NOPE"]`, `[]`)
					seq(op, o, "sing", kind, "", 'n', `"E_ONE"`, `"NOPE"`, `"E_TWO"`)
					seq(op, o, "oneof", kind, "", 'n', `"E_ONE"`, `"NOPE"`, `2`)
				}
			}
		}
		// stream encoder: sequences of values, then decoded again by one stream decoder
		vals := boundaryValues(kind)
		v0, v1, v2 := vals[0], vals[1%len(vals)], vals[len(vals)-1]
		for _, op := range []string{"sencd", "senct"} {
			for _, o := range bothOpts {
				line(op, o, "sing", kind, "", "S"+v0+";S"+v1+";S"+v2)
				line(op, o, "oneof", kind, "", "S"+v2+";S"+v0)
				line(op, o, "rep", kind, "", "L"+v0+","+v1+";L;L"+v2+";L"+strings.Join(vals, ","))
			}
			for _, kk := range keyKinds {
				ks := boundaryValues(kk)
				ka, kb := ks[0], ks[1%len(ks)]
				line(op, "d", "map", kind, kk, "M"+ka+"="+v0+";M"+kb+"="+v1+";M;M"+ka+"="+v2)
				line(op, "s", "map", kind, kk, "M"+ka+"="+v0+","+kb+"="+v1+";M"+kb+"="+v2)
			}
		}
	}

	// 4c. glue: sequences of codec uses over several descriptor sets (each in a fresh child process), and the same
	// option-sensitive bodies through every entry point of a bridge built by the root constructor
	histTargetsL := []string{"a1", "a2", "b"}
	histShapesL := []string{"p", "l", "m", "n", "w"}
	hi := 0
	nextShape := func() string { hi++; return histShapesL[hi%len(histShapesL)] }
	for _, t1 := range histTargetsL {
		for _, t2 := range histTargetsL {
			if t1 == t2 {
				continue
			}
			for _, p1 := range []string{"s", "e", "x", "u"} {
				for _, p2 := range []string{"s", "e", "x", "u", "d", "r"} {
					if tier != "thorough" && (hi%3 == 1) && p1 != "s" {
						hi++
						continue
					}
					sh := nextShape()
					steps := t1 + "." + p1 + "." + sh + ".0," + t2 + "." + p2 + "." + nextShape() + ".1"
					if hi%2 == 0 {
						steps += "," + t1 + "." + p2 + "." + sh + ".1"
					}
					emit("hist " + bothOpts[hi%2] + " " + steps)
				}
			}
		}
	}
	nh := 40
	if tier == "thorough" {
		nh = 500
	}
	for i := 0; i < nh; i++ {
		k := 2 + r.Intn(4)
		steps := make([]string, k)
		for j := range steps {
			steps[j] = common.Pick(r, histTargetsL) + "." + common.Pick(r, []string{"s", "s", "e", "x", "u", "d", "r"}) + "." + common.Pick(r, histShapesL) + "." + common.Pick(r, []string{"0", "1"})
		}
		emit("hist " + common.Pick(r, bothOpts) + " " + strings.Join(steps, ","))
	}
	entryBodies := [][4]string{
		{"sing", "enum", "", `"NOPE"`}, {"sing", "enum", "", `"E_ONE"`}, {"oneof", "enum", "", `"NOPE"`}, {"opt", "enum", "", `"NOPE"`},
		{"rep", "enum", "", `["NOPE","E_ONE"]`}, {"map", "enum", "string", `{"a":"NOPE","b":"E_TWO"}`}, {"sing", "nullvalue", "", `"NOPE"`},
		{"sing", "int32", "", "1.5"}, {"sing", "int32", "", "7"}, {"sing", "string", "", `"x"`},
		{"sing", "Inner", "", `{"zzz":1}`}, {"sing", "Inner", "", `{"e":"NOPE","a":3}`}, {"oneof", "Inner", "", `{"e":"NOPE"}`}, {"rep", "Inner", "", `[{"zzz":1},{"a":2}]`},
		{"map", "Inner", "string", `{"a":{"e":"NOPE"}}`}, {"sing", "Struct", "", `{"a":1}`},
		{"msg", "*", "", `{"sing_enum":"NOPE"}`}, {"msg", "*", "", `{"oneof_enum":"NOPE"}`}, {"msg", "*", "", `{"rep_enum":["E_ONE","NOPE"]}`},
		{"msg", "*", "", `{"zzz":1}`}, {"msg", "*", "", `{"sing_Inner":{"zzz":1}}`}, {"msg", "*", "", `{"sing_int32":5}`}, {"msg", "*", "", `{"m_string_enum":{"a":"NOPE"}}`},
	}
	var entryCfgs []string
	for _, m := range "-sd" {
		for _, d := range "-sd" {
			for _, c := range "cn" {
				entryCfgs = append(entryCfgs, string([]rune{m, d, c}))
			}
		}
	}
	for _, b := range entryBodies {
		for _, cfg := range entryCfgs {
			line("entry", cfg, b[0], b[1], b[2], common.HexS(b[3]))
		}
	}
	ne := 60
	if tier == "thorough" {
		ne = 1500
	}
	for i := 0; i < ne; i++ {
		kind := common.Pick(r, []string{"enum", "enum", "nullvalue", "int32", "string", "double"})
		card := common.Pick(r, []string{"sing", "opt", "oneof", "rep", "map"})
		key, t := "", randText(r, kind)
		switch card {
		case "rep":
			t = "[" + t + "," + randText(r, kind) + "]"
		case "map":
			key = "string"
			t = `{"a":` + t + `,"b":` + randText(r, kind) + `}`
		}
		if strings.TrimSpace(t) == "" {
			t = "null"
		}
		line("entry", common.Pick(r, entryCfgs), card, kind, key, common.HexS(t))
	}

	// 5. seeded random
	n := 12000
	if tier == "thorough" {
		n = 400000
	}
	for i := 0; i < n; i++ {
		kind := common.Pick(r, scalarKinds)
		o := common.Pick(r, bothOpts)
		switch r.Intn(10) {
		case 0, 1: // random number literal, any singular card
			t := randNumber(r)
			if r.Intn(4) == 0 {
				t = quoted(t)
			}
			text("dec", o, common.Pick(r, []string{"sing", "opt", "oneof"}), kind, "", t)
		case 2: // random list
			k := r.Intn(5)
			parts := make([]string, k)
			for j := range parts {
				parts[j] = randText(r, kind)
			}
			text("dec", o, "rep", kind, "", "["+strings.Join(parts, ",")+"]")
		case 3: // random map
			kk := common.Pick(r, keyKinds)
			k := r.Intn(4)
			parts := make([]string, k)
			for j := range parts {
				parts[j] = quoted(randKey(r, kk)) + ":" + randText(r, kind)
			}
			text("dec", o, "map", kind, kk, "{"+strings.Join(parts, ",")+"}")
		case 4: // mutated text (malformed stream)
			t := []byte(randText(r, kind))
			for m := r.Intn(3); m >= 0 && len(t) > 0; m-- {
				switch r.Intn(3) {
				case 0:
					t[r.Intn(len(t))] = byte(r.Intn(256))
				case 1:
					p := r.Intn(len(t))
					t = append(t[:p], t[p+1:]...)
				default:
					p := r.Intn(len(t) + 1)
					t = append(t[:p], append([]byte{common.Pick(r, []byte("\"\\[]{},:0e.-+ \n\xff"))}, t[p:]...)...)
				}
			}
			text("dec", o, common.Pick(r, []string{"sing", "rep"}), kind, "", string(t))
		case 5: // random value text, singular
			text("dec", o, "sing", kind, "", randText(r, kind))
		case 6, 7: // random encode
			card := common.Pick(r, []string{"sing", "opt", "oneof", "rep", "map"})
			switch card {
			case "rep":
				k := r.Intn(5)
				parts := make([]string, k)
				for j := range parts {
					parts[j] = randValue(r, kind)
				}
				line("enc", o, card, kind, "", "L"+strings.Join(parts, ","))
			case "map":
				kk := common.Pick(r, keyKinds)
				seen := map[string]bool{}
				var parts []string
				for j := r.Intn(4); j > 0; j-- {
					k := randValue(r, kk)
					if seen[k] {
						continue
					}
					seen[k] = true
					parts = append(parts, k+"="+randValue(r, kind))
				}
				sort.Strings(parts)
				line("enc", o, card, kind, kk, "M"+strings.Join(parts, ","))
			default:
				line("enc", o, card, kind, "", "S"+randValue(r, kind))
			}
		case 8: // random sequence of bodies on one stream decoder
			if r.Intn(3) > 0 {
				card := common.Pick(r, []string{"sing", "opt", "oneof", "rep", "map", "map", "map"})
				kk := ""
				if card == "map" {
					kk = common.Pick(r, keyKinds)
				}
				n := 2 + r.Intn(4)
				bodies := make([]string, n)
				for j := range bodies {
					switch card {
					case "rep":
						m := r.Intn(4)
						parts := make([]string, m)
						for q := range parts {
							parts[q] = randText(r, kind)
						}
						bodies[j] = "[" + strings.Join(parts, ",") + "]"
					case "map":
						m := r.Intn(4)
						parts := make([]string, m)
						for q := range parts {
							key := randKey(r, kk)
							if r.Intn(2) == 0 {
								key = common.Pick(r, []string{"true", "false", "1", "2", "3", "a", "b", "-1", "0"})
							}
							v := randText(r, kind)
							if r.Intn(2) == 0 {
								v = common.Pick(r, goodTextsFor(kind))
							}
							parts[q] = quoted(key) + ":" + v
						}
						bodies[j] = "{" + strings.Join(parts, ",") + "}"
					default:
						bodies[j] = randText(r, kind)
					}
					if r.Intn(12) == 0 {
						bodies[j] = common.Pick(r, otherTexts)
					}
				}
				seq(common.Pick(r, []string{"seqd", "seqt"}), o, card, kind, kk, common.Pick(r, []byte("nsmr")), bodies...)
				continue
			}
			k := 1 + r.Intn(4)
			var sb strings.Builder
			for j := 0; j < k; j++ {
				sb.WriteString(randText(r, kind))
				sb.WriteString(common.Pick(r, []string{"\n", " ", "", "\r\n", "\n\n"}))
			}
			text("sdec", o, "sing", kind, "", sb.String())
		default: // message kinds with random texts of their pool
			mk := common.Pick(r, msgKinds)
			pool := msgTexts[mk]
			t := common.Pick(r, pool)
			switch r.Intn(3) {
			case 0:
				text("msg", o, "sing", mk, "", t)
			case 1:
				text("msg", o, "rep", mk, "", "["+t+","+common.Pick(r, pool)+"]")
			default:
				text("msg", o, "map", mk, "string", "{"+quoted(randKey(r, "string"))+":"+t+"}")
			}
		}
	}
}

func randDigits(r *rand.Rand, n int) string {
	b := make([]byte, n)
	for i := range b {
		b[i] = byte('0' + r.Intn(10))
	}
	if n > 1 && b[0] == '0' {
		b[0] = '1'
	}
	return string(b)
}

// randNumber: a JSON number literal near the interesting magnitudes
func randNumber(r *rand.Rand) string {
	var sb strings.Builder
	if r.Intn(3) == 0 {
		sb.WriteByte('-')
	}
	switch r.Intn(6) {
	case 0:
		sb.WriteString(randDigits(r, 1+r.Intn(4)))
	case 1:
		sb.WriteString(randDigits(r, 9+r.Intn(3)))
	case 2:
		sb.WriteString(randDigits(r, 18+r.Intn(4)))
	case 3: // around a power of two
		p := common.Pick(r, []uint{7, 8, 15, 16, 24, 31, 32, 53, 63})
		v := (uint64(1) << p) + uint64(r.Intn(5)) - 2
		sb.WriteString(fmt.Sprint(v))
	case 4:
		sb.WriteString(fmt.Sprint(uint64(math.MaxUint64) - uint64(r.Intn(3))))
	default:
		sb.WriteString(randDigits(r, 1+r.Intn(40)))
	}
	if r.Intn(3) == 0 {
		sb.WriteByte('.')
		if r.Intn(2) == 0 {
			sb.WriteString(strings.Repeat("0", 1+r.Intn(3)))
		} else {
			sb.WriteString(randDigits(r, 1+r.Intn(20)))
		}
	}
	if r.Intn(3) == 0 {
		sb.WriteByte(common.Pick(r, []byte("eE")))
		sb.WriteString(common.Pick(r, []string{"", "+", "-"}))
		sb.WriteString(fmt.Sprint(common.Pick(r, []int{0, 1, 2, 3, 9, 10, 19, 20, 38, 39, 45, 46, 308, 309, 324, 400, 1000, 1001})))
	}
	return sb.String()
}

func randJSONString(r *rand.Rand) string {
	var sb strings.Builder
	sb.WriteByte('"')
	for n := r.Intn(8); n > 0; n-- {
		switch r.Intn(8) {
		case 0:
			sb.WriteString(common.Pick(r, []string{`\n`, `\"`, `\\`, `\/`, `\t`, `\b`, `\f`, `\r`}))
		case 1:
			sb.WriteString(fmt.Sprintf(`\u%04x`, r.Intn(0x10000)))
		case 2:
			sb.WriteString(string(rune(0x80 + r.Intn(0x2000))))
		case 3:
			sb.WriteString(string(rune(0x10000 + r.Intn(0x1000))))
		case 4:
			if r.Intn(4) == 0 {
				sb.WriteByte(byte(0x80 + r.Intn(0x80))) // invalid UTF-8
			} else {
				sb.WriteByte('<')
			}
		default:
			sb.WriteByte(byte('a' + r.Intn(26)))
		}
	}
	sb.WriteByte('"')
	return sb.String()
}

var b64chars = []byte("ABCDEFGHIJKLMNOPQRSTUVWXYZabcdefghijklmnopqrstuvwxyz0123456789+/")

func randB64(r *rand.Rand) string {
	n := r.Intn(10)
	b := common.RandBytes(r, n, b64chars)
	s := string(b)
	switch r.Intn(5) {
	case 0:
		s += "="
	case 1:
		s += "=="
	case 2:
		if len(s) > 0 {
			p := r.Intn(len(s))
			s = s[:p] + common.Pick(r, []string{`\n`, `\r`, " ", "-", "_", "="}) + s[p:]
		}
	}
	return quoted(s)
}

// randText: a JSON text plausibly meant for the kind, mixed with texts of other kinds
func randText(r *rand.Rand, kind string) string {
	if r.Intn(6) == 0 {
		return common.Pick(r, otherTexts)
	}
	if r.Intn(8) == 0 {
		return randJSONString(r)
	}
	switch kind {
	case "bool":
		return common.Pick(r, []string{"true", "false", "null", `"true"`, "1", "0"})
	case "string":
		return randJSONString(r)
	case "bytes":
		return randB64(r)
	case "enum", "nullvalue":
		if r.Intn(2) == 0 {
			return common.Pick(r, stringTexts[26:40])
		}
		return common.Pick(r, []string{"0", "1", "2", "3", "-1", "7", "8", "9", "1.0", "1.7", "2147483647", "2147483648", "-2147483648", "-2147483649", "1e0", "null"})
	case "float", "double":
		if r.Intn(5) == 0 {
			return common.Pick(r, stringTexts[14:26])
		}
	}
	t := randNumber(r)
	if r.Intn(4) == 0 {
		t = quoted(t)
	}
	return t
}

func randKey(r *rand.Rand, kk string) string {
	if r.Intn(4) == 0 {
		return common.Pick(r, mapKeys)
	}
	switch kk {
	case "bool":
		return common.Pick(r, []string{"true", "false"})
	case "string":
		s := randJSONString(r)
		return s[1 : len(s)-1]
	}
	t := randNumber(r)
	if r.Intn(2) == 0 { // keep only the integer part
		t = strings.SplitN(strings.SplitN(strings.SplitN(t, ".", 2)[0], "e", 2)[0], "E", 2)[0]
	}
	return t
}

func f32(f float32) string { return showFloat(float64(f), true) }
func f64(f float64) string { return showFloat(f, false) }
func hx(s string) string   { return hex.EncodeToString([]byte(s)) }

// boundaryValues: line-protocol scalars of a kind (also used for map keys)
func boundaryValues(kind string) []string {
	switch kind {
	case "bool":
		return []string{"t", "f"}
	case "int32", "sint32", "sfixed32":
		return []string{"i0", "i1", "i-1", "i2147483647", "i-2147483648", "i100", "i-7"}
	case "int64", "sint64", "sfixed64":
		return []string{"i0", "i1", "i-1", "i9223372036854775807", "i-9223372036854775808", "i9007199254740993", "i2147483648", "i-2147483649"}
	case "uint32", "fixed32":
		return []string{"i0", "i1", "i4294967295", "i2147483648", "i10"}
	case "uint64", "fixed64":
		return []string{"i0", "i1", "i18446744073709551615", "i9223372036854775808", "i9007199254740993", "i4294967296"}
	case "float":
		return []string{f32(0), f32(float32(math.Copysign(0, -1))), f32(1), f32(-1.5), f32(0.1), f32(3.14), f32(math.MaxFloat32), f32(-math.MaxFloat32), f32(math.SmallestNonzeroFloat32),
			f32(1e21), f32(1e-7), f32(16777216), f32(1e20), "nan", "pinf", "ninf"}
	case "double":
		return []string{f64(0), f64(math.Copysign(0, -1)), f64(1), f64(-1.5), f64(0.1), f64(3.14159), f64(math.MaxFloat64), f64(-math.MaxFloat64), f64(math.SmallestNonzeroFloat64),
			f64(1e21), f64(1e-7), f64(9007199254740993), f64(1e20), f64(0.30000000000000004), "nan", "pinf", "ninf"}
	case "string":
		var ascii []byte
		for i := 0; i < 128; i++ {
			ascii = append(ascii, byte(i))
		}
		return []string{"s" + hex.EncodeToString(ascii), "s" + hx("\u2028\u2029\ufffd\U0001F600\u00e9\u0080\u07ff\u0800\uffff\U00010000\U0010ffff"),
			"s" + hx("\xc0\xaf\xe0\x80\xaf\xed\xa0\x80\xf4\x90\x80\x80\xe2\x82\xf0\x9f\x98"), "s" + hx("<script>&amp;</script>"),
			"s", "s" + hx("a"), "s" + hx("true"), "s" + hx("1"), "s" + hx("a\x01b"), "s" + hx("é"), "s" + hx("😀"), "s" + hx("<>&\"\\/"), "s" + hx("  "), "s" + hx("\x00"), "s" + hx("\x7f\u0080"), "s" + hx("a b"), "s" + hx("\xff"), "s" + hx("日本語")}
	case "bytes":
		return []string{"y", "y00", "y61", "y6162", "y616263", "y61626364", "yff", "yfbffbf", "y0001020304050607", "yfffefdfc"}
	case "enum":
		return []string{"e0", "e1", "e2", "e-1", "e7", "e8", "e3", "e2147483647", "e-2147483648", "e100"}
	case "nullvalue":
		return []string{"e0", "e1"}
	}
	return nil
}

func randValue(r *rand.Rand, kind string) string {
	if r.Intn(3) == 0 {
		return common.Pick(r, boundaryValues(kind))
	}
	switch kind {
	case "bool":
		return common.Pick(r, []string{"t", "f"})
	case "int32", "sint32", "sfixed32":
		return fmt.Sprintf("i%d", int32(r.Uint32()))
	case "int64", "sint64", "sfixed64":
		return fmt.Sprintf("i%d", int64(r.Uint64()))
	case "uint32", "fixed32":
		return fmt.Sprintf("i%d", r.Uint32())
	case "uint64", "fixed64":
		return fmt.Sprintf("i%d", r.Uint64())
	case "float":
		return f32(math.Float32frombits(r.Uint32()))
	case "double":
		if r.Intn(2) == 0 {
			return f64(float64(r.Intn(2000)-1000) / float64(1+r.Intn(1000)))
		}
		return f64(math.Float64frombits(r.Uint64()))
	case "string":
		var sb strings.Builder
		for n := r.Intn(6); n > 0; n-- {
			switch r.Intn(6) {
			case 0:
				sb.WriteRune(rune(r.Intn(0x20)))
			case 1:
				sb.WriteRune(rune(0x80 + r.Intn(0x3000)))
			case 2:
				sb.WriteRune(rune(0x10000 + r.Intn(0x10000)))
			case 3:
				sb.WriteByte(common.Pick(r, []byte("<>&\"\\/,=;:")))
			default:
				sb.WriteByte(byte('a' + r.Intn(26)))
			}
		}
		return "s" + hx(sb.String())
	case "bytes":
		return "y" + hex.EncodeToString(common.RandBytes(r, r.Intn(9), nil))
	case "enum":
		return fmt.Sprintf("e%d", r.Intn(12)-2)
	case "nullvalue":
		return "e0"
	}
	return "?"
}
