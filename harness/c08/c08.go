// Package c08 is the correspondence area of property C08 (stub: the slice is not built yet).
package c08

import (
	"math/rand"
)

type Area struct{}

func (Area) Name() string { return "c08" }

func (Area) Exec(input string) string { return "UNIMPLEMENTED" }

func (Area) Gen(r *rand.Rand, tier string, emit func(string)) {}
