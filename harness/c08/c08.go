// Package c08 corresponds the gRPC-Web bridges (webbridge/grpcweb.go) with the Lean model GB.C08.
//
// Every http/ws case runs THROUGH THE REAL HANDLERS: webbridge.GRPCWebBridge.ServeHTTP and
// webbridge.GRPCWebSocketBridge.ServeHTTP behind httptest servers (HTTP/1.1 and HTTP/2), with a fake
// routing.GRPCRouter, the real grpcadapter.ProxyForwarder (wrapped only to observe the ServerStream
// boundary and the call outcome) and a scripted target grpcadapter.ClientConn. Request bodies are
// generated frame sequences written through an io.Pipe with an explicit chunk pattern; WebSocket
// sessions use the gorilla/websocket client. The response bytes are emitted raw (for the Lean spec
// decoder) and decoded by the harness's own decoder (`gd=`), so both decoders check each other.
package c08

import (
	"encoding/json"
	"os"
	"path/filepath"
	"bufio"
	"bytes"
	"context"
	"crypto/tls"
	"encoding/binary"
	"encoding/hex"
	"errors"
	"fmt"
	"io"
	"math/rand"
	"net"
	"net/http"
	"net/http/httptest"
	"net/textproto"
	"net/url"
	"runtime"
	"sort"
	"strconv"
	"strings"
	"sync"
	"sync/atomic"
	"time"

	"github.com/gorilla/websocket"
	"github.com/renbou/grpcbridge"
	"github.com/renbou/grpcbridge/bridgedesc"
	"github.com/renbou/grpcbridge/bridgelog"
	"github.com/renbou/grpcbridge/grpcadapter"
	"github.com/renbou/grpcbridge/routing"
	"github.com/renbou/grpcbridge/transcoding"
	"github.com/renbou/grpcbridge/webbridge"
	"google.golang.org/grpc"
	"google.golang.org/grpc/codes"
	"google.golang.org/grpc/metadata"
	"google.golang.org/grpc/status"
	"google.golang.org/protobuf/encoding/protowire"
	"google.golang.org/protobuf/proto"
	"google.golang.org/protobuf/protoadapt"
	"google.golang.org/protobuf/reflect/protoregistry"
	"google.golang.org/protobuf/types/known/emptypb"
	"google.golang.org/protobuf/types/known/wrapperspb"

	"verif/harness/common"
)

type Area struct{}

func (Area) Name() string { return "c08" }

// ---------------------------------------------------------------------------------------------
// compact bytes: "x" + segments joined by "."; a segment is hex or "<hh>*<n>" (n copies of hh)

const rleMin = 24

func CB(b []byte) string {
	var sb strings.Builder
	sb.WriteByte('x')
	first := true
	sep := func() {
		if !first {
			sb.WriteByte('.')
		}
		first = false
	}
	lit := 0 // start of pending literal
	i := 0
	for i < len(b) {
		j := i
		for j < len(b) && b[j] == b[i] {
			j++
		}
		if j-i >= rleMin {
			if i > lit {
				sep()
				sb.WriteString(hex.EncodeToString(b[lit:i]))
			}
			sep()
			fmt.Fprintf(&sb, "%02x*%d", b[i], j-i)
			lit = j
		}
		i = j
	}
	if len(b) > lit {
		sep()
		sb.WriteString(hex.EncodeToString(b[lit:]))
	}
	return sb.String()
}

func UnCB(s string) []byte {
	if !strings.HasPrefix(s, "x") {
		panic("not compact bytes: " + s)
	}
	var out []byte
	for _, seg := range strings.Split(s[1:], ".") {
		if i := strings.IndexByte(seg, '*'); i >= 0 {
			bb, err := hex.DecodeString(seg[:i])
			n, err2 := strconv.Atoi(seg[i+1:])
			if err != nil || err2 != nil || len(bb) != 1 {
				panic("bad segment " + seg)
			}
			out = append(out, bytes.Repeat(bb, n)...)
		} else {
			bb, err := hex.DecodeString(seg)
			if err != nil {
				panic("bad segment " + seg)
			}
			out = append(out, bb...)
		}
	}
	return out
}

func cbList(bs [][]byte) string {
	if len(bs) == 0 {
		return "-"
	}
	ss := make([]string, len(bs))
	for i, b := range bs {
		ss[i] = CB(b)
	}
	return strings.Join(ss, ",")
}

func unList(s string) []string {
	if s == "-" || s == "" {
		return nil
	}
	return strings.Split(s, ",")
}

func unCBList(s string) [][]byte {
	var out [][]byte
	for _, x := range unList(s) {
		out = append(out, UnCB(x))
	}
	return out
}

func kvs(fields []string) map[string]string {
	m := map[string]string{}
	for _, f := range fields {
		if i := strings.IndexByte(f, '='); i > 0 {
			m[f[:i]] = f[i+1:]
		}
	}
	return m
}

// ---------------------------------------------------------------------------------------------
// message codecs: both are the identity between wire payload and message

// rawMsg is a legacy (APIv1) message with custom Marshal/Unmarshal: any byte string is a valid payload.
type rawMsg struct{ B []byte }

func (m *rawMsg) Reset()                   { m.B = nil }
func (m *rawMsg) String() string           { return fmt.Sprintf("raw[%d]", len(m.B)) }
func (*rawMsg) ProtoMessage()              {}
func (m *rawMsg) Marshal() ([]byte, error) { return m.B, nil }
func (m *rawMsg) Unmarshal(b []byte) error { m.B = append([]byte{}, b...); return nil }

type rawMessage struct{}

func (rawMessage) New() proto.Message { return protoadapt.MessageV2Of(&rawMsg{}) }

func messageType(codec string) bridgedesc.Message {
	if codec == "empty" {
		// exactly what ServiceRouter.RouteGRPC hands out (bridgedesc.DummyMethod): emptypb.Empty keeps the
		// payload as unknown fields, verbatim
		return bridgedesc.ConcreteMessage[emptypb.Empty]()
	}
	return rawMessage{}
}

// ---------------------------------------------------------------------------------------------
// scenario = one scripted call

type scenario struct {
	path   string
	kind   string
	rt     string
	rs     [][]byte
	fsCode uint32
	fsMsg  []byte
	tm     [][2]string
	hm     [][2]string // scripted response header metadata of the target (gRPC-WebSocket sessions)
	early  int
	delay  time.Duration // pause of the target between its last message and its final status
	method *bridgedesc.Method

	mu        sync.Mutex
	rv        []string
	tg        [][]byte
	te        string
	sd        [][]byte
	sdFail    int
	tr        string
	sh        string // what the forwarder handed to SetHeader
	fmd       string // metadata.FromIncomingContext inside Forward ("none" = Forward not entered)
	oc        string
	wake      chan struct{}
	closeSend bool
	done      chan struct{} // closed when ServeHTTP returned
	fwdDone   chan struct{} // closed when Forward returned
	sendIn    chan struct{} // closed when the first ServerStream.Send was entered
	sendOut   chan struct{} // closed when the first ServerStream.Send returned
	sendOnce  sync.Once
	sendOnce2 sync.Once
}

var (
	registry sync.Map // path -> *scenario
	seq      atomic.Int64
)

func newScenario(kv map[string]string) *scenario {
	id := seq.Add(1)
	sc := &scenario{kind: kv["k"], rt: kv["rt"], early: -1, te: "none", oc: "-", tr: "-", sh: "-", fmd: "none", wake: make(chan struct{}), done: make(chan struct{}),
		fwdDone: make(chan struct{}), sendIn: make(chan struct{}), sendOut: make(chan struct{})}
	switch {
	case kv["tr"] == "tws":
		sc.path = fmt.Sprintf("/c08t/M%d", id)
	case sc.rt == "real":
		sc.path = fmt.Sprintf("/c08.Unknown/M%d", id)
	default:
		sc.path = fmt.Sprintf("/c08.Svc/M%d", id)
	}
	sc.rs = unCBList(kv["rs"])
	if c, m, ok := strings.Cut(kv["fs"], ":"); ok {
		n, _ := strconv.ParseUint(c, 10, 32)
		sc.fsCode = uint32(n)
		sc.fsMsg = UnCB(m)
	}
	for _, it := range unList(kv["tm"]) {
		k, v, _ := strings.Cut(it, ":")
		sc.tm = append(sc.tm, [2]string{string(UnCB(k)), string(UnCB(v))})
	}
	for _, it := range unList(kv["hm"]) {
		k, v, _ := strings.Cut(it, ":")
		sc.hm = append(sc.hm, [2]string{string(UnCB(k)), string(UnCB(v))})
	}
	if kv["ea"] != "-" && kv["ea"] != "" {
		sc.early, _ = strconv.Atoi(kv["ea"])
	}
	if ms, err := strconv.Atoi(kv["dl"]); err == nil {
		sc.delay = time.Duration(ms) * time.Millisecond
	}
	mt := messageType(kv["cd"])
	if kv["tr"] == "tws" {
		mt = bridgedesc.ConcreteMessage[wrapperspb.StringValue]()
	}
	sc.method = &bridgedesc.Method{
		RPCName:         sc.path,
		Input:           mt,
		Output:          mt,
		ClientStreaming: sc.kind == "cs" || sc.kind == "bd",
		ServerStreaming: sc.kind == "ss" || sc.kind == "bd",
	}
	registry.Store(sc.path, sc)
	return sc
}

func lookup(path string) *scenario {
	v, ok := registry.Load(path)
	if !ok {
		return nil
	}
	return v.(*scenario)
}

func (sc *scenario) signal() { // with mu held
	close(sc.wake)
	sc.wake = make(chan struct{})
}

func errCode(err error) uint32 {
	return uint32(status.Convert(err).Code())
}

func outcome(err error) string {
	st := status.Convert(err)
	return fmt.Sprintf("%d:%s", uint32(st.Code()), CB([]byte(st.Message())))
}

// ---------------------------------------------------------------------------------------------
// fake router (+ the real ServiceRouter for rt=real), observing forwarder, scripted target

type emptyPool struct{}

func (emptyPool) Get(string) (grpcadapter.ClientConn, bool) { return nil, false }

var realRouter = routing.NewServiceRouter(emptyPool{}, routing.ServiceRouterOpts{})

type router struct{}

func (router) RouteGRPC(ctx context.Context) (grpcadapter.ClientConn, routing.GRPCRoute, error) {
	m, _ := grpc.Method(ctx)
	sc := lookup(m)
	if sc == nil {
		return nil, routing.GRPCRoute{}, status.Error(codes.Internal, "c08 harness: unknown scenario")
	}
	var err error
	switch {
	case sc.rt == "ok":
		return &targetConn{sc}, routing.GRPCRoute{
			Target:  &bridgedesc.Target{Name: "c08-target"},
			Service: &bridgedesc.Service{Name: "c08.Svc"},
			Method:  sc.method,
		}, nil
	case sc.rt == "real":
		_, _, err = realRouter.RouteGRPC(ctx)
		if err == nil {
			err = status.Error(codes.Internal, "c08 harness: real router routed an unknown service")
		}
	case strings.HasPrefix(sc.rt, "plain:"):
		err = errors.New(string(UnCB(sc.rt[len("plain:"):])))
	default:
		c, msg, _ := strings.Cut(sc.rt, ":")
		n, _ := strconv.ParseUint(c, 10, 32)
		err = status.Error(codes.Code(n), string(UnCB(msg)))
	}
	sc.mu.Lock()
	sc.oc = outcome(err)
	sc.mu.Unlock()
	return nil, routing.GRPCRoute{}, err
}

// httpRouter serves the transcoded bridge: POST /c08t/<id>, whole body = the request message
type httpRouter struct{}

func (httpRouter) RouteHTTP(r *http.Request) (grpcadapter.ClientConn, routing.HTTPRoute, error) {
	sc := lookup(r.URL.Path)
	if sc == nil {
		return nil, routing.HTTPRoute{}, status.Error(codes.NotFound, "c08 harness: unknown scenario")
	}
	return &targetConn{sc}, routing.HTTPRoute{
		Target:  &bridgedesc.Target{Name: "c08-target", FileResolver: protoregistry.GlobalFiles, TypeResolver: protoregistry.GlobalTypes},
		Service: &bridgedesc.Service{Name: "c08.Svc"},
		Method:  sc.method,
		Binding: &bridgedesc.Binding{HTTPMethod: r.Method, Pattern: r.URL.Path, RequestBodyPath: "*"},
	}, nil
}

// bothRouter is what grpcbridge.WebBridge wants: gRPC and HTTP routing
type bothRouter struct {
	router
	httpRouter
}

// extraHeaders: request headers that must not change where the root dispatcher sends a gRPC-Web POST
func extraHeaders(h http.Header, xh string) {
	switch xh {
	case "h2c": // HTTP/2 cleartext upgrade offer (curl --http2, Java HttpClient on http:// URLs)
		h.Set("Connection", "Upgrade, HTTP2-Settings")
		h.Set("Upgrade", "h2c")
		h.Set("HTTP2-Settings", "AAMAAABkAAQAoAAAAAIAAAAA")
	case "up": // the common nginx WebSocket snippet adds this to every proxied request
		h.Set("Connection", "upgrade")
	case "ka":
		h.Set("Connection", "keep-alive")
	case "text": // application/grpc-web-text (base64 body): not supported by the bridge, dispatched like application/grpc-web
		h.Set("Content-Type", "application/grpc-web-text")
	}
}

// recFwd runs the real forwarder and records what crosses the ServerStream interface and the outcome.
type recFwd struct{ inner grpcadapter.Forwarder }

func (f recFwd) Forward(ctx context.Context, p grpcadapter.ForwardParams) error {
	sc := lookup(p.Method.RPCName)
	p.Incoming = &recStream{inner: p.Incoming, sc: sc}
	// the request metadata exactly as ProxyForwarder.Forward reads it (keys sorted, values in order)
	if md, ok := metadata.FromIncomingContext(ctx); ok {
		keys := make([]string, 0, len(md))
		for k := range md {
			keys = append(keys, k)
		}
		sort.Strings(keys)
		var items []string
		for _, k := range keys {
			for _, v := range md[k] {
				items = append(items, CB([]byte(k))+":"+CB([]byte(v)))
			}
		}
		sc.mu.Lock()
		sc.fmd = "-"
		if len(items) > 0 {
			sc.fmd = strings.Join(items, ",")
		}
		sc.mu.Unlock()
	}
	err := f.inner.Forward(ctx, p)
	sc.mu.Lock()
	sc.oc = outcome(err)
	sc.mu.Unlock()
	close(sc.fwdDone)
	return err
}

type recStream struct {
	inner grpcadapter.ServerStream
	sc    *scenario
}

func (s *recStream) Recv(ctx context.Context, msg proto.Message) error {
	err := s.inner.Recv(ctx, msg)
	var rec string
	switch {
	case err == nil:
		b, _ := proto.Marshal(msg)
		rec = "m:" + CB(b)
	case errors.Is(err, io.EOF):
		rec = "eof"
	default:
		rec = fmt.Sprintf("e:%d", errCode(err))
	}
	s.sc.mu.Lock()
	s.sc.rv = append(s.sc.rv, rec)
	s.sc.mu.Unlock()
	return err
}

// Send records the messages the stream accepted (Send returned nil), in order.
func (s *recStream) Send(ctx context.Context, msg proto.Message) error {
	b, _ := proto.Marshal(msg)
	s.sc.sendOnce.Do(func() { close(s.sc.sendIn) })
	err := s.inner.Send(ctx, msg)
	s.sc.sendOnce2.Do(func() { close(s.sc.sendOut) })
	s.sc.mu.Lock()
	if err == nil {
		s.sc.sd = append(s.sc.sd, b)
	} else {
		s.sc.sdFail++
	}
	s.sc.mu.Unlock()
	return err
}

// SetHeader records the response header metadata the forwarder hands to the stream (flattened, sorted).
func (s *recStream) SetHeader(md metadata.MD) {
	var items []string
	for k, vs := range md {
		for _, v := range vs {
			items = append(items, CB([]byte(k))+":"+CB([]byte(v)))
		}
	}
	sort.Strings(items)
	s.sc.mu.Lock()
	s.sc.sh = "-"
	if len(items) > 0 {
		s.sc.sh = strings.Join(items, ",")
	}
	s.sc.mu.Unlock()
	s.inner.SetHeader(md)
}

// SetTrailer records the trailer metadata the forwarder hands to the stream (flattened, sorted).
func (s *recStream) SetTrailer(md metadata.MD) {
	var items []string
	for k, vs := range md {
		for _, v := range vs {
			items = append(items, CB([]byte(k))+":"+CB([]byte(v)))
		}
	}
	sort.Strings(items)
	s.sc.mu.Lock()
	s.sc.tr = "-"
	if len(items) > 0 {
		s.sc.tr = strings.Join(items, ",")
	}
	s.sc.mu.Unlock()
	s.inner.SetTrailer(md)
}

type targetConn struct{ sc *scenario }

func (c *targetConn) Stream(ctx context.Context, method string) (grpcadapter.ClientStream, error) {
	c.sc.mu.Lock()
	c.sc.te = "open"
	c.sc.mu.Unlock()
	return &targetStream{sc: c.sc}, nil
}
func (c *targetConn) Close() {}

// targetStream: records every request message; answers with the scripted responses and final status once
// the client side is closed (CloseSend), or — early mode — once `early` request messages have arrived.
type targetStream struct {
	sc   *scenario
	next int
}

func (t *targetStream) Send(ctx context.Context, msg proto.Message) error {
	b, err := proto.Marshal(msg)
	if err != nil {
		return err
	}
	t.sc.mu.Lock()
	t.sc.tg = append(t.sc.tg, b)
	t.sc.signal()
	t.sc.mu.Unlock()
	return nil
}

func (t *targetStream) Recv(ctx context.Context, msg proto.Message) error {
	for {
		t.sc.mu.Lock()
		ready := t.sc.closeSend || (t.sc.early >= 0 && len(t.sc.tg) >= t.sc.early)
		ch := t.sc.wake
		t.sc.mu.Unlock()
		if ready {
			break
		}
		select {
		case <-ch:
		case <-ctx.Done():
			return status.FromContextError(ctx.Err()).Err()
		}
	}
	if t.next < len(t.sc.rs) {
		b := t.sc.rs[t.next]
		t.next++
		return proto.Unmarshal(b, msg)
	}
	if t.sc.delay > 0 {
		select {
		case <-time.After(t.sc.delay):
		case <-ctx.Done():
		}
	}
	if t.sc.fsCode == 0 {
		return io.EOF
	}
	return status.Error(codes.Code(t.sc.fsCode), string(t.sc.fsMsg))
}

func (t *targetStream) Header() metadata.MD {
	md := metadata.MD{}
	for _, kv := range t.sc.hm {
		md.Append(kv[0], kv[1])
	}
	return md
}

func (t *targetStream) Trailer() metadata.MD {
	md := metadata.MD{}
	for _, kv := range t.sc.tm {
		md.Append(kv[0], kv[1])
	}
	return md
}

func (t *targetStream) CloseSend() {
	t.sc.mu.Lock()
	t.sc.closeSend = true
	t.sc.te = "eof"
	t.sc.signal()
	t.sc.mu.Unlock()
}

func (t *targetStream) Close() {}

// ---------------------------------------------------------------------------------------------
// servers

var (
	srvOnce sync.Once
	handler http.Handler // the bridges, for in-process calls with a controlled ResponseWriter
	srvH1   *httptest.Server
	srvRoot *httptest.Server // grpcbridge.WebBridge (root dispatcher) in front of the bridges
	srvH2   *httptest.Server
	cliH1   *http.Client
	cliH2   *http.Client
)

// trailer metadata keys the forwarder's filter lets through (the filter itself is C07's subject)
var allowTrailer = []string{"x-t", "x-u", "grpc-status", "grpc-message", "x-bin", "grpc-status-details-bin"}

// response header metadata keys the filter lets through: over gRPC-WebSocket they travel in the header frame (lpmTrailer)
var allowHeader = []string{"x-h", "x-h-bin"}

func servers() {
	srvOnce.Do(func() {
		fwd := recFwd{grpcadapter.NewProxyForwarder(grpcadapter.ProxyForwarderOpts{
			Filter: grpcadapter.NewProxyMDFilter(grpcadapter.ProxyMDFilterOpts{AllowTrailerMD: allowTrailer, AllowResponseMD: allowHeader}),
		})}
		opts := webbridge.GRPCWebBridgeOpts{Logger: bridgelog.Discard(), Forwarder: fwd}
		web := webbridge.NewGRPCWebBridge(router{}, opts)
		wsb := webbridge.NewGRPCWebSocketBridge(router{}, opts)
		h := http.HandlerFunc(func(w http.ResponseWriter, r *http.Request) {
			sc := lookup(r.URL.Path)
			if sc != nil {
				defer close(sc.done)
			}
			if strings.EqualFold(r.Header.Get("Upgrade"), "websocket") {
				wsb.ServeHTTP(w, r)
			} else {
				web.ServeHTTP(w, r)
			}
		})
		handler = h
		// the transcoded WebSocket bridge (for the non-reading-client comparison): JSON, StringValue in and out
		tws := webbridge.NewTranscodedWebSocketBridge(httpRouter{}, webbridge.TranscodedWebSocketBridgeOpts{
			Logger: bridgelog.Discard(), Forwarder: fwd, Transcoder: transcoding.NewStandardTranscoder(transcoding.StandardTranscoderOpts{}),
		})
		inner := h
		h = http.HandlerFunc(func(w http.ResponseWriter, r *http.Request) {
			if strings.HasPrefix(r.URL.Path, "/c08t/") {
				if sc := lookup(r.URL.Path); sc != nil {
					defer close(sc.done)
				}
				tws.ServeHTTP(w, r)
				return
			}
			inner.ServeHTTP(w, r)
		})
		srvH1 = httptest.NewServer(h)
		// the root dispatcher (bridge.go): grpcbridge.WebBridge in front of the same bridges, router and forwarder
		root := grpcbridge.NewWebBridge(bothRouter{}, grpcbridge.WithForwarder(fwd), grpcbridge.WithLogger(bridgelog.Discard()))
		srvRoot = httptest.NewServer(http.HandlerFunc(func(w http.ResponseWriter, r *http.Request) {
			if sc := lookup(r.URL.Path); sc != nil {
				defer close(sc.done)
			}
			root.ServeHTTP(w, r)
		}))
		cliH1 = &http.Client{Transport: &http.Transport{DisableKeepAlives: true}, Timeout: 120 * time.Second}
		srvH2 = httptest.NewUnstartedServer(h)
		srvH2.EnableHTTP2 = true
		srvH2.StartTLS()
		cliH2 = srvH2.Client()
		cliH2.Timeout = 120 * time.Second
		if tr, ok := cliH2.Transport.(*http.Transport); ok {
			tr.TLSClientConfig.InsecureSkipVerify = true
			_ = tls.VersionTLS12
		}
	})
}

// ---------------------------------------------------------------------------------------------
// client side encoders / decoder (independent of the bridge's code)

func encFrame(desc string) []byte {
	p := strings.SplitN(desc, ":", 3)
	fl, _ := hex.DecodeString(p[0])
	payload := UnCB(p[2])
	n := uint32(len(payload))
	if p[1] != "=" {
		v, _ := strconv.ParseUint(p[1], 10, 64)
		n = uint32(v)
	}
	out := make([]byte, 5, 5+len(payload))
	out[0] = fl[0]
	binary.BigEndian.PutUint32(out[1:], n)
	return append(out, payload...)
}

func encWSItem(desc string) []byte {
	switch {
	case desc == "f":
		return []byte{1}
	case strings.HasPrefix(desc, "d:"):
		p := UnCB(desc[2:])
		out := make([]byte, 6, 6+len(p))
		binary.BigEndian.PutUint32(out[2:], uint32(len(p)))
		return append(out, p...)
	case strings.HasPrefix(desc, "r:"):
		return UnCB(desc[2:])
	}
	panic("bad ws item " + desc)
}

// goDecode is the harness's own gRPC-Web response decoder: data frames, then exactly one trailer frame (last),
// trailer parsed as a MIME header block, grpc-message percent-decoded with net/url.
func goDecode(body []byte) string {
	n := 0
	var trailer []byte
	seen := false
	for len(body) > 0 {
		if seen || len(body) < 5 {
			return "bad"
		}
		l := int(binary.BigEndian.Uint32(body[1:5]))
		if len(body)-5 < l {
			return "bad"
		}
		switch body[0] {
		case 0x00:
			n++
		case 0x80:
			seen = true
			trailer = body[5 : 5+l]
		default:
			return "bad"
		}
		body = body[5+l:]
	}
	if !seen {
		return "bad"
	}
	// count raw lines per key, then read values through net/textproto
	hdr, err := textproto.NewReader(bufio.NewReader(bytes.NewReader(append(append([]byte{}, trailer...), '\r', '\n')))).ReadMIMEHeader()
	if err != nil {
		return "bad"
	}
	st, msg := hdr.Values("Grpc-Status"), hdr.Values("Grpc-Message")
	if len(st) != 1 || len(msg) != 1 {
		return "bad"
	}
	un, err := url.PathUnescape(msg[0])
	if err != nil {
		return "bad"
	}
	return fmt.Sprintf("ok:%d:%s:%s", n, common.HexS(st[0]), common.HexS(un))
}

// ---------------------------------------------------------------------------------------------
// Exec

func (Area) Exec(input string) string {
	f := strings.Fields(input)
	switch f[0] {
	case "esc":
		s := string(UnCB(f[1]))
		e := url.PathEscape(s)
		un, err := url.PathUnescape(e)
		if err != nil {
			return CB([]byte(e)) + " err"
		}
		return CB([]byte(e)) + " ok:" + common.HexS(un)
	case "unesc":
		un, err := url.PathUnescape(string(UnCB(f[1])))
		if err != nil {
			return "err"
		}
		return "ok:" + common.HexS(un)
	case "trl":
		code, _ := strconv.ParseUint(f[1], 10, 32)
		md := metadata.MD{}
		for _, it := range unList(f[3]) {
			k, v, _ := strings.Cut(it, ":")
			md.Append(string(UnCB(k)), string(UnCB(v)))
		}
		st := status.New(codes.Code(code), string(UnCB(f[2])))
		return CB(webbridge.VerifLpmTrailer(webbridge.VerifTrailerWithStatus(md, st)))
	case "obs":
		return execFlushObs(f[1], kvs(f[2:]))
	case "nr":
		return execNoRead(f[1], kvs(f[2:]))
	case "http":
		return execHTTP(f[1], kvs(f[2:]))
	case "ws":
		return execWS(kvs(f[1:]))
	}
	return "BADOP"
}

// closeTimeout is the bridge's WebSocket close timeout as the fact extractor read it from the sources
// (wsCloseTimeoutMs in $VERIF_WORK/facts.json); 3 s if the tree under test has none.
func closeTimeout() time.Duration {
	d := 3 * time.Second
	if b, err := os.ReadFile(filepath.Join(os.Getenv("VERIF_WORK"), "facts.json")); err == nil {
		var facts []struct{ Name, Value string }
		if json.Unmarshal(b, &facts) == nil {
			for _, f := range facts {
				if ms, err := strconv.Atoi(f.Value); f.Name == "wsCloseTimeoutMs" && err == nil && ms > 0 {
					d = time.Duration(ms) * time.Millisecond
				}
			}
		}
	}
	return d
}

// Every session has its own watchdog: a handler that has not returned `watchdog()` after the client saw the end
// of the response (or gave up) is reported as stuck and the harness moves on. After a few stuck sessions the
// budget shrinks so that a systematically hanging handler cannot stall the whole run.
var hangs atomic.Int64

func watchdog() time.Duration {
	if hangs.Load() >= 3 {
		return 200 * time.Millisecond
	}
	return 2 * time.Second
}

// handlerState waits for ServeHTTP to return: "returned" or "stuck".
func (sc *scenario) handlerState() string {
	if sc.wait(watchdog()) {
		return "returned"
	}
	hangs.Add(1)
	return "stuck"
}

func (sc *scenario) wait(d time.Duration) bool {
	select {
	case <-sc.done:
		return true
	case <-time.After(d):
		return false
	}
}

func (sc *scenario) observed() string {
	sc.mu.Lock()
	defer sc.mu.Unlock()
	rv := "-"
	if len(sc.rv) > 0 {
		rv = strings.Join(sc.rv, ",")
	}
	return fmt.Sprintf("rv=%s tg=%s te=%s sd=%s sf=%d tr=%s md=%s oc=%s sh=%s", rv, cbList(sc.tg), sc.te, cbList(sc.sd), sc.sdFail, sc.tr, sc.fmd, sc.oc, sc.sh)
}

func chunkPattern(s string) []int {
	var out []int
	for _, p := range strings.Split(s, "/") {
		n, _ := strconv.Atoi(p)
		if n > 0 {
			out = append(out, n)
		}
	}
	if len(out) == 0 {
		out = []int{1 << 20}
	}
	return out
}

func execHTTP(ver string, kv map[string]string) string {
	servers()
	if ver == "sp" {
		return execStalled(kv)
	}
	sc := newScenario(kv)
	defer registry.Delete(sc.path)

	var wire []byte
	for _, fd := range unList(kv["fr"]) {
		wire = append(wire, encFrame(fd)...)
	}
	wire = append(wire, UnCB(kv["tl"])...)

	srv, cli := srvH1, cliH1
	if ver == "h2" {
		srv, cli = srvH2, cliH2
	}
	if kv["via"] == "root" {
		srv = srvRoot
	}
	pr, pw := io.Pipe()
	pat := chunkPattern(kv["ck"])
	go func() {
		rest := wire
		for i := 0; len(rest) > 0; i++ {
			n := min(pat[i%len(pat)], len(rest))
			if _, err := pw.Write(rest[:n]); err != nil {
				return // the server stopped reading (early end of the call)
			}
			rest = rest[n:]
		}
		pw.Close()
	}()
	// session watchdog: the whole exchange (8 MiB bodies take well under a second on loopback)
	ctx, cancel := context.WithTimeout(context.Background(), 10*watchdog())
	defer cancel()
	req, _ := http.NewRequestWithContext(ctx, http.MethodPost, srv.URL+sc.path, pr)
	req.Header.Set("Content-Type", "application/grpc-web+proto")
	req.Header.Set("X-Grpc-Web", "1")
	extraHeaders(req.Header, kv["xh"])
	resp, err := cli.Do(req)
	if err != nil {
		pr.CloseWithError(err)
		if ctx.Err() != nil {
			hangs.Add(1)
			return fmt.Sprintf("HANG no-response hs=%s %s", sc.handlerState(), sc.observed())
		}
		return fmt.Sprintf("CLIENTERR %s hs=%s", common.HexS(err.Error()), sc.handlerState())
	}
	body, rerr := io.ReadAll(resp.Body)
	resp.Body.Close()
	pr.CloseWithError(io.ErrClosedPipe)
	if rerr != nil && ctx.Err() != nil {
		hangs.Add(1)
		return fmt.Sprintf("HANG response-never-ends hs=%s %s body=%s", sc.handlerState(), sc.observed(), CB(body))
	}
	hs := sc.handlerState()
	if rerr != nil {
		return fmt.Sprintf("CLIENTERR %s hs=%s", common.HexS(rerr.Error()), hs)
	}
	return fmt.Sprintf("st=%d hs=%s %s body=%s gd=%s", resp.StatusCode, hs, sc.observed(), CB(body), goDecode(body))
}

// execFlushObs: OBSERVATION, not a judgement. A server-streaming call whose target sends one small message and then
// stays silent for `dl` ms before the final status: when does the client see the first body byte? GRPCWebBridge never
// flushes, so the frame stays in net/http's buffers until the handler returns (first=atend).
func execFlushObs(ver string, kv map[string]string) string {
	servers()
	sc := newScenario(kv)
	defer registry.Delete(sc.path)
	// a client of its own (the observation must not depend on the state of the shared connections)
	srv := srvH1
	tr := &http.Transport{DisableKeepAlives: true}
	if ver == "h2" {
		srv = srvH2
		tr = &http.Transport{TLSClientConfig: &tls.Config{InsecureSkipVerify: true}, ForceAttemptHTTP2: true}
	}
	defer tr.CloseIdleConnections()
	cli := &http.Client{Transport: tr}
	ctx, cancel := context.WithTimeout(context.Background(), 5*time.Second)
	defer cancel()
	req, _ := http.NewRequestWithContext(ctx, http.MethodPost, srv.URL+sc.path, bytes.NewReader([]byte{0, 0, 0, 0, 0}))
	req.Header.Set("Content-Type", "application/grpc-web+proto")
	t0 := time.Now()
	resp, err := cli.Do(req)
	if err != nil {
		// no observation this time (it is not a judgement): say so instead of failing the run
		return fmt.Sprintf("st=200 hs=%s first=unobserved", sc.handlerState())
	}
	defer resp.Body.Close()
	one := make([]byte, 1)
	_, err = io.ReadFull(resp.Body, one)
	tFirst := time.Since(t0)
	_, _ = io.Copy(io.Discard, resp.Body)
	tEnd := time.Since(t0)
	hs := sc.handlerState()
	first := "atend"
	if err == nil && tEnd-tFirst > sc.delay/2 {
		first = "early"
	}
	return fmt.Sprintf("st=%d hs=%s first=%s", resp.StatusCode, hs, first)
}

// ---------------------------------------------------------------------------------------------
// a client that stops reading and never closes: `nr gws|tws|h1 to=<grpc-timeout ms> sz=<bytes of the answer>`
// The target answers with one message larger than all buffers; the Send blocks in the connection; the grpc-timeout
// makes Forward return with the Send still blocked. Measured from then on: does ServeHTTP return (bound = 3 x the
// bridge's WebSocket close timeout + 2 s), are the call's goroutines gone, did the bridge close the TCP connection?
// Afterwards the client goes away (closes) and the handler must return in any case.

// bridgeGoroutines counts goroutines with a frame of the bridge's packages on their stack.
func bridgeGoroutines() int {
	buf := make([]byte, 1<<22)
	buf = buf[:runtime.Stack(buf, true)]
	n := 0
	for _, g := range strings.Split(string(buf), "\n\n") {
		if strings.Contains(g, "grpcbridge/webbridge.") || strings.Contains(g, "lxzan/gws.(*Conn).ReadLoop") {
			n++
		}
	}
	return n
}

func execNoRead(tr string, kv map[string]string) string {
	servers()
	to, _ := strconv.Atoi(kv["to"])
	sz, _ := strconv.Atoi(kv["sz"])
	skv := map[string]string{"k": "ss", "cd": "raw", "rt": "ok", "fs": "0:x", "tm": "-", "ea": "-", "tr": tr}
	answer := bytes.Repeat([]byte{'a'}, sz)
	if tr == "tws" { // a marshalled StringValue
		answer = append(protowire.AppendVarint([]byte{0x0a}, uint64(sz)), answer...)
	}
	skv["rs"] = CB(answer)
	sc := newScenario(skv)
	defer registry.Delete(sc.path)
	before := bridgeGoroutines()

	addr := strings.TrimPrefix(srvH1.URL, "http://")
	dial := func(ctx context.Context, network, a string) (net.Conn, error) {
		c, err := (&net.Dialer{}).DialContext(ctx, network, a)
		if tc, ok := c.(*net.TCPConn); ok {
			_ = tc.SetReadBuffer(1 << 16)
		}
		return c, err
	}
	var raw net.Conn
	switch tr {
	case "gws", "tws":
		d := websocket.Dialer{HandshakeTimeout: 10 * time.Second, NetDialContext: dial}
		hdr := http.Header{}
		if tr == "gws" {
			d.Subprotocols = []string{"grpc-websockets"}
		} else {
			hdr.Set("Grpc-Timeout", fmt.Sprintf("%dm", to))
		}
		c, _, err := d.Dial("ws://"+addr+sc.path, hdr)
		if err != nil {
			return "CLIENTERR " + common.HexS(err.Error())
		}
		raw = c.UnderlyingConn()
		if tr == "gws" {
			_ = c.WriteMessage(websocket.BinaryMessage, []byte(fmt.Sprintf("grpc-timeout: %dm\r\n", to)))
			_ = c.WriteMessage(websocket.BinaryMessage, []byte{0, 0, 0, 0, 0, 1, 7})
		} else {
			_ = c.WriteMessage(websocket.TextMessage, []byte(`"hi"`))
		}
	default: // gRPC-Web over HTTP/1.1, written by hand so that nothing reads the response
		c, err := dial(context.Background(), "tcp", addr)
		if err != nil {
			return "CLIENTERR " + common.HexS(err.Error())
		}
		raw = c
		fmt.Fprintf(c, "POST %s HTTP/1.1\r\nHost: x\r\nContent-Type: application/grpc-web+proto\r\nGrpc-Timeout: %dm\r\nContent-Length: 6\r\n\r\n", sc.path, to)
		_, _ = c.Write([]byte{0, 0, 0, 0, 1, 7})
	}
	defer raw.Close()

	after := func(ch <-chan struct{}, d time.Duration) bool {
		select {
		case <-ch:
			return true
		case <-time.After(d):
			return false
		}
	}
	blk, fwd := "no", "pending"
	win := min(250*time.Millisecond, time.Duration(to)*time.Millisecond/3)
	if after(sc.sendIn, 3*time.Second) && !after(sc.sendOut, win) {
		blk = "yes"
	}
	if after(sc.fwdDone, time.Duration(to)*time.Millisecond+3*time.Second) {
		fwd = "returned"
	}
	sc.mu.Lock()
	if sc.sdFail > 0 && len(sc.sd) == 0 {
		blk = "yes" // the one Send was abandoned (returned the context error): it had been blocked until the deadline
	}
	sc.mu.Unlock()
	// stalled send + trailer write + close handshake, each under its own deadline of wsCloseTimeout
	bound := 3*closeTimeout() + 2*time.Second
	if tr == "h1" {
		// gRPC-Web over HTTP: finish() waits for net/http's Write, which the bridge cannot bound (assumption: the server's
		// WriteTimeout / the client going away); only observe that it is still waiting, then let the client go away
		bound = 1500 * time.Millisecond
	}
	t0 := time.Now()
	ret := sc.wait(bound)
	el := time.Since(t0)
	hs := "returned"
	if !ret {
		hs = "running"
	}
	time.Sleep(150 * time.Millisecond)
	gr := bridgeGoroutines() - before
	if gr < 0 {
		gr = 0
	}
	// did the bridge close the connection? drain what is buffered; EOF / reset = closed, still open after 1.5 s = open
	tcp := "open"
	dl := time.Now().Add(1500 * time.Millisecond)
	tmp := make([]byte, 1<<16)
	for time.Now().Before(dl) {
		_ = raw.SetReadDeadline(time.Now().Add(300 * time.Millisecond))
		_, err := raw.Read(tmp)
		var ne net.Error
		if err != nil && !(errors.As(err, &ne) && ne.Timeout()) {
			tcp = "closed"
			break
		}
		if err != nil && !ret {
			break // a read timeout: nothing more comes, the connection is open
		}
	}
	// the client goes away: now the handler has to return whatever happened before
	raw.Close()
	gone := "returned"
	if !sc.wait(3 * time.Second) {
		gone = "running"
	}
	return fmt.Sprintf("hs=%s el=%d gr=%d tcp=%s blk=%s fwd=%s gone=%s oc=%s", hs, el.Milliseconds(), gr, tcp, blk, fwd, gone, sc.oc)
}

// ---------------------------------------------------------------------------------------------
// stalled-writer scenarios (in-process): Forward returns while a response Send is still in flight

// stallRW is a ResponseWriter whose first data-frame Write does not complete until released; every Write is
// appended to the "wire" when it completes, so the buffer is the byte stream in the order it left the bridge.
type stallRW struct {
	hdr     http.Header
	mu      sync.Mutex
	code    int
	calls   int
	wire    []byte
	blocked chan struct{} // closed when the stalled Write was entered
	second  chan struct{} // closed when another Write was entered meanwhile
	release chan struct{}
	landed  chan struct{} // closed when the stalled Write has been appended to the wire
}

func (w *stallRW) Header() http.Header { return w.hdr }
func (w *stallRW) WriteHeader(c int) {
	w.mu.Lock()
	if w.code == 0 {
		w.code = c
	}
	w.mu.Unlock()
}

func (w *stallRW) Write(p []byte) (int, error) {
	w.mu.Lock()
	w.calls++
	n := w.calls
	w.mu.Unlock()
	switch {
	case n == 1 && len(p) > 0 && p[0] == 0x00:
		close(w.blocked)
		<-w.release
	case n == 2:
		close(w.second)
	}
	w.mu.Lock()
	w.wire = append(w.wire, p...)
	w.mu.Unlock()
	if n == 1 && len(p) > 0 && p[0] == 0x00 {
		close(w.landed)
	}
	return len(p), nil
}

// stallBody hands out the well-formed frames at once; the rest of the request only arrives once the response
// Send is stalled: `tail` then EOF (badframe mode), or nothing until the call is over (timeout mode).
type stallBody struct {
	first []byte
	tail  []byte
	gate  <-chan struct{}
	end   chan struct{}
	hold  bool
	phase int
}

func (b *stallBody) Read(p []byte) (int, error) {
	switch b.phase {
	case 0:
		if len(b.first) > 0 {
			n := copy(p, b.first)
			b.first = b.first[n:]
			return n, nil
		}
		b.phase = 1
		fallthrough
	case 1:
		select {
		case <-b.gate:
		case <-b.end:
			return 0, io.EOF
		}
		if b.hold {
			<-b.end
			return 0, io.EOF
		}
		b.phase = 2
		fallthrough
	default:
		if len(b.tail) > 0 {
			n := copy(p, b.tail)
			b.tail = b.tail[n:]
			return n, nil
		}
		return 0, io.EOF
	}
}

func (b *stallBody) Close() error { return nil }

// execStalled: `http sp … sp=timeout:<ms>|badframe`. The target answers after `ea` requests; its first message
// stalls in the ResponseWriter; then the forwarding context ends (grpc-timeout) or the request stream fails
// (`tl` arrives); the stalled Write is released only after Forward has returned (and the trailer had its chance
// to be written). Output: the complete byte stream in wire order.
func execStalled(kv map[string]string) string {
	sc := newScenario(kv)
	defer registry.Delete(sc.path)
	var wire []byte
	for _, fd := range unList(kv["fr"]) {
		wire = append(wire, encFrame(fd)...)
	}
	mode := kv["sp"]
	rw := &stallRW{hdr: http.Header{}, blocked: make(chan struct{}), second: make(chan struct{}), release: make(chan struct{}), landed: make(chan struct{})}
	body := &stallBody{first: wire, tail: UnCB(kv["tl"]), gate: rw.blocked, end: make(chan struct{}), hold: strings.HasPrefix(mode, "timeout")}
	req := httptest.NewRequest(http.MethodPost, sc.path, body)
	req.Header.Set("Content-Type", "application/grpc-web+proto")
	if ms, ok := strings.CutPrefix(mode, "timeout:"); ok {
		req.Header.Set("Grpc-Timeout", ms+"m")
	}
	go handler.ServeHTTP(rw, req)

	after := func(ch <-chan struct{}, d time.Duration) bool {
		select {
		case <-ch:
			return true
		case <-time.After(d):
			return false
		}
	}
	blk, fwd := "no", "pending"
	if after(rw.blocked, watchdog()) {
		blk = "yes"
	}
	if after(sc.fwdDone, watchdog()) {
		fwd = "returned"
		after(rw.second, 150*time.Millisecond) // give a (wrongly) early trailer the time to be written
	}
	close(rw.release)
	if blk == "yes" {
		// the released Write lands on the wire whether or not the handler waits for it: a handler that has already written its
		// trailer (or returned) is then seen with a data frame AFTER the trailer
		after(rw.landed, watchdog())
	}
	hs := sc.handlerState()
	close(body.end)
	rw.mu.Lock()
	out := append([]byte{}, rw.wire...)
	code := rw.code
	rw.mu.Unlock()
	if code == 0 {
		code = 200
	}
	return fmt.Sprintf("st=%d hs=%s blk=%s fwd=%s %s body=%s gd=%s", code, hs, blk, fwd, sc.observed(), CB(out), goDecode(out))
}

func execWS(kv map[string]string) string {
	servers()
	sc := newScenario(kv)
	defer registry.Delete(sc.path)

	_, hdS, _ := strings.Cut(kv["hd"], ":")
	msgs := [][]byte{UnCB(hdS)}
	for _, it := range unList(kv["ms"]) {
		msgs = append(msgs, encWSItem(it))
	}
	// sp=stall: the client does not read while the target's (large) first answer is being sent, then sends its
	// last message (a framing error) so that Forward returns while that Send is still in flight, then reads on
	stall := kv["sp"] == "stall"
	// sp=flood: the client writes all its messages without waiting and reads nothing until Forward has returned (and the
	// bridge had the time to close): at the moment of the close the server still has unread input from the client and a
	// response tail the client has not received yet (its receive buffer is small). Nothing of the response may be lost.
	flood := kv["sp"] == "flood"
	// sp=mute: the client never answers the close frame and keeps the connection open: the handler must give up after
	// the bridge's close timeout
	mute := kv["sp"] == "mute"

	d := websocket.Dialer{Subprotocols: []string{"grpc-websockets"}, HandshakeTimeout: 10 * time.Second,
		ReadBufferSize: 1 << 16, WriteBufferSize: 1 << 16}
	if stall || flood {
		d.NetDialContext = func(ctx context.Context, network, addr string) (net.Conn, error) {
			c, err := (&net.Dialer{}).DialContext(ctx, network, addr)
			if tc, ok := c.(*net.TCPConn); ok {
				// a fixed small receive buffer: the server's write must block (stall) / the tail of its response stay in its
				// send queue (flood). Not smaller than the loopback MSS, or the transfer itself crawls.
				_ = tc.SetReadBuffer(1 << 16)
			}
			return c, err
		}
	}
	wsSrv := srvH1
	if kv["via"] == "root" {
		wsSrv = srvRoot
	}
	c, resp, err := d.Dial("ws"+strings.TrimPrefix(wsSrv.URL, "http")+sc.path, nil)
	if err != nil {
		code := 0
		if resp != nil {
			code = resp.StatusCode
		}
		return fmt.Sprintf("up=%d hs=%s ws=- cl=none %s", code, sc.handlerState(), sc.observed())
	}
	defer c.Close()
	// answer the close frame like every WebSocket client does (the bridge waits for it, bounded by its close timeout),
	// but do not let a failure of that write (the server may have closed already) hide the close code we want to observe
	c.SetCloseHandler(func(code int, _ string) error {
		if !mute {
			_ = c.WriteControl(websocket.CloseMessage, websocket.FormatCloseMessage(code, ""), time.Now().Add(time.Second))
		}
		return nil
	})

	limit := 10 * watchdog() // session watchdog
	var got [][]byte
	cl := "none"
	rdone := make(chan struct{})
	startReader := make(chan struct{})
	if !stall && !flood {
		close(startReader)
	}
	go func() {
		defer close(rdone)
		<-startReader
		_ = c.SetReadDeadline(time.Now().Add(limit))
		for {
			mt, data, err := c.ReadMessage()
			if err != nil {
				var ce *websocket.CloseError
				var ne net.Error
				switch {
				case errors.As(err, &ce):
					cl = strconv.Itoa(ce.Code)
				case errors.As(err, &ne) && ne.Timeout():
					cl = "timeout"
				default:
					cl = "err"
				}
				return
			}
			if mt != websocket.BinaryMessage {
				got = append(got, append([]byte("TEXT:"), data...))
				continue
			}
			got = append(got, data)
		}
	}()
	after := func(ch <-chan struct{}, d time.Duration) bool {
		select {
		case <-ch:
			return true
		case <-time.After(d):
			return false
		}
	}
	blk, fwd := "no", "pending"
	if flood {
		wdone := make(chan struct{})
		go func() { // writer of its own: it may block once the server stops reading
			defer close(wdone)
			for _, m := range msgs {
				_ = c.SetWriteDeadline(time.Now().Add(limit))
				if err := c.WriteMessage(websocket.BinaryMessage, m); err != nil {
					return
				}
			}
		}()
		if after(sc.fwdDone, watchdog()) {
			fwd = "returned"
			time.Sleep(200 * time.Millisecond) // let the bridge write the trailer and close
		}
		close(startReader)
		msgs = nil
		defer func() { <-wdone }()
	}
	for i, m := range msgs {
		if stall && i == len(msgs)-1 {
			if after(sc.sendIn, watchdog()) && !after(sc.sendOut, 250*time.Millisecond) {
				blk = "yes" // Send entered and still not back: stalled on the connection
			}
		}
		_ = c.SetWriteDeadline(time.Now().Add(limit))
		if err := c.WriteMessage(websocket.BinaryMessage, m); err != nil {
			break // the server closed already
		}
	}
	extra := ""
	if stall {
		if after(sc.fwdDone, watchdog()) {
			fwd = "returned"
			time.Sleep(100 * time.Millisecond)
		}
		close(startReader)
		extra = fmt.Sprintf(" blk=%s fwd=%s", blk, fwd)
	}
	if flood {
		extra = fmt.Sprintf(" fwd=%s", fwd)
	}
	select {
	case <-rdone:
	case <-time.After(limit + time.Second):
		cl = "timeout"
	}
	if cl == "timeout" {
		hangs.Add(1)
	}
	if mute {
		// the client saw the close frame, does not answer and keeps the connection open: the handler must return and the
		// connection be closed by the bridge within its close timeout
		bound := closeTimeout()
		t0 := time.Now()
		ret := sc.wait(bound + 2*time.Second)
		el := time.Since(t0)
		// the connection must be closed from the server side by then: a read ends with an error quickly
		_ = c.UnderlyingConn().SetReadDeadline(time.Now().Add(500 * time.Millisecond))
		_, rerr := c.UnderlyingConn().Read(make([]byte, 1))
		var ne net.Error
		tcp := "closed"
		if rerr == nil || (errors.As(rerr, &ne) && ne.Timeout()) {
			tcp = "open"
		}
		verdict := "ok"
		if !ret {
			verdict = "stuck"
		} else if el > bound+1500*time.Millisecond {
			verdict = "late"
		}
		c.Close()
		hsm := "returned"
		if !ret {
			hsm = "stuck"
			hangs.Add(1)
		}
		return fmt.Sprintf("up=%d hs=%s bound=%s tcp=%s ws=%s cl=%s %s", resp.StatusCode, hsm, verdict, tcp, cbList(got), cl, sc.observed())
	}
	c.Close()
	hs := sc.handlerState()
	return fmt.Sprintf("up=%d hs=%s%s ws=%s cl=%s %s", resp.StatusCode, hs, extra, cbList(got), cl, sc.observed())
}

// ---------------------------------------------------------------------------------------------
// Gen

var dist = map[string]int{}
var distMu sync.Mutex

func (Area) Extra() map[string]any {
	distMu.Lock()
	defer distMu.Unlock()
	keys := make([]string, 0, len(dist))
	for k := range dist {
		keys = append(keys, k)
	}
	sort.Strings(keys)
	out := map[string]any{}
	for _, k := range keys {
		out[k] = dist[k]
	}
	return map[string]any{"generator_distribution": out}
}

func count(k string) {
	distMu.Lock()
	dist[k]++
	distMu.Unlock()
}

var msgAlphabets = [][]byte{
	[]byte("abcXYZ019-_.~"),
	[]byte("$&+:=@/;,? %"),
	[]byte("\r\n\t\x00\x7f\x1f"),
	[]byte("\xc3\xa9\xe2\x82\xac\xf0\x9f\x98\x80\xff\xfe\x80"),
	nil,
}

func randMsgText(r *rand.Rand) []byte {
	switch r.Intn(8) {
	case 0:
		return nil
	case 1:
		return []byte(common.Pick(r, []string{"not found", "héllo wörld €", "100% sure", "a\r\nb", "grpc-status: 0\r\nx: y", "%zz", "日本語", "a+b c/d?e", "\x00\x01\x02"}))
	}
	n := r.Intn(24)
	var out []byte
	for len(out) < n {
		out = append(out, common.RandBytes(r, 1+r.Intn(4), common.Pick(r, msgAlphabets))...)
	}
	return out
}

func randCode(r *rand.Rand) uint32 {
	switch r.Intn(10) {
	case 0, 1, 2, 3, 4:
		return 0
	case 5:
		return common.Pick(r, []uint32{17, 99, 1000, 4294967295})
	default:
		return uint32(1 + r.Intn(16))
	}
}

// validWire builds a payload of exactly n bytes (n != 1) that is valid protobuf wire format
func validWire(r *rand.Rand, n int) []byte {
	if n <= 0 {
		return nil
	}
	if n == 1 {
		n = 2
	}
	if n%2 == 0 && n <= 16 && r.Intn(2) == 0 { // varint fields
		var out []byte
		for len(out) < n {
			out = append(out, byte(8*(1+r.Intn(15))), byte(r.Intn(128)))
		}
		return out
	}
	// one length-delimited field 1..15 with the rest as content
	for hl := 2; hl <= 6; hl++ {
		c := n - hl
		if c < 0 {
			break
		}
		var lenb []byte
		v := uint64(c)
		for v >= 0x80 {
			lenb = append(lenb, byte(v)|0x80)
			v >>= 7
		}
		lenb = append(lenb, byte(v))
		if 1+len(lenb) == hl {
			out := append([]byte{byte(8*(1+r.Intn(15)) + 2)}, lenb...)
			return append(out, payloadBytes(r, c)...)
		}
	}
	return []byte{8, 1}
}

// payloadBytes: small payloads random, large ones run-structured so the case line stays short
func payloadBytes(r *rand.Rand, n int) []byte {
	if n <= 600 {
		if r.Intn(4) == 0 {
			return bytes.Repeat([]byte{byte(r.Intn(256))}, n)
		}
		return common.RandBytes(r, n, nil)
	}
	out := make([]byte, 0, n)
	for len(out) < n {
		run := min(n-len(out), 1+r.Intn(n))
		if r.Intn(3) == 0 && run > 40 {
			out = append(out, common.RandBytes(r, 8, nil)...)
			run -= 8
		}
		out = append(out, bytes.Repeat([]byte{byte(r.Intn(256))}, run)...)
	}
	return out[:n]
}

func randSize(r *rand.Rand) int {
	switch r.Intn(20) {
	case 0, 1, 2, 3:
		return 0
	case 4, 5, 6, 7, 8:
		return common.Pick(r, []int{1, 2, 4, 5, 6, 7, 8})
	case 9, 10, 11, 12, 13, 14:
		return r.Intn(300)
	case 15, 16, 17:
		return 127 + r.Intn(3) + 128*r.Intn(2)*127 // around varint / 16384 boundaries
	case 18:
		return 32768 + r.Intn(40000)
	default:
		return common.Pick(r, []int{255, 256, 257, 65535, 65536, 65537})
	}
}

func payload(r *rand.Rand, codec string, n int) []byte {
	if codec == "empty" {
		return validWire(r, n)
	}
	return payloadBytes(r, n)
}

func genScript(r *rand.Rand, codec string) string {
	nr := common.Pick(r, []int{0, 1, 1, 1, 2, 3, 5})
	var rs [][]byte
	for i := 0; i < nr; i++ {
		rs = append(rs, payload(r, codec, randSize(r)))
	}
	code := randCode(r)
	var msg []byte
	if code != 0 {
		msg = randMsgText(r)
	}
	tm := "-"
	switch r.Intn(10) {
	case 0:
		tm = CB([]byte("x-t")) + ":" + CB([]byte("v1"))
	case 1:
		tm = CB([]byte("x-t")) + ":" + CB([]byte("a b")) + "," + CB([]byte("x-t")) + ":" + CB([]byte("c")) + "," + CB([]byte("x-u")) + ":" + CB(nil)
	case 2:
		tm = CB([]byte("grpc-status")) + ":" + CB([]byte("0")) + "," + CB([]byte("grpc-message")) + ":" + CB([]byte("fake"))
	case 3:
		tm = genTrailerKV(r)
		if r.Intn(2) == 0 {
			tm += "," + genTrailerKV(r)
		}
	}
	return fmt.Sprintf("rs=%s fs=%d:%s tm=%s", cbList(rs), code, CB(msg), tm)
}

// genTrailerKV: one allow-listed trailer pair. Binary (-bin) values are arbitrary bytes (gRPC-Go decodes them before the bridge
// sees them), biased to CR LF / NUL / a forged status line; text values are what a ClientConn may hand over, line breaks included.
func genTrailerKV(r *rand.Rand) string {
	k := common.Pick(r, []string{"x-bin", "x-bin", "grpc-status-details-bin", "x-t", "x-u"})
	var v []byte
	switch r.Intn(5) {
	case 0:
		v = []byte("a\r\ngrpc-status: 0")
	case 1:
		v = []byte{0x08, 0x05, 0x12, 0x02, 'n', 'o', 0x1a, 0x0a, 0x0a, 0x08, 't', 'y', 'p', 'e', '.', 'u', 'r', 'l'}
	case 2:
		v = common.RandBytes(r, r.Intn(9), []byte("\r\n\x00 \t:ab\xff\xc3\xa9="))
	case 3:
		v = common.RandBytes(r, r.Intn(40), nil)
	default:
		v = []byte(common.Pick(r, []string{"", "v", "a b", "A/+="}))
	}
	if !strings.HasSuffix(k, "-bin") {
		// text values: what can be a header field value on the target connection (HT, SP..~, obs-text) plus CR / LF, which only
		// a custom ClientConn can hand over; other control bytes never reach the bridge and are written as they are
		for i, c := range v {
			if (c < 0x20 && c != '\t' && c != '\r' && c != '\n') || c == 0x7f {
				v[i] = 'a'
			}
		}
	}
	return CB([]byte(k)) + ":" + CB(v)
}

func genRoute(r *rand.Rand) string {
	switch r.Intn(25) {
	case 0, 1:
		return fmt.Sprintf("%d:%s", 1+r.Intn(16), CB(randMsgText(r)))
	case 2:
		return "plain:" + CB(randMsgText(r))
	case 3:
		return "real"
	}
	return "ok"
}

func genHTTP(r *rand.Rand) string {
	ver := common.Pick(r, []string{"h1", "h1", "h2"})
	kind := common.Pick(r, []string{"uu", "cs", "ss", "bd", "bd", "cs"})
	codec := common.Pick(r, []string{"raw", "raw", "empty"})
	nf := common.Pick(r, []int{0, 1, 1, 2, 3, 4, 6})
	if kind == "uu" || kind == "ss" {
		nf = common.Pick(r, []int{0, 1, 1, 1, 2})
	}
	var frs []string
	total := 0
	malformed := r.Intn(4) == 0
	if malformed {
		codec = "raw" // a desynchronised stream is not valid wire format any more; the model's codec is the identity
	}
	bad := -1
	if malformed && nf > 0 {
		bad = r.Intn(nf)
	}
	class := "wellformed"
	for i := 0; i < nf; i++ {
		p := payload(r, codec, randSize(r))
		fl, decl := "00", "="
		if i == bad {
			switch r.Intn(6) {
			case 0:
				decl = strconv.Itoa(len(p) + 1 + r.Intn(10)) // body shorter than declared (if last) / swallows the next header
				class = "decl-long"
			case 1:
				if len(p) > 0 {
					decl = strconv.Itoa(r.Intn(len(p))) // desynchronised
					class = "decl-short"
				}
			case 2:
				decl = strconv.Itoa(4194304 + 1 + r.Intn(1000)) // oversize declared
				class = "decl-oversize"
			case 3:
				decl = "4294967295"
				class = "decl-max"
			case 4:
				fl = common.Pick(r, []string{"01", "80", "ff"})
				class = "flag"
			default:
				class = "tail"
			}
		}
		total += len(p)
		frs = append(frs, fmt.Sprintf("%s:%s:%s", fl, decl, CB(p)))
	}
	tl := []byte(nil)
	if malformed && (class == "tail" || class == "wellformed") {
		tl = common.RandBytes(r, 1+r.Intn(4), []byte{0, 0, 1, 0x80, 0xff})
		class = "tail"
	}
	fr := "-"
	if len(frs) > 0 {
		fr = strings.Join(frs, ",")
	}
	ck := common.Pick(r, []string{"1048576", "1", "2/3", "5", "4/1", "7/64/1", "1000", "65536", "3/4096"})
	if total > 4000 && (ck == "1" || ck == "2/3" || ck == "5" || ck == "4/1") {
		ck = "4096/1/333"
	}
	ea := "-"
	if ver == "h2" && (kind == "cs" || kind == "bd") && class == "wellformed" && r.Intn(5) == 0 {
		ea = strconv.Itoa(r.Intn(nf + 1))
		class += "-early"
	}
	rt := genRoute(r)
	count("http:" + ver + ":" + class)
	via := ""
	if ver == "h1" && r.Intn(8) == 0 { // through the root dispatcher, with headers that must not change the dispatch
		via = " via=root xh=" + common.Pick(r, []string{"-", "h2c", "up", "ka"})
		count("http:via-root")
	}
	return fmt.Sprintf("http %s k=%s cd=%s rt=%s fr=%s tl=%s ck=%s %s ea=%s%s", ver, kind, codec, rt, fr, CB(tl), ck, genScript(r, codec), ea, via)
}

// genHeaderMsg: the first gRPC-WebSocket message (metadata as HTTP/1.1 header lines), well-formed and not
func genHeaderMsg(r *rand.Rand) []byte {
	keys := []string{"content-type", "Content-Type", "CONTENT-TYPE", "x-grpc-web", "X-User-Agent", "grpc-timeout", "authorization",
		"x-a", "a", "A-b-C", "x_1.2", "k!#$%&'*+-.^_`|~9", "te"}
	vals := []string{"application/grpc-web+proto", "1", "", "a b", "grpc-web-javascript/0.1", "v\twith tab", "caf\xc3\xa9 \xff", "x: y", "=="}
	var sb []byte
	used := map[string]bool{}
	n := common.Pick(r, []int{0, 1, 1, 2, 3, 5})
	for i := 0; i < n; i++ {
		k := common.Pick(r, keys)
		v := common.Pick(r, vals)
		nl := common.Pick(r, []string{"\r\n", "\r\n", "\r\n", "\n"})
		sep := common.Pick(r, []string{": ", ": ", ":", ":  ", ":\t ", " : "})
		if sep == " : " { // a key with a space is kept as written: avoid two that differ by case only (map order)
			if used[strings.ToLower(k)] {
				sep = ": "
			}
			used[strings.ToLower(k)] = true
		}
		line := k + sep + v + common.Pick(r, []string{"", "", " ", "\t"})
		if r.Intn(6) == 0 { // folded continuation
			line += nl + common.Pick(r, []string{" ", "\t", "   "}) + common.Pick(r, []string{"more", "", "x  ", "a:b"})
		}
		sb = append(sb, line+nl...)
	}
	switch r.Intn(14) {
	case 0: // no final newline: EOF before the empty line
		if len(sb) > 0 {
			sb = bytes.TrimRight(sb, "\r\n")
		}
	case 1:
		sb = append(sb, common.Pick(r, []string{"no colon here\r\n", ": empty-key\r\n", "bad\tkey: v\r\n", "k\xc3\xa9y: v\r\n", "k(ey: v\r\n",
			"k: ctl\x01\r\n", "k: del\x7f\r\n", "k: cr\rinside\r\n", "k: nul\x00\r\n", "a\r\n: b\r\n"})...)
	case 2:
		sb = append([]byte(common.Pick(r, []string{" ", "\t", "  x: y\r\n"})), sb...)
	case 3: // an empty line in the middle: the rest is ignored
		sb = append(sb, "\r\nthis is: ignored\r\nand this too"...)
	case 4:
		sb = append(sb, common.RandBytes(r, 1+r.Intn(6), []byte("a:\r\n \t\x00\xffZ-"))...)
	case 5: // long lines (no limit applies)
		sb = append(sb, ("x-long: " + strings.Repeat("v", 5000+r.Intn(3000)) + "\r\n")...)
	}
	return sb
}

func genWSHeader(r *rand.Rand) string {
	count("ws:header")
	return fmt.Sprintf("ws k=bd cd=raw rt=%s hd=h:%s ms=f rs=- fs=0:x tm=- ea=-", common.Pick(r, []string{"ok", "ok", "ok", "7:x6e6f"}), CB(genHeaderMsg(r)))
}

func genWS(r *rand.Rand) string {
	kind := common.Pick(r, []string{"uu", "cs", "ss", "bd", "bd", "cs"})
	codec := common.Pick(r, []string{"raw", "raw", "empty"})
	hd := "ok:" + CB([]byte(common.Pick(r, []string{"content-type: application/grpc-web+proto\r\nx-grpc-web: 1\r\n", "", "x-user-agent: grpc-web-javascript/0.1\r\n"})))
	class := "wellformed"
	if r.Intn(20) == 0 {
		hd = "bad:" + CB([]byte(common.Pick(r, []string{"no colon here", "\x00\x01", ": novalue-key", "a b: c"})))
		class = "bad-header"
	}
	nm := common.Pick(r, []int{0, 1, 1, 2, 3, 4, 6})
	if kind == "uu" || kind == "ss" {
		nm = 1
	}
	var items []string
	for i := 0; i < nm; i++ {
		items = append(items, "d:"+CB(payload(r, codec, randSize(r))))
	}
	ea := "-"
	switch r.Intn(8) {
	case 0: // framing error as the last message
		if kind == "cs" || kind == "bd" {
			items = append(items, "r:"+CB(common.Pick(r, [][]byte{{}, {0, 0}, {0, 0, 0, 0, 0}, {1, 0}, {7, 1, 2}})))
			class = "framing-error"
			break
		}
		fallthrough
	case 1: // odd but legal: ignored flow byte, wrong length bytes, finish carrying a payload, extra after finish
		if kind == "cs" || kind == "bd" {
			p := payload(r, codec, randSize(r))
			odd := append([]byte{byte(common.Pick(r, []int{0, 2, 255})), 9, 9, 9, 9, 9}, p...)
			items = append(items, "r:"+CB([]byte{0}), "r:"+CB(odd))
			if r.Intn(2) == 0 {
				items = append(items, "r:"+CB(append([]byte{1, 0, 0, 0, 0, 0}, payload(r, codec, randSize(r))...)))
			} else {
				items = append(items, "f")
			}
			class = "odd"
			break
		}
		fallthrough
	default:
		items = append(items, "f")
	}
	if class != "framing-error" && r.Intn(5) == 0 { // ignored after the finish marker
		items = append(items, "d:"+CB(payload(r, codec, r.Intn(20))))
		if r.Intn(2) == 0 {
			items = append(items, "f")
		}
		class += "-after-finish"
	}
	if (kind == "cs" || kind == "bd") && class == "wellformed" && r.Intn(8) == 0 {
		ea = strconv.Itoa(r.Intn(nm + 1))
		class = "early"
	}
	ms := "-"
	if len(items) > 0 {
		ms = strings.Join(items, ",")
	}
	count("ws:" + class)
	via := ""
	if r.Intn(10) == 0 {
		via = " via=root"
	}
	hm := ""
	if r.Intn(8) == 0 {
		// response header metadata: over gRPC-WebSocket it is written into the header frame by the same lpmTrailer
		k := common.Pick(r, []string{"x-h", "x-h-bin"})
		_, v, _ := strings.Cut(genTrailerKV(r), ":")
		vb := UnCB(v)
		if k == "x-h" {
			for i, c := range vb {
				if (c < 0x20 && c != '\t' && c != '\r' && c != '\n') || c == 0x7f {
					vb[i] = 'a'
				}
			}
		}
		hm = " hm=" + CB([]byte(k)) + ":" + CB(vb)
		if r.Intn(3) == 0 {
			hm += "," + CB([]byte("x-h")) + ":" + CB([]byte("second value"))
		}
	}
	return fmt.Sprintf("ws k=%s cd=%s rt=%s hd=%s ms=%s %s ea=%s%s%s", kind, codec, genRoute(r), hd, ms, genScript(r, codec), ea, via, hm)
}

// genStalled: Forward returns (grpc-timeout / request-side error) while a response Send is stalled in the writer
func genStalled(r *rand.Rand, timeout bool) string {
	kind := common.Pick(r, []string{"bd", "bd", "cs"})
	if timeout {
		kind = common.Pick(r, []string{"bd", "cs", "ss", "uu"})
	}
	nf := r.Intn(4)
	ea := strconv.Itoa(nf)
	if kind == "uu" || kind == "ss" {
		nf, ea = 1, "-" // unary request: the target answers after CloseSend
	}
	var frs []string
	for i := 0; i < nf; i++ {
		frs = append(frs, "00:=:"+CB(payloadBytes(r, common.Pick(r, []int{0, 1, 7, 200}))))
	}
	fr := "-"
	if len(frs) > 0 {
		fr = strings.Join(frs, ",")
	}
	nr := 1
	if kind == "bd" || kind == "ss" {
		nr = 1 + r.Intn(3)
	}
	var rs [][]byte
	for i := 0; i < nr; i++ {
		rs = append(rs, payloadBytes(r, common.Pick(r, []int{0, 1, 5, 300, 70000})))
	}
	tl, sp := "x", fmt.Sprintf("timeout:%d", 80+20*r.Intn(4))
	if !timeout {
		tl = common.Pick(r, []string{"x00", "x0000", "x00000000", "x00ffffffff", "x00004000016162", "x00000000056162"})
		sp = "badframe"
	}
	count("http:sp:" + strings.SplitN(sp, ":", 2)[0])
	return fmt.Sprintf("http sp k=%s cd=raw rt=ok fr=%s tl=%s ck=- rs=%s fs=0:x tm=- ea=%s sp=%s", kind, fr, tl, cbList(rs), ea, sp)
}

func genStalledWS(r *rand.Rand) string {
	kind := common.Pick(r, []string{"bd", "cs"})
	nm := 1 + r.Intn(3)
	var items []string
	for i := 0; i < nm; i++ {
		items = append(items, "d:"+CB(payloadBytes(r, common.Pick(r, []int{0, 1, 9, 300}))))
	}
	items = append(items, "r:"+CB(common.Pick(r, [][]byte{{}, {0, 0}, {0, 0, 0, 0, 0}})))
	rs := [][]byte{bytes.Repeat([]byte{byte('a' + r.Intn(26))}, 6<<20)}
	if kind == "bd" && r.Intn(2) == 0 {
		rs = append(rs, []byte{2})
	}
	count("ws:sp:stall")
	return fmt.Sprintf("ws k=%s cd=raw rt=ok hd=ok:x ms=%s rs=%s fs=0:x tm=- ea=%d sp=stall", kind, strings.Join(items, ","), cbList(rs), nm)
}

// genFlood: the bridge ends the call (early answer / unary request already taken) while the client keeps writing and
// has not read anything yet; the response is larger than the client's receive buffer
func genFlood(r *rand.Rand) string {
	kind := common.Pick(r, []string{"ss", "bd", "bd", "cs"})
	items := []string{"d:" + CB(payloadBytes(r, 1+r.Intn(8))), "d:" + CB(payloadBytes(r, 1+r.Intn(300)))}
	for i, n := 0, 1+r.Intn(4); i < n; i++ {
		items = append(items, "d:"+CB(bytes.Repeat([]byte{byte('a' + r.Intn(26))}, 16384+r.Intn(60000))))
	}
	var rs [][]byte
	nr := 4 + r.Intn(5)
	if kind == "cs" {
		nr = 1
	}
	for i := 0; i < nr; i++ {
		sz := 65536 + r.Intn(20000)
		if kind == "cs" {
			sz = 400000 + r.Intn(100000)
		}
		rs = append(rs, bytes.Repeat([]byte{byte('A' + r.Intn(26))}, sz))
	}
	ea := "-"
	if kind != "ss" {
		ea = "1"
	}
	code := common.Pick(r, []uint32{0, 1, 7, 16})
	count("ws:sp:flood")
	return fmt.Sprintf("ws k=%s cd=raw rt=ok hd=ok:x ms=%s rs=%s fs=%d:%s tm=- ea=%s sp=flood", kind, strings.Join(items, ","), cbList(rs), code, CB([]byte("no")), ea)
}

func (Area) Gen(r *rand.Rand, tier string, emit func(string)) {
	// url.PathEscape on all 256 single bytes, exhaustively, every run
	for b := 0; b < 256; b++ {
		emit("esc " + CB([]byte{byte(b)}))
	}
	nEsc, nHTTP, nWS := 1500, 1200, 600
	if tier == "thorough" {
		nEsc, nHTTP, nWS = 30000, 30000, 10000
	}
	for i := 0; i < nEsc; i++ {
		switch r.Intn(3) {
		case 0:
			emit("esc " + CB(randMsgText(r)))
		case 1:
			s := common.RandBytes(r, r.Intn(12), []byte("%%%0123456789abcdefABCDEFgG+ /\xff"))
			emit("unesc " + CB(s))
		default:
			md := "-"
			switch r.Intn(6) {
			case 0, 1:
				md = CB([]byte(common.Pick(r, []string{"x-t", "grpc-status", "grpc-message", "a"}))) + ":" + CB([]byte(common.Pick(r, []string{"", "1", "v w"})))
			case 2, 3:
				// values as gRPC-Go hands them over: binary ones decoded (any bytes), others any bytes a custom ClientConn may produce
				var items []string
				for n := 1 + r.Intn(3); n > 0; n-- {
					items = append(items, genTrailerKV(r))
				}
				md = strings.Join(items, ",")
			}
			emit(fmt.Sprintf("trl %d %s %s", randCode(r), CB(randMsgText(r)), md))
		}
	}
	for i := 0; i < nHTTP; i++ {
		emit(genHTTP(r))
	}
	for i := 0; i < nWS; i++ {
		emit(genWS(r))
	}
	nH := 500
	if tier == "thorough" {
		nH = 20000
	}
	for i := 0; i < nH; i++ {
		emit(genWSHeader(r))
	}
	nT, nB, nS := 6, 12, 1
	if tier == "thorough" {
		nT, nB, nS = 40, 120, 8
	}
	for i := 0; i < nT; i++ {
		emit(genStalled(r, true))
	}
	for i := 0; i < nB; i++ {
		emit(genStalled(r, false))
	}
	for i := 0; i < nS; i++ {
		emit(genStalledWS(r))
	}
	nF := 6
	if tier == "thorough" {
		nF = 60
		// non-reading clients (3 s each: the bridge's close timeout); the quick tier has the corpus cases
		emit("nr tws to=400 sz=8388608")
		emit("nr gws to=300 sz=12582912")
		emit("nr tws to=500 sz=4194304")
	}
	for i := 0; i < nF; i++ {
		emit(genFlood(r))
	}
}
