// Package c20 corresponds the two path-template parsers (internal/httprule/gwbased, internal/httprule)
// and the strict trie with the Lean models GB.C20; the grammar recogniser in the driver is the oracle.
//
// Input lines (byte strings hex-encoded):
//
//	gw <tmpl>                               gwbased.Parse + String() + Compile()
//	st <tmpl>                               httprule.Parse + VerifDump()
//	build <tmpl>                            routing.buildPattern (reject / the runtime.Pattern's fields)
//	route <tmpl> <path>                     PatternRouter: Watch, UpdateDesc(one GET binding tmpl), RouteHTTP(RawPath path)
//	ga <tmpl>                               gwbased.Parse + structural export (verifx.GWSegments), for the C20→C03 adapter
//	gtok <path> / stok <path>               the two tokenizers
//	trie <method:tmpl,…|-> <method> <path>  NewTrie, Add of every template that parses, Find
package c20

import (
	"fmt"
	"math/rand"
	"net/http"
	"net/url"
	"reflect"
	"strconv"
	"strings"

	"github.com/renbou/grpcbridge/bridgedesc"
	"github.com/renbou/grpcbridge/grpcadapter"
	"github.com/renbou/grpcbridge/routing"
	"google.golang.org/grpc/codes"
	"google.golang.org/grpc/status"

	"github.com/renbou/grpcbridge/verifx"
	"verif/harness/common"
)

type Area struct{}

func (Area) Name() string { return "c20" }

var genCounts = map[string]int{}

func (Area) Extra() map[string]any {
	m := map[string]any{}
	for k, v := range genCounts {
		m[k] = v
	}
	return m
}

func hexList(xs []string) string {
	if len(xs) == 0 {
		return "-"
	}
	h := make([]string, len(xs))
	for i, x := range xs {
		h[i] = common.HexS(x)
	}
	return strings.Join(h, ",")
}

func intList(xs []int) string {
	if len(xs) == 0 {
		return "-"
	}
	h := make([]string, len(xs))
	for i, x := range xs {
		h[i] = strconv.Itoa(x)
	}
	return strings.Join(h, ",")
}

func (Area) Exec(input string) string {
	f := strings.Fields(input)
	if len(f) < 2 {
		return "BADOP"
	}
	switch f[0] {
	case "gw":
		s := string(common.MustUnHex(f[1]))
		c, err := verifx.GWParse(s)
		if err != nil {
			return "err"
		}
		t := c.Compile()
		return fmt.Sprintf("ok %s %s %s %s %s", common.HexS(verifx.GWString(c)), intList(t.OpCodes), hexList(t.Pool), common.HexS(t.Verb), hexList(t.Fields))
	case "st":
		s := string(common.MustUnHex(f[1]))
		t, err := verifx.StrictParse(s)
		if err != nil {
			return "err"
		}
		return "ok " + common.HexS(t.VerifDump())
	case "ga":
		// structural export of the parsed template, rendered like the C03 slice's `showAst`
		c, err := verifx.GWParse(string(common.MustUnHex(f[1])))
		if err != nil {
			return "ERR"
		}
		segs, verb, ok := verifx.GWSegments(c)
		if !ok {
			return "ERR"
		}
		return showAst(segs, verb)
	case "build":
		// the glue PatternRouter uses: routing.buildPattern; the pattern's fields are read by reflection
		p, err := routing.VerifBuildPatternValue(string(common.MustUnHex(f[1])))
		if err != nil {
			return "reject"
		}
		return dumpPattern(p)
	case "route":
		if len(f) != 3 {
			return "BADOP"
		}
		return execRoute(string(common.MustUnHex(f[1])), string(common.MustUnHex(f[2])))
	case "gtok":
		toks, verb := verifx.GWTokenize(string(common.MustUnHex(f[1])))
		return hexList(toks) + " " + common.HexS(verb)
	case "stok":
		return hexList(verifx.StrictTokenize(string(common.MustUnHex(f[1]))))
	case "trie":
		if len(f) != 4 {
			return "BADOP"
		}
		tr := verifx.NewStrictTrie()
		if f[1] != "-" {
			for _, e := range strings.Split(f[1], ",") {
				mt := strings.SplitN(e, ":", 2)
				t, err := verifx.StrictParse(string(common.MustUnHex(mt[1])))
				if err != nil {
					continue
				}
				tr.Add(string(common.MustUnHex(mt[0])), t)
			}
		}
		t, ok := tr.Find(string(common.MustUnHex(f[2])), string(common.MustUnHex(f[3])))
		if !ok {
			return "none"
		}
		return "found " + common.HexS(t.VerifTemplate())
	}
	return "BADOP"
}

// dumpPattern renders a runtime.Pattern (unexported fields ops{code,operand}, pool, vars, stacksize, tailLen, verb).
func dumpPattern(p any) string {
	v := reflect.ValueOf(p)
	ops := v.FieldByName("ops")
	os := make([]string, ops.Len())
	for i := range os {
		o := ops.Index(i)
		os[i] = fmt.Sprintf("%d.%d", o.FieldByName("code").Int(), o.FieldByName("operand").Int())
	}
	strs := func(name string) string {
		l := v.FieldByName(name)
		xs := make([]string, l.Len())
		for i := range xs {
			xs[i] = l.Index(i).String()
		}
		return hexList(xs)
	}
	opss := "-"
	if len(os) > 0 {
		opss = strings.Join(os, ",")
	}
	return fmt.Sprintf("ok %s %s %s %d %d %s", opss, strs("pool"), strs("vars"), v.FieldByName("stacksize").Int(),
		v.FieldByName("tailLen").Int(), common.HexS(v.FieldByName("verb").String()))
}

type okPool struct{}

func (okPool) Get(string) (grpcadapter.ClientConn, bool) { return nil, true }

// execRoute: a real PatternRouter with one target whose only method has the one binding GET tmpl; the request
// target is delivered as RawPath (RouteHTTP matches on it as is).
func execRoute(tmpl, path string) string {
	pr := routing.NewPatternRouter(okPool{}, routing.PatternRouterOpts{})
	w, err := pr.Watch("t")
	if err != nil {
		return "watcherr"
	}
	defer w.Close()
	w.UpdateDesc(&bridgedesc.Target{Name: "t", Services: []bridgedesc.Service{{Name: "S", Methods: []bridgedesc.Method{
		{RPCName: "/S/M", Bindings: []bridgedesc.Binding{{HTTPMethod: "GET", Pattern: tmpl}}},
	}}}})
	_, _, err = pr.RouteHTTP(&http.Request{Method: "GET", URL: &url.URL{RawPath: path}})
	if err == nil {
		return "found"
	}
	if c := status.Code(err); c != codes.Unknown {
		return fmt.Sprintf("code:%d", int(c))
	}
	return "err"
}

func showPart(p verifx.GWSeg) string {
	switch p.Kind {
	case 'L':
		return "L" + common.HexS(p.Lit)
	case 'S':
		return "S"
	case 'D':
		return "D"
	case 'V': // never produced by the parser inside a variable; rendered so that it cannot equal the model's output
		return "V" + common.HexS(p.Path) + "!"
	}
	return "?"
}

// showAst renders segments and verb as lean/GB/C03/Driver.lean `showAst` does.
func showAst(segs []verifx.GWSeg, verb string) string {
	out := make([]string, len(segs))
	for i, s := range segs {
		if s.Kind == 'V' {
			parts := make([]string, len(s.Parts))
			for j, p := range s.Parts {
				parts[j] = showPart(p)
			}
			out[i] = "V" + common.HexS(s.Path) + ":" + strings.Join(parts, ".")
		} else {
			out[i] = showPart(s)
		}
	}
	return strings.Join(out, ",") + "|" + common.HexS(verb)
}

// ---- grammar-directed generation -------------------------------------------------------------

// tnode is one top-level segment of a derivation.
type tnode struct {
	text  string // rendered
	isVar bool
	multi bool // "**" or a variable ending in "**": only allowed last
	lit   bool
}

type alpha struct {
	lits   []string // literal segments (non-empty pchars, not "*" / "**")
	idents []string
	verbs  []string // verbs without a colon
}

var small = alpha{
	lits:   []string{"a", "v1"},
	idents: []string{"x", "_y1"},
	verbs:  []string{"v", ""},
}

var rich = alpha{
	lits: []string{"a", "b", "v1", "users", "a:b", ":x", "x:", "%2F", "%e7%ac", "*a", "***", "a*", "-._~", "!$&'()*+,;=:@", "=", ".", "a.b", "a=b", "@", "0", "A_z"},
	idents: []string{"a", "b", "x", "_", "_y1", "Az09_", "name", "id"},
	verbs:  []string{"v", "", "watch", "%41", "a.b", "*", "-._~!$&'()*+,;=@"},
}

// inner patterns of a variable: lists of "*", literals, optionally ending in "**"
func innerPatterns(a alpha, maxLen int) (single []string, multi []string) {
	atoms := append([]string{"*"}, a.lits...)
	var rec func(prefix []string)
	rec = func(prefix []string) {
		if len(prefix) > 0 {
			single = append(single, strings.Join(prefix, "/"))
		}
		if len(prefix) < maxLen {
			multi = append(multi, strings.Join(append(append([]string{}, prefix...), "**"), "/"))
		}
		if len(prefix) == maxLen {
			return
		}
		for _, x := range atoms {
			rec(append(append([]string{}, prefix...), x))
		}
	}
	rec(nil)
	return
}

func fieldPaths(a alpha, maxLen int) []string {
	var out []string
	var rec func(prefix []string)
	rec = func(prefix []string) {
		if len(prefix) > 0 {
			out = append(out, strings.Join(prefix, "."))
		}
		if len(prefix) == maxLen {
			return
		}
		for _, x := range a.idents {
			rec(append(append([]string{}, prefix...), x))
		}
	}
	rec(nil)
	return out
}

// segChoices lists every top-level segment over the alphabet.
func segChoices(a alpha, maxInner, maxPath int) []tnode {
	out := []tnode{{text: "*"}, {text: "**", multi: true}}
	for _, l := range a.lits {
		out = append(out, tnode{text: l, lit: true})
	}
	single, multi := innerPatterns(a, maxInner)
	for _, fp := range fieldPaths(a, maxPath) {
		out = append(out, tnode{text: "{" + fp + "}", isVar: true})
		for _, p := range single {
			out = append(out, tnode{text: "{" + fp + "=" + p + "}", isVar: true})
		}
		for _, p := range multi {
			out = append(out, tnode{text: "{" + fp + "=" + p + "}", isVar: true, multi: true})
		}
	}
	return out
}

// finish renders the verb alternatives of a segment list (reading of ':' as in Spec.lean).
func finish(a alpha, segs []tnode, each func(string)) {
	body := make([]string, len(segs))
	for i, s := range segs {
		body[i] = s.text
	}
	base := "/" + strings.Join(body, "/")
	if len(segs) == 0 {
		each(base)
		for _, v := range a.verbs {
			each(base + ":" + v)
		}
		return
	}
	last := segs[len(segs)-1]
	if last.isVar {
		each(base)
		for _, v := range a.verbs {
			each(base + ":" + v)
			each(base + ":" + v + ":w")
		}
		return
	}
	// the last colon of a last literal starts the verb: every rendering is a derivation, possibly of another tree
	each(base)
	for _, v := range a.verbs {
		each(base + ":" + v)
	}
}

// enumerate all derivations with at most maxSegs top-level segments.
func enumerate(a alpha, maxSegs, maxInner, maxPath int, each func(string)) {
	choices := segChoices(a, maxInner, maxPath)
	var rec func(prefix []tnode)
	rec = func(prefix []tnode) {
		finish(a, prefix, each)
		if len(prefix) == maxSegs || (len(prefix) > 0 && prefix[len(prefix)-1].multi) {
			return
		}
		for _, c := range choices {
			rec(append(append([]tnode{}, prefix...), c))
		}
	}
	rec(nil)
}

func randomDerivation(r *rand.Rand, a alpha) string {
	n := 1 + r.Intn(4)
	if r.Intn(25) == 0 {
		n = 0
	}
	var segs []tnode
	for i := 0; i < n; i++ {
		last := i == n-1
		switch k := r.Intn(10); {
		case k < 4:
			segs = append(segs, tnode{text: common.Pick(r, a.lits), lit: true})
		case k < 5:
			segs = append(segs, tnode{text: "*"})
		case k < 6 && last:
			segs = append(segs, tnode{text: "**", multi: true})
		default:
			np := 1 + r.Intn(3)
			fp := make([]string, np)
			for j := range fp {
				fp[j] = common.Pick(r, a.idents)
			}
			t := "{" + strings.Join(fp, ".")
			if r.Intn(3) > 0 {
				ni := 1 + r.Intn(3)
				in := make([]string, ni)
				for j := range in {
					if r.Intn(3) == 0 {
						in[j] = "*"
					} else {
						in[j] = common.Pick(r, a.lits)
					}
				}
				if last && r.Intn(3) == 0 {
					if r.Intn(2) == 0 {
						in = append(in, "**")
					} else {
						in[ni-1] = "**"
					}
				}
				t += "=" + strings.Join(in, "/")
			}
			segs = append(segs, tnode{text: t + "}", isVar: true})
		}
	}
	var outs []string
	finish(a, segs, func(s string) { outs = append(outs, s) })
	return common.Pick(r, outs)
}

// template punctuation, identifier / literal bytes, every pchar punctuation byte that is not an
// identifier byte, and bytes foreign to templates
var mutAlphabet = []byte("/{}=.*:%a1_A-~ \x00\xff?#[\"$!&'()+,;@9zZ<>\\|^`")

// mutations emits every single-edit mutation of s over the template alphabet.
func mutations(s string, each func(string)) {
	b := []byte(s)
	for i := 0; i <= len(b); i++ {
		for _, c := range mutAlphabet {
			each(string(b[:i]) + string(c) + string(b[i:]))
		}
		if i < len(b) {
			each(string(b[:i]) + string(b[i+1:]))
			for _, c := range mutAlphabet {
				if c != b[i] {
					each(string(b[:i]) + string(c) + string(b[i+1:]))
				}
			}
		}
	}
}

func randomMutation(r *rand.Rand, s string) string {
	b := []byte(s)
	for k := 1 + r.Intn(2); k > 0; k-- {
		i := 0
		if len(b) > 0 {
			i = r.Intn(len(b) + 1)
		}
		c := common.Pick(r, mutAlphabet)
		switch op := r.Intn(4); {
		case op == 0 || len(b) == 0 || i == len(b):
			b = append(b[:i:i], append([]byte{c}, b[i:]...)...)
		case op == 1:
			b = append(b[:i:i], b[i+1:]...)
		case op == 2:
			b[i] = c
		default: // duplicate or swap
			if i+1 < len(b) {
				b[i], b[i+1] = b[i+1], b[i]
			} else {
				b = append(b, b[i])
			}
		}
	}
	return string(b)
}

// ---- trie cases --------------------------------------------------------------------------------

var trieAlpha = alpha{
	lits:   []string{"a", "b", "a:v", "v", "a:b"},
	idents: []string{"x"},
	verbs:  []string{"v", "w", "b"},
}

func randomPathFor(r *rand.Rand, tmpl string) string {
	// instantiate the template textually: variables and wildcards become components
	comps := []string{"a", "b", "x", "a:v", "x:v", "", "v", "a:b", "a:b:c", "x:w:v"}
	var out []string
	body := strings.TrimPrefix(tmpl, "/")
	depth := 0
	cur := ""
	flushSeg := func() {
		switch {
		case strings.HasPrefix(cur, "{"):
			if strings.Contains(cur, "**") {
				for k := r.Intn(3); k >= 0; k-- {
					out = append(out, common.Pick(r, comps))
				}
			} else {
				for k := strings.Count(cur, "/"); k >= 0; k-- {
					out = append(out, common.Pick(r, comps))
				}
			}
		case cur == "*":
			out = append(out, common.Pick(r, comps))
		case cur == "**":
			for k := r.Intn(3); k >= 0; k-- {
				out = append(out, common.Pick(r, comps))
			}
		default:
			out = append(out, cur)
		}
		cur = ""
	}
	for i := 0; i < len(body); i++ {
		c := body[i]
		if c == '{' {
			depth++
		} else if c == '}' {
			depth--
		}
		if c == '/' && depth == 0 {
			flushSeg()
			continue
		}
		cur += string(c)
	}
	// the last piece may carry the verb: keep it textually
	verb := ""
	if j := strings.LastIndex(cur, "}"); j >= 0 {
		verb, cur = cur[j+1:], cur[:j+1]
	} else if j := strings.LastIndex(cur, ":"); j >= 0 {
		verb, cur = cur[j:], cur[:j]
	}
	flushSeg()
	p := "/" + strings.Join(out, "/") + verb
	switch r.Intn(8) {
	case 0:
		p += ":" + common.Pick(r, trieAlpha.verbs)
	case 1:
		if j := strings.LastIndex(p, ":"); j >= 0 {
			p = p[:j]
		}
	case 2:
		p += "/" + common.Pick(r, comps)
	case 3:
		p = strings.TrimPrefix(p, "/")
	}
	return p
}

func (Area) Gen(r *rand.Rand, tier string, emit func(string)) {
	thorough := tier == "thorough"
	count := func(k string) { genCounts[k]++ }
	routeSeq := 0
	parseBoth := func(kind, s string) {
		count(kind)
		emit("gw " + common.HexS(s))
		emit("st " + common.HexS(s))
		// the glue: routing.buildPattern on the same string, and a real PatternRouter probed with the path that
		// equals the template text (what the template would match if it were taken as literals)
		emit("build " + common.HexS(s))
		routeSeq++
		// (thorough: the enumerated derivations are all valid templates; every third goes through a router)
		if strings.HasPrefix(s, "/") && !(thorough && kind == "derivation-enumerated" && routeSeq%3 != 0) {
			emit("route " + common.HexS(s) + " " + common.HexS(s))
		}
		// adapter tie: the structural export of every template the real parser accepts
		if _, err := verifx.GWParse(s); err == nil {
			count("adapter-ast")
			emit("ga " + common.HexS(s))
		}
	}
	tokBoth := func(s string) {
		count("tokenizer")
		emit("gtok " + common.HexS(s))
		emit("stok " + common.HexS(s))
	}

	// 1. every derivation up to the size bound (small alphabet), tokenizers on their bodies
	maxSegs, maxInner, maxPath := 2, 2, 2
	var derivs []string
	enumerate(small, maxSegs, maxInner, maxPath, func(s string) {
		derivs = append(derivs, s)
	})
	if thorough {
		// all derivations with ≤ 2 segments (patterns ≤ 2, field paths ≤ 2), and all with ≤ 3 segments
		// over patterns / field paths of length 1
		for _, s := range derivs {
			parseBoth("derivation-enumerated", s)
		}
		enumerate(small, 3, 1, 1, func(s string) { parseBoth("derivation-enumerated", s) })
	} else {
		// quick: all with ≤ 1 segment, a seeded sample of the 2-segment ones
		var one []string
		enumerate(small, 1, maxInner, maxPath, func(s string) { one = append(one, s) })
		for _, s := range one {
			parseBoth("derivation-enumerated", s)
		}
		for i := 0; i < 4000; i++ {
			parseBoth("derivation-enumerated", common.Pick(r, derivs))
		}
	}
	for i := 0; i < 300; i++ {
		tokBoth(common.Pick(r, derivs)[1:])
	}

	// 2. every single-edit mutation of derivations
	nm := 60
	if thorough {
		nm = 1500
	}
	for i := 0; i < nm; i++ {
		var d string
		if i%2 == 0 {
			d = common.Pick(r, derivs)
		} else {
			d = randomDerivation(r, rich)
		}
		mutations(d, func(s string) { parseBoth("mutation-single-edit", s) })
	}

	// 3. random derivations over the rich alphabet, and random mutations of them
	n := 6000
	if thorough {
		n = 300000
	}
	for i := 0; i < n; i++ {
		d := randomDerivation(r, rich)
		parseBoth("derivation-random", d)
		parseBoth("mutation-random", randomMutation(r, d))
		if i%4 == 0 {
			if m := randomMutation(r, d); len(m) > 0 {
				tokBoth(m[1:])
			}
		}
	}

	// 3b. byte sweep: every byte value at every kind of position (literal, identifier start / rest,
	// after '.', pattern, verb after a literal / after a variable, percent-escape digits)
	for b := 0; b < 256; b++ {
		c := string([]byte{byte(b)})
		for _, f := range []string{"/%s", "/a%s", "/{%s}", "/{a%s}", "/{a.%s}", "/{a.b%s}", "/{a=%s}", "/{a=b%s}", "/{a=b/%s}", "/a:%s", "/a:v%s", "/{a}:%s", "/{a}%s", "/%%%s0", "/%%0%s", "/a:%%%s0", "/a/%s/b", "/%s/b"} {
			parseBoth("byte-sweep", fmt.Sprintf(f, c))
		}
	}

	// 4. arbitrary strings: over the template alphabet, and arbitrary bytes
	talpha := []byte("/{}=.*:%aZ09_-~$@!")
	for i := 0; i < n/2; i++ {
		s := string(common.RandBytes(r, r.Intn(9), talpha))
		if r.Intn(4) > 0 {
			s = "/" + s
		}
		parseBoth("random-template-alphabet", s)
		if i%4 == 0 {
			tokBoth(s)
		}
	}
	for i := 0; i < n/6; i++ {
		s := string(common.RandBytes(r, r.Intn(8), nil))
		if r.Intn(2) > 0 {
			s = "/" + s
		}
		parseBoth("random-bytes", s)
		tokBoth(s)
	}
	// exhaustive short strings over a small alphabet
	ex := []byte("/{}=.*:a%")
	maxLen := 4
	if thorough {
		maxLen = 5
	}
	var rec func(prefix []byte)
	rec = func(prefix []byte) {
		parseBoth("exhaustive-short", "/"+string(prefix))
		if len(prefix) == maxLen {
			return
		}
		for _, c := range ex {
			rec(append(append([]byte{}, prefix...), c))
		}
	}
	rec(nil)

	// 5. trie: small template sets with colliding literals / verbs, paths derived from them
	nt := 4000
	if thorough {
		nt = 150000
	}
	methods := []string{"GET", "POST"}
	for i := 0; i < nt; i++ {
		k := 1 + r.Intn(5)
		var tmpls, entries []string
		for j := 0; j < k; j++ {
			t := randomDerivation(r, trieAlpha)
			if r.Intn(12) == 0 {
				t = randomMutation(r, t)
			}
			m := methods[0]
			if r.Intn(5) == 0 {
				m = methods[1]
			}
			tmpls = append(tmpls, t)
			entries = append(entries, common.HexS(m)+":"+common.HexS(t))
		}
		p := randomPathFor(r, common.Pick(r, tmpls))
		m := methods[0]
		if r.Intn(8) == 0 {
			m = methods[1]
		}
		count("trie")
		emit("trie " + strings.Join(entries, ",") + " " + common.HexS(m) + " " + common.HexS(p))
	}
}
