// Package c20 is the correspondence area of property C20 (stub: the slice is not built yet).
package c20

import (
	"math/rand"
)

type Area struct{}

func (Area) Name() string { return "c20" }

func (Area) Exec(input string) string { return "UNIMPLEMENTED" }

func (Area) Gen(r *rand.Rand, tier string, emit func(string)) {}
