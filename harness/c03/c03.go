// Package c03 is the correspondence area of property C03: HTTP requests route to exactly the binding
// whose path template matches. Three streams (first field of the line):
//
//	m  one template against one component list: real gwbased.Parse + Compile + runtime.NewPattern + MatchAndEscape
//	u  request-target parsing: real url.ParseRequestURI / http.ReadRequest / a real net/http server reading the
//	   request line from a TCP connection (kinds pru / req / srv): Path, RawPath, EscapedPath
//	r  the real routing.PatternRouter (Watch + UpdateDesc per generated bridgedesc.Target, fake pool) + RouteHTTP
//	   (kinds req / raw / path / srv; srv = RouteHTTP called inside the handler of a real net/http server)
//
// The line formats are documented in lean/GB/C03/Driver.lean.
package c03

import (
	"bufio"
	"context"
	"errors"
	"fmt"
	"io"
	"math/rand"
	"net"
	"net/http"
	"net/http/httptest"
	"net/url"
	"sort"
	"strconv"
	"strings"
	"sync"
	"time"

	"github.com/grpc-ecosystem/grpc-gateway/v2/runtime"
	"github.com/renbou/grpcbridge/bridgedesc"
	"github.com/renbou/grpcbridge/grpcadapter"
	"github.com/renbou/grpcbridge/routing"
	"github.com/renbou/grpcbridge/verifx"
	"google.golang.org/grpc/codes"
	"google.golang.org/grpc/status"
	"google.golang.org/protobuf/reflect/protoreflect"
	"verif/harness/common"
)

type Area struct{}

func (Area) Name() string { return "c03" }

// ---------------------------------------------------------------------------------------------
// template AST (generator side) and its two renderings: line format and template text

type part struct {
	kind byte // 'L', 'S', 'D'
	lit  string
}

type seg struct {
	kind  byte // 'L', 'S', 'D', 'V'
	lit   string
	path  string
	parts []part
}

type tmpl struct {
	segs []seg
	verb string
}

const eof = "\x00"

func (p part) enc() string {
	if p.kind == 'L' {
		return "L" + common.HexS(p.lit)
	}
	return string(p.kind)
}

func (s seg) enc() string {
	if s.kind == 'V' {
		ps := make([]string, len(s.parts))
		for i, p := range s.parts {
			ps[i] = p.enc()
		}
		return "V" + common.HexS(s.path) + ":" + strings.Join(ps, ".")
	}
	return part{s.kind, s.lit}.enc()
}

func (t tmpl) enc() string {
	ss := make([]string, len(t.segs))
	for i, s := range t.segs {
		ss[i] = s.enc()
	}
	return strings.Join(ss, ",") + "|" + common.HexS(t.verb)
}

func (p part) text() string {
	switch p.kind {
	case 'S':
		return "*"
	case 'D':
		return "**"
	}
	if p.lit == eof {
		return ""
	}
	return p.lit
}

func (t tmpl) text() string {
	ss := make([]string, len(t.segs))
	for i, s := range t.segs {
		if s.kind == 'V' {
			ps := make([]string, len(s.parts))
			for j, p := range s.parts {
				ps[j] = p.text()
			}
			ss[i] = "{" + s.path + "=" + strings.Join(ps, "/") + "}"
		} else {
			ss[i] = part{s.kind, s.lit}.text()
		}
	}
	out := "/" + strings.Join(ss, "/")
	if t.verb != "" {
		out += ":" + t.verb
	}
	return out
}

func decPart(s string) part {
	if s == "S" || s == "D" {
		return part{kind: s[0]}
	}
	if strings.HasPrefix(s, "L") {
		return part{kind: 'L', lit: string(common.MustUnHex(s[1:]))}
	}
	panic("bad part " + s)
}

func decAst(s string) tmpl {
	segsS, verbS, ok := strings.Cut(s, "|")
	if !ok {
		panic("bad ast " + s)
	}
	var t tmpl
	t.verb = string(common.MustUnHex(verbS))
	if segsS == "" {
		return t
	}
	for _, x := range strings.Split(segsS, ",") {
		if strings.HasPrefix(x, "V") {
			p, ps, _ := strings.Cut(x[1:], ":")
			sg := seg{kind: 'V', path: string(common.MustUnHex(p))}
			for _, y := range strings.Split(ps, ".") {
				sg.parts = append(sg.parts, decPart(y))
			}
			t.segs = append(t.segs, sg)
		} else {
			p := decPart(x)
			t.segs = append(t.segs, seg{kind: p.kind, lit: p.lit})
		}
	}
	return t
}

// tspecText returns the template text of a tspec (`A:`ast | `R:`hex).
func tspecText(s string) string {
	switch {
	case strings.HasPrefix(s, "A:"):
		return decAst(s[2:]).text()
	case strings.HasPrefix(s, "R:"):
		return string(common.MustUnHex(s[2:]))
	}
	panic("bad tspec " + s)
}

// encParsed renders what the real parser returned in the AST line format ("ERR" when it refused).
func encParsed(text string) (string, verifx.GWCompiler) {
	c, err := verifx.GWParse(text)
	if err != nil {
		return "ERR", nil
	}
	segs, verb, ok := verifx.GWSegments(c)
	if !ok {
		return "ERR", nil
	}
	var t tmpl
	t.verb = verb
	for _, s := range segs {
		sg := seg{kind: s.Kind, lit: s.Lit, path: s.Path}
		for _, p := range s.Parts {
			sg.parts = append(sg.parts, part{kind: p.Kind, lit: p.Lit})
		}
		t.segs = append(t.segs, sg)
	}
	return t.enc(), c
}

func hexList(xs []string) string {
	if len(xs) == 0 {
		return "-"
	}
	out := make([]string, len(xs))
	for i, x := range xs {
		out[i] = common.HexS(x)
	}
	return strings.Join(out, ",")
}

func unHexList(s string) []string {
	if s == "-" {
		return []string{}
	}
	var out []string
	for _, x := range strings.Split(s, ",") {
		out = append(out, string(common.MustUnHex(x)))
	}
	return out
}

func canonParams(m map[string]string) string {
	if len(m) == 0 {
		return "-"
	}
	var keys []string
	for k := range m {
		keys = append(keys, common.HexS(k)) // hex preserves the byte order of the keys
	}
	sort.Strings(keys)
	kv := make([]string, len(keys))
	for i, k := range keys {
		kv[i] = k + "=" + common.HexS(m[string(common.MustUnHex(k))])
	}
	return strings.Join(kv, ",")
}

// ---------------------------------------------------------------------------------------------
// Exec

func (Area) Exec(input string) string {
	f := strings.Fields(input)
	switch f[0] {
	case "m":
		return execMatch(f[1], f[2], f[3])
	case "u":
		return execURL(f[1], string(common.MustUnHex(f[2])))
	case "r":
		return execRoute(f[1], string(common.MustUnHex(f[2])), f[3], string(common.MustUnHex(f[4])))
	}
	return "BADOP"
}

func execMatch(tspec, compsS, verbS string) string {
	text := tspecText(tspec)
	comps := unHexList(compsS)
	verb := string(common.MustUnHex(verbS))
	ast, c := encParsed(text)
	if c == nil {
		return "ERR"
	}
	tp := c.Compile()
	ops := "-"
	if len(tp.OpCodes) > 0 {
		xs := make([]string, len(tp.OpCodes))
		for i, o := range tp.OpCodes {
			xs[i] = strconv.Itoa(o)
		}
		ops = strings.Join(xs, ",")
	}
	head := fmt.Sprintf("%s %s %s %s %s", ast, ops, hexList(tp.Pool), common.HexS(tp.Verb), hexList(tp.Fields))
	pat, err := runtime.NewPattern(tp.Version, tp.OpCodes, tp.Pool, tp.Verb)
	if err != nil {
		return "- E " + head
	}
	res, err := pat.MatchAndEscape(comps, verb, runtime.UnescapingModeAllExceptReserved)
	var mse runtime.MalformedSequenceError
	switch {
	case err == nil:
		return "ok:" + canonParams(res) + " P " + head
	case errors.As(err, &mse):
		return "mal P " + head
	case errors.Is(err, runtime.ErrNotMatch):
		return "nm P " + head
	}
	return "othererr P " + head
}

func readRequest(target string) (*http.Request, error) {
	req, err := http.ReadRequest(bufio.NewReader(strings.NewReader("GET " + target + " HTTP/1.1\r\nHost: x\r\n\r\n")))
	if err != nil {
		return nil, err
	}
	if req.RequestURI != target {
		// the request line was cut somewhere else (space / line break inside the target): not this target
		return nil, errors.New("request line does not carry the target")
	}
	return req, nil
}

func execURL(kind, target string) string {
	var u *url.URL
	switch kind {
	case "pru":
		x, err := url.ParseRequestURI(target)
		if err != nil {
			return "err"
		}
		u = x
	case "req":
		req, err := readRequest(target)
		if err != nil {
			return "err"
		}
		u = req.URL
	case "srv":
		urlSrvOnce.Do(func() {
			urlSrv = httptest.NewServer(http.HandlerFunc(func(w http.ResponseWriter, r *http.Request) {
				fmt.Fprintf(w, "ok %s %s %s", common.HexS(r.URL.Path), common.HexS(r.URL.RawPath), common.HexS(r.URL.EscapedPath()))
			}))
		})
		code, body := rawRoundTrip(urlSrv.Listener.Addr().String(), "GET", target)
		switch {
		case code == 200:
			return body
		case code == 400:
			return "err"
		}
		return fmt.Sprintf("SRVERR-%d", code)
	default:
		return "BADKIND"
	}
	return fmt.Sprintf("ok %s %s %s", common.HexS(u.Path), common.HexS(u.RawPath), common.HexS(u.EscapedPath()))
}

var (
	urlSrvOnce sync.Once
	urlSrv     *httptest.Server
)

// rawRoundTrip writes one HTTP/1.1 request with the given request-target VERBATIM on the request line to a real
// net/http server over TCP and returns status code and body (code 0 = transport failure).
func rawRoundTrip(addr, method, target string) (int, string) {
	c, err := net.DialTimeout("tcp", addr, 5*time.Second)
	if err != nil {
		return 0, ""
	}
	defer c.Close()
	_ = c.SetDeadline(time.Now().Add(10 * time.Second))
	if _, err := io.WriteString(c, method+" "+target+" HTTP/1.1\r\nHost: x\r\nConnection: close\r\n\r\n"); err != nil {
		return 0, ""
	}
	resp, err := http.ReadResponse(bufio.NewReader(c), &http.Request{Method: method})
	if err != nil {
		return 0, ""
	}
	defer resp.Body.Close()
	b, _ := io.ReadAll(resp.Body)
	if len(b) == 0 && resp.Header.Get("X-Route-Result") != "" {
		return resp.StatusCode, resp.Header.Get("X-Route-Result")
	}
	return resp.StatusCode, string(b)
}

type fakeConn struct{}

func (fakeConn) Stream(ctx context.Context, method string) (grpcadapter.ClientStream, error) {
	return nil, errors.New("fake")
}
func (fakeConn) Close() {}

type fakePool struct{}

func (fakePool) Get(target string) (grpcadapter.ClientConn, bool) { return fakeConn{}, true }

func execRoute(table, method, kind, x string) string {
	router := routing.NewPatternRouter(fakePool{}, routing.PatternRouterOpts{})
	var targets []*bridgedesc.Target
	var parsed []string
	for ti, ts := range strings.Split(table, ";") {
		t := &bridgedesc.Target{Name: fmt.Sprintf("t%d", ti)}
		for si, ss := range strings.Split(ts, "+") {
			svc := bridgedesc.Service{Name: protoreflect.FullName(fmt.Sprintf("pkg.S%d_%d", ti, si))}
			for _, ms := range strings.Split(ss, "!") {
				fs := strings.Split(ms, "~")
				m := bridgedesc.Method{RPCName: string(common.MustUnHex(fs[0]))}
				p, _ := encParsed(m.RPCName)
				parsed = append(parsed, p)
				for _, bs := range fs[1:] {
					hm, tspec, _ := strings.Cut(bs, "@")
					text := tspecText(tspec)
					m.Bindings = append(m.Bindings, bridgedesc.Binding{HTTPMethod: string(common.MustUnHex(hm)), Pattern: text})
					p, _ := encParsed(text)
					parsed = append(parsed, p)
				}
				svc.Methods = append(svc.Methods, m)
			}
			t.Services = append(t.Services, svc)
		}
		targets = append(targets, t)
	}
	for _, t := range targets {
		w, err := router.Watch(t.Name)
		if err != nil {
			return "WATCHERR"
		}
		w.UpdateDesc(t)
	}
	head := strings.Join(parsed, ";")

	if kind == "srv" {
		srv := httptest.NewServer(http.HandlerFunc(func(w http.ResponseWriter, r *http.Request) {
			res := routeOne(router, targets, r, head)
			w.Header().Set("X-Route-Result", res) // a HEAD response carries no body
			io.WriteString(w, res)
		}))
		defer srv.Close()
		code, body := rawRoundTrip(srv.Listener.Addr().String(), method, x)
		switch {
		case code == 200:
			return body
		case code == 400:
			return "urlerr " + head
		}
		return fmt.Sprintf("SRVERR-%d %s", code, head)
	}
	var req *http.Request
	switch kind {
	case "req":
		r, err := readRequest(x)
		if err != nil {
			return "urlerr " + head
		}
		req = r
		req.Method = method
	case "raw":
		req = &http.Request{Method: method, URL: &url.URL{RawPath: x}}
	case "path":
		req = &http.Request{Method: method, URL: &url.URL{Path: x}}
	default:
		return "BADKIND"
	}
	return routeOne(router, targets, req, head)
}

func routeOne(router *routing.PatternRouter, targets []*bridgedesc.Target, req *http.Request, head string) string {
	conn, route, err := router.RouteHTTP(req)
	if err != nil {
		st, _ := status.FromError(err)
		switch st.Code() {
		case codes.NotFound:
			return "err:NotFound " + head
		case codes.InvalidArgument:
			return "err:InvalidArgument " + head
		}
		return "err:" + st.Code().String() + " " + head
	}
	if conn == nil || route.Target == nil || route.Service == nil || route.Method == nil || route.Binding == nil {
		return "incomplete-route " + head
	}
	ti, si, mi, bi := -1, -1, -1, "d"
	for i, t := range targets {
		if t == route.Target {
			ti = i
		}
	}
	if ti >= 0 {
		for i := range targets[ti].Services {
			if &targets[ti].Services[i] == route.Service {
				si = i
			}
		}
	}
	if si >= 0 {
		ms := targets[ti].Services[si].Methods
		for i := range ms {
			if &ms[i] == route.Method {
				mi = i
			}
		}
		if mi >= 0 {
			for i := range ms[mi].Bindings {
				if &ms[mi].Bindings[i] == route.Binding {
					bi = strconv.Itoa(i)
				}
			}
			if bi == "d" && len(ms[mi].Bindings) > 0 {
				bi = "unknown-binding"
			}
		}
	}
	return fmt.Sprintf("found:%d:%d:%d:%s:%s %s", ti, si, mi, bi, canonParams(route.PathParams), head)
}

// ---------------------------------------------------------------------------------------------
// Gen

var (
	litPool   = []string{"a", "b", "v1", "users", "x.y", "a-b", "~", "a%41", "%2F", "items", "A", "a+b", "@me", "c", "v"}
	pathPool  = []string{"x", "id", "name", "a.b", "user.id", "x_1", "parent"}
	verbPool  = []string{"get", "watch", "v", "x", "a-b", "get"}
	methPool  = []string{"GET", "POST", "GET", "POST", "PUT", "DELETE", "get"}
	segPool   = []string{"a", "b", "c", "v1", "users", "", "x%2Fy", "%41", "%25", "%2541", "%zz", "%", "a%", "a%4", "\xc3\xa9", "a b", "a+b", "a:b", ":get", "a:get", "x:v", "%3A", "%3a", "%2f", "~", "A", "a%41", "%2F", "%3Fq", "a;b", "%23", "%5B%5D", "100%", "%%", "%00", "a\x7fb", "%e4%b8%96", "..", "."}
	// verbs with ':' (only behind a final variable) and literals with ':' (only before the last segment)
	colonVerbPool = []string{"batch:cancel", "a:b", "v:v", "x:get", "a:b:c", "get:", ":v", "a:", "b:cancel", "watch:x"}
	colonLitPool  = []string{"a:b", "x:get", ":v", "a:", "v1:batch", "a:b:c"}
	// HTTP methods that are (almost) never bound in a generated table: every path is also probed with them — the
	// method is a case-sensitive token compared byte for byte, there is no HEAD->GET / OPTIONS / lower-case fallback
	foreignMethPool = []string{"HEAD", "OPTIONS", "PUT", "PATCH", "DELETE", "TRACE", "CONNECT", "PROPFIND", "get", "Get", "post", "GETX", "GE"}
	exSymbols = []string{"a", "b", "", "%2F", "a:v", "%zz"}
)

var dist = map[string]int{}

func (Area) Extra() map[string]any {
	out := map[string]any{}
	for k, v := range dist {
		out[k] = v
	}
	return out
}

func genPart(r *rand.Rand, allowDeep bool) part {
	switch k := r.Intn(10); {
	case k < 5:
		return part{kind: 'L', lit: common.Pick(r, litPool)}
	case k < 8 || !allowDeep:
		return part{kind: 'S'}
	default:
		return part{kind: 'D'}
	}
}

// genTmpl produces a grammar-directed template; deepBudget bounds the number of `**` (2 ⇒ sometimes invalid patterns).
func genTmpl(r *rand.Rand) tmpl {
	if r.Intn(60) == 0 {
		return tmpl{segs: []seg{{kind: 'L', lit: eof}}} // the template "/"
	}
	deepBudget := 1
	if r.Intn(25) == 0 {
		deepBudget = 2
	}
	n := 1 + r.Intn(4)
	var t tmpl
	for i := 0; i < n; i++ {
		switch k := r.Intn(100); {
		case k < 50:
			t.segs = append(t.segs, seg{kind: 'L', lit: common.Pick(r, litPool)})
		case k < 63:
			t.segs = append(t.segs, seg{kind: 'S'})
		case k < 70:
			if deepBudget > 0 {
				deepBudget--
				t.segs = append(t.segs, seg{kind: 'D'})
			} else {
				t.segs = append(t.segs, seg{kind: 'S'})
			}
		default:
			sg := seg{kind: 'V', path: common.Pick(r, pathPool)}
			np := 1
			if r.Intn(3) == 0 {
				np = 2 + r.Intn(2)
			}
			for j := 0; j < np; j++ {
				p := genPart(r, deepBudget > 0)
				if p.kind == 'D' {
					deepBudget--
				}
				sg.parts = append(sg.parts, p)
			}
			t.segs = append(t.segs, sg)
		}
	}
	if r.Intn(10) < 3 {
		t.verb = common.Pick(r, verbPool)
	}
	// a literal containing ':' that is NOT a verb: only in front of the last segment (in the last one the
	// parser reads the text after the last ':' as the verb)
	if len(t.segs) >= 2 && r.Intn(12) == 0 {
		if i := r.Intn(len(t.segs) - 1); t.segs[i].kind == 'L' {
			t.segs[i].lit = common.Pick(r, colonLitPool)
		}
	}
	// after a closing '}' the verb is EVERYTHING behind the first ':' (gwbased tokenize): verbs containing ':'
	if last := t.segs[len(t.segs)-1]; last.kind == 'V' && r.Intn(4) == 0 {
		t.verb = common.Pick(r, colonVerbPool)
		dist["tmpl-colon-verb"]++
	}
	return t
}

// verbFamily: copies of t (which ends in a variable) whose verbs are suffixes of one another / contain ':' —
// bindings competing for the same last path segment
func verbFamily(r *rand.Rand, t tmpl) []tmpl {
	fam := common.Pick(r, [][]string{
		{"batch:cancel", "cancel", ""}, {"cancel", "batch:cancel"}, {"a:b", "b", "a"}, {"b", "a:b", ""}, {"", "v:v", "v"},
		{"x:", "x"}, {"a:b:c", "b:c", "c"}, {"c", "a:b:c"}, {":v", "v"}, {"get", "x:get", ""},
	})
	var out []tmpl
	for _, v := range fam {
		c := tmpl{segs: append([]seg{}, t.segs...), verb: v}
		out = append(out, c)
	}
	return out
}

var (
	authUserPool = []string{"", "u@", "u:p@", "u:p:q@", "u%40x:p%3A@", "u%4@", "%zz@", "u:%@", "u:p%@", "%:41@", "a b@", "\xc3\xa9@", "u@v@", "!$&'()*+,;=-._~@", "u[@", "u%2Fx@", "@", ":@", "%41:%42@", "u<@", "u\"@"}
	authHostPool = []string{"h", "example.org", "H-1.x", "h_x", "h~", "h%41", "h%C3%A9", "h%c3%a9", "h%25", "h%2", "h%", "h%zz", "h%7F", "h%80", "\xc3\xa9", "h<>\"", "h|", "h^", "h\\", "h{}", "h`", "h,;=+*()'&$!", "h#", "h x",
		"[::1]", "[fe80::1%25en0]", "[fe80::1%25en%20x]", "[fe80::1%25%41]", "[fe80::1%25%2F]", "[fe80::1%25%7C]", "[fe80::1%25%zz]", "[fe80::1%25a|b]", "[fe80::1%2541]", "[::1", "::1]", "[]", "[a]b", "[::1%41]", "[%25]", "[%25%25]", "[x%C3%A9%25z]", "[[::1]]", "[::1]]", "", "1.2.3.4", "[", "]", "[]]", "[::1%25"}
	authPortPool = []string{"", ":", ":80", ":8x", ":80:90", ":-1", ":0000065536", "::", ":%38%30", ":8 0"}
	authBytes    = []byte("hH1.-_~:@[]%25zC3A9/?#!$&'()*+,;=<>\"| \\^`{}\x7f\x80\xff\x00")
)

// genAuthority: mostly a pool combination, sometimes with a random byte inserted / replaced / deleted
func genAuthority(r *rand.Rand) string {
	a := common.Pick(r, authUserPool) + common.Pick(r, authHostPool) + common.Pick(r, authPortPool)
	if r.Intn(3) == 0 {
		b := []byte(a)
		pos := r.Intn(len(b) + 1)
		c := authBytes[r.Intn(len(authBytes))]
		switch r.Intn(3) {
		case 0:
			b = append(b[:pos:pos], append([]byte{c}, b[pos:]...)...)
		case 1:
			if pos < len(b) {
				b[pos] = c
			}
		case 2:
			if pos < len(b) {
				b = append(b[:pos:pos], b[pos+1:]...)
			}
		}
		a = string(b)
	}
	return a
}

// srvSafe: the string can stand on a request line written to a real server without being cut or changing the
// meaning of the line (no space, control byte, DEL; not empty)
func srvSafe(s string) bool {
	if s == "" {
		return false
	}
	for i := 0; i < len(s); i++ {
		if s[i] <= ' ' || s[i] == 0x7f {
			return false
		}
	}
	return true
}

func randSeg(r *rand.Rand) string {
	switch r.Intn(12) {
	case 0: // %XX of a random byte of any class
		b := byte(r.Intn(256))
		h := fmt.Sprintf("%%%02X", b)
		if r.Intn(2) == 0 {
			h = strings.ToLower(h)
		}
		return common.Pick(r, []string{"", "a", "x"}) + h + common.Pick(r, []string{"", "b", "%2F"})
	case 1: // random printable bytes
		return string(common.RandBytes(r, 1+r.Intn(4), []byte("abAB01-._~!$&'()*+,;=:@%/? #[]")))
	case 2:
		return string(common.RandBytes(r, 1+r.Intn(3), nil))
	}
	return common.Pick(r, segPool)
}

// instantiate returns raw path segments that match t by construction (unless a drawn segment is malformed).
func instantiate(r *rand.Rand, t tmpl) []string {
	var out []string
	add := func(p part) {
		switch p.kind {
		case 'L':
			if p.lit == eof {
				out = append(out, "")
			} else {
				out = append(out, p.lit)
			}
		case 'S':
			out = append(out, randSeg(r))
		case 'D':
			for i, n := 0, r.Intn(4); i < n; i++ {
				out = append(out, randSeg(r))
			}
		}
	}
	for _, s := range t.segs {
		if s.kind == 'V' {
			for _, p := range s.parts {
				add(p)
			}
		} else {
			add(part{s.kind, s.lit})
		}
	}
	if t.verb != "" {
		if len(out) == 0 {
			out = append(out, "")
		}
		out[len(out)-1] += ":" + t.verb
	}
	return out
}

func mutate(r *rand.Rand, segs []string) []string {
	segs = append([]string{}, segs...)
	switch r.Intn(16) {
	case 0: // drop
		if len(segs) > 0 {
			i := r.Intn(len(segs))
			segs = append(segs[:i], segs[i+1:]...)
		}
	case 1: // duplicate
		if len(segs) > 0 {
			i := r.Intn(len(segs))
			segs = append(segs[:i+1], segs[i:]...)
		}
	case 2: // empty segment
		if len(segs) > 0 {
			segs[r.Intn(len(segs))] = ""
		}
	case 3: // trailing slash
		segs = append(segs, "")
	case 4: // replace
		if len(segs) > 0 {
			segs[r.Intn(len(segs))] = randSeg(r)
		}
	case 5: // strip verb
		if len(segs) > 0 {
			l := segs[len(segs)-1]
			if i := strings.LastIndex(l, ":"); i >= 0 {
				segs[len(segs)-1] = l[:i]
			}
		}
	case 6: // add / change verb
		if len(segs) > 0 {
			segs[len(segs)-1] += ":" + common.Pick(r, verbPool)
		}
	case 7: // the last segment is only a verb
		if len(segs) > 0 {
			segs[len(segs)-1] = ":" + common.Pick(r, verbPool)
		}
	case 8: // insert
		i := r.Intn(len(segs) + 1)
		segs = append(segs[:i], append([]string{randSeg(r)}, segs[i:]...)...)
	}
	return segs
}

func genTable(r *rand.Rand) (string, []tmpl, []string) {
	// a small pool of templates per table so that bindings overlap / share prefixes
	pool := make([]tmpl, 2+r.Intn(4))
	for i := range pool {
		pool[i] = genTmpl(r)
		isRoot := func(t tmpl) bool { return len(t.segs) == 1 && t.segs[0].lit == eof }
		if i > 0 && r.Intn(3) == 0 && !isRoot(pool[i]) && !isRoot(pool[i-1]) { // share a prefix with the previous one
			prev := pool[i-1]
			k := 1 + r.Intn(len(prev.segs))
			pool[i].segs = append(append([]seg{}, prev.segs[:k]...), pool[i].segs...)
			if len(pool[i].segs) > 5 {
				pool[i].segs = pool[i].segs[:5]
			}
		}
	}
	if r.Intn(5) == 0 { // competing verbs on one shape: /…/{x}:a:b, /…/{x}:b, /…/{x}
		base := pool[r.Intn(len(pool))]
		if n := len(base.segs); n > 0 && base.segs[n-1].kind != 'V' && !(n == 1 && base.segs[0].lit == eof) {
			base.segs = append(append([]seg{}, base.segs...), seg{kind: 'V', path: common.Pick(r, pathPool), parts: []part{{kind: 'S'}}})
		}
		if n := len(base.segs); n > 0 && base.segs[n-1].kind == 'V' {
			pool = append(pool, verbFamily(r, base)...)
			dist["table-verb-family"]++
		}
	}
	for i := range pool { // a verb containing ':' is only expressible behind a final variable
		if n := len(pool[i].segs); strings.Contains(pool[i].verb, ":") && (n == 0 || pool[i].segs[n-1].kind != 'V') {
			pool[i].verb = common.Pick(r, verbPool)
		}
		// … and a literal containing ':' only in front of the last segment
		if n := len(pool[i].segs); n > 0 && pool[i].segs[n-1].kind == 'L' && strings.Contains(pool[i].segs[n-1].lit, ":") {
			pool[i].segs = append([]seg{}, pool[i].segs...)
			pool[i].segs[n-1].lit = "c"
		}
	}
	var all []tmpl
	var allM []string
	nb := 0
	var ts []string
	for ti, nt := 0, 1+r.Intn(3); ti < nt; ti++ {
		var ss []string
		for si, ns := 0, 1+r.Intn(2); si < ns; si++ {
			var ms []string
			for mi, nm := 0, 1+r.Intn(3); mi < nm; mi++ {
				name := fmt.Sprintf("/pkg.S%d_%d/M%d", ti, si, mi)
				if r.Intn(40) == 0 {
					name = common.Pick(r, []string{"/p.S/M:x", "p.S/M", "/p.S/{a}", "/", "/p.S/**", "//", "/p.S/M/", ""})
				}
				m := common.HexS(name)
				k := r.Intn(4)
				if nb >= 8 {
					k = 0
				}
				if k == 0 {
					all = append(all, tmpl{segs: nil})
					allM = append(allM, "POST "+name)
				}
				for bi := 0; bi < k; bi++ {
					hm := common.Pick(r, methPool)
					var spec string
					if r.Intn(25) == 0 {
						raw := common.Pick(r, []string{"a/b", "/a/{x", "/a//b", "/{a=**}/{b=**}", "/a/b:", "/a:b:c", "/{x}:v:w", "/a/%zz", "/a/{x=*}}", "/a b", "/{a.b.c}", "/v1/{name=users/*}:get", "/a:%zz", "/**/a/*", ""})
						spec = "R:" + common.HexS(raw)
					} else {
						t := common.Pick(r, pool)
						spec = "A:" + t.enc()
						all = append(all, t)
						allM = append(allM, hm)
					}
					m += "~" + common.HexS(hm) + "@" + spec
					nb++
				}
				ms = append(ms, m)
			}
			ss = append(ss, strings.Join(ms, "!"))
		}
		ts = append(ts, strings.Join(ss, "+"))
	}
	return strings.Join(ts, ";"), all, allM
}

func (Area) Gen(r *rand.Rand, tier string, emit func(string)) {
	thorough := tier == "thorough"
	count := func(k string) { dist[k]++ }

	// --- built-in cases: the D2 / D3 witnesses, the cases pinned by the repo's own test-suite shapes
	tA := tmpl{segs: []seg{{kind: 'L', lit: "a"}, {kind: 'S'}}, verb: "get"}
	tB := tmpl{segs: []seg{{kind: 'L', lit: "a"}, {kind: 'S'}}}
	tV := tmpl{segs: []seg{{kind: 'L', lit: "v"}, {kind: 'V', path: "x", parts: []part{{kind: 'S'}}}}}
	tW := tmpl{segs: []seg{{kind: 'L', lit: "w"}, {kind: 'V', path: "p", parts: []part{{kind: 'D'}}}}, verb: "watch"}
	tbl := common.HexS("/p.S/A") + "~" + common.HexS("GET") + "@A:" + tA.enc() +
		"!" + common.HexS("/p.S/B") + "~" + common.HexS("GET") + "@A:" + tB.enc() + "~" + common.HexS("GET") + "@A:" + tV.enc() +
		"!" + common.HexS("/p.S/C") +
		";" + common.HexS("/q.S/W") + "~" + common.HexS("POST") + "@A:" + tW.enc() + "~" + common.HexS("GET") + "@A:" + tB.enc()
	for _, target := range []string{"/a/:get", "/a/x:get", "/v/%2541", "/v/%25zz", "/v/%41", "/v/a%2Fb", "/v/%zz", "/a/", "/a", "/", "", "a/b", "/v/x?q=1", "/v/x?", "/a/b/", "//a/b", "/v/%", "*", "/v/a b", "/p.S/C"} {
		for _, kind := range []string{"req", "raw", "path"} {
			emit(fmt.Sprintf("r %s %s %s %s", tbl, common.HexS("GET"), kind, common.HexS(target)))
		}
	}
	for _, target := range []string{"/p.S/C", "/p.S/C/", "/p.S/A", "/w/a/b%2Fc/d:watch", "/w/:watch", "/w:watch", "/w/%2f%41:watch"} {
		for _, kind := range []string{"req", "raw", "path"} {
			emit(fmt.Sprintf("r %s %s %s %s", tbl, common.HexS("POST"), kind, common.HexS(target)))
		}
	}
	// exact HTTP method: a path that a GET / POST binding matches, asked with every method that has no binding in the
	// table (seeded C03-m12: commit() aliased the GET list under HEAD) and with the other bound method
	for _, target := range []string{"/a/x", "/v/x", "/a/x:get", "/p.S/C", "/w/a/b:watch", "/", "/nope"} {
		for _, m := range append([]string{"GET", "POST"}, foreignMethPool...) {
			for _, kind := range []string{"req", "raw", "path", "srv"} {
				if kind == "srv" && m == "CONNECT" {
					continue
				}
				count("r-method-builtin")
				emit(fmt.Sprintf("r %s %s %s %s", tbl, common.HexS(m), kind, common.HexS(target)))
			}
		}
	}
	// verbs containing ':' (behind a variable the verb is everything after the first ':'): the verb must be cut
	// PER ROUTE at ":"+<that route's verb>, never once at the last ':' (C03_verb_split_per_route; seeded C03-m10)
	{
		v1 := seg{kind: 'L', lit: "v1"}
		name := seg{kind: 'V', path: "name", parts: []part{{kind: 'S'}}}
		qs := seg{kind: 'V', path: "name", parts: []part{{kind: 'L', lit: "queues"}, {kind: 'S'}}}
		bc := tmpl{segs: []seg{v1, name}, verb: "batch:cancel"}
		cc := tmpl{segs: []seg{v1, name}, verb: "cancel"}
		nn := tmpl{segs: []seg{v1, name}}
		bp := tmpl{segs: []seg{v1, qs}, verb: "batch:purge"}
		mk := func(ts ...tmpl) string {
			var ms []string
			for i, t := range ts {
				hm := "POST"
				if t.verb == "batch:purge" {
					hm = "DELETE"
				}
				ms = append(ms, common.HexS(fmt.Sprintf("/s.J/M%d", i))+"~"+common.HexS(hm)+"@A:"+t.enc())
			}
			return strings.Join(ms, "!")
		}
		for _, tb := range []string{mk(bc, cc, bp), mk(cc, bc, bp), mk(bc, cc, nn, bp), mk(nn, bc, cc), mk(bc, bp), mk(cc, nn, bp)} {
			for _, target := range []string{"/v1/jobs:batch:cancel", "/v1/jobs:cancel", "/v1/jobs", "/v1/:batch:cancel", "/v1/jobs:batch", "/v1/jobs:batch:", "/v1/a%3Ab:batch:cancel", "/v1/jobs:batch%3Acancel", "/v1/jobs:x:batch:cancel"} {
				for _, kind := range []string{"req", "raw", "path", "srv"} {
					count("r-colon-verb-builtin")
					emit(fmt.Sprintf("r %s %s %s %s", tb, common.HexS("POST"), kind, common.HexS(target)))
				}
			}
			for _, target := range []string{"/v1/queues/q1:batch:purge", "/v1/queues/q1:purge", "/v1/queues/:batch:purge", "/v1/queues/q1:batch"} {
				for _, kind := range []string{"req", "raw"} {
					count("r-colon-verb-builtin")
					emit(fmt.Sprintf("r %s %s %s %s", tb, common.HexS("DELETE"), kind, common.HexS(target)))
				}
			}
		}
		for _, t := range []tmpl{bc, cc, nn, bp} {
			for _, l := range [][]string{{"v1", "jobs"}, {"v1", "jobs:batch"}, {"v1", "jobs:batch:cancel"}, {"v1", "queues", "q1"}, {"v1", "queues", "q1:batch"}} {
				for _, v := range []string{"", "cancel", "batch:cancel", "purge", "batch:purge"} {
					count("m-colon-verb-builtin")
					emit(fmt.Sprintf("m A:%s %s %s", t.enc(), hexList(l), common.HexS(v)))
				}
			}
		}
	}
	for _, target := range []string{"/", "/a", "/a%41", "/a%2541", "/a%zz", "/a?b", "/a?", "/a?b?", "/a%3Fb", "/a#b", "/a b", "*", "", "a", "http://h/a", "//h/a", "/a/../b", "/%", "/%4", "/a\x01", "/a\x7f", "/\xc3\xa9", "/%C3%A9", "/a;b,c", "/a[b]", "/a|b", "/!$&'()*+,;=:@", "/a%2Fb", "/a%2fb", "/~-._", "/a\\b", "/a\"b", "/a<b>", "/a^`{}",
		"http://h", "http://h/", "http://h:80/a%2541", "http://h:/a", "http://h:8x/a", "http://u@h/a", "http://[::1]/a", "http://h%41/a", "HTTP://H.example-1.org:8080/v/%2541?q=/x", "http:///a", "http:/a", "http:a", "http:", "http:?q", "http://h?q", "http://h/a?", "https://h/a/b%2Fc", "mailto:x@y", ":a", "1a:b", "a1+.-://h/p", "a/b:c", "a:b:c", "a:/b%zz", "a://h/%zz", "a://h//b", "a://h/a b", "+a://h/a", "a_b://h/a", "a://h:80:90/a", "a://h_x/a", "a://h/\x7f"} {
		emit("u pru " + common.HexS(target))
		emit("u req " + common.HexS(target))
		if srvSafe(target) {
			emit("u srv " + common.HexS(target))
		}
	}
	// absolute-form targets: every built-in userinfo x host x port (parseAuthority / parseHost / validOptionalPort /
	// unescape in the encodeHost, encodeZone and encodeUserPassword modes), each in front of a path that needs RawPath
	for _, ui := range authUserPool {
		for _, h := range authHostPool {
			for _, po := range authPortPool {
				if !thorough && ui != "" && po != "" && po != ":80" {
					continue
				}
				target := "http://" + ui + h + po + "/v/%2541"
				count("u-authority-builtin")
				emit("u pru " + common.HexS(target))
				emit("u req " + common.HexS(target))
				if srvSafe(target) && (thorough || (ui == "" && po == "") || len(h) > 6) {
					count("u-authority-srv")
					emit("u srv " + common.HexS(target))
				}
			}
		}
	}
	// the same through the router (request line -> http.ReadRequest / real server -> RouteHTTP)
	for _, auth := range []string{"h", "u:p@h:80", "u%40x:p%3A@[fe80::1%25en0]:8080", "[::1]", "h%C3%A9", "h%41", "[::1", "u@v@h", "h:8x", "a%zz@h", "h<>", "h|x", "[fe80::1%25%2F]", "%C3%A9", ""} {
		for _, path := range []string{"/v/%2541", "/a/x:get", "", "/", "/v/a%2Fb?q=http://x/y"} {
			for _, kind := range []string{"req", "srv"} {
				count("r-authority-builtin")
				emit(fmt.Sprintf("r %s %s %s %s", tbl, common.HexS("GET"), kind, common.HexS("http://"+auth+path)))
			}
		}
	}

	// --- m: exhaustive small space: templates of ≤ 2 (quick) / ≤ 3 (thorough) segments over 7 segment shapes
	// × verb/no verb, against every component list of ≤ 3 components over a 6-symbol alphabet × 2 verbs
	shapes := []seg{
		{kind: 'L', lit: "a"}, {kind: 'L', lit: "b"}, {kind: 'S'}, {kind: 'D'},
		{kind: 'V', path: "x", parts: []part{{kind: 'S'}}},
		{kind: 'V', path: "x", parts: []part{{kind: 'D'}}},
		{kind: 'V', path: "y", parts: []part{{kind: 'L', lit: "a"}, {kind: 'S'}}},
	}
	var lists [][]string
	var recL func(prefix []string)
	recL = func(prefix []string) {
		lists = append(lists, append([]string{}, prefix...))
		if len(prefix) == 3 {
			return
		}
		for _, s := range exSymbols {
			recL(append(append([]string{}, prefix...), s))
		}
	}
	recL(nil)
	maxT := 2
	if thorough {
		maxT = 3
	}
	var recT func(prefix []seg)
	recT = func(prefix []seg) {
		if len(prefix) > 0 {
			for _, verb := range []string{"", "v"} {
				t := tmpl{segs: prefix, verb: verb}
				for _, l := range lists {
					for _, v := range []string{"", "v"} {
						count("m-exhaustive")
						emit(fmt.Sprintf("m A:%s %s %s", t.enc(), hexList(l), common.HexS(v)))
					}
				}
			}
		}
		if len(prefix) == maxT {
			return
		}
		for _, s := range shapes {
			recT(append(append([]seg{}, prefix...), s))
		}
	}
	recT(nil)

	// --- m: generated templates × derived component lists
	n := 6000
	if thorough {
		n = 150000
	}
	for i := 0; i < n; i++ {
		t := genTmpl(r)
		segs := instantiate(r, t)
		verb := ""
		if t.verb != "" && len(segs) > 0 && r.Intn(8) != 0 { // strip the verb the way RouteHTTP does
			l := segs[len(segs)-1]
			segs[len(segs)-1] = strings.TrimSuffix(l, ":"+t.verb)
			verb = t.verb
		}
		if r.Intn(3) == 0 {
			segs = mutate(r, segs)
		}
		if r.Intn(20) == 0 {
			verb = common.Pick(r, verbPool)
		}
		count("m-generated")
		emit(fmt.Sprintf("m A:%s %s %s", t.enc(), hexList(segs), common.HexS(verb)))
	}
	for _, raw := range []string{"/", "", "a", "//", "/a//b", "/a/", "/{a=**}/{b=**}", "/a:b:c", "/{x}:v:w", "/a/%zz", "/a:%zz", "/{x=*}}", "/a/{x=a/*/**}:v", "/{a.b.c=*}", "/**/a/*"} {
		for _, l := range [][]string{{}, {"a"}, {"a", "b"}, {"", ""}, {"a", "b:c"}, {"a", "%zz"}} {
			count("m-raw")
			emit(fmt.Sprintf("m R:%s %s %s", common.HexS(raw), hexList(l), common.HexS("")))
		}
	}

	// --- u: request targets
	n = 4000
	if thorough {
		n = 100000
	}
	for i := 0; i < n; i++ {
		var segs []string
		for j, k := 0, r.Intn(4); j <= k; j++ {
			segs = append(segs, randSeg(r))
		}
		target := "/" + strings.Join(segs, "/")
		switch r.Intn(12) {
		case 0:
			target += "?" + randSeg(r)
		case 1:
			target += "?"
		case 2:
			target = strings.TrimPrefix(target, "/")
		case 3, 4: // absolute-form: scheme://authority + path
			auth := common.Pick(r, []string{"h", "example.org", "h:80", "h:", "10.0.0.1:8080", "", "a-b.c", "u@h", "[::1]:80", "h:8x", "h%41", "h_x", "H"})
			if r.Intn(3) != 0 {
				auth = genAuthority(r)
			}
			if r.Intn(10) == 0 { // authority without a path
				target = ""
			}
			target = common.Pick(r, []string{"http", "https", "a", "A1+.-", "ws"}) + "://" + auth + target
		case 5: // scheme without authority: rooted or opaque
			target = common.Pick(r, []string{"http:", "a:", "mailto:", ":", "1:", "a_:", "+:"}) + common.Pick(r, []string{target, strings.TrimPrefix(target, "/"), ""})
		}
		count("u-generated")
		kind := common.Pick(r, []string{"pru", "req"})
		if r.Intn(8) == 0 && srvSafe(target) {
			kind = "srv"
			count("u-srv")
		}
		emit("u " + kind + " " + common.HexS(target))
	}

	// --- r: generated tables × requests derived from one of their bindings (or unrelated)
	n = 5000
	if thorough {
		n = 120000
	}
	for i := 0; i < n; {
		table, tmpls, meths := genTable(r)
		for j, k := 0, 2+r.Intn(6); j < k; j++ {
			i++
			var segs []string
			method := common.Pick(r, methPool)
			if len(tmpls) > 0 && r.Intn(10) != 0 {
				q := r.Intn(len(tmpls))
				if strings.HasPrefix(meths[q], "POST ") { // default binding of a method without bindings
					segs = strings.Split(strings.TrimPrefix(strings.TrimPrefix(meths[q], "POST "), "/"), "/")
					method = "POST"
				} else {
					segs = instantiate(r, tmpls[q])
					method = meths[q]
				}
				if r.Intn(3) == 0 {
					segs = mutate(r, segs)
				}
				if r.Intn(12) == 0 {
					method = common.Pick(r, methPool)
				}
			} else {
				for a, b := 0, r.Intn(4); a <= b; a++ {
					segs = append(segs, randSeg(r))
				}
			}
			path := "/" + strings.Join(segs, "/")
			if r.Intn(40) == 0 {
				path = strings.TrimPrefix(path, "/")
			}
			kind := common.Pick(r, []string{"req", "req", "raw", "path"})
			if kind == "req" && r.Intn(15) == 0 {
				path += "?" + randSeg(r)
			}
			if kind == "req" && r.Intn(12) == 0 {
				path = common.Pick(r, []string{"http://h", "https://example.org:8443", "a://h:", "http://u@h"}) + path
			} else if kind == "req" && r.Intn(12) == 0 {
				path = common.Pick(r, []string{"http", "a+b"}) + "://" + genAuthority(r) + path
				count("r-authority")
			}
			if kind == "req" && r.Intn(25) == 0 && srvSafe(path) && srvSafe(method) {
				kind = "srv"
			}
			count("r-" + kind)
			emit(fmt.Sprintf("r %s %s %s %s", table, common.HexS(method), kind, common.HexS(path)))
			if r.Intn(2) == 0 { // the same request under another method: unbound in the table, or bound by other templates only
				om := common.Pick(r, foreignMethPool)
				if r.Intn(4) == 0 {
					om = common.Pick(r, methPool)
				}
				if om != method && !(kind == "srv" && om == "CONNECT") {
					i++
					count("r-other-method")
					emit(fmt.Sprintf("r %s %s %s %s", table, common.HexS(om), kind, common.HexS(path)))
				}
			}
		}
	}
}
