// Package c03 is the correspondence area of property C03 (stub: the slice is not built yet).
package c03

import (
	"math/rand"
)

type Area struct{}

func (Area) Name() string { return "c03" }

func (Area) Exec(input string) string { return "UNIMPLEMENTED" }

func (Area) Gen(r *rand.Rand, tier string, emit func(string)) {}
