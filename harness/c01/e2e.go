// L2: end-to-end over real gRPC. client <-> grpc.Server{GRPCProxy as UnknownServiceHandler} <->
// AdaptedClientConn <-> scripted target, both hops on bufconn. Client and target use a pass-through
// raw-bytes codec, so payloads are compared byte for byte; the proxy in the middle runs its real path
// (routing result with DummyMethod, emptypb carriers, ProxyForwarder.Forward, grpcServerStream adapter).
package c01

import (
	"context"
	"errors"
	"fmt"
	"io"
	"math/rand"
	"net"
	"runtime"
	"strconv"
	"strings"
	"sync"
	"sync/atomic"
	"time"

	"github.com/renbou/grpcbridge"
	"github.com/renbou/grpcbridge/bridgedesc"
	"github.com/renbou/grpcbridge/grpcadapter"
	"github.com/renbou/grpcbridge/routing"
	spb "google.golang.org/genproto/googleapis/rpc/status"
	"google.golang.org/grpc"
	"google.golang.org/grpc/codes"
	"google.golang.org/grpc/credentials/insecure"
	"google.golang.org/grpc/metadata"
	"google.golang.org/grpc/status"
	"google.golang.org/grpc/test/bufconn"
	"google.golang.org/protobuf/encoding/protowire"
	"google.golang.org/protobuf/proto"
	"google.golang.org/protobuf/reflect/protoreflect"
	"google.golang.org/protobuf/types/known/emptypb"
	"google.golang.org/protobuf/types/known/wrapperspb"

	"verif/harness/common"
)

// rawCodec passes []byte through unchanged. It is registered under the name "proto" per call / server,
// so the proxy in the middle sees ordinary gRPC traffic.
type rawCodec struct{}

func (rawCodec) Marshal(v any) ([]byte, error) {
	b, ok := v.(*[]byte)
	if !ok {
		return nil, fmt.Errorf("rawCodec: %T", v)
	}
	return *b, nil
}

func (rawCodec) Unmarshal(data []byte, v any) error {
	b, ok := v.(*[]byte)
	if !ok {
		return fmt.Errorf("rawCodec: %T", v)
	}
	*b = append([]byte{}, data...)
	return nil
}
func (rawCodec) Name() string { return "proto" }

// tScript is what the scripted target does for one call.
type tScript struct {
	mode                string // readall | readn | pingpong | block
	nread               int
	resp                [][]byte
	st                  *status.Status
	hdr                 bool // send the response header before anything else (commits the call at the client)
	att                 bool // put the number of the call at the target into the status message
	mu                  sync.Mutex
	calls               int      // how many calls the target saw for this ONE bridged call
	prev                string   // largest grpc-previous-rpc-attempts header seen
	got                 [][]byte // every message the target received, over all calls, in arrival order
	half                bool
	cancel              bool
	gotN                chan struct{} // closed once nread messages were received
	started             chan struct{}
	done                chan struct{}
	onceN, onceS, onceD sync.Once
}

func newScript() *tScript {
	return &tScript{gotN: make(chan struct{}), done: make(chan struct{}), started: make(chan struct{})}
}

type e2eEnv struct {
	client  *grpc.ClientConn       // real gRPC client -> GRPCProxy
	tconn   grpcadapter.ClientConn // the REAL pooled connection to the target (AdaptedClientPool.New with default opts)
	scripts sync.Map
	seq     atomic.Int64
}

type fixedRouter struct {
	conn grpcadapter.ClientConn
	tgt  *bridgedesc.Target
}

func (r fixedRouter) RouteGRPC(ctx context.Context) (grpcadapter.ClientConn, routing.GRPCRoute, error) {
	name, ok := grpc.Method(ctx)
	if !ok {
		return nil, routing.GRPCRoute{}, status.Error(codes.Internal, "no method")
	}
	parts := strings.Split(strings.TrimPrefix(name, "/"), "/")
	if len(parts) != 2 {
		return nil, routing.GRPCRoute{}, status.Error(codes.Unimplemented, "bad method")
	}
	svc := &bridgedesc.Service{Name: protoreflect.FullName(parts[0])}
	// exactly what routing.ServiceRouter.RouteGRPC hands to the proxy
	return r.conn, routing.GRPCRoute{Target: r.tgt, Service: svc, Method: bridgedesc.DummyMethod(protoreflect.FullName(parts[0]), protoreflect.Name(parts[1]))}, nil
}

var (
	envOnce sync.Once
	env     *e2eEnv
	envErr  error
)

func (e *e2eEnv) targetHandler(_ any, stream grpc.ServerStream) error {
	name, _ := grpc.MethodFromServerStream(stream)
	v, ok := e.scripts.Load(name)
	if !ok {
		return status.Error(codes.Unimplemented, "no script")
	}
	sc := v.(*tScript)
	sc.mu.Lock()
	sc.calls++
	callNo := sc.calls
	if md, ok := metadata.FromIncomingContext(stream.Context()); ok {
		if v := md.Get("grpc-previous-rpc-attempts"); len(v) > 0 && v[0] > sc.prev {
			sc.prev = v[0]
		}
	}
	sc.mu.Unlock()
	sc.onceS.Do(func() { close(sc.started) })
	defer sc.onceD.Do(func() { close(sc.done) })
	if sc.hdr {
		_ = stream.SendHeader(metadata.Pairs("x-verif-h", "1"))
	}
	recv := func() error {
		var b []byte
		if err := stream.RecvMsg(&b); err != nil {
			if errors.Is(err, io.EOF) {
				sc.mu.Lock()
				sc.half = true
				sc.mu.Unlock()
			}
			return err
		}
		sc.mu.Lock()
		sc.got = append(sc.got, b)
		n := len(sc.got)
		sc.mu.Unlock()
		if n == sc.nread {
			sc.onceN.Do(func() { close(sc.gotN) })
		}
		return nil
	}
	send := func(b []byte) error { return stream.SendMsg(&b) }
	switch sc.mode {
	case "readall":
		for {
			if err := recv(); err != nil {
				if errors.Is(err, io.EOF) {
					break
				}
				return err
			}
		}
		for _, r := range sc.resp {
			if err := send(r); err != nil {
				return err
			}
		}
	case "readn":
		for i := 0; i < sc.nread; i++ {
			if err := recv(); err != nil {
				return err
			}
		}
		for _, r := range sc.resp {
			if err := send(r); err != nil {
				return err
			}
		}
	case "pingpong":
		for _, r := range sc.resp {
			if err := recv(); err != nil {
				return err
			}
			if err := send(r); err != nil {
				return err
			}
		}
		for {
			if err := recv(); err != nil {
				if errors.Is(err, io.EOF) {
					break
				}
				return err
			}
		}
	case "block":
		for i := 0; i < sc.nread; i++ {
			if err := recv(); err != nil {
				return err
			}
		}
		<-stream.Context().Done()
		sc.mu.Lock()
		sc.cancel = true
		sc.mu.Unlock()
		return status.FromContextError(stream.Context().Err()).Err()
	}
	if sc.st == nil || sc.st.Code() == codes.OK {
		return nil
	}
	if sc.att {
		p := proto.Clone(sc.st.Proto()).(*spb.Status)
		p.Message += fmt.Sprintf(" (call %d)", callNo)
		return status.FromProto(p).Err()
	}
	return sc.st.Err()
}

func getEnv() (*e2eEnv, error) {
	envOnce.Do(func() {
		e := &e2eEnv{}
		tl := bufconn.Listen(1 << 20)
		tsrv := grpc.NewServer(grpc.ForceServerCodec(rawCodec{}), grpc.UnknownServiceHandler(e.targetHandler))
		go tsrv.Serve(tl)
		dial := func(l *bufconn.Listener) grpc.DialOption {
			return grpc.WithContextDialer(func(ctx context.Context, _ string) (net.Conn, error) { return l.DialContext(ctx) })
		}
		// the outgoing side is exactly what a bridge uses: a connection made by the real pool with its default options
		pool := grpcadapter.NewAdaptedClientPool(grpcadapter.AdaptedClientPoolOpts{})
		if _, err := pool.New("target", "passthrough:///target", dial(tl), grpc.WithTransportCredentials(insecure.NewCredentials())); err != nil {
			envErr = err
			return
		}
		tconn, ok := pool.Get("target")
		if !ok {
			envErr = errors.New("pool.Get: target absent")
			return
		}
		e.tconn = tconn
		router := fixedRouter{conn: tconn, tgt: &bridgedesc.Target{Name: "target"}}
		proxy := grpcbridge.NewGRPCProxy(router)
		pl := bufconn.Listen(1 << 20)
		psrv := grpc.NewServer(proxy.AsServerOption())
		go psrv.Serve(pl)
		e.client, envErr = grpc.NewClient("passthrough:///proxy", dial(pl), grpc.WithTransportCredentials(insecure.NewCredentials()))
		env = e
	})
	return env, envErr
}

func hexList(xs [][]byte) string {
	if len(xs) == 0 {
		return "-"
	}
	s := make([]string, len(xs))
	for i, x := range xs {
		s[i] = common.Hex(x)
	}
	return strings.Join(s, ",")
}

func unHexList(s string) [][]byte {
	if s == "-" || s == "" {
		return nil
	}
	var out [][]byte
	for _, x := range strings.Split(s, ",") {
		out = append(out, common.MustUnHex(x))
	}
	return out
}

func statusBytes(st *status.Status) string {
	if st == nil || st.Code() == codes.OK {
		return "x"
	}
	b, _ := proto.MarshalOptions{Deterministic: true}.Marshal(st.Proto())
	return common.Hex(b)
}

// GoroutineGrace is how long goroutines of a finished, torn-down call get to exit.
var GoroutineGrace = 3 * time.Second

// CurrentPromptLimit is PromptLimit — until three cases of this process have hung or missed it: the run has
// failed by then, and the remaining cases only need to fail cheaply.
func CurrentPromptLimit() time.Duration {
	if hangsSeen.Load() >= 3 {
		return PromptLimit / 4
	}
	return PromptLimit
}

// PromptLimit is the wall-clock bound for "the client learns of the termination promptly".
var PromptLimit = 2 * time.Second

// RunE2E executes one end-to-end case:
//
//	e2e sc=<scenario> req=<hexlist> resp=<hexlist> tn=<target reads n> code=<n> msg=<hex> det=<hex> want.…
func RunE2E(line string) string {
	kv := parseKV(line)
	return Watchdog(CaseLimit, func(ctx context.Context) string { return gotFields("", runE2ECase(ctx, kv)) })
}

// CaseLimit bounds one end-to-end case: a case that is still running then is reported as a hang (got.hang=1)
// for THAT case, its context is cancelled, and the harness moves on.
var CaseLimit = 12 * time.Second

func parseKV(line string) map[string]string {
	kv := map[string]string{}
	for _, f := range strings.Fields(line)[1:] {
		if i := strings.IndexByte(f, '='); i > 0 {
			kv[f[:i]] = f[i+1:]
		}
	}
	return kv
}

func gotFields(prefix string, fields []string) string {
	out := make([]string, len(fields))
	for i, f := range fields {
		out[i] = "got." + prefix + f
	}
	return strings.Join(out, " ")
}

// Watchdog runs f; if f has not returned within limit the case is a hang.
func Watchdog(limit time.Duration, f func(ctx context.Context) string) string {
	ctx, cancel := context.WithCancel(context.Background())
	defer cancel()
	ch := make(chan string, 1)
	go func() {
		defer func() {
			if r := recover(); r != nil {
				ch <- "PANIC " + common.HexS(fmt.Sprint(r))
			}
		}()
		ch <- f(ctx)
	}()
	if hangsSeen.Load() >= 3 && limit > 4*time.Second {
		limit = 4 * time.Second // the run is already failing: keep the remaining hangs cheap
	}
	select {
	case s := <-ch:
		return s + " got.hang=0"
	case <-time.After(limit):
		hangsSeen.Add(1)
		cancel()
		select {
		case s := <-ch:
			return s + " got.hang=1"
		case <-time.After(3 * time.Second):
			return "got.hang=1"
		}
	}
}

func scriptFromKV(kv map[string]string) (*tScript, [][]byte, [][]byte, string, bool) {
	reqs, resps := unHexList(kv["req"]), unHexList(kv["resp"])
	code, _ := strconv.Atoi(kv["code"])
	st := status.New(codes.Code(code), string(common.MustUnHex(kv["msg"])))
	if det := common.MustUnHex(kv["det"]); len(det) > 0 && code != 0 {
		st, _ = st.WithDetails(wrapperspb.Bytes(det))
	}
	tn, _ := strconv.Atoi(kv["tn"])
	sc := newScript()
	sc.resp, sc.st, sc.nread, sc.hdr, sc.att = resps, st, tn, kv["hdr"] == "1", kv["att"] == "1"
	if tn == 0 {
		sc.onceN.Do(func() { close(sc.gotN) })
	}
	scen := kv["sc"]
	switch scen {
	case "echo", "unary":
		sc.mode = "readall"
		sc.nread = -1
	case "pingpong":
		sc.mode = "pingpong"
		sc.nread = -1
	case "idle", "early":
		sc.mode = "readn"
	case "cancel", "deadline":
		sc.mode = "block"
	default:
		return nil, nil, nil, scen, false
	}
	return sc, reqs, resps, scen, true
}

// runE2ECase: real gRPC client -> GRPCProxy -> real pooled AdaptedClientConn -> scripted target.
func runE2ECase(parent context.Context, kv map[string]string) []string {
	pl := CurrentPromptLimit()
	e, err := getEnv()
	if err != nil {
		return []string{"HARNESS=env"}
	}
	sc, reqs, resps, scen, ok := scriptFromKV(kv)
	if !ok {
		return []string{"HARNESS=scenario"}
	}
	preexisting := BridgeGoroutineSnapshot()
	method := fmt.Sprintf("/verif.E2E/Call%d", e.seq.Add(1))
	e.scripts.Store(method, sc)
	defer e.scripts.Delete(method)

	ctx, cancel := context.WithCancel(parent)
	defer cancel()
	if scen == "deadline" {
		var c2 context.CancelFunc
		ctx, c2 = context.WithTimeout(ctx, 150*time.Millisecond)
		defer c2()
	}
	start := time.Now()
	var cresp [][]byte
	var callErr error
	var notPrompt atomic.Bool
	if scen == "unary" {
		var out []byte
		in := reqs[0]
		uctx, ucancel := context.WithTimeout(ctx, pl) // a unary call over local pipes that takes this long hangs
		callErr = e.client.Invoke(uctx, method, &in, &out, grpc.ForceCodec(rawCodec{}))
		if uctx.Err() != nil {
			notPrompt.Store(true)
		}
		ucancel()
		if callErr == nil {
			cresp = append(cresp, out)
		}
	} else {
		stream, err := e.client.NewStream(ctx, &grpc.StreamDesc{ClientStreams: true, ServerStreams: true}, method, grpc.ForceCodec(rawCodec{}))
		if err != nil {
			return []string{"HARNESS=newstream"}
		}
		// watchdog: a call that does not end within the limit after its terminating event is not prompt
		termAt := make(chan time.Time, 1)
		finished := make(chan struct{})
		go func() {
			select {
			case <-finished:
			case t := <-termAt:
				select {
				case <-finished:
				case <-time.After(time.Until(t.Add(pl))):
					notPrompt.Store(true)
					cancel()
					<-finished
				}
			}
		}()
		recvAll := func() {
			for {
				var b []byte
				if err := stream.RecvMsg(&b); err != nil {
					callErr = err
					return
				}
				cresp = append(cresp, b)
			}
		}
		switch scen {
		case "pingpong":
			for i, q := range reqs {
				q := q
				if err := stream.SendMsg(&q); err != nil {
					break
				}
				if i < len(resps) {
					var b []byte
					if err := stream.RecvMsg(&b); err != nil {
						callErr = err
						break
					}
					cresp = append(cresp, b)
				}
			}
			stream.CloseSend()
			termAt <- time.Now()
			if callErr == nil {
				recvAll()
			}
		default:
			for _, q := range reqs {
				q := q
				if err := stream.SendMsg(&q); err != nil {
					break
				}
			}
			switch scen {
			case "echo":
				stream.CloseSend()
				termAt <- time.Now()
			case "idle", "early":
				// the client neither sends nor closes any more: the target ends the call on its own
				select {
				case <-sc.done:
				case <-time.After(pl):
				}
				termAt <- time.Now()
			case "cancel":
				select {
				case <-sc.started:
					select {
					case <-sc.gotN:
					case <-time.After(pl):
					}
				case <-time.After(pl):
				}
				cancel()
				termAt <- time.Now()
			case "deadline":
				termAt <- start.Add(150 * time.Millisecond)
			}
			recvAll()
		}
		close(finished)
	}
	if errors.Is(callErr, io.EOF) {
		callErr = nil
	}
	elapsed := time.Since(start)
	if scen == "deadline" && elapsed > 150*time.Millisecond+pl {
		notPrompt.Store(true)
	}
	// the target handler must end too (its context is cancelled when the call is over)
	tdone := true
	select {
	case <-sc.started:
		select {
		case <-sc.done:
		case <-time.After(pl):
			tdone = false
		}
	default: // the call ended before it reached the target
	}
	// No goroutine may keep working for the call: the call has completed; now the client side of the stream
	// is torn down as well (so that an abandoned RecvMsg/SendMsg of the proxy's stream adapter returns), and
	// after that nothing may be left inside the bridge's own code (forwarder, stream adapters, withCtx helpers).
	cancel()
	runtime.Gosched()
	gor, gwhere := WaitBridgeGoroutinesGone(GoroutineGrace, preexisting)
	sc.mu.Lock()
	defer sc.mu.Unlock()
	cst := status.Convert(callErr)
	b2 := func(b bool) string {
		if b {
			return "1"
		}
		return "0"
	}
	return []string{
		"tcalls=" + strconv.Itoa(sc.calls),
		"treq=" + hexList(sc.got),
		"cresp=" + hexList(cresp),
		"code=" + strconv.Itoa(int(cst.Code())),
		"status=" + statusBytes(cst),
		"half=" + b2(sc.half),
		"prompt=" + func() string {
			if notPrompt.Load() {
				hangsSeen.Add(1)
			}
			return b2(!notPrompt.Load())
		}(),
		"tdone=" + b2(tdone),
		"gor=" + strconv.Itoa(gor),
		"gwhere=" + gwhere,
		"tprev=" + func() string {
			if sc.prev == "" {
				return "-"
			}
			return sc.prev
		}(),
	}
}

// scriptedIncoming is the incoming side of a `real` case: a ServerStream that hands out the scripted requests
// (emptypb.Empty carrying the payload as unknown fields, like the proxy's DummyMethod) and then half-closes or
// stays silent, and records what Forward hands back.
type scriptedIncoming struct {
	mu     sync.Mutex
	reqs   [][]byte
	i      int
	silent bool
	sent   [][]byte
	hdr    metadata.MD
}

func (in *scriptedIncoming) Recv(ctx context.Context, msg proto.Message) error {
	in.mu.Lock()
	if in.i < len(in.reqs) {
		msg.ProtoReflect().SetUnknown(append([]byte{}, in.reqs[in.i]...))
		in.i++
		in.mu.Unlock()
		return nil
	}
	in.mu.Unlock()
	if !in.silent {
		return io.EOF
	}
	<-ctx.Done()
	return status.FromContextError(ctx.Err()).Err()
}

func (in *scriptedIncoming) Send(ctx context.Context, msg proto.Message) error {
	in.mu.Lock()
	defer in.mu.Unlock()
	in.sent = append(in.sent, append([]byte{}, msg.ProtoReflect().GetUnknown()...))
	return nil
}
func (in *scriptedIncoming) SetHeader(md metadata.MD)  { in.mu.Lock(); in.hdr = md; in.mu.Unlock() }
func (in *scriptedIncoming) SetTrailer(md metadata.MD) {}

// RunReal executes one `real` case: the real ProxyForwarder.Forward with a scripted Incoming and, as Outgoing,
// the REAL pooled connection (AdaptedClientPool.New with default options -> AdaptedClientConn ->
// AdaptedClientStream over grpc-go) to the scripted target, which logs how many calls it saw for this one
// bridged call and every message it received.
//
//	real sc=<echo|idle|early> req= resp= tn= code= msg= det= hdr= att= want.…
func RunReal(line string) string {
	kv := parseKV(line)
	return Watchdog(CaseLimit, func(ctx context.Context) string { return gotFields("", runRealCase(ctx, kv)) })
}

// runDieCase: the target process goes away in the middle of a call (its server is stopped after it has read the
// requests): a dedicated server and a dedicated pooled connection, the real Forward in between.
func runDieCase(parent context.Context, kv map[string]string) []string {
	pl := CurrentPromptLimit()
	reqs := unHexList(kv["req"])
	sc := newScript()
	sc.mode, sc.nread = "block", len(reqs)
	if len(reqs) == 0 {
		sc.onceN.Do(func() { close(sc.gotN) })
	}
	de := &e2eEnv{}
	de.scripts.Store("/verif.E2E/Die", sc)
	tl := bufconn.Listen(1 << 20)
	tsrv := grpc.NewServer(grpc.ForceServerCodec(rawCodec{}), grpc.UnknownServiceHandler(de.targetHandler))
	go tsrv.Serve(tl)
	defer tsrv.Stop()
	pool := grpcadapter.NewAdaptedClientPool(grpcadapter.AdaptedClientPoolOpts{})
	ctl, err := pool.New("dying", "passthrough:///dying",
		grpc.WithContextDialer(func(ctx context.Context, _ string) (net.Conn, error) { return tl.DialContext(ctx) }),
		grpc.WithTransportCredentials(insecure.NewCredentials()))
	if err != nil {
		return []string{"HARNESS=pool"}
	}
	defer ctl.Close()
	conn, _ := pool.Get("dying")
	preexisting := BridgeGoroutineSnapshot()
	inc := &scriptedIncoming{reqs: reqs, silent: true}
	ctx, cancel := context.WithCancel(parent)
	defer cancel()
	go func() {
		select {
		case <-sc.started:
			select {
			case <-sc.gotN:
			case <-ctx.Done():
				return
			}
			tsrv.Stop() // the target dies
		case <-ctx.Done():
		}
	}()
	pf := grpcadapter.NewProxyForwarder(grpcadapter.ProxyForwarderOpts{})
	start := time.Now()
	ferr := pf.Forward(ctx, grpcadapter.ForwardParams{
		Target: &bridgedesc.Target{Name: "dying"}, Service: &bridgedesc.Service{Name: "verif.E2E"},
		Method: bridgedesc.DummyMethod("verif.E2E", "Die"), Incoming: inc, Outgoing: conn,
	})
	prompt := time.Since(start) <= pl
	cancel()
	gor, gwhere := WaitBridgeGoroutinesGone(GoroutineGrace, preexisting)
	sc.mu.Lock()
	defer sc.mu.Unlock()
	b2 := func(b bool) string {
		if b {
			return "1"
		}
		return "0"
	}
	return []string{
		"tcalls=" + strconv.Itoa(sc.calls), "treq=" + hexList(sc.got), "cresp=" + hexList(inc.sent),
		"code=" + strconv.Itoa(int(status.Code(ferr))), "prompt=" + b2(prompt), "gor=" + strconv.Itoa(gor), "gwhere=" + gwhere,
	}
}

func runRealCase(parent context.Context, kv map[string]string) []string {
	pl := CurrentPromptLimit()
	if kv["sc"] == "die" {
		return runDieCase(parent, kv)
	}
	e, err := getEnv()
	if err != nil {
		return []string{"HARNESS=env"}
	}
	sc, reqs, _, scen, ok := scriptFromKV(kv)
	if !ok || (scen != "echo" && scen != "idle" && scen != "early") {
		return []string{"HARNESS=scenario"}
	}
	preexisting := BridgeGoroutineSnapshot()
	name := fmt.Sprintf("Real%d", e.seq.Add(1))
	method := "/verif.E2E/" + name
	e.scripts.Store(method, sc)
	defer e.scripts.Delete(method)
	inc := &scriptedIncoming{reqs: reqs, silent: scen != "echo"}
	ctx, cancel := context.WithCancel(parent)
	defer cancel()
	pf := grpcadapter.NewProxyForwarder(grpcadapter.ProxyForwarderOpts{})
	// kind = RPC kind of the bridged method: (u)nary/(s)treaming request, (u)nary/(s)treaming response; default ss
	// (what the proxy uses). For a unary REQUEST Forward itself must half-close the outgoing stream after the one
	// request: the outgoing stream is always opened as a client stream, so gRPC never does it on its own.
	method1 := bridgedesc.DummyMethod("verif.E2E", protoreflect.Name(name))
	if k := kv["kind"]; len(k) == 2 {
		method1 = &bridgedesc.Method{RPCName: method, Input: bridgedesc.ConcreteMessage[emptypb.Empty](), Output: bridgedesc.ConcreteMessage[emptypb.Empty](),
			ClientStreaming: k[0] == 's', ServerStreaming: k[1] == 's'}
	}
	// a call over local pipes that has not ended after the prompt limit is cut off (and judged as not prompt)
	var cut atomic.Bool
	timer := time.AfterFunc(pl, func() { cut.Store(true); cancel() })
	ferr := pf.Forward(ctx, grpcadapter.ForwardParams{
		Target: &bridgedesc.Target{Name: "target"}, Service: &bridgedesc.Service{Name: "verif.E2E"},
		Method:   method1,
		Incoming: inc, Outgoing: e.tconn,
	})
	timer.Stop()
	prompt := !cut.Load()
	if !prompt {
		hangsSeen.Add(1)
	}
	tdone := true
	select {
	case <-sc.started:
		select {
		case <-sc.done:
		case <-time.After(pl):
			tdone = false
		}
	default:
	}
	cancel()
	gor, gwhere := WaitBridgeGoroutinesGone(GoroutineGrace, preexisting)
	sc.mu.Lock()
	defer sc.mu.Unlock()
	inc.mu.Lock()
	defer inc.mu.Unlock()
	cst := status.Convert(ferr)
	b2 := func(b bool) string {
		if b {
			return "1"
		}
		return "0"
	}
	return []string{
		"tcalls=" + strconv.Itoa(sc.calls),
		"treq=" + hexList(sc.got),
		"cresp=" + hexList(inc.sent),
		"code=" + strconv.Itoa(int(cst.Code())),
		"status=" + statusBytes(cst),
		"half=" + b2(sc.half),
		"prompt=" + b2(prompt),
		"tdone=" + b2(tdone),
		"gor=" + strconv.Itoa(gor),
		"gwhere=" + gwhere,
	}
}

// RunMulti executes several calls one after another on ONE proxy in ONE process and judges each of them: call
// `a` ends while the client has not half-closed (target ends early / client cancels / deadline), then nb plain
// echo calls b1..bn follow. Each call has its own watchdog.
//
//	multi a=<idle|early|cancel|deadline> acode= areq= aresp= nb= breq= bresp= want.a.… want.b1.… …
func RunMulti(line string) string {
	kv := parseKV(line)
	sub := func(prefix string, m map[string]string) string {
		return Watchdog(CaseLimit/2, func(ctx context.Context) string { return gotFields(prefix, runE2ECase(ctx, m)) })
	}
	fix := func(s, prefix string) string { return strings.ReplaceAll(s, " got.hang=", " got."+prefix+"hang=") }
	a := map[string]string{"sc": kv["a"], "req": kv["areq"], "resp": kv["aresp"], "code": kv["acode"], "msg": kv["amsg"], "det": "x", "att": "1"}
	a["tn"] = strconv.Itoa(len(unHexList(kv["areq"])))
	if kv["a"] == "early" {
		a["tn"] = "0"
	}
	out := []string{fix(sub("a.", a), "a.")}
	nb, _ := strconv.Atoi(kv["nb"])
	for i := 1; i <= nb; i++ {
		b := map[string]string{"sc": "echo", "req": kv["breq"], "resp": kv["bresp"], "tn": "0", "code": "0", "msg": "x", "det": "x"}
		p := fmt.Sprintf("b%d.", i)
		out = append(out, fix(sub(p, b), p))
	}
	return strings.Join(out, " ")
}

// randWire returns a random valid protobuf wire-format message (fields unknown to emptypb.Empty).
func randWire(r *rand.Rand, big bool) []byte {
	var b []byte
	for n := r.Intn(4); n > 0; n-- {
		num := protowire.Number(1 + r.Intn(3000))
		switch r.Intn(4) {
		case 0:
			b = protowire.AppendTag(b, num, protowire.VarintType)
			b = protowire.AppendVarint(b, r.Uint64()>>uint(r.Intn(64)))
		case 1:
			b = protowire.AppendTag(b, num, protowire.Fixed32Type)
			b = protowire.AppendFixed32(b, r.Uint32())
		case 2:
			b = protowire.AppendTag(b, num, protowire.Fixed64Type)
			b = protowire.AppendFixed64(b, r.Uint64())
		default:
			l := r.Intn(40)
			if big && r.Intn(4) == 0 {
				l = r.Intn(1 << 16)
			}
			b = protowire.AppendTag(b, num, protowire.BytesType)
			b = protowire.AppendBytes(b, common.RandBytes(r, l, nil))
		}
	}
	return b
}

// GenE2E emits n end-to-end cases; faults=true emphasises the termination scenarios of C02.
func GenE2E(r *rand.Rand, n int, faults bool, emit func(string)) {
	mkx := func(op, scen string, reqs, resps [][]byte, tn int, code int, msg string, det []byte, hdr bool) {
		// the target puts the number of the call it is serving into the status message: "(call 1)" must arrive
		wmsg := msg
		if code != 0 {
			wmsg += " (call 1)"
		}
		st := status.New(codes.Code(code), wmsg)
		if len(det) > 0 && code != 0 {
			st, _ = st.WithDetails(wrapperspb.Bytes(det))
		}
		treq, cresp, wcode, wstatus, half := reqs, resps, strconv.Itoa(code), statusBytes(st), "1"
		switch scen {
		case "idle":
			treq, half = reqs[:tn], "0"
		case "early":
			treq, half = nil, "0"
		case "cancel":
			treq, cresp, wcode, wstatus, half = reqs[:tn], nil, strconv.Itoa(int(codes.Canceled)), "*", "0"
		case "deadline":
			treq, cresp, wcode, wstatus, half = reqs[:tn], nil, strconv.Itoa(int(codes.DeadlineExceeded)), "*", "0"
		case "unary":
			if code != 0 {
				cresp = nil
			}
		}
		h := "0"
		if hdr {
			h = "1"
		}
		emit(fmt.Sprintf("%s sc=%s req=%s resp=%s tn=%d code=%d msg=%s det=%s hdr=%s att=1 want.tcalls=1 want.treq=%s want.cresp=%s want.code=%s want.status=%s want.half=%s want.prompt=1 want.tdone=1 want.gor=0 want.hang=0",
			op, scen, hexList(reqs), hexList(resps), tn, code, common.HexS(msg), common.Hex(det), h,
			hexList(treq), hexList(cresp), wcode, wstatus, half))
	}
	mk := func(scen string, reqs, resps [][]byte, tn int, code int, msg string, det []byte) {
		mkx("e2e", scen, reqs, resps, tn, code, msg, det, false)
	}
	msgs := func(k int, big bool) [][]byte {
		var out [][]byte
		for i := 0; i < k; i++ {
			out = append(out, randWire(r, big))
		}
		return out
	}
	// fixed edge cases first: D1's scenario (target ends a bidi call while the client is silent), empty messages
	mk("idle", nil, nil, 0, 0, "", nil)
	mk("idle", [][]byte{{}}, [][]byte{{}, {0x08, 0x01}}, 1, int(codes.Aborted), "target says no", []byte("detail"))
	mk("early", [][]byte{{0x08, 0x01}}, nil, 0, int(codes.PermissionDenied), "denied", nil)
	mk("echo", [][]byte{{}, {}, {0x08, 0x96, 0x01}}, [][]byte{{}, {0x12, 0x00}}, 0, 0, "", nil)
	mk("unary", [][]byte{{0x0a, 0x03, 'a', 'b', 'c'}}, [][]byte{{0x10, 0x01}}, 0, 0, "", nil)
	mk("cancel", [][]byte{{0x08, 0x01}}, nil, 1, 0, "", nil)
	mk("deadline", nil, nil, 0, 0, "", nil)
	// every gRPC code as the TARGET's final status, with a message and details — including Canceled (1) and
	// DeadlineExceeded (4), which look like local aborts but here come from the target and must arrive intact
	for code := 0; code <= 16; code++ {
		msg := fmt.Sprintf("target status %d – détails", code)
		det := []byte(fmt.Sprintf("detail-%d", code))
		mk("echo", [][]byte{{0x08, byte(code)}}, [][]byte{{0x10, byte(code)}}, 0, code, msg, det)
		mk("idle", [][]byte{{0x08, byte(code)}}, [][]byte{{0x10, byte(code)}}, 1, code, msg, det)
		if code%4 == 1 {
			mk("unary", [][]byte{{0x08, byte(code)}}, [][]byte{{0x10, byte(code)}}, 0, code, msg, det)
		}
		// the target ends the call WITHOUT any response ("trailers-only": nothing commits the call at the gRPC
		// client, so a retrying / hedging outgoing connection would silently re-issue it): at once, after having
		// read the requests, and after an explicit header. Through the proxy (both real adapters in the loop) and
		// with the real Forward directly on the real pooled connection.
		q := [][]byte{{0x08, byte(code)}, {0x08, 0x7f}}
		mk("early", q, nil, 0, code, msg, det)
		mk("idle", q, nil, 2, code, msg, det)
		mkx("e2e", "idle", q, nil, 2, code, msg, det, true)
		mkx("real", "early", q, nil, 0, code, msg, det, false)
		mkx("real", "idle", q, nil, 2, code, msg, det, false)
		mkx("real", "echo", q, [][]byte{{0x10, byte(code)}}, 0, code, msg, det, false)
		if code%3 == 2 {
			mkx("real", "idle", q, [][]byte{{0x10, byte(code)}, {}}, 1, code, msg, det, true)
		}
	}
	// The target answers only AFTER the end of the request stream (it reads until io.EOF first — what grpc-java /
	// grpc-core unary handlers, handlers reading until EOF and relaying proxies do), for every RPC kind: for a
	// unary request it is Forward that has to half-close the outgoing stream, for a streaming one the client's
	// half-close has to be relayed. If the half-close is not propagated the target never answers.
	for _, kind := range []string{"uu", "us", "su", "ss"} {
		for _, code := range []int{0, int(codes.FailedPrecondition)} {
			q := [][]byte{{0x08, 0x01}}
			if kind[0] == 's' {
				q = [][]byte{{0x08, 0x01}, {}, {0x08, 0x03}}
			}
			resp := [][]byte{{0x10, 0x01}}
			if kind[1] == 's' {
				resp = [][]byte{{0x10, 0x01}, {0x10, 0x02}}
			}
			wresp := resp
			if kind[1] == 'u' && code != 0 {
				wresp = nil // a unary response is superseded by a non-OK status
			}
			msg := "after half-close"
			wmsg := msg
			if code != 0 {
				wmsg += " (call 1)"
			}
			st := status.New(codes.Code(code), wmsg)
			emit(fmt.Sprintf("real sc=echo kind=%s req=%s resp=%s tn=0 code=%d msg=%s det=x hdr=0 att=1 want.tcalls=1 want.treq=%s want.half=1 want.cresp=%s want.code=%d want.status=%s want.prompt=1 want.tdone=1 want.gor=0 want.hang=0",
				kind, hexList(q), hexList(resp), code, common.HexS(msg), hexList(q), hexList(wresp), code, statusBytes(st)))
		}
	}
	// the target dies in the middle of the call
	emit("real sc=die req=x0801,x0802 want.tcalls=1 want.treq=x0801,x0802 want.cresp=- want.code=14 want.prompt=1 want.gor=0 want.hang=0")
	emit("real sc=die req=- want.tcalls=1 want.treq=- want.cresp=- want.code=14 want.prompt=1 want.gor=0 want.hang=0")
	// several calls on ONE proxy: a call that ends while the client has not half-closed, then plain echo calls;
	// every call is judged on its own (state must be per call)
	for _, a := range []string{"idle", "early", "cancel", "deadline", "idle"} {
		acode, wcode, wst := 10, "10", ""
		st := status.New(codes.Aborted, "call a (call 1)")
		wst = statusBytes(st)
		areq, aresp := "x0801", "x1001"
		wreq, wresp := areq, aresp
		switch a {
		case "early":
			wreq, aresp, wresp = "-", "-", "-"
		case "cancel":
			aresp, wresp, wcode, wst = "-", "-", "1", "*"
		case "deadline":
			aresp, wresp, wcode, wst = "-", "-", "4", "*"
		}
		l := fmt.Sprintf("multi a=%s acode=%d amsg=%s areq=%s aresp=%s nb=3 breq=x0802,x,x0803 bresp=x1002,x want.a.tcalls=1 want.a.treq=%s want.a.cresp=%s want.a.code=%s want.a.status=%s want.a.prompt=1 want.a.gor=0 want.a.hang=0",
			a, acode, common.HexS("call a"), areq, aresp, wreq, wresp, wcode, wst)
		for i := 1; i <= 3; i++ {
			l += fmt.Sprintf(" want.b%d.tcalls=1 want.b%d.treq=x0802,x,x0803 want.b%d.cresp=x1002,x want.b%d.code=0 want.b%d.status=x want.b%d.half=1 want.b%d.prompt=1 want.b%d.gor=0 want.b%d.hang=0", i, i, i, i, i, i, i, i, i)
		}
		emit(l)
	}
	scens := []string{"echo", "echo", "pingpong", "unary", "idle", "early", "cancel"}
	if faults {
		scens = []string{"idle", "idle", "early", "cancel", "deadline", "echo", "pingpong"}
	}
	for i := 0; i < n; i++ {
		scen := common.Pick(r, scens)
		code := 0
		msg := ""
		var det []byte
		if r.Intn(2) == 0 {
			code = 1 + r.Intn(16)
			msg = string(common.RandBytes(r, r.Intn(12), []byte("abc xyz-é")))
			msg = strings.ToValidUTF8(msg, "?")
			if r.Intn(2) == 0 {
				det = common.RandBytes(r, 1+r.Intn(20), nil)
			}
		}
		big := i%9 == 0
		nq, np := r.Intn(5), r.Intn(5)
		switch scen {
		case "unary":
			nq, np = 1, 1
		case "pingpong":
			if np > nq {
				np = nq
			}
		case "early":
			np = 0
			if code == 0 {
				code = int(codes.Unauthenticated)
			}
		case "cancel", "deadline":
			np = 0
		}
		reqs, resps := msgs(nq, big), msgs(np, big)
		tn := 0
		if scen == "idle" || scen == "cancel" || scen == "deadline" {
			tn = nq
		}
		mk(scen, reqs, resps, tn, code, msg, det)
	}
}
