package c01

import "math/rand"

// placeholders until the end-to-end layer is written
func RunE2E(line string) string { return "UNIMPLEMENTED" }

func GenE2E(r *rand.Rand, n int, faults bool, emit func(string)) {}
