// L2: end-to-end over real gRPC. client <-> grpc.Server{GRPCProxy as UnknownServiceHandler} <->
// AdaptedClientConn <-> scripted target, both hops on bufconn. Client and target use a pass-through
// raw-bytes codec, so payloads are compared byte for byte; the proxy in the middle runs its real path
// (routing result with DummyMethod, emptypb carriers, ProxyForwarder.Forward, grpcServerStream adapter).
package c01

import (
	"context"
	"errors"
	"fmt"
	"io"
	"math/rand"
	"net"
	"runtime"
	"strconv"
	"strings"
	"sync"
	"sync/atomic"
	"time"

	"github.com/renbou/grpcbridge"
	"github.com/renbou/grpcbridge/bridgedesc"
	"github.com/renbou/grpcbridge/grpcadapter"
	"github.com/renbou/grpcbridge/routing"
	"google.golang.org/grpc"
	"google.golang.org/grpc/codes"
	"google.golang.org/grpc/credentials/insecure"
	"google.golang.org/grpc/status"
	"google.golang.org/grpc/test/bufconn"
	"google.golang.org/protobuf/encoding/protowire"
	"google.golang.org/protobuf/proto"
	"google.golang.org/protobuf/reflect/protoreflect"
	"google.golang.org/protobuf/types/known/wrapperspb"

	"verif/harness/common"
)

// rawCodec passes []byte through unchanged. It is registered under the name "proto" per call / server,
// so the proxy in the middle sees ordinary gRPC traffic.
type rawCodec struct{}

func (rawCodec) Marshal(v any) ([]byte, error) {
	b, ok := v.(*[]byte)
	if !ok {
		return nil, fmt.Errorf("rawCodec: %T", v)
	}
	return *b, nil
}

func (rawCodec) Unmarshal(data []byte, v any) error {
	b, ok := v.(*[]byte)
	if !ok {
		return fmt.Errorf("rawCodec: %T", v)
	}
	*b = append([]byte{}, data...)
	return nil
}
func (rawCodec) Name() string { return "proto" }

// tScript is what the scripted target does for one call.
type tScript struct {
	mode    string // readall | readn | pingpong | block
	nread   int
	resp    [][]byte
	st      *status.Status
	mu      sync.Mutex
	got     [][]byte
	half    bool
	cancel  bool
	gotN    chan struct{} // closed once nread messages were received
	started chan struct{}
	done    chan struct{}
}

type e2eEnv struct {
	client  *grpc.ClientConn
	scripts sync.Map
	seq     atomic.Int64
}

type fixedRouter struct {
	conn grpcadapter.ClientConn
	tgt  *bridgedesc.Target
}

func (r fixedRouter) RouteGRPC(ctx context.Context) (grpcadapter.ClientConn, routing.GRPCRoute, error) {
	name, ok := grpc.Method(ctx)
	if !ok {
		return nil, routing.GRPCRoute{}, status.Error(codes.Internal, "no method")
	}
	parts := strings.Split(strings.TrimPrefix(name, "/"), "/")
	if len(parts) != 2 {
		return nil, routing.GRPCRoute{}, status.Error(codes.Unimplemented, "bad method")
	}
	svc := &bridgedesc.Service{Name: protoreflect.FullName(parts[0])}
	// exactly what routing.ServiceRouter.RouteGRPC hands to the proxy
	return r.conn, routing.GRPCRoute{Target: r.tgt, Service: svc, Method: bridgedesc.DummyMethod(protoreflect.FullName(parts[0]), protoreflect.Name(parts[1]))}, nil
}

var (
	envOnce sync.Once
	env     *e2eEnv
	envErr  error
)

func (e *e2eEnv) targetHandler(_ any, stream grpc.ServerStream) error {
	name, _ := grpc.MethodFromServerStream(stream)
	v, ok := e.scripts.Load(name)
	if !ok {
		return status.Error(codes.Unimplemented, "no script")
	}
	sc := v.(*tScript)
	close(sc.started)
	defer close(sc.done)
	recv := func() error {
		var b []byte
		if err := stream.RecvMsg(&b); err != nil {
			if errors.Is(err, io.EOF) {
				sc.mu.Lock()
				sc.half = true
				sc.mu.Unlock()
			}
			return err
		}
		sc.mu.Lock()
		sc.got = append(sc.got, b)
		n := len(sc.got)
		sc.mu.Unlock()
		if n == sc.nread {
			close(sc.gotN)
		}
		return nil
	}
	send := func(b []byte) error { return stream.SendMsg(&b) }
	switch sc.mode {
	case "readall":
		for {
			if err := recv(); err != nil {
				if errors.Is(err, io.EOF) {
					break
				}
				return err
			}
		}
		for _, r := range sc.resp {
			if err := send(r); err != nil {
				return err
			}
		}
	case "readn":
		for i := 0; i < sc.nread; i++ {
			if err := recv(); err != nil {
				return err
			}
		}
		for _, r := range sc.resp {
			if err := send(r); err != nil {
				return err
			}
		}
	case "pingpong":
		for _, r := range sc.resp {
			if err := recv(); err != nil {
				return err
			}
			if err := send(r); err != nil {
				return err
			}
		}
		for {
			if err := recv(); err != nil {
				if errors.Is(err, io.EOF) {
					break
				}
				return err
			}
		}
	case "block":
		for i := 0; i < sc.nread; i++ {
			if err := recv(); err != nil {
				return err
			}
		}
		<-stream.Context().Done()
		sc.mu.Lock()
		sc.cancel = true
		sc.mu.Unlock()
		return status.FromContextError(stream.Context().Err()).Err()
	}
	if sc.st == nil || sc.st.Code() == codes.OK {
		return nil
	}
	return sc.st.Err()
}

func getEnv() (*e2eEnv, error) {
	envOnce.Do(func() {
		e := &e2eEnv{}
		tl := bufconn.Listen(1 << 20)
		tsrv := grpc.NewServer(grpc.ForceServerCodec(rawCodec{}), grpc.UnknownServiceHandler(e.targetHandler))
		go tsrv.Serve(tl)
		dial := func(l *bufconn.Listener) grpc.DialOption {
			return grpc.WithContextDialer(func(ctx context.Context, _ string) (net.Conn, error) { return l.DialContext(ctx) })
		}
		tconn, err := grpc.NewClient("passthrough:///target", dial(tl), grpc.WithTransportCredentials(insecure.NewCredentials()))
		if err != nil {
			envErr = err
			return
		}
		router := fixedRouter{conn: grpcadapter.AdaptClient(tconn), tgt: &bridgedesc.Target{Name: "target"}}
		proxy := grpcbridge.NewGRPCProxy(router)
		pl := bufconn.Listen(1 << 20)
		psrv := grpc.NewServer(proxy.AsServerOption())
		go psrv.Serve(pl)
		e.client, envErr = grpc.NewClient("passthrough:///proxy", dial(pl), grpc.WithTransportCredentials(insecure.NewCredentials()))
		env = e
	})
	return env, envErr
}

func hexList(xs [][]byte) string {
	if len(xs) == 0 {
		return "-"
	}
	s := make([]string, len(xs))
	for i, x := range xs {
		s[i] = common.Hex(x)
	}
	return strings.Join(s, ",")
}

func unHexList(s string) [][]byte {
	if s == "-" || s == "" {
		return nil
	}
	var out [][]byte
	for _, x := range strings.Split(s, ",") {
		out = append(out, common.MustUnHex(x))
	}
	return out
}

func statusBytes(st *status.Status) string {
	if st == nil || st.Code() == codes.OK {
		return "x"
	}
	b, _ := proto.MarshalOptions{Deterministic: true}.Marshal(st.Proto())
	return common.Hex(b)
}

// GoroutineGrace is how long goroutines of a finished, torn-down call get to exit.
var GoroutineGrace = 3 * time.Second

// PromptLimit is the wall-clock bound for "the client learns of the termination promptly".
var PromptLimit = 2 * time.Second

// RunE2E executes one end-to-end case:
//
//	e2e sc=<scenario> req=<hexlist> resp=<hexlist> tn=<target reads n> code=<n> msg=<hex> det=<hex> want.…
func RunE2E(line string) string {
	e, err := getEnv()
	if err != nil {
		return "HARNESS env " + common.HexS(err.Error())
	}
	kv := map[string]string{}
	for _, f := range strings.Fields(line)[1:] {
		if i := strings.IndexByte(f, '='); i > 0 {
			kv[f[:i]] = f[i+1:]
		}
	}
	reqs, resps := unHexList(kv["req"]), unHexList(kv["resp"])
	code, _ := strconv.Atoi(kv["code"])
	st := status.New(codes.Code(code), string(common.MustUnHex(kv["msg"])))
	if det := common.MustUnHex(kv["det"]); len(det) > 0 && code != 0 {
		st, _ = st.WithDetails(wrapperspb.Bytes(det))
	}
	tn, _ := strconv.Atoi(kv["tn"])
	sc := &tScript{resp: resps, st: st, nread: tn, gotN: make(chan struct{}), done: make(chan struct{}), started: make(chan struct{})}
	if tn == 0 {
		close(sc.gotN)
	}
	scen := kv["sc"]
	switch scen {
	case "echo", "unary":
		sc.mode = "readall"
		sc.nread = -1
	case "pingpong":
		sc.mode = "pingpong"
		sc.nread = -1
	case "idle", "early":
		sc.mode = "readn"
	case "cancel", "deadline":
		sc.mode = "block"
	default:
		return "HARNESS scenario"
	}
	preexisting := BridgeGoroutineSnapshot()
	method := fmt.Sprintf("/verif.E2E/Call%d", e.seq.Add(1))
	e.scripts.Store(method, sc)
	defer e.scripts.Delete(method)

	ctx, cancel := context.WithCancel(context.Background())
	defer cancel()
	if scen == "deadline" {
		var c2 context.CancelFunc
		ctx, c2 = context.WithTimeout(ctx, 150*time.Millisecond)
		defer c2()
	}
	start := time.Now()
	var cresp [][]byte
	var callErr error
	var notPrompt atomic.Bool
	if scen == "unary" {
		var out []byte
		in := reqs[0]
		uctx, ucancel := context.WithTimeout(ctx, PromptLimit) // a unary call over local pipes that takes this long hangs
		callErr = e.client.Invoke(uctx, method, &in, &out, grpc.ForceCodec(rawCodec{}))
		if uctx.Err() != nil {
			notPrompt.Store(true)
		}
		ucancel()
		if callErr == nil {
			cresp = append(cresp, out)
		}
	} else {
		stream, err := e.client.NewStream(ctx, &grpc.StreamDesc{ClientStreams: true, ServerStreams: true}, method, grpc.ForceCodec(rawCodec{}))
		if err != nil {
			return "HARNESS newstream " + common.HexS(err.Error())
		}
		// watchdog: a call that does not end within the limit after its terminating event is not prompt
		termAt := make(chan time.Time, 1)
		finished := make(chan struct{})
		go func() {
			select {
			case <-finished:
			case t := <-termAt:
				select {
				case <-finished:
				case <-time.After(time.Until(t.Add(PromptLimit))):
					notPrompt.Store(true)
					cancel()
					<-finished
				}
			}
		}()
		recvAll := func() {
			for {
				var b []byte
				if err := stream.RecvMsg(&b); err != nil {
					callErr = err
					return
				}
				cresp = append(cresp, b)
			}
		}
		switch scen {
		case "pingpong":
			for i, q := range reqs {
				q := q
				if err := stream.SendMsg(&q); err != nil {
					break
				}
				if i < len(resps) {
					var b []byte
					if err := stream.RecvMsg(&b); err != nil {
						callErr = err
						break
					}
					cresp = append(cresp, b)
				}
			}
			stream.CloseSend()
			termAt <- time.Now()
			if callErr == nil {
				recvAll()
			}
		default:
			for _, q := range reqs {
				q := q
				if err := stream.SendMsg(&q); err != nil {
					break
				}
			}
			switch scen {
			case "echo":
				stream.CloseSend()
				termAt <- time.Now()
			case "idle", "early":
				// the client neither sends nor closes any more: the target ends the call on its own
				select {
				case <-sc.done:
				case <-time.After(PromptLimit):
				}
				termAt <- time.Now()
			case "cancel":
				select {
				case <-sc.started:
					<-sc.gotN
				case <-time.After(PromptLimit):
				}
				cancel()
				termAt <- time.Now()
			case "deadline":
				termAt <- start.Add(150 * time.Millisecond)
			}
			recvAll()
		}
		close(finished)
	}
	if errors.Is(callErr, io.EOF) {
		callErr = nil
	}
	elapsed := time.Since(start)
	if scen == "deadline" && elapsed > 150*time.Millisecond+PromptLimit {
		notPrompt.Store(true)
	}
	// the target handler must end too (its context is cancelled when the call is over)
	tdone := true
	select {
	case <-sc.started:
		select {
		case <-sc.done:
		case <-time.After(PromptLimit):
			tdone = false
		}
	default: // the call ended before it reached the target
	}
	// No goroutine may keep working for the call: the call has completed; now the client side of the stream
	// is torn down as well (so that an abandoned RecvMsg/SendMsg of the proxy's stream adapter returns), and
	// after that nothing may be left inside the bridge's own code (forwarder, stream adapters, withCtx helpers).
	cancel()
	runtime.Gosched()
	gor, gwhere := WaitBridgeGoroutinesGone(GoroutineGrace, preexisting)
	sc.mu.Lock()
	defer sc.mu.Unlock()
	cst := status.Convert(callErr)
	b2 := func(b bool) string {
		if b {
			return "1"
		}
		return "0"
	}
	return strings.Join([]string{
		"got.treq=" + hexList(sc.got),
		"got.cresp=" + hexList(cresp),
		"got.code=" + strconv.Itoa(int(cst.Code())),
		"got.status=" + statusBytes(cst),
		"got.half=" + b2(sc.half),
		"got.prompt=" + b2(!notPrompt.Load()),
		"got.tdone=" + b2(tdone),
		"got.gor=" + strconv.Itoa(gor),
		"got.gwhere=" + gwhere,
	}, " ")
}

// randWire returns a random valid protobuf wire-format message (fields unknown to emptypb.Empty).
func randWire(r *rand.Rand, big bool) []byte {
	var b []byte
	for n := r.Intn(4); n > 0; n-- {
		num := protowire.Number(1 + r.Intn(3000))
		switch r.Intn(4) {
		case 0:
			b = protowire.AppendTag(b, num, protowire.VarintType)
			b = protowire.AppendVarint(b, r.Uint64()>>uint(r.Intn(64)))
		case 1:
			b = protowire.AppendTag(b, num, protowire.Fixed32Type)
			b = protowire.AppendFixed32(b, r.Uint32())
		case 2:
			b = protowire.AppendTag(b, num, protowire.Fixed64Type)
			b = protowire.AppendFixed64(b, r.Uint64())
		default:
			l := r.Intn(40)
			if big && r.Intn(4) == 0 {
				l = r.Intn(1 << 16)
			}
			b = protowire.AppendTag(b, num, protowire.BytesType)
			b = protowire.AppendBytes(b, common.RandBytes(r, l, nil))
		}
	}
	return b
}

// GenE2E emits n end-to-end cases; faults=true emphasises the termination scenarios of C02.
func GenE2E(r *rand.Rand, n int, faults bool, emit func(string)) {
	mk := func(scen string, reqs, resps [][]byte, tn int, code int, msg string, det []byte) {
		st := status.New(codes.Code(code), msg)
		if len(det) > 0 && code != 0 {
			st, _ = st.WithDetails(wrapperspb.Bytes(det))
		}
		treq, cresp, wcode, wstatus, half := reqs, resps, strconv.Itoa(code), statusBytes(st), "1"
		switch scen {
		case "idle":
			treq, half = reqs[:tn], "0"
		case "early":
			treq, half = nil, "0"
		case "cancel":
			treq, cresp, wcode, wstatus, half = reqs[:tn], nil, strconv.Itoa(int(codes.Canceled)), "*", "0"
		case "deadline":
			treq, cresp, wcode, wstatus, half = reqs[:tn], nil, strconv.Itoa(int(codes.DeadlineExceeded)), "*", "0"
		case "unary":
			if code != 0 {
				cresp = nil
			}
		}
		emit(fmt.Sprintf("e2e sc=%s req=%s resp=%s tn=%d code=%d msg=%s det=%s want.treq=%s want.cresp=%s want.code=%s want.status=%s want.half=%s want.prompt=1 want.tdone=1 want.gor=0",
			scen, hexList(reqs), hexList(resps), tn, code, common.HexS(msg), common.Hex(det),
			hexList(treq), hexList(cresp), wcode, wstatus, half))
	}
	msgs := func(k int, big bool) [][]byte {
		var out [][]byte
		for i := 0; i < k; i++ {
			out = append(out, randWire(r, big))
		}
		return out
	}
	// fixed edge cases first: D1's scenario (target ends a bidi call while the client is silent), empty messages
	mk("idle", nil, nil, 0, 0, "", nil)
	mk("idle", [][]byte{{}}, [][]byte{{}, {0x08, 0x01}}, 1, int(codes.Aborted), "target says no", []byte("detail"))
	mk("early", [][]byte{{0x08, 0x01}}, nil, 0, int(codes.PermissionDenied), "denied", nil)
	mk("echo", [][]byte{{}, {}, {0x08, 0x96, 0x01}}, [][]byte{{}, {0x12, 0x00}}, 0, 0, "", nil)
	mk("unary", [][]byte{{0x0a, 0x03, 'a', 'b', 'c'}}, [][]byte{{0x10, 0x01}}, 0, 0, "", nil)
	mk("cancel", [][]byte{{0x08, 0x01}}, nil, 1, 0, "", nil)
	mk("deadline", nil, nil, 0, 0, "", nil)
	// every gRPC code as the TARGET's final status, with a message and details — including Canceled (1) and
	// DeadlineExceeded (4), which look like local aborts but here come from the target and must arrive intact
	for code := 0; code <= 16; code++ {
		msg := fmt.Sprintf("target status %d – détails", code)
		det := []byte(fmt.Sprintf("detail-%d", code))
		mk("echo", [][]byte{{0x08, byte(code)}}, [][]byte{{0x10, byte(code)}}, 0, code, msg, det)
		mk("idle", [][]byte{{0x08, byte(code)}}, [][]byte{{0x10, byte(code)}}, 1, code, msg, det)
		if code%4 == 1 {
			mk("unary", [][]byte{{0x08, byte(code)}}, [][]byte{{0x10, byte(code)}}, 0, code, msg, det)
			mk("early", nil, nil, 0, code, msg, det)
		}
	}
	scens := []string{"echo", "echo", "pingpong", "unary", "idle", "early", "cancel"}
	if faults {
		scens = []string{"idle", "idle", "early", "cancel", "deadline", "echo", "pingpong"}
	}
	for i := 0; i < n; i++ {
		scen := common.Pick(r, scens)
		code := 0
		msg := ""
		var det []byte
		if r.Intn(2) == 0 {
			code = 1 + r.Intn(16)
			msg = string(common.RandBytes(r, r.Intn(12), []byte("abc xyz-é")))
			msg = strings.ToValidUTF8(msg, "?")
			if r.Intn(2) == 0 {
				det = common.RandBytes(r, 1+r.Intn(20), nil)
			}
		}
		big := i%9 == 0
		nq, np := r.Intn(5), r.Intn(5)
		switch scen {
		case "unary":
			nq, np = 1, 1
		case "pingpong":
			if np > nq {
				np = nq
			}
		case "early":
			np = 0
			if code == 0 {
				code = int(codes.Unauthenticated)
			}
		case "cancel", "deadline":
			np = 0
		}
		reqs, resps := msgs(nq, big), msgs(np, big)
		tn := 0
		if scen == "idle" || scen == "cancel" || scen == "deadline" {
			tn = nq
		}
		mk(scen, reqs, resps, tn, code, msg, det)
	}
}
