// L1 trace validation of grpcadapter.ProxyForwarder.Forward: the REAL Forward is driven through scripted
// fakes of grpcadapter.ServerStream / ClientConn / ClientStream. Every call into a fake parks until the
// seeded scheduler releases it with the next scripted result of its role; the totally ordered event log
// is the output of the case and is replayed through the Lean LTS (GB.Fwd.step) by the driver.
package c01

import (
	"context"
	"fmt"
	"io"
	"math/rand"
	"runtime"
	"sort"
	"strconv"
	"strings"
	"sync"
	"sync/atomic"
	"time"

	"github.com/renbou/grpcbridge/bridgedesc"
	"github.com/renbou/grpcbridge/grpcadapter"
	"google.golang.org/grpc/codes"
	"google.golang.org/grpc/metadata"
	"google.golang.org/grpc/status"
	"google.golang.org/protobuf/proto"
	"google.golang.org/protobuf/types/known/emptypb"
	"google.golang.org/protobuf/types/known/wrapperspb"

	"verif/harness/common"
)

// Scenario is the parsed input line of an L1 case:
//
//	fwd cs=1 ss=1 ia=1 oa=1 lz=0 mt=b ir=m:x01,E is=k st=k ow=k or=m:x0a,E cx=c@5 sd=42
//
// ir/is/st/ow/or = result scripts of Incoming.Recv / Incoming.Send / Outgoing.Stream / outgoing.Send /
// outgoing.Recv (m:<hex payload> | E = io.EOF | e<id> = error #id | k = ok | B = block until ctx);
// a role whose script is exhausted blocks. cx = cancel (c) / deadline (d) before the n-th scheduler
// decision; sd = seed of the release order; lz=1: ctx-aware fakes look at ctx only when told to block;
// mt = message type (b = wrapperspb.BytesValue, e = emptypb.Empty carrying the payload as unknown fields).
type Scenario struct {
	CS, SS, IA, OA, Lazy bool
	MT                   string
	Scripts              map[string][]string
	CancelKind           string
	CancelAt             int
	Seed                 int64
}

func ParseScenario(line string) (*Scenario, error) {
	f := strings.Fields(line)
	if len(f) == 0 || f[0] != "fwd" {
		return nil, fmt.Errorf("not an fwd line")
	}
	sc := &Scenario{Scripts: map[string][]string{}, CancelAt: -1, MT: "b"}
	for _, kv := range f[1:] {
		i := strings.IndexByte(kv, '=')
		if i < 0 {
			return nil, fmt.Errorf("bad field %q", kv)
		}
		k, v := kv[:i], kv[i+1:]
		switch k {
		case "cs":
			sc.CS = v == "1"
		case "ss":
			sc.SS = v == "1"
		case "ia":
			sc.IA = v == "1"
		case "oa":
			sc.OA = v == "1"
		case "lz":
			sc.Lazy = v == "1"
		case "mt":
			sc.MT = v
		case "ir", "is", "st", "ow", "or":
			if v != "" && v != "-" {
				sc.Scripts[k] = strings.Split(v, ",")
			}
		case "cx":
			if v != "-" {
				j := strings.IndexByte(v, '@')
				if j < 0 {
					return nil, fmt.Errorf("bad cx %q", v)
				}
				sc.CancelKind = v[:j]
				n, err := strconv.Atoi(v[j+1:])
				if err != nil {
					return nil, err
				}
				sc.CancelAt = n
			}
		case "sd":
			n, err := strconv.ParseInt(v, 10, 64)
			if err != nil {
				return nil, err
			}
			sc.Seed = n
		default:
			return nil, fmt.Errorf("unknown field %q", k)
		}
	}
	return sc, nil
}

type result struct {
	tok   string // scripted token
	force bool   // teardown release
}

type parked struct {
	role    string
	retTok  string // token prefix of the return event ("" for atomic calls)
	callTok string // for atomic calls: the event logged at release
	release chan result
	done    bool // return already decided (under sim.mu)
	blocked bool // told to block until ctx
	msg     proto.Message
}

type manualCtx struct {
	context.Context
	done chan struct{}
	mu   sync.Mutex
	err  error
}

func (c *manualCtx) Done() <-chan struct{} { return c.done }
func (c *manualCtx) Err() error {
	c.mu.Lock()
	defer c.mu.Unlock()
	return c.err
}

type sim struct {
	sc        *Scenario
	mu        sync.Mutex
	log       []string
	activity  atomic.Int64
	parked    map[string]*parked
	idx       map[string]int
	errs      map[int]error
	errID     map[error]int
	nextCtxE  int
	returned  bool
	cancelled bool
	dup       bool
	kept      []keptMsg
	cancelFn  context.CancelFunc
	mctx      *manualCtx
}

type keptMsg struct {
	msg     proto.Message
	payload []byte
}

func (s *sim) logf(tok string) {
	s.log = append(s.log, tok)
	s.activity.Add(1)
}

func (s *sim) errFor(id int) error {
	if id == 0 {
		return io.ErrUnexpectedEOF // a plain (non-status) error value
	}
	if e, ok := s.errs[id]; ok {
		return e
	}
	e := status.Error(codes.Code(1+id%16), fmt.Sprintf("injected error %d", id))
	s.errs[id] = e
	s.errID[e] = id
	return e
}

func payloadOf(m proto.Message) []byte {
	switch v := m.(type) {
	case *wrapperspb.BytesValue:
		return v.GetValue()
	case *emptypb.Empty:
		raw := v.ProtoReflect().GetUnknown()
		// unknown field 1, length-delimited: tag 0x0a, varint len, bytes
		if len(raw) >= 2 && raw[0] == 0x0a {
			return append([]byte{}, raw[2:]...)
		}
		return append([]byte{}, raw...)
	}
	b, _ := proto.Marshal(m)
	return b
}

func setPayload(m proto.Message, p []byte) {
	switch v := m.(type) {
	case *wrapperspb.BytesValue:
		v.Value = append([]byte{}, p...)
	case *emptypb.Empty:
		raw := append([]byte{0x0a, byte(len(p))}, p...) // payloads are < 128 bytes
		v.ProtoReflect().SetUnknown(raw)
	}
}

// call parks the calling goroutine of Forward inside a fake until the scheduler decides its result.
func (s *sim) call(role, callTok, retTok string, atomicCall bool, ctx context.Context, aware bool, msg proto.Message) (string, bool) {
	pc := &parked{role: role, retTok: retTok, release: make(chan result, 2), msg: msg}
	s.mu.Lock()
	if _, dup := s.parked[role]; dup || s.returned {
		// a second concurrent call on the same stream operation, or a call after Forward returned
		s.dup = s.dup || dup
		s.logf("late:" + callTok)
		s.mu.Unlock()
		return "e999", true
	}
	if atomicCall {
		pc.callTok = callTok
	} else {
		s.logf(callTok)
	}
	s.parked[role] = pc
	s.activity.Add(1)
	s.mu.Unlock()

	var ctxCh <-chan struct{}
	if aware && !s.sc.Lazy && ctx != nil {
		ctxCh = ctx.Done()
	}
	for {
		select {
		case r := <-pc.release:
			if r.tok == "B" && !r.force {
				if aware && ctx != nil {
					ctxCh = ctx.Done()
				}
				continue
			}
			return r.tok, r.force
		case <-ctxCh:
			s.mu.Lock()
			if pc.done {
				s.mu.Unlock()
				r := <-pc.release
				return r.tok, r.force
			}
			pc.done = true
			delete(s.parked, role)
			s.nextCtxE++
			id := s.nextCtxE
			s.logf(retTok + ":e" + strconv.Itoa(id))
			s.mu.Unlock()
			return "e" + strconv.Itoa(id), false
		}
	}
}

func (s *sim) tokErr(tok string) error {
	switch {
	case tok == "k" || strings.HasPrefix(tok, "m:"):
		return nil
	case tok == "E":
		return io.EOF
	case strings.HasPrefix(tok, "e"):
		id, _ := strconv.Atoi(tok[1:])
		s.mu.Lock()
		defer s.mu.Unlock()
		return s.errFor(id)
	}
	return fmt.Errorf("bad token %q", tok)
}

type fakeIncoming struct{ s *sim }

func (f fakeIncoming) Recv(ctx context.Context, msg proto.Message) error {
	tok, _ := f.s.call("ir", "irc", "irr", false, ctx, f.s.sc.IA, msg)
	if strings.HasPrefix(tok, "m:") {
		setPayload(msg, common.MustUnHex(tok[2:]))
	}
	return f.s.tokErr(tok)
}

func (f fakeIncoming) Send(ctx context.Context, msg proto.Message) error {
	tok, _ := f.s.call("is", "isc:"+common.Hex(payloadOf(msg)), "isr", false, ctx, f.s.sc.IA, msg)
	return f.s.tokErr(tok)
}
func (f fakeIncoming) SetHeader(metadata.MD)  { f.s.call("ih", "ish", "", true, nil, false, nil) }
func (f fakeIncoming) SetTrailer(metadata.MD) { f.s.call("it", "ist", "", true, nil, false, nil) }

type fakeConn struct{ s *sim }

func (f fakeConn) Stream(ctx context.Context, method string) (grpcadapter.ClientStream, error) {
	tok, _ := f.s.call("st", "osc", "osr", false, ctx, f.s.sc.OA, nil)
	if err := f.s.tokErr(tok); err != nil {
		return nil, err
	}
	return fakeStream{f.s}, nil
}
func (f fakeConn) Close() {}

type fakeStream struct{ s *sim }

func (f fakeStream) Send(ctx context.Context, msg proto.Message) error {
	p := payloadOf(msg)
	f.s.mu.Lock()
	f.s.kept = append(f.s.kept, keptMsg{msg, append([]byte{}, p...)})
	f.s.mu.Unlock()
	tok, _ := f.s.call("ow", "owc:"+common.Hex(p), "owr", false, ctx, f.s.sc.OA, msg)
	return f.s.tokErr(tok)
}

func (f fakeStream) Recv(ctx context.Context, msg proto.Message) error {
	tok, _ := f.s.call("or", "orc", "orr", false, ctx, f.s.sc.OA, msg)
	if strings.HasPrefix(tok, "m:") {
		setPayload(msg, common.MustUnHex(tok[2:]))
	}
	return f.s.tokErr(tok)
}
func (f fakeStream) Header() metadata.MD {
	f.s.call("oh", "ohd", "", true, nil, false, nil)
	return nil
}
func (f fakeStream) Trailer() metadata.MD {
	f.s.call("ot", "otr", "", true, nil, false, nil)
	return nil
}
func (f fakeStream) CloseSend() { f.s.call("oc", "ocs", "", true, nil, false, nil) }
func (f fakeStream) Close()     { f.s.call("ol", "ocl", "", true, nil, false, nil) }

// settle waits until the goroutines of the call have stopped producing events.
func (s *sim) settle() {
	last := s.activity.Load()
	stable := 0
	for i := 0; stable < 3 && i < 2000; i++ {
		if i < 20 {
			runtime.Gosched()
		} else {
			time.Sleep(20 * time.Microsecond)
		}
		cur := s.activity.Load()
		if cur != last {
			last, stable = cur, 0
		} else if i >= 20 {
			stable++
		}
	}
}

func (s *sim) waitActivity(d time.Duration) bool {
	start := s.activity.Load()
	deadline := time.Now().Add(d)
	for time.Now().Before(deadline) {
		if s.activity.Load() != start {
			return true
		}
		time.Sleep(200 * time.Microsecond)
	}
	return s.activity.Load() != start
}

func (s *sim) cancelLocked(kind string) {
	s.cancelled = true
	if kind == "d" {
		s.logf("cx:d")
		s.mctx.mu.Lock()
		s.mctx.err = context.DeadlineExceeded
		s.mctx.mu.Unlock()
		close(s.mctx.done)
	} else {
		s.logf("cx:c")
		s.cancelFn()
	}
}

func (s *sim) classify(err error) string {
	if err == nil {
		return "nil"
	}
	if id, ok := s.errID[err]; ok {
		return "p" + strconv.Itoa(id)
	}
	if err == io.ErrUnexpectedEOF {
		return "p0"
	}
	if st, ok := status.FromError(err); ok {
		switch {
		case st.Code() == codes.Canceled && st.Message() == context.Canceled.Error():
			return "cc"
		case st.Code() == codes.DeadlineExceeded && st.Message() == context.DeadlineExceeded.Error():
			return "cd"
		case st.Code() == codes.Unavailable && strings.HasPrefix(st.Message(), "grpcbridge: unexpected EOF from client for unary request"):
			return "ue"
		case st.Code() == codes.Unavailable && strings.HasPrefix(st.Message(), "grpcbridge: unexpected EOF from server for unary response"):
			return "us"
		}
	}
	return "other:" + common.HexS(err.Error())
}

// hangsSeen counts hangs that were not predicted (ctx-aware fakes, end-to-end watchdogs) in this process.
var hangsSeen atomic.Int32

// HangTimeoutAfterHangs replaces the generous limits once three unexpected hangs were seen.
var HangTimeoutAfterHangs = 400 * time.Millisecond

// HangTimeout is how long nothing may happen (everything blocked, ctx already cancelled) before a hang is declared.
var (
	HangTimeoutAware   = 3 * time.Second
	HangTimeoutUnaware = 60 * time.Millisecond
)

// RunL1 executes one scenario on the real Forward and returns the event log.
func RunL1(line string) string {
	sc, err := ParseScenario(line)
	if err != nil {
		return "BADLINE " + common.HexS(err.Error())
	}
	s := &sim{sc: sc, parked: map[string]*parked{}, idx: map[string]int{}, errs: map[int]error{}, errID: map[error]int{}, nextCtxE: 900}
	s.mctx = &manualCtx{Context: context.Background(), done: make(chan struct{})}
	parent, cancel := context.WithCancel(s.mctx)
	s.cancelFn = cancel
	defer cancel()

	var in, out bridgedesc.Message
	if sc.MT == "e" {
		in, out = bridgedesc.ConcreteMessage[emptypb.Empty](), bridgedesc.ConcreteMessage[emptypb.Empty]()
	} else {
		in, out = bridgedesc.ConcreteMessage[wrapperspb.BytesValue](), bridgedesc.ConcreteMessage[wrapperspb.BytesValue]()
	}
	method := &bridgedesc.Method{RPCName: "/verif.Svc/M", Input: in, Output: out, ClientStreaming: sc.CS, ServerStreaming: sc.SS}
	pf := grpcadapter.NewProxyForwarder(grpcadapter.ProxyForwarderOpts{})
	params := grpcadapter.ForwardParams{
		Target: &bridgedesc.Target{Name: "t"}, Service: &bridgedesc.Service{Name: "verif.Svc"}, Method: method,
		Incoming: fakeIncoming{s}, Outgoing: fakeConn{s},
	}
	go func() {
		var ferr error
		func() {
			defer func() {
				if r := recover(); r != nil {
					ferr = fmt.Errorf("panic: %v", r)
				}
			}()
			ferr = pf.Forward(parent, params)
		}()
		s.mu.Lock()
		s.logf("ret:" + s.classify(ferr))
		s.returned = true
		s.mu.Unlock()
	}()

	rng := rand.New(rand.NewSource(sc.Seed))
	hung := false
	hangTO := HangTimeoutAware
	if hangsSeen.Load() >= 3 {
		hangTO = HangTimeoutAfterHangs // the run is already failing: keep the remaining hangs cheap
	}
	if !sc.IA || !sc.OA {
		hangTO = HangTimeoutUnaware
	}
	for step := 0; step < 4000; {
		s.settle()
		s.mu.Lock()
		if s.returned {
			s.mu.Unlock()
			break
		}
		if sc.CancelAt == step && !s.cancelled {
			s.cancelLocked(sc.CancelKind)
			step++
			s.mu.Unlock()
			continue
		}
		var cands []string
		for r, pc := range s.parked {
			if !pc.blocked && !pc.done {
				cands = append(cands, r)
			}
		}
		sort.Strings(cands)
		if len(cands) == 0 {
			if !s.cancelled {
				// nothing can move and nobody cancelled: tear the call down like a leaving client would
				s.cancelLocked("c")
				s.mu.Unlock()
				continue
			}
			s.mu.Unlock()
			if s.waitActivity(hangTO) {
				continue
			}
			// hang: Forward has not returned although ctx is cancelled and every peer call is blocked
			s.mu.Lock()
			if s.returned {
				s.mu.Unlock()
				break
			}
			if !hung {
				s.logf("hang")
				hung = true
				if sc.IA && sc.OA {
					hangsSeen.Add(1)
				}
			}
			for r, pc := range s.parked {
				if !pc.done {
					pc.done = true
					delete(s.parked, r)
					if pc.retTok != "" {
						s.logf(pc.retTok + ":e999")
					} else {
						s.logf(pc.callTok)
					}
					pc.release <- result{tok: "e999", force: true}
				}
			}
			s.mu.Unlock()
			continue
		}
		role := cands[rng.Intn(len(cands))]
		pc := s.parked[role]
		if pc.retTok == "" { // atomic call: the event happens now
			pc.done = true
			delete(s.parked, role)
			s.logf(pc.callTok)
			pc.release <- result{tok: "k"}
		} else {
			tok := "B"
			if scr := sc.Scripts[role]; s.idx[role] < len(scr) {
				tok = scr[s.idx[role]]
				s.idx[role]++
			}
			if tok == "B" {
				pc.blocked = true
				s.activity.Add(1)
				pc.release <- result{tok: "B"}
			} else {
				pc.done = true
				delete(s.parked, role)
				s.logf(pc.retTok + ":" + tok)
				pc.release <- result{tok: tok}
			}
		}
		step++
		s.mu.Unlock()
	}
	s.settle()
	time.Sleep(200 * time.Microsecond)
	s.settle()

	s.mu.Lock()
	defer s.mu.Unlock()
	pend := len(s.parked)
	gor := forwardGoroutines() // counted while leaked calls are still parked
	// release whatever is still parked (a leak, reported through pend) so that the process does not accumulate goroutines
	for r, pc := range s.parked {
		if !pc.done {
			pc.done = true
			delete(s.parked, r)
			pc.release <- result{tok: "e999", force: true}
		}
	}
	kept := "ok"
	for _, k := range s.kept {
		if string(payloadOf(k.msg)) != string(k.payload) {
			kept = "bad"
		}
	}
	toks := append([]string{}, s.log...)
	if !s.returned {
		toks = append(toks, "noret")
	}
	toks = append(toks, fmt.Sprintf("pend:%d", pend), "gor:"+strconv.Itoa(gor), "kept:"+kept)
	if s.dup {
		toks = append(toks, "dup")
	}
	return strings.Join(toks, " ")
}

// BridgeGoroutines counts goroutines that are still inside code of the bridge itself: any frame of a package
// of github.com/renbou/grpcbridge (the forwarder, the proxy's stream adapter and its withCtx helper, the
// webbridge handlers and helpers, the client stream adapter). It is meant to be called after the call has
// completed AND everything such a goroutine could be waiting for has been released (client stream torn down,
// connection closed, blocked fakes released): whatever is left then can never exit. The second result names
// the first offender ("<function>[<state>]") for the replay file.
func BridgeGoroutines(ignore map[string]bool) (int, string) {
	cnt, where := 0, "-"
	for id, w := range bridgeGoroutineIDs() {
		if ignore[id] {
			continue
		}
		cnt++
		if where == "-" || w < where {
			where = w
		}
	}
	return cnt, where
}

// BridgeGoroutineSnapshot returns the ids of the goroutines that are inside the bridge right now; a case takes
// it before it starts, so that whatever an EARLIER case leaked is attributed to that case only.
func BridgeGoroutineSnapshot() map[string]bool {
	m := map[string]bool{}
	for id := range bridgeGoroutineIDs() {
		m[id] = true
	}
	return m
}

func bridgeGoroutineIDs() map[string]string {
	buf := make([]byte, 1<<22)
	n := runtime.Stack(buf, true)
	out := map[string]string{}
	for _, g := range strings.Split(string(buf[:n]), "\n\n") {
		i := strings.Index(g, "github.com/renbou/grpcbridge")
		if i < 0 || !strings.HasPrefix(g, "goroutine ") {
			continue
		}
		id := g[len("goroutine "):]
		if j := strings.IndexByte(id, ' '); j >= 0 {
			id = id[:j]
		}
		state := ""
		if a, b := strings.IndexByte(g, '['), strings.IndexByte(g, ']'); a >= 0 && b > a {
			state = g[a : b+1]
			if k := strings.IndexByte(state, ','); k >= 0 { // drop the ", N minutes" part
				state = state[:k] + "]"
			}
			state = strings.ReplaceAll(state, " ", "_")
		}
		fn := g[i:]
		if j := strings.IndexAny(fn, "(\n"); j >= 0 {
			fn = fn[:j]
		}
		out[id] = strings.TrimPrefix(fn, "github.com/renbou/") + state
	}
	return out
}

// WaitBridgeGoroutinesGone polls until no goroutine (other than the ignored, pre-existing ones) is left inside
// the bridge, or the limit passes.
func WaitBridgeGoroutinesGone(limit time.Duration, ignore map[string]bool) (int, string) {
	deadline := time.Now().Add(limit)
	for {
		n, where := BridgeGoroutines(ignore)
		if n == 0 || time.Now().After(deadline) {
			return n, where
		}
		time.Sleep(5 * time.Millisecond)
	}
}

// ForwardGoroutines is forwardGoroutines for the other areas of this slice.
func ForwardGoroutines() int { return forwardGoroutines() }

// forwardGoroutines counts goroutines that still execute code of ProxyForwarder (after the call ended).
func forwardGoroutines() int {
	buf := make([]byte, 1<<18)
	n := runtime.Stack(buf, true)
	cnt := 0
	for _, g := range strings.Split(string(buf[:n]), "\n\n") {
		if strings.Contains(g, "grpcadapter.(*ProxyForwarder)") {
			cnt++
		}
	}
	return cnt
}
