// Package c01 is the correspondence area of property C01 (stub: the slice is not built yet).
package c01

import (
	"math/rand"
)

type Area struct{}

func (Area) Name() string { return "c01" }

func (Area) Exec(input string) string { return "UNIMPLEMENTED" }

func (Area) Gen(r *rand.Rand, tier string, emit func(string)) {}
