// Package c01 is the correspondence area of property C01: trace validation of the real
// ProxyForwarder.Forward against the Lean LTS (L1, `fwd` lines) and an end-to-end layer over real gRPC
// on bufconn (L2, `e2e` lines). The simulator is shared with C02 (harness/c02).
package c01

import (
	"fmt"
	"math/rand"
	"strings"

	"verif/harness/common"
)

type Area struct{}

func (Area) Name() string { return "c01" }

// Exec runs one case on the real code.
func Exec(input string) string {
	switch {
	case strings.HasPrefix(input, "fwd "):
		return RunL1(input)
	case strings.HasPrefix(input, "e2e "):
		return RunE2E(input)
	case strings.HasPrefix(input, "real "):
		return RunReal(input)
	case strings.HasPrefix(input, "multi "):
		return RunMulti(input)
	}
	return "BADOP"
}

func (Area) Exec(input string) string { return Exec(input) }

var payloadAlphabet = []byte{0x00, 0x01, 0x0a, 0x7f, 0xff}

func randPayload(r *rand.Rand) string {
	n := r.Intn(4)
	if r.Intn(12) == 0 {
		n = 4 + r.Intn(40)
	}
	return common.Hex(common.RandBytes(r, n, payloadAlphabet))
}

// GenOpts steer the scenario generator.
type GenOpts struct {
	Faults  bool // inject errors / blocks / cancellations (C02) — otherwise mostly fault-free (C01)
	Unaware bool // let one side ignore the context
}

func b2s(b bool) string {
	if b {
		return "1"
	}
	return "0"
}

// Line renders a scenario line.
func Line(cs, ss, ia, oa, lz bool, mt string, ir, is, st, ow, or []string, cx string, sd int64) string {
	j := func(x []string) string {
		if len(x) == 0 {
			return "-"
		}
		return strings.Join(x, ",")
	}
	return fmt.Sprintf("fwd cs=%s ss=%s ia=%s oa=%s lz=%s mt=%s ir=%s is=%s st=%s ow=%s or=%s cx=%s sd=%d",
		b2s(cs), b2s(ss), b2s(ia), b2s(oa), b2s(lz), mt, j(ir), j(is), j(st), j(ow), j(or), cx, sd)
}

// RandomScenario draws one scenario.
func RandomScenario(r *rand.Rand, o GenOpts) string {
	cs, ss := r.Intn(2) == 0, r.Intn(2) == 0
	nreq, nresp := 1, 1
	if cs {
		nreq = r.Intn(7)
	} else if r.Intn(10) == 0 {
		nreq = 0
	}
	if ss {
		nresp = r.Intn(7)
	} else if r.Intn(8) == 0 {
		nresp = r.Intn(3) // 0 or 2: misbehaving target on a unary-response method
	}
	var ir, is, ow, or []string
	for i := 0; i < nreq; i++ {
		ir = append(ir, "m:"+randPayload(r))
		ow = append(ow, "k")
	}
	switch x := r.Intn(10); {
	case x < 7:
		ir = append(ir, "E") // half-close
	case x < 9:
		ir = append(ir, "B") // silent client
	default:
		ir = append(ir, fmt.Sprintf("e%d", 1+r.Intn(40)))
	}
	if len(ow) > 0 && r.Intn(6) == 0 { // target stops reading early
		ow[r.Intn(len(ow))] = "E"
	}
	for i := 0; i < nresp; i++ {
		or = append(or, "m:"+randPayload(r))
		is = append(is, "k")
	}
	switch x := r.Intn(10); {
	case x < 5:
		or = append(or, "E")
	case x < 9:
		or = append(or, fmt.Sprintf("e%d", 1+r.Intn(40))) // final status
	default:
		or = append(or, "B")
	}
	st := []string{"k"}
	cx := "-"
	if o.Faults {
		// one or two injected faults
		for n := 1 + r.Intn(2); n > 0; n-- {
			switch r.Intn(6) {
			case 0:
				if len(ir) > 0 {
					ir[r.Intn(len(ir))] = common.Pick(r, []string{fmt.Sprintf("e%d", 50+r.Intn(20)), "B", "E"})
				}
			case 1:
				if len(ow) > 0 {
					ow[r.Intn(len(ow))] = common.Pick(r, []string{fmt.Sprintf("e%d", 70+r.Intn(20)), "B", "E"})
				}
			case 2:
				if len(or) > 0 {
					or[r.Intn(len(or))] = common.Pick(r, []string{fmt.Sprintf("e%d", 90+r.Intn(20)), "B", "E"})
				}
			case 3:
				if len(is) > 0 {
					is[r.Intn(len(is))] = common.Pick(r, []string{fmt.Sprintf("e%d", 110+r.Intn(20)), "B"})
				}
			case 4:
				st[0] = common.Pick(r, []string{fmt.Sprintf("e%d", 130+r.Intn(20)), "B", "k"})
			default:
				cx = fmt.Sprintf("%s@%d", common.Pick(r, []string{"c", "d"}), r.Intn(40))
			}
		}
	} else if r.Intn(12) == 0 {
		cx = fmt.Sprintf("%s@%d", common.Pick(r, []string{"c", "d"}), r.Intn(40))
	}
	ia, oa := true, true
	if o.Unaware {
		if r.Intn(3) != 0 {
			ia = false
		} else {
			oa = false
		}
	}
	mt := common.Pick(r, []string{"b", "b", "e"})
	return Line(cs, ss, ia, oa, r.Intn(3) == 0, mt, ir, is, st, ow, or, cx, r.Int63n(1<<31))
}

func (Area) Gen(r *rand.Rand, tier string, emit func(string)) {
	n, ne := 450, 60
	if tier == "thorough" {
		n, ne = 12000, 1500
	}
	// all four RPC kinds, fault-free, 0..3 requests x 0..3 responses, both final outcomes, a few orders each
	for _, cs := range []bool{false, true} {
		for _, ss := range []bool{false, true} {
			for nq := 0; nq <= 3; nq++ {
				for np := 0; np <= 3; np++ {
					if (!cs && nq != 1) || (!ss && np != 1) {
						continue
					}
					for _, fin := range []string{"E", "e7"} {
						var ir, is, ow, or []string
						for i := 0; i < nq; i++ {
							ir = append(ir, fmt.Sprintf("m:x%02x", 0x10+i))
							ow = append(ow, "k")
						}
						ir = append(ir, "E")
						for i := 0; i < np; i++ {
							or = append(or, fmt.Sprintf("m:x%02x", 0xa0+i))
							is = append(is, "k")
						}
						or = append(or, fin)
						for k := 0; k < 2; k++ {
							emit(Line(cs, ss, true, true, false, "b", ir, is, []string{"k"}, ow, or, "-", r.Int63n(1<<31)))
						}
					}
				}
			}
		}
	}
	for i := 0; i < n; i++ {
		emit(RandomScenario(r, GenOpts{Faults: i%5 == 4}))
	}
	GenE2E(r, ne, false, emit)
}
