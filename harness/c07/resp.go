package c07

// rbin: what an allow-listed response header / trailer VALUE looks like on the HTTP/1.1 wire, byte for byte.
// gRPC-Go hands binary (-bin) metadata to the bridge DECODED, so the scripted target emits arbitrary bytes (>= 0x80, CR, LF,
// NUL, leading / trailing blanks) under one allow-listed key; the real TranscodedHTTPBridge / GRPCWebBridge runs behind a real
// net/http server and the response is read from a raw TCP connection WITHOUT an HTTP parser: the head and the chunked trailer
// section are cut into lines at LF (one CR before it dropped, as lenient parsers do) and each line at its first ':' (one SP
// after it dropped, the form net/http writes).  The Lean side (GB/C07/RespWire.lean) predicts the exact value bytes and judges:
// no line the bridge did not own may appear, and a -bin value must decode (unpadded base64) to the target's bytes.
//
//	rbin http|grpcweb hdr|trl unary|stream x<key> l:<values>  =>  st=<code> hl=p:<name>=<value>;… tl=p:… [terr=…]

import (
	"bytes"
	"fmt"
	"io"
	"math/rand"
	"net/http"
	"net/http/httptest"
	"strconv"
	"strings"
	"time"

	"github.com/renbou/grpcbridge/grpcadapter"
	"github.com/renbou/grpcbridge/webbridge"
	"verif/harness/c07/fake"
	"verif/harness/common"
)

func execRBin(entry, where, mode, key string, vals []string) string {
	o := opts{AllowResponseMD: []string{key}, AllowTrailerMD: []string{key}}
	pf := grpcadapter.NewProxyForwarder(grpcadapter.ProxyForwarderOpts{Filter: grpcadapter.NewProxyMDFilter(o)})
	hdr, trl := map[string][]string{}, map[string][]string{}
	if where == "hdr" {
		hdr[key] = vals
	} else {
		trl[key] = vals
	}
	tgt := newTarget(hdr, trl, mode)
	rt := &fake.Router{Conn: tgt, ServerStreaming: isStreaming(mode)}
	var h http.Handler
	method, target := "GET", "/x"
	var body []byte
	lines := [][2]string{{"Connection", "close"}}
	switch entry {
	case "http":
		h = webbridge.NewTranscodedHTTPBridge(rt, webbridge.TranscodedHTTPBridgeOpts{Forwarder: pf})
	case "grpcweb":
		h = webbridge.NewGRPCWebBridge(rt, webbridge.GRPCWebBridgeOpts{Forwarder: pf})
		method, target, body = "POST", "/verif.S/M", []byte{0, 0, 0, 0, 0}
		lines = append(lines, [2]string{"Content-Type", "application/grpc-web+proto"})
	default:
		return "BADENTRY"
	}
	srv := httptest.NewServer(h)
	defer srv.Close()
	rc, err := fake.Dial(srv.Listener.Addr().String())
	if err != nil {
		return "ERR dial"
	}
	defer rc.Close()
	if err := rc.WriteRequest(method, target, lines, body); err != nil {
		return "ERR write"
	}
	_ = rc.C.SetDeadline(time.Now().Add(3 * time.Second))
	raw, _ := io.ReadAll(rc.BR)
	return showRawResponse(raw)
}

// cutLine: the next line of b (up to LF, one CR before it dropped) and the rest; ok=false when no LF is left
func cutLine(b []byte) (line, rest []byte, ok bool) {
	i := bytes.IndexByte(b, '\n')
	if i < 0 {
		return b, nil, false
	}
	line = b[:i]
	if len(line) > 0 && line[len(line)-1] == '\r' {
		line = line[:len(line)-1]
	}
	return line, b[i+1:], true
}

// headerBlock: lines up to the first empty one, each cut at its first ':' (no colon: the whole line is the name)
func headerBlock(b []byte) (ps [][2]string, rest []byte, ok bool) {
	for {
		line, r, more := cutLine(b)
		if !more {
			return ps, nil, false
		}
		b = r
		if len(line) == 0 {
			return ps, b, true
		}
		name, val, _ := strings.Cut(string(line), ":")
		val = strings.TrimPrefix(val, " ")
		ps = append(ps, [2]string{name, val})
	}
}

func showRawResponse(raw []byte) string {
	statusLine, rest, ok := cutLine(raw)
	if !ok {
		return "ERR nostatus " + common.Hex(raw)
	}
	f := strings.Fields(string(statusLine))
	st := "?"
	if len(f) >= 2 {
		st = f[1]
	}
	hl, rest, ok := headerBlock(rest)
	if !ok {
		return fmt.Sprintf("st=%s hl=%s tl=p: terr=head", st, fake.ShowPairs(hl))
	}
	chunked := false
	for _, p := range hl {
		if strings.EqualFold(p[0], "Transfer-Encoding") && p[1] == "chunked" {
			chunked = true
		}
	}
	var tl [][2]string
	terr := ""
	if chunked {
		for {
			line, r, more := cutLine(rest)
			if !more {
				terr = " terr=chunk"
				break
			}
			n, err := strconv.ParseUint(strings.TrimSpace(string(line)), 16, 32)
			if err != nil || int(n)+2 > len(r)+2 {
				terr = " terr=size"
				break
			}
			if n == 0 {
				var ok bool
				tl, _, ok = headerBlock(r)
				if !ok {
					terr = " terr=trailer"
				}
				break
			}
			if int(n)+2 > len(r) {
				terr = " terr=short"
				break
			}
			rest = r[n+2:]
		}
	}
	return fmt.Sprintf("st=%s hl=%s tl=%s%s", st, fake.ShowPairs(hl), fake.ShowPairs(tl), terr)
}

var (
	rbinKeys   = []string{"x-bin", "x-bin", "data-bin", "x-a", "etag", "x-trace-bin"}
	rbinFixed  = []string{"", "A", "AB", "ABC", "ABCD", "\x00", "\xff", "\x80\x81", "a\r\nb", "\r\n", "\r", "\n", "a\r\nX-Injected: 1", "a\r\n\r\nHTTP/1.1 200 OK\r\n\r\n", "a\r\ngrpc-status: 0", " lead", "trail ", "\tt\t", "a\x00b", "a\x7fb", "caf\xc3\xa9", "a b", "a,b", "QUJD", "=", strings.Repeat("\xfe", 300)}
	rbinShapes = [][3]string{{"http", "hdr", "unary"}, {"http", "trl", "unary"}, {"http", "hdr", "stream"}, {"http", "trl", "stream"}, {"grpcweb", "hdr", "unary"}, {"grpcweb", "hdr", "stream"}}
)

// text values a gRPC target can actually deliver under a non-binary key: grpc-go's HTTP/2 framer rejects field values with
// CR / LF / NUL, so only visible ASCII, blanks and obs-text are generated for those keys
func rbinTextValue(r *rand.Rand) string {
	return string(common.RandBytes(r, r.Intn(8), []byte("abAB09 \t,;=\"\xc3\xa9\xff")))
}

func genRBin(r *rand.Rand, tier string, emit func(string)) {
	n := 150
	if tier == "thorough" {
		n = 6000
	}
	line := func(sh [3]string, k string, vs []string) {
		emit(fmt.Sprintf("rbin %s %s %s %s %s", sh[0], sh[1], sh[2], common.HexS(k), fake.ShowList(vs)))
	}
	for _, sh := range rbinShapes {
		for _, v := range rbinFixed {
			line(sh, "x-bin", []string{v})
		}
		line(sh, "x-bin", []string{"a\r\nb", "\xff", ""})
		line(sh, "x-a", []string{"plain", " padded\t", "caf\xc3\xa9"})
	}
	for i := 0; i < n; i++ {
		k := common.Pick(r, rbinKeys)
		nv := 1 + r.Intn(2)
		var vs []string
		for j := 0; j < nv; j++ {
			if strings.HasSuffix(k, "-bin") {
				switch r.Intn(3) {
				case 0:
					vs = append(vs, string(common.RandBytes(r, r.Intn(12), nil)))
				case 1:
					vs = append(vs, string(common.RandBytes(r, r.Intn(10), []byte("\r\n\x00 \t:aZ\xff\x80"))))
				default:
					vs = append(vs, common.Pick(r, rbinFixed))
				}
			} else {
				vs = append(vs, rbinTextValue(r))
			}
		}
		line(common.Pick(r, rbinShapes), k, vs)
	}
}
