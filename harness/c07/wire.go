package c07

// rmd: the gRPC-WebSocket metadata MESSAGE as arbitrary bytes.  The first binary frame of a grpc-websockets
// connection is handed verbatim to the real webbridge readMD (textproto.ReadMIMEHeader over data+"\r\n"); what the
// target receives (after FromIncomingContext + the request allow-list) is compared with the Lean model of the wire
// parser (GB/C07/Wire.lean `readMD`) composed with the existing filter model.
//
//	rmd direct|bridge l:<AllowRequestMD> x<PrefixRequestMD> x<frame bytes>  =>  fwd=0 | fwd=1 out=m:… dl=…

import (
	"fmt"
	"math/rand"
	"net/http"
	"net/http/httptest"
	"strings"

	"github.com/renbou/grpcbridge"
	"github.com/renbou/grpcbridge/bridgelog"
	"github.com/renbou/grpcbridge/grpcadapter"
	"github.com/renbou/grpcbridge/webbridge"
	"google.golang.org/grpc/metadata"
	"verif/harness/c07/fake"
	"verif/harness/common"
)

func execRMD(via string, allow []string, prefix string, data []byte) string {
	tgt := &fake.Target{Header: metadata.MD{}, Trailer: metadata.MD{}, Responses: 1}
	rt := &fake.Router{Conn: tgt}
	pf := grpcadapter.NewProxyForwarder(grpcadapter.ProxyForwarderOpts{
		Filter: grpcadapter.NewProxyMDFilter(grpcadapter.ProxyMDFilterOpts{AllowRequestMD: allow, PrefixRequestMD: prefix}),
	})
	var h http.Handler
	if via == "direct" {
		h = webbridge.NewGRPCWebSocketBridge(rt, webbridge.GRPCWebBridgeOpts{Forwarder: pf, Logger: bridgelog.Discard()})
	} else {
		h = grpcbridge.NewWebBridge(rt, grpcbridge.WithForwarder(pf))
	}
	srv := httptest.NewServer(h)
	defer srv.Close()
	rc, err := fake.Dial(srv.Listener.Addr().String())
	if err != nil {
		return "ERR dial"
	}
	defer rc.Close()
	hs := append(fake.WSHandshake(), [2]string{"Sec-WebSocket-Protocol", "grpc-websockets"})
	if err := rc.WriteRequest("GET", "/verif.S/M", hs, nil); err != nil {
		return "ERR write"
	}
	resp, err := rc.ReadResponse("GET")
	if err != nil {
		return "ERR read " + common.HexS(err.Error())
	}
	if resp.StatusCode != 101 {
		return fmt.Sprintf("ERR st=%d", resp.StatusCode)
	}
	_ = rc.WriteWSFrame(2, data)
	_ = rc.WriteWSFrame(2, []byte{0, 0, 0, 0, 0, 2, 8, 1})
	_ = rc.WriteWSFrame(2, []byte{1})
	rc.ReadWSFrames()
	n, out, dl := tgt.Snapshot()
	if n == 0 {
		return "fwd=0"
	}
	return fmt.Sprintf("fwd=1 out=%s dl=%s", fake.ShowMD(out), dl)
}

var (
	rmdKeys   = []string{"x-a", "X-A", "x-A", "X-b", "x-b", "authorization", "Authorization", "grpc-timeout", "Grpc-Timeout", "x-bin", "X-Bin", "content-type", "a", "x_c", "x.d", "x-a-", "-x", "x--a", "9k", "x-é", "x-\xe2\x84\xaa", "\xe2\x84\xaa", "x a", "x-a ", "x\ta", "x\x00a", "x(a)", "x-a:", ""}
	rmdVals   = []string{"v", "1", "hello world", "a, b", " lead", "trail ", "\tv\t", "", "10S", "30S", "5m", "QUJD", "é", "\xff", "a\x00b", "a\x7fb", "a\rb", "a\x01", "a:b", ":", "\"q\"", strings.Repeat("L", 5000)}
	rmdAllows = [][]string{{"x-a", "x-b"}, {"X-A"}, {"authorization", "x-bin"}, {"k"}, {"x-k", "x-a "}, {"x a", "x-a", "grpc-timeout"}, {}, {"x-a", "x_c", "x.d", "9k", "-x", "x-a-", "x--a", "content-type"}}
	rmdBroad  = []string{"x-a", "x-b", "authorization", "x-bin", "content-type", "a", "x_c", "x.d", "x-a-", "-x", "x--a", "9k", "x a", "x-a ", "k", "x-k", "x-\xc3\xa9"}
	rmdFixed  = []string{
		"", "\r\n", "\n", "x-a: 1", "x-a: 1\r\n", "x-a: 1\n", "x-a: 1\r", "x-a: 1\r\r\n", "x-a: 1\r\n\r\n", "x-a: 1\r\n\r\nx-b: 2\r\n", "x-a: 1\r\n\r\nbroken\r\n",
		"x-a:1\r\n", "x-a:\r\n", "x-a\r\n", "x-a 1\r\n", ": 1\r\n", " x-a: 1\r\n", "\tx-a: 1\r\n", "x-a : 1\r\n", "x-a: 1\r\n 2\r\n", "x-a: 1\r\n\t2\r\n\t 3 \r\n", "x-a: 1\r\n \r\n", "x-a: 1\r\n \r\nx-b: 2\r\n",
		"x-a:\r\n 1\r\n", "x-a\r\n : 1\r\n", "x-a: 1\r\nX-A: 2\r\nx-A: 3\r\n", "x-a: 1\r\nx-b: 2\r\nx-a: 3\r\n", "x-a: a\x00b\r\n", "x-a: a\x7fb\r\n", "x-a: \xc3\xa9\r\n", "x-\xc3\xa9: 1\r\n",
		"\xe2\x84\xaa: kelvin\r\n", "x-\xe2\x84\xaa: kelvin\r\n", "x-a: 1\r\nbroken\r\n", "broken\r\nx-a: 1\r\n", "x-a: 1\rx-b: 2\r\n", "x-a: 1\n\nx-b", "grpc-timeout: 10S\r\nx-a: 1\r\n", "Grpc-Timeout: 20S\r\n",
		"x-a: " + strings.Repeat("L", 5000) + "\r\n", strings.Repeat("k", 4100) + ": 1\r\nx-a: 2\r\n", "x-a: 1\r\n" + strings.Repeat(" c\r\n", 50), "x-a: 1\r\n\r\n\r\n", "\r\nx-a: 1\r\n", "x-a: 1\r\n:\r\n",
	}
)

func genRMDFrame(r *rand.Rand) string {
	var sb strings.Builder
	for n := r.Intn(5); n > 0; n-- {
		k, v := common.Pick(r, rmdKeys), common.Pick(r, rmdVals)
		if r.Intn(4) != 0 { // mostly well-formed names and values
			k, v = common.Pick(r, rmdKeys[:20]), common.Pick(r, rmdVals[:12])
		}
		sep := common.Pick(r, []string{": ", ": ", ": ", ":", ":  ", ":\t", " : ", ""})
		eol := common.Pick(r, []string{"\r\n", "\r\n", "\r\n", "\r\n", "\r\n", "\r\n", "\r\n", "\r\n", "\n", "\n", "\r", "", "\r\r\n", "\r\n\r\n"})
		sb.WriteString(k + sep + v + eol)
		if r.Intn(6) == 0 {
			sb.WriteString(common.Pick(r, []string{" cont\r\n", "\tcont \r\n", " \r\n", "  a: b\r\n", " \x00\r\n"}))
		}
	}
	s := sb.String()
	if r.Intn(12) == 0 {
		s = common.Pick(r, []string{" ", "\t", "\r\n", "\n"}) + s
	}
	return s
}

func genRMD(r *rand.Rand, tier string, emit func(string)) {
	line := func(via string, allow []string, prefix, data string) {
		emit("rmd " + via + " " + fake.ShowList(allow) + " " + common.HexS(prefix) + " " + common.HexS(data))
	}
	for i, d := range rmdFixed {
		line([]string{"direct", "bridge"}[i%2], rmdBroad, "", d)
	}
	n := 400
	if tier == "thorough" {
		n = 20000
	}
	for i := 0; i < n; i++ {
		allow := rmdBroad // mostly an allow-list naming the whole key pool, so that what the parser made of the lines is visible at the target
		if r.Intn(3) == 0 {
			allow = rmdAllows[r.Intn(len(rmdAllows))]
		}
		line(common.Pick(r, []string{"direct", "direct", "bridge"}), allow, common.Pick(r, []string{"", "", "p-"}), genRMDFrame(r))
	}
}
