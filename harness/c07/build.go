package c07

// `build <seq>` — the construction glue of the root package, observed in a FRESH process per sequence.
//
// <seq> = comma-separated constructor calls, in order:  p|b ":" w|n|d ["+l"]
//   p = NewGRPCProxy, b = NewWebBridge;  w / n = WithForwarder(a forwarder whose filter allows only the W / N markers),
//   d = no WithForwarder (default options);  +l = an additional, irrelevant WithLogger option.
// The child process (re-exec of this binary, selected by an environment variable in init) makes exactly these
// constructor calls and nothing else of the root package before them, then drives one call through EVERY entry point
// of EVERY component (gRPC proxy over bufconn; HTTP, WebSocket, gRPC-Web, gRPC-WebSocket through WebBridge.ServeHTTP
// behind httptest) with both request markers, against a target that emits both header and both trailer markers, and
// reports which markers crossed:  c<i>.<entry>=<request>/<headers>/<trailers>, each one of - w n wn.
// Process-wide state (a shared default forwarder, a pooled map, …) shows up as a marker on a component that was not
// configured for it; a process per sequence makes the FIRST construction of the process part of the input.

import (
	"context"
	"fmt"
	"io"
	"net"
	"net/http"
	"net/http/httptest"
	"os"
	"os/exec"
	"strings"
	"time"

	"github.com/renbou/grpcbridge"
	"github.com/renbou/grpcbridge/bridgelog"
	"github.com/renbou/grpcbridge/grpcadapter"
	"google.golang.org/grpc"
	"google.golang.org/grpc/credentials/insecure"
	"google.golang.org/grpc/metadata"
	"google.golang.org/grpc/test/bufconn"
	"google.golang.org/protobuf/types/known/emptypb"
	"verif/harness/c07/fake"
)

const buildEnv = "VERIF_C07_BUILD_SEQ"

func init() {
	if seq := os.Getenv(buildEnv); seq != "" {
		fmt.Print(runBuild(seq))
		os.Exit(0)
	}
}

// execBuild runs one sequence in a child process.
func execBuild(seq string) string {
	self, err := os.Executable()
	if err != nil {
		return "ERR executable"
	}
	ctx, cancel := context.WithTimeout(context.Background(), 30*time.Second)
	defer cancel()
	cmd := exec.CommandContext(ctx, self)
	cmd.Env = append(os.Environ(), buildEnv+"="+seq)
	out, err := cmd.Output()
	if err != nil {
		return "ERR child " + strings.ReplaceAll(err.Error(), " ", "_")
	}
	return strings.TrimSpace(string(out))
}

func markerForwarder(m string) grpcadapter.Forwarder {
	return grpcadapter.NewProxyForwarder(grpcadapter.ProxyForwarderOpts{Filter: grpcadapter.NewProxyMDFilter(grpcadapter.ProxyMDFilterOpts{
		AllowRequestMD: []string{"x-" + m}, AllowResponseMD: []string{"x-" + m + "-h"}, AllowTrailerMD: []string{"x-" + m + "-t"},
	})})
}

type builtComponent struct {
	kind   string
	router *fake.Router
	proxy  *grpcbridge.GRPCProxy
	bridge *grpcbridge.WebBridge
}

func newMarkerTarget() *fake.Target {
	return &fake.Target{Responses: 1,
		Header:  metadata.MD{"x-w-h": {"1"}, "x-n-h": {"1"}},
		Trailer: metadata.MD{"x-w-t": {"1"}, "x-n-t": {"1"}}}
}

// crossed: which of the two markers appear among the (case-insensitive) keys, with the given suffix.
func crossed(suffix string, mds ...map[string][]string) string {
	out := ""
	for _, m := range []string{"w", "n"} {
		found := false
		for _, md := range mds {
			for k := range md {
				if strings.EqualFold(k, "x-"+m+suffix) {
					found = true
				}
			}
		}
		if found {
			out += m
		}
	}
	if out == "" {
		return "-"
	}
	return out
}

func runBuild(seq string) string {
	var comps []*builtComponent
	// 1. exactly the constructor calls of the sequence, in order
	for _, spec := range strings.Split(seq, ",") {
		kindCfg, extra, _ := strings.Cut(spec, "+")
		kind, cfg, _ := strings.Cut(kindCfg, ":")
		c := &builtComponent{kind: kind, router: &fake.Router{}}
		var opts []grpcbridge.Option
		if extra == "l" {
			opts = append(opts, grpcbridge.WithLogger(bridgelog.Discard()))
		}
		switch cfg {
		case "w":
			opts = append(opts, grpcbridge.WithForwarder(markerForwarder("w")))
		case "n":
			opts = append(opts, grpcbridge.WithForwarder(markerForwarder("n")))
		}
		if kind == "p" {
			po := make([]grpcbridge.ProxyOption, len(opts))
			for i, o := range opts {
				po[i] = o
			}
			c.proxy = grpcbridge.NewGRPCProxy(c.router, po...)
		} else {
			bo := make([]grpcbridge.BridgeOption, len(opts))
			for i, o := range opts {
				bo[i] = o
			}
			c.bridge = grpcbridge.NewWebBridge(c.router, bo...)
		}
		comps = append(comps, c)
	}
	// 2. one call through every entry point of every component
	var out []string
	for i, c := range comps {
		if c.kind == "p" {
			out = append(out, fmt.Sprintf("c%d.proxy=%s", i, driveProxy(c)))
			continue
		}
		for _, entry := range []string{"http", "ws", "grpcweb", "grpcws"} {
			out = append(out, fmt.Sprintf("c%d.%s=%s", i, entry, driveBridge(c, entry)))
		}
	}
	return strings.Join(out, " ")
}

func driveProxy(c *builtComponent) string {
	tgt := newMarkerTarget()
	c.router.Conn = tgt
	lis := bufconn.Listen(1 << 16)
	srv := grpc.NewServer(c.proxy.AsServerOption())
	go func() { _ = srv.Serve(lis) }()
	defer srv.Stop()
	cc, err := grpc.NewClient("passthrough:///bufnet", grpc.WithTransportCredentials(insecure.NewCredentials()),
		grpc.WithContextDialer(func(ctx context.Context, _ string) (net.Conn, error) { return lis.DialContext(ctx) }))
	if err != nil {
		return "ERR"
	}
	defer cc.Close()
	ctx, cancel := context.WithTimeout(context.Background(), 5*time.Second)
	defer cancel()
	ctx = metadata.NewOutgoingContext(ctx, metadata.MD{"x-w": {"1"}, "x-n": {"1"}})
	st, err := cc.NewStream(ctx, &grpc.StreamDesc{ClientStreams: true, ServerStreams: true}, "/verif.S/M")
	if err != nil {
		return "ERR"
	}
	_ = st.SendMsg(&emptypb.Empty{})
	_ = st.CloseSend()
	for st.RecvMsg(&emptypb.Empty{}) == nil {
	}
	h, _ := st.Header()
	t := st.Trailer()
	_, outMD, _ := tgt.Snapshot()
	return crossed("", outMD) + "/" + crossed("-h", h, t) + "/" + crossed("-t", h, t)
}

func driveBridge(c *builtComponent, entry string) string {
	tgt := newMarkerTarget()
	c.router.Conn = tgt
	srv := httptest.NewServer(c.bridge)
	defer srv.Close()
	rc, err := fake.Dial(srv.Listener.Addr().String())
	if err != nil {
		return "ERR"
	}
	defer rc.Close()
	markers := [][2]string{{"X-W", "1"}, {"X-N", "1"}}
	seen := []map[string][]string{}
	switch entry {
	case "http":
		if rc.WriteRequest("GET", "/x", markers, nil) != nil {
			return "ERR"
		}
		resp, err := rc.ReadResponse("GET")
		if err != nil {
			return "ERR"
		}
		_, _ = io.ReadAll(resp.Body)
		seen = append(seen, resp.Header, resp.Trailer)
	case "grpcweb":
		lines := append([][2]string{{"Content-Type", "application/grpc-web+proto"}}, markers...)
		if rc.WriteRequest("POST", "/verif.S/M", lines, []byte{0, 0, 0, 0, 0}) != nil {
			return "ERR"
		}
		resp, err := rc.ReadResponse("POST")
		if err != nil {
			return "ERR"
		}
		body, _ := io.ReadAll(resp.Body)
		_, frames := splitGRPCWeb(body)
		seen = append(seen, resp.Header)
		seen = append(seen, frames...)
	case "ws", "grpcws":
		hs := fake.WSHandshake()
		target := "/x"
		if entry == "grpcws" {
			hs = append(hs, [2]string{"Sec-WebSocket-Protocol", "grpc-websockets"})
			target = "/verif.S/M"
		}
		if rc.WriteRequest("GET", target, append(hs, markers...), nil) != nil {
			return "ERR"
		}
		resp, err := rc.ReadResponse("GET")
		if err != nil || resp.StatusCode != http.StatusSwitchingProtocols {
			return "ERR"
		}
		seen = append(seen, resp.Header)
		if entry == "grpcws" {
			_ = rc.WriteWSFrame(2, []byte("x-w: 1\r\nx-n: 1\r\n"))
			_ = rc.WriteWSFrame(2, []byte{0, 0, 0, 0, 0, 2, 8, 1})
			_ = rc.WriteWSFrame(2, []byte{1})
		}
		var buf []byte
		for _, fr := range rc.ReadWSFrames() {
			if fr.Opcode == 2 {
				buf = append(buf, fr.Payload...)
			}
			if fr.Opcode == 1 { // text frames of the transcoded WebSocket: look for leaked markers there as well
				seen = append(seen, map[string][]string{string(fr.Payload): nil})
			}
		}
		if entry == "grpcws" {
			_, frames := splitGRPCWeb(buf)
			seen = append(seen, frames...)
		}
	}
	_, outMD, _ := tgt.Snapshot()
	return crossed("", outMD) + "/" + crossed("-h", seen...) + "/" + crossed("-t", seen...)
}
