// Package c07 is the correspondence area of property C07 (stub: the slice is not built yet).
package c07

import (
	"math/rand"
)

type Area struct{}

func (Area) Name() string { return "c07" }

func (Area) Exec(input string) string { return "UNIMPLEMENTED" }

func (Area) Gen(r *rand.Rand, tier string, emit func(string)) {}
