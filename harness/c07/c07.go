// Package c07 corresponds the metadata path of grpcbridge with the Lean model GB.C07:
//
//	bin   grpcadapter.decodeBinHeader
//	filt  NewProxyMDFilter(opts).FilterRequestMD / FilterResponseMD / FilterTrailerMD
//	fwd   NewProxyForwarder(filter).Forward with a recording incoming stream and target
//	e2e   the five entry points (real webbridge handlers behind httptest driven by a raw
//	      HTTP/WebSocket client; GRPCProxy behind a bufconn grpc.Server driven by grpc-go)
//	      in front of a recording scripted target: what the target receives, the deadline it
//	      runs under, and everything the client can observe.
package c07

import (
	"bytes"
	"context"
	"encoding/base64"
	"encoding/binary"
	"fmt"
	"io"
	"math/rand"
	"net"
	"net/http"
	"net/http/httptest"
	"net/textproto"
	"net/url"
	"strings"
	"time"

	"github.com/renbou/grpcbridge"
	"github.com/renbou/grpcbridge/bridgelog"
	"github.com/renbou/grpcbridge/grpcadapter"
	"github.com/renbou/grpcbridge/webbridge"
	"google.golang.org/grpc"
	"google.golang.org/grpc/codes"
	"google.golang.org/grpc/status"
	"google.golang.org/grpc/credentials/insecure"
	"google.golang.org/grpc/metadata"
	"google.golang.org/grpc/test/bufconn"
	"google.golang.org/protobuf/types/known/emptypb"
	"verif/harness/c07/fake"
	"verif/harness/common"
)

type Area struct{}

func (Area) Name() string { return "c07" }

type opts = grpcadapter.ProxyMDFilterOpts

func parseOpts(f []string) opts {
	return opts{
		AllowRequestMD: fake.ParseList(f[0]), PrefixRequestMD: string(common.MustUnHex(f[1])),
		AllowResponseMD: fake.ParseList(f[2]), PrefixResponseMD: string(common.MustUnHex(f[3])),
		AllowTrailerMD: fake.ParseList(f[4]), PrefixTrailerMD: string(common.MustUnHex(f[5])),
	}
}

func showOpts(o opts) string {
	return strings.Join([]string{fake.ShowList(o.AllowRequestMD), common.HexS(o.PrefixRequestMD),
		fake.ShowList(o.AllowResponseMD), common.HexS(o.PrefixResponseMD),
		fake.ShowList(o.AllowTrailerMD), common.HexS(o.PrefixTrailerMD)}, " ")
}

func (Area) Exec(input string) string {
	f := strings.Fields(input)
	switch f[0] {
	case "bin":
		b, err := grpcadapter.VerifDecodeBinHeader(string(common.MustUnHex(f[1])))
		if err != nil {
			return "none"
		}
		return "some:" + common.Hex(b)
	case "filt":
		flt := grpcadapter.NewProxyMDFilter(parseOpts(f[2:8]))
		md := metadata.MD(fake.ParseMD(f[8]))
		var out metadata.MD
		switch f[1] {
		case "req":
			out = flt.FilterRequestMD(md)
		case "resp":
			out = flt.FilterResponseMD(md)
		case "trl":
			out = flt.FilterTrailerMD(md)
		default:
			return "BADOP"
		}
		return fake.ShowMD(out)
	case "build":
		return execBuild(f[1])
	case "rbin":
		return execRBin(f[1], f[2], f[3], string(common.MustUnHex(f[4])), fake.ParseList(f[5]))
	case "rmd":
		return execRMD(f[1], fake.ParseList(f[2]), string(common.MustUnHex(f[3])), common.MustUnHex(f[4]))
	case "fwd":
		return execFwd(parseOpts(f[1:7]), fake.ParseMD(f[7]), fake.ParseMD(f[8]), fake.ParseMD(f[9]), f[10])
	case "e2e":
		return execE2E(f[1], parseOpts(f[2:8]), fake.ParseMD(f[8]), fake.ParsePairs(f[9]), fake.ParseMD(f[10]), fake.ParseMD(f[11]), f[12])
	}
	return "BADOP"
}

// parseMode: unary|stream[:h<0|1>m<n><k|e>] — header block sent or Trailers-Only, n messages, then io.EOF (k) or an error (e).
func parseMode(mode string) (streaming bool, hdrSent bool, msgs int, ok bool) {
	kind, sc, has := strings.Cut(mode, ":")
	streaming = kind == "stream"
	hdrSent, msgs, ok = true, 1, true
	if streaming {
		msgs = 2
	}
	if has && len(sc) == 5 {
		hdrSent, msgs, ok = sc[1] == '1', int(sc[3]-'0'), sc[4] == 'k'
	}
	return
}

func newTarget(hdr, trl map[string][]string, mode string) *fake.Target {
	_, hdrSent, msgs, ok := parseMode(mode)
	t := &fake.Target{Header: metadata.MD(hdr), Trailer: metadata.MD(trl), Responses: msgs, NoHeader: !hdrSent}
	if !ok {
		t.Err = status.Error(codes.PermissionDenied, "scripted failure")
	}
	return t
}

func isStreaming(mode string) bool { s, _, _, _ := parseMode(mode); return s }

func execFwd(o opts, ctxMD, hdr, trl map[string][]string, mode string) string {
	pf := grpcadapter.NewProxyForwarder(grpcadapter.ProxyForwarderOpts{Filter: grpcadapter.NewProxyMDFilter(o)})
	tgt := newTarget(hdr, trl, mode)
	rt := &fake.Router{Conn: tgt, ServerStreaming: isStreaming(mode)}
	_, route, _ := rt.RouteGRPC(context.Background())
	inc := fake.NewIncoming(1)
	ctx, cancel := context.WithCancel(context.Background())
	defer cancel()
	ctx = metadata.NewIncomingContext(ctx, metadata.MD(ctxMD))
	err := pf.Forward(ctx, grpcadapter.ForwardParams{Target: route.Target, Service: route.Service, Method: route.Method, Incoming: inc, Outgoing: tgt})
	_ = err // a scripted failure of the target is an expected outcome; what matters is what crossed
	_, out, dl := tgt.Snapshot()
	t := "unset"
	if inc.TrlSet > 0 {
		t = fake.ShowMD(inc.Trl)
	}
	return fmt.Sprintf("out=%s dl=%s hdr=%s trl=%s sent=%d", fake.ShowMD(out), dl, fake.ShowMD(inc.Hdr), t, inc.Sent)
}


// ---------- end to end ----------

var wsInfra = map[string]bool{"Upgrade": true, "Connection": true, "Sec-Websocket-Accept": true, "Sec-Websocket-Protocol": true, "Sec-Websocket-Extensions": true}

func execE2E(entry string, o opts, sent map[string][]string, pairs [][2]string, thdr, ttrl map[string][]string, mode string) string {
	pf := grpcadapter.NewProxyForwarder(grpcadapter.ProxyForwarderOpts{Filter: grpcadapter.NewProxyMDFilter(o)})
	tgt := newTarget(thdr, ttrl, mode)
	rt := &fake.Router{Conn: tgt, ServerStreaming: isStreaming(mode)}

	var seen http.Header
	wrap := func(h http.Handler) http.Handler {
		return http.HandlerFunc(func(w http.ResponseWriter, r *http.Request) {
			seen = r.Header.Clone()
			h.ServeHTTP(w, r)
		})
	}
	// header lines in a deterministic order: sorted keys, values in order
	var lines [][2]string
	for _, k := range sortedKeys(sent) {
		for _, v := range sent[k] {
			lines = append(lines, [2]string{k, v})
		}
	}

	var ch, ct map[string][]string
	switch entry {
	case "http":
		srv := httptest.NewServer(wrap(webbridge.NewTranscodedHTTPBridge(rt, webbridge.TranscodedHTTPBridgeOpts{Forwarder: pf})))
		defer srv.Close()
		rc, err := fake.Dial(srv.Listener.Addr().String())
		if err != nil {
			return "ERR dial"
		}
		defer rc.Close()
		if err := rc.WriteRequest("GET", "/x", lines, nil); err != nil {
			return "ERR write"
		}
		resp, err := rc.ReadResponse("GET")
		if err != nil {
			return "ERR read " + common.HexS(err.Error())
		}
		_, _ = io.ReadAll(resp.Body)
		ch, ct = resp.Header, resp.Trailer
	case "grpcweb":
		srv := httptest.NewServer(wrap(webbridge.NewGRPCWebBridge(rt, webbridge.GRPCWebBridgeOpts{Forwarder: pf})))
		defer srv.Close()
		rc, err := fake.Dial(srv.Listener.Addr().String())
		if err != nil {
			return "ERR dial"
		}
		defer rc.Close()
		if err := rc.WriteRequest("POST", "/verif.S/M", lines, []byte{0, 0, 0, 0, 0}); err != nil {
			return "ERR write"
		}
		resp, err := rc.ReadResponse("POST")
		if err != nil {
			return "ERR read " + common.HexS(err.Error())
		}
		body, _ := io.ReadAll(resp.Body)
		ch = resp.Header
		_, trailers := splitGRPCWeb(body)
		ct = map[string][]string{}
		if len(trailers) > 0 {
			ct = trailers[len(trailers)-1]
		}
		delete(ct, "grpc-status")
		delete(ct, "grpc-message")
	case "ws", "grpcws":
		var h http.Handler
		if entry == "ws" {
			h = webbridge.NewTranscodedWebSocketBridge(rt, webbridge.TranscodedWebSocketBridgeOpts{Forwarder: pf})
		} else {
			// Logger set explicitly: NewGRPCWebSocketBridge dereferences opts.Logger before applying its defaults
			h = webbridge.NewGRPCWebSocketBridge(rt, webbridge.GRPCWebBridgeOpts{Forwarder: pf, Logger: bridgelog.Discard()})
		}
		srv := httptest.NewServer(wrap(h))
		defer srv.Close()
		rc, err := fake.Dial(srv.Listener.Addr().String())
		if err != nil {
			return "ERR dial"
		}
		defer rc.Close()
		target := "/x"
		hs := fake.WSHandshake()
		if entry == "ws" {
			q := url.Values{}
			for _, p := range pairs {
				q.Add("_metadata["+p[0]+"]", p[1])
			}
			if len(q) > 0 {
				target += "?" + q.Encode()
			}
		} else {
			target = "/verif.S/M"
			hs = append(hs, [2]string{"Sec-WebSocket-Protocol", "grpc-websockets"})
		}
		if err := rc.WriteRequest("GET", target, append(hs, lines...), nil); err != nil {
			return "ERR write"
		}
		resp, err := rc.ReadResponse("GET")
		if err != nil {
			return "ERR read " + common.HexS(err.Error())
		}
		if resp.StatusCode != 101 {
			return "fwd=0 st=" + fmt.Sprint(resp.StatusCode)
		}
		ch = map[string][]string{}
		for k, v := range resp.Header {
			if !wsInfra[k] {
				ch[k] = v
			}
		}
		ct = map[string][]string{}
		if entry == "grpcws" {
			var sb strings.Builder
			for _, p := range pairs {
				fmt.Fprintf(&sb, "%s: %s\r\n", p[0], p[1])
			}
			_ = rc.WriteWSFrame(2, []byte(sb.String()))
			_ = rc.WriteWSFrame(2, []byte{0, 0, 0, 0, 0, 2, 8, 1})
			_ = rc.WriteWSFrame(2, []byte{1})
		}
		frames := rc.ReadWSFrames()
		if entry == "grpcws" {
			var buf []byte
			for _, fr := range frames {
				if fr.Opcode == 2 {
					buf = append(buf, fr.Payload...)
				}
			}
			_, hf := splitGRPCWeb(buf)
			switch len(hf) {
			case 0:
			case 1:
				ct = hf[0]
			default:
				for k, v := range hf[0] {
					ch[k] = v
				}
				ct = hf[len(hf)-1]
			}
			delete(ct, "grpc-status")
			delete(ct, "grpc-message")
		}
	case "proxy":
		return execProxy(pf, rt, tgt, sent, mode)
	default:
		return "BADENTRY"
	}

	n, out, dl := tgt.Snapshot()
	if n == 0 {
		return "fwd=0"
	}
	seenMD := map[string][]string(seen)
	if entry == "grpcws" {
		seenMD = map[string][]string{}
	}
	return fmt.Sprintf("fwd=1 seen=%s out=%s dl=%s ch=%s ct=%s", fake.ShowMD(seenMD), fake.ShowMD(out), dl, fake.ShowMD(ch), fake.ShowMD(ct))
}

// splitGRPCWeb splits a gRPC-Web body into message payloads and parsed header/trailer frames.
func splitGRPCWeb(b []byte) (msgs [][]byte, hdrFrames []map[string][]string) {
	for len(b) >= 5 {
		n := int(binary.BigEndian.Uint32(b[1:5]))
		if n > len(b)-5 {
			n = len(b) - 5
		}
		p := b[5 : 5+n]
		if b[0]&0x80 != 0 {
			md := map[string][]string{}
			for _, line := range bytes.Split(p, []byte("\r\n")) {
				if len(line) == 0 {
					continue
				}
				k, v, _ := bytes.Cut(line, []byte(": "))
				md[string(k)] = append(md[string(k)], string(v))
			}
			hdrFrames = append(hdrFrames, md)
		} else {
			msgs = append(msgs, p)
		}
		b = b[5+n:]
	}
	return
}

func execProxy(pf *grpcadapter.ProxyForwarder, rt *fake.Router, tgt *fake.Target, sent map[string][]string, mode string) string {
	proxy := grpcbridge.NewGRPCProxy(rt, grpcbridge.WithForwarder(pf))
	lis := bufconn.Listen(1 << 16)
	srv := grpc.NewServer(proxy.AsServerOption())
	go func() { _ = srv.Serve(lis) }()
	defer srv.Stop()
	cc, err := grpc.NewClient("passthrough:///bufnet", grpc.WithTransportCredentials(insecure.NewCredentials()),
		grpc.WithContextDialer(func(ctx context.Context, _ string) (net.Conn, error) { return lis.DialContext(ctx) }))
	if err != nil {
		return "ERR client"
	}
	defer cc.Close()

	// guard against hangs without giving the call a deadline of our own (a deadline would reach the target)
	ctx, cancel := context.WithCancel(context.Background())
	defer cancel()
	guard := time.AfterFunc(5*time.Second, cancel)
	defer guard.Stop()
	md := metadata.MD{}
	for k, vs := range sent {
		if strings.EqualFold(k, "grpc-timeout") {
			// grpc-go sends grpc-timeout from the context deadline only
			if d, ok := grpcadapter.VerifDecodeTimeout(vs[0]); ok {
				var c2 context.CancelFunc
				ctx, c2 = context.WithTimeout(ctx, d)
				defer c2()
			}
			continue
		}
		md[k] = vs // keys as given: grpc-go lower-cases them itself
	}
	ctx = metadata.NewOutgoingContext(ctx, md)
	st, err := cc.NewStream(ctx, &grpc.StreamDesc{ClientStreams: true, ServerStreams: true}, "/verif.S/M")
	if err != nil {
		return "fwd=0 err=" + common.HexS(err.Error())
	}
	if err := st.SendMsg(&emptypb.Empty{}); err != nil {
		return "fwd=0 err=" + common.HexS(err.Error())
	}
	_ = st.CloseSend()
	var rerr error
	for {
		if rerr = st.RecvMsg(&emptypb.Empty{}); rerr != nil {
			break
		}
	}
	if rerr != io.EOF {
		n, _, _ := tgt.Snapshot()
		if n == 0 {
			return "fwd=0 err=" + common.HexS(rerr.Error())
		}
	}
	ch, _ := st.Header()
	ct := st.Trailer()
	chm := map[string][]string{}
	for k, v := range ch {
		if k != "content-type" {
			chm[k] = v
		}
	}
	ctm := map[string][]string{}
	for k, v := range ct {
		if k != "content-type" { // Trailers-Only: grpc-go reports the single header block, with grpc's own content-type, as the trailer
			ctm[k] = v
		}
	}
	n, out, dl := tgt.Snapshot()
	if n == 0 {
		return "fwd=0"
	}
	_, _, _, seen := rt.Calls()
	return fmt.Sprintf("fwd=1 seen=%s out=%s dl=%s ch=%s ct=%s", fake.ShowMD(seen), fake.ShowMD(out), dl, fake.ShowMD(chm), fake.ShowMD(ctm))
}

func sortedKeys(m map[string][]string) []string {
	ks := make([]string, 0, len(m))
	for k := range m {
		ks = append(ks, k)
	}
	// insertion sort keeps the import list short
	for i := 1; i < len(ks); i++ {
		for j := i; j > 0 && ks[j] < ks[j-1]; j-- {
			ks[j], ks[j-1] = ks[j-1], ks[j]
		}
	}
	return ks
}

var _ = textproto.CanonicalMIMEHeaderKey

// ---------- generators ----------

var keyPool = []string{
	"x-a", "X-B", "x-c", "authorization", "Authorization", "cookie", "x-internal",
	"Grpc-Metadata-Foo", "grpc-metadata-x-a", "grpc-metadata-data-bin", "GRPC-METADATA-UP", "grpc-metadata-",
	"data-bin", "x-bin", "X-Sig-Bin", "-bin", "a-bin",
	"grpc-timeout", "Grpc-Timeout", "grpc-metadata-grpc-timeout", "Grpc-Metadata-Grpc-Timeout", "timeout",
	"connection", "keep-alive", "te", "upgrade", "proxy-authorization", "host", "content-type", "user-agent", "accept-encoding",
	":authority", ":path", "grpc-status", "grpc-message", "grpc-encoding", "date", "content-length",
}

// tokens only: usable as HTTP/1.1 header names and gRPC metadata keys
var tokenKeys = []string{
	"x-a", "X-B", "x-c", "authorization", "Authorization", "cookie", "x-internal",
	"Grpc-Metadata-Foo", "grpc-metadata-x-a", "grpc-metadata-data-bin", "GRPC-METADATA-UP",
	"data-bin", "x-bin", "X-Sig-Bin", "a-bin",
	"grpc-timeout", "Grpc-Timeout", "grpc-metadata-grpc-timeout", "timeout",
	"keep-alive", "te", "proxy-authorization", "user-agent", "accept-encoding", "x-forwarded-for",
}

var respKeys = []string{"x-r", "X-S", "x-internal", "set-cookie", "server", "r-bin", "x-a", "grpc-metadata-foo", "etag", "x-trace"}

var prefixPool = []string{"", "", "", "x-", "grpcgateway-", "Grpc-", "grpc-", "Grpc-Metadata-", "p"}

var timeouts = []string{"10S", "1M", "2H", "30S", "90000m", "20000000u", "99999999H", "abc", "-1S", "+1S", "", "1", "S", "123456789S", "7s"}

func pickKeys(r *rand.Rand, pool []string, max int) []string {
	n := r.Intn(max + 1)
	var out []string
	for i := 0; i < n; i++ {
		k := common.Pick(r, pool)
		switch r.Intn(8) {
		case 0:
			k = strings.ToUpper(k)
		case 1:
			k = strings.ToLower(k)
		}
		out = append(out, k)
	}
	return out
}

func printable(r *rand.Rand) string {
	return string(common.RandBytes(r, 1+r.Intn(8), []byte("abcdefXYZ0189-_=+/., ")))
}

func binValue(r *rand.Rand) string {
	raw := common.RandBytes(r, r.Intn(9), nil)
	switch r.Intn(7) {
	case 0, 1:
		return base64.StdEncoding.EncodeToString(raw)
	case 2, 3:
		return base64.RawStdEncoding.EncodeToString(raw)
	case 4:
		return base64.URLEncoding.EncodeToString(raw)
	case 5:
		s := base64.StdEncoding.EncodeToString(raw)
		if len(s) > 1 {
			p := r.Intn(len(s))
			return s[:p] + common.Pick(r, []string{"=", "!", " ", "A", "=="}) + s[p:]
		}
		return s + "="
	default:
		return printable(r)
	}
}

func valueFor(r *rand.Rand, key string, wire bool) string {
	lk := strings.ToLower(key)
	switch {
	case strings.HasSuffix(lk, "timeout"):
		return common.Pick(r, timeouts)
	case strings.HasSuffix(lk, "-bin"):
		if wire {
			return binValue(r)
		}
		return string(common.RandBytes(r, r.Intn(9), nil))
	case r.Intn(10) == 0:
		return binValue(r)
	}
	return strings.TrimSpace(printable(r)) + "v"
}

func genOpts(r *rand.Rand, reqPool []string) opts {
	if r.Intn(8) == 0 {
		return opts{} // default: deny everything
	}
	return opts{
		AllowRequestMD: pickKeys(r, reqPool, 4), PrefixRequestMD: common.Pick(r, prefixPool),
		AllowResponseMD: pickKeys(r, respKeys, 3), PrefixResponseMD: common.Pick(r, prefixPool),
		AllowTrailerMD: pickKeys(r, respKeys, 3), PrefixTrailerMD: common.Pick(r, prefixPool),
	}
}

// genMD: keys mostly taken from the allow-list (so the filter has work to do), lower-cased unless keepCase.
func genMD(r *rand.Rand, allow []string, pool []string, lowerKeys bool, wire bool) map[string][]string {
	md := map[string][]string{}
	seenLower := map[string]bool{}
	n := r.Intn(6)
	for i := 0; i < n; i++ {
		var k string
		if len(allow) > 0 && r.Intn(3) != 0 {
			k = common.Pick(r, allow)
			if r.Intn(4) == 0 && len(k) > 14 && strings.EqualFold(k[:14], "grpc-metadata-") {
				k = k[14:] // the stripped name itself: must NOT pass unless listed
			}
		} else {
			k = common.Pick(r, pool)
		}
		if lowerKeys || r.Intn(3) != 0 {
			k = strings.ToLower(k)
		}
		if seenLower[strings.ToLower(k)] {
			continue
		}
		seenLower[strings.ToLower(k)] = true
		nv := 1 + r.Intn(3)
		if r.Intn(12) == 0 {
			nv = 0
		}
		vs := []string{}
		for j := 0; j < nv; j++ {
			vs = append(vs, valueFor(r, k, wire))
		}
		md[k] = vs
	}
	return md
}

func nonEmptyVals(md map[string][]string) map[string][]string {
	out := map[string][]string{}
	for k, v := range md {
		if len(v) > 0 {
			out[k] = v
		}
	}
	return out
}

// e2e-safe target metadata: printable values, no framing-relevant names
func genRespMD(r *rand.Rand, allow []string) map[string][]string {
	md := map[string][]string{}
	n := r.Intn(4)
	for i := 0; i < n; i++ {
		k := strings.ToLower(common.Pick(r, respKeys))
		if len(allow) > 0 && r.Intn(2) == 0 {
			k = strings.ToLower(common.Pick(r, allow))
		}
		nv := 1 + r.Intn(2)
		vs := []string{}
		for j := 0; j < nv; j++ {
			vs = append(vs, "t"+strings.TrimSpace(printable(r))+"v")
		}
		md[k] = vs
	}
	return md
}

// genMode: how the scripted target's stream ends — at every position: before headers (Trailers-Only),
// after headers, after messages; with io.EOF or an error status.
var scripts = []string{"h0m0e", "h0m0e", "h0m0k", "h1m0e", "h1m0k", "h1m1e", "h1m1k", "h1m2e", "h1m2k", "h1m3e"}

func genMode(r *rand.Rand) string {
	kind := common.Pick(r, []string{"unary", "stream"})
	if r.Intn(5) < 2 {
		return kind
	}
	return kind + ":" + common.Pick(r, scripts)
}

func union(a, b []string) []string { return append(append([]string{}, a...), b...) }

func (Area) Gen(r *rand.Rand, tier string, emit func(string)) {
	nBin, nFilt, nFwd, nE2E := 4000, 6000, 1500, 400
	if tier == "thorough" {
		nBin, nFilt, nFwd, nE2E = 200000, 300000, 30000, 4000
	}
	// ---- bin: edge cases then generated
	for _, s := range []string{"", "=", "==", "A", "AA", "AAA", "AAAA", "AA==", "AAA=", "AA=", "A===", "AA==\n", "AA=\n=", "A\nAAA", "\n", "AAAA\r\n", "AAAAA", "AAAAAA", "AAAAAA==", "QUJD", "QUI", "QUI=", "QQ", "QQ==", "QR==", "QUJDRA", "-_-_", "AA==AA==", "AAA=AAAA", "A A=", "AAAA====", "/+/+"} {
		emit("bin " + common.HexS(s))
	}
	for i := 0; i < nBin; i++ {
		var s string
		switch r.Intn(4) {
		case 0:
			s = string(common.RandBytes(r, r.Intn(10), []byte("AQz09+/=\n\r -_")))
		case 1:
			s = string(common.RandBytes(r, r.Intn(12), nil))
		default:
			s = binValue(r)
		}
		emit("bin " + common.HexS(s))
	}
	// ---- filt
	emit("filt req " + showOpts(opts{}) + " " + fake.ShowMD(map[string][]string{"x-a": {"1"}, "grpc-timeout": {"10S"}}))
	emit("filt req " + showOpts(opts{AllowRequestMD: []string{"grpc-metadata-grpc-timeout"}}) + " " + fake.ShowMD(map[string][]string{"grpc-metadata-grpc-timeout": {"1n"}}))
	emit("filt req " + showOpts(opts{AllowRequestMD: []string{"timeout"}, PrefixRequestMD: "grpc-"}) + " " + fake.ShowMD(map[string][]string{"timeout": {"1n"}, "grpc-timeout": {"10S"}}))
	emit("filt req " + showOpts(opts{AllowRequestMD: []string{"Grpc-Metadata-Data-Bin", "x-bin"}, PrefixRequestMD: "p-"}) + " " + fake.ShowMD(map[string][]string{"grpc-metadata-data-bin": {"QUJD", "QUI", "!!"}, "x-bin": {"QQ==", "QQ"}, "data-bin": {"QQ"}}))
	for i := 0; i < nFilt; i++ {
		which := common.Pick(r, []string{"req", "req", "resp", "trl"})
		o := genOpts(r, keyPool)
		allow := o.AllowRequestMD
		pool := keyPool
		if which == "resp" {
			allow = o.AllowResponseMD
		} else if which == "trl" {
			allow = o.AllowTrailerMD
		}
		if which != "req" && r.Intn(2) == 0 {
			pool = respKeys
		}
		// the other response list is offered as well: a swapped list/prefix must show
		if which == "resp" && r.Intn(2) == 0 {
			allow = append(append([]string{}, allow...), o.AllowTrailerMD...)
		} else if which == "trl" && r.Intn(2) == 0 {
			allow = append(append([]string{}, allow...), o.AllowResponseMD...)
		}
		md := genMD(r, allow, pool, false, true)
		emit("filt " + which + " " + showOpts(o) + " " + fake.ShowMD(md))
	}
	// ---- response/trailer allow-lists that differ x target ending at every position (fwd and every entry point):
	// x-r is on the response list only, x-t on the trailer list only, x-b on both; both blocks carry all three
	{
		o := opts{AllowResponseMD: []string{"x-r", "x-b"}, PrefixResponseMD: "h-", AllowTrailerMD: []string{"x-t", "x-b"}, PrefixTrailerMD: "t-"}
		hdr := map[string][]string{"x-r": {"hr"}, "x-t": {"ht"}, "x-b": {"hb"}, "x-n": {"hn"}}
		trl := map[string][]string{"x-r": {"tr"}, "x-t": {"tt"}, "x-b": {"tb"}, "x-n": {"tn"}}
		for _, kind := range []string{"unary", "stream"} {
			for _, sc := range []string{"h0m0e", "h0m0k", "h1m0e", "h1m0k", "h1m1e", "h1m1k", "h1m2e", "h1m2k", "h1m3e"} {
				mode := kind + ":" + sc
				emit(fmt.Sprintf("fwd %s m: %s %s %s", showOpts(o), fake.ShowMD(hdr), fake.ShowMD(trl), mode))
				for _, entry := range []string{"http", "ws", "grpcweb", "grpcws", "proxy"} {
					emit(fmt.Sprintf("e2e %s %s m: p: %s %s %s", entry, showOpts(o), fake.ShowMD(hdr), fake.ShowMD(trl), mode))
				}
			}
		}
	}
	// ---- fwd
	for i := 0; i < nFwd; i++ {
		o := genOpts(r, keyPool)
		ctxMD := genMD(r, o.AllowRequestMD, keyPool, false, true)
		if r.Intn(3) == 0 {
			ctxMD[common.Pick(r, []string{"grpc-timeout", "Grpc-Timeout"})] = []string{common.Pick(r, timeouts)}
			delete(ctxMD, common.Pick(r, []string{"grpc-timeout", "Grpc-Timeout"}))
		}
		hdr := genMD(r, append(append([]string{}, o.AllowResponseMD...), o.AllowTrailerMD...), respKeys, true, false)
		trl := genMD(r, append(append([]string{}, o.AllowTrailerMD...), o.AllowResponseMD...), respKeys, true, false)
		emit(fmt.Sprintf("fwd %s %s %s %s %s", showOpts(o), fake.ShowMD(dedupLower(ctxMD)), fake.ShowMD(hdr), fake.ShowMD(trl), genMode(r)))
	}
	// ---- construction glue: constructor sequences, each in a fresh process (see build.go)
	{
		kinds := []string{"p:w", "p:n", "p:d", "b:w", "b:n", "b:d"}
		for _, a := range kinds { // every ordered pair: 36 processes
			for _, b := range kinds {
				emit("build " + a + "," + b)
			}
		}
		emit("build b:d")
		emit("build p:d")
		emit("build p:w+l,b:d+l")         // the order of cmd/grpcbridge/main.go, with irrelevant options
		emit("build p:w,b:d,b:n,p:d")
		nSeq := 24
		if tier == "thorough" {
			nSeq = 400
		}
		for i := 0; i < nSeq; i++ {
			n := 3 + r.Intn(2)
			parts := make([]string, n)
			for j := range parts {
				parts[j] = common.Pick(r, kinds)
				if r.Intn(5) == 0 {
					parts[j] += "+l"
				}
			}
			emit("build " + strings.Join(parts, ","))
		}
	}
	// ---- proxy entry, binary metadata at full strength (fix D13): every value class x key spelling / renaming
	for _, kv := range [][2]string{{"x-bin", "x-bin"}, {"x-bin", "X-BIN"}, {"x-sig-bin", "X-Sig-Bin"}, {"grpc-metadata-data-bin", "Grpc-Metadata-Data-Bin"}, {"grpc-metadata-data-bin", "grpc-metadata-data-bin"}} {
		for _, pfx := range []string{"", "p-", "Grpc-Metadata-"} {
			for _, vals := range [][]string{{"QUJD"}, {"QUI"}, {"QQ=="}, {"!!"}, {""}, {"\x00"}, {"\xff\xfe"}, {"\x00\xff\x00"}, {"QUJD", "!!", "", "\xff"}, {"not base64", "dGVzdA=="}, {strings.Repeat("\x80", 300)}} {
				o := opts{AllowRequestMD: []string{kv[1], "x-text"}, PrefixRequestMD: pfx}
				sent := map[string][]string{kv[0]: vals, "x-text": {"QUJD"}, "y-bin": {"QUJD"}}
				emit(fmt.Sprintf("e2e proxy %s %s p: m: m: unary", showOpts(o), fake.ShowMD(sent)))
			}
		}
	}
	// ---- e2e
	for _, entry := range []string{"http", "ws", "grpcweb", "grpcws", "proxy"} {
		for i := 0; i < nE2E; i++ {
			o := genOpts(r, tokenKeys)
			wire := entry != "proxy"
			sent := nonEmptyVals(genMD(r, o.AllowRequestMD, tokenKeys, false, wire))
			for k, vs := range sent { // header-safe values
				for j, v := range vs {
					vs[j] = headerSafe(v)
				}
				sent[k] = vs
			}
			if r.Intn(3) == 0 {
				sent["grpc-timeout"] = []string{common.Pick(r, timeouts)}
			}
			if entry == "proxy" {
				// only what grpc-go will put on the wire: lower-case valid keys, no reserved grpc- names, printable values unless -bin
				// a gRPC client spells keys in lower case (grpc-go rejects anything else); the allow-list keeps its mixed-case spellings
				for _, k := range sortedKeys(sent) {
					lk := strings.ToLower(k)
					vs := sent[k]
					delete(sent, k)
					if (strings.HasPrefix(lk, "grpc-") && lk != "grpc-timeout" && !strings.HasPrefix(lk, "grpc-metadata-")) || lk == "user-agent" || lk == "te" {
						continue
					}
					if _, dup := sent[lk]; dup {
						continue
					}
					if strings.HasSuffix(lk, "-bin") { // truly binary values: grpc-go base64-encodes them on the wire and decodes them for the proxy
						vs = make([]string, 1+r.Intn(3))
						for j := range vs {
							vs[j] = binaryValue(r)
						}
					}
					sent[lk] = vs
				}
				if r.Intn(3) == 0 { // make sure binary keys are present and allowed, under several spellings of the allow-list entry
					k := common.Pick(r, []string{"x-bin", "data-bin", "x-sig-bin", "grpc-metadata-data-bin", "grpc-metadata-x-sig-bin"})
					sent[k] = []string{binaryValue(r), binaryValue(r)}
					o.AllowRequestMD = append(o.AllowRequestMD, common.Pick(r, []string{k, strings.ToUpper(k), strings.Title(k)}))
				}
			}
			var pairs [][2]string
			switch entry {
			case "ws":
				spelling := map[string]string{} // case variants of one key would make the value order depend on Go map order (C19)
				for j := r.Intn(4); j > 0; j-- {
					k := common.Pick(r, tokenKeys)
					if len(o.AllowRequestMD) > 0 && r.Intn(2) == 0 {
						k = common.Pick(r, o.AllowRequestMD)
					}
					if first, ok := spelling[strings.ToLower(k)]; ok {
						k = first
					} else {
						spelling[strings.ToLower(k)] = k
					}
					v := headerSafe(valueFor(r, k, true))
					if r.Intn(10) == 0 {
						v += "\x01"
					}
					if r.Intn(10) == 0 {
						k += "!"
					}
					pairs = append(pairs, [2]string{k, v})
				}
			case "grpcws":
				for k, vs := range sent {
					_ = k
					_ = vs
				}
				for _, k := range sortedKeys(sent) {
					for _, v := range sent[k] {
						pairs = append(pairs, [2]string{k, v})
					}
				}
				sent = map[string][]string{}
				if r.Intn(2) == 0 { // upgrade-request headers must NOT become metadata on this entry point
					sent[common.Pick(r, tokenKeys)] = []string{"hdr" + printable(r) + "v"}
				}
			}
			// header and trailer metadata from overlapping pools: both blocks carry names of BOTH lists
			thdr := genRespMD(r, union(o.AllowResponseMD, o.AllowTrailerMD))
			ttrl := genRespMD(r, union(o.AllowTrailerMD, o.AllowResponseMD))
			emit(fmt.Sprintf("e2e %s %s %s %s %s %s %s", entry, showOpts(o), fake.ShowMD(sent), fake.ShowPairs(pairs), fake.ShowMD(thdr), fake.ShowMD(ttrl), genMode(r)))
		}
	}
	genRMD(r, tier, emit)
	genRBin(r, tier, emit)
}

// binaryValue: bytes a gRPC client may send under a -bin key — text that happens to be valid base64 (padded, unpadded),
// invalid base64, empty, NUL / 0xff, random bytes, long values.
func binaryValue(r *rand.Rand) string {
	switch r.Intn(9) {
	case 0:
		return common.Pick(r, []string{"QUJD", "QUI=", "QUI", "QQ==", "QQ", "AAAA", "dGVzdA==", "/+/+", "-_-_"})
	case 1:
		return common.Pick(r, []string{"!!", "not base64", "QUJD!", "=", "====", "A", "QUJDR", "QU JD", "QUJD\n"})
	case 2:
		return ""
	case 3:
		return common.Pick(r, []string{"\x00", "\xff", "\x00\x00\x00", "\xff\xfe\xfd", "\x00\xff", "a\x00b"})
	case 4:
		return base64.StdEncoding.EncodeToString(common.RandBytes(r, r.Intn(12), nil))
	case 5:
		return string(common.RandBytes(r, 200+r.Intn(200), nil))
	default:
		return string(common.RandBytes(r, r.Intn(10), nil))
	}
}

func headerSafe(v string) string {
	b := []byte(v)
	for i, c := range b {
		if c < 0x21 || c > 0x7e {
			b[i] = 'A' + c%26
		}
	}
	if len(b) == 0 {
		return "e"
	}
	return string(b)
}

// dedupLower drops entries whose lower-cased key collides with another entry (Go map order would decide).
func dedupLower(md map[string][]string) map[string][]string {
	out := map[string][]string{}
	seen := map[string]bool{}
	for _, k := range sortedKeys(md) {
		lk := strings.ToLower(k)
		if seen[lk] {
			continue
		}
		seen[lk] = true
		out[k] = md[k]
	}
	return out
}
