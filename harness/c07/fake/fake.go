// Package fake provides the scripted pieces the C07/C19 areas put around the REAL grpcbridge
// handlers: a router that routes everything to one method, a recording target connection whose
// stream answers from a script, a recording incoming stream, a raw HTTP/1.1 + WebSocket client
// with full control over header lines, and the line-protocol encoding of metadata maps.
package fake

import (
	"bufio"
	"context"
	"encoding/binary"
	"fmt"
	"io"
	"net"
	"net/http"
	"net/url"
	"sort"
	"strings"
	"sync"
	"time"

	"github.com/renbou/grpcbridge/bridgedesc"
	"github.com/renbou/grpcbridge/grpcadapter"
	"github.com/renbou/grpcbridge/routing"
	"google.golang.org/grpc/metadata"
	"google.golang.org/protobuf/proto"
	"google.golang.org/protobuf/reflect/protoregistry"
	"google.golang.org/protobuf/types/known/emptypb"
	"verif/harness/common"
)

// ---------- line protocol ----------

// ShowMD prints a multimap as m:xK:xV1,xV2;… sorted by key.
func ShowMD(md map[string][]string) string {
	keys := make([]string, 0, len(md))
	for k := range md {
		keys = append(keys, k)
	}
	sort.Strings(keys)
	var sb strings.Builder
	sb.WriteString("m:")
	for i, k := range keys {
		if i > 0 {
			sb.WriteByte(';')
		}
		sb.WriteString(common.HexS(k))
		sb.WriteByte(':')
		for j, v := range md[k] {
			if j > 0 {
				sb.WriteByte(',')
			}
			sb.WriteString(common.HexS(v))
		}
	}
	return sb.String()
}

// ParseMD is the inverse of ShowMD.
func ParseMD(s string) map[string][]string {
	s = strings.TrimPrefix(s, "m:")
	md := map[string][]string{}
	if s == "" {
		return md
	}
	for _, e := range strings.Split(s, ";") {
		kv := strings.SplitN(e, ":", 2)
		k := string(common.MustUnHex(kv[0]))
		vs := []string{}
		if kv[1] != "" {
			for _, v := range strings.Split(kv[1], ",") {
				vs = append(vs, string(common.MustUnHex(v)))
			}
		}
		md[k] = vs
	}
	return md
}

// ShowList prints l:xA,xB.
func ShowList(xs []string) string {
	h := make([]string, len(xs))
	for i, x := range xs {
		h[i] = common.HexS(x)
	}
	return "l:" + strings.Join(h, ",")
}

func ParseList(s string) []string {
	s = strings.TrimPrefix(s, "l:")
	if s == "" {
		return nil
	}
	var out []string
	for _, x := range strings.Split(s, ",") {
		out = append(out, string(common.MustUnHex(x)))
	}
	return out
}

// ShowPairs prints p:xK=xV;… (order kept).
func ShowPairs(ps [][2]string) string {
	h := make([]string, len(ps))
	for i, p := range ps {
		h[i] = common.HexS(p[0]) + "=" + common.HexS(p[1])
	}
	return "p:" + strings.Join(h, ";")
}

func ParsePairs(s string) [][2]string {
	s = strings.TrimPrefix(s, "p:")
	if s == "" {
		return nil
	}
	var out [][2]string
	for _, x := range strings.Split(s, ";") {
		kv := strings.SplitN(x, "=", 2)
		out = append(out, [2]string{string(common.MustUnHex(kv[0])), string(common.MustUnHex(kv[1]))})
	}
	return out
}

// ---------- scripted target ----------

// Target is a grpcadapter.ClientConn that records what the forwarder attaches to the outgoing
// stream and answers from a script.
type Target struct {
	Header, Trailer metadata.MD
	Responses       int   // messages to answer before the end of the stream
	NoHeader        bool  // Trailers-Only: the stream's Header() stays empty, metadata comes through Trailer() only
	Err             error // how the stream ends after Responses messages (nil = io.EOF)

	mu       sync.Mutex
	Streams  int
	Outgoing metadata.MD
	HasDL    bool
	Remain   time.Duration
}

func (t *Target) Close() {}

func (t *Target) Stream(ctx context.Context, method string) (grpcadapter.ClientStream, error) {
	t.mu.Lock()
	defer t.mu.Unlock()
	t.Streams++
	md, _ := metadata.FromOutgoingContext(ctx)
	t.Outgoing = md
	if dl, ok := ctx.Deadline(); ok {
		t.HasDL = true
		t.Remain = time.Until(dl)
	}
	return &targetStream{t: t, left: t.Responses}, nil
}

// Snapshot returns (streams, outgoing md, deadline field).
func (t *Target) Snapshot() (int, metadata.MD, string) {
	t.mu.Lock()
	defer t.mu.Unlock()
	dl := "none"
	if t.HasDL {
		if t.Remain > 1<<62 { // saturated (clamped hour values): avoid overflowing the rounding
			dl = "9223372037"
		} else {
			dl = fmt.Sprint(int64((t.Remain + 500*time.Millisecond) / time.Second))
		}
	}
	return t.Streams, t.Outgoing, dl
}

type targetStream struct {
	t    *Target
	mu   sync.Mutex
	left int
}

func (s *targetStream) Send(context.Context, proto.Message) error { return nil }
func (s *targetStream) Recv(ctx context.Context, m proto.Message) error {
	s.mu.Lock()
	defer s.mu.Unlock()
	if s.left <= 0 {
		if s.t.Err != nil {
			return s.t.Err
		}
		return io.EOF
	}
	s.left--
	return nil
}
func (s *targetStream) Header() metadata.MD {
	if s.t.NoHeader {
		return nil
	}
	return s.t.Header
}
func (s *targetStream) Trailer() metadata.MD { return s.t.Trailer }
func (s *targetStream) CloseSend()           {}
func (s *targetStream) Close()               {}

// ---------- router ----------

// Router routes every request to one method of one target and records how it was asked.
type Router struct {
	Conn            grpcadapter.ClientConn
	ClientStreaming bool
	ServerStreaming bool

	mu        sync.Mutex
	HTTPCalls int
	GRPCCalls int
	HTTPQuery url.Values // r.URL.Query() at the first RouteHTTP
	GRPCMD    metadata.MD
}

var emptyMsg = bridgedesc.ConcreteMessage[emptypb.Empty]()

func (r *Router) route() (*bridgedesc.Target, *bridgedesc.Service, *bridgedesc.Method, *bridgedesc.Binding) {
	m := &bridgedesc.Method{RPCName: "/verif.S/M", Input: emptyMsg, Output: emptyMsg,
		ClientStreaming: r.ClientStreaming, ServerStreaming: r.ServerStreaming}
	b := &bridgedesc.Binding{HTTPMethod: "GET", Pattern: "/x"}
	m.Bindings = []bridgedesc.Binding{*b}
	s := &bridgedesc.Service{Name: "verif.S", Methods: []bridgedesc.Method{*m}}
	t := &bridgedesc.Target{Name: "t", TypeResolver: protoregistry.GlobalTypes, FileResolver: protoregistry.GlobalFiles,
		Services: []bridgedesc.Service{*s}}
	return t, s, m, b
}

func (r *Router) RouteHTTP(req *http.Request) (grpcadapter.ClientConn, routing.HTTPRoute, error) {
	r.mu.Lock()
	if r.HTTPCalls == 0 {
		r.HTTPQuery = req.URL.Query()
	}
	r.HTTPCalls++
	r.mu.Unlock()
	t, s, m, b := r.route()
	return r.Conn, routing.HTTPRoute{Target: t, Service: s, Method: m, Binding: b, PathParams: map[string]string{}}, nil
}

func (r *Router) RouteGRPC(ctx context.Context) (grpcadapter.ClientConn, routing.GRPCRoute, error) {
	r.mu.Lock()
	if r.GRPCCalls == 0 {
		if md, ok := metadata.FromIncomingContext(ctx); ok {
			r.GRPCMD = md
		}
	}
	r.GRPCCalls++
	r.mu.Unlock()
	t, s, m, _ := r.route()
	return r.Conn, routing.GRPCRoute{Target: t, Service: s, Method: m}, nil
}

func (r *Router) Calls() (int, int, url.Values, metadata.MD) {
	r.mu.Lock()
	defer r.mu.Unlock()
	return r.HTTPCalls, r.GRPCCalls, r.HTTPQuery, r.GRPCMD
}

// ---------- recording incoming stream (Forward-level tie) ----------

type Incoming struct {
	mu       sync.Mutex
	recvLeft int
	Hdr      metadata.MD
	Trl      metadata.MD
	HdrSet   int
	TrlSet   int
	Sent     int
}

func NewIncoming(requests int) *Incoming { return &Incoming{recvLeft: requests} }

func (s *Incoming) Send(context.Context, proto.Message) error {
	s.mu.Lock()
	s.Sent++
	s.mu.Unlock()
	return nil
}

func (s *Incoming) Recv(context.Context, proto.Message) error {
	s.mu.Lock()
	defer s.mu.Unlock()
	if s.recvLeft <= 0 {
		return io.EOF
	}
	s.recvLeft--
	return nil
}

func (s *Incoming) SetHeader(md metadata.MD) {
	s.mu.Lock()
	s.Hdr, s.HdrSet = md.Copy(), s.HdrSet+1
	s.mu.Unlock()
}

func (s *Incoming) SetTrailer(md metadata.MD) {
	s.mu.Lock()
	s.Trl, s.TrlSet = md.Copy(), s.TrlSet+1
	s.mu.Unlock()
}

// ---------- raw HTTP/1.1 + WebSocket client ----------

const ioTimeout = 3 * time.Second

// RawConn is a client connection on which the request is written byte by byte.
type RawConn struct {
	C  net.Conn
	BR *bufio.Reader
}

func Dial(addr string) (*RawConn, error) {
	c, err := net.DialTimeout("tcp", addr, ioTimeout)
	if err != nil {
		return nil, err
	}
	_ = c.SetDeadline(time.Now().Add(ioTimeout))
	return &RawConn{C: c, BR: bufio.NewReader(c)}, nil
}

func (rc *RawConn) Close() { rc.C.Close() }

// WriteRequest writes the request line, a Host line, the given header lines verbatim, and the body.
func (rc *RawConn) WriteRequest(method, target string, lines [][2]string, body []byte) error {
	var sb strings.Builder
	fmt.Fprintf(&sb, "%s %s HTTP/1.1\r\nHost: verif.test\r\n", method, target)
	for _, l := range lines {
		fmt.Fprintf(&sb, "%s: %s\r\n", l[0], l[1])
	}
	if body != nil {
		fmt.Fprintf(&sb, "Content-Length: %d\r\n", len(body))
	}
	sb.WriteString("\r\n")
	if _, err := io.WriteString(rc.C, sb.String()); err != nil {
		return err
	}
	if len(body) > 0 {
		_, err := rc.C.Write(body)
		return err
	}
	return nil
}

// ReadResponse parses the response head (the body is left on the reader).
func (rc *RawConn) ReadResponse(method string) (*http.Response, error) {
	return http.ReadResponse(rc.BR, &http.Request{Method: method})
}

// WriteWSFrame writes one final client frame (masked with the all-zero key).
func (rc *RawConn) WriteWSFrame(opcode byte, payload []byte) error {
	hdr := []byte{0x80 | opcode}
	switch {
	case len(payload) < 126:
		hdr = append(hdr, 0x80|byte(len(payload)))
	case len(payload) < 65536:
		hdr = append(hdr, 0x80|126, byte(len(payload)>>8), byte(len(payload)))
	default:
		hdr = append(hdr, 0x80|127)
		hdr = binary.BigEndian.AppendUint64(hdr, uint64(len(payload)))
	}
	hdr = append(hdr, 0, 0, 0, 0)
	_, err := rc.C.Write(append(hdr, payload...))
	return err
}

type WSFrame struct {
	Opcode  byte
	Payload []byte
}

// ReadWSFrames reads server frames until a close frame, EOF or a timeout.
func (rc *RawConn) ReadWSFrames() []WSFrame {
	var out []WSFrame
	for {
		var h [2]byte
		if _, err := io.ReadFull(rc.BR, h[:]); err != nil {
			return out
		}
		n := uint64(h[1] & 0x7f)
		switch n {
		case 126:
			var b [2]byte
			if _, err := io.ReadFull(rc.BR, b[:]); err != nil {
				return out
			}
			n = uint64(binary.BigEndian.Uint16(b[:]))
		case 127:
			var b [8]byte
			if _, err := io.ReadFull(rc.BR, b[:]); err != nil {
				return out
			}
			n = binary.BigEndian.Uint64(b[:])
		}
		if n > 1<<24 {
			return out
		}
		p := make([]byte, n)
		if _, err := io.ReadFull(rc.BR, p); err != nil {
			return out
		}
		out = append(out, WSFrame{Opcode: h[0] & 0x0f, Payload: p})
		if h[0]&0x0f == 8 {
			return out
		}
	}
}

// WSHandshake are the header lines of a plain RFC 6455 opening handshake.
func WSHandshake() [][2]string {
	return [][2]string{{"Connection", "Upgrade"}, {"Upgrade", "websocket"}, {"Sec-WebSocket-Version", "13"},
		{"Sec-WebSocket-Key", "dGhlIHNhbXBsZSBub25jZQ=="}}
}
