package c06

import (
	"math/rand"
	"sort"
	"strings"

	"verif/harness/common"
)

// Flap histories (round 5, wave 3): every target receives >= 3 successive descriptions in which HTTP methods appear,
// disappear and REAPPEAR (the element of the per-method list must be unlinked and later re-linked, never updated while
// detached - seeded change C03-m9), bindings move between HTTP methods, the same binding is repeated inside one
// description, and targets are closed and re-watched between updates. The probe set of such a line is every
// (HTTP method, path) of every description version of the line, and every path under every HTTP method the line uses;
// like all probes it is evaluated after EVERY operation.

var flapMethods = []string{"GET", "POST", "DELETE", "PUT", "PATCH"}

// FlapTemplates lists the templates of flap lines (tied to routing.buildPattern by `tmpl` lines).
func FlapTemplates() []string {
	var ts []string
	for _, t := range []string{"a", "b"} {
		ts = append(ts, flapPaths(t)...)
		ts = append(ts, "/f."+t+"/M1", "/f."+t+"/M2")
	}
	return ts
}

func flapPaths(t string) []string {
	return []string{"/f/" + t + "/1", "/f/" + t + "/2", "/f/" + t + "/{id}", "/f/s/1", "/f/s/{id}:v"}
}

func flapInstance(tmpl string) string {
	return strings.NewReplacer("{id}", "77").Replace(tmpl)
}

func genFlapLine(r *rand.Rand) *Line {
	names := []string{"a", "b"}[:1+r.Intn(2)]
	usedMethods := map[string]bool{"POST": true}
	usedPaths := map[string]bool{}
	versions := map[string][]*DescSpec{}
	for _, t := range names {
		paths := flapPaths(t)
		k := 3 + r.Intn(3)
		flapM := common.Pick(r, flapMethods)
		p0 := common.Pick(r, paths)
		// presence script of the flapping method: on, off, on, then random
		for v := 0; v < k; v++ {
			assign := map[string]string{}
			pool := []string{flapM, common.Pick(r, flapMethods), common.Pick(r, flapMethods)}
			for _, p := range paths {
				if r.Intn(3) != 0 {
					assign[p] = common.Pick(r, pool)
				}
			}
			want := r.Intn(2) == 0
			if v < 3 {
				want = v != 1
			}
			if want {
				assign[p0] = flapM
				genStats["flap:method-present"]++
			} else {
				for p, m := range assign {
					if m == flapM {
						if o := common.Pick(r, flapMethods); o != flapM && r.Intn(2) == 0 {
							assign[p] = o // the binding moves to another HTTP method
							genStats["flap:binding-moves"]++
						} else {
							delete(assign, p)
						}
					}
				}
				genStats["flap:method-absent"]++
			}
			d := &DescSpec{Name: t, Services: []ServiceSpec{{Name: "f." + t, Methods: []MethodSpec{{RPCName: "/f." + t + "/M1"}, {RPCName: "/f." + t + "/M2"}}}}}
			for i, p := range paths {
				m, ok := assign[p]
				if !ok {
					continue
				}
				me := &d.Services[0].Methods[i%2]
				me.Bindings = append(me.Bindings, BindingSpec{m, p})
				if r.Intn(6) == 0 { // the same binding once more, in this or in the other method
					o := &d.Services[0].Methods[r.Intn(2)]
					o.Bindings = append(o.Bindings, BindingSpec{m, p})
					genStats["flap:repeated-binding"]++
				}
				usedMethods[m] = true
				usedPaths[flapInstance(p)] = true
			}
			if r.Intn(8) == 0 { // nothing routable at all in this version but the default bindings
				d.Services[0].Methods[0].Bindings, d.Services[0].Methods[1].Bindings = nil, nil
				genStats["flap:only-defaults"]++
			}
			usedPaths["/f."+t+"/M1"], usedPaths["/f."+t+"/M2"] = true, true
			versions[t] = append(versions[t], d)
		}
	}
	l := &Line{Pool: TargetNames, G: gProbes()[:2]}
	for _, t := range names {
		l.Ops = append(l.Ops, Op{Kind: 'w', Name: t})
	}
	next := map[string]int{}
	for {
		var open []string
		for _, t := range names {
			if next[t] < len(versions[t]) {
				open = append(open, t)
			}
		}
		if len(open) == 0 {
			break
		}
		t := common.Pick(r, open)
		if next[t] > 0 && r.Intn(5) == 0 { // removed and re-added under the same name between two descriptions
			l.Ops = append(l.Ops, Op{Kind: 'c', Name: t}, Op{Kind: 'w', Name: t})
			genStats["flap:close-rewatch"]++
		}
		l.Ops = append(l.Ops, Op{Kind: 'u', Name: t, Desc: versions[t][next[t]]})
		next[t]++
	}
	if r.Intn(3) == 0 {
		l.Ops = append(l.Ops, Op{Kind: 'c', Name: common.Pick(r, names)})
	}
	var ms, ps []string
	for m := range usedMethods {
		ms = append(ms, m)
	}
	for p := range usedPaths {
		ps = append(ps, p)
	}
	sort.Strings(ms)
	sort.Strings(ps)
	for _, p := range ps {
		for _, m := range ms {
			l.P = append(l.P, [2]string{m, p})
		}
	}
	genStats["history:flap"]++
	return l
}
