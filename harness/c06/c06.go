// Package c06 is the correspondence area of property C06 (stub: the slice is not built yet).
package c06

import (
	"math/rand"
)

type Area struct{}

func (Area) Name() string { return "c06" }

func (Area) Exec(input string) string { return "UNIMPLEMENTED" }

func (Area) Gen(r *rand.Rand, tier string, emit func(string)) {}
