// Package c06 is the correspondence area of property C06: generated Watch/UpdateDesc/Close
// histories are applied to the REAL routing.PatternRouter and routing.ServiceRouter, and a probe set
// is routed through RouteHTTP / RouteGRPC (and, for C14, through ServiceRouter.RouteHTTP on requests
// parsed by net/http, GRPCWebBridge.ServeHTTP and GRPCProxy.StreamHandler) after EVERY operation.
// The Lean driver (GB/C06/Hist.lean) replays the same history through the models and the specification.
//
// Line format (see also GB/C06/Hist.lean):
//
//	hist K=<pool names> [P=…] [G=…] [H=…] [W=…] [X=…] <op> <op> … => <step token> …
package c06

import (
	"bufio"
	"context"
	"errors"
	"fmt"
	"math/rand"
	"net/http"
	"net/http/httptest"
	"regexp"
	"strconv"
	"strings"

	grpcbridge "github.com/renbou/grpcbridge"
	"github.com/renbou/grpcbridge/bridgedesc"
	"github.com/renbou/grpcbridge/grpcadapter"
	"github.com/renbou/grpcbridge/routing"
	"github.com/renbou/grpcbridge/webbridge"
	"google.golang.org/grpc"
	"google.golang.org/grpc/status"
	"google.golang.org/protobuf/reflect/protoreflect"
	"verif/harness/common"
)

type Area struct{}

func (Area) Name() string { return "c06" }

// ---------------------------------------------------------------------------------------------
// line parsing / printing

type BindingSpec struct{ HTTPMethod, Pattern string }
type MethodSpec struct {
	RPCName  string
	Bindings []BindingSpec
}
type ServiceSpec struct {
	Name    string
	Methods []MethodSpec
}
type DescSpec struct {
	Name     string
	Services []ServiceSpec
}

type Op struct {
	Kind byte // 'w', 'u', 'c'
	Name string
	Desc *DescSpec
}

type Line struct {
	Pool []string
	P    [][2]string // method, path
	G    []*string   // nil = no method in the context
	H    [][2]string // method, request target
	W    []string    // request target
	X    []string    // method name
	Ops  []Op
}

func hx(s string) string { return common.HexS(s) }
func unhx(s string) string {
	return string(common.MustUnHex(s))
}

func (d *DescSpec) String() string {
	var svcs []string
	for _, s := range d.Services {
		var ms []string
		for _, m := range s.Methods {
			parts := []string{hx(m.RPCName)}
			for _, b := range m.Bindings {
				parts = append(parts, hx(b.HTTPMethod)+"~"+hx(b.Pattern))
			}
			ms = append(ms, strings.Join(parts, "/"))
		}
		svcs = append(svcs, hx(s.Name)+":"+strings.Join(ms, ","))
	}
	return hx(d.Name) + "@" + strings.Join(svcs, ";")
}

func (l *Line) String() string {
	var t []string
	t = append(t, "hist")
	var k []string
	for _, n := range l.Pool {
		k = append(k, hx(n))
	}
	t = append(t, "K="+strings.Join(k, ","))
	pairs := func(pfx string, ps [][2]string) {
		if len(ps) == 0 {
			return
		}
		var xs []string
		for _, p := range ps {
			xs = append(xs, hx(p[0])+"~"+hx(p[1]))
		}
		t = append(t, pfx+strings.Join(xs, ","))
	}
	singles := func(pfx string, ps []string) {
		if len(ps) == 0 {
			return
		}
		var xs []string
		for _, p := range ps {
			xs = append(xs, hx(p))
		}
		t = append(t, pfx+strings.Join(xs, ","))
	}
	pairs("P=", l.P)
	if len(l.G) > 0 {
		var xs []string
		for _, g := range l.G {
			if g == nil {
				xs = append(xs, "-")
			} else {
				xs = append(xs, hx(*g))
			}
		}
		t = append(t, "G="+strings.Join(xs, ","))
	}
	pairs("H=", l.H)
	singles("W=", l.W)
	singles("X=", l.X)
	for _, o := range l.Ops {
		switch o.Kind {
		case 'w', 'c':
			t = append(t, string(o.Kind)+"="+hx(o.Name))
		case 'u':
			t = append(t, "u="+hx(o.Name)+"="+o.Desc.String())
		}
	}
	return strings.Join(t, " ")
}

func splitNE(s, sep string) []string {
	if s == "" {
		return nil
	}
	return strings.Split(s, sep)
}

func parseDesc(s string) *DescSpec {
	nm, rest, _ := strings.Cut(s, "@")
	d := &DescSpec{Name: unhx(nm)}
	for _, ss := range splitNE(rest, ";") {
		sn, ms, _ := strings.Cut(ss, ":")
		svc := ServiceSpec{Name: unhx(sn)}
		for _, m := range splitNE(ms, ",") {
			parts := strings.Split(m, "/")
			me := MethodSpec{RPCName: unhx(parts[0])}
			for _, b := range parts[1:] {
				hm, pt, _ := strings.Cut(b, "~")
				me.Bindings = append(me.Bindings, BindingSpec{unhx(hm), unhx(pt)})
			}
			svc.Methods = append(svc.Methods, me)
		}
		d.Services = append(d.Services, svc)
	}
	return d
}

func ParseLine(input string) *Line {
	f := strings.Fields(input)
	l := &Line{}
	pairs := func(s string) [][2]string {
		var out [][2]string
		for _, p := range splitNE(s, ",") {
			a, b, _ := strings.Cut(p, "~")
			out = append(out, [2]string{unhx(a), unhx(b)})
		}
		return out
	}
	singles := func(s string) []string {
		var out []string
		for _, p := range splitNE(s, ",") {
			out = append(out, unhx(p))
		}
		return out
	}
	for _, tok := range f[1:] {
		switch {
		case strings.HasPrefix(tok, "K="):
			l.Pool = singles(tok[2:])
		case strings.HasPrefix(tok, "P="):
			l.P = pairs(tok[2:])
		case strings.HasPrefix(tok, "G="):
			for _, p := range splitNE(tok[2:], ",") {
				if p == "-" {
					l.G = append(l.G, nil)
				} else {
					s := unhx(p)
					l.G = append(l.G, &s)
				}
			}
		case strings.HasPrefix(tok, "H="):
			l.H = pairs(tok[2:])
		case strings.HasPrefix(tok, "W="):
			l.W = singles(tok[2:])
		case strings.HasPrefix(tok, "X="):
			l.X = singles(tok[2:])
		case strings.HasPrefix(tok, "w="):
			l.Ops = append(l.Ops, Op{Kind: 'w', Name: unhx(tok[2:])})
		case strings.HasPrefix(tok, "c="):
			l.Ops = append(l.Ops, Op{Kind: 'c', Name: unhx(tok[2:])})
		case strings.HasPrefix(tok, "u="):
			n, d, _ := strings.Cut(tok[2:], "=")
			l.Ops = append(l.Ops, Op{Kind: 'u', Name: unhx(n), Desc: parseDesc(d)})
		default:
			panic("bad token " + tok)
		}
	}
	return l
}

// ---------------------------------------------------------------------------------------------
// fakes

type fakeConn struct{ name string }

func (*fakeConn) Stream(ctx context.Context, method string) (grpcadapter.ClientStream, error) {
	return nil, errors.New("fake connection")
}
func (*fakeConn) Close() {}

type fakePool struct{ conns map[string]*fakeConn }

func (p *fakePool) Get(target string) (grpcadapter.ClientConn, bool) {
	c, ok := p.conns[target]
	if !ok {
		return nil, false
	}
	return c, true
}

type fakeForwarder struct{ got *grpcadapter.ForwardParams }

func (f *fakeForwarder) Forward(_ context.Context, p grpcadapter.ForwardParams) error {
	f.got = &p
	return nil
}

type fakeSTS struct {
	grpc.ServerTransportStream
	method string
}

func (s fakeSTS) Method() string { return s.method }

type fakeServerStream struct {
	grpc.ServerStream
	ctx context.Context
}

func (s fakeServerStream) Context() context.Context { return s.ctx }

// ---------------------------------------------------------------------------------------------
// execution against the real routers

type world struct {
	pool  *fakePool
	pr    *routing.PatternRouter
	sr    *routing.ServiceRouter
	web   *webbridge.GRPCWebBridge
	proxy *grpcbridge.GRPCProxy
	fwd   *fakeForwarder
	vers  map[*bridgedesc.Target]int
	pw    map[string]*routing.PatternRouterWatcher
	sw    map[string]*routing.ServiceRouterWatcher
	open  map[string]bool
}

func newWorld(poolNames []string) *world {
	w := &world{
		pool: &fakePool{conns: map[string]*fakeConn{}},
		vers: map[*bridgedesc.Target]int{},
		pw:   map[string]*routing.PatternRouterWatcher{},
		sw:   map[string]*routing.ServiceRouterWatcher{},
		open: map[string]bool{},
		fwd:  &fakeForwarder{},
	}
	for _, n := range poolNames {
		w.pool.conns[n] = &fakeConn{name: n}
	}
	w.pr = routing.NewPatternRouter(w.pool, routing.PatternRouterOpts{})
	w.sr = routing.NewServiceRouter(w.pool, routing.ServiceRouterOpts{})
	w.web = webbridge.NewGRPCWebBridge(w.sr, webbridge.GRPCWebBridgeOpts{Forwarder: w.fwd})
	w.proxy = grpcbridge.NewGRPCProxy(w.sr, grpcbridge.WithForwarder(w.fwd))
	return w
}

func buildTarget(d *DescSpec) *bridgedesc.Target {
	t := &bridgedesc.Target{Name: d.Name}
	for _, s := range d.Services {
		svc := bridgedesc.Service{Name: protoreflect.FullName(s.Name)}
		for _, m := range s.Methods {
			me := bridgedesc.Method{RPCName: m.RPCName}
			for _, b := range m.Bindings {
				me.Bindings = append(me.Bindings, bridgedesc.Binding{HTTPMethod: b.HTTPMethod, Pattern: b.Pattern})
			}
			svc.Methods = append(svc.Methods, me)
		}
		t.Services = append(t.Services, svc)
	}
	return t
}

func (w *world) apply(i int, o Op) string {
	switch o.Kind {
	case 'w':
		pw, err1 := w.pr.Watch(o.Name)
		sw, err2 := w.sr.Watch(o.Name)
		switch {
		case err1 == nil && err2 == nil:
			w.pw[o.Name], w.sw[o.Name], w.open[o.Name] = pw, sw, true
			return "ok"
		case errors.Is(err1, routing.ErrAlreadyWatching) && errors.Is(err2, routing.ErrAlreadyWatching):
			return "already"
		default:
			return fmt.Sprintf("mixed:%v:%v", err1 != nil, err2 != nil)
		}
	case 'u':
		t := buildTarget(o.Desc)
		w.vers[t] = i
		pw, ok := w.pw[o.Name]
		if !ok {
			return "noop" // no watcher was ever created for this name: nothing to call
		}
		pw.UpdateDesc(t)
		w.sw[o.Name].UpdateDesc(t)
		if w.open[o.Name] && o.Desc.Name == o.Name {
			return "ok"
		}
		return "noop" // closed watcher or foreign description: the call above must have had no effect
	case 'c':
		if !w.open[o.Name] {
			return "noop" // a second Close panics by contract; not executed
		}
		w.pw[o.Name].Close()
		w.sw[o.Name].Close()
		w.open[o.Name] = false
		return "ok"
	}
	return "badop"
}

func errTok(err error) string { return fmt.Sprintf("S%d", int(status.Code(err))) }

func (w *world) svcIdx(t *bridgedesc.Target, s *bridgedesc.Service) string {
	for i := range t.Services {
		if &t.Services[i] == s {
			return strconv.Itoa(i)
		}
	}
	return "?"
}

func (w *world) connOK(conn grpcadapter.ClientConn, name string) bool {
	c, ok := conn.(*fakeConn)
	return ok && c == w.pool.conns[name]
}

func (w *world) grpcTok(conn grpcadapter.ClientConn, t *bridgedesc.Target, s *bridgedesc.Service, m *bridgedesc.Method, checkConn bool) string {
	v, ok := w.vers[t]
	if !ok || s == nil || m == nil {
		return "F?unknown-target"
	}
	if checkConn && !w.connOK(conn, t.Name) {
		return "F?conn"
	}
	return fmt.Sprintf("F.%s.%d.%s.%s", hx(t.Name), v, w.svcIdx(t, s), hx(m.RPCName))
}

func (w *world) probeP(method, path string) string {
	req, err := http.NewRequest(method, "http://h"+path, nil)
	if err != nil {
		return "E"
	}
	conn, route, err := w.pr.RouteHTTP(req)
	if err != nil {
		return errTok(err)
	}
	t := route.Target
	v, ok := w.vers[t]
	if !ok {
		return "F?unknown-target"
	}
	if !w.connOK(conn, t.Name) {
		return "F?conn"
	}
	si, mi, bi := "?", "?", "?"
	for i := range t.Services {
		if &t.Services[i] == route.Service {
			si = strconv.Itoa(i)
			for j := range t.Services[i].Methods {
				if &t.Services[i].Methods[j] == route.Method {
					mi = strconv.Itoa(j)
					me := route.Method
					for k := range me.Bindings {
						if &me.Bindings[k] == route.Binding {
							bi = strconv.Itoa(k)
						}
					}
					if bi == "?" && len(me.Bindings) == 0 && route.Binding != nil && *route.Binding == *bridgedesc.DefaultBinding(me) {
						bi = "d"
					}
				}
			}
		}
	}
	return fmt.Sprintf("F.%s.%d.%s.%s.%s", hx(t.Name), v, si, mi, bi)
}

func (w *world) probeG(name *string) string {
	ctx := context.Background()
	if name != nil {
		ctx = grpc.NewContextWithServerTransportStream(ctx, fakeSTS{method: *name})
	}
	conn, route, err := w.sr.RouteGRPC(ctx)
	if err != nil {
		return errTok(err)
	}
	return w.grpcTok(conn, route.Target, route.Service, route.Method, true)
}

func readRequest(method, target string) (*http.Request, error) {
	return http.ReadRequest(bufio.NewReader(strings.NewReader(method + " " + target + " HTTP/1.1\r\nHost: h\r\n\r\n")))
}

func (w *world) probeH(method, target string) string {
	req, err := readRequest(method, target)
	if err != nil {
		return "R"
	}
	url := "@" + hx(req.URL.Path) + "@" + hx(req.URL.RawPath)
	conn, route, err := w.sr.RouteHTTP(req)
	if err != nil {
		hs := "-"
		var he interface{ HTTPStatus() int }
		if errors.As(err, &he) {
			hs = strconv.Itoa(he.HTTPStatus())
		}
		return errTok(err) + "." + hs + url
	}
	tok := w.grpcTok(conn, route.Target, route.Service, route.Method, true)
	if route.Binding == nil || route.PathParams != nil {
		return "F?binding" + url
	}
	return tok + "." + hx(route.Binding.HTTPMethod) + "." + hx(route.Binding.Pattern) + url
}

var grpcStatusRe = regexp.MustCompile(`(?i)grpc-status: ?(\d+)`)

func (w *world) probeW(target string) string {
	req, err := readRequest("POST", target)
	if err != nil {
		return "R"
	}
	w.fwd.got = nil
	rec := httptest.NewRecorder()
	w.web.ServeHTTP(rec, req)
	if p := w.fwd.got; p != nil {
		return w.grpcTok(p.Outgoing, p.Target, p.Service, p.Method, true)
	}
	m := grpcStatusRe.FindSubmatch(rec.Body.Bytes())
	if m == nil {
		return "S?"
	}
	return "S" + string(m[1])
}

func (w *world) probeX(name string) string {
	w.fwd.got = nil
	ctx := grpc.NewContextWithServerTransportStream(context.Background(), fakeSTS{method: name})
	err := w.proxy.StreamHandler(nil, fakeServerStream{ctx: ctx})
	if p := w.fwd.got; p != nil {
		return w.grpcTok(p.Outgoing, p.Target, p.Service, p.Method, true)
	}
	if err == nil {
		return "S?"
	}
	return errTok(err)
}

// ExecHist runs one history line.
func ExecHist(input string) string {
	l := ParseLine(input)
	w := newWorld(l.Pool)
	var steps []string
	for i, o := range l.Ops {
		parts := []string{w.apply(i, o)}
		var ps, gs, hs, ws, xs []string
		for _, p := range l.P {
			ps = append(ps, w.probeP(p[0], p[1]))
		}
		for _, g := range l.G {
			gs = append(gs, w.probeG(g))
		}
		for _, h := range l.H {
			hs = append(hs, w.probeH(h[0], h[1]))
		}
		for _, t := range l.W {
			ws = append(ws, w.probeW(t))
		}
		for _, x := range l.X {
			xs = append(xs, w.probeX(x))
		}
		parts = append(parts, strings.Join(ps, ","), strings.Join(gs, ","), strings.Join(hs, ","), strings.Join(ws, ","), strings.Join(xs, ","))
		steps = append(steps, strings.Join(parts, ";"))
	}
	// leave no open watcher behind (nothing observable; keeps the routers collectable)
	return strings.Join(steps, " ")
}

// realValid reports whether routing.buildPattern accepts the template.
func realValid(tmpl string) bool {
	return routing.VerifBuildPattern(tmpl) == nil
}

func (Area) Exec(input string) string {
	f := strings.Fields(input)
	switch f[0] {
	case "hist":
		return ExecHist(input)
	case "tmpl":
		if realValid(unhx(f[1])) {
			return "1"
		}
		return "0"
	}
	return "BADOP"
}

// ---------------------------------------------------------------------------------------------
// generation

var (
	TargetNames = []string{"a", "b", "c"}
	SvcNames    = []string{"p.S1", "p.S2", "q.T", "p.S1x", "r.U"}
	HTTPMethods = []string{"GET", "POST", "DELETE"}
	ValidTmpls  = []string{"/v1/a", "/v1/{id}", "/v1/a/b", "/v1/*/b", "/v1/a:get", "/v1/{id}:get", "/v2/x", "/v2/{n}/y", "/v2/{n}/{k}", "/p.S1/M1"}
	BadTmpls    = []string{"", "v1/a", "/v1/{id", "/v1/a b", "/v1/{id}}"}
	PPaths      = []string{"/v1/a", "/v1/zz", "/v1/a/b", "/v1/q/b", "/v1/a:get", "/v1/zz:get", "/v2/x", "/v2/7/y", "/p.S1/M1", "/p.S2/M1", "/q.T/M2", "/r.U/M1", "/nothing", "/"}
	GNames      = []string{"/p.S1/M1", "p.S1/M1", "/p.S2/Zzz", "/q.T/M1/x", "/p.S1x/", "/r.U/M1", "/unknown.S/M", "nomethod", "//M"}
)

var genStats = map[string]int{}

// Mutate derives the next description of a target from its previous one: add / keep / move / drop
// services, methods, HTTP methods and bindings, inject invalid templates.
func randBinding(r *rand.Rand) BindingSpec {
	t := common.Pick(r, ValidTmpls)
	if r.Intn(8) == 0 {
		t = common.Pick(r, BadTmpls)
		genStats["binding:invalid-template"]++
	}
	return BindingSpec{common.Pick(r, HTTPMethods), t}
}

func randMethod(r *rand.Rand, svc string) MethodSpec {
	m := MethodSpec{RPCName: "/" + svc + "/" + common.Pick(r, []string{"M1", "M2"})}
	if r.Intn(12) == 0 {
		m.RPCName = common.Pick(r, []string{"NoSlash", "", "/" + svc + "/{", "/" + svc + "/M 1"})
		genStats["method:odd-rpcname"]++
	}
	switch n := r.Intn(4); n {
	case 0: // default binding
	default:
		for i := 0; i < n; i++ {
			m.Bindings = append(m.Bindings, randBinding(r))
		}
	}
	return m
}

func randService(r *rand.Rand, name string) ServiceSpec {
	s := ServiceSpec{Name: name}
	for i, n := 0, r.Intn(3); i < n; i++ {
		s.Methods = append(s.Methods, randMethod(r, name))
	}
	return s
}

func cloneDesc(d *DescSpec) *DescSpec {
	return parseDesc(d.String())
}

func Mutate(r *rand.Rand, name string, prev *DescSpec, others []*DescSpec) *DescSpec {
	return MutateWith(SvcNames)(r, name, prev, others)
}

// MutateWith is Mutate over a given pool of service names (a small pool makes targets collide often).
func MutateWith(SvcNames []string) func(r *rand.Rand, name string, prev *DescSpec, others []*DescSpec) *DescSpec {
	return func(r *rand.Rand, name string, prev *DescSpec, others []*DescSpec) *DescSpec {
		return mutate(r, SvcNames, name, prev, others)
	}
}

func mutate(r *rand.Rand, SvcNames []string, name string, prev *DescSpec, others []*DescSpec) *DescSpec {
	if prev == nil || r.Intn(6) == 0 {
		genStats["desc:fresh"]++
		d := &DescSpec{Name: name}
		for i, n := 0, r.Intn(4); i < n; i++ {
			d.Services = append(d.Services, randService(r, common.Pick(r, SvcNames)))
		}
		return d
	}
	d := cloneDesc(prev)
	d.Name = name
	for i, n := 0, 1+r.Intn(3); i < n; i++ {
		switch k := r.Intn(10); {
		case k == 0: // keep as is
			genStats["mut:keep"]++
		case k == 1 && len(d.Services) > 0: // drop a service
			j := r.Intn(len(d.Services))
			d.Services = append(d.Services[:j:j], d.Services[j+1:]...)
			genStats["mut:drop-service"]++
		case k == 2: // add a service
			d.Services = append(d.Services, randService(r, common.Pick(r, SvcNames)))
			genStats["mut:add-service"]++
		case k == 3 && len(others) > 0: // move a service over from another target
			o := common.Pick(r, others)
			if o != nil && len(o.Services) > 0 {
				d.Services = append(d.Services, cloneDesc(o).Services[r.Intn(len(o.Services))])
				genStats["mut:move-service"]++
			}
		case k == 4 && len(d.Services) > 0: // add a method
			j := r.Intn(len(d.Services))
			d.Services[j].Methods = append(d.Services[j].Methods, randMethod(r, d.Services[j].Name))
			genStats["mut:add-method"]++
		case k == 5 && len(d.Services) > 0: // drop a method
			j := r.Intn(len(d.Services))
			if ms := d.Services[j].Methods; len(ms) > 0 {
				q := r.Intn(len(ms))
				d.Services[j].Methods = append(ms[:q:q], ms[q+1:]...)
				genStats["mut:drop-method"]++
			}
		case k >= 6 && len(d.Services) > 0: // touch a binding: change HTTP method / template, add, drop
			j := r.Intn(len(d.Services))
			if ms := d.Services[j].Methods; len(ms) > 0 {
				m := &ms[r.Intn(len(ms))]
				switch {
				case len(m.Bindings) == 0 || k == 6:
					m.Bindings = append(m.Bindings, randBinding(r))
					genStats["mut:add-binding"]++
				case k == 7:
					q := r.Intn(len(m.Bindings))
					m.Bindings = append(m.Bindings[:q:q], m.Bindings[q+1:]...)
					genStats["mut:drop-binding"]++
				case k == 8:
					m.Bindings[r.Intn(len(m.Bindings))].HTTPMethod = common.Pick(r, HTTPMethods)
					genStats["mut:change-http-method"]++
				default:
					m.Bindings[r.Intn(len(m.Bindings))] = randBinding(r)
					genStats["mut:change-binding"]++
				}
			}
		}
	}
	if r.Intn(5) == 0 && len(d.Services) > 1 { // reorder services (indices move, names stay)
		r.Shuffle(len(d.Services), func(i, j int) { d.Services[i], d.Services[j] = d.Services[j], d.Services[i] })
		genStats["mut:reorder-services"]++
	}
	return d
}

// GenHistory produces a history of n ops over the targets. With churn the targets are closed and
// re-watched much more often (stale bookkeeping left behind by Close shows only after a re-watch).
func GenHistory(r *rand.Rand, n int, churn bool, mut func(r *rand.Rand, name string, prev *DescSpec, others []*DescSpec) *DescSpec) []Op {
	mode := ModeNormal
	if churn {
		mode = ModeChurn
	}
	return GenHistoryMode(r, n, mode, mut)
}

// History shapes: normal; churn (two targets, frequent close / re-watch); contest (three targets competing for
// very few services with frequent closes: claims pile up behind an owner, the owner drops or closes, waiting
// claimants update / drop / close while waiting, re-claims go to the back - fix D31).
const (
	ModeNormal = iota
	ModeChurn
	ModeContest
)

func GenHistoryMode(r *rand.Rand, n int, mode int, mut func(r *rand.Rand, name string, prev *DescSpec, others []*DescSpec) *DescSpec) []Op {
	TargetNames := TargetNames
	if mode == ModeChurn {
		TargetNames = TargetNames[:2]
	}
	var ops []Op
	watched := map[string]bool{}
	last := map[string]*DescSpec{}
	closeBelow := 5
	switch mode {
	case ModeChurn:
		closeBelow = 8
		genStats["history:churn"]++
	case ModeContest:
		closeBelow = 7
		genStats["history:contest"]++
	}
	for len(ops) < n {
		name := common.Pick(r, TargetNames)
		switch k := r.Intn(20); {
		case k < 3: // watch (possibly while watched: ErrAlreadyWatching)
			if watched[name] && r.Intn(3) != 0 {
				continue
			}
			ops = append(ops, Op{Kind: 'w', Name: name})
			watched[name] = true
		case k < closeBelow: // close (rarely without a live watcher)
			if !watched[name] && r.Intn(6) != 0 {
				continue
			}
			ops = append(ops, Op{Kind: 'c', Name: name})
			watched[name] = false
			delete(last, name)
		case k == closeBelow: // update through the wrong watcher / of a closed watcher
			var others []*DescSpec
			for _, o := range TargetNames {
				if o != name {
					others = append(others, last[o])
				}
			}
			d := mut(r, name, last[name], others)
			if r.Intn(2) == 0 {
				d.Name = common.Pick(r, TargetNames)
			}
			ops = append(ops, Op{Kind: 'u', Name: name, Desc: d})
			if watched[name] && d.Name == name {
				last[name] = d
			}
			genStats["op:odd-update"]++
		default:
			if !watched[name] {
				if len(ops) < n-1 && r.Intn(4) != 0 {
					ops = append(ops, Op{Kind: 'w', Name: name})
					watched[name] = true
				} else {
					continue
				}
			}
			var others []*DescSpec
			for _, o := range TargetNames {
				if o != name {
					others = append(others, last[o])
				}
			}
			d := mut(r, name, last[name], others)
			ops = append(ops, Op{Kind: 'u', Name: name, Desc: d})
			last[name] = d
		}
	}
	return ops
}

func pProbes() [][2]string {
	var ps [][2]string
	for _, p := range PPaths {
		for _, m := range []string{"GET", "POST"} {
			ps = append(ps, [2]string{m, p})
		}
	}
	ps = append(ps, [2]string{"DELETE", "/v1/a"}, [2]string{"DELETE", "/v2/7/y"}, [2]string{"PUT", "/v1/a"})
	return ps
}

func gProbes() []*string {
	var gs []*string
	for i := range GNames {
		gs = append(gs, &GNames[i])
	}
	return append(gs, nil)
}

func (Area) Extra() map[string]any {
	out := map[string]any{}
	for k, v := range genStats {
		out[k] = v
	}
	return map[string]any{"generator": out}
}

func (Area) Gen(r *rand.Rand, tier string, emit func(string)) {
	// the driver's instance of the opaque `valid` parameter is tied to buildPattern on the template pool
	for _, t := range append(append([]string{}, ValidTmpls...), BadTmpls...) {
		emit("tmpl " + hx(t))
	}
	for _, s := range SvcNames {
		for _, m := range []string{"M1", "M2"} {
			emit("tmpl " + hx("/"+s+"/"+m))
		}
	}
	for _, t := range []string{"NoSlash", "/p.S1/{", "/p.S1/M 1"} {
		emit("tmpl " + hx(t))
	}
	for _, t := range FlapTemplates() {
		emit("tmpl " + hx(t))
	}

	base := &Line{Pool: TargetNames, P: pProbes(), G: gProbes()}
	// exhaustive short histories over a fixed op alphabet (4-description pool)
	d1 := &DescSpec{Name: "a", Services: []ServiceSpec{{Name: "p.S1", Methods: []MethodSpec{{RPCName: "/p.S1/M1", Bindings: []BindingSpec{{"GET", "/v1/a"}, {"POST", "/v1/{id}"}}}}}}}
	d2 := &DescSpec{Name: "a", Services: []ServiceSpec{{Name: "p.S2"}, {Name: "p.S1", Methods: []MethodSpec{{RPCName: "/p.S1/M1", Bindings: []BindingSpec{{"POST", "/v1/{id}"}}}, {RPCName: "/p.S1/M2"}}}}}
	d3 := &DescSpec{Name: "b", Services: []ServiceSpec{{Name: "p.S1", Methods: []MethodSpec{{RPCName: "/p.S1/M1", Bindings: []BindingSpec{{"GET", "/v1/{id}"}, {"GET", "/v1/{id"}}}}}, {Name: "q.T", Methods: []MethodSpec{{RPCName: "/q.T/M2"}}}}}
	d4 := &DescSpec{Name: "b", Services: []ServiceSpec{{Name: "q.T", Methods: []MethodSpec{{RPCName: "/q.T/M2", Bindings: []BindingSpec{{"DELETE", "/v1/a"}}}}}}}
	alpha := []Op{{Kind: 'w', Name: "a"}, {Kind: 'w', Name: "b"}, {Kind: 'c', Name: "a"}, {Kind: 'c', Name: "b"},
		{Kind: 'u', Name: "a", Desc: d1}, {Kind: 'u', Name: "a", Desc: d2}, {Kind: 'u', Name: "b", Desc: d3}, {Kind: 'u', Name: "b", Desc: d4}}
	maxLen := 3
	if tier == "thorough" {
		maxLen = 4
	}
	var rec func(prefix []Op)
	rec = func(prefix []Op) {
		if len(prefix) > 0 {
			l := *base
			l.Ops = prefix
			emit(l.String())
		}
		if len(prefix) == maxLen {
			return
		}
		for _, o := range alpha {
			rec(append(append([]Op{}, prefix...), o))
		}
	}
	rec(nil)

	// flap histories: >= 3 descriptions per target, HTTP methods appearing / disappearing / reappearing (flap.go)
	nf := 150
	if tier == "thorough" {
		nf = 3000
	}
	for i := 0; i < nf; i++ {
		emit(genFlapLine(r).String())
	}

	n, maxOps := 300, 12
	if tier == "thorough" {
		n, maxOps = 6000, 30
	}
	for i := 0; i < n; i++ {
		l := *base
		if r.Intn(10) == 0 { // one target without a pooled connection
			l.Pool = []string{"a", "b", "c"}[:2]
		}
		if i%3 == 2 { // churn: two targets, two services, frequent close / re-watch
			l.Ops = GenHistory(r, 2+r.Intn(maxOps-1), true, MutateWith(SvcNames[:2]))
		} else if i%3 == 1 { // contest: three targets, two services
			l.Ops = GenHistoryMode(r, 3+r.Intn(maxOps-2), ModeContest, MutateWith(SvcNames[:2]))
		} else {
			l.Ops = GenHistory(r, 2+r.Intn(maxOps-1), false, Mutate)
		}
		emit(l.String())
	}
}
