// Package c18 feeds the regenerated lockset table (extract/lockset → .work/lockset.json, path in
// VERIF_LOCKSET_JSON) to the Lean driver, one line per candidate pair of accesses to the same field
// where at least one writes. The "implementation output" is whether the pair is in the table
// regenerated from the current sources (so a replayed pair that no longer exists is reported absent).
package c18

import (
	"encoding/json"
	"fmt"
	"math/rand"
	"os"
	"strings"
)

type access struct {
	Field string   `json:"field"`
	Func  string   `json:"func"`
	Write bool     `json:"write"`
	Locks []string `json:"locks"`
	Own   []string `json:"own"`
	Fresh bool     `json:"fresh"`
	Pre   []string `json:"pre"`
	Post  []string `json:"post"`
	Roots []string `json:"roots"`
	Pos   string   `json:"pos"`
}

type table struct {
	Accesses []access `json:"accesses"`
	// writes that can reach memory already published to lock-free readers (must be empty: C18_published_immutable)
	PostPublicationWrites []string `json:"postPublicationWrites"`
}

type Area struct{}

func (Area) Name() string { return "c18" }

func load() table {
	var t table
	p := os.Getenv("VERIF_LOCKSET_JSON")
	if p == "" {
		p = "/verif/.work/lockset.json"
	}
	b, err := os.ReadFile(p)
	if err != nil {
		panic(err)
	}
	if err := json.Unmarshal(b, &t); err != nil {
		panic(err)
	}
	return t
}

func b2s(b bool) string {
	if b {
		return "1"
	}
	return "0"
}

func locks(l []string) string {
	if len(l) == 0 {
		return "-"
	}
	return strings.Join(l, ",")
}

func key(a access) string {
	return fmt.Sprintf("%s %s %s %s %s %s %s %s", a.Func, b2s(a.Write), locks(a.Locks), locks(a.Own), b2s(a.Fresh), locks(a.Pre), locks(a.Post), locks(a.Roots))
}

func (Area) Gen(r *rand.Rand, tier string, emit func(string)) {
	t := load()
	for _, w := range t.PostPublicationWrites {
		emit("ppw " + strings.ReplaceAll(w, " ", "_"))
	}
	for i, a := range t.Accesses {
		for j, b := range t.Accesses {
			if j < i || a.Field != b.Field || !(a.Write || b.Write) {
				continue
			}
			emit(fmt.Sprintf("pair %s %s %s", a.Field, key(a), key(b)))
		}
	}
}

func (Area) Exec(input string) string {
	f := strings.Fields(input)
	if len(f) == 2 && f[0] == "ppw" {
		for _, w := range load().PostPublicationWrites {
			if strings.ReplaceAll(w, " ", "_") == f[1] {
				return "present"
			}
		}
		return "absent"
	}
	if len(f) != 18 || f[0] != "pair" {
		return "BADOP"
	}
	t := load()
	have := map[string]bool{}
	for _, a := range t.Accesses {
		have[a.Field+" "+key(a)] = true
	}
	if have[f[1]+" "+strings.Join(f[2:10], " ")] && have[f[1]+" "+strings.Join(f[10:18], " ")] {
		return "present"
	}
	return "absent"
}
