// Package c18 is the correspondence area of property C18 (stub: the slice is not built yet).
package c18

import (
	"math/rand"
)

type Area struct{}

func (Area) Name() string { return "c18" }

func (Area) Exec(input string) string { return "UNIMPLEMENTED" }

func (Area) Gen(r *rand.Rand, tier string, emit func(string)) {}
