// Command harness runs one correspondence area against the real grpcbridge code.
//
//	harness -area c12 -tier quick -seed 1 -out /verif/.work/c12 [-corpus dir] [-replay file]
package main

import (
	"flag"
	"fmt"
	"os"

	"verif/harness/c01"
	"verif/harness/c02"
	"verif/harness/c03"
	"verif/harness/c04"
	"verif/harness/c05"
	"verif/harness/c06"
	"verif/harness/c07"
	"verif/harness/c08"
	"verif/harness/c09"
	"verif/harness/c10"
	"verif/harness/c11"
	"verif/harness/c12"
	"verif/harness/c12e2e"
	"verif/harness/c13"
	"verif/harness/c14"
	"verif/harness/c15"
	"verif/harness/c16"
	"verif/harness/c17"
	"verif/harness/c18"
	"verif/harness/c18race"
	"verif/harness/c19"
	"verif/harness/c20"
	"verif/harness/common"
	"verif/harness/stack"
)

var areas = map[string]common.Area{
	"c01":     c01.Area{},
	"c02":     c02.Area{},
	"c03":     c03.Area{},
	"c04":     c04.Area{},
	"c05":     c05.Area{},
	"c06":     c06.Area{},
	"c07":     c07.Area{},
	"c08":     c08.Area{},
	"c09":     c09.Area{},
	"c10":     c10.Area{},
	"c10race": c10.RaceArea{},
	"c11":     c11.Area{},
	"c12":     c12.Area{},
	"c12e2e":  c12e2e.Area{},
	"c13":     c13.Area{},
	"c14":     c14.Area{},
	"c15":     c15.Area{},
	"c16":     c16.Area{},
	"c17":     c17.Area{},
	"c18":     c18.Area{},
	"c18race": c18race.Area{},
	"c19":     c19.Area{},
	"c20":     c20.Area{},
	"stack":   stack.Area{},
}

func main() {
	area := flag.String("area", "", "area name")
	tier := flag.String("tier", "quick", "quick|thorough")
	seed := flag.Int64("seed", 1, "PRNG seed")
	out := flag.String("out", "", "output directory")
	corpus := flag.String("corpus", "", "corpus directory (run first)")
	replay := flag.String("replay", "", "replay file: run exactly these inputs")
	flag.Parse()

	a, ok := areas[*area]
	if !ok {
		fmt.Fprintf(os.Stderr, "unknown area %q\n", *area)
		os.Exit(2)
	}
	if err := common.Run(a, *tier, *seed, *out, *corpus, *replay); err != nil {
		fmt.Fprintln(os.Stderr, "harness error:", err)
		os.Exit(3)
	}
}
