// Command harness runs one correspondence area against the real grpcbridge code.
//
//	harness -area c12 -tier quick -seed 1 -out /verif/.work/c12 [-corpus dir] [-replay file]
package main

import (
	"flag"
	"fmt"
	"os"

	"verif/harness/c12"
	"verif/harness/common"
)

var areas = map[string]common.Area{
	"c12": c12.Area{},
}

func main() {
	area := flag.String("area", "", "area name")
	tier := flag.String("tier", "quick", "quick|thorough")
	seed := flag.Int64("seed", 1, "PRNG seed")
	out := flag.String("out", "", "output directory")
	corpus := flag.String("corpus", "", "corpus directory (run first)")
	replay := flag.String("replay", "", "replay file: run exactly these inputs")
	flag.Parse()

	a, ok := areas[*area]
	if !ok {
		fmt.Fprintf(os.Stderr, "unknown area %q\n", *area)
		os.Exit(2)
	}
	if err := common.Run(a, *tier, *seed, *out, *corpus, *replay); err != nil {
		fmt.Fprintln(os.Stderr, "harness error:", err)
		os.Exit(3)
	}
}
