package c05

import (
	"fmt"
	"math/rand"
	"strings"

	"github.com/renbou/grpcbridge/bridgedesc"
	"github.com/renbou/grpcbridge/reflection"
	"google.golang.org/protobuf/proto"
	"google.golang.org/protobuf/reflect/protoreflect"
	"google.golang.org/protobuf/types/descriptorpb"
)

// op `hist`: a HISTORY of resolutions in one process — re-polls of one target after a redeploy and resolutions of
// other targets — in which the DEFINITION of a message changes while its full name stays.  Every step runs
// reflection.parseFileDescriptors (verif export) on the step's descriptor set; for every method the output shows the
// field list of the descriptor that Method.Input.New() / Output.New() actually builds next to the field list of the
// descriptor the delivered registry (Target.FileResolver) has under that name.
//
//   hist pkg=<package> S=<target>|<fields of pkg.Item>|<fields of pkg.Reply> …      fields = name:type,…  type ∈ i s b
//   output per step:  ok:<built Item>/<registry Item>;<built Reply>/<registry Reply>   |  err

var histTypes = map[string]descriptorpb.FieldDescriptorProto_Type{
	"i": descriptorpb.FieldDescriptorProto_TYPE_INT32,
	"s": descriptorpb.FieldDescriptorProto_TYPE_STRING,
	"b": descriptorpb.FieldDescriptorProto_TYPE_BOOL,
}

func histMsg(name, fields string) *descriptorpb.DescriptorProto {
	md := &descriptorpb.DescriptorProto{Name: proto.String(name)}
	for i, f := range splitL(fields, ",") {
		nt := strings.SplitN(f, ":", 2)
		t, ok := histTypes[nt[1]]
		if !ok {
			panic("hist type " + f)
		}
		md.Field = append(md.Field, &descriptorpb.FieldDescriptorProto{
			Name: proto.String(nt[0]), JsonName: proto.String(nt[0]), Number: proto.Int32(int32(i + 1)),
			Label: descriptorpb.FieldDescriptorProto_LABEL_OPTIONAL.Enum(), Type: t.Enum(),
		})
	}
	return md
}

func showFields(d protoreflect.MessageDescriptor) string {
	var out []string
	for i := 0; i < d.Fields().Len(); i++ {
		f := d.Fields().Get(i)
		k := "?"
		switch f.Kind() {
		case protoreflect.Int32Kind:
			k = "i"
		case protoreflect.StringKind:
			k = "s"
		case protoreflect.BoolKind:
			k = "b"
		}
		out = append(out, string(f.Name())+":"+k)
	}
	return tok(strings.Join(out, ","))
}

func histExec(input string) string {
	pkg := ""
	var out []string
	for _, f := range strings.Fields(input)[1:] {
		switch {
		case strings.HasPrefix(f, "pkg="):
			pkg = f[4:]
		case strings.HasPrefix(f, "S="):
			p := strings.Split(f[2:], "|")
			if len(p) != 3 {
				panic("hist step " + f)
			}
			fd := &descriptorpb.FileDescriptorProto{
				Name: proto.String(pkg + ".proto"), Package: proto.String(pkg), Syntax: proto.String("proto3"),
				MessageType: []*descriptorpb.DescriptorProto{histMsg("Item", untok(p[1])), histMsg("Reply", untok(p[2]))},
				Service: []*descriptorpb.ServiceDescriptorProto{{Name: proto.String("Svc"), Method: []*descriptorpb.MethodDescriptorProto{
					{Name: proto.String("Get"), InputType: proto.String("." + pkg + ".Item"), OutputType: proto.String("." + pkg + ".Reply")}}}},
			}
			d, _, err := reflection.VerifParseFileDescriptors(p[0], []string{pkg + ".Svc"}, &descriptorpb.FileDescriptorSet{File: []*descriptorpb.FileDescriptorProto{fd}})
			if err != nil || len(d.Services) != 1 || len(d.Services[0].Methods) != 1 {
				out = append(out, "err")
				continue
			}
			m := d.Services[0].Methods[0]
			side := func(msg bridgedesc.Message, full string) string {
				built := msg.New().ProtoReflect().Descriptor()
				reg := "-none-"
				if rd, err := d.FileResolver.FindDescriptorByName(protoreflect.FullName(full)); err == nil {
					if rmd, ok := rd.(protoreflect.MessageDescriptor); ok {
						reg = showFields(rmd)
					}
				}
				return showFields(built) + "/" + reg
			}
			out = append(out, "ok:"+side(m.Input, pkg+".Item")+";"+side(m.Output, pkg+".Reply"))
		default:
			panic("hist field " + f)
		}
	}
	return strings.Join(out, " ")
}


func genHist(r *rand.Rand, tier string, emit func(string)) {
	// redeploy: Item{id} -> Item{id,title}; two targets with diverging versions; retyped and removed fields
	emit("hist pkg=hredeploy S=t|id:i|ok:b S=t|id:i,title:s|ok:b")
	emit("hist pkg=htwo S=t1|id:i|ok:b S=t2|id:s,extra:b|ok:b,msg:s S=t1|id:i|ok:b")
	emit("hist pkg=hremove S=t|id:i,title:s|ok:b S=t|id:i|- S=t|-|ok:b")
	emit("hist pkg=hsame S=t|id:i|ok:b S=t|id:i|ok:b")
	n := 60
	if tier == "thorough" {
		n = 600
	}
	names := []string{"id", "title", "n", "flag", "note"}
	types := []string{"i", "s", "b"}
	randFields := func() string {
		var fs []string
		for _, nm := range names {
			if r.Intn(2) == 0 {
				fs = append(fs, nm+":"+types[r.Intn(3)])
			}
		}
		return tok(strings.Join(fs, ","))
	}
	for i := 0; i < n; i++ {
		var sb strings.Builder
		fmt.Fprintf(&sb, "hist pkg=h%d", r.Intn(1000000))
		item, reply := randFields(), randFields()
		for s := 0; s < 2+r.Intn(3); s++ {
			if r.Intn(3) > 0 {
				item = randFields()
			}
			if r.Intn(3) == 0 {
				reply = randFields()
			}
			fmt.Fprintf(&sb, " S=t%d|%s|%s", r.Intn(2), item, reply)
		}
		emit(sb.String())
		count("hist-random")
	}
}
