// Package c05 is the correspondence area of property C05 (stub: the slice is not built yet).
package c05

import (
	"math/rand"
)

type Area struct{}

func (Area) Name() string { return "c05" }

func (Area) Exec(input string) string { return "UNIMPLEMENTED" }

func (Area) Gen(r *rand.Rand, tier string, emit func(string)) {}
