// Package c05 corresponds the real reflection.Resolver (built by ResolverBuilder.Build, polled
// manually, observed at its Watcher) with the Lean model GB.C05 by trace validation: the resolver
// talks to a scripted reflection service (a fake grpcadapter.ClientPool speaking the reflection
// protocol, optionally a real gRPC server over bufconn), the harness logs every request/answer
// and what the watcher received, the Lean driver replays the log through the model.
package c05

import (
	"fmt"
	"sort"
	"strings"
	"sync"
	"sync/atomic"
	"time"

	"github.com/renbou/grpcbridge/bridgedesc"
	"github.com/renbou/grpcbridge/grpcadapter"
	"github.com/renbou/grpcbridge/reflection"
	"github.com/renbou/grpcbridge/verifx"
	"google.golang.org/grpc/status"
	"google.golang.org/protobuf/reflect/protoreflect"
	"google.golang.org/protobuf/reflect/protoregistry"
	"verif/harness/common"
)

type Area struct{}

func (Area) Name() string { return "c05" }

func hexS(s string) string         { return common.HexS(s) }
func mustUnHex(s string) []byte    { return common.MustUnHex(s) }
func (Area) Extra() map[string]any { return genStats() }

// ---- poll synchronisation through the resolver's yield points ----

var (
	hookOnce sync.Once
	curExec  atomic.Pointer[execCtx]
	execSeq  atomic.Int64
)

type execCtx struct {
	target string
	done   chan struct{}
}

func installHook() {
	hookOnce.Do(func() {
		verifx.SetHook(func(name string, args ...string) {
			if name != "resolver.beforeSelect" || len(args) == 0 {
				return
			}
			if e := curExec.Load(); e != nil && e.target == args[0] {
				e.done <- struct{}{}
			}
		})
	})
}

type recWatcher struct {
	mu   sync.Mutex
	recs []string
}

func (w *recWatcher) add(s string) {
	w.mu.Lock()
	w.recs = append(w.recs, s)
	w.mu.Unlock()
}

func (w *recWatcher) drain() []string {
	w.mu.Lock()
	defer w.mu.Unlock()
	r := w.recs
	w.recs = nil
	return r
}

func (w *recWatcher) UpdateDesc(d *bridgedesc.Target) { w.add("ok:" + showTarget(d)) }
func (w *recWatcher) ReportError(err error)           { w.add(fmt.Sprintf("err:%d", int(status.Code(err)))) }

// msgName is the full name of a method's input/output message type; a trailing "?" marks a
// placeholder descriptor (the type is defined in no file of the delivered registry).
func msgName(m bridgedesc.Message, reg bridgedesc.FileResolver) (name string) {
	if m == nil {
		return "-"
	}
	defer func() {
		if r := recover(); r != nil {
			name = "unusable?"
		}
	}()
	d := m.New().ProtoReflect().Descriptor()
	name = tok(string(d.FullName()))
	if d.IsPlaceholder() {
		name += "?"
	} else if reg != nil {
		// the descriptor Message.New() builds must be THE descriptor the delivered registry has under that name
		// (identity, not only equal content): "%" marks a type taken from somewhere else (an earlier update, another target)
		if rd, err := reg.FindDescriptorByName(d.FullName()); err == nil {
			if rmd, ok := rd.(protoreflect.MessageDescriptor); !ok || rmd != d {
				name += "%"
			}
		}
	}
	return name
}

func showTarget(d *bridgedesc.Target) string {
	var files []string
	if reg, ok := d.FileResolver.(*protoregistry.Files); ok && reg != nil {
		reg.RangeFiles(func(fd protoreflect.FileDescriptor) bool {
			files = append(files, fd.Path())
			return true
		})
	}
	sort.Strings(files)
	svcs := make([]string, 0, len(d.Services))
	idx := make([]int, len(d.Services))
	for i := range idx {
		idx[i] = i
	}
	sort.SliceStable(idx, func(a, b int) bool { return d.Services[idx[a]].Name < d.Services[idx[b]].Name })
	for _, i := range idx {
		s := d.Services[i]
		parts := []string{tok(string(s.Name))}
		for _, m := range s.Methods {
			bs := make([]string, len(m.Bindings))
			for j, b := range m.Bindings {
				bs[j] = tok(b.HTTPMethod) + "@" + tok(b.Pattern) + "@" + tok(b.RequestBodyPath) + "@" + tok(b.ResponseBodyPath)
			}
			parts = append(parts, tok(m.RPCName)+"~"+msgName(m.Input, d.FileResolver)+"~"+msgName(m.Output, d.FileResolver)+"~"+b01(m.ClientStreaming)+b01(m.ServerStreaming)+"~"+strings.Join(bs, "^"))
		}
		svcs = append(svcs, strings.Join(parts, "!"))
	}
	return strings.Join(files, ",") + "#" + strings.Join(svcs, ";")
}

// Exec runs the real resolver against the scripted target of the case line.
func (Area) Exec(input string) string {
	if strings.HasPrefix(input, "pipe ") {
		return pipeExec(input)
	}
	if strings.HasPrefix(input, "hist ") {
		return histExec(input)
	}
	if strings.HasPrefix(input, "nf ") {
		return nfExec(input)
	}
	c := decCase(input)
	installHook()
	t := newTarget(c)
	for _, f := range append(append([]*fileT{}, c.own...), c.aliens...) {
		f.bytes()
	}
	var pool poolLike
	fp := &fakePool{t: t}
	pool = fp
	if c.wire {
		wp := newWirePool(fp)
		defer wp.close()
		pool = wp
	}
	name := fmt.Sprintf("c05-%d", execSeq.Add(1))
	ec := &execCtx{target: name, done: make(chan struct{}, 4)}
	curExec.Store(ec)
	defer curExec.Store(nil)

	w := &recWatcher{}
	builder := reflection.NewResolverBuilder(pool, reflection.ResolverOpts{
		PollManually:   true,
		ReqTimeout:     3 * time.Second,
		IgnorePrefixes: append([]string(nil), c.ign...),
		OnlyServices:   c.only,
		RecursionLimit: c.lim,
	})
	var out []string
	var resolver *reflection.Resolver
	for i, p := range c.polls {
		run := &pollRun{poll: p, pol: parsePolicy(p.pol)}
		fp.mu.Lock()
		fp.cur = run
		fp.mu.Unlock()
		if i == 0 {
			resolver = builder.Build(name, w)
		} else {
			resolver.ResolveNow()
		}
		hung := false
		select {
		case <-ec.done:
		case <-time.After(20 * time.Second):
			hung = true
		}
		fp.mu.Lock()
		log := run.log
		fp.mu.Unlock()
		out = append(out, "poll")
		out = append(out, log...)
		recs := w.drain()
		switch {
		case hung:
			out = append(out, "R=hang")
		case len(recs) == 0:
			out = append(out, "R=none")
		case len(recs) == 1:
			out = append(out, "R="+recs[0])
		default:
			out = append(out, "R=multi:"+strings.Join(recs, "&"))
		}
		if hung {
			return strings.Join(out, " ") // the resolver goroutine is stuck; do not wait for Close
		}
	}
	if resolver != nil {
		resolver.Close()
	}
	return strings.Join(out, " ")
}

type poolLike interface {
	grpcadapter.ClientPool
}
