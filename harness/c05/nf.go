package c05

import (
	"fmt"
	"math/rand"
	"strconv"
	"strings"

	"github.com/renbou/grpcbridge/reflection"
	"google.golang.org/protobuf/encoding/protowire"
	"google.golang.org/protobuf/proto"
	"google.golang.org/protobuf/types/descriptorpb"
)

// op `nf`: reflection.parseFileDescriptors (protodesc.NewFiles + bridgedesc.ParseTarget) on a descriptor set
// built at run time with the features the resolver model abstracts from: public / weak imports, syntax and
// edition, symbols declared twice, package-vs-symbol conflicts, unused and repeated imports, `required` in
// proto3, google.api.http rules whose additional bindings carry additional bindings of their own, unknown
// fields in MethodOptions.
//
//   nf [U=1] W=<svc,…> X=<name|pkg|deps|msgs|svcs|syntax|edition|pub|weak|required>…

type xfileT struct {
	*fileT
	syntax  string
	edition int
	pub     []int
	weak    []int
	req     []string
}

func ints(l []int) string {
	s := make([]string, len(l))
	for i, v := range l {
		s[i] = strconv.Itoa(v)
	}
	return strings.Join(s, ",")
}

func (x *xfileT) enc() string {
	return x.fileT.enc() + "|" + tok(x.syntax) + "|" + strconv.Itoa(x.edition) + "|" + ints(x.pub) + "|" + ints(x.weak) + "|" + strings.Join(x.req, ",")
}

func decInts(s string) []int {
	var out []int
	for _, p := range splitL(s, ",") {
		v, err := strconv.Atoi(p)
		if err != nil {
			panic("int: " + p)
		}
		out = append(out, v)
	}
	return out
}

func decXFile(s string) *xfileT {
	p := strings.Split(s, "|")
	if len(p) != 10 {
		panic("xfile: " + s)
	}
	ed, err := strconv.Atoi(p[6])
	if err != nil {
		panic("edition: " + p[6])
	}
	return &xfileT{fileT: decFile(strings.Join(p[:5], "|")), syntax: untok(p[5]), edition: ed,
		pub: decInts(p[7]), weak: decInts(p[8]), req: splitL(p[9], ",")}
}

func (x *xfileT) pbx(unknown bool) *descriptorpb.FileDescriptorProto {
	fd := x.fileT.pb()
	fd.Syntax = nil
	if x.syntax != "" {
		fd.Syntax = proto.String(x.syntax)
	}
	if x.edition != 0 {
		fd.Edition = descriptorpb.Edition(x.edition).Enum()
	}
	for _, i := range x.pub {
		fd.PublicDependency = append(fd.PublicDependency, int32(i))
	}
	for _, i := range x.weak {
		fd.WeakDependency = append(fd.WeakDependency, int32(i))
	}
	for _, m := range x.req {
		for _, md := range fd.MessageType {
			if md.GetName() == local(m, x.pkg) {
				md.Field = append(md.Field, &descriptorpb.FieldDescriptorProto{
					Name: proto.String("must"), Number: proto.Int32(1), JsonName: proto.String("must"),
					Label: descriptorpb.FieldDescriptorProto_LABEL_REQUIRED.Enum(),
					Type:  descriptorpb.FieldDescriptorProto_TYPE_INT32.Enum(),
				})
			}
		}
	}
	if unknown {
		unk := protowire.AppendVarint(protowire.AppendTag(nil, 51234, protowire.VarintType), 7)
		unk = protowire.AppendBytes(protowire.AppendTag(unk, 51235, protowire.BytesType), []byte("/v1/not-a-rule"))
		for _, sd := range fd.Service {
			for _, md := range sd.Method {
				if md.Options == nil {
					md.Options = &descriptorpb.MethodOptions{}
				}
				md.Options.ProtoReflect().SetUnknown(unk)
			}
		}
	}
	return fd
}

func nfExec(input string) string {
	var wanted []string
	set := &descriptorpb.FileDescriptorSet{}
	unknown := false
	var xs []*xfileT
	for _, f := range strings.Fields(input)[1:] {
		switch {
		case f == "U=1":
			unknown = true
		case strings.HasPrefix(f, "W="):
			wanted = splitL(f[2:], ",")
		case strings.HasPrefix(f, "X="):
			xs = append(xs, decXFile(f[2:]))
		default:
			panic("nf field " + f)
		}
	}
	for _, x := range xs {
		// through the wire format, as the resolver gets it
		b, err := proto.MarshalOptions{Deterministic: true}.Marshal(x.pbx(unknown))
		if err != nil {
			panic(err)
		}
		fd := new(descriptorpb.FileDescriptorProto)
		if err := proto.Unmarshal(b, fd); err != nil {
			panic(err)
		}
		set.File = append(set.File, fd)
	}
	d, _, err := reflection.VerifParseFileDescriptors("nf", wanted, set)
	if err != nil {
		return "err"
	}
	return "ok:" + showTarget(d)
}

// ---- generator ----

func nfLine(unknown bool, wanted []string, xs []*xfileT) string {
	var sb strings.Builder
	sb.WriteString("nf")
	if unknown {
		sb.WriteString(" U=1")
	}
	sb.WriteString(" W=" + strings.Join(wanted, ","))
	for _, x := range xs {
		sb.WriteString(" X=" + x.enc())
	}
	return sb.String()
}

func xf(name, pkg string, deps []string, msgs []string, svcs ...svcT) *xfileT {
	return &xfileT{fileT: &fileT{name: name, pkg: pkg, deps: deps, msgs: msgs, svcs: svcs}, syntax: "proto3"}
}

func svc1(full, in, out string, rules ...ruleT) svcT {
	return svcT{full: full, methods: []methodT{{name: "Do", in: in, out: out, rules: rules}}}
}

func nfEdgeCases() []string {
	var out []string
	add := func(unknown bool, wanted []string, xs ...*xfileT) { out = append(out, nfLine(unknown, wanted, xs)) }
	with := func(x *xfileT, f func(*xfileT)) *xfileT { f(x); return x }
	w := []string{"a.A"}
	// a -> b -public-> c : a.A uses c.M
	a := func() *xfileT { return xf("a.proto", "a", []string{"b.proto"}, []string{"a.Q"}, svc1("a.A", "a.Q", "c.M")) }
	b := func() *xfileT { return with(xf("b.proto", "b", []string{"c.proto"}, nil), func(x *xfileT) { x.pub = []int{0} }) }
	c := func() *xfileT { return xf("c.proto", "c", nil, []string{"c.M"}) }
	add(false, w, a(), b(), c())                                                             // visible through import public
	add(false, w, a(), with(b(), func(x *xfileT) { x.pub = nil }), c())                      // not public: not visible
	add(false, w, c(), b(), a())                                                             // order
	add(false, w, a(), with(b(), func(x *xfileT) { x.pub = []int{1} }), c())                 // index out of range
	add(false, w, a(), with(b(), func(x *xfileT) { x.pub = []int{0, 0} }), c())              // repeated index
	// public chain of length 2: a -> b -public-> c -public-> d
	add(false, w, xf("a.proto", "a", []string{"b.proto"}, []string{"a.Q"}, svc1("a.A", "a.Q", "d.M")), b(),
		with(xf("c.proto", "c", []string{"d.proto"}, nil), func(x *xfileT) { x.pub = []int{0} }), xf("d.proto", "d", nil, []string{"d.M"}))
	// a's own public flag does not make things visible to a
	add(false, w, with(xf("a.proto", "a", []string{"b.proto"}, []string{"a.Q"}, svc1("a.A", "a.Q", "c.M")), func(x *xfileT) { x.pub = []int{0} }),
		with(b(), func(x *xfileT) { x.pub = nil }), c())
	// weak import of a file that is not there / that is there; weak + type needed from it
	add(false, w, with(xf("a.proto", "a", []string{"gone.proto"}, []string{"a.Q"}, svc1("a.A", "a.Q", "a.Q")), func(x *xfileT) { x.weak = []int{0}; x.syntax = "proto2" }))
	add(false, w, xf("a.proto", "a", []string{"gone.proto"}, []string{"a.Q"}, svc1("a.A", "a.Q", "a.Q")))
	add(false, w, with(xf("a.proto", "a", []string{"c.proto"}, []string{"a.Q"}, svc1("a.A", "a.Q", "c.M")), func(x *xfileT) { x.weak = []int{0} }), c())
	add(false, w, with(xf("a.proto", "a", []string{"gone.proto"}, []string{"a.Q"}, svc1("a.A", "a.Q", "gone.M")), func(x *xfileT) { x.weak = []int{0} }))
	add(false, w, with(xf("a.proto", "a", []string{"c.proto"}, []string{"a.Q"}, svc1("a.A", "a.Q", "a.Q")), func(x *xfileT) { x.weak = []int{0} }),
		with(xf("c.proto", "c", []string{"a.proto"}, nil), func(x *xfileT) { x.weak = []int{0} })) // weak cycle
	// symbol in two files; package-vs-symbol
	add(false, w, xf("a.proto", "a", nil, []string{"a.Q"}, svc1("a.A", "a.Q", "a.Q")), xf("a2.proto", "a", nil, []string{"a.Q"}))
	add(false, w, xf("a.proto", "a", nil, []string{"a.Q"}, svc1("a.A", "a.Q", "a.Q")), xf("q.proto", "a.Q", nil, []string{"a.Q.Z"}))
	add(false, w, xf("a.proto", "a", nil, []string{"a.Q"}, svc1("a.A", "a.Q", "a.Q")), xf("q.proto", "a.Q.deep", nil, nil))
	add(false, w, xf("a.proto", "a", nil, []string{"a.Q"}, svc1("a.A", "a.Q", "a.Q")), xf("q.proto", "a.A", nil, nil))
	add(false, w, xf("a.proto", "a", nil, []string{"a.Q"}, svc1("a.A", "a.Q", "a.Q")), xf("q.proto", "a.Qx", nil, []string{"a.Qx.Q"}))
	// unused and repeated imports, self import
	add(false, w, xf("a.proto", "a", []string{"c.proto"}, []string{"a.Q"}, svc1("a.A", "a.Q", "a.Q")), c())
	add(false, w, xf("a.proto", "a", []string{"c.proto", "c.proto"}, []string{"a.Q"}, svc1("a.A", "a.Q", "c.M")), c())
	add(false, w, xf("a.proto", "a", []string{"a.proto"}, []string{"a.Q"}, svc1("a.A", "a.Q", "a.Q")))
	// syntax
	for _, sy := range []string{"", "proto2", "proto3", "editions", "proto4", "PROTO3"} {
		for _, ed := range []int{0, 998, 999, 1000, 1001} {
			if sy != "editions" && ed != 0 {
				continue
			}
			add(false, w, with(xf("a.proto", "a", nil, []string{"a.Q"}, svc1("a.A", "a.Q", "a.Q")), func(x *xfileT) { x.syntax = sy; x.edition = ed }))
		}
	}
	// required field
	for _, sy := range []string{"proto2", "proto3", ""} {
		add(false, w, with(xf("a.proto", "a", nil, []string{"a.Q"}, svc1("a.A", "a.Q", "a.Q")), func(x *xfileT) { x.syntax = sy; x.req = []string{"a.Q"} }))
	}
	// http rules: nested additional bindings, custom kinds, body edge values, unknown fields in the options
	nested := ruleT{kind: "post", pattern: "/v1/add", body: "*", nested: []ruleT{{kind: "get", pattern: "/v1/nested"}, {kind: "c", verb: "HEAD", pattern: "/v1/nested2", nested: nil}}}
	for _, unk := range []bool{false, true} {
		add(unk, w, xf("a.proto", "a", nil, []string{"a.Q"}, svc1("a.A", "a.Q", "a.Q",
			ruleT{kind: "get", pattern: "/v1/top", resp: "r"}, nested, ruleT{kind: "c", verb: "", pattern: ""}, ruleT{kind: "none", body: "*", resp: "*"})))
		add(unk, w, xf("a.proto", "a", nil, []string{"a.Q"}, svc1("a.A", "a.Q", "a.Q")))
		add(unk, w, xf("a.proto", "a", nil, []string{"a.Q"}, svc1("a.A", "a.Q", "a.Q", ruleT{kind: "c", verb: "*", pattern: "/**", body: "a.b.c", resp: "*"})))
	}
	// wanted service not defined / defined as a message
	add(false, []string{"a.A", "a.Q", "x.Y"}, xf("a.proto", "a", nil, []string{"a.Q"}, svc1("a.A", "a.Q", "a.Q")))
	return out
}

func genNf(r *rand.Rand, tier string, emit func(string)) {
	for _, l := range nfEdgeCases() {
		emit(l)
		count("nf-edge")
	}
	n := 400
	if tier == "thorough" {
		n = 4000
	}
	for i := 0; i < n; i++ {
		emit(randomNf(r))
	}
}

func randomNf(r *rand.Rand) string {
	nfiles := 1 + r.Intn(5)
	xs := make([]*xfileT, nfiles)
	pkgs := []string{"p0", "p1", "p1.sub", "p2", "p0.M0"}
	for i := range xs {
		pkg := pkgs[r.Intn(len(pkgs)-1)]
		if r.Intn(25) == 0 {
			pkg = pkgs[len(pkgs)-1]
		}
		x := xf(fmt.Sprintf("f%d.proto", i), pkg, nil, nil)
		for m := 0; m < 1+r.Intn(2); m++ {
			x.msgs = append(x.msgs, fmt.Sprintf("%s.M%d", pkg, m+2*(i%2)*r.Intn(2)))
		}
		x.msgs = dedupS(x.msgs)
		switch r.Intn(12) {
		case 0:
			x.syntax = "proto2"
		case 1:
			x.syntax = ""
		case 2:
			x.syntax, x.edition = "editions", []int{1000, 1000, 998, 999, 1001, 0}[r.Intn(6)]
		case 3:
			if r.Intn(4) == 0 {
				x.syntax = "proto1"
			}
		}
		if r.Intn(15) == 0 {
			x.req = []string{x.msgs[0]}
		}
		xs[i] = x
	}
	// imports: mostly towards higher indices (acyclic), sometimes anything
	for i, x := range xs {
		for j := range xs {
			if j == i {
				continue
			}
			if (j > i && r.Intn(2) == 0) || r.Intn(40) == 0 {
				x.deps = append(x.deps, xs[j].name)
			}
		}
		if r.Intn(20) == 0 {
			x.deps = append(x.deps, "missing.proto")
		}
		if r.Intn(40) == 0 && len(x.deps) > 0 {
			x.deps = append(x.deps, x.deps[0])
		}
		for k := range x.deps {
			if r.Intn(3) == 0 {
				x.pub = append(x.pub, k)
			}
			if r.Intn(8) == 0 || (x.deps[k] == "missing.proto" && r.Intn(2) == 0) {
				x.weak = append(x.weak, k)
			}
		}
		if r.Intn(40) == 0 {
			x.pub = append(x.pub, len(x.deps)+r.Intn(2))
		}
	}
	// services: types from any file, biased to visible ones
	var wanted []string
	for i, x := range xs {
		if r.Intn(2) == 0 {
			continue
		}
		pick := func() string {
			cand := xs[r.Intn(len(xs))]
			if r.Intn(3) > 0 {
				cand = x
				if len(x.deps) > 0 && r.Intn(2) == 0 {
					// follow a few imports
					cur := x
					for hop := 0; hop < 1+r.Intn(3); hop++ {
						if len(cur.deps) == 0 {
							break
						}
						d := cur.deps[r.Intn(len(cur.deps))]
						for _, y := range xs {
							if y.name == d {
								cur = y
							}
						}
					}
					cand = cur
				}
			}
			return cand.msgs[r.Intn(len(cand.msgs))]
		}
		sv := svcT{full: fmt.Sprintf("%s.S%d", x.pkg, i)}
		for m := 0; m < 1+r.Intn(2); m++ {
			mt := methodT{name: fmt.Sprintf("M%d", m), in: pick(), out: pick(), cs: r.Intn(4) == 0, ss: r.Intn(4) == 0}
			if r.Intn(2) == 0 {
				mt.rules = append(mt.rules, randRule(r))
				for k := r.Intn(3); k > 0; k-- {
					a := randRule(r)
					for q := r.Intn(3); q > 0 && r.Intn(2) == 0; q-- {
						a.nested = append(a.nested, randRule(r))
					}
					mt.rules = append(mt.rules, a)
				}
			}
			sv.methods = append(sv.methods, mt)
		}
		x.svcs = append(x.svcs, sv)
		wanted = append(wanted, sv.full)
	}
	if r.Intn(6) == 0 {
		wanted = append(wanted, "nope.Svc")
	}
	r.Shuffle(len(xs), func(i, j int) { xs[i], xs[j] = xs[j], xs[i] })
	count("nf-random")
	return nfLine(r.Intn(4) == 0, wanted, xs)
}

func dedupS(l []string) []string {
	seen := map[string]bool{}
	var out []string
	for _, s := range l {
		if !seen[s] {
			seen[s] = true
			out = append(out, s)
		}
	}
	return out
}
