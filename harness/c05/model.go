package c05

import (
	"fmt"
	"sort"
	"strconv"
	"strings"

	"google.golang.org/genproto/googleapis/api/annotations"
	"google.golang.org/protobuf/proto"
	"google.golang.org/protobuf/types/descriptorpb"
)

// ---- the scripted target's descriptor set, as carried on the case line ----

type ruleT struct {
	kind    string // get put post delete patch none c
	verb    string // custom kind
	pattern string
	body    string
	resp    string
	nested  []ruleT // additional_bindings of an additional binding (op nf only)
}

type methodT struct {
	name   string
	in     string // full message name
	out    string
	cs, ss bool
	rules  []ruleT // empty: no google.api.http option
}

type svcT struct {
	full    string
	methods []methodT
}

type fileT struct {
	name string
	pkg  string
	deps []string
	msgs []string // full names
	svcs []svcT

	raw []byte // marshalled FileDescriptorProto
}

type pollT struct {
	modes  [2]string // v1, v1alpha
	listed []string
	pol    string
}

type caseT struct {
	lim    int
	only   bool
	ign    []string
	wire   bool
	own    []*fileT
	aliens []*fileT
	polls  []pollT
}

func tok(s string) string {
	if s == "" {
		return "-"
	}
	return s
}

func untok(s string) string {
	if s == "-" {
		return ""
	}
	return s
}

func splitL(s, sep string) []string {
	if s == "" {
		return nil
	}
	return strings.Split(s, sep)
}

func (r ruleT) enc() string {
	k := r.kind
	if k == "c" {
		k = "c:" + tok(r.verb)
	}
	out := k + "@" + tok(r.pattern) + "@" + tok(r.body) + "@" + tok(r.resp)
	if len(r.nested) > 0 {
		ns := make([]string, len(r.nested))
		for i, n := range r.nested {
			ns[i] = strings.ReplaceAll(n.enc(), "@", "$")
		}
		out += "@" + strings.Join(ns, "%")
	}
	return out
}

func (m methodT) enc() string {
	fl := b01(m.cs) + b01(m.ss)
	rs := make([]string, len(m.rules))
	for i, r := range m.rules {
		rs[i] = r.enc()
	}
	return m.name + "~" + tok(m.in) + "~" + tok(m.out) + "~" + fl + "~" + strings.Join(rs, "^")
}

func b01(b bool) string {
	if b {
		return "1"
	}
	return "0"
}

func (s svcT) enc() string {
	parts := []string{s.full}
	for _, m := range s.methods {
		parts = append(parts, m.enc())
	}
	return strings.Join(parts, "!")
}

func (f *fileT) enc() string {
	ss := make([]string, len(f.svcs))
	for i, s := range f.svcs {
		ss[i] = s.enc()
	}
	return f.name + "|" + f.pkg + "|" + strings.Join(f.deps, ",") + "|" + strings.Join(f.msgs, ",") + "|" + strings.Join(ss, ";")
}

func (c *caseT) enc() string {
	var sb strings.Builder
	fmt.Fprintf(&sb, "res lim=%d only=%s ign=%s", c.lim, b01(c.only), strings.Join(mapS(c.ign, tok), ","))
	if c.wire {
		sb.WriteString(" wire=1")
	}
	for _, f := range c.own {
		sb.WriteString(" F=" + f.enc())
	}
	for _, f := range c.aliens {
		sb.WriteString(" A=" + f.enc())
	}
	for _, p := range c.polls {
		hx := make([]string, len(p.listed))
		for i, l := range p.listed {
			hx[i] = hexS(l)
		}
		sb.WriteString(" P=" + p.modes[0] + "," + p.modes[1] + "|" + strings.Join(hx, ",") + "|" + p.pol)
	}
	return sb.String()
}

func mapS(l []string, f func(string) string) []string {
	o := make([]string, len(l))
	for i, s := range l {
		o[i] = f(s)
	}
	return o
}

func decRule(s string) ruleT {
	p := strings.Split(s, "@")
	if len(p) != 4 && len(p) != 5 {
		panic("rule: " + s)
	}
	r := ruleT{kind: p[0], pattern: untok(p[1]), body: untok(p[2]), resp: untok(p[3])}
	if len(p) == 5 {
		for _, n := range splitL(p[4], "%") {
			r.nested = append(r.nested, decRule(strings.ReplaceAll(n, "$", "@")))
		}
	}
	if strings.HasPrefix(r.kind, "c:") {
		r.verb = untok(r.kind[2:])
		r.kind = "c"
	}
	return r
}

func decMethod(s string) methodT {
	p := strings.Split(s, "~")
	if len(p) != 5 || len(p[3]) != 2 {
		panic("method: " + s)
	}
	m := methodT{name: p[0], in: untok(p[1]), out: untok(p[2]), cs: p[3][0] == '1', ss: p[3][1] == '1'}
	for _, r := range splitL(p[4], "^") {
		m.rules = append(m.rules, decRule(r))
	}
	return m
}

func decSvc(s string) svcT {
	p := strings.Split(s, "!")
	sv := svcT{full: p[0]}
	for _, m := range p[1:] {
		sv.methods = append(sv.methods, decMethod(m))
	}
	return sv
}

func decFile(s string) *fileT {
	p := strings.Split(s, "|")
	if len(p) != 5 {
		panic("file: " + s)
	}
	f := &fileT{name: untok(p[0]), pkg: p[1], deps: splitL(p[2], ","), msgs: splitL(p[3], ",")}
	for _, sv := range splitL(p[4], ";") {
		f.svcs = append(f.svcs, decSvc(sv))
	}
	return f
}

func decCase(line string) *caseT {
	c := &caseT{}
	for _, fld := range strings.Fields(line) {
		k, v, _ := strings.Cut(fld, "=")
		switch k {
		case "res":
		case "lim":
			n, err := strconv.Atoi(v)
			if err != nil {
				panic(err)
			}
			c.lim = n
		case "only":
			c.only = v == "1"
		case "wire":
			c.wire = v == "1"
		case "ign":
			c.ign = mapS(splitL(v, ","), untok)
		case "F":
			c.own = append(c.own, decFile(v))
		case "A":
			c.aliens = append(c.aliens, decFile(v))
		case "P":
			p := strings.SplitN(v, "|", 3)
			if len(p) != 3 {
				panic("poll: " + v)
			}
			m := strings.Split(p[0], ",")
			if len(m) != 2 {
				panic("modes: " + v)
			}
			pl := pollT{modes: [2]string{m[0], m[1]}, pol: p[2]}
			for _, h := range splitL(p[1], ",") {
				pl.listed = append(pl.listed, string(mustUnHex(h)))
			}
			c.polls = append(c.polls, pl)
		default:
			panic("field " + k)
		}
	}
	return c
}

// ---- descriptorpb construction ----

func local(full, pkg string) string {
	if pkg == "" {
		return full
	}
	if !strings.HasPrefix(full, pkg+".") {
		panic(fmt.Sprintf("symbol %q is not in package %q", full, pkg))
	}
	return full[len(pkg)+1:]
}

func (r ruleT) pb() *annotations.HttpRule {
	h := &annotations.HttpRule{Body: r.body, ResponseBody: r.resp}
	switch r.kind {
	case "get":
		h.Pattern = &annotations.HttpRule_Get{Get: r.pattern}
	case "put":
		h.Pattern = &annotations.HttpRule_Put{Put: r.pattern}
	case "post":
		h.Pattern = &annotations.HttpRule_Post{Post: r.pattern}
	case "delete":
		h.Pattern = &annotations.HttpRule_Delete{Delete: r.pattern}
	case "patch":
		h.Pattern = &annotations.HttpRule_Patch{Patch: r.pattern}
	case "c":
		h.Pattern = &annotations.HttpRule_Custom{Custom: &annotations.CustomHttpPattern{Kind: r.verb, Path: r.pattern}}
	case "none":
	default:
		panic("rule kind " + r.kind)
	}
	for _, n := range r.nested {
		h.AdditionalBindings = append(h.AdditionalBindings, n.pb())
	}
	return h
}

func (f *fileT) pb() *descriptorpb.FileDescriptorProto {
	fd := &descriptorpb.FileDescriptorProto{
		Name:       proto.String(f.name),
		Syntax:     proto.String("proto3"),
		Dependency: append([]string(nil), f.deps...),
	}
	if f.pkg != "" {
		fd.Package = proto.String(f.pkg)
	}
	for _, m := range f.msgs {
		fd.MessageType = append(fd.MessageType, &descriptorpb.DescriptorProto{Name: proto.String(local(m, f.pkg))})
	}
	for _, s := range f.svcs {
		sd := &descriptorpb.ServiceDescriptorProto{Name: proto.String(local(s.full, f.pkg))}
		for _, m := range s.methods {
			md := &descriptorpb.MethodDescriptorProto{
				Name:       proto.String(m.name),
				InputType:  proto.String("." + m.in),
				OutputType: proto.String("." + m.out),
			}
			if m.cs {
				md.ClientStreaming = proto.Bool(true)
			}
			if m.ss {
				md.ServerStreaming = proto.Bool(true)
			}
			if len(m.rules) > 0 {
				h := m.rules[0].pb()
				for _, a := range m.rules[1:] {
					h.AdditionalBindings = append(h.AdditionalBindings, a.pb())
				}
				md.Options = &descriptorpb.MethodOptions{}
				proto.SetExtension(md.Options, annotations.E_Http, h)
			}
			sd.Method = append(sd.Method, md)
		}
		fd.Service = append(fd.Service, sd)
	}
	return fd
}

func (f *fileT) bytes() []byte {
	if f.raw == nil {
		b, err := proto.MarshalOptions{Deterministic: true}.Marshal(f.pb())
		if err != nil {
			panic(err)
		}
		f.raw = b
	}
	return f.raw
}

func (f *fileT) defines(svc string) bool {
	for _, s := range f.svcs {
		if s.full == svc {
			return true
		}
	}
	return false
}

// closure returns f and its transitive imports among own files in BFS order, down to maxDepth (<0: unbounded).
func closure(own map[string]*fileT, f *fileT, maxDepth int) []*fileT {
	type qe struct {
		f *fileT
		d int
	}
	seen := map[string]bool{f.name: true}
	out := []*fileT{f}
	q := []qe{{f, 0}}
	for len(q) > 0 {
		cur := q[0]
		q = q[1:]
		if maxDepth >= 0 && cur.d >= maxDepth {
			continue
		}
		for _, d := range cur.f.deps {
			g, ok := own[d]
			if !ok || seen[d] {
				continue
			}
			seen[d] = true
			out = append(out, g)
			q = append(q, qe{g, cur.d + 1})
		}
	}
	return out
}

func sortedKeys[V any](m map[string]V) []string {
	ks := make([]string, 0, len(m))
	for k := range m {
		ks = append(ks, k)
	}
	sort.Strings(ks)
	return ks
}
