package c05

import (
	"context"
	"fmt"
	"hash/fnv"
	"io"
	"math/rand"
	"strconv"
	"strings"
	"sync"

	"github.com/renbou/grpcbridge/grpcadapter"
	"google.golang.org/grpc/codes"
	"google.golang.org/grpc/metadata"
	reflectionpb "google.golang.org/grpc/reflection/grpc_reflection_v1"
	reflectionalphapb "google.golang.org/grpc/reflection/grpc_reflection_v1alpha"
	"google.golang.org/grpc/status"
	"google.golang.org/protobuf/proto"
)

// ---- answering policy of the scripted reflection service ----
//
// text:  <base>.<order>[.d][.x]:<seed>[:<tweak>;<tweak>…]
//   base   on  only the requested file
//          cl  the file and its transitive imports (breadth first)
//          cm  like grpc-go: the file, plus the imports not yet sent on this stream
//          al  every file of the target, every time
//          k1, k2  the file and its imports down to depth 1 / 2
//   order  t as computed, r reversed, s shuffled
//   .d     a file of the answer is repeated inside the answer
//   .x     unrelated files of the target are added (answers leave the closure of the request)
//   tweaks (make the service non-conformant unless noted):
//          omit=<file>            the file is never sent; asked by name → NOT_FOUND
//          hide=<file>            left out of other files' closures, served when asked by name (conformant)
//          wrong=<svc>><file>     FileContainingSymbol(svc) answered with that file('s closure)
//          errs=<svc>><code>      FileContainingSymbol(svc) answered with an ErrorResponse
//          errf=<file>><code>     FileByFilename(file) answered with an ErrorResponse
//          badtype=<key>          that request (s:<svc> / f:<file>) answered with a ListServicesResponse
//          alien=<key>><k>        alien file k added to the answer of that request
//          garbage=<key>          undecodable bytes added to the answer of that request

type policy struct {
	base    string
	order   string
	dup     bool
	extras  bool
	seed    int64
	omit    map[string]bool
	hide    map[string]bool
	wrong   map[string]string
	errs    map[string]int
	errf    map[string]int
	badtype map[string]bool
	alien   map[string]int
	garbage map[string]bool
}

func parsePolicy(s string) *policy {
	p := &policy{omit: map[string]bool{}, hide: map[string]bool{}, wrong: map[string]string{}, errs: map[string]int{},
		errf: map[string]int{}, badtype: map[string]bool{}, alien: map[string]int{}, garbage: map[string]bool{}}
	parts := strings.SplitN(s, ":", 3)
	for i, f := range strings.Split(parts[0], ".") {
		switch {
		case i == 0:
			p.base = f
		case i == 1:
			p.order = f
		case f == "d":
			p.dup = true
		case f == "x":
			p.extras = true
		}
	}
	if len(parts) > 1 {
		p.seed, _ = strconv.ParseInt(parts[1], 10, 64)
	}
	if len(parts) > 2 {
		for _, tw := range splitL(parts[2], ";") {
			k, v, _ := strings.Cut(tw, "=")
			a, b, _ := strings.Cut(v, ">")
			n, _ := strconv.Atoi(b)
			switch k {
			case "omit":
				p.omit[a] = true
			case "hide":
				p.hide[a] = true
			case "wrong":
				p.wrong[a] = b
			case "errs":
				p.errs[a] = n
			case "errf":
				p.errf[a] = n
			case "badtype":
				p.badtype[a] = true
			case "alien":
				p.alien[a] = n
			case "garbage":
				p.garbage[a] = true
			default:
				panic("policy tweak " + k)
			}
		}
	}
	return p
}

// answer of the scripted service to one request
type answer struct {
	kind   byte // 'L' listing, 'F' files, 'e' ErrorResponse, 'r' Recv status error, 'o' other
	names  []string
	files  []*fileT
	code   int
	otag   int
	gbytes bool // an undecodable blob is appended to the files
}

type target struct {
	c      *caseT
	own    map[string]*fileT
	alienI map[*fileT]int
}

func newTarget(c *caseT) *target {
	t := &target{c: c, own: map[string]*fileT{}, alienI: map[*fileT]int{}}
	for _, f := range c.own {
		if _, dup := t.own[f.name]; !dup {
			t.own[f.name] = f
		}
	}
	for i, f := range c.aliens {
		t.alienI[f] = i
	}
	return t
}

func (t *target) fileID(f *fileT) string {
	if i, ok := t.alienI[f]; ok {
		return "@" + strconv.Itoa(i)
	}
	return f.name
}

func reqRand(seed int64, key string) *rand.Rand {
	h := fnv.New64a()
	fmt.Fprintf(h, "%d/%s", seed, key)
	return rand.New(rand.NewSource(int64(h.Sum64())))
}

// answerFiles computes the answer to a FileContainingSymbol / FileByFilename request.
func (t *target) answerFiles(p *policy, sent map[string]bool, kind byte, name string) answer {
	key := string(kind) + ":" + name
	if p.badtype[key] {
		return answer{kind: 'o', otag: 1}
	}
	var f *fileT
	if kind == 's' {
		if c, ok := p.errs[name]; ok {
			return answer{kind: 'e', code: c}
		}
		if w, ok := p.wrong[name]; ok {
			f = t.own[w]
		} else {
			for _, g := range t.c.own {
				if g.defines(name) {
					f = g
					break
				}
			}
		}
	} else {
		if c, ok := p.errf[name]; ok {
			return answer{kind: 'e', code: c}
		}
		if !p.omit[name] {
			f = t.own[name]
		}
	}
	if f == nil {
		return answer{kind: 'e', code: int(codes.NotFound)}
	}
	r := reqRand(p.seed, key)
	var fs []*fileT
	switch p.base {
	case "on":
		fs = []*fileT{f}
	case "cl":
		fs = closure(t.own, f, -1)
	case "k1":
		fs = closure(t.own, f, 1)
	case "k2":
		fs = closure(t.own, f, 2)
	case "cm":
		for i, g := range closure(t.own, f, -1) {
			if i == 0 || !sent[g.name] {
				fs = append(fs, g)
			}
		}
	case "al":
		fs = []*fileT{f}
		for _, g := range t.c.own {
			if g != f && t.own[g.name] == g {
				fs = append(fs, g)
			}
		}
	default:
		panic("policy base " + p.base)
	}
	if p.extras {
		for _, g := range t.c.own {
			if t.own[g.name] == g && r.Intn(3) == 0 {
				fs = append(fs, g)
			}
		}
	}
	// tweaks that remove files
	kept := fs[:0:0]
	for i, g := range fs {
		if p.omit[g.name] {
			continue
		}
		if p.hide[g.name] && !(i == 0 && kind == 'f') {
			continue
		}
		kept = append(kept, g)
	}
	fs = kept
	switch p.order {
	case "r":
		for i, j := 0, len(fs)-1; i < j; i, j = i+1, j-1 {
			fs[i], fs[j] = fs[j], fs[i]
		}
	case "s":
		r.Shuffle(len(fs), func(i, j int) { fs[i], fs[j] = fs[j], fs[i] })
	}
	if p.dup && len(fs) > 0 {
		g := fs[r.Intn(len(fs))]
		at := r.Intn(len(fs) + 1)
		fs = append(fs[:at:at], append([]*fileT{g}, fs[at:]...)...)
	}
	if k, ok := p.alien[key]; ok && k < len(t.c.aliens) {
		at := r.Intn(len(fs) + 1)
		fs = append(fs[:at:at], append([]*fileT{t.c.aliens[k]}, fs[at:]...)...)
	}
	for _, g := range fs {
		sent[g.name] = true
	}
	return answer{kind: 'F', files: fs, gbytes: p.garbage[key]}
}

// ---- the fake grpcadapter.ClientPool / ClientConn / ClientStream ----

type fakePool struct {
	mu  sync.Mutex
	t   *target
	cur *pollRun
}

type pollRun struct {
	poll pollT
	pol  *policy
	log  []string
}

func (p *fakePool) Get(string) (grpcadapter.ClientConn, bool) { return p, true }
func (p *fakePool) Close()                                   {}

func (p *fakePool) logf(format string, a ...any) {
	p.cur.log = append(p.cur.log, fmt.Sprintf(format, a...))
}

func (p *fakePool) Stream(ctx context.Context, method string) (grpcadapter.ClientStream, error) {
	p.mu.Lock()
	defer p.mu.Unlock()
	var vi int
	var vname string
	switch method {
	case reflectionpb.ServerReflection_ServerReflectionInfo_FullMethodName:
		vi, vname = 0, "v1"
	case reflectionalphapb.ServerReflection_ServerReflectionInfo_FullMethodName:
		vi, vname = 1, "v1a"
	default:
		return nil, status.Error(codes.Unimplemented, "unknown method "+method)
	}
	mode := p.cur.poll.modes[vi]
	switch mode {
	case "uS":
		p.logf("S=%s:e%d", vname, codes.Unimplemented)
		return nil, status.Error(codes.Unimplemented, "unknown service")
	case "xS":
		p.logf("S=%s:e%d", vname, codes.Unavailable)
		return nil, status.Error(codes.Unavailable, "connection refused")
	}
	p.logf("S=%s:ok", vname)
	return &fakeStream{sess: &session{pool: p, run: p.cur, mode: mode, sent: map[string]bool{}}, alpha: vi == 1,
		reqs: make(chan *reflectionpb.ServerReflectionRequest, 4096), closed: make(chan struct{})}, nil
}

// session is the scripted reflection service's state for one stream.
type session struct {
	pool  *fakePool
	run   *pollRun
	mode  string
	sent  map[string]bool
	nrecv int
}

// handle answers one request (and logs the event). A non-nil error is a gRPC status ending the stream.
func (s *session) handle(req *reflectionpb.ServerReflectionRequest) (*reflectionpb.ServerReflectionResponse, error) {
	s.pool.mu.Lock()
	defer s.pool.mu.Unlock()
	s.nrecv++
	var qs string
	var a answer
	switch r := req.MessageRequest.(type) {
	case *reflectionpb.ServerReflectionRequest_ListServices:
		qs = "l"
		a = answer{kind: 'L', names: s.run.poll.listed}
	case *reflectionpb.ServerReflectionRequest_FileContainingSymbol:
		qs = "s:" + tok(r.FileContainingSymbol)
		a = s.pool.t.answerFiles(s.run.pol, s.sent, 's', r.FileContainingSymbol)
	case *reflectionpb.ServerReflectionRequest_FileByFilename:
		qs = "f:" + tok(r.FileByFilename)
		a = s.pool.t.answerFiles(s.run.pol, s.sent, 'f', r.FileByFilename)
	default:
		qs = "?"
		a = answer{kind: 'e', code: int(codes.Unimplemented)}
	}
	if s.nrecv == 1 {
		switch s.mode {
		case "uR", "uQ", "uS":
			a = answer{kind: 'r', code: int(codes.Unimplemented)}
		case "xR", "xS":
			a = answer{kind: 'r', code: int(codes.Unavailable)}
		case "uE":
			a = answer{kind: 'e', code: int(codes.Unimplemented)}
		}
	}
	resp := &reflectionpb.ServerReflectionResponse{OriginalRequest: req}
	var as string
	switch a.kind {
	case 'L':
		l := &reflectionpb.ListServiceResponse{}
		hx := make([]string, len(a.names))
		for i, n := range a.names {
			l.Service = append(l.Service, &reflectionpb.ServiceResponse{Name: n})
			hx[i] = hexS(n)
		}
		resp.MessageResponse = &reflectionpb.ServerReflectionResponse_ListServicesResponse{ListServicesResponse: l}
		as = "L:" + strings.Join(hx, ",")
	case 'F':
		fr := &reflectionpb.FileDescriptorResponse{}
		ids := make([]string, len(a.files))
		for i, f := range a.files {
			fr.FileDescriptorProto = append(fr.FileDescriptorProto, f.bytes())
			ids[i] = s.pool.t.fileID(f)
		}
		as = "F:" + strings.Join(ids, ",")
		if a.gbytes {
			fr.FileDescriptorProto = append(fr.FileDescriptorProto, []byte{0xff, 0xff, 0xff})
			as = "G:" + strings.Join(ids, ",")
		}
		resp.MessageResponse = &reflectionpb.ServerReflectionResponse_FileDescriptorResponse{FileDescriptorResponse: fr}
	case 'e':
		resp.MessageResponse = &reflectionpb.ServerReflectionResponse_ErrorResponse{ErrorResponse: &reflectionpb.ErrorResponse{ErrorCode: int32(a.code), ErrorMessage: "scripted"}}
		as = "e" + strconv.Itoa(a.code)
	case 'r':
		s.pool.logf("E=%s>r%d", qs, a.code)
		return nil, status.Error(codes.Code(a.code), "scripted")
	case 'o':
		// a response of the wrong type: a ListServicesResponse to a file request
		resp.MessageResponse = &reflectionpb.ServerReflectionResponse_ListServicesResponse{ListServicesResponse: &reflectionpb.ListServiceResponse{}}
		as = "o" + strconv.Itoa(a.otag)
	}
	s.pool.logf("E=%s>%s", qs, as)
	return resp, nil
}

type fakeStream struct {
	sess   *session
	alpha  bool
	reqs   chan *reflectionpb.ServerReflectionRequest
	closed chan struct{}
	once   sync.Once
}

func (s *fakeStream) Header() metadata.MD  { return nil }
func (s *fakeStream) Trailer() metadata.MD { return nil }
func (s *fakeStream) CloseSend()           { s.once.Do(func() { close(s.closed) }) }
func (s *fakeStream) Close()               { s.CloseSend() }

// crossVersion re-encodes a message as the other protocol version's type and back, so that the
// wire compatibility the client relies on ("v1 and v1alpha are exactly the same") is exercised.
func crossVersion(in proto.Message, via proto.Message, out proto.Message) {
	b, err := proto.Marshal(in)
	if err != nil {
		panic(err)
	}
	if err := proto.Unmarshal(b, via); err != nil {
		panic(err)
	}
	b, err = proto.Marshal(via)
	if err != nil {
		panic(err)
	}
	proto.Reset(out)
	if err := proto.Unmarshal(b, out); err != nil {
		panic(err)
	}
}

func (s *fakeStream) Send(ctx context.Context, m proto.Message) error {
	select {
	case <-s.closed:
		return io.EOF
	default:
	}
	req := new(reflectionpb.ServerReflectionRequest)
	if s.alpha {
		crossVersion(m, new(reflectionalphapb.ServerReflectionRequest), req)
	} else {
		proto.Merge(req, m)
	}
	s.reqs <- req
	if s.sess.mode == "uQ" {
		// the refusal has already arrived: Send reports io.EOF, the status is what Recv returns
		s.sess.pool.mu.Lock()
		s.sess.pool.logf("Z=eof")
		s.sess.pool.mu.Unlock()
		return io.EOF
	}
	return nil
}

func (s *fakeStream) Recv(ctx context.Context, m proto.Message) error {
	select {
	case <-s.closed:
		return io.EOF
	default:
	}
	var req *reflectionpb.ServerReflectionRequest
	select {
	case <-s.closed:
		return io.EOF
	case <-ctx.Done():
		return status.FromContextError(ctx.Err()).Err()
	case req = <-s.reqs:
	}
	resp, err := s.sess.handle(req)
	if err != nil {
		return err
	}
	if s.alpha {
		crossVersion(resp, new(reflectionalphapb.ServerReflectionResponse), m)
	} else {
		proto.Reset(m)
		proto.Merge(m, resp)
	}
	return nil
}
