package c05

import (
	"context"
	"fmt"
	"io"
	"math/rand"
	"runtime"
	"strconv"
	"strings"
	"sync"
	"time"

	"github.com/renbou/grpcbridge/reflection"
	"google.golang.org/grpc/codes"
	"google.golang.org/grpc/metadata"
	reflectionpb "google.golang.org/grpc/reflection/grpc_reflection_v1"
	"google.golang.org/grpc/status"
	"google.golang.org/protobuf/proto"
)

// op "pipe": trace validation of reflection/client.go's pipelined execFileDescriptorRequests + close()
// against the LTS GB.C05.Pipe.  The real client runs against a scripted ClientStream every call of
// which PARKS until a scheduler lets it return; the scheduler follows the schedule on the case line.
//
//   pipe n=<n> A=<ans,…> sched=<act,…>
//     ans   F<k> a FileDescriptorResponse with k blobs | e<code> an ErrorResponse | o a response of the wrong type
//     act   s   the parked Send returns nil            S<code>    … returns a status error
//           r   the parked Recv returns the next answer R<code>[b] … returns a status error ([b]: its read stays behind)
//   log:  S+<i> Send(request i) called   S-<i>:ok | S-<i>:x<code> | S-<i>:ctx   it returned
//         R+    Recv called              R-:a<j> | R-:x<code>[b] | R-:ctx | R-:eof
//         ret:ok:<blob ids> | ret:err:<code>     CS CloseSend   CL Close
// The order of the log is the real order of the events (one mutex); it varies with goroutine scheduling,
// the verdict does not.

type pipeRelease struct {
	err  error
	ans  int // index of the answer to deliver, -1: none
	kind string
}

type pipeStream struct {
	mu       sync.Mutex
	log      []string
	answers  []string
	names    []string
	sendPark chan pipeRelease
	recvPark chan pipeRelease
	sendIdx  int  // index of the request of the parked Send, -1: none parked
	recvWait bool // a Recv is parked
	wire     int  // requests whose Send returned nil
	given    int  // answers delivered
	seq      int  // bumped on every event: lets the scheduler detect quiescence
	closing  bool
}

func (p *pipeStream) logf(format string, a ...any) {
	p.log = append(p.log, fmt.Sprintf(format, a...))
	p.seq++
}

func (p *pipeStream) Header() metadata.MD  { return nil }
func (p *pipeStream) Trailer() metadata.MD { return nil }

func (p *pipeStream) CloseSend() {
	p.mu.Lock()
	p.closing = true
	p.logf("CS")
	p.mu.Unlock()
}

func (p *pipeStream) Close() {
	p.mu.Lock()
	p.logf("CL")
	p.mu.Unlock()
}

func (p *pipeStream) Send(ctx context.Context, m proto.Message) error {
	req, _ := m.(*reflectionpb.ServerReflectionRequest)
	idx := -1
	for i, n := range p.names {
		if req.GetFileByFilename() == n {
			idx = i
		}
	}
	p.mu.Lock()
	p.logf("S+%d", idx)
	p.sendIdx = idx
	p.mu.Unlock()
	select {
	case rel := <-p.sendPark:
		p.mu.Lock()
		defer p.mu.Unlock()
		p.sendIdx = -1
		if rel.err != nil {
			p.logf("S-%d:%s", idx, rel.kind)
			return rel.err
		}
		p.wire++
		p.logf("S-%d:ok", idx)
		return nil
	case <-ctx.Done():
		p.mu.Lock()
		defer p.mu.Unlock()
		p.sendIdx = -1
		p.logf("S-%d:ctx", idx)
		return status.FromContextError(ctx.Err()).Err()
	}
}

func (p *pipeStream) Recv(ctx context.Context, m proto.Message) error {
	p.mu.Lock()
	p.logf("R+")
	p.recvWait = true
	p.mu.Unlock()
	select {
	case rel := <-p.recvPark:
		p.mu.Lock()
		defer p.mu.Unlock()
		p.recvWait = false
		if rel.err != nil {
			p.logf("R-:%s", rel.kind)
			return rel.err
		}
		resp := &reflectionpb.ServerReflectionResponse{}
		a := p.answers[rel.ans]
		switch a[0] {
		case 'F':
			k, _ := strconv.Atoi(a[1:])
			fr := &reflectionpb.FileDescriptorResponse{}
			for j := 0; j < k; j++ {
				fr.FileDescriptorProto = append(fr.FileDescriptorProto, []byte{byte(rel.ans), byte(j)})
			}
			resp.MessageResponse = &reflectionpb.ServerReflectionResponse_FileDescriptorResponse{FileDescriptorResponse: fr}
		case 'e':
			c, _ := strconv.Atoi(a[1:])
			resp.MessageResponse = &reflectionpb.ServerReflectionResponse_ErrorResponse{ErrorResponse: &reflectionpb.ErrorResponse{ErrorCode: int32(c), ErrorMessage: "scripted"}}
		default:
			resp.MessageResponse = &reflectionpb.ServerReflectionResponse_ListServicesResponse{ListServicesResponse: &reflectionpb.ListServiceResponse{}}
		}
		p.given++
		p.logf("R-:a%d", rel.ans)
		proto.Reset(m)
		proto.Merge(m, resp)
		return nil
	case <-ctx.Done():
		p.mu.Lock()
		defer p.mu.Unlock()
		p.recvWait = false
		p.logf("R-:ctx")
		return status.FromContextError(ctx.Err()).Err()
	}
}

// settle waits until the client's goroutines have stopped making progress (parked or exited).
func (p *pipeStream) settle(done *bool) {
	last, same := -1, 0
	for i := 0; i < 4000 && same < 6; i++ {
		runtime.Gosched()
		time.Sleep(15 * time.Microsecond)
		p.mu.Lock()
		cur := p.seq
		if *done {
			cur += 1 << 20
		}
		p.mu.Unlock()
		if cur == last {
			same++
		} else {
			last, same = cur, 0
		}
	}
}

func pipeExec(input string) string {
	var n int
	var answers, sched []string
	for _, f := range strings.Fields(input)[1:] {
		k, v, _ := strings.Cut(f, "=")
		switch k {
		case "n":
			n, _ = strconv.Atoi(v)
		case "A":
			answers = splitL(v, ",")
		case "sched":
			sched = splitL(v, ",")
		}
	}
	if len(answers) != n {
		panic("pipe: answers")
	}
	p := &pipeStream{answers: answers, sendPark: make(chan pipeRelease), recvPark: make(chan pipeRelease), sendIdx: -1}
	for i := 0; i < n; i++ {
		p.names = append(p.names, fmt.Sprintf("f%d.proto", i))
	}
	vc := reflection.VerifNewClient(p, 20*time.Second)

	var res [][]byte
	var rerr error
	done := false
	go func() {
		r, e := vc.FileDescriptorsByFilenames(p.names)
		p.mu.Lock()
		res, rerr, done = r, e, true
		p.mu.Unlock()
	}()
	// apply performs one scheduler action if it is applicable now; reports whether it was
	apply := func(act string) bool {
		p.mu.Lock()
		sendParked, recvParked, wire, given := p.sendIdx >= 0, p.recvWait, p.wire, p.given
		p.mu.Unlock()
		switch act[0] {
		case 's':
			if !sendParked {
				return false
			}
			select {
			case p.sendPark <- pipeRelease{}:
				return true
			case <-time.After(50 * time.Millisecond):
				return false
			}
		case 'S':
			if !sendParked {
				return false
			}
			c, _ := strconv.Atoi(act[1:])
			select {
			case p.sendPark <- pipeRelease{err: status.Error(codes.Code(c), "scripted send fault"), kind: "x" + act[1:]}:
				return true
			case <-time.After(50 * time.Millisecond):
				return false
			}
		case 'r':
			if !recvParked || given >= wire || given >= n {
				return false // the target cannot answer a request it has not received
			}
			select {
			case p.recvPark <- pipeRelease{ans: given}:
				return true
			case <-time.After(50 * time.Millisecond):
				return false
			}
		case 'R':
			if !recvParked {
				return false
			}
			code := strings.TrimSuffix(act[1:], "b")
			c, _ := strconv.Atoi(code)
			select {
			case p.recvPark <- pipeRelease{err: status.Error(codes.Code(c), "scripted recv fault"), kind: "x" + act[1:]}:
				return true
			case <-time.After(50 * time.Millisecond):
				return false
			}
		}
		return false
	}
	isDone := func() bool {
		p.mu.Lock()
		defer p.mu.Unlock()
		return done
	}
	p.settle(&done)
	for _, act := range sched {
		if isDone() {
			break
		}
		if apply(act) {
			p.settle(&done)
		}
	}
	// the schedule is used up: let everything that is parked return normally until the call returns
	for i := 0; i < 10*n+20 && !isDone(); i++ {
		if !apply("s") && !apply("r") {
			p.settle(&done)
		} else {
			p.settle(&done)
		}
	}
	if !isDone() {
		p.mu.Lock()
		defer p.mu.Unlock()
		return strings.Join(append(p.log, "hang"), " ")
	}
	p.mu.Lock()
	if rerr != nil {
		p.logf("ret:err:%d", int(status.Code(rerr)))
	} else {
		ids := make([]string, len(res))
		for i, b := range res {
			if len(b) == 2 {
				ids[i] = fmt.Sprintf("%d.%d", b[0], b[1])
			} else {
				ids[i] = "?"
			}
		}
		p.logf("ret:ok:%s", strings.Join(ids, "+"))
	}
	p.mu.Unlock()

	// close(): CloseSend, a graceful Recv (answered with EOF) unless a call has failed, Close
	closed := false
	go func() {
		vc.Close()
		p.mu.Lock()
		closed = true
		p.seq++
		p.mu.Unlock()
	}()
	for i := 0; i < 200; i++ {
		p.settle(&closed)
		p.mu.Lock()
		c, rp := closed, p.recvWait
		p.mu.Unlock()
		if c {
			break
		}
		if rp {
			select {
			case p.recvPark <- pipeRelease{err: io.EOF, kind: "eof"}:
			case <-time.After(50 * time.Millisecond):
			}
		}
	}
	p.mu.Lock()
	defer p.mu.Unlock()
	if !closed {
		return strings.Join(append(p.log, "hang"), " ")
	}
	return strings.Join(p.log, " ")
}

func pipeLine(n int, answers, sched []string) string {
	return fmt.Sprintf("pipe n=%d A=%s sched=%s", n, strings.Join(answers, ","), strings.Join(sched, ","))
}

func genPipe(r *rand.Rand, tier string, emit func(string)) {
	// every s/r schedule of length ≤ 6 for two healthy answers, and with an aborting answer first / last
	for _, ans := range [][]string{{"F1", "F2"}, {"e5", "F1"}, {"F1", "o"}, {"F0", "e12"}} {
		var rec func(pre []string)
		rec = func(pre []string) {
			if len(pre) == 5 {
				emit(pipeLine(2, ans, pre))
				return
			}
			rec(append(append([]string{}, pre...), "s"))
			rec(append(append([]string{}, pre...), "r"))
		}
		rec(nil)
	}
	emit(pipeLine(0, nil, nil))
	emit(pipeLine(1, []string{"F1"}, []string{"s", "R4b"}))  // the Recv times out, its read stays behind: close() must not read
	emit(pipeLine(1, []string{"F1"}, []string{"S4"}))        // the Send times out
	emit(pipeLine(2, []string{"F1", "F1"}, []string{"s", "r", "R14"}))
	emit(pipeLine(3, []string{"F1", "e5", "F1"}, []string{"s", "s", "s", "r", "r"}))
	cnt := 150
	if tier == "thorough" {
		cnt = 1500
	}
	for c := 0; c < cnt; c++ {
		n := 1 + r.Intn(5)
		ans := make([]string, n)
		for i := range ans {
			switch k := r.Intn(12); {
			case k < 9:
				ans[i] = fmt.Sprintf("F%d", r.Intn(3))
			case k < 10:
				ans[i] = []string{"e5", "e12", "e13"}[r.Intn(3)]
			case k < 11:
				ans[i] = "o"
			default:
				ans[i] = "F1"
			}
		}
		var sched []string
		faulty := r.Intn(4) == 0
		for i := 0; i < 2*n+r.Intn(4); i++ {
			switch {
			case faulty && r.Intn(8) == 0:
				sched = append(sched, []string{"S4", "S14", "R4b", "R14", "R4b", "R12"}[r.Intn(6)])
			case r.Intn(2) == 0:
				sched = append(sched, "s")
			default:
				sched = append(sched, "r")
			}
		}
		count("pipe")
		emit(pipeLine(n, ans, sched))
	}
}
