package c05

import (
	"context"
	"errors"
	"io"
	"net"

	"github.com/renbou/grpcbridge/grpcadapter"
	"google.golang.org/grpc"
	"google.golang.org/grpc/codes"
	"google.golang.org/grpc/credentials/insecure"
	reflectionpb "google.golang.org/grpc/reflection/grpc_reflection_v1"
	reflectionalphapb "google.golang.org/grpc/reflection/grpc_reflection_v1alpha"
	"google.golang.org/grpc/status"
	"google.golang.org/grpc/test/bufconn"
)

// wirePool serves the scripted reflection service over a real gRPC connection (bufconn), reached
// through the bridge's own grpcadapter.AdaptedClientPool: real HTTP/2 framing, real pipelining of
// the client's sender/receiver goroutines, real protobuf encoding of both protocol versions.
type wirePool struct {
	*grpcadapter.AdaptedClientPool
	srv  *grpc.Server
	lis  *bufconn.Listener
	ctrl *grpcadapter.AdaptedClientPoolController
	name string
}

func (w *wirePool) Get(string) (grpcadapter.ClientConn, bool) { return w.AdaptedClientPool.Get(w.name) }

func newWirePool(fp *fakePool) *wirePool {
	lis := bufconn.Listen(1 << 20)
	srv := grpc.NewServer(grpc.UnknownServiceHandler(func(_ any, ss grpc.ServerStream) error {
		method, _ := grpc.MethodFromServerStream(ss)
		var vi int
		var vname string
		switch method {
		case reflectionpb.ServerReflection_ServerReflectionInfo_FullMethodName:
			vi, vname = 0, "v1"
		case reflectionalphapb.ServerReflection_ServerReflectionInfo_FullMethodName:
			vi, vname = 1, "v1a"
		default:
			return status.Error(codes.Unimplemented, "unknown method")
		}
		fp.mu.Lock()
		run := fp.cur
		fp.logf("S=%s:ok", vname)
		fp.mu.Unlock()
		sess := &session{pool: fp, run: run, mode: run.poll.modes[vi], sent: map[string]bool{}}
		for {
			req := new(reflectionpb.ServerReflectionRequest)
			if vi == 1 {
				areq := new(reflectionalphapb.ServerReflectionRequest)
				if err := ss.RecvMsg(areq); err != nil {
					return endOfStream(err)
				}
				crossVersion(areq, new(reflectionalphapb.ServerReflectionRequest), req)
			} else if err := ss.RecvMsg(req); err != nil {
				return endOfStream(err)
			}
			resp, err := sess.handle(req)
			if err != nil {
				return err
			}
			if vi == 1 {
				aresp := new(reflectionalphapb.ServerReflectionResponse)
				crossVersion(resp, new(reflectionpb.ServerReflectionResponse), aresp)
				if err := ss.SendMsg(aresp); err != nil {
					return err
				}
			} else if err := ss.SendMsg(resp); err != nil {
				return err
			}
		}
	}))
	go func() { _ = srv.Serve(lis) }()
	pool := grpcadapter.NewAdaptedClientPool(grpcadapter.AdaptedClientPoolOpts{
		DefaultOpts: []grpc.DialOption{
			grpc.WithTransportCredentials(insecure.NewCredentials()),
			grpc.WithContextDialer(func(ctx context.Context, s string) (net.Conn, error) { return lis.Dial() }),
		},
	})
	ctrl, err := pool.New("c05wire", "passthrough:///c05wire")
	if err != nil {
		panic(err)
	}
	return &wirePool{AdaptedClientPool: pool, srv: srv, lis: lis, ctrl: ctrl, name: "c05wire"}
}

func endOfStream(err error) error {
	if errors.Is(err, io.EOF) {
		return nil
	}
	return err
}

func (w *wirePool) close() {
	w.ctrl.Close()
	w.srv.Stop()
	_ = w.lis.Close()
}
