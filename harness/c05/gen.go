package c05

import (
	"math/rand"
)

var gstats = map[string]int{}

func genStats() map[string]any {
	m := map[string]any{}
	for k, v := range gstats {
		m[k] = v
	}
	return m
}

func (Area) Gen(r *rand.Rand, tier string, emit func(string)) {
	for _, l := range edgeCases() {
		emit(l)
	}
}

func edgeCases() []string {
	m := func(name, in, out string) methodT { return methodT{name: name, in: in, out: out} }
	a := &fileT{name: "a.proto", pkg: "a", deps: []string{"c.proto"}, svcs: []svcT{{full: "a.A", methods: []methodT{m("Do", "c.M", "c.M")}}}}
	b := &fileT{name: "b.proto", pkg: "b", deps: []string{"c.proto"}, svcs: []svcT{{full: "b.B", methods: []methodT{m("Do", "c.M", "c.M")}}}}
	c := &fileT{name: "c.proto", pkg: "c", msgs: []string{"c.M"}}
	var out []string
	for _, pol := range []string{"cl.t:1", "on.t:1", "cm.t:1", "al.s:1", "cl.s.d:2"} {
		cs := &caseT{own: []*fileT{a, b, c}, polls: []pollT{{modes: [2]string{"ok", "ok"}, listed: []string{"a.A", "b.B"}, pol: pol}}}
		out = append(out, cs.enc())
	}
	return out
}
