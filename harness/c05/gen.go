package c05

import (
	"fmt"
	"math/rand"
	"strings"
	"sync"
)

var (
	gmu    sync.Mutex
	gstats = map[string]int{}
)

func count(k string) {
	gmu.Lock()
	gstats[k]++
	gmu.Unlock()
}

func genStats() map[string]any {
	gmu.Lock()
	defer gmu.Unlock()
	m := map[string]any{}
	for k, v := range gstats {
		m[k] = v
	}
	return m
}

func (Area) Gen(r *rand.Rand, tier string, emit func(string)) {
	for _, l := range edgeCases() {
		emit(l)
	}
	genPipe(r, tier, emit)
	genNf(r, tier, emit)
	genHist(r, tier, emit)
	n := 3000
	if tier == "thorough" {
		n = 30000
	}
	for i := 0; i < n; i++ {
		emit(randomCase(r, tier).enc())
	}
}

var (
	patterns  = []string{"/v1/items", "/v1/items/{id}", "/v1/{name=shelves/*}/books", "/v1/a/{b.c}:verb", "/v1/x/**", "/", "/v2/{a}/{b=**}:undelete", ""}
	bodies    = []string{"", "*", "item", "a.b"}
	resps     = []string{"", "", "result", "r.s"}
	verbs     = []string{"HEAD", "OPTIONS", "*", "", "LIST", "get"}
	ruleKinds = []string{"get", "put", "post", "delete", "patch", "c", "get", "post", "none"}
	invalids  = []string{"", ".", "a..b", ".a.B", "a.B.", "1a.B", "a.2B", "a b", "a-b.C", "a.B/C", "é.B", "a.B\x00"}
	admins    = []string{"grpc.reflection.v1.ServerReflection", "grpc.reflection.v1alpha.ServerReflection", "grpc.health.v1.Health", "grpc.channelz.v1.Channelz", "grpc.X"}
	wellKnown = []string{"google/api/annotations.proto", "google/api/http.proto", "google/protobuf/descriptor.proto", "google/protobuf/empty.proto"}
)

func randRule(r *rand.Rand) ruleT {
	k := ruleKinds[r.Intn(len(ruleKinds))]
	ru := ruleT{kind: k, body: bodies[r.Intn(len(bodies))], resp: resps[r.Intn(len(resps))]}
	if k != "none" {
		ru.pattern = patterns[r.Intn(len(patterns))]
	}
	if k == "c" {
		ru.verb = verbs[r.Intn(len(verbs))]
	}
	return ru
}

// bfsDepth is the number of breadth-first import levels below the given root files.
func bfsDepth(files []*fileT, roots []string) int {
	by := map[string]*fileT{}
	for _, f := range files {
		if _, ok := by[f.name]; !ok {
			by[f.name] = f
		}
	}
	seen := map[string]bool{}
	cur := []string{}
	for _, n := range roots {
		if !seen[n] {
			seen[n] = true
			cur = append(cur, n)
		}
	}
	depth := 0
	for len(cur) > 0 {
		var next []string
		for _, n := range cur {
			f := by[n]
			if f == nil {
				continue
			}
			for _, d := range f.deps {
				if !seen[d] {
					seen[d] = true
					next = append(next, d)
				}
			}
		}
		if len(next) > 0 {
			depth++
		}
		cur = next
	}
	return depth
}

func rawLimit(eff int) int {
	if eff <= 0 {
		return -1
	}
	return eff
}

func randomCase(r *rand.Rand, tier string) *caseT {
	c := &caseT{}
	n := 1 + r.Intn(8)
	shape := []string{"dag", "dag", "chain", "star", "diamond", "forest"}[r.Intn(6)]
	count("shape:" + shape)
	count(fmt.Sprintf("files:%d", n))
	files := make([]*fileT, n)
	sharedPkg := r.Intn(4) == 0
	for i := range files {
		f := &fileT{name: fmt.Sprintf("d%d/f%d.proto", i%3, i), pkg: fmt.Sprintf("p%d", i)}
		if sharedPkg && r.Intn(2) == 0 {
			f.pkg = "shared.v1"
		} else if r.Intn(4) == 0 {
			f.pkg = fmt.Sprintf("org.p%d.v%d", i, 1+r.Intn(2))
		}
		files[i] = f
	}
	if n >= 3 && r.Intn(4) == 0 { // the usual annotation imports: every service file shares them
		files[n-1].name, files[n-1].pkg = wellKnown[2], "google.protobuf"
		files[n-2].name, files[n-2].pkg = wellKnown[1], "google.api"
	}
	edge := func(i, j int) {
		for _, d := range files[i].deps {
			if d == files[j].name {
				return
			}
		}
		files[i].deps = append(files[i].deps, files[j].name)
	}
	switch shape {
	case "chain":
		for i := 0; i+1 < n; i++ {
			edge(i, i+1)
		}
	case "star":
		for i := 0; i+1 < n; i++ {
			edge(i, n-1)
		}
	case "diamond":
		if n >= 4 {
			edge(0, 1)
			edge(0, 2)
			edge(1, 3)
			edge(2, 3)
			for i := 4; i < n; i++ {
				edge(r.Intn(i), i)
			}
		} else {
			for i := 0; i+1 < n; i++ {
				edge(i, i+1)
			}
			if n == 3 {
				edge(0, 2)
			}
		}
	case "forest":
		for i := 1; i < n; i++ {
			if r.Intn(3) > 0 {
				edge(r.Intn(i), i)
			}
		}
	default:
		for i := 0; i < n; i++ {
			for j := i + 1; j < n; j++ {
				if r.Intn(10) < 3 {
					edge(i, j)
				}
			}
		}
	}
	by := map[string]*fileT{}
	for _, f := range files {
		by[f.name] = f
	}
	// messages
	for i, f := range files {
		for k := 0; k < r.Intn(3); k++ {
			f.msgs = append(f.msgs, fmt.Sprintf("%s.M%d_%d", f.pkg, i, k))
		}
	}
	// services: the roots of the DAG carry most of them
	var svcFiles []*fileT
	for i, f := range files {
		p := 15
		if i == 0 {
			p = 90
		} else if i < n/2 {
			p = 45
		}
		if r.Intn(100) >= p {
			continue
		}
		visible := func() []string {
			v := append([]string(nil), f.msgs...)
			for _, d := range f.deps {
				v = append(v, by[d].msgs...)
			}
			return v
		}
		if len(visible()) == 0 {
			f.msgs = append(f.msgs, fmt.Sprintf("%s.M%d_x", f.pkg, i))
		}
		vis := visible()
		for k := 0; k < 1+r.Intn(2); k++ {
			sv := svcT{full: fmt.Sprintf("%s.S%d_%d", f.pkg, i, k)}
			for m := 0; m < r.Intn(4); m++ {
				mt := methodT{name: fmt.Sprintf("Call%d", m), in: vis[r.Intn(len(vis))], out: vis[r.Intn(len(vis))], cs: r.Intn(2) == 0, ss: r.Intn(2) == 0}
				if r.Intn(2) == 0 {
					mt.rules = append(mt.rules, randRule(r))
					for a := 0; a < r.Intn(3); a++ {
						mt.rules = append(mt.rules, randRule(r))
					}
				}
				sv.methods = append(sv.methods, mt)
			}
			f.svcs = append(f.svcs, sv)
		}
		svcFiles = append(svcFiles, f)
	}
	c.own = files

	// ill-formed descriptor sets: file-level (dangling import, cycle, duplicate file name) and
	// symbol-level (duplicate symbol; a method type defined nowhere; a method type defined in a file
	// that is served but not imported) — the latter are what a stale shared .proto looks like
	if r.Intn(5) == 0 {
		// breakType points one type of one method of a service file at `typ`
		breakType := func(typ func(f *fileT) string) bool {
			if len(svcFiles) == 0 {
				return false
			}
			f := svcFiles[r.Intn(len(svcFiles))]
			t := typ(f)
			if t == "" {
				return false
			}
			sv := &f.svcs[r.Intn(len(f.svcs))]
			if len(sv.methods) == 0 {
				sv.methods = append(sv.methods, methodT{name: "Call0", in: t, out: t, ss: r.Intn(2) == 0})
				return true
			}
			m := &sv.methods[r.Intn(len(sv.methods))]
			if r.Intn(2) == 0 {
				m.in = t
			} else {
				m.out = t
			}
			return true
		}
		nowhere := func(f *fileT) string {
			if r.Intn(2) == 0 {
				return f.pkg + ".Gone" // same package, declared in no file
			}
			return "nope.Missing"
		}
		switch k := r.Intn(8); k {
		case 0:
			count("illformed:dangling")
			f := files[r.Intn(n)]
			f.deps = append(f.deps, "nowhere/missing.proto")
		case 1:
			count("illformed:cycle")
			i := r.Intn(n)
			if len(files[i].deps) > 0 && r.Intn(2) == 0 {
				d := by[files[i].deps[0]]
				d.deps = append(d.deps, files[i].name)
			} else {
				files[i].deps = append(files[i].deps, files[i].name)
			}
		case 2:
			count("illformed:dupsymbol")
			i, j := r.Intn(n), r.Intn(n)
			if i != j && len(files[i].msgs) > 0 {
				files[j].pkg = files[i].pkg
				// re-home the symbols of j into the package, then declare one of i's messages again
				rehome(files[j], files)
				files[j].msgs = append(files[j].msgs, files[i].msgs[0])
			}
		case 3:
			count("illformed:dupfile")
			if n >= 2 {
				g := *files[n-1]
				g.raw = nil
				g.name = files[0].name
				c.own = append(c.own, &g)
			}
		case 4, 5:
			if breakType(nowhere) {
				count("illformed:type-nowhere")
			}
		default:
			moved := func(f *fileT) string {
				var cands []*fileT
				for _, g := range files {
					if g == f {
						continue
					}
					imported := false
					for _, d := range f.deps {
						imported = imported || d == g.name
					}
					if !imported {
						cands = append(cands, g)
					}
				}
				if len(cands) == 0 {
					return ""
				}
				g := cands[r.Intn(len(cands))]
				if len(g.msgs) == 0 {
					g.msgs = append(g.msgs, g.pkg+".Moved")
				}
				return g.msgs[r.Intn(len(g.msgs))]
			}
			if breakType(moved) {
				count("illformed:type-moved")
			} else if breakType(nowhere) {
				count("illformed:type-nowhere")
			}
		}
	}

	// what ListServices reports
	var listed []string
	for _, f := range svcFiles {
		if r.Intn(6) == 0 && len(svcFiles) > 1 {
			continue // defined but not served
		}
		for _, s := range f.svcs {
			listed = append(listed, s.full)
		}
	}
	r.Shuffle(len(listed), func(i, j int) { listed[i], listed[j] = listed[j], listed[i] })
	inject := func(s string) {
		at := r.Intn(len(listed) + 1)
		listed = append(listed[:at:at], append([]string{s}, listed[at:]...)...)
	}
	if r.Intn(3) == 0 {
		for k := 0; k < 1+r.Intn(3); k++ {
			switch r.Intn(4) {
			case 0:
				if len(listed) > 0 {
					count("listed:duplicate")
					inject(listed[r.Intn(len(listed))])
				}
			case 1:
				count("listed:invalid")
				inject(invalids[r.Intn(len(invalids))])
			case 2:
				count("listed:admin")
				inject(admins[r.Intn(len(admins))])
			case 3:
				if r.Intn(4) == 0 {
					count("listed:undefined")
					inject("undefined.Service")
				}
			}
		}
	}
	switch r.Intn(12) {
	case 0:
		c.ign = []string{files[0].pkg + "."}
		count("ignore:pkg")
	case 1:
		c.ign = []string{"zz", "org."}
		count("ignore:other")
	case 2:
		if r.Intn(3) == 0 {
			c.ign = []string{""}
			count("ignore:empty")
		}
	}
	c.only = r.Intn(25) == 0

	// the recursion limit around the breadth-first depth actually needed
	var roots []string
	for _, f := range svcFiles {
		roots = append(roots, f.name)
	}
	depth := bfsDepth(c.own, roots)
	switch r.Intn(10) {
	case 0, 1:
		c.lim = rawLimit(depth)
		count("limit:exact")
	case 2:
		c.lim = rawLimit(depth - 1)
		count("limit:below")
	case 3:
		c.lim = rawLimit(depth + 1)
		count("limit:above")
	case 4:
		c.lim = rawLimit(r.Intn(4))
		count("limit:small")
	case 5:
		c.lim = len(c.own)
		count("limit:files")
	default:
		c.lim = 0
		count("limit:default")
	}

	npolls := []int{1, 1, 1, 1, 2, 2, 3}[r.Intn(7)]
	for p := 0; p < npolls; p++ {
		pl := pollT{listed: listed}
		if p > 0 && r.Intn(2) == 0 && len(listed) > 0 {
			l2 := append([]string(nil), listed...)
			if r.Intn(2) == 0 {
				l2 = l2[:len(l2)-1]
			} else {
				l2 = append(l2, admins[r.Intn(len(admins))])
			}
			pl.listed = l2
		}
		um := []string{"uS", "uR", "uE", "uQ"}
		xm := []string{"xS", "xR"}
		switch k := r.Intn(20); {
		case k < 8:
			pl.modes = [2]string{"ok", "ok"}
		case k < 12:
			pl.modes = [2]string{um[r.Intn(4)], "ok"}
		case k < 16:
			pl.modes = [2]string{"ok", um[r.Intn(4)]}
		case k < 17:
			pl.modes = [2]string{um[r.Intn(4)], um[r.Intn(4)]}
		case k < 18:
			pl.modes = [2]string{xm[r.Intn(2)], "ok"}
		case k < 19:
			pl.modes = [2]string{"ok", xm[r.Intn(2)]}
		default:
			pl.modes = [2]string{um[r.Intn(4)], xm[r.Intn(2)]}
		}
		count("modes:" + pl.modes[0][:1] + pl.modes[1][:1])
		base := []string{"on", "cl", "cm", "al", "k1", "k2", "cl", "cm"}[r.Intn(8)]
		order := []string{"t", "r", "s"}[r.Intn(3)]
		pol := base + "." + order
		if r.Intn(4) == 0 {
			pol += ".d"
		}
		if r.Intn(6) == 0 {
			pol += ".x"
		}
		count("policy:" + base)
		pol += fmt.Sprintf(":%d", r.Intn(1000))
		if r.Intn(4) == 0 {
			anyFile := c.own[r.Intn(len(c.own))].name
			anySvc := "undefined.Service"
			if len(listed) > 0 {
				anySvc = listed[r.Intn(len(listed))]
			}
			key := "f:" + anyFile
			if r.Intn(2) == 0 {
				key = "s:" + anySvc
			}
			code := []int{5, 12, 13, 3}[r.Intn(4)]
			var tw string
			switch r.Intn(8) {
			case 0:
				tw = "omit=" + anyFile
			case 1:
				tw = "hide=" + anyFile
			case 2:
				tw = "wrong=" + anySvc + ">" + anyFile
			case 3:
				tw = fmt.Sprintf("errs=%s>%d", anySvc, code)
			case 4:
				tw = fmt.Sprintf("errf=%s>%d", anyFile, code)
			case 5:
				tw = "badtype=" + key
			case 6:
				al := &fileT{name: fmt.Sprintf("alien/x%d.proto", len(c.aliens)), pkg: "alien"}
				switch r.Intn(4) {
				case 0:
					al.deps = []string{anyFile}
				case 1:
					al.deps = []string{"alien/unknown.proto"}
				case 2:
					al.name = anyFile // an impostor: same name, other content
					al.msgs = []string{"alien.Impostor"}
				}
				c.aliens = append(c.aliens, al)
				tw = fmt.Sprintf("alien=%s>%d", key, len(c.aliens)-1)
			case 7:
				tw = "garbage=" + key
			}
			if strings.ContainsAny(tw, " |") || strings.Contains(tw, "=-") && strings.HasSuffix(tw, "=") {
				tw = ""
			}
			if tw != "" {
				k, _, _ := strings.Cut(tw, "=")
				count("tweak:" + k)
				pol += ":" + tw
			}
		}
		pl.pol = pol
		c.polls = append(c.polls, pl)
	}
	wireP := 12
	if tier == "thorough" {
		wireP = 25
	}
	if r.Intn(wireP) == 0 {
		c.wire = true
		count("wire")
	}
	// names that cannot travel on the case line are not generated; make sure of it
	for _, f := range append(append([]*fileT{}, c.own...), c.aliens...) {
		if strings.ContainsAny(f.enc(), " \t\n") {
			panic("unencodable file " + f.enc())
		}
	}
	return c
}

// rehome renames the symbols of f (and their uses in all files) into f's current package.
func rehome(f *fileT, all []*fileT) {
	ren := map[string]string{}
	for i, m := range f.msgs {
		nn := f.pkg + "." + m[strings.LastIndexByte(m, '.')+1:]
		ren[m] = nn
		f.msgs[i] = nn
	}
	for i := range f.svcs {
		s := &f.svcs[i]
		s.full = f.pkg + "." + s.full[strings.LastIndexByte(s.full, '.')+1:]
	}
	for _, g := range all {
		for i := range g.svcs {
			for j := range g.svcs[i].methods {
				m := &g.svcs[i].methods[j]
				if nn, ok := ren[m.in]; ok {
					m.in = nn
				}
				if nn, ok := ren[m.out]; ok {
					m.out = nn
				}
			}
		}
	}
}

func edgeCases() []string {
	m := func(name, in, out string) methodT { return methodT{name: name, in: in, out: out} }
	both := [2]string{"ok", "ok"}
	mk := func() (*fileT, *fileT, *fileT) {
		a := &fileT{name: "a.proto", pkg: "a", deps: []string{"c.proto"}, svcs: []svcT{{full: "a.A", methods: []methodT{m("Do", "c.M", "c.M")}}}}
		b := &fileT{name: "b.proto", pkg: "b", deps: []string{"c.proto"}, svcs: []svcT{{full: "b.B", methods: []methodT{m("Do", "c.M", "c.M")}}}}
		c := &fileT{name: "c.proto", pkg: "c", msgs: []string{"c.M"}}
		return a, b, c
	}
	var out []string
	add := func(c *caseT) { out = append(out, c.enc()) }
	// D5: two services whose files share an import, under every answering policy
	for _, pol := range []string{"cl.t:1", "on.t:1", "cm.t:1", "al.s:1", "cl.s.d:2", "cl.r:3", "k1.t:1"} {
		a, b, c := mk()
		add(&caseT{own: []*fileT{a, b, c}, polls: []pollT{{modes: both, listed: []string{"a.A", "b.B"}, pol: pol}}})
		a, b, c = mk()
		add(&caseT{wire: true, own: []*fileT{a, b, c}, polls: []pollT{{modes: [2]string{"uS", "ok"}, listed: []string{"a.A", "b.B"}, pol: pol}}})
	}
	// chains against the recursion limit: depth 3, limits 2, 3, 4, and closure answers with limit "0"
	chain := func() []*fileT {
		return []*fileT{
			{name: "s.proto", pkg: "s", deps: []string{"x1.proto"}, svcs: []svcT{{full: "s.S", methods: []methodT{{name: "Get", in: "x3.M", out: "x3.M", ss: true}}}}, msgs: nil},
			{name: "x1.proto", pkg: "x1", deps: []string{"x2.proto"}},
			{name: "x2.proto", pkg: "x2", deps: []string{"x3.proto"}},
			{name: "x3.proto", pkg: "x3", msgs: []string{"x3.M"}},
		}
	}
	for _, lim := range []int{2, 3, 4, -1} {
		for _, pol := range []string{"on.t:1", "cl.t:1", "k1.t:1"} {
			fs := chain()
			fs[0].svcs[0].methods[0].in, fs[0].svcs[0].methods[0].out = "s.Q", "s.Q"
			fs[0].msgs = []string{"s.Q"}
			add(&caseT{lim: lim, own: fs, polls: []pollT{{modes: both, listed: []string{"s.S"}, pol: pol}}})
		}
	}
	// listing: duplicates, invalid names, administrative services, an ignore prefix
	{
		a, b, c := mk()
		add(&caseT{ign: []string{"b."}, own: []*fileT{a, b, c}, polls: []pollT{{modes: both,
			listed: []string{"grpc.reflection.v1.ServerReflection", "a.A", "", "a.A", "a..A", "b.B", "grpc.health.v1.Health", "1x.Y"}, pol: "cm.t:1"}}})
	}
	// version fallback across polls: v1 disappears, comes back; both gone
	{
		a, b, c := mk()
		add(&caseT{own: []*fileT{a, b, c}, polls: []pollT{
			{modes: [2]string{"uR", "ok"}, listed: []string{"a.A"}, pol: "cl.t:1"},
			{modes: [2]string{"ok", "uS"}, listed: []string{"a.A", "b.B"}, pol: "cl.t:1"},
			{modes: [2]string{"uE", "uQ"}, listed: []string{"a.A"}, pol: "cl.t:1"},
			{modes: [2]string{"ok", "ok"}, listed: []string{"a.A", "b.B"}, pol: "on.t:1"},
			{modes: [2]string{"ok", "ok"}, listed: []string{"a.A"}, pol: "on.t:1"},
		}})
	}
	// all four streaming kinds and every binding form
	{
		f := &fileT{name: "api/lib.proto", pkg: "lib.v1", msgs: []string{"lib.v1.Req", "lib.v1.Res"}, svcs: []svcT{{full: "lib.v1.Library", methods: []methodT{
			{name: "Unary", in: "lib.v1.Req", out: "lib.v1.Res", rules: []ruleT{{kind: "get", pattern: "/v1/{name=shelves/*}"}, {kind: "post", pattern: "/v1/shelves", body: "*"}, {kind: "c", verb: "HEAD", pattern: "/v1/x", resp: "r"}}},
			{name: "Up", in: "lib.v1.Req", out: "lib.v1.Res", cs: true, rules: []ruleT{{kind: "put", pattern: "/up", body: "item", resp: "result"}}},
			{name: "Down", in: "lib.v1.Req", out: "lib.v1.Res", ss: true, rules: []ruleT{{kind: "delete", pattern: "/down/{id}"}, {kind: "patch", pattern: "/down", body: "a.b"}}},
			{name: "Bidi", in: "lib.v1.Res", out: "lib.v1.Req", cs: true, ss: true, rules: []ruleT{{kind: "none", body: "*"}}},
			{name: "Plain", in: "lib.v1.Req", out: "lib.v1.Req"},
		}}, {full: "lib.v1.Empty"}}}
		add(&caseT{own: []*fileT{f}, polls: []pollT{{modes: both, listed: []string{"lib.v1.Library", "lib.v1.Empty"}, pol: "on.t:1"}}})
		g := *f
		g.raw = nil
		add(&caseT{only: true, own: []*fileT{&g}, polls: []pollT{{modes: both, listed: []string{"lib.v1.Library", "lib.v1.Empty"}, pol: "on.t:1"}}})
	}
	// inconsistent / incomplete descriptor sets
	{
		a, b, c := mk()
		add(&caseT{own: []*fileT{a, b, c}, polls: []pollT{{modes: both, listed: []string{"a.A", "b.B"}, pol: "cl.t:1:omit=c.proto"}}})
		a, b, c = mk()
		c.deps = []string{"gone.proto"}
		add(&caseT{own: []*fileT{a, b, c}, polls: []pollT{{modes: both, listed: []string{"a.A", "b.B"}, pol: "cl.t:1"}}})
		a, b, c = mk()
		c.deps = []string{"a.proto"}
		add(&caseT{own: []*fileT{a, b, c}, polls: []pollT{{modes: both, listed: []string{"a.A"}, pol: "cl.t:1"}}})
		a, b, c = mk()
		add(&caseT{own: []*fileT{a, b, c}, polls: []pollT{{modes: both, listed: []string{"a.A", "b.B"}, pol: "cl.t:1:wrong=b.B>c.proto"}}})
		a, b, c = mk()
		add(&caseT{own: []*fileT{a, b, c}, polls: []pollT{{modes: both, listed: []string{"a.A", "b.B"}, pol: "on.t:1:errf=c.proto>12"}}})
		a, b, c = mk()
		add(&caseT{own: []*fileT{a, b, c}, polls: []pollT{{modes: both, listed: []string{"a.A", "b.B"}, pol: "on.t:1:garbage=s:a.A"}}})
		a, b, c = mk()
		add(&caseT{own: []*fileT{a, b, c}, polls: []pollT{{modes: both, listed: []string{"a.A", "b.B"}, pol: "on.t:1:badtype=s:a.A"}}})
	}
	// symbol-level inconsistency: every imported file is served, but a method type is defined nowhere /
	// only in a served file that is not imported (stale shared .proto) — must be an error report
	{
		a, b, c := mk()
		a.svcs[0].methods[0].out = "c.Reply" // c.proto is served and imported, but declares no Reply
		add(&caseT{own: []*fileT{a, b, c}, polls: []pollT{{modes: both, listed: []string{"a.A"}, pol: "cl.t:1"}}})
		a, b, c = mk()
		a.svcs[0].methods[0].in = "nope.Missing"
		add(&caseT{own: []*fileT{a, b, c}, polls: []pollT{{modes: both, listed: []string{"a.A", "b.B"}, pol: "on.t:1"}}})
		a, b, c = mk()
		d := &fileT{name: "d.proto", pkg: "d", msgs: []string{"d.M"}}
		b.deps = append(b.deps, "d.proto")
		a.svcs[0].methods[0].out = "d.M" // d.proto reaches the registry through b.proto, a.proto does not import it
		add(&caseT{own: []*fileT{a, b, c, d}, polls: []pollT{{modes: both, listed: []string{"a.A", "b.B"}, pol: "cm.t:1"}}})
		a, b, c = mk()
		a.svcs[0].methods[0].out = "c.Reply"
		add(&caseT{wire: true, own: []*fileT{a, b, c}, polls: []pollT{{modes: [2]string{"uS", "ok"}, listed: []string{"a.A"}, pol: "cl.t:1"}}})
	}
	// a conformant service that drip-feeds unrelated files: one more round per file (see C05_unfocused_needs_rounds)
	return out
}
