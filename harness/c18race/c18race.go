// Package c18race is the implementation-side search of property C18: scenarios are run in a
// binary built with -race (GORACE=log_path=… halt_on_error=0 set by ./check) and every data race
// the Go race detector reports becomes a VIOL line naming the grpcbridge functions involved.
// It is a search aid (judge "self"), never a proof: no model can exhibit a runtime data race.
package c18race

import (
	"context"
	"fmt"
	"io"
	"math/rand"
	"net"
	"net/http"
	"net/http/httptest"
	"os"
	"path/filepath"
	"sort"
	"strings"
	"sync"
	"time"

	"github.com/gorilla/websocket"
	grpcbridge "github.com/renbou/grpcbridge"
	"github.com/renbou/grpcbridge/bridgedesc"
	"github.com/renbou/grpcbridge/bridgelog"
	"github.com/renbou/grpcbridge/grpcadapter"
	"github.com/renbou/grpcbridge/reflection"
	"github.com/renbou/grpcbridge/routing"
	"github.com/renbou/grpcbridge/verifx"
	"github.com/renbou/grpcbridge/webbridge"
	"google.golang.org/grpc"
	"google.golang.org/grpc/codes"
	"google.golang.org/grpc/credentials/insecure"
	"google.golang.org/grpc/metadata"
	grpcreflect "google.golang.org/grpc/reflection"
	reflectionv1 "google.golang.org/grpc/reflection/grpc_reflection_v1"
	reflectionalpha "google.golang.org/grpc/reflection/grpc_reflection_v1alpha"
	"google.golang.org/grpc/status"
	"google.golang.org/grpc/test/bufconn"
	"google.golang.org/protobuf/proto"
	"google.golang.org/protobuf/reflect/protoregistry"
	"google.golang.org/protobuf/types/known/emptypb"
	"google.golang.org/protobuf/types/known/structpb"
)

type Area struct{}

func (Area) Name() string { return "c18race" }

func (Area) Gen(r *rand.Rand, tier string, emit func(string)) {
	emit("race straggler-http")
	emit("race wsburst 0")
	emit("race wsburst 1")
	emit("race deadline 0")
	emit("race deadline 1")
	emit("race resolvers")
	// a user-supplied plain logger (no With method of its own) carrying k key/value pairs: the wrappers derived from it
	// per target / per request must not share a backing array (added for D34: `append(wl.args, args...)` aliased siblings)
	for _, k := range []int{3, 5} {
		emit(fmt.Sprintf("race loggers %d", k))
	}
	// concurrent gRPC-Web calls that FAIL before the target returned trailers (routing failure, over HTTP and WebSocket),
	// and concurrent pool.New calls with per-call options on defaults with spare capacity (added for seeded C18-m5 / C18-m6)
	emit("race grpcwebfail")
	emit("race poolopts")
	// concurrent transcoded requests whose Content-Type / Accept are registered media types written non-canonically
	// (parameters, other case): one StandardTranscoder is shared by all requests of a bridge (seeded C18-m7)
	emit("race bindmime")
	// added with the happens-before / published-immutable deepening: a resolver woken by its TIMER while ResolveNow callers
	// run the once-closure of the current generation (the channel field may only be re-armed after a receive from it);
	// MANY UpdateDesc of one target against RouteHTTP readers of the same HTTP method (the published static table and the
	// route slices it holds must never be reused for the next version); concurrent requests whose responses are lists / maps
	emit("race resolvertimer")
	emit("race updroutes")
	emit("race listmap")
	n := 2
	if tier == "thorough" {
		n = 12
	}
	for i := 0; i < n; i++ {
		emit(fmt.Sprintf("race mixed %d %d", r.Int63n(1<<31), 300))
		emit(fmt.Sprintf("race lifecycle %d %d", r.Int63n(1<<31), 12))
	}
}

var (
	logMu  sync.Mutex
	logOff = map[string]int64{}
)

// newReports returns the race reports written since the previous call, canonicalised.
func newReports() []string {
	logMu.Lock()
	defer logMu.Unlock()
	prefix := os.Getenv("VERIF_RACE_LOG")
	if prefix == "" {
		return nil
	}
	time.Sleep(150 * time.Millisecond)
	files, _ := filepath.Glob(prefix + ".*")
	var out []string
	for _, f := range files {
		b, err := os.ReadFile(f)
		if err != nil {
			continue
		}
		off := logOff[f]
		if int64(len(b)) <= off {
			continue
		}
		txt := string(b[off:])
		logOff[f] = int64(len(b))
		for _, blk := range strings.Split(txt, "WARNING: DATA RACE")[1:] {
			seen := map[string]bool{}
			var fnsList []string
			for _, ln := range strings.Split(blk, "\n") {
				ln = strings.TrimSpace(ln)
				if !strings.HasPrefix(ln, "github.com/renbou/grpcbridge") {
					continue
				}
				ln = strings.TrimPrefix(ln, "github.com/renbou/grpcbridge")
				ln = strings.TrimPrefix(ln, "/")
				if i := strings.Index(ln, "()"); i >= 0 {
					ln = ln[:i]
				}
				if i := strings.Index(ln, ".func"); i >= 0 { // closures: keep the enclosing function
					ln = ln[:i]
				}
				if !seen[ln] {
					seen[ln] = true
					fnsList = append(fnsList, ln)
				}
			}
			sort.Strings(fnsList)
			if len(fnsList) > 14 {
				fnsList = fnsList[:14]
			}
			out = append(out, strings.Join(fnsList, ","))
		}
	}
	sort.Strings(out)
	// de-duplicate
	var uniq []string
	for i, s := range out {
		if i == 0 || s != out[i-1] {
			uniq = append(uniq, s)
		}
	}
	return uniq
}

func (Area) Exec(input string) string {
	f := strings.Fields(input)
	if len(f) < 2 || f[0] != "race" {
		return "BAD op"
	}
	if os.Getenv("VERIF_RACE_LOG") == "" {
		return "BAD VERIF_RACE_LOG not set (area must run from the -race build via ./check)"
	}
	newReports() // drop anything left over
	switch f[1] {
	case "straggler-http":
		stragglerHTTP()
	case "wsburst":
		wsBurst(f[2] == "1")
	case "deadline":
		grpcWebDeadline(f[2] == "1")
	case "resolvers":
		resolvers()
	case "bindmime":
		bindMime()
	case "resolvertimer":
		resolverTimer()
	case "updroutes":
		updRoutes()
	case "listmap":
		listMap()
	case "grpcwebfail":
		grpcWebFail()
	case "poolopts":
		poolOpts()
	case "loggers":
		var k int
		fmt.Sscan(f[2], &k)
		loggers(k)
	case "mixed":
		var seed int64
		var n int
		fmt.Sscan(f[2], &seed)
		fmt.Sscan(f[3], &n)
		mixed(seed, n)
	case "lifecycle":
		var seed int64
		var n int
		fmt.Sscan(f[2], &seed)
		fmt.Sscan(f[3], &n)
		lifecycle(seed, n)
	default:
		return "BAD scenario"
	}
	reps := newReports()
	panicMu.Lock()
	if len(panics) > 0 {
		sort.Strings(panics)
		reps = append(reps, "panic in scenario goroutine: "+strings.Join(panics, ","))
		panics = nil
	}
	panicMu.Unlock()
	if len(reps) == 0 {
		return "OK nt b=" + f[1]
	}
	return "VIOL race " + strings.Join(reps, ";")
}

// ---------- WebSocket burst: pipelined client messages on both WebSocket transports ----------

// burstConn buffers writes while hold is set and sends them in ONE write on release, so that several
// WebSocket frames are already in the bridge's socket buffer when its read loop handles the first one.
type burstConn struct {
	net.Conn
	mu   sync.Mutex
	hold bool
	buf  []byte
}

func (c *burstConn) Write(b []byte) (int, error) {
	c.mu.Lock()
	if c.hold {
		c.buf = append(c.buf, b...)
		c.mu.Unlock()
		return len(b), nil
	}
	c.mu.Unlock()
	return c.Conn.Write(b)
}

func (c *burstConn) release() {
	c.mu.Lock()
	b := c.buf
	c.buf, c.hold = nil, false
	c.mu.Unlock()
	_, _ = c.Conn.Write(b)
}

type bidiRouter struct{ t *bridgedesc.Target }

func (r bidiRouter) RouteHTTP(*http.Request) (grpcadapter.ClientConn, routing.HTTPRoute, error) {
	svc := &r.t.Services[0]
	m := &bridgedesc.Method{RPCName: "/t.S/B", Input: bridgedesc.ConcreteMessage[structpb.Struct](), Output: bridgedesc.ConcreteMessage[structpb.Struct](), ClientStreaming: true, ServerStreaming: true}
	return echoConn{}, routing.HTTPRoute{Target: r.t, Service: svc, Method: m,
		Binding: &bridgedesc.Binding{HTTPMethod: "GET", Pattern: "/b", RequestBodyPath: "*"}}, nil
}

func (r bidiRouter) RouteGRPC(context.Context) (grpcadapter.ClientConn, routing.GRPCRoute, error) {
	return echoConn{}, routing.GRPCRoute{Target: r.t, Service: &r.t.Services[0], Method: bridgedesc.DummyMethod("t.S", "B")}, nil
}

// echoConn's streams swallow requests and end when the client half-closes or the context ends.
type echoConn struct{}

func (echoConn) Close() {}
func (echoConn) Stream(ctx context.Context, method string) (grpcadapter.ClientStream, error) {
	return &echoStream{closed: make(chan struct{})}, nil
}

type echoStream struct {
	closed chan struct{}
	once   sync.Once
}

func (s *echoStream) Send(context.Context, proto.Message) error { return nil }
func (s *echoStream) Recv(ctx context.Context, m proto.Message) error {
	select {
	case <-s.closed:
		return io.EOF
	case <-ctx.Done():
		return ctx.Err()
	}
}
func (s *echoStream) Header() metadata.MD  { return nil }
func (s *echoStream) Trailer() metadata.MD { return nil }
func (s *echoStream) CloseSend()           { s.once.Do(func() { close(s.closed) }) }
func (s *echoStream) Close()               { s.once.Do(func() { close(s.closed) }) }

func wsBurst(grpcws bool) {
	rt := bidiRouter{unaryTarget("t")}
	var h http.Handler
	if grpcws {
		h = webbridge.NewGRPCWebSocketBridge(rt, webbridge.GRPCWebBridgeOpts{Logger: bridgelog.Discard()})
	} else {
		h = webbridge.NewTranscodedWebSocketBridge(rt, webbridge.TranscodedWebSocketBridgeOpts{})
	}
	srv := httptest.NewServer(h)
	defer srv.Close()
	for round := 0; round < 3; round++ {
		var bc *burstConn
		d := websocket.Dialer{NetDial: func(network, addr string) (net.Conn, error) {
			c, err := net.Dial(network, addr)
			if err != nil {
				return nil, err
			}
			bc = &burstConn{Conn: c}
			return bc, nil
		}}
		if grpcws {
			d.Subprotocols = []string{"grpc-websockets"}
		}
		c, _, err := d.Dial("ws"+strings.TrimPrefix(srv.URL, "http")+"/b", nil)
		if err != nil {
			return
		}
		bc.mu.Lock()
		bc.hold = true
		bc.mu.Unlock()
		if grpcws {
			_ = c.WriteMessage(websocket.BinaryMessage, []byte("x-a: b\r\n"))
		}
		for i := 0; i < 24; i++ {
			payload := fmt.Sprintf(`{"k%d":"%s"}`, i, strings.Repeat(string(rune('a'+i%26)), 3000))
			if grpcws {
				pb, _ := proto.Marshal(&emptypb.Empty{})
				_ = pb
				body := append([]byte{0, 0, 0, 0, 0, 0}, []byte(strings.Repeat(string(rune(8+i%100)), 3000))...)
				_ = c.WriteMessage(websocket.BinaryMessage, body)
			} else {
				_ = c.WriteMessage(websocket.TextMessage, []byte(payload))
			}
		}
		bc.release()
		time.Sleep(150 * time.Millisecond)
		_ = c.WriteMessage(websocket.CloseMessage, websocket.FormatCloseMessage(1000, ""))
		_ = c.SetReadDeadline(time.Now().Add(2 * time.Second))
		for {
			if _, _, err := c.ReadMessage(); err != nil {
				break
			}
		}
		c.Close()
	}
	time.Sleep(100 * time.Millisecond)
}

// ---------- deadline while the target is silent: handler finishing vs the response pump ----------

// silentConn's streams never answer: Recv blocks until its context ends.
type silentConn struct{}

func (silentConn) Close() {}
func (silentConn) Stream(ctx context.Context, method string) (grpcadapter.ClientStream, error) {
	return silentStream{}, nil
}

type silentStream struct{}

func (silentStream) Send(context.Context, proto.Message) error { return nil }
func (silentStream) Recv(ctx context.Context, m proto.Message) error {
	<-ctx.Done()
	return status.FromContextError(ctx.Err()).Err()
}
func (silentStream) Header() metadata.MD  { return metadata.MD{"x-h": []string{"1"}} }
func (silentStream) Trailer() metadata.MD { return metadata.MD{"x-t": []string{"1"}} }
func (silentStream) CloseSend()           {}
func (silentStream) Close()               {}

type silentRouter struct{ t *bridgedesc.Target }

func (r silentRouter) RouteGRPC(context.Context) (grpcadapter.ClientConn, routing.GRPCRoute, error) {
	return silentConn{}, routing.GRPCRoute{Target: r.t, Service: &r.t.Services[0], Method: bridgedesc.DummyMethod("t.S", "B")}, nil
}

// grpcWebDeadline: gRPC-Web calls (HTTP or WebSocket) with a 50 ms grpc-timeout against a target that never
// answers; the trailer metadata set by the response pump is read by the handler right after Forward returns.
func grpcWebDeadline(ws bool) {
	rt := silentRouter{unaryTarget("t")}
	fwd := grpcadapter.NewProxyForwarder(grpcadapter.ProxyForwarderOpts{Filter: grpcadapter.NewProxyMDFilter(grpcadapter.ProxyMDFilterOpts{
		AllowResponseMD: []string{"x-h"}, AllowTrailerMD: []string{"x-t"}})})
	var h http.Handler
	if ws {
		h = webbridge.NewGRPCWebSocketBridge(rt, webbridge.GRPCWebBridgeOpts{Logger: bridgelog.Discard(), Forwarder: fwd})
	} else {
		h = webbridge.NewGRPCWebBridge(rt, webbridge.GRPCWebBridgeOpts{Forwarder: fwd})
	}
	srv := httptest.NewServer(h)
	defer srv.Close()
	for i := 0; i < 6; i++ {
		if ws {
			d := websocket.Dialer{Subprotocols: []string{"grpc-websockets"}}
			c, _, err := d.Dial("ws"+strings.TrimPrefix(srv.URL, "http")+"/t.S/B", nil)
			if err != nil {
				return
			}
			_ = c.WriteMessage(websocket.BinaryMessage, []byte("grpc-timeout: 50m\r\n"))
			_ = c.WriteMessage(websocket.BinaryMessage, []byte{0, 0, 0, 0, 0, 0})
			_ = c.SetReadDeadline(time.Now().Add(2 * time.Second))
			for {
				if _, _, err := c.ReadMessage(); err != nil {
					break
				}
			}
			c.Close()
		} else {
			req, _ := http.NewRequest("POST", srv.URL+"/t.S/B", strings.NewReader("\x00\x00\x00\x00\x00"))
			req.Header.Set("Content-Type", "application/grpc-web+proto")
			req.Header.Set("Grpc-Timeout", "50m")
			cl := &http.Client{Timeout: 3 * time.Second}
			if resp, err := cl.Do(req); err == nil {
				_, _ = io.ReadAll(resp.Body)
				resp.Body.Close()
			}
		}
	}
	time.Sleep(100 * time.Millisecond)
}

// ---------- two resolvers polling concurrently, one target serving only the non-preferred reflection version ----------

func resolvers() {
	mk := func(alpha bool) (*bufconn.Listener, *grpc.Server) {
		lis := bufconn.Listen(1 << 16)
		srv := grpc.NewServer()
		if alpha {
			reflectionalpha.RegisterServerReflectionServer(srv, grpcreflect.NewServer(grpcreflect.ServerOptions{Services: srv}))
		} else {
			reflectionv1.RegisterServerReflectionServer(srv, grpcreflect.NewServerV1(grpcreflect.ServerOptions{Services: srv}))
		}
		go func() { _ = srv.Serve(lis) }()
		return lis, srv
	}
	la, sa := mk(true)
	lb, sb := mk(false)
	defer sa.Stop()
	defer sb.Stop()
	liss := map[string]*bufconn.Listener{"a": la, "b": lb}
	pool := grpcadapter.NewAdaptedClientPool(grpcadapter.AdaptedClientPoolOpts{NewClientFunc: func(target string, opts ...grpc.DialOption) (*grpc.ClientConn, error) {
		lis := liss[target]
		return grpc.NewClient("passthrough:///"+target, append(opts,
			grpc.WithContextDialer(func(ctx context.Context, _ string) (net.Conn, error) { return lis.DialContext(ctx) }),
			grpc.WithTransportCredentials(insecure.NewCredentials()))...)
	}})
	ca, err := pool.New("a", "a")
	if err != nil {
		return
	}
	defer ca.Close()
	cb, err := pool.New("b", "b")
	if err != nil {
		return
	}
	defer cb.Close()
	rb := reflection.NewResolverBuilder(pool, reflection.ResolverOpts{PollManually: true, ReqTimeout: 2 * time.Second})
	ra := rb.Build("a", nopWatcher{})
	rbb := rb.Build("b", nopWatcher{})
	var wg sync.WaitGroup
	for _, r := range []*reflection.Resolver{ra, rbb} {
		wg.Add(1)
		go func(r *reflection.Resolver) {
			defer wg.Done()
			for i := 0; i < 40; i++ {
				r.ResolveNow()
				time.Sleep(5 * time.Millisecond)
			}
		}(r)
	}
	wg.Wait()
	time.Sleep(100 * time.Millisecond)
	ra.Close()
	rbb.Close()
}

var (
	panicMu sync.Mutex
	panics  []string
)

// safely runs f and turns a panic of the code under test (e.g. close of a closed channel) into a reported finding
// instead of killing the harness process.
func safely(f func()) {
	defer func() {
		if p := recover(); p != nil {
			panicMu.Lock()
			msg := strings.Fields(fmt.Sprint(p))
			if len(msg) > 6 {
				msg = msg[:6]
			}
			seen := false
			for _, x := range panics {
				seen = seen || x == strings.Join(msg, "_")
			}
			if !seen {
				panics = append(panics, strings.Join(msg, "_"))
			}
			panicMu.Unlock()
		}
	}()
	f()
}

// downConn refuses every stream at once: a poll fails fast and the poller is back in its select within microseconds.
type downConn struct{}

func (downConn) Close() {}
func (downConn) Stream(ctx context.Context, method string) (grpcadapter.ClientStream, error) {
	return nil, status.Error(codes.Unavailable, "down")
}

// resolverTimer: resolvers polling every millisecond (timer wake-ups) against concurrent ResolveNow callers.
func resolverTimer() {
	// The FIRST ResolveNow of every resolver is held between its atomic load and the call of the loaded closure (a sleep
	// orders nothing) until the poll timer (PollInterval is clamped to >= 1s) has woken the poller: the closure of the
	// generation that was current at the load must still be the current one, because a timer wake-up never re-arms.
	var first sync.Map
	verifx.SetHook(func(name string, args ...string) {
		if name == "resolver.resolveNow.loaded" && len(args) == 1 {
			if _, seen := first.LoadOrStore(args[0], true); !seen {
				time.Sleep(1250 * time.Millisecond)
			}
		}
	})
	defer verifx.SetHook(nil)
	rb := reflection.NewResolverBuilder(fakePool{downConn{}}, reflection.ResolverOpts{PollInterval: time.Second, ReqTimeout: 50 * time.Millisecond})
	var rs []*reflection.Resolver
	for _, n := range []string{"a", "b", "c"} {
		rs = append(rs, rb.Build(n, nopWatcher{}))
	}
	var wg sync.WaitGroup
	for _, r := range rs {
		wg.Add(1)
		go func(r *reflection.Resolver) {
			defer wg.Done()
			safely(r.ResolveNow) // straddles the timer wake-up
			var cg sync.WaitGroup
			for g := 0; g < 3; g++ {
				cg.Add(1)
				go func(g int) {
					defer cg.Done()
					for i := 0; i < 40; i++ {
						safely(r.ResolveNow)
						if (i+g)%3 == 0 {
							time.Sleep(200 * time.Microsecond)
						}
					}
				}(g)
			}
			cg.Wait()
		}(r)
	}
	wg.Wait()
	time.Sleep(20 * time.Millisecond)
	for _, r := range rs {
		r.Close()
	}
}

// updRoutes: one pattern router, two targets with bindings on the same HTTP methods; each target's description is replaced
// several hundred times (different numbers of bindings per version) while readers route requests of those methods.
func updRoutes() {
	pr := routing.NewPatternRouter(fakePool{fakeConn{}}, routing.PatternRouterOpts{})
	mk := func(name string, k int) *bridgedesc.Target {
		d := unaryTarget(name)
		m := &d.Services[0].Methods[0]
		m.Bindings = nil
		// consecutive versions have the same NUMBER of routes every other time (in-place refresh of a published slice would
		// be legal length-wise) but never the same patterns
		for j := 0; j <= (k/2)%4; j++ {
			m.Bindings = append(m.Bindings, bridgedesc.Binding{HTTPMethod: "POST", Pattern: fmt.Sprintf("/%s/v%d/{_=*}", name, (j+k)%4), RequestBodyPath: "*"},
				bridgedesc.Binding{HTTPMethod: "GET", Pattern: fmt.Sprintf("/%s/g%d", name, (j+k)%4)})
		}
		return d
	}
	var wg, rg sync.WaitGroup
	stop := make(chan struct{})
	for _, name := range []string{"a", "b"} {
		w, err := pr.Watch(name)
		if err != nil {
			return
		}
		defer w.Close()
		wg.Add(1)
		go func(name string) {
			defer wg.Done()
			for k := 0; k < 300; k++ {
				w.UpdateDesc(mk(name, k))
			}
		}(name)
	}
	for g := 0; g < 4; g++ {
		rg.Add(1)
		go func(g int) {
			defer rg.Done()
			for i := 0; ; i++ {
				select {
				case <-stop:
					return
				default:
				}
				name := []string{"a", "b"}[(g+i)%2]
				_, _, _ = pr.RouteHTTP(httptest.NewRequest("POST", fmt.Sprintf("/%s/v%d/x", name, i%4), strings.NewReader("{}")))
				_, _, _ = pr.RouteHTTP(httptest.NewRequest("GET", fmt.Sprintf("/%s/g%d", name, i%4), nil))
			}
		}(g)
	}
	wg.Wait()
	close(stop)
	rg.Wait()
}

// listMap: concurrent transcoded requests whose request and response are a Struct holding lists and maps (one marshaler /
// transcoder shared by all requests of the bridge).
type structRouter struct{ t *bridgedesc.Target }

func (r structRouter) RouteHTTP(*http.Request) (grpcadapter.ClientConn, routing.HTTPRoute, error) {
	svc := &r.t.Services[0]
	return structConn{}, routing.HTTPRoute{Target: r.t, Service: svc, Method: &svc.Methods[0],
		Binding: &bridgedesc.Binding{HTTPMethod: "POST", Pattern: "/s", RequestBodyPath: "*"}}, nil
}

type structConn struct{}

func (structConn) Close() {}
func (structConn) Stream(ctx context.Context, method string) (grpcadapter.ClientStream, error) {
	return &structStream{}, nil
}

var structResponse, _ = structpb.NewStruct(map[string]any{"l": []any{1.0, "two", []any{true, nil}, map[string]any{"k": "v"}},
	"m": map[string]any{"a": 1.0, "b": []any{"x", "y"}, "c": map[string]any{"d": map[string]any{}}}})

type structStream struct {
	fakeStream
}

func (s *structStream) Recv(ctx context.Context, m proto.Message) error {
	s.mu.Lock()
	defer s.mu.Unlock()
	s.recvd++
	if s.recvd == 1 {
		proto.Merge(m, structResponse)
		return nil
	}
	return io.EOF
}

func listMap() {
	t := unaryTarget("t")
	t.Services[0].Methods[0].Input = bridgedesc.ConcreteMessage[structpb.Struct]()
	t.Services[0].Methods[0].Output = bridgedesc.ConcreteMessage[structpb.Struct]()
	hb := webbridge.NewTranscodedHTTPBridge(structRouter{t}, webbridge.TranscodedHTTPBridgeOpts{})
	var wg sync.WaitGroup
	for g := 0; g < 4; g++ {
		wg.Add(1)
		go func(g int) {
			defer wg.Done()
			for i := 0; i < 60; i++ {
				body := fmt.Sprintf(`{"l":[%d,"s",[1,2,{"k":[]}]],"m":{"a":{"b":[%d]},"c":[{"d":1},{"e":[null]}]}}`, g, i)
				req := httptest.NewRequest("POST", "/s", strings.NewReader(body))
				req.Header.Set("Content-Type", "application/json")
				hb.ServeHTTP(httptest.NewRecorder(), req)
			}
		}(g)
	}
	wg.Wait()
}

type nopWatcher struct{}

func (nopWatcher) UpdateDesc(*bridgedesc.Target) {}
func (nopWatcher) ReportError(error)             {}

// ---------- fakes ----------

type fakePool struct{ conn grpcadapter.ClientConn }

func (p fakePool) Get(string) (grpcadapter.ClientConn, bool) { return p.conn, true }

type fakeConn struct{}

func (fakeConn) Close() {}
func (fakeConn) Stream(ctx context.Context, method string) (grpcadapter.ClientStream, error) {
	return &fakeStream{}, nil
}

// fakeStream answers one empty response then EOF.
type fakeStream struct {
	mu    sync.Mutex
	recvd int
}

func (s *fakeStream) Send(context.Context, proto.Message) error { return nil }
func (s *fakeStream) Recv(ctx context.Context, m proto.Message) error {
	s.mu.Lock()
	defer s.mu.Unlock()
	s.recvd++
	if s.recvd == 1 {
		return nil
	}
	return io.EOF
}
func (s *fakeStream) Header() metadata.MD  { return nil }
func (s *fakeStream) Trailer() metadata.MD { return nil }
func (s *fakeStream) CloseSend()           {}
func (s *fakeStream) Close()               {}

func unaryTarget(name string) *bridgedesc.Target {
	return &bridgedesc.Target{
		Name:         name,
		FileResolver: protoregistry.GlobalFiles,
		TypeResolver: protoregistry.GlobalTypes,
		Services: []bridgedesc.Service{{
			Name: "t.S",
			Methods: []bridgedesc.Method{{
				RPCName: "/t.S/M",
				Input:   bridgedesc.ConcreteMessage[emptypb.Empty](),
				Output:  bridgedesc.ConcreteMessage[emptypb.Empty](),
				Bindings: []bridgedesc.Binding{
					{HTTPMethod: "POST", Pattern: "/x/{_=*}", RequestBodyPath: "*"},
					{HTTPMethod: "GET", Pattern: "/y"},
				},
			}},
		}, {Name: "t.Other"}},
	}
}

type fixedRouter struct {
	t *bridgedesc.Target
}

func (r fixedRouter) RouteHTTP(*http.Request) (grpcadapter.ClientConn, routing.HTTPRoute, error) {
	svc := &r.t.Services[0]
	return fakeConn{}, routing.HTTPRoute{Target: r.t, Service: svc, Method: &svc.Methods[0],
		Binding: &bridgedesc.Binding{HTTPMethod: "POST", Pattern: "/x", RequestBodyPath: "*"}}, nil
}

// blockingWriter's Write parks until released. It deliberately does not signal its arrival: any
// signal would itself order the helper goroutine's write before the handler's later read.
type blockingWriter struct {
	h       http.Header
	release chan struct{}
}

func (w *blockingWriter) Header() http.Header { return w.h }
func (w *blockingWriter) WriteHeader(int)     {}
func (w *blockingWriter) Write(b []byte) (int, error) {
	<-w.release
	return len(b), nil
}

// stragglerHTTP: the deadline expires while the response write of a unary transcoded call is in
// flight; Forward returns, the handler runs its error path while the helper goroutine is still inside Write.
func stragglerHTTP() {
	bridge := webbridge.NewTranscodedHTTPBridge(fixedRouter{unaryTarget("t")}, webbridge.TranscodedHTTPBridgeOpts{})
	w := &blockingWriter{h: http.Header{}, release: make(chan struct{})}
	ctx, cancel := context.WithTimeout(context.Background(), 400*time.Millisecond)
	defer cancel()
	req := httptest.NewRequest("POST", "/x", strings.NewReader("{}")).WithContext(ctx)
	done := make(chan struct{})
	go func() {
		defer close(done)
		bridge.ServeHTTP(w, req)
	}()
	select {
	case <-done:
	case <-time.After(5 * time.Second):
	}
	close(w.release)
	<-done
	time.Sleep(50 * time.Millisecond)
}

// bindMime: many concurrent transcoded HTTP requests through ONE TranscodedHTTPBridge (one shared StandardTranscoder) with
// Content-Type / Accept values that name a registered media type in many different spellings, each seen for the first time
// by some request while others are being bound.
func bindMime() {
	hb := webbridge.NewTranscodedHTTPBridge(fixedRouter{unaryTarget("t")}, webbridge.TranscodedHTTPBridgeOpts{})
	var wg sync.WaitGroup
	for g := 0; g < 6; g++ {
		wg.Add(1)
		go func(g int) {
			defer wg.Done()
			for i := 0; i < 60; i++ {
				ct := []string{"application/json", "Application/JSON", "application/json; charset=utf-8", "application/JSON;q=1",
					"application/json ; a=b", "APPLICATION/json;charset=UTF-8"}[(g+i)%6]
				if i%2 == 0 {
					ct += fmt.Sprintf("; n=%d-%d", g, i) // a spelling nobody has sent before
				}
				ctx, cancel := context.WithTimeout(context.Background(), 20*time.Millisecond)
				req := httptest.NewRequest("POST", "/x", strings.NewReader("{}")).WithContext(ctx)
				req.Header.Set("Content-Type", ct)
				req.Header.Set("Accept", ct)
				hb.ServeHTTP(httptest.NewRecorder(), req)
				cancel()
			}
		}(g)
	}
	wg.Wait()
}

// failRouter fails every lookup, as a router does for a service that was just removed.
type failRouter struct{}

func (failRouter) RouteGRPC(ctx context.Context) (grpcadapter.ClientConn, routing.GRPCRoute, error) {
	return nil, routing.GRPCRoute{}, status.Errorf(codes.Unimplemented, "unknown service %s", grpc.ServerTransportStreamFromContext(ctx).Method())
}

// grpcWebFail: many concurrent gRPC-Web calls (HTTP and WebSocket) that end with a routing failure, i.e. before any
// target trailers exist: every call builds its own trailer metadata, nothing may be shared between calls.
func grpcWebFail() {
	hb := webbridge.NewGRPCWebBridge(failRouter{}, webbridge.GRPCWebBridgeOpts{})
	srv := httptest.NewServer(webbridge.NewGRPCWebSocketBridge(failRouter{}, webbridge.GRPCWebBridgeOpts{Logger: bridgelog.Discard()}))
	defer srv.Close()
	var wg sync.WaitGroup
	for g := 0; g < 6; g++ {
		wg.Add(1)
		go func(g int) {
			defer wg.Done()
			for i := 0; i < 40; i++ {
				path := fmt.Sprintf("/svc%d.S/M%d", g, i)
				if g%3 != 0 {
					req := httptest.NewRequest("POST", path, strings.NewReader("\x00\x00\x00\x00\x00"))
					req.Header.Set("Content-Type", "application/grpc-web+proto")
					hb.ServeHTTP(httptest.NewRecorder(), req)
					continue
				}
				d := websocket.Dialer{Subprotocols: []string{"grpc-websockets"}}
				c, _, err := d.Dial("ws"+strings.TrimPrefix(srv.URL, "http")+path, nil)
				if err != nil {
					continue
				}
				_ = c.WriteMessage(websocket.BinaryMessage, []byte("x-a: 1\r\n"))
				_ = c.SetReadDeadline(time.Now().Add(2 * time.Second))
				for {
					if _, _, err := c.ReadMessage(); err != nil {
						break
					}
				}
				c.Close()
			}
		}(g)
	}
	wg.Wait()
}

// poolOpts: concurrent AdaptedClientPool.New calls with per-call dial options on a pool whose default options slice
// has spare capacity (three chained options: len 3, cap 4): no call may see another call's options.
func poolOpts() {
	lis := bufconn.Listen(1 << 16)
	srv := grpc.NewServer()
	go func() { _ = srv.Serve(lis) }()
	defer srv.Stop()
	var defaults []grpc.DialOption
	defaults = append(defaults, grpc.WithTransportCredentials(insecure.NewCredentials()))
	defaults = append(defaults, grpc.WithUserAgent("a"))
	defaults = append(defaults, grpc.WithAuthority("b"))
	pool := grpcadapter.NewAdaptedClientPool(grpcadapter.AdaptedClientPoolOpts{DefaultOpts: defaults,
		NewClientFunc: func(target string, opts ...grpc.DialOption) (*grpc.ClientConn, error) {
			return grpc.NewClient("passthrough:///bufnet", opts...)
		}})
	var wg sync.WaitGroup
	for g := 0; g < 4; g++ {
		wg.Add(1)
		go func(g int) {
			defer wg.Done()
			for i := 0; i < 50; i++ {
				name := fmt.Sprintf("t%d", g)
				c, err := pool.New(name, "x", grpc.WithContextDialer(func(ctx context.Context, _ string) (net.Conn, error) { return lis.DialContext(ctx) }))
				if err == nil {
					c.Close()
				}
			}
		}(g)
	}
	wg.Wait()
}

// plainLog implements only bridgelog.PlainLogger (no With / WithComponent): bridgelog wraps it and keeps the
// attached key/value pairs itself. It reads every argument it is handed, as a real logger formats them.
type plainLog struct{ sink *int64 }

func (l plainLog) use(args []any) {
	n := int64(0)
	for _, a := range args {
		if s, ok := a.(string); ok {
			n += int64(len(s))
		}
	}
	if n < 0 {
		*l.sink = n
	}
}
func (l plainLog) Debug(_ string, a ...any) { l.use(a) }
func (l plainLog) Info(_ string, a ...any)  { l.use(a) }
func (l plainLog) Warn(_ string, a ...any)  { l.use(a) }
func (l plainLog) Error(_ string, a ...any) { l.use(a) }

// loggers: concurrent requests through a transcoding bridge, concurrent Watch calls on the routers and concurrently
// built resolvers, all deriving their per-target / per-request loggers from ONE user-supplied wrapped plain logger
// that already carries k key/value pairs (after 3 pairs its slice has spare capacity 2, after 5 pairs 6).
func loggers(k int) {
	var sink int64
	lg := bridgelog.WrapPlainLogger(plainLog{&sink})
	for i := 0; i < k; i++ {
		lg = lg.With(fmt.Sprintf("k%d", i), fmt.Sprintf("v%d", i))
	}
	pool := fakePool{fakeConn{}}
	pr := routing.NewPatternRouter(pool, routing.PatternRouterOpts{Logger: lg})
	sr := routing.NewServiceRouter(pool, routing.ServiceRouterOpts{Logger: lg})
	rb := reflection.NewResolverBuilder(pool, reflection.ResolverOpts{Logger: lg, PollManually: true})
	var wg sync.WaitGroup
	for gi, name := range []string{"a", "b", "c", "d"} {
		wg.Add(1)
		go func(gi int, name string) {
			defer wg.Done()
			for i := 0; i < 20; i++ {
				pw, err := pr.Watch(name)
				if err != nil {
					continue
				}
				sw, _ := sr.Watch(name)
				d := unaryTarget(name)
				pw.UpdateDesc(d)
				sw.UpdateDesc(d)
				res := rb.Build(name, nopWatcher{})
				res.ResolveNow()
				time.Sleep(time.Millisecond)
				res.Close()
				pw.Close()
				sw.Close()
			}
		}(gi, name)
	}
	hb := webbridge.NewTranscodedHTTPBridge(fixedRouter{unaryTarget("t")}, webbridge.TranscodedHTTPBridgeOpts{Logger: lg})
	gw := webbridge.NewGRPCWebBridge(silentRouter{unaryTarget("t")}, webbridge.GRPCWebBridgeOpts{Logger: lg})
	for g := 0; g < 4; g++ {
		wg.Add(1)
		go func(g int) {
			defer wg.Done()
			for i := 0; i < 60; i++ {
				ctx, cancel := context.WithTimeout(context.Background(), 20*time.Millisecond)
				if g%2 == 0 {
					req := httptest.NewRequest("POST", "/x", strings.NewReader("{}")).WithContext(ctx)
					hb.ServeHTTP(httptest.NewRecorder(), req)
				} else {
					req := httptest.NewRequest("POST", "/t.S/M", strings.NewReader("\x00\x00\x00\x00\x00")).WithContext(ctx)
					req.Header.Set("Content-Type", "application/grpc-web+proto")
					gw.ServeHTTP(httptest.NewRecorder(), req)
				}
				cancel()
			}
		}(g)
	}
	wg.Wait()
}

// mixed: routers under concurrent updates, closes, re-watches and lookups, plus transcoded requests.
func mixed(seed int64, n int) {
	pool := fakePool{fakeConn{}}
	pr := routing.NewPatternRouter(pool, routing.PatternRouterOpts{})
	sr := routing.NewServiceRouter(pool, routing.ServiceRouterOpts{})
	names := []string{"a", "b", "c"}
	var wg sync.WaitGroup
	for gi, name := range names {
		wg.Add(1)
		go func(gi int, name string) {
			defer wg.Done()
			r := rand.New(rand.NewSource(seed + int64(gi)))
			for i := 0; i < n/10; i++ {
				pw, err := pr.Watch(name)
				if err != nil {
					continue
				}
				sw, err := sr.Watch(name)
				if err != nil {
					pw.Close()
					continue
				}
				var uw sync.WaitGroup
				for k := 0; k < 1+r.Intn(4); k++ {
					d := unaryTarget(name)
					if r.Intn(2) == 0 {
						d.Services = d.Services[:1]
					}
					uw.Add(1)
					go func() { defer uw.Done(); pw.UpdateDesc(d); sw.UpdateDesc(d) }()
				}
				if r.Intn(2) == 0 {
					uw.Wait()
				}
				pw.Close()
				sw.Close()
				uw.Wait()
			}
		}(gi, name)
	}
	bridge := webbridge.NewTranscodedHTTPBridge(pr, webbridge.TranscodedHTTPBridgeOpts{})
	for g := 0; g < 4; g++ {
		wg.Add(1)
		go func(g int) {
			defer wg.Done()
			for i := 0; i < n; i++ {
				req := httptest.NewRequest("POST", "/x/1", strings.NewReader("{}"))
				if i%3 == 0 {
					bridge.ServeHTTP(httptest.NewRecorder(), req)
				} else {
					_, _, _ = pr.RouteHTTP(req)
				}
				ctx := grpc.NewContextWithServerTransportStream(context.Background(), methodStream("/t.S/M"))
				_, _, _ = sr.RouteGRPC(ctx)
			}
		}(g)
	}
	wg.Wait()
}

type methodStream string

func (m methodStream) Method() string               { return string(m) }
func (m methodStream) SetHeader(metadata.MD) error  { return nil }
func (m methodStream) SendHeader(metadata.MD) error { return nil }
func (m methodStream) SetTrailer(metadata.MD) error { return nil }

// lifecycle: ReflectionRouter Add/Remove and pool New/Get/Close under concurrency, against a bufconn
// server without any service (reflection answers Unimplemented at once, so polls are short).
func lifecycle(seed int64, n int) {
	lis := bufconn.Listen(1 << 16)
	srv := grpc.NewServer()
	go func() { _ = srv.Serve(lis) }()
	defer srv.Stop()
	dial := func(target string, opts ...grpc.DialOption) (*grpc.ClientConn, error) {
		return grpc.NewClient("passthrough:///bufnet", append(opts,
			grpc.WithContextDialer(func(ctx context.Context, _ string) (net.Conn, error) { return lis.DialContext(ctx) }),
			grpc.WithTransportCredentials(insecure.NewCredentials()))...)
	}
	rr := grpcbridge.NewReflectionRouter(grpcbridge.WithConnFunc(dial), grpcbridge.WithDisabledReflectionPolling())
	var wg sync.WaitGroup
	for g := 0; g < 3; g++ {
		wg.Add(1)
		go func(g int) {
			defer wg.Done()
			r := rand.New(rand.NewSource(seed + int64(g)))
			for i := 0; i < n; i++ {
				name := []string{"a", "b"}[r.Intn(2)]
				if r.Intn(2) == 0 {
					_, _ = rr.Add(name, "x")
				} else {
					rr.Remove(name)
				}
				req := httptest.NewRequest("POST", "/t.S/M", strings.NewReader("{}"))
				_, _, _ = rr.RouteHTTP(req)
			}
		}(g)
	}
	// direct pool use
	pool := grpcadapter.NewAdaptedClientPool(grpcadapter.AdaptedClientPoolOpts{NewClientFunc: dial})
	for g := 0; g < 2; g++ {
		wg.Add(1)
		go func(g int) {
			defer wg.Done()
			for i := 0; i < n; i++ {
				if g == 0 {
					if c, err := pool.New("p", "x"); err == nil {
						time.Sleep(time.Millisecond)
						c.Close()
					}
				} else {
					if cc, ok := pool.Get("p"); ok && cc != nil {
						ctx, cancel := context.WithTimeout(context.Background(), 20*time.Millisecond)
						if s, err := cc.Stream(ctx, "/t.S/M"); err == nil {
							s.Close()
						}
						cancel()
					}
					time.Sleep(500 * time.Microsecond)
				}
			}
		}(g)
	}
	wg.Wait()
	rr.Remove("a")
	rr.Remove("b")
}
