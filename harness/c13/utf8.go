package c13

import (
	"fmt"
	"math/rand"
	"strings"
	"unicode/utf8"

	"github.com/renbou/grpcbridge/webbridge"
	"verif/harness/common"
)

// ---- cr -----------------------------------------------------------------------------------------
//
//	cr <reason>  =>  <closeReason(reason)> <utf8.ValidString(reason) 0|1> <strings.ToValidUTF8(reason, "�")>
//
// The REAL webbridge.closeReason (tag-guarded export) next to Go's own UTF-8 validator and sanitiser:
// ties the Lean `closeReason`, `ValidUTF8` and `toValidUTF8` to the code byte for byte.
func execCR(f []string) string {
	if len(f) != 2 {
		return "BADARITY"
	}
	reason := string(common.MustUnHex(f[1]))
	return fmt.Sprintf("%s %s %s", common.HexS(webbridge.VerifCloseReason(reason)), b01(utf8.ValidString(reason)),
		common.HexS(strings.ToValidUTF8(reason, "�")))
}

// pieces a reason is assembled from: well-formed runes of every width, boundary code points, and every kind
// of malformed sequence (stray continuation, truncated rune, overlong, surrogate, > U+10FFFF, invalid lead)
var utf8Pieces = []string{
	"a", "z", " ", ":", "\x00", "\x7f", "é", "ß", "\u0080", "߿", "世", "ࠀ", "퟿", "", "￿", "�",
	"😀", "\U00010000", "\U0010ffff",
	"\x80", "\xbf", "\xc0\x80", "\xc1\xbf", "\xc2", "\xdf", "\xe0\x80\x80", "\xe0\x9f\xbf", "\xe0\xa0", "\xe2\x82", "\xe4\xb8",
	"\xed\xa0\x80", "\xed\xbf\xbf", "\xef\xbf", "\xf0\x80\x80\x80", "\xf0\x8f\xbf\xbf", "\xf0\x9f\x98", "\xf0\x9f", "\xf0",
	"\xf4\x90\x80\x80", "\xf4\x8f\xbf", "\xf5\x80\x80\x80", "\xf8\x88\x80\x80\x80", "\xfe", "\xff", "\x80\x80\x80\x80", "\xbf\xbf\xbf\xbf\xbf",
}

// genCR builds a reason whose interesting bytes sit around the cut (byte 123 of the SANITISED string, so the
// filler before them is ASCII or of known width): `fill` filler bytes, then a few pieces, then a tail.
func genCR(r *rand.Rand) string {
	var sb strings.Builder
	switch r.Intn(8) {
	case 0: // short, anything
		for i, n := 0, r.Intn(8); i < n; i++ {
			sb.WriteString(common.Pick(r, utf8Pieces))
		}
	case 1: // raw random bytes, biased to lead/continuation bytes
		n := r.Intn(200)
		pool := []byte{0x61, 0x80, 0xbf, 0xc2, 0xc3, 0xe0, 0xe2, 0xed, 0xef, 0xf0, 0xf4, 0xa0, 0x90, 0x8f, 0x9f, 0xff, 0x20}
		sb.Write(common.RandBytes(r, n, pool))
	case 2: // pieces only, long
		for sb.Len() < 100+r.Intn(80) {
			sb.WriteString(common.Pick(r, utf8Pieces))
		}
	default: // filler up to just before the cut, then pieces across it
		filler := common.Pick(r, []string{"a", "a", "a", "é", "世", "😀", "\xff", "\x80"})
		target := 112 + r.Intn(12)
		for sb.Len()+len(filler) <= target {
			sb.WriteString(filler)
		}
		for sb.Len() < target {
			sb.WriteByte('x')
		}
		for i, n := 0, 1+r.Intn(6); i < n; i++ {
			sb.WriteString(common.Pick(r, utf8Pieces))
		}
		for i, n := 0, r.Intn(12); i < n; i++ {
			sb.WriteString(common.Pick(r, []string{"b", "é", "世", "😀", "\xbf"}))
		}
	}
	s := sb.String()
	note(fmt.Sprintf("cr valid=%v long=%v", utf8.ValidString(s), len(strings.ToValidUTF8(s, "�")) > 123))
	return "cr " + common.HexS(s)
}

// crEdges: every piece right at every offset 118..124 behind an ASCII filler (the cut is at 123).
func crEdges(emit func(string)) {
	for _, p := range utf8Pieces {
		for off := 118; off <= 124; off++ {
			emit("cr " + common.HexS(strings.Repeat("a", off)+p+"tail"))
		}
	}
	emit("cr " + common.HexS(""))
	emit("cr " + common.HexS(strings.Repeat("\x80", 300)))
	emit("cr " + common.HexS(strings.Repeat("\xff", 123)+"a"))
	emit("cr " + common.HexS(strings.Repeat("a", 123)))
	emit("cr " + common.HexS(strings.Repeat("a", 124)))
}
