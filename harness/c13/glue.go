package c13

import (
	"bufio"
	"bytes"
	"context"
	"encoding/hex"
	"encoding/json"
	"errors"
	"fmt"
	"io"
	"net/http"
	"net/http/httptest"
	"strings"
	"sync"
	"time"

	"github.com/gorilla/websocket"
	grpcbridge "github.com/renbou/grpcbridge"
	"github.com/renbou/grpcbridge/bridgedesc"
	"github.com/renbou/grpcbridge/grpcadapter"
	"github.com/renbou/grpcbridge/routing"
	"github.com/renbou/grpcbridge/transcoding"
	"google.golang.org/grpc/codes"
	"google.golang.org/grpc/status"
	"google.golang.org/protobuf/proto"
	"google.golang.org/protobuf/reflect/protoreflect"
	"google.golang.org/protobuf/types/dynamicpb"
	"verif/harness/common"
)

// ---- glue: the bridge as the ROOT package wires it -------------------------------------------------
//
//	glue <opts> <entry http|sse|ws> <kind ss|bidi> <content-type -|j|b> <accept -|j|b> <frames> <resp…>
//	  => <status> <content-type|-> <records kind:codec:text…> <close|-> <target received…|-> <ret>
//
// opts    none | mj | mjb | mb | db | mjb+db | mb+db   (WithMarshalers([…]) / WithDefaultMarshaler(bin))
// frames  WebSocket only: string over {t,b} — a text frame carries the JSON encoding, a binary frame the
//         binary codec's encoding of {"text": "f<i>"}; "-" for the HTTP entry points
// record  kind = l (line of an NDJSON body) | e (SSE event) | t / b (WebSocket text / binary message);
//         codec = j | b | ! — which codec's encoding the record carries; text = the scripted string
//
// The bridge is grpcbridge.NewWebBridge(router, opts…) and every request goes through WebBridge.ServeHTTP,
// so the root constructor's plumbing and the dispatch are both in the path.

const glueBinMime = "application/x-c13-bin"

// glueBin is a codec flagged binary with its own content type. Its encoding is text-safe ("P:" + hex of
// the protobuf wire bytes) so that a record produced by it is recognisable whatever frame carries it.
type glueBin struct{}

func (glueBin) Marshal(_ bridgedesc.TypeResolver, msg protoreflect.Message, fd protoreflect.FieldDescriptor) ([]byte, error) {
	if fd != nil {
		return nil, errors.New("glueBin: only whole messages")
	}
	b, err := proto.MarshalOptions{Deterministic: true}.Marshal(msg.Interface())
	if err != nil {
		return nil, err
	}
	return []byte("P:" + hex.EncodeToString(b)), nil
}

func glueBinDecode(b []byte, msg proto.Message) error {
	s := strings.TrimSpace(string(b))
	if !strings.HasPrefix(s, "P:") {
		return errors.New("glueBin: not a binary-codec payload")
	}
	raw, err := hex.DecodeString(s[2:])
	if err != nil {
		return err
	}
	return proto.Unmarshal(raw, msg)
}

func (glueBin) Unmarshal(_ bridgedesc.TypeResolver, b []byte, msg protoreflect.Message, fd protoreflect.FieldDescriptor) error {
	if fd != nil {
		return errors.New("glueBin: only whole messages")
	}
	return glueBinDecode(b, msg.Interface())
}

func (glueBin) ContentType() (string, bool) { return glueBinMime, true }

type glueBinEncoder struct{ w io.Writer }

func (e glueBinEncoder) Encode(msg protoreflect.Message, fd protoreflect.FieldDescriptor) error {
	b, err := glueBin{}.Marshal(nil, msg, fd)
	if err != nil {
		return err
	}
	_, err = e.w.Write(append(b, '\n'))
	return err
}

type glueBinDecoder struct{ r *bufio.Reader }

func (d glueBinDecoder) Decode(msg protoreflect.Message, fd protoreflect.FieldDescriptor) error {
	line, err := d.r.ReadBytes('\n')
	if len(bytes.TrimSpace(line)) == 0 {
		if err == nil {
			err = io.EOF
		}
		return err
	}
	return glueBin{}.Unmarshal(nil, line, msg, fd)
}

func (glueBin) NewEncoder(_ bridgedesc.TypeResolver, w io.Writer) transcoding.Encoder {
	return glueBinEncoder{w}
}
func (glueBin) NewDecoder(_ bridgedesc.TypeResolver, r io.Reader) transcoding.Decoder {
	return glueBinDecoder{bufio.NewReader(r)}
}

// glueRouter implements the root package's Router (HTTP routing as in the other ops, no gRPC routes).
type glueRouter struct{ *fakeRouter }

func (glueRouter) RouteGRPC(context.Context) (grpcadapter.ClientConn, routing.GRPCRoute, error) {
	return nil, routing.GRPCRoute{}, status.Error(codes.Unimplemented, "c13: no gRPC routes")
}

func glueOptions(name string) ([]grpcbridge.BridgeOption, bool) {
	var opts []grpcbridge.BridgeOption
	for _, part := range strings.Split(name, "+") {
		switch part {
		case "none":
		case "mj":
			opts = append(opts, grpcbridge.WithMarshalers([]transcoding.Marshaler{transcoding.DefaultJSONMarshaler}))
		case "mjb":
			opts = append(opts, grpcbridge.WithMarshalers([]transcoding.Marshaler{transcoding.DefaultJSONMarshaler, glueBin{}}))
		case "mb":
			opts = append(opts, grpcbridge.WithMarshalers([]transcoding.Marshaler{glueBin{}}))
		case "db":
			opts = append(opts, grpcbridge.WithDefaultMarshaler(glueBin{}))
		default:
			return nil, false
		}
	}
	return opts, true
}

func glueMime(sel string) string {
	switch sel {
	case "j":
		return "application/json"
	case "b":
		return glueBinMime
	}
	return ""
}

// glueRecord classifies one record: which codec's encoding it carries and the scripted string inside.
func glueRecord(kind string, rec []byte) string {
	if bytes.HasPrefix(bytes.TrimSpace(rec), []byte("P:")) {
		m := dynamicpb.NewMessage(msgDesc)
		if glueBinDecode(rec, m) == nil {
			return kind + ":b:" + common.HexS(m.Get(fdText).String())
		}
		return kind + ":!:" + common.Hex(rec)
	}
	if s, ok := decodeRecord("", rec); ok {
		return kind + ":j:" + common.HexS(s)
	}
	return kind + ":!:" + common.Hex(rec)
}

func execGlue(f []string) string {
	if len(f) != 8 {
		return "BADARITY"
	}
	opts, ok := glueOptions(f[1])
	if !ok {
		return "BADOPTS"
	}
	entry, kind, ctSel, accSel, frames := f[2], f[3], f[4], f[5], f[6]
	resp := hexList(f[7])
	cs, ss := kind == "bidi", true
	if kind != "ss" && kind != "bidi" {
		return "BADKIND"
	}

	sc := newScript()
	sc.resp, sc.end = resp, endSpec{kind: "ok"}
	router := glueRouter{&fakeRouter{conn: &fakeConn{s: sc}, route: newRoute(cs, ss, "*", "")}}
	bridge := grpcbridge.NewWebBridge(router, opts...)
	returned := make(chan struct{}, 1)
	srv := httptest.NewServer(http.HandlerFunc(func(w http.ResponseWriter, r *http.Request) {
		defer func() {
			select {
			case returned <- struct{}{}:
			default:
			}
		}()
		bridge.ServeHTTP(w, r)
	}))
	defer srv.Close()

	hdr := http.Header{}
	if m := glueMime(ctSel); m != "" {
		hdr.Set("Content-Type", m)
	}
	switch {
	case entry == "sse":
		hdr.Set("Accept", "text/event-stream")
	case glueMime(accSel) != "":
		hdr.Set("Accept", glueMime(accSel))
	}

	// the request body / client frames: JSON in text form, the binary codec's encoding otherwise
	encode := func(binary bool, text string) []byte {
		if binary {
			m := dynamicpb.NewMessage(msgDesc)
			m.Set(fdText, protoreflect.ValueOfString(text))
			b, _ := glueBin{}.Marshal(nil, m, nil)
			return b
		}
		b, _ := json.Marshal(map[string]string{"text": text})
		return b
	}

	switch entry {
	case "http", "sse":
		close(sc.barrier)
		// the body is written in the codec the Content-Type names (the default codec is unknown to a client
		// that sends no Content-Type, so it sends nothing: an empty body is a valid empty request)
		var body []byte
		if ctSel != "-" {
			body = encode(ctSel == "b", "q")
		}
		req, err := http.NewRequest("POST", srv.URL+"/call", bytes.NewReader(body))
		if err != nil {
			return "REQERR"
		}
		for k, v := range hdr {
			req.Header[k] = v
		}
		client := &http.Client{Timeout: 20 * time.Second, Transport: &http.Transport{DisableCompression: true}}
		defer client.CloseIdleConnections()
		hresp, err := client.Do(req)
		if err != nil {
			return "DOERR " + common.HexS(err.Error())
		}
		defer hresp.Body.Close()
		raw, _ := io.ReadAll(hresp.Body)
		ct := "-"
		if v := hresp.Header["Content-Type"]; len(v) > 0 {
			ct = common.HexS(v[0])
		}
		var recs []string
		if hresp.StatusCode == 200 {
			if ct == common.HexS("text/event-stream") {
				var p sseParser
				p.feed(raw)
				for _, r := range p.recs {
					recs = append(recs, glueRecord("e", r))
				}
			} else {
				var p lineSplitter
				p.feed(raw)
				for _, r := range p.recs {
					recs = append(recs, glueRecord("l", r))
				}
			}
		}
		return fmt.Sprintf("%d %s %s - - ok", hresp.StatusCode, ct, joinList(recs))

	case "ws":
		if frames == "-" {
			frames = ""
		}
		dialer := websocket.Dialer{HandshakeTimeout: 5 * time.Second}
		conn, hresp, err := dialer.Dial("ws"+strings.TrimPrefix(srv.URL, "http")+"/call", hdr)
		if err != nil {
			close(sc.barrier)
			st := 0
			if hresp != nil {
				st = hresp.StatusCode
			}
			return fmt.Sprintf("%d - - - - ok", st)
		}
		defer conn.Close()
		conn.SetCloseHandler(func(code int, _ string) error {
			_ = conn.WriteControl(websocket.CloseMessage, websocket.FormatCloseMessage(code, ""), time.Now().Add(time.Second))
			return nil
		})
		pong := make(chan struct{}, 1)
		conn.SetPongHandler(func(string) error {
			select {
			case pong <- struct{}{}:
			default:
			}
			return nil
		})
		var mu sync.Mutex
		var recs []string
		closeOut := "none"
		readerDone := make(chan struct{})
		go func() {
			defer close(readerDone)
			for {
				mt, data, err := conn.ReadMessage()
				if err != nil {
					if ce, ok := err.(*websocket.CloseError); ok {
						closeOut = fmt.Sprintf("c%d", ce.Code)
					}
					return
				}
				k := "t"
				if mt == websocket.BinaryMessage {
					k = "b"
				}
				mu.Lock()
				recs = append(recs, glueRecord(k, data))
				mu.Unlock()
			}
		}()
		for i, c := range frames {
			mt := websocket.TextMessage
			if c == 'b' {
				mt = websocket.BinaryMessage
			}
			if conn.WriteMessage(mt, encode(c == 'b', fmt.Sprintf("f%d", i))) != nil {
				break
			}
		}
		// Barrier as in the ws op: a pong means every frame went through OnMessage. When a frame ended the
		// call the close arrives instead; the target is only released after either.
		_ = conn.WriteControl(websocket.PingMessage, nil, time.Now().Add(time.Second))
		select {
		case <-pong:
		case <-readerDone:
		case <-time.After(3 * time.Second):
		}
		// client streaming: the target answers once every frame the client sent has reached it — or the
		// close has arrived (a frame ended the call); a shortfall only costs the bounded wait
		if cs {
			deadline := time.Now().Add(500 * time.Millisecond)
		wait:
			for sc.count() < len(frames) && time.Now().Before(deadline) {
				select {
				case <-readerDone:
					break wait
				case <-time.After(500 * time.Microsecond):
				}
			}
		}
		close(sc.barrier)
		select {
		case <-readerDone:
		case <-time.After(6 * time.Second):
		}
		ret := "ok"
		select {
		case <-returned:
		case <-time.After(6 * time.Second):
			ret = "timeout"
		}
		_ = conn.Close()
		<-readerDone
		var recv []string
		for _, s := range sc.snapshot() {
			recv = append(recv, common.HexS(s))
		}
		mu.Lock()
		defer mu.Unlock()
		return fmt.Sprintf("101 - %s %s %s %s", joinList(recs), closeOut, joinList(recv), ret)
	}
	return "BADENTRY"
}
